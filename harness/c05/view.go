package c05

import (
	"fmt"
	"runtime/debug"
	"sort"
	"strings"

	apiv1 "k8s.io/api/core/v1"
	"k8s.io/apimachinery/pkg/types"
	"sigs.k8s.io/controller-runtime/pkg/client"
	gatewayv1 "sigs.k8s.io/gateway-api/apis/v1"
	"sigs.k8s.io/gateway-api/apis/v1alpha2"
	"sigs.k8s.io/gateway-api/apis/v1alpha3"

	"github.com/nginx/nginx-gateway-fabric/internal/mode/static/nginx/config/policies"
	"github.com/nginx/nginx-gateway-fabric/internal/mode/static/state/dataplane"
	"github.com/nginx/nginx-gateway-fabric/internal/mode/static/state/graph"
	p "github.com/nginx/nginx-gateway-fabric/verifharness/pipeline"
)

// The views are flat, space-separated `key=value` fields (values never contain spaces: all names come
// from DNS-1123 pools); "-" is the empty list. See lean/NGF/Driver/C05.lean for the decoder.
//
//	ns=<n,n,…>                                      Namespace objects in the store
//	gw=<ns>/<name>:<valid>                          winning Gateway of the graph ("-" = none)
//	ls=<name>:<attachable>:<from>:<hasSel>;…        its listeners; from ∈ A(ll) S(ame) L(selector) N(one/nil) X(nil From ptr)
//	rs=<kind>:<ns>/<name>:<attachable>:<gwns>/<gwname>~<section|*>~<hasPort>|… ;…   routes (kind H,G,T) with parentRefs
//
// They are computed by the REAL graph code (BuildGraph on the live store with the Namespaces map
// completed, so that the namespace lookup itself cannot panic while the view is built).

func b01(b bool) string {
	if b {
		return "1"
	}
	return "0"
}

func joinOrDash(xs []string, sep string) string {
	if len(xs) == 0 {
		return "-"
	}
	return strings.Join(xs, sep)
}

// shadowGraph builds the graph from the live cluster state with every namespace made present.
func (c *Ctl) shadowGraph() (g *graph.Graph, panicText string) {
	cs := c.Proc.VerifC05ClusterState()
	nss := map[types.NamespacedName]*apiv1.Namespace{}
	for k, v := range cs.Namespaces {
		nss[k] = v
	}
	need := func(ns string) {
		k := types.NamespacedName{Name: ns}
		if _, ok := nss[k]; !ok && ns != "" {
			nss[k] = &apiv1.Namespace{}
			nss[k].Name = ns
		}
	}
	for k := range cs.HTTPRoutes {
		need(k.Namespace)
	}
	for k := range cs.GRPCRoutes {
		need(k.Namespace)
	}
	for k := range cs.TLSRoutes {
		need(k.Namespace)
	}
	cs.Namespaces = nss
	// the bind view needs gateways, classes, routes and the NginxProxy only: leave out what later stages of
	// BuildGraph consume, so that a panic there cannot hide the view
	cs.BackendTLSPolicies = map[types.NamespacedName]*v1alpha3.BackendTLSPolicy{}
	cs.NGFPolicies = map[graph.PolicyKey]policies.Policy{}
	plus := map[types.NamespacedName][]graph.PlusSecretFile{}
	for k, v := range c.cfg.PlusSecrets {
		plus[k] = append([]graph.PlusSecretFile(nil), v...)
	}
	// setPlusSecretContent is not part of the bind view: give it nothing to look up
	plus = map[types.NamespacedName][]graph.PlusSecretFile{}
	defer func() {
		if r := recover(); r != nil {
			panicText = fmt.Sprintf("%v\n%s", r, debug.Stack())
		}
	}()
	g = graph.BuildGraph(cs, c.cfg.GatewayCtlrName, c.cfg.GatewayClassName, plus, c.cfg.Validators, c.cfg.ProtectedPorts)
	return g, ""
}

func fromCode(l *graph.Listener) string {
	ar := l.Source.AllowedRoutes
	if ar == nil || ar.Namespaces == nil {
		return "N"
	}
	if ar.Namespaces.From == nil {
		return "X"
	}
	switch *ar.Namespaces.From {
	case gatewayv1.NamespacesFromAll:
		return "A"
	case gatewayv1.NamespacesFromSame:
		return "S"
	case gatewayv1.NamespacesFromSelector:
		return "L"
	}
	return "O" // other value: falls through the switch in isRouteNamespaceAllowedByListener
}

func refsView(refs []graph.ParentRef) string {
	var out []string
	for _, r := range refs {
		sec := "*"
		if r.SectionName != nil && *r.SectionName != "" {
			sec = string(*r.SectionName)
		}
		out = append(out, fmt.Sprintf("%s/%s~%s~%s", r.Gateway.Namespace, r.Gateway.Name, sec, b01(r.Port != nil)))
	}
	return joinOrDash(out, "|")
}

// bindView renders the part of the graph that bindRoutesToListeners reads.
func (c *Ctl) bindView() (view string, shadowPanic string) {
	cs := c.Proc.VerifC05ClusterState()
	var nss []string
	for k := range cs.Namespaces {
		nss = append(nss, k.Name)
	}
	sort.Strings(nss)
	g, pt := c.shadowGraph()
	if pt != "" {
		return "ns=" + joinOrDash(nss, ",") + " gw=- ls=- rs=-", pt
	}
	gw, ls := "-", []string{}
	if g.Gateway != nil {
		gw = fmt.Sprintf("%s/%s:%s", g.Gateway.Source.Namespace, g.Gateway.Source.Name, b01(g.Gateway.Valid))
		for _, l := range g.Gateway.Listeners {
			ls = append(ls, fmt.Sprintf("%s:%s:%s:%s", l.Name, b01(l.Attachable), fromCode(l), b01(l.AllowedRouteLabelSelector != nil)))
		}
	}
	var rs []string
	for k, r := range g.Routes {
		kind := "H"
		if r.RouteType == graph.RouteTypeGRPC {
			kind = "G"
		}
		rs = append(rs, fmt.Sprintf("%s:%s/%s:%s:%s", kind, k.NamespacedName.Namespace, k.NamespacedName.Name,
			b01(r.Attachable), refsView(r.ParentRefs)))
	}
	for k, r := range g.L4Routes {
		rs = append(rs, fmt.Sprintf("T:%s/%s:%s:%s", k.NamespacedName.Namespace, k.NamespacedName.Name,
			b01(r.Attachable), refsView(r.ParentRefs)))
	}
	sort.Strings(rs)
	return fmt.Sprintf("ns=%s gw=%s ls=%s rs=%s", joinOrDash(nss, ","), gw, joinOrDash(ls, ";"), joinOrDash(rs, ";")), ""
}

// btpView renders what findBackendTLSPolicyForService will find on each BackendTLSPolicy of the store
// (computed by the real validateBackendTLSPolicy):
//
//	bt=<ancestors full>:<valid>:<number of conditions>;…
func (c *Ctl) btpView() string {
	cs := c.Proc.VerifC05ClusterState()
	var keys []types.NamespacedName
	for k := range cs.BackendTLSPolicies {
		keys = append(keys, k)
	}
	sort.Slice(keys, func(i, j int) bool { return keys[i].String() < keys[j].String() })
	var out []string
	for _, k := range keys {
		valid, _, full, n := graph.VerifC05ValidateBTP(cs.BackendTLSPolicies[k], cs.ConfigMaps, c.cfg.GatewayCtlrName)
		out = append(out, fmt.Sprintf("%s:%s:%d", b01(full), b01(valid), n))
	}
	return "bt=" + joinOrDash(out, ";")
}

// plusView renders what setPlusSecretContent and generateMgmtFiles read:
//
//	plus=<0|1> ps=<secretPresent>:<fieldPresent>:<type>;…   one entry per registered PlusSecretFile
func (c *Ctl) plusView() string {
	cs := c.Proc.VerifC05ClusterState()
	var ps []string
	var keys []types.NamespacedName
	for k := range c.cfg.PlusSecrets {
		keys = append(keys, k)
	}
	sort.Slice(keys, func(i, j int) bool { return keys[i].String() < keys[j].String() })
	for _, k := range keys {
		sec, present := cs.Secrets[k]
		for _, f := range c.cfg.PlusSecrets[k] {
			has := false
			if present {
				_, has = sec.Data[f.FieldName]
			}
			ps = append(ps, fmt.Sprintf("%s:%s:%d", b01(present), b01(has), int(f.Type)))
		}
	}
	return fmt.Sprintf("plus=%s ps=%s", b01(c.Opts.Plus), joinOrDash(ps, ";"))
}

// invView renders, from the graph and configuration the real pipeline produced, the data on which the
// invariants behind the other mirrored sites are evaluated by the Lean side:
//
//	pt=<type,type,…>            path types of every match of every rule with ValidMatches of the valid routes
//	                            attached to valid listeners (what upsertRoute hands to convertPathType)
//	br=<ns>/<name>/<port>,…     the (service, port) of every backendRef marked Valid (what Resolve receives)
//	hp=<port>:<op>,<op>…;…      per listener port the upsertRoute sequence: each op is the '+'-joined list of accepted
//	                            hostnames of one (listener, route) pair, "_" if none (input of the hostname-lookup site)
//	ur=<n>                      number of L7/L4 routes the graph declares invalid without any condition and without
//	                            any failed parentRef condition (nothing would be reported in their status)
//	up=<refs>;<refs>…           for each of those routes the Gateway parentRefs of its spec:
//	                            <gwns>/<gwname>~<section|*>~<port|->|…
//	rt=<type,…>                 RouteType of every L7 route in the graph
//	ft=<H|G>:<type>,…           (route kind, filter type) of every rule filter of the graph (input of validateFilter)
func invView(out p.Output) string {
	g := out.Graph
	var pt, br, hp, rt, ft []string
	if g == nil {
		return "pt=- br=- hp=- rt=- ft=- dp=- fx=- ur=0 up=-"
	}
	for _, r := range g.Routes {
		rt = append(rt, string(r.RouteType))
		for _, rule := range r.Spec.Rules {
			for _, f := range rule.Filters.Filters {
				k := "H:"
				if f.RouteType == graph.RouteTypeGRPC {
					k = "G:"
				}
				ft = append(ft, k+string(f.FilterType))
			}
		}
	}
	if g.Gateway != nil {
		ports := map[int32][]string{}
		for _, l := range g.Gateway.Listeners {
			if !l.Valid {
				continue
			}
			for _, r := range l.Routes {
				if !r.Valid {
					continue
				}
				op := "_"
				for _, pr := range r.ParentRefs {
					if pr.Attachment == nil {
						continue
					}
					if val, ok := pr.Attachment.AcceptedHostnames[string(l.Source.Name)]; ok {
						if len(val) > 0 {
							op = strings.Join(val, "+")
						}
						break
					}
				}
				ports[int32(l.Source.Port)] = append(ports[int32(l.Source.Port)], op)
				for _, rule := range r.Spec.Rules {
					if !rule.ValidMatches {
						continue
					}
					for _, m := range rule.Matches {
						switch {
						case m.Path == nil:
							pt = append(pt, "nil-path")
						case m.Path.Type == nil:
							pt = append(pt, "nil-type")
						default:
							pt = append(pt, string(*m.Path.Type))
						}
					}
					if !rule.Filters.Valid {
						continue
					}
					for _, b := range rule.BackendRefs {
						if b.Valid {
							br = append(br, fmt.Sprintf("%s/%s/%d", orQ(b.SvcNsName.Namespace), orQ(b.SvcNsName.Name), b.ServicePort.Port))
						}
					}
				}
			}
			for _, r := range l.L4Routes {
				if r.Valid && r.Spec.BackendRef.Valid {
					b := r.Spec.BackendRef
					br = append(br, fmt.Sprintf("%s/%s/%d", orQ(b.SvcNsName.Namespace), orQ(b.SvcNsName.Name), b.ServicePort.Port))
				}
			}
		}
		var pk []int
		for k := range ports {
			pk = append(pk, int(k))
		}
		sort.Ints(pk)
		for _, k := range pk {
			hp = append(hp, fmt.Sprintf("%d:%s", k, strings.Join(ports[int32(k)], ",")))
		}
	}
	sort.Strings(pt)
	sort.Strings(br)
	sort.Strings(rt)
	sort.Strings(ft)
	ur := unreported(out)
	return fmt.Sprintf("pt=%s br=%s hp=%s rt=%s ft=%s dp=%s fx=%s ur=%d up=%s", joinOrDash(uniq(pt), ","), joinOrDash(uniq(br), ","),
		joinOrDash(hp, ";"), joinOrDash(uniq(rt), ","), joinOrDash(uniq(ft), ","), depth(out), features(out), len(ur), joinOrDash(ur, ";"))
}

// depth summarises how far the case got into the pipeline (generator-quality statistic):
// <class valid><gateway valid>:<valid listeners>:<valid routes>:<attached parentRefs>:<http servers>:<upstreams>
func depth(out p.Output) string {
	g := out.Graph
	gc, gw, vl, vr, at, sv, up := 0, 0, 0, 0, 0, 0, 0
	if g.GatewayClass != nil && g.GatewayClass.Valid {
		gc = 1
	}
	if g.Gateway != nil {
		if g.Gateway.Valid {
			gw = 1
		}
		for _, l := range g.Gateway.Listeners {
			if l.Valid {
				vl++
			}
		}
	}
	for _, r := range g.Routes {
		if r.Valid {
			vr++
		}
		for _, pr := range r.ParentRefs {
			if pr.Attachment != nil && pr.Attachment.Attached {
				at++
			}
		}
	}
	for _, r := range g.L4Routes {
		if r.Valid {
			vr++
		}
		for _, pr := range r.ParentRefs {
			if pr.Attachment != nil && pr.Attachment.Attached {
				at++
			}
		}
	}
	if out.Conf != nil {
		sv = len(out.Conf.HTTPServers) + len(out.Conf.SSLServers) + len(out.Conf.TLSPassthroughServers)
		up = len(out.Conf.Upstreams) + len(out.Conf.StreamUpstreams)
	}
	return fmt.Sprintf("%d%d:%d:%d:%d:%d:%d", gc, gw, vl, vr, at, sv, up)
}

// parentReport checks the reporting half of the property on the parentRefs of the real graph: every
// parentRef of an attachable route either attached or carries a failed condition (which
// prepareRouteStatus writes into the route's status).
//
//	pu=<n>              parentRefs of attachable routes with neither Attached nor a FailedCondition
//	nl=<reason,…>       for routes whose Namespace object is NOT in the store: what their parentRefs report
//	                    ("Attached" or the reason of the failed condition)
func (c *Ctl) parentReport(out p.Output) string {
	g := out.Graph
	if g == nil || g.Gateway == nil {
		return "pu=0 nl=-"
	}
	cs := c.Proc.VerifC05ClusterState()
	pu := 0
	reasons := map[string]bool{}
	visit := func(ns string, attachable bool, refs []graph.ParentRef) {
		if !attachable {
			return
		}
		_, known := cs.Namespaces[types.NamespacedName{Name: ns}]
		for _, pr := range refs {
			switch {
			case pr.Attachment == nil:
				pu++
			case pr.Attachment.Attached:
				if !known {
					reasons["Attached"] = true
				}
			case pr.Attachment.FailedCondition.Type == "":
				pu++
			default:
				if !known {
					reasons[pr.Attachment.FailedCondition.Reason] = true
				}
			}
		}
	}
	for k, r := range g.Routes {
		visit(k.NamespacedName.Namespace, r.Attachable, r.ParentRefs)
	}
	for k, r := range g.L4Routes {
		visit(k.NamespacedName.Namespace, r.Attachable, r.ParentRefs)
	}
	var rs []string
	for k := range reasons {
		rs = append(rs, k)
	}
	sort.Strings(rs)
	return fmt.Sprintf("pu=%d nl=%s", pu, joinOrDash(rs, ","))
}

// features lists which parts of the dataplane configuration the case produced (generator-quality
// statistic for the evidence: which generator code paths of BuildConfiguration / Generate were exercised).
func features(out p.Output) string {
	c := out.Conf
	if c == nil {
		return "-"
	}
	f := map[string]bool{}
	set := func(k string, b bool) {
		if b {
			f[k] = true
		}
	}
	set("sslkeypair", len(c.SSLKeyPairs) > 0)
	set("certbundle", len(c.CertBundles) > 0)
	set("passthrough", len(c.TLSPassthroughServers) > 0)
	set("streamupstream", len(c.StreamUpstreams) > 0)
	set("mainsnippet", len(c.MainSnippets) > 0)
	set("httpsnippet", len(c.BaseHTTPConfig.Snippets) > 0)
	set("telemetry", c.Telemetry.Endpoint != "")
	set("ratios", len(c.Telemetry.Ratios) > 0)
	set("rewriteclientip", c.BaseHTTPConfig.RewriteClientIPSettings.Mode != "")
	set("http2off", !c.BaseHTTPConfig.HTTP2)
	set("errorlevel", c.Logging.ErrorLevel != "" && c.Logging.ErrorLevel != "info")
	set("auxsecrets", len(c.AuxiliarySecrets) > 0)
	for _, u := range c.Upstreams {
		set("upstream-endpoints", len(u.Endpoints) > 0)
		set("upstream-error", u.ErrorMsg != "")
		set("upstream-policy", len(u.Policies) > 0)
	}
	for _, srv := range append(append([]dataplane.VirtualServer{}, c.HTTPServers...), c.SSLServers...) {
		set("server-ssl", srv.SSL != nil)
		set("server-policy", len(srv.Policies) > 0)
		for _, pr := range srv.PathRules {
			set("pathrule-policy", len(pr.Policies) > 0)
			set("grpc", pr.GRPC)
			set("exact", pr.PathType == dataplane.PathTypeExact)
			set("multi-match", len(pr.MatchRules) > 1)
			for _, mr := range pr.MatchRules {
				fl := mr.Filters
				set("f-invalid", fl.InvalidFilter != nil)
				set("f-redirect", fl.RequestRedirect != nil)
				set("f-rewrite", fl.RequestURLRewrite != nil)
				set("f-reqheaders", fl.RequestHeaderModifiers != nil)
				set("f-respheaders", fl.ResponseHeaderModifiers != nil)
				set("f-snippets", len(fl.SnippetsFilters) > 0)
				set("m-method", mr.Match.Method != nil)
				set("m-headers", len(mr.Match.Headers) > 0)
				set("m-query", len(mr.Match.QueryParams) > 0)
				set("split", len(mr.BackendGroup.Backends) > 1)
				for _, b := range mr.BackendGroup.Backends {
					set("backend-invalid", !b.Valid)
					set("backend-tls", b.VerifyTLS != nil)
					set("weight-0", b.Weight == 0)
				}
			}
		}
	}
	var ks []string
	for k := range f {
		ks = append(ks, k)
	}
	sort.Strings(ks)
	return joinOrDash(ks, ",")
}

// unreported lists the routes of the graph that are invalid although nothing says why.
func unreported(out p.Output) []string {
	var res []string
	if out.Graph == nil {
		return nil
	}
	silent := func(valid bool, conds int, refs []graph.ParentRef) bool {
		if valid || conds > 0 {
			return false
		}
		for _, pr := range refs {
			if pr.Attachment != nil && pr.Attachment.FailedCondition.Type != "" {
				return false
			}
		}
		return true
	}
	for _, r := range out.Graph.Routes {
		if silent(r.Valid, len(r.Conditions), r.ParentRefs) {
			res = append(res, specParents(r.Source))
		}
	}
	for _, r := range out.Graph.L4Routes {
		if silent(r.Valid, len(r.Conditions), r.ParentRefs) {
			res = append(res, specParents(r.Source))
		}
	}
	sort.Strings(res)
	return res
}

// specParents renders the parentRefs of a route's spec that name a Gateway (kind/group unset or Gateway).
func specParents(o client.Object) string {
	var refs []gatewayv1.ParentReference
	switch x := o.(type) {
	case *gatewayv1.HTTPRoute:
		refs = x.Spec.ParentRefs
	case *gatewayv1.GRPCRoute:
		refs = x.Spec.ParentRefs
	case *v1alpha2.TLSRoute:
		refs = x.Spec.ParentRefs
	}
	var out []string
	for _, p := range refs {
		if p.Kind != nil && *p.Kind != "Gateway" {
			continue
		}
		if p.Group != nil && *p.Group != gatewayv1.GroupName {
			continue
		}
		ns := o.GetNamespace()
		if p.Namespace != nil {
			ns = string(*p.Namespace)
		}
		sec, port := "*", "-"
		if p.SectionName != nil && *p.SectionName != "" {
			sec = string(*p.SectionName)
		}
		if p.Port != nil {
			port = fmt.Sprint(*p.Port)
		}
		out = append(out, fmt.Sprintf("%s/%s~%s~%s", ns, p.Name, sec, port))
	}
	return joinOrDash(out, "|")
}

func orQ(s string) string {
	if s == "" {
		return "?"
	}
	return s
}

func uniq(xs []string) []string {
	var out []string
	for i, x := range xs {
		if i == 0 || x != xs[i-1] {
			out = append(out, x)
		}
	}
	return out
}

