package c05

import (
	"fmt"
	"os"
	"runtime/debug"
	"strings"
	"time"

	metav1 "k8s.io/apimachinery/pkg/apis/meta/v1"
	"k8s.io/apimachinery/pkg/runtime/schema"
	"k8s.io/apimachinery/pkg/types"
	"sigs.k8s.io/controller-runtime/pkg/client"

	p "github.com/nginx/nginx-gateway-fabric/verifharness/pipeline"
)

// Event is one reconciler event: an upsert of the full object or a delete (bare type + name).
type Event struct {
	Del bool
	Obj client.Object
}

// Case is one generated history: batches of events, Apply() after each batch.
type Case struct {
	ID       int
	Profile  string
	Plus     bool
	PlusCA   bool
	PlusCl   bool
	Batches  [][]Event
	Tags     map[string]int
	Injected []string // unsupported / inconsistent features injected on purpose: "<Kind>/<ns>/<name>:<what>"
}

func kindOf(o client.Object) string {
	if pm, ok := o.(*metav1.PartialObjectMetadata); ok {
		return pm.Kind
	}
	return p.KindOf(o)
}

// bareType returns an empty object of the same Go type (and TypeMeta for partial metadata), as the
// reconciler's delete event carries it.
func bareType(o client.Object) client.Object {
	if pm, ok := o.(*metav1.PartialObjectMetadata); ok {
		return &metav1.PartialObjectMetadata{TypeMeta: pm.TypeMeta}
	}
	n, err := p.Scheme.New(mustGVK(o))
	if err != nil {
		panic(err)
	}
	return n.(client.Object)
}

func mustGVK(o client.Object) schema.GroupVersionKind {
	gvks, _, err := p.Scheme.ObjectKinds(o)
	if err != nil || len(gvks) == 0 {
		panic(fmt.Sprintf("no GVK for %T", o))
	}
	return gvks[0]
}

// Explain makes every step print the conditions of the graph to stderr (debugging aid: -explain).
var Explain bool

func explain(out p.Output) {
	g := out.Graph
	if g.GatewayClass != nil {
		fmt.Fprintf(os.Stderr, "  class valid=%v conds=%v\n", g.GatewayClass.Valid, g.GatewayClass.Conditions)
	}
	if g.Gateway != nil {
		fmt.Fprintf(os.Stderr, "  gateway %s valid=%v conds=%v\n", g.Gateway.Source.Name, g.Gateway.Valid, g.Gateway.Conditions)
		for _, l := range g.Gateway.Listeners {
			fmt.Fprintf(os.Stderr, "    listener %s %s:%d valid=%v attachable=%v routes=%d conds=%v\n", l.Name, l.Source.Protocol,
				l.Source.Port, l.Valid, l.Attachable, len(l.Routes)+len(l.L4Routes), l.Conditions)
		}
	}
	for k, r := range g.Routes {
		fmt.Fprintf(os.Stderr, "  route %v valid=%v attachable=%v conds=%v\n", k, r.Valid, r.Attachable, r.Conditions)
		for _, pr := range r.ParentRefs {
			if pr.Attachment != nil {
				fmt.Fprintf(os.Stderr, "    parent %v attached=%v failed=%v\n", pr.Gateway, pr.Attachment.Attached, pr.Attachment.FailedCondition)
			}
		}
	}
	for k, r := range g.L4Routes {
		fmt.Fprintf(os.Stderr, "  l4route %v valid=%v attachable=%v conds=%v\n", k, r.Valid, r.Attachable, r.Conditions)
	}
}

// StepResult is what one batch + Apply did.
type StepResult struct {
	Outcome  string // ok | nochange | panic | hang
	Phase    string // capture | apply | status   (where the panic happened)
	Site     string // pipeline.PanicSite of the panic
	Panic    string
	View     string // model input
	Elapsed  time.Duration
	Statuses int
}

// siteOf extracts "<file inside the repository> <package.function>" of the first frame inside the
// repository's internal/ tree from a recorded panic text (like pipeline.PanicSite, but keeping the
// receiver of methods: pipeline.PanicSite cuts the name at the first '(' and so loses "(*T).method").
func siteOf(pt string) string {
	lines := strings.Split(pt, "\n")
	for i := 1; i < len(lines); i++ {
		l := strings.TrimSpace(lines[i])
		if !strings.Contains(l, "/internal/") || !strings.Contains(l, ".go:") || strings.Contains(l, "/harness/") ||
			strings.Contains(l, "zz_verif_") {
			continue
		}
		fn := strings.TrimSpace(lines[i-1])
		// strip the argument list: the last balanced (...) group
		if strings.HasSuffix(fn, ")") {
			depth := 0
			for j := len(fn) - 1; j >= 0; j-- {
				if fn[j] == ')' {
					depth++
				} else if fn[j] == '(' {
					depth--
					if depth == 0 {
						fn = fn[:j]
						break
					}
				}
			}
		}
		if j := strings.LastIndex(fn, "/"); j >= 0 {
			fn = fn[j+1:]
		}
		f := l
		if j := strings.Index(f, "/internal/"); j >= 0 {
			f = f[j+1:]
		}
		if j := strings.Index(f, " "); j >= 0 {
			f = f[:j]
		}
		if j := strings.LastIndex(f, ":"); j >= 0 {
			f = f[:j]
		}
		return f + " " + fn
	}
	return "unknown"
}

func firstLine(s string) string {
	if i := strings.IndexByte(s, '\n'); i >= 0 {
		return s[:i]
	}
	return s
}

// runStep delivers one batch and applies it, all on the real code, recovering panics.
func (c *Ctl) runStep(batch []Event, known []client.Object, supported string) (res StepResult) {
	start := time.Now()
	defer func() { res.Elapsed = time.Since(start) }()

	var evs []string
	for _, e := range batch {
		k := kindOf(e.Obj)
		if e.Del {
			evs = append(evs, "D:"+k)
		} else {
			evs = append(evs, "U:"+k)
		}
	}
	storeView := "ev=" + joinOrDash(evs, ",") + " sk=" + supported

	// 1. capture
	capturePanic := func() (pt string) {
		defer func() {
			if r := recover(); r != nil {
				pt = fmt.Sprintf("%v\n%s", r, debug.Stack())
			}
		}()
		for _, e := range batch {
			if e.Del {
				c.Delete(bareType(e.Obj), client.ObjectKeyFromObject(e.Obj))
			} else {
				c.Upsert(e.Obj)
			}
		}
		return ""
	}()
	if capturePanic != "" {
		res.Outcome, res.Phase, res.Panic, res.Site = "panic", "capture", capturePanic, siteOf(capturePanic)
		res.View = storeView + " ch=1 ns=- gw=- ls=- rs=- plus=0 ps=- bt=- pt=- br=- hp=- rt=- ft=- dp=- fx=- ur=0 up=- pu=0 nl=- shadow=-"
		return res
	}

	// 2. views of what the graph builder is about to read (computed by real code on the live store)
	bind, shadowPanic := c.bindView()
	plus := c.plusView() + " " + c.btpView()
	shadow := "-"
	if shadowPanic != "" {
		shadow = strings.ReplaceAll(siteOf(shadowPanic), " ", "@")
	}

	// 3. apply
	out := c.Apply(nil)
	changed := out.Change != 0 || out.Panic != ""
	res.View = fmt.Sprintf("%s ch=%s %s %s %s %s shadow=%s", storeView, b01(changed), bind, plus, invView(out), c.parentReport(out), shadow)
	if Explain && out.Graph != nil {
		explain(out)
	}
	if out.Panic != "" {
		res.Outcome, res.Phase, res.Panic, res.Site = "panic", "apply", out.Panic, siteOf(out.Panic)
		return res
	}
	if !changed {
		res.Outcome = "nochange"
		return res
	}

	// 4. statuses: run every setter on a copy of its object
	statusPanic := func() (pt string) {
		defer func() {
			if r := recover(); r != nil {
				pt = fmt.Sprintf("%v\n%s", r, debug.Stack())
			}
		}()
		var typed []client.Object
		for _, o := range known {
			if _, ok := o.(*metav1.PartialObjectMetadata); !ok {
				typed = append(typed, o)
			}
		}
		_, w, _ := p.ApplyStatuses(out.Requests, typed)
		res.Statuses = len(w)
		return ""
	}()
	if statusPanic != "" {
		res.Outcome, res.Phase, res.Panic, res.Site = "panic", "status", statusPanic, siteOf(statusPanic)
		return res
	}
	res.Outcome = "ok"
	return res
}

// CaseResult is the run of a whole case.
type CaseResult struct {
	Steps []StepResult
	Hang  int // index of the step that did not return in time, -1 if none
}

// RunCase runs the case on a fresh controller with a per-step timeout.
func RunCase(cs *Case, stepTimeout time.Duration) CaseResult {
	c := newCtl(cs.Plus, cs.PlusCA, cs.PlusCl)
	sup, pers := c.Proc.VerifC05SupportedGVKs()
	var sk []string
	for _, g := range sup {
		has := false
		for _, q := range pers {
			if q == g {
				has = true
			}
		}
		sk = append(sk, g.Kind+":"+b01(has))
	}
	supported := joinOrDash(sk, ",")
	cr := CaseResult{Hang: -1}
	live := map[string]client.Object{}
	for i, b := range cs.Batches {
		for _, e := range b {
			k := kindOf(e.Obj) + "/" + types.NamespacedName{Namespace: e.Obj.GetNamespace(), Name: e.Obj.GetName()}.String()
			if e.Del {
				delete(live, k)
			} else {
				live[k] = e.Obj
			}
		}
		var known []client.Object
		for _, o := range live {
			known = append(known, o)
		}
		done := make(chan StepResult, 1)
		go func() { done <- c.runStep(b, known, supported) }()
		select {
		case r := <-done:
			cr.Steps = append(cr.Steps, r)
			if r.Outcome == "panic" && r.Phase == "capture" {
				// the store may be half-updated; the real controller would have crashed: stop the case here
				return cr
			}
		case <-time.After(stepTimeout):
			cr.Steps = append(cr.Steps, StepResult{Outcome: "hang", Elapsed: stepTimeout,
				View: "ev=- sk=" + supported + " ch=1 ns=- gw=- ls=- rs=- plus=0 ps=- bt=- pt=- br=- hp=- rt=- ft=- dp=- fx=- ur=0 up=- pu=0 nl=- shadow=-"})
			cr.Hang = i
			return cr
		}
	}
	return cr
}
