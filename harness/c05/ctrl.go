// Package c05 drives the REAL control-plane pipeline (through harness/pipeline) on generated
// admissible cluster states delivered in random order and batching, and records per step whether the
// real code panicked or hung, together with flat "views" of the real intermediate data on which the
// Lean mirrors of the explicit panic sites (lean/NGF/Model/PanicSites.lean) are replayed.
package c05

import (
	"github.com/go-logr/logr"
	discoveryV1 "k8s.io/api/discovery/v1"
	"k8s.io/apimachinery/pkg/types"
	"k8s.io/client-go/tools/record"
	"sigs.k8s.io/controller-runtime/pkg/client/fake"

	ngfAPIv1alpha1 "github.com/nginx/nginx-gateway-fabric/apis/v1alpha1"
	ngfAPIv1alpha2 "github.com/nginx/nginx-gateway-fabric/apis/v1alpha2"
	"github.com/nginx/nginx-gateway-fabric/internal/framework/controller/index"
	"github.com/nginx/nginx-gateway-fabric/internal/framework/kinds"
	ngfConfig "github.com/nginx/nginx-gateway-fabric/internal/mode/static/config"
	ngxcfg "github.com/nginx/nginx-gateway-fabric/internal/mode/static/nginx/config"
	"github.com/nginx/nginx-gateway-fabric/internal/mode/static/nginx/config/policies"
	"github.com/nginx/nginx-gateway-fabric/internal/mode/static/nginx/config/policies/clientsettings"
	"github.com/nginx/nginx-gateway-fabric/internal/mode/static/nginx/config/policies/observability"
	"github.com/nginx/nginx-gateway-fabric/internal/mode/static/nginx/config/policies/upstreamsettings"
	ngxvalidation "github.com/nginx/nginx-gateway-fabric/internal/mode/static/nginx/config/validation"
	"github.com/nginx/nginx-gateway-fabric/internal/mode/static/state"
	"github.com/nginx/nginx-gateway-fabric/internal/mode/static/state/graph"
	"github.com/nginx/nginx-gateway-fabric/internal/mode/static/state/resolver"
	"github.com/nginx/nginx-gateway-fabric/internal/mode/static/state/validation"
	p "github.com/nginx/nginx-gateway-fabric/verifharness/pipeline"
)

// Names of the NGINX Plus usage-reporting Secrets (as `createPlusSecretMetadata` of manager.go
// registers them from the CLI flags) in the controller's namespace.
const (
	PodNamespace     = "nginx-gateway"
	PlusJWTSecret    = "nplus-license"
	PlusCASecret     = "nim-ca"
	PlusClientSecret = "nim-client"
)

// plusSecretMetadata mirrors createPlusSecretMetadata (internal/mode/static/manager.go): in Plus mode
// the JWT secret is always registered, the CA and client-SSL secrets optionally.
func plusSecretMetadata(plus, withCA, withClient bool) map[types.NamespacedName][]graph.PlusSecretFile {
	m := map[types.NamespacedName][]graph.PlusSecretFile{}
	if !plus {
		return m
	}
	m[types.NamespacedName{Namespace: PodNamespace, Name: PlusJWTSecret}] = []graph.PlusSecretFile{
		{FieldName: "license.jwt", Type: graph.PlusReportJWTToken},
	}
	if withCA {
		m[types.NamespacedName{Namespace: PodNamespace, Name: PlusCASecret}] = []graph.PlusSecretFile{
			{FieldName: "ca.crt", Type: graph.PlusReportCACertificate},
		}
	}
	if withClient {
		m[types.NamespacedName{Namespace: PodNamespace, Name: PlusClientSecret}] = []graph.PlusSecretFile{
			{FieldName: "tls.crt", Type: graph.PlusReportClientSSLCertificate},
			{FieldName: "tls.key", Type: graph.PlusReportClientSSLKey},
		}
	}
	return m
}

// Ctl is a pipeline.Controller wired like pipeline.NewController, but with the Plus secret metadata
// that StartManager registers in Plus mode (pipeline.NewController always passes an empty map, and a nil
// UsageReportConfig, with which `generateMgmtFiles` panics for every Plus configuration: an artefact of
// the shared runner, not of the code under test; see notes/C05.md).
type Ctl struct {
	*p.Controller
	cfg state.ChangeProcessorConfig
}

func policyManager(mustExtractGVK kinds.MustExtractGVK, v validation.GenericValidator) *policies.CompositeValidator {
	cfgs := []policies.ManagerConfig{
		{GVK: mustExtractGVK(&ngfAPIv1alpha1.ClientSettingsPolicy{}), Validator: clientsettings.NewValidator(v)},
		{GVK: mustExtractGVK(&ngfAPIv1alpha2.ObservabilityPolicy{}), Validator: observability.NewValidator(v)},
		{GVK: mustExtractGVK(&ngfAPIv1alpha1.UpstreamSettingsPolicy{}), Validator: upstreamsettings.NewValidator(v)},
	}
	return policies.NewManager(mustExtractGVK, cfgs...)
}

func newCtl(plus, withCA, withClient bool) *Ctl {
	opts := p.DefaultOptions()
	opts.Plus = plus
	mustExtractGVK := kinds.NewMustExtractGKV(p.Scheme)
	gv := ngxvalidation.GenericValidator{}
	cfg := state.ChangeProcessorConfig{
		GatewayCtlrName:  opts.Controller,
		GatewayClassName: opts.Class,
		Logger:           logr.Discard(),
		Validators: validation.Validators{
			HTTPFieldsValidator: ngxvalidation.HTTPValidator{},
			GenericValidator:    gv,
			PolicyValidator:     policyManager(mustExtractGVK, gv),
		},
		EventRecorder:  record.NewFakeRecorder(1 << 16),
		MustExtractGVK: mustExtractGVK,
		ProtectedPorts: opts.ProtectedPorts,
		PlusSecrets:    plusSecretMetadata(plus, withCA, withClient),
	}
	proc := state.NewChangeProcessorImpl(cfg)
	cl := fake.NewClientBuilder().
		WithScheme(p.Scheme).
		WithIndex(&discoveryV1.EndpointSlice{}, index.KubernetesServiceNameIndexField, index.ServiceNameIndexFunc).
		Build()
	return &Ctl{
		Controller: &p.Controller{
			Opts:     opts,
			Proc:     proc,
			Client:   cl,
			Resolver: resolver.NewServiceResolverImpl(cl),
			Gen: ngxcfg.NewGeneratorImpl(plus, &ngfConfig.UsageReportConfig{
				SecretName: PlusJWTSecret, CASecretName: PlusCASecret, ClientSSLSecretName: PlusClientSecret,
				Endpoint: "product.connect.nginx.com", Resolver: "10.96.0.10",
			}, logr.Discard()),
		},
		cfg: cfg,
	}
}
