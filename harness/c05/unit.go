package c05

// Unit streams (task C05-nil): the REAL functions whose implicit panic sites are mirrored in
// lean/NGF/Model/NilGuards.lean are run, through the overlay accessors, on generated object *shapes* — admissible ones
// and CEL-bypassing ones (a union member missing although the discriminator names it, a nil defaulted field, …).
//
// Output, one line per shape:
//
//	U k=<kind> <shape fields…> adm=<0|1>\tR rout=<ok|panic> rsite=<file@func|-> rrep=<n> rvalid=<0|1|->\tP <panic line>
//
// The shape fields are what `ngfdriver_C05 unit` decodes; `adm` is the generator's own claim (by construction) and
// is cross-checked against the Lean admissibility predicate; `rrep` is the number of errors / conditions the real
// function reported, `rvalid` the validity flag it computed (listeners, BackendTLSPolicies, backendRefs).

import (
	"bufio"
	"fmt"
	"runtime/debug"
	"strings"

	apiv1 "k8s.io/api/core/v1"
	metav1 "k8s.io/apimachinery/pkg/apis/meta/v1"
	"k8s.io/apimachinery/pkg/types"
	gatewayv1 "sigs.k8s.io/gateway-api/apis/v1"
	"sigs.k8s.io/gateway-api/apis/v1alpha2"
	"sigs.k8s.io/gateway-api/apis/v1alpha3"

	ngxvalidation "github.com/nginx/nginx-gateway-fabric/internal/mode/static/nginx/config/validation"
	"github.com/nginx/nginx-gateway-fabric/internal/mode/static/state/dataplane"
	"github.com/nginx/nginx-gateway-fabric/internal/mode/static/state/graph"
	p "github.com/nginx/nginx-gateway-fabric/verifharness/pipeline"
	"github.com/nginx/nginx-gateway-fabric/verifharness/rng"
)

type unitResult struct {
	rep   int
	valid string
}

// runUnit runs f under recover and renders the R part.
func runUnit(f func() unitResult) (string, string) {
	var res unitResult
	pt := func() (pt string) {
		defer func() {
			if r := recover(); r != nil {
				pt = fmt.Sprintf("%v\n%s", r, debug.Stack())
			}
		}()
		res = f()
		return ""
	}()
	if pt != "" {
		return fmt.Sprintf("rout=panic rsite=%s rrep=0 rvalid=-", siteToken(siteOf(pt))), firstLine(pt)
	}
	v := res.valid
	if v == "" {
		v = "-"
	}
	return fmt.Sprintf("rout=ok rsite=- rrep=%d rvalid=%s", res.rep, v), ""
}

// ---------------------------------------------------------------- filters

type pathModShape struct {
	typ             string
	hasFull, hasPfx bool
}

func (s *pathModShape) enc() string {
	if s == nil {
		return "-"
	}
	return fmt.Sprintf("%s/%s/%s", s.typ, b01(s.hasFull), b01(s.hasPfx))
}

func (s *pathModShape) build() *gatewayv1.HTTPPathModifier {
	if s == nil {
		return nil
	}
	m := &gatewayv1.HTTPPathModifier{Type: gatewayv1.HTTPPathModifierType(s.typ)}
	if s.hasFull {
		m.ReplaceFullPath = ptr("/full")
	}
	if s.hasPfx {
		m.ReplacePrefixMatch = ptr("/pfx")
	}
	return m
}

func genPathMod(r *rng.R, admissible bool) *pathModShape {
	if r.Chance(25, 100) {
		return nil
	}
	t := rng.Pick(r, []string{"ReplaceFullPath", "ReplacePrefixMatch"})
	if admissible {
		return &pathModShape{t, t == "ReplaceFullPath", t == "ReplacePrefixMatch"}
	}
	if r.Chance(20, 100) {
		t = rng.Pick(r, []string{"Other", ""})
	}
	return &pathModShape{t, r.Bool(), r.Bool()}
}

var httpFilterTypes = []string{"RequestHeaderModifier", "ResponseHeaderModifier", "RequestMirror", "RequestRedirect", "URLRewrite", "ExtensionRef"}
var grpcFilterTypes = []string{"ResponseHeaderModifier", "RequestHeaderModifier", "RequestMirror", "ExtensionRef"}

func unitFilter(r *rng.R) (string, bool, func() unitResult) {
	admissible := r.Chance(55, 100)
	grpc := r.Chance(30, 100)
	var typ string
	switch {
	case admissible && grpc:
		typ = rng.Pick(r, grpcFilterTypes)
	case admissible:
		typ = rng.Pick(r, httpFilterTypes)
	default:
		typ = rng.Pick(r, append(append([]string{}, httpFilterTypes...), "Other", ""))
	}
	has := func(member string) bool {
		if admissible {
			return typ == member
		}
		return r.Chance(50, 100)
	}
	f := graph.Filter{RouteType: graph.RouteTypeHTTP, FilterType: graph.FilterType(typ)}
	if grpc {
		f.RouteType = graph.RouteTypeGRPC
	}
	enc := []string{"k=filter", "g=" + b01(grpc), "t=" + orDash(typ)}
	// requestRedirect
	if has("RequestRedirect") && !(admissible && grpc) {
		pm := genPathMod(r, admissible)
		bad := r.Chance(25, 100)
		rd := &gatewayv1.HTTPRequestRedirectFilter{Hostname: ptr(gatewayv1.PreciseHostname("example.com")), Path: pm.build()}
		if r.Bool() {
			rd.StatusCode = ptr(301)
		}
		if r.Bool() {
			rd.Port = ptr(gatewayv1.PortNumber(8080))
		}
		rd.Scheme = ptr("https")
		if bad {
			rd.Scheme = ptr("ftp")
		}
		f.RequestRedirect = rd
		enc = append(enc, "rd="+pm.enc()+","+b01(bad))
	} else {
		enc = append(enc, "rd=-")
	}
	if has("URLRewrite") && !(admissible && grpc) {
		pm := genPathMod(r, admissible)
		bad := r.Chance(25, 100)
		rw := &gatewayv1.HTTPURLRewriteFilter{Path: pm.build()}
		if bad {
			rw.Hostname = ptr(gatewayv1.PreciseHostname("$bad"))
		} else if r.Bool() {
			rw.Hostname = ptr(gatewayv1.PreciseHostname("example.com"))
		}
		f.URLRewrite = rw
		enc = append(enc, "rw="+pm.enc()+","+b01(bad))
	} else {
		enc = append(enc, "rw=-")
	}
	hdr := func(bad bool) *gatewayv1.HTTPHeaderFilter {
		h := &gatewayv1.HTTPHeaderFilter{Set: []gatewayv1.HTTPHeader{{Name: "X-A", Value: "1"}}}
		if bad {
			h.Set = append(h.Set, gatewayv1.HTTPHeader{Name: "x-a", Value: "2"}) // case-insensitive duplicate
		}
		return h
	}
	if has("RequestHeaderModifier") {
		bad := r.Chance(25, 100)
		f.RequestHeaderModifier = hdr(bad)
		enc = append(enc, "qh="+b01(bad))
	} else {
		enc = append(enc, "qh=-")
	}
	if has("ResponseHeaderModifier") {
		bad := r.Chance(25, 100)
		f.ResponseHeaderModifier = hdr(bad)
		enc = append(enc, "sh="+b01(bad))
	} else {
		enc = append(enc, "sh=-")
	}
	if has("ExtensionRef") {
		bad := r.Chance(25, 100)
		ref := &gatewayv1.LocalObjectReference{Group: "gateway.nginx.org", Kind: "SnippetsFilter", Name: "sf0"}
		if bad {
			ref.Kind = "Other"
		}
		f.ExtensionRef = ref
		enc = append(enc, "er="+b01(bad))
	} else {
		enc = append(enc, "er=-")
	}
	mirror := has("RequestMirror")
	if mirror {
		f.RequestMirror = &gatewayv1.HTTPRequestMirrorFilter{BackendRef: gatewayv1.BackendObjectReference{Name: "svc0", Port: ptr(gatewayv1.PortNumber(80))}}
	}
	enc = append(enc, "mr="+b01(mirror))
	return strings.Join(enc, " "), admissible, func() unitResult {
		n := graph.VerifC05ValidateFilter(ngxvalidation.HTTPValidator{}, f)
		if n == 0 {
			// processRouteRuleFilters marks the rule's filters valid; createHTTPFilters converts them
			dataplane.VerifC05CreateHTTPFilters([]graph.Filter{f})
		}
		return unitResult{rep: n}
	}
}

// ---------------------------------------------------------------- listeners

func unitListener(r *rng.R) (string, bool, func() unitResult) {
	admissible := r.Chance(55, 100)
	proto := rng.Pick(r, []string{"HTTP", "HTTPS", "HTTPS", "HTTPS", "TLS", "TLS", "TCP", "UDP", "example.com/proto"})
	l := gatewayv1.Listener{Name: "l0", Port: 8443, Protocol: gatewayv1.ProtocolType(proto)}
	tlsAllowed := proto != "HTTP" && proto != "TCP" && proto != "UDP"
	enc := []string{"k=listener", "p=" + proto}
	withTLS := r.Chance(75, 100)
	if admissible && !tlsAllowed {
		withTLS = false
	}
	secretOk := r.Chance(75, 100)
	if withTLS {
		mode := rng.Pick(r, []string{"Terminate", "Terminate", "Passthrough", "nil"})
		ncert := rng.Pick(r, []int{0, 1, 1, 1, 2})
		nopts := rng.Pick(r, []int{0, 0, 0, 1})
		kind := rng.Pick(r, []string{"Secret", "Secret", "nil", "ConfigMap"})
		group := rng.Pick(r, []string{"empty", "empty", "nil", "other"})
		if admissible {
			if mode == "nil" {
				mode = "Terminate" // CRD default
			}
			if proto == "HTTPS" {
				mode = "Terminate"
			}
			if mode == "Terminate" && ncert == 0 && nopts == 0 {
				if r.Bool() {
					ncert = 1
				} else {
					nopts = 1
				}
			}
		}
		t := &gatewayv1.GatewayTLSConfig{}
		if mode != "nil" {
			t.Mode = ptr(gatewayv1.TLSModeType(mode))
		}
		for i := 0; i < ncert; i++ {
			ref := gatewayv1.SecretObjectReference{Name: "tls-a"}
			if kind != "nil" {
				ref.Kind = ptr(gatewayv1.Kind(kind))
			}
			switch group {
			case "empty":
				ref.Group = ptr(gatewayv1.Group(""))
			case "other":
				ref.Group = ptr(gatewayv1.Group("example.com"))
			}
			t.CertificateRefs = append(t.CertificateRefs, ref)
		}
		if nopts > 0 {
			t.Options = map[gatewayv1.AnnotationKey]gatewayv1.AnnotationValue{"example.com/opt": "v"}
		}
		l.TLS = t
		enc = append(enc, fmt.Sprintf("tls=%s,%d,%s,%s,%d", mode, ncert, b01(kind != "ConfigMap"), b01(group != "other"), nopts))
	} else {
		enc = append(enc, "tls=-")
	}
	otherBad := r.Chance(15, 100)
	if otherBad {
		l.Hostname = ptr(gatewayv1.Hostname("bad_host name")) // validateListenerHostname reports it
	}
	enc = append(enc, "ob="+b01(otherBad), "sec="+b01(secretOk))
	return strings.Join(enc, " "), admissible, func() unitResult {
		gw := &gatewayv1.Gateway{ObjectMeta: metav1.ObjectMeta{Namespace: "default", Name: "gw0"},
			Spec: gatewayv1.GatewaySpec{GatewayClassName: "nginx", Listeners: []gatewayv1.Listener{l}}}
		secrets := map[types.NamespacedName]*apiv1.Secret{}
		if secretOk {
			s := p.TLSSecret("default", "tls-a", 0)
			secrets[types.NamespacedName{Namespace: "default", Name: "tls-a"}] = s
		}
		ls := graph.VerifC05BuildListeners(gw, secrets)
		g := &graph.Graph{Gateway: &graph.Gateway{Source: gw, Listeners: ls, Valid: true}}
		dataplane.VerifC05BuildServers(g)
		return unitResult{rep: len(ls[0].Conditions), valid: b01(ls[0].Valid)}
	}
}

// ---------------------------------------------------------------- backendRefs

func unitBackendRef(r *rng.R) (string, bool, func() unitResult) {
	admissible := r.Chance(55, 100)
	group := rng.Pick(r, []string{"nil", "empty", "core", "core", "other"})
	kind := rng.Pick(r, []string{"nil", "Service", "Service", "Other"})
	ns := rng.Pick(r, []string{"nil", "same", "other"})
	granted := r.Bool()
	hasPort := r.Chance(70, 100)
	groupOk, kindOk := group != "other", kind != "Other"
	if admissible && (group == "nil" || group == "empty") && kindOk {
		hasPort = true // CEL: Must have port for Service reference (the rule only looks at the EMPTY group)
	}
	weight := rng.Pick(r, []string{"nil", "ok", "ok", "bad"})
	nf := rng.Pick(r, []int{0, 0, 0, 1})
	svcExists := r.Chance(75, 100)
	ref := gatewayv1.BackendRef{BackendObjectReference: gatewayv1.BackendObjectReference{Name: "svc0"}}
	switch group {
	case "empty":
		ref.Group = ptr(gatewayv1.Group(""))
	case "core":
		ref.Group = ptr(gatewayv1.Group("core"))
	case "other":
		ref.Group = ptr(gatewayv1.Group("example.com"))
	}
	if kind != "nil" {
		ref.Kind = ptr(gatewayv1.Kind(kind))
	}
	svcNs := "default"
	switch ns {
	case "same":
		ref.Namespace = ptr(gatewayv1.Namespace("default"))
	case "other":
		ref.Namespace = ptr(gatewayv1.Namespace("team-a"))
		svcNs = "team-a"
	}
	port := "-"
	if hasPort {
		ref.Port = ptr(gatewayv1.PortNumber(80))
		port = "80"
	}
	switch weight {
	case "ok":
		ref.Weight = ptr(int32(5))
	case "bad":
		ref.Weight = ptr(int32(-1))
	}
	_ = groupOk
	enc := fmt.Sprintf("k=backendref g=%s kd=%s x=%s gr=%s port=%s w=%s nf=%d svc=%s", group, b01(kindOk),
		b01(ns == "other"), b01(granted), port, b01(weight != "bad"), nf, b01(svcExists))
	return enc, admissible, func() unitResult {
		services := map[types.NamespacedName]*apiv1.Service{}
		if svcExists {
			services[types.NamespacedName{Namespace: svcNs, Name: "svc0"}] = &apiv1.Service{
				ObjectMeta: metav1.ObjectMeta{Namespace: svcNs, Name: "svc0"},
				Spec:       apiv1.ServiceSpec{Ports: []apiv1.ServicePort{{Port: 80}}, IPFamilies: []apiv1.IPFamily{apiv1.IPv4Protocol}},
			}
		}
		valid, hasCond := graph.VerifC05CreateBackendRef(ref, nf, "default", granted, services)
		rep := 0
		if hasCond {
			rep = 1
		}
		return unitResult{rep: rep, valid: b01(valid)}
	}
}

// ---------------------------------------------------------------- BackendTLSPolicy

func unitBTP(r *rng.R) (string, bool, func() unitResult) {
	admissible := r.Chance(60, 100)
	full := r.Chance(15, 100)
	hostOk := r.Chance(85, 100)
	ca := rng.Pick(r, []int{-1, -1, 0, 0, 1, 1, 1, 2}) // -1 = nil slice, 0 = empty non-nil slice
	wk := rng.Pick(r, []string{"nil", "System", "System", "Other"})
	if admissible {
		if ca > 0 {
			wk = "nil"
		} else if wk != "System" {
			wk = "System"
		}
	}
	caKindOk, cm := r.Chance(80, 100), r.Chance(80, 100)
	btp := &v1alpha3.BackendTLSPolicy{ObjectMeta: metav1.ObjectMeta{Namespace: "default", Name: "btp0"}}
	btp.Spec.TargetRefs = []v1alpha2.LocalPolicyTargetReferenceWithSectionName{{LocalPolicyTargetReference: v1alpha2.LocalPolicyTargetReference{Kind: "Service", Name: "svc0"}}}
	btp.Spec.Validation.Hostname = "foo.example.com"
	if !hostOk {
		btp.Spec.Validation.Hostname = "not a hostname!"
	}
	if ca >= 0 {
		btp.Spec.Validation.CACertificateRefs = []gatewayv1.LocalObjectReference{}
		for i := 0; i < ca; i++ {
			ref := gatewayv1.LocalObjectReference{Group: "", Kind: "ConfigMap", Name: "ca-bundle"}
			if !caKindOk {
				ref.Kind = "Secret"
			}
			btp.Spec.Validation.CACertificateRefs = append(btp.Spec.Validation.CACertificateRefs, ref)
		}
	}
	if wk != "nil" {
		btp.Spec.Validation.WellKnownCACertificates = ptr(v1alpha3.WellKnownCACertificatesType(wk))
	}
	if full {
		for i := 0; i < 16; i++ {
			btp.Status.Ancestors = append(btp.Status.Ancestors, v1alpha2.PolicyAncestorStatus{
				AncestorRef:    gatewayv1.ParentReference{Name: gatewayv1.ObjectName(fmt.Sprintf("other-gw-%d", i))},
				ControllerName: "example.com/other-controller",
			})
		}
	}
	caS := "-"
	if ca >= 0 {
		caS = fmt.Sprint(ca)
	}
	enc := fmt.Sprintf("k=btp full=%s host=%s ca=%s cak=%s cm=%s wk=%s", b01(full), b01(hostOk), caS, b01(caKindOk), b01(cm),
		map[bool]string{true: "-", false: wk}[wk == "nil"])
	return enc, admissible, func() unitResult {
		cms := map[types.NamespacedName]*apiv1.ConfigMap{}
		if cm {
			cert, _ := p.CertPair(0)
			cms[types.NamespacedName{Namespace: "default", Name: "ca-bundle"}] = &apiv1.ConfigMap{
				ObjectMeta: metav1.ObjectMeta{Namespace: "default", Name: "ca-bundle"},
				Data:       map[string]string{"ca.crt": string(cert)},
			}
		}
		valid, n := graph.VerifC05ProcessBTP(btp, cms, p.DefaultController)
		return unitResult{rep: n, valid: b01(valid)}
	}
}

// ---------------------------------------------------------------- path matches

func unitPathMatch(r *rng.R) (string, bool, func() unitResult) {
	admissible := r.Chance(55, 100)
	var pm *gatewayv1.HTTPPathMatch
	enc := "k=pathmatch pt=- pv=-"
	if admissible || r.Chance(80, 100) {
		t := rng.Pick(r, []string{"PathPrefix", "Exact", "RegularExpression", "nil", "Other"})
		v := rng.Pick(r, []string{"ok", "ok", "internal", "bad", "nil"})
		if admissible {
			if t == "nil" || t == "Other" {
				t = "PathPrefix"
			}
			if v == "nil" {
				v = "ok"
			}
		}
		pm = &gatewayv1.HTTPPathMatch{}
		if t != "nil" {
			pm.Type = ptr(gatewayv1.PathMatchType(t))
		}
		switch v {
		case "ok":
			pm.Value = ptr("/coffee")
		case "internal":
			pm.Value = ptr("/_ngf-internal/x")
		case "bad":
			pm.Value = ptr("/a{b}")
		}
		enc = fmt.Sprintf("k=pathmatch pt=%s pv=%s", t, v)
	}
	return enc, admissible, func() unitResult {
		return unitResult{rep: graph.VerifC05ValidatePathMatch(ngxvalidation.HTTPValidator{}, pm)}
	}
}

// RunUnits prints n shapes of every kind.
func RunUnits(w *bufio.Writer, seed uint64, n int) {
	root := rng.New(seed ^ 0x5a17c0de)
	gens := []func(*rng.R) (string, bool, func() unitResult){unitFilter, unitListener, unitBackendRef, unitBTP, unitPathMatch}
	for i := 0; i < n; i++ {
		for _, g := range gens {
			r := root.Fork()
			enc, adm, run := g(r)
			res, pt := runUnit(run)
			fmt.Fprintf(w, "U %s adm=%s\tR %s", enc, b01(adm), res)
			if pt != "" {
				fmt.Fprintf(w, "\tP %s", pt)
			}
			fmt.Fprintln(w)
		}
	}
	w.Flush()
}
