package c05

import (
	"fmt"

	"github.com/nginx/nginx-gateway-fabric/verifharness/rng"
)

// Hand-encoded CEL admission rules (x-kubernetes-validations) of gateway-api v1.2.1 (experimental
// channel) and of the NGF CRDs: each fixer REPAIRS a generated spec so that it satisfies the rules
// (cel-go is not available offline, so the rules cannot be evaluated; the discriminated unions
// "member set iff type says so" are already respected by construction in sgen.genObject).
// The list of rules covered is in notes/C05.md; rules about immutability do not apply (no updates of
// immutable fields are generated).

func asMap(v any) map[string]any {
	m, _ := v.(map[string]any)
	return m
}

func asList(v any) []any {
	l, _ := v.([]any)
	return l
}

func str(v any) string {
	s, _ := v.(string)
	return s
}

func fixParentRefs(r *rng.R, spec map[string]any, routeNS string, u *universe) {
	refs := asList(spec["parentRefs"])
	if len(refs) == 0 {
		return
	}
	type pk struct{ g, k, ns, n string }
	byParent := map[pk][]map[string]any{}
	var order []pk
	for _, x := range refs {
		m := asMap(x)
		ns := str(m["namespace"])
		if ns == "" {
			ns = routeNS
		}
		g, k := str(m["group"]), str(m["kind"])
		if _, ok := m["group"]; !ok {
			g = "gateway.networking.k8s.io"
		}
		if _, ok := m["kind"]; !ok {
			k = "Gateway"
		}
		key := pk{g, k, ns, str(m["name"])}
		if _, ok := byParent[key]; !ok {
			order = append(order, key)
		}
		byParent[key] = append(byParent[key], m)
	}
	var out []any
	for _, key := range order {
		ms := byParent[key]
		if len(ms) == 1 {
			out = append(out, ms[0])
			continue
		}
		// several refs to one parent: each must carry a sectionName (or port), pairwise distinct
		if r.Chance(30, 100) {
			// …distinguished by port only (admissible: "sectionName or port must be unique")
			ports := []int64{80, 443, 8080, 8443}
			rng.Shuffle(r, ports)
			for i, m := range ms {
				if i >= len(ports) {
					break
				}
				delete(m, "sectionName")
				m["port"] = ports[i]
				out = append(out, m)
			}
			continue
		}
		secs := append([]string{}, u.listeners...)
		rng.Shuffle(r, secs)
		for i, m := range ms {
			if i >= len(secs) {
				break
			}
			m["sectionName"] = secs[i]
			delete(m, "port")
			out = append(out, m)
		}
	}
	spec["parentRefs"] = out
}

func uniqueRuleNames(spec map[string]any) {
	seen := map[string]bool{}
	for _, x := range asList(spec["rules"]) {
		m := asMap(x)
		if n, ok := m["name"]; ok {
			if seen[str(n)] {
				delete(m, "name")
			}
			seen[str(n)] = true
		}
	}
}

// servicePortRule: "Must have port for Service reference".
func servicePortRule(r *rng.R, ref map[string]any, u *universe) {
	if ref == nil {
		return
	}
	g, hasG := ref["group"]
	k, hasK := ref["kind"]
	if (!hasG || str(g) == "") && (!hasK || str(k) == "Service") {
		if _, ok := ref["port"]; !ok {
			ref["port"] = rng.Pick(r, u.svcPorts)
		}
	}
}

func fixMirror(r *rng.R, f map[string]any, u *universe) {
	m := asMap(f["requestMirror"])
	if m == nil {
		return
	}
	servicePortRule(r, asMap(m["backendRef"]), u)
	if _, ok := m["percent"]; ok {
		delete(m, "fraction")
	}
	if fr := asMap(m["fraction"]); fr != nil {
		den := int64(100)
		if d, ok := fr["denominator"]; ok {
			den = toInt(d)
		}
		if toInt(fr["numerator"]) > den {
			fr["numerator"] = den
		}
	}
}

func toInt(v any) int64 {
	switch n := v.(type) {
	case int:
		return int64(n)
	case int64:
		return n
	case float64:
		return int64(n)
	}
	return 0
}

// fixFilters enforces "cannot be repeated" / "either redirect or rewrite" and returns whether a
// RequestRedirect remains and whether some filter uses path.replacePrefixMatch.
func fixFilters(r *rng.R, holder map[string]any, u *universe) (redirect, prefixRewrite bool) {
	fs := asList(holder["filters"])
	if fs == nil {
		return false, false
	}
	seen := map[string]bool{}
	var out []any
	for _, x := range fs {
		f := asMap(x)
		t := str(f["type"])
		switch t {
		case "RequestRedirect", "URLRewrite", "RequestHeaderModifier", "ResponseHeaderModifier":
			if seen[t] {
				continue
			}
			if (t == "RequestRedirect" && seen["URLRewrite"]) || (t == "URLRewrite" && seen["RequestRedirect"]) {
				continue
			}
		case "RequestMirror":
			fixMirror(r, f, u)
		}
		seen[t] = true
		for _, member := range []string{"requestRedirect", "urlRewrite"} {
			if p := asMap(asMap(f[member])["path"]); p != nil && str(p["type"]) == "ReplacePrefixMatch" {
				prefixRewrite = true
			}
		}
		out = append(out, f)
	}
	if out == nil {
		out = []any{}
	}
	holder["filters"] = out
	return seen["RequestRedirect"], prefixRewrite
}

func fixSessionPersistence(rule map[string]any) {
	sp := asMap(rule["sessionPersistence"])
	if sp == nil {
		return
	}
	if cc := asMap(sp["cookieConfig"]); cc != nil && str(cc["lifetimeType"]) == "Permanent" {
		if _, ok := sp["absoluteTimeout"]; !ok {
			sp["absoluteTimeout"] = "1h"
		}
	}
}

func fixHTTPRoute(r *rng.R, spec map[string]any, ns string, u *universe) {
	fixParentRefs(r, spec, ns, u)
	uniqueRuleNames(spec)
	for _, x := range asList(spec["rules"]) {
		rule := asMap(x)
		redirect, prefix := fixFilters(r, rule, u)
		for _, b := range asList(rule["backendRefs"]) {
			bm := asMap(b)
			servicePortRule(r, bm, u)
			_, p2 := fixFilters(r, bm, u)
			prefix = prefix || p2
		}
		if redirect {
			delete(rule, "backendRefs")
		}
		if prefix {
			// exactly one PathPrefix match must be specified
			var first map[string]any
			if ms := asList(rule["matches"]); len(ms) > 0 {
				first = asMap(ms[0])
			}
			if first == nil {
				first = map[string]any{}
			}
			first["path"] = map[string]any{"type": "PathPrefix", "value": rng.Pick(r, []string{"/", "/coffee", "/a/b/c"})}
			rule["matches"] = []any{first}
		}
		for _, mx := range asList(rule["matches"]) {
			m := asMap(mx)
			if p := asMap(m["path"]); p != nil {
				t := str(p["type"])
				if t == "" || t == "Exact" || t == "PathPrefix" {
					if v, ok := p["value"]; ok && !admissiblePath(str(v)) {
						p["value"] = "/coffee"
					}
				}
			}
		}
		if t := asMap(rule["timeouts"]); t != nil {
			if req, ok := t["request"]; ok {
				if _, ok2 := t["backendRequest"]; ok2 {
					t["backendRequest"] = req
				}
			}
		}
		fixSessionPersistence(rule)
	}
}

func admissiblePath(p string) bool {
	if len(p) == 0 || p[0] != '/' {
		return false
	}
	for i := 0; i < len(p); i++ {
		c := p[i]
		ok := c >= 'a' && c <= 'z' || c >= 'A' && c <= 'Z' || c >= '0' && c <= '9'
		if !ok {
			switch c {
			case '-', '/', '.', '_', '~', '!', '$', '&', '\'', '(', ')', '*', '+', ',', ';', '=', ':', '@', '%':
			default:
				return false
			}
		}
	}
	return true
}

func fixGRPCRoute(r *rng.R, spec map[string]any, ns string, u *universe) {
	fixParentRefs(r, spec, ns, u)
	uniqueRuleNames(spec)
	for _, x := range asList(spec["rules"]) {
		rule := asMap(x)
		fixFilters(r, rule, u)
		for _, b := range asList(rule["backendRefs"]) {
			bm := asMap(b)
			servicePortRule(r, bm, u)
			fixFilters(r, bm, u)
		}
		for _, mx := range asList(rule["matches"]) {
			m := asMap(mx)
			if mm := asMap(m["method"]); mm != nil {
				_, hs := mm["service"]
				_, hm := mm["method"]
				if !hs && !hm {
					mm["service"] = "helloworld.Greeter"
				}
			}
		}
		fixSessionPersistence(rule)
	}
}

func fixTLSRoute(r *rng.R, spec map[string]any, ns string, u *universe) {
	fixParentRefs(r, spec, ns, u)
	uniqueRuleNames(spec)
	for _, x := range asList(spec["rules"]) {
		for _, b := range asList(asMap(x)["backendRefs"]) {
			servicePortRule(r, asMap(b), u)
		}
	}
}

func fixGateway(r *rng.R, spec map[string]any, u *universe) {
	names := map[string]bool{}
	combo := map[string]bool{}
	var out []any
	for _, x := range asList(spec["listeners"]) {
		l := asMap(x)
		n := str(l["name"])
		if names[n] {
			continue
		}
		proto := str(l["protocol"])
		switch proto {
		case "HTTP", "TCP", "UDP":
			delete(l, "tls")
		}
		if proto == "TCP" || proto == "UDP" {
			delete(l, "hostname")
		}
		if tls := asMap(l["tls"]); tls != nil {
			if proto == "HTTPS" {
				tls["mode"] = "Terminate"
			}
			mode := str(tls["mode"])
			if mode == "" || mode == "Terminate" {
				if len(asList(tls["certificateRefs"])) == 0 && len(asMap(tls["options"])) == 0 {
					// "certificateRefs or options must be specified when mode is Terminate"
					if r.Chance(40, 100) {
						delete(tls, "certificateRefs")
						tls["options"] = map[string]any{"example.com/opt": "v"}
					} else {
						tls["certificateRefs"] = []any{map[string]any{"name": rng.Pick(r, u.secrets)}}
					}
				}
			}
		}
		key := fmt.Sprintf("%v/%s/%s", l["port"], proto, str(l["hostname"]))
		if combo[key] {
			continue
		}
		names[n], combo[key] = true, true
		out = append(out, l)
	}
	if len(out) == 0 {
		out = []any{map[string]any{"name": "l0", "port": 80, "protocol": "HTTP"}}
	}
	spec["listeners"] = out
	seen := map[string]bool{}
	var addrs []any
	for _, x := range asList(spec["addresses"]) {
		a := asMap(x)
		k := str(a["type"]) + "|" + str(a["value"])
		if !seen[k] {
			seen[k] = true
			addrs = append(addrs, a)
		}
	}
	if addrs != nil {
		spec["addresses"] = addrs
	}
}

func fixBackendTLSPolicy(spec map[string]any) {
	v := asMap(spec["validation"])
	if v == nil {
		return
	}
	if len(asList(v["caCertificateRefs"])) > 0 {
		delete(v, "wellKnownCACertificates")
	} else {
		// an EMPTY caCertificateRefs list next to wellKnownCACertificates is admissible: both CEL rules only
		// look at `size(self.caCertificateRefs) > 0`; keep it when the generator drew both
		if _, drewBoth := v["wellKnownCACertificates"]; !drewBoth || v["caCertificateRefs"] == nil {
			delete(v, "caCertificateRefs")
		}
		if _, ok := v["wellKnownCACertificates"]; !ok {
			v["wellKnownCACertificates"] = "System"
		}
	}
}

func fixNGF(kind string, spec map[string]any) {
	switch kind {
	case "ClientSettingsPolicy":
		if ka := asMap(spec["keepAlive"]); ka != nil {
			if t := asMap(ka["timeout"]); t != nil {
				if _, ok := t["server"]; !ok {
					delete(t, "header")
				}
			}
		}
	case "ObservabilityPolicy":
		seen := map[string]bool{}
		var out []any
		for _, x := range asList(spec["targetRefs"]) {
			m := asMap(x)
			k := str(m["kind"]) + "/" + str(m["name"])
			if !seen[k] {
				seen[k] = true
				out = append(out, m)
			}
		}
		spec["targetRefs"] = out
		if tr := asMap(spec["tracing"]); tr != nil && str(tr["strategy"]) != "ratio" {
			delete(tr, "ratio")
		}
	case "UpstreamSettingsPolicy":
		seen := map[string]bool{}
		var out []any
		for _, x := range asList(spec["targetRefs"]) {
			m := asMap(x)
			if !seen[str(m["name"])] {
				seen[str(m["name"])] = true
				out = append(out, m)
			}
		}
		spec["targetRefs"] = out
	case "SnippetsFilter":
		seen := map[string]bool{}
		var out []any
		for _, x := range asList(spec["snippets"]) {
			m := asMap(x)
			if !seen[str(m["context"])] {
				seen[str(m["context"])] = true
				out = append(out, m)
			}
		}
		spec["snippets"] = out
	case "NginxProxy":
		if rc := asMap(spec["rewriteClientIP"]); rc != nil {
			if _, ok := rc["mode"]; ok && len(asList(rc["trustedAddresses"])) == 0 {
				rc["trustedAddresses"] = []any{map[string]any{"type": "CIDR", "value": "10.0.0.0/8"}}
			}
		}
	}
}
