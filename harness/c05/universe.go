package c05

import (
	"fmt"
	"strings"

	"github.com/nginx/nginx-gateway-fabric/verifharness/rng"
)

// universe is the small pool of names from which every reference is drawn, so that references
// resolve, dangle, collide and cross namespaces.
type universe struct {
	namespaces []string
	gateways   []string
	classes    []string
	listeners  []string
	services   []string
	secrets    []string
	configmaps []string
	hroutes    []string
	groutes    []string
	filters    []string
	proxies    []string
	hostnames  []string
	paths      []string
	ports      []int64
	svcPorts   []int64
}

func newUniverse() *universe {
	return &universe{
		namespaces: []string{"default", "team-a", "team-b"},
		gateways:   []string{"gw0", "gw1", "foreign-gw"},
		classes:    []string{"nginx", "nginx", "nginx", "other", "nginx-2"},
		listeners:  []string{"l0", "l1", "l2", "http", "https", "tls"},
		services:   []string{"svc0", "svc1", "svc2", "headless", "extname", "dual", "v6only", "no-such-svc"},
		secrets:    []string{"tls-a", "tls-a", "tls-b", "tls-bad", "tls-missing", "ca-secret"},
		configmaps: []string{"ca-bundle", "ca-bundle", "ca-bad", "ca-missing", "ca-binary"},
		hroutes:    []string{"hr0", "hr1", "hr2"},
		groutes:    []string{"gr0", "gr1"},
		filters:    []string{"sf0", "sf1", "sf-missing"},
		proxies:    []string{"np0", "np0", "np-missing"},
		hostnames: []string{"*.example.com", "cafe.example.com", "foo.example.com", "*.foo.example.com", "bar.org", "*.org",
			"a.b.c.example.com", "xn--caf-dma.example.com"},
		paths:    []string{"/", "/coffee", "/coffee/", "/coffee/latte", "/tea", "/t", "/a/b/c", "/coffeex", "/a(b)[c]*+", "/x.y~z", "/%41"},
		ports:    []int64{80, 8080, 443, 8443, 9443, 9113, 8081, 1, 65535},
		svcPorts: []int64{80, 80, 8080, 81, 443, 65535, 1},
	}
}

func has(path []string, elem string) bool {
	for _, p := range path {
		if p == elem {
			return true
		}
	}
	return false
}

func last(path []string) string {
	if len(path) == 0 {
		return ""
	}
	return path[len(path)-1]
}

// parentField returns the nearest enclosing property name that is not "[]".
func parentField(path []string) string {
	for i := len(path) - 2; i >= 0; i-- {
		if path[i] != "[]" {
			return path[i]
		}
	}
	return ""
}

// wantOptional decides whether an optional property is populated. Some properties switch whole
// subsystems off when set (a parentRef port makes the ref unattachable, a non-Service backend kind makes
// the ref invalid), so they are populated less often than the rest to keep the deeper code reachable.
func (u *universe) wantOptional(g *sgen, path []string) bool {
	l, par := last(path), parentField(path)
	switch {
	case par == "parentRefs" && l == "port":
		return g.r.Chance(g.pOpt/5, 100)
	case par == "parentRefs" && (l == "group" || l == "kind"):
		return g.r.Chance(g.pOpt/2, 100)
	case l == "sessionPersistence" || l == "retry":
		return g.r.Chance(g.pOpt/2, 100)
	case l == "addresses" && g.kind == "Gateway":
		return g.r.Chance(g.pOpt/4, 100)
	case l == "backendTLS" && g.kind == "Gateway":
		return g.r.Chance(g.pOpt/3, 100)
	}
	return g.r.Chance(g.pOpt, 100)
}

func (u *universe) arrayLen(g *sgen, path []string, lo, hi int) int {
	switch last(path) {
	case "rules", "listeners":
		if hi > 3 {
			hi = 3
		}
	case "matches", "backendRefs", "filters", "parentRefs", "hostnames":
		if hi > 3 {
			hi = 3
		}
	}
	if lo == 0 && g.r.Chance(15, 100) {
		return 0
	}
	if lo < 1 && hi >= 1 {
		lo = 1
	}
	return g.r.Range(lo, hi)
}

func (u *universe) mapEntry(g *sgen, path []string) (string, any) {
	switch last(path) {
	case "matchLabels", "labels":
		return rng.Pick(g.r, []string{"team", "env", "kubernetes.io/metadata.name"}), rng.Pick(g.r, []string{"dev", "prod", "default"})
	case "annotations":
		return "example.com/note", "x"
	case "options":
		return rng.Pick(g.r, []string{"example.com/opt", "nginx.org/ssl-protocols"}), "v"
	}
	return "k" + fmt.Sprint(g.r.Intn(3)), "v"
}

// hintEnum biases enum choices towards the values the controller supports, keeping the others reachable.
func (u *universe) hintEnum(g *sgen, path []string, vals []string) (any, bool) {
	l, par := last(path), parentField(path)
	pick := func(common []string, pct int) (any, bool) {
		var ok []string
		for _, c := range common {
			for _, v := range vals {
				if v == c {
					ok = append(ok, c)
				}
			}
		}
		if pct < 100 {
			pct = g.bias
		}
		if len(ok) > 0 && g.r.Chance(pct, 100) {
			return rng.Pick(g.r, ok), true
		}
		return nil, false
	}
	switch {
	case l == "type" && par == "path" && has(path, "matches"):
		return pick([]string{"Exact", "PathPrefix"}, 80)
	case l == "type" && (par == "headers" || par == "queryParams" || par == "method"):
		return pick([]string{"Exact"}, 80)
	case l == "protocol" && par == "listeners":
		return pick([]string{"HTTP", "HTTP", "HTTPS", "TLS"}, 90)
	case l == "from" && par == "namespaces":
		return pick([]string{"All", "All", "Same", "Selector", "Selector"}, 100)
	case l == "type" && par == "filters":
		return pick([]string{"RequestHeaderModifier", "ResponseHeaderModifier", "URLRewrite", "RequestRedirect", "ExtensionRef"}, 75)
	}
	return nil, false
}

// firstIsPreferred: for reference-like properties the first element of the pool is the value that
// resolves / is supported; it is chosen with probability sgen.bias so that deep code stays reachable.
func (u *universe) firstIsPreferred(path []string) bool {
	switch last(path) {
	case "kind", "group", "namespace", "protocol", "gatewayClassName", "controllerName":
		return true
	case "name":
		switch parentField(path) {
		case "parentRefs", "certificateRefs", "extensionRef", "parametersRef", "caCertificateRefs":
			return true
		}
	}
	return false
}

// hintString returns the pool of candidate values for a string property, by its schema path.
func (u *universe) hintString(g *sgen, path []string) []string {
	l, par := last(path), parentField(path)
	gwGroup := "gateway.networking.k8s.io"
	switch l {
	case "namespace":
		return u.namespaces
	case "gatewayClassName":
		return u.classes
	case "controllerName":
		return []string{"gateway.nginx.org/nginx-gateway-controller", "gateway.nginx.org/nginx-gateway-controller", "example.com/other-controller"}
	case "sectionName":
		if par == "targetRefs" {
			return []string{"p80", "http"}
		}
		return append(append([]string{}, u.listeners...), "nope")
	case "hostname":
		return u.hostnames
	case "replaceFullPath", "replacePrefixMatch":
		return u.paths
	case "scheme":
		return []string{"http", "https"}
	case "service":
		if par == "method" {
			return []string{"helloworld.Greeter", "svc.A", "a_b.C1", "Greeter"}
		}
	case "method":
		if par == "method" {
			return []string{"SayHello", "Do", "M_1"}
		}
	case "wellKnownCACertificates":
		return []string{"System"}
	case "endpoint":
		return []string{"otel.example.com:4317", "collector:4317", "10.0.0.9:4317"}
	case "serviceName":
		return []string{"my-svc", "ngf"}
	case "spanName":
		return []string{"my-span", "span_1"}
	case "key":
		if has(path, "spanAttributes") {
			return []string{"attr-key", "k.1"}
		}
		return []string{"team", "env"}
	case "operator":
		return []string{"In", "NotIn", "Exists", "DoesNotExist"}
	case "maxSize", "zoneSize":
		return []string{"10m", "512k", "1g", "1024"}
	case "interval", "time", "timeout", "server", "header", "request", "backendRequest", "absoluteTimeout", "idleTimeout", "backoff":
		return []string{"10s", "500ms", "1h", "1m", "5s"}
	case "sessionName":
		return []string{"sess", "my-session"}
	case "uri":
		return []string{"spiffe://cluster.local/ns/a/sa/b"}
	case "apiVersion":
		return []string{""}
	}
	if par == "hostnames" && l == "[]" {
		return u.hostnames
	}
	if par == "values" && l == "[]" {
		return []string{"dev", "prod"}
	}
	if par == "remove" && l == "[]" {
		return []string{"X-Gone", "x-remove-me"}
	}
	switch par {
	case "parentRefs":
		switch l {
		case "name":
			return u.gateways
		case "kind":
			return []string{"Gateway", "Gateway", "Gateway", "Service"}
		case "group":
			return []string{gwGroup, gwGroup, gwGroup, ""}
		}
	case "backendRefs", "backendRef", "requestMirror":
		switch l {
		case "name":
			return u.services
		case "kind":
			return []string{"Service", "Service", "Service", "Service", "Foo"}
		case "group":
			return []string{"", "", "", "core", "example.com"}
		}
	case "certificateRefs", "frontendValidation":
		switch l {
		case "name":
			return u.secrets
		case "kind":
			return []string{"Secret", "Secret", "Secret", "ConfigMap"}
		case "group":
			return []string{"", "", "core"}
		}
	case "caCertificateRefs":
		switch l {
		case "name":
			if has(path, "frontendValidation") {
				return u.configmaps
			}
			return u.configmaps
		case "kind":
			return []string{"ConfigMap", "ConfigMap", "ConfigMap", "Secret"}
		case "group":
			return []string{"", "", "core"}
		}
	case "extensionRef":
		switch l {
		case "name":
			return u.filters
		case "kind":
			return []string{"SnippetsFilter", "SnippetsFilter", "SnippetsFilter", "Other"}
		case "group":
			return []string{"gateway.nginx.org", "gateway.nginx.org", "gateway.nginx.org", "example.com"}
		}
	case "parametersRef":
		switch l {
		case "name":
			return u.proxies
		case "kind":
			return []string{"NginxProxy", "NginxProxy", "NginxProxy", "ConfigMap"}
		case "group":
			return []string{"gateway.nginx.org", "gateway.nginx.org", "example.com"}
		}
	case "kinds":
		switch l {
		case "kind":
			return []string{"HTTPRoute", "HTTPRoute", "GRPCRoute", "TLSRoute", "TCPRoute"}
		case "group":
			return []string{gwGroup, gwGroup, "example.com"}
		}
	case "targetRef", "targetRefs":
		switch l {
		case "name":
			switch g.kind {
			case "BackendTLSPolicy", "UpstreamSettingsPolicy":
				return u.services
			case "ObservabilityPolicy":
				return append(append([]string{}, u.hroutes...), u.groutes...)
			}
			return append(append(append([]string{}, u.gateways...), u.hroutes...), u.groutes...)
		case "kind":
			switch g.kind {
			case "BackendTLSPolicy", "UpstreamSettingsPolicy":
				return []string{"Service"}
			case "ObservabilityPolicy":
				return []string{"HTTPRoute", "GRPCRoute"}
			}
			return []string{"Gateway", "HTTPRoute", "GRPCRoute"}
		case "group":
			switch g.kind {
			case "BackendTLSPolicy":
				return []string{"", "", "core"}
			case "UpstreamSettingsPolicy":
				return []string{"", "core"}
			}
			return []string{gwGroup}
		}
	case "listeners":
		if l == "name" {
			return u.listeners
		}
		if l == "protocol" {
			return []string{"HTTP", "HTTP", "HTTP", "HTTPS", "HTTPS", "TLS", "TLS", "TCP", "UDP", "example.com/custom"}
		}
	case "headers", "set", "add":
		switch l {
		case "name":
			return []string{"version", "X-Env", "x-my-header", "Accept"}
		case "value":
			return []string{"v1", "v2", "a b", "text/html"}
		}
	case "queryParams":
		switch l {
		case "name":
			return []string{"q", "sort", "a.b"}
		case "value":
			return []string{"1", "2", "x y"}
		}
	case "path":
		if l == "value" {
			return u.paths
		}
	case "rules":
		if l == "name" {
			return []string{"rule-a", "rule-b", "rule-c", "rule-d"}
		}
	case "from":
		switch l {
		case "kind":
			return []string{"HTTPRoute", "GRPCRoute", "TLSRoute", "Gateway"}
		case "group":
			return []string{gwGroup}
		}
	case "to":
		switch l {
		case "kind":
			return []string{"Service", "Secret"}
		case "group":
			return []string{"", ""}
		case "name":
			return append(append([]string{}, u.services...), u.secrets...)
		}
	case "addresses":
		if l == "value" {
			return []string{"10.0.0.1", "198.51.100.1", "lb.example.com"}
		}
		if l == "type" {
			return []string{"IPAddress", "Hostname"}
		}
	case "trustedAddresses":
		if l == "value" {
			return []string{"10.0.0.0/8", "192.168.0.1", "fd00::/8", "::1", "lb.example.com"}
		}
	case "spanAttributes":
		if l == "value" {
			return []string{"attr-value", "v.1"}
		}
	case "snippets":
		if l == "value" {
			return []string{"limit_req zone=one;", "worker_priority 0;", "add_header X-Snippet 1;", "# comment"}
		}
	case "subjectAltNames":
		if l == "hostname" {
			return []string{"alt.example.com"}
		}
	case "matchExpressions":
		if l == "key" {
			return []string{"team", "env"}
		}
	}
	_ = strings.ToLower
	return nil
}

func (u *universe) hintInt(g *sgen, path []string) []int64 {
	l, par := last(path), parentField(path)
	switch {
	case l == "port" && par == "listeners":
		return u.ports
	case l == "port" && par == "parentRefs":
		return []int64{80, 443, 8080}
	case l == "port":
		return u.svcPorts
	case l == "weight":
		return []int64{0, 1, 1, 2, 10, 50, 1000000}
	case l == "statusCode":
		return []int64{301, 302}
	case l == "ratio", l == "percent":
		return []int64{0, 1, 50, 100}
	case l == "numerator":
		return []int64{0, 1, 5}
	case l == "denominator":
		return []int64{10, 100}
	case l == "attempts":
		return []int64{1, 3}
	case l == "codes" || (par == "codes" && l == "[]"):
		return []int64{500, 503}
	case l == "connections" || l == "requests" || l == "batchSize" || l == "batchCount":
		return []int64{1, 16, 100}
	}
	return nil
}
