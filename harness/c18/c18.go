// Package c18 drives the real provisioner eventHandler (through the verif overlay constructor) with
// controller-runtime's fake client and the real status.Updater on generated histories of
// create / update (incl. gatewayClassName changes) / delete / re-create of Gateways and
// GatewayClasses, delivered in random batches, and dumps after every batch
//
//   - what the CLUSTER contains (Deployments, Gateways, GatewayClasses with conditions): judge input
//   - the handler's internal maps (provisions, store, gatewayNextID): correspondence with the Lean model
//
// Output, one line per history, tab-separated parts "M <model input>", "O <observations>",
// "J <judge input>", plus a first line "T <template args>" and a last line "STATS <json>".
package c18

import (
	"bufio"
	"context"
	"encoding/json"
	"flag"
	"fmt"
	"os"
	"sort"
	"strings"

	"github.com/go-logr/logr"
	appsv1 "k8s.io/api/apps/v1"
	apiext "k8s.io/apiextensions-apiserver/pkg/apis/apiextensions/v1"
	metav1 "k8s.io/apimachinery/pkg/apis/meta/v1"
	"k8s.io/apimachinery/pkg/runtime"
	"k8s.io/apimachinery/pkg/types"
	"k8s.io/apimachinery/pkg/util/yaml"
	"sigs.k8s.io/controller-runtime/pkg/client"
	"sigs.k8s.io/controller-runtime/pkg/client/fake"
	"sigs.k8s.io/controller-runtime/pkg/event"
	gatewayv1 "sigs.k8s.io/gateway-api/apis/v1"

	embeddedfiles "github.com/nginx/nginx-gateway-fabric"
	"github.com/nginx/nginx-gateway-fabric/internal/framework/controller/predicate"
	"github.com/nginx/nginx-gateway-fabric/internal/framework/events"
	"github.com/nginx/nginx-gateway-fabric/internal/framework/gatewayclass"
	"github.com/nginx/nginx-gateway-fabric/internal/framework/status"
	"github.com/nginx/nginx-gateway-fabric/internal/mode/provisioner"
	"github.com/nginx/nginx-gateway-fabric/verifharness/rng"
)

const (
	ourCtlr     = "gateway.nginx.org/nginx-gateway-controller"
	foreignCtlr = "example.com/other-controller"
)

var gwKeys = []types.NamespacedName{
	{Namespace: "ns1", Name: "gw-a"},
	{Namespace: "ns1", Name: "gw-b"},
	{Namespace: "ns2", Name: "gw-a"},
	{Namespace: "ns2", Name: "gw-c"},
}

// op is one change of the cluster; it yields at most one event for the handler.
type op struct {
	kind string // cg ug tg dg | cc tc dc
	key  types.NamespacedName
	cls  string
}

func (o op) String() string {
	switch o.kind {
	case "cg", "ug", "tg":
		return fmt.Sprintf("%s:%s:%s", o.kind, o.key.String(), o.cls)
	case "dg":
		return "dg:" + o.key.String()
	}
	return o.kind + ":" + o.cls
}

type world struct {
	c       client.Client
	h       *provisioner.VerifHandler
	gcName  string
	ctlrOf  map[string]string
	classes []string
	pred    predicate.GatewayClassPredicate
	stats   *stats
}

type stats struct {
	Histories, Batches, Events      int
	OpKinds                         map[string]int
	BatchSizes                      map[int]int
	Panics                          map[string]int
	ClassChangesAway, ClassChangeTo int
	Recreates                       int
	MaxDeployments                  int
	MultiCreateBatches              int
	MultiCreateSizes                map[int]int
	HostileHistories                int
	DeploymentsListed               int
	GatewaysWithNeedle              int
	FilteredGCEvents                int
}

func newScheme() *runtime.Scheme {
	s := runtime.NewScheme()
	must(gatewayv1.Install(s))
	must(appsv1.AddToScheme(s))
	must(apiext.AddToScheme(s))
	return s
}

func must(err error) {
	if err != nil {
		panic(err)
	}
}

func templateArgs() ([]string, error) {
	d := &appsv1.Deployment{}
	if err := yaml.Unmarshal(embeddedfiles.StaticModeDeploymentYAML, d); err != nil {
		return nil, err
	}
	if len(d.Spec.Template.Spec.Containers) == 0 {
		return nil, fmt.Errorf("no containers in the static deployment manifest")
	}
	return d.Spec.Template.Spec.Containers[0].Args, nil
}

func newWorld(gcName string, st *stats) *world {
	c := fake.NewClientBuilder().WithScheme(newScheme()).
		WithStatusSubresource(&gatewayv1.Gateway{}, &gatewayv1.GatewayClass{}).Build()
	su := status.NewUpdater(c, logr.Discard())
	w := &world{
		c: c, gcName: gcName, stats: st,
		h:       provisioner.VerifNewEventHandler(gcName, su, c, embeddedfiles.StaticModeDeploymentYAML),
		ctlrOf:  map[string]string{gcName: ourCtlr, "other": ourCtlr, "foreign": foreignCtlr},
		classes: []string{gcName, "other", "foreign"},
		pred:    predicate.GatewayClassPredicate{ControllerName: ourCtlr},
	}
	return w
}

func (w *world) getGw(k types.NamespacedName) *gatewayv1.Gateway {
	g := &gatewayv1.Gateway{}
	if err := w.c.Get(context.Background(), k, g); err != nil {
		return nil
	}
	return g
}

func (w *world) getGC(n string) *gatewayv1.GatewayClass {
	g := &gatewayv1.GatewayClass{}
	if err := w.c.Get(context.Background(), types.NamespacedName{Name: n}, g); err != nil {
		return nil
	}
	return g
}

// apply performs the op on the cluster and returns the event the controllers would enqueue
// (nil when the watch predicate filters it).
func (w *world) apply(o op) interface{} {
	ctx := context.Background()
	switch o.kind {
	case "cg":
		g := &gatewayv1.Gateway{
			ObjectMeta: metav1.ObjectMeta{Namespace: o.key.Namespace, Name: o.key.Name},
			Spec:       gatewayv1.GatewaySpec{GatewayClassName: gatewayv1.ObjectName(o.cls)},
		}
		must(w.c.Create(ctx, g))
		return &events.UpsertEvent{Resource: w.getGw(o.key)}
	case "ug", "tg":
		g := w.getGw(o.key)
		g.Spec.GatewayClassName = gatewayv1.ObjectName(o.cls)
		if g.Labels == nil {
			g.Labels = map[string]string{}
		}
		g.Labels["touch"] = fmt.Sprint(len(g.Labels["touch"]) + 1)
		must(w.c.Update(ctx, g))
		return &events.UpsertEvent{Resource: w.getGw(o.key)}
	case "dg":
		must(w.c.Delete(ctx, w.getGw(o.key)))
		return &events.DeleteEvent{Type: &gatewayv1.Gateway{}, NamespacedName: o.key}
	case "cc":
		g := &gatewayv1.GatewayClass{
			ObjectMeta: metav1.ObjectMeta{Name: o.cls},
			Spec:       gatewayv1.GatewayClassSpec{ControllerName: gatewayv1.GatewayController(w.ctlrOf[o.cls])},
		}
		must(w.c.Create(ctx, g))
		n := w.getGC(o.cls)
		if !w.pred.Create(event.CreateEvent{Object: n}) {
			w.stats.FilteredGCEvents++
			return nil
		}
		return &events.UpsertEvent{Resource: n}
	case "tc":
		old := w.getGC(o.cls)
		g := old.DeepCopy()
		if g.Labels == nil {
			g.Labels = map[string]string{}
		}
		g.Labels["touch"] = g.Labels["touch"] + "x"
		must(w.c.Update(ctx, g))
		n := w.getGC(o.cls)
		if !w.pred.Update(event.UpdateEvent{ObjectOld: old, ObjectNew: n}) {
			w.stats.FilteredGCEvents++
			return nil
		}
		return &events.UpsertEvent{Resource: n}
	case "dc":
		old := w.getGC(o.cls)
		must(w.c.Delete(ctx, old))
		if !w.pred.Delete(event.DeleteEvent{Object: old}) {
			w.stats.FilteredGCEvents++
			return nil
		}
		return &events.DeleteEvent{Type: &gatewayv1.GatewayClass{}, NamespacedName: types.NamespacedName{Name: o.cls}}
	}
	panic("unknown op " + o.kind)
}

func evString(e interface{}) string {
	switch x := e.(type) {
	case *events.UpsertEvent:
		switch o := x.Resource.(type) {
		case *gatewayv1.Gateway:
			return fmt.Sprintf("ug:%s/%s:%s", o.Namespace, o.Name, o.Spec.GatewayClassName)
		case *gatewayv1.GatewayClass:
			return "uc:" + o.Name
		case *metav1.PartialObjectMetadata:
			return "crd"
		}
	case *events.DeleteEvent:
		switch x.Type.(type) {
		case *gatewayv1.Gateway:
			return "dg:" + x.NamespacedName.String()
		case *gatewayv1.GatewayClass:
			return "dc:" + x.NamespacedName.Name
		case *metav1.PartialObjectMetadata:
			return "crd"
		}
	}
	return "?"
}

func classifyPanic(v interface{}) string {
	s := fmt.Sprint(v)
	switch {
	case strings.Contains(s, "must exist"):
		return "gc-must-exist"
	case strings.Contains(s, "failed to create deployment"):
		return "create-failed"
	case strings.Contains(s, "failed to delete deployment"):
		return "delete-failed"
	case strings.Contains(s, "failed to prepare deployment"):
		return "prepare-failed"
	}
	s = strings.Map(func(r rune) rune {
		if r >= 'a' && r <= 'z' || r >= 'A' && r <= 'Z' || r >= '0' && r <= '9' {
			return r
		}
		return '_'
	}, s)
	if len(s) > 40 {
		s = s[:40]
	}
	return "other_" + s
}

func (w *world) handle(batch events.EventBatch) (pan string) {
	pan = "-"
	defer func() {
		if r := recover(); r != nil {
			pan = classifyPanic(r)
		}
	}()
	w.h.Handle(context.Background(), batch)
	return
}

func join(xs []string, sep string) string {
	if len(xs) == 0 {
		return "-"
	}
	return strings.Join(xs, sep)
}

func numLess(a, b string) bool {
	if len(a) != len(b) {
		return len(a) < len(b)
	}
	return a < b
}

func condString(cs []metav1.Condition) string {
	out := []string{}
	for _, c := range cs {
		st := "F"
		if c.Status == metav1.ConditionTrue {
			st = "T"
		}
		out = append(out, fmt.Sprintf("%s/%s/%s", c.Type, st, c.Reason))
	}
	return join(out, "+")
}

// dump lists the cluster and the handler's maps. newKeys = Gateways that got a Deployment in this batch,
// in the order of their ids.
func (w *world) dump(prevProv map[string]bool, pan string) (obs, snap string, newKeys []string, nDeps int) {
	ctx := context.Background()
	var deps appsv1.DeploymentList
	must(w.c.List(ctx, &deps))
	sort.Slice(deps.Items, func(i, j int) bool { return numLess(deps.Items[i].Name, deps.Items[j].Name) })
	dl := []string{}
	for _, d := range deps.Items {
		sel, pod := "<none>", "<none>"
		if d.Spec.Selector != nil {
			sel = d.Spec.Selector.MatchLabels["app"]
		}
		pod = d.Spec.Template.Labels["app"]
		args := []string{}
		if len(d.Spec.Template.Spec.Containers) > 0 {
			args = d.Spec.Template.Spec.Containers[0].Args
		}
		dl = append(dl, fmt.Sprintf("%s^%s^%s^%s", d.Name, sel, pod, join(args, "|")))
	}
	var gws gatewayv1.GatewayList
	must(w.c.List(ctx, &gws))
	gl := []string{}
	for _, g := range gws.Items {
		gl = append(gl, fmt.Sprintf("%s/%s:%s", g.Namespace, g.Name, g.Spec.GatewayClassName))
	}
	sort.Strings(gl)
	var gcs gatewayv1.GatewayClassList
	must(w.c.List(ctx, &gcs))
	cl, sl := []string{}, []string{}
	for _, g := range gcs.Items {
		ours := "0"
		if string(g.Spec.ControllerName) == ourCtlr {
			ours = "1"
			sl = append(sl, g.Name+":"+condString(g.Status.Conditions))
		}
		cl = append(cl, fmt.Sprintf("%s:%s:%s", g.Name, ours, condString(g.Status.Conditions)))
	}
	sort.Strings(cl)
	sort.Strings(sl)
	snap = fmt.Sprintf("G=%s&C=%s&D=%s&X=%s", join(gl, ","), join(cl, ","), join(dl, ","), pan)

	prov := w.h.Provisions()
	sort.Slice(prov, func(i, j int) bool { return numLess(prov[i].DepName, prov[j].DepName) })
	pl := []string{}
	for _, p := range prov {
		k := p.GwNs + "/" + p.GwName
		pl = append(pl, k+">"+p.DepName)
		if !prevProv[k+">"+p.DepName] {
			newKeys = append(newKeys, k)
		}
	}
	for k := range prevProv {
		delete(prevProv, k)
	}
	for _, p := range pl {
		prevProv[p] = true
	}
	sg := []string{}
	for k, c := range w.h.StoreGateways() {
		sg = append(sg, k+":"+c)
	}
	sort.Strings(sg)
	obs = fmt.Sprintf("P=%s&D=%s&S=%s&G=%s&C=%s&N=%d&X=%s", join(pl, ","), join(dl, ","), join(sl, ","),
		join(sg, ","), join(w.h.StoreGatewayClasses(), ","), w.h.NextID(), pan)
	return obs, snap, newKeys, len(deps.Items)
}

// genOp draws an op that is applicable to the current cluster.
func (w *world) genOp(r *rng.R, prof profile) (op, bool) {
	for tries := 0; tries < 20; tries++ {
		if r.Chance(prof.gcOps, 100) {
			n := rng.Pick(r, w.classes)
			if n == w.gcName && !r.Chance(prof.cfgGCOps, 100) {
				continue
			}
			ex := w.getGC(n) != nil
			switch {
			case !ex:
				return op{kind: "cc", cls: n}, true
			case r.Chance(1, 2):
				return op{kind: "tc", cls: n}, true
			default:
				return op{kind: "dc", cls: n}, true
			}
		}
		k := prof.key(r.Intn(prof.nKeys))
		g := w.getGw(k)
		if g == nil {
			cls := w.gcName
			if r.Chance(30, 100) {
				cls = rng.Pick(r, []string{"other", "foreign", "ghost"})
			}
			return op{kind: "cg", key: k, cls: cls}, true
		}
		cur := string(g.Spec.GatewayClassName)
		x := r.Intn(100)
		switch {
		case x < 35:
			return op{kind: "dg", key: k}, true
		case x < 35+prof.classChange:
			cls := w.gcName
			if cur == w.gcName || r.Chance(1, 3) {
				cls = rng.Pick(r, []string{"other", "foreign", "ghost"})
			}
			if cls == cur {
				continue
			}
			return op{kind: "ug", key: k, cls: cls}, true
		default:
			return op{kind: "tg", key: k, cls: cur}, true
		}
	}
	return op{}, false
}

type profile struct {
	keys        []types.NamespacedName // nil = gwKeys
	nKeys       int
	gcOps       int // % of ops on GatewayClasses
	cfgGCOps    int // % of those allowed to hit the configured class
	classChange int // % of ops on an existing Gateway that change its class
	startGC     int // % of histories whose cluster has the configured class at start-up
}

func (p profile) key(i int) types.NamespacedName {
	if p.keys != nil {
		return p.keys[i]
	}
	return gwKeys[i]
}

func (w *world) crd() *metav1.PartialObjectMetadata {
	return &metav1.PartialObjectMetadata{
		TypeMeta: metav1.TypeMeta{Kind: "CustomResourceDefinition", APIVersion: "apiextensions.k8s.io/v1"},
		ObjectMeta: metav1.ObjectMeta{
			Name:        "gatewayclasses.gateway.networking.k8s.io",
			Annotations: map[string]string{gatewayclass.BundleVersionAnnotation: gatewayclass.SupportedVersion},
		},
	}
}

// history runs one history; fixedOps != nil replays the given batches instead of generating.
func runHistory(r *rng.R, gcName string, prof profile, nBatches int, fixed [][]op, st *stats, tmpl []string,
	out *bufio.Writer,
) (anomaly bool) {
	w := newWorld(gcName, st)
	st.Histories++
	var hist, obsL, snapL, opsL []string
	prevProv := map[string]bool{}
	everClass := map[string]string{}

	runBatch := func(batch events.EventBatch, desc []string) bool {
		evs := []string{}
		for _, e := range batch {
			evs = append(evs, evString(e))
		}
		st.Batches++
		st.Events += len(batch)
		st.BatchSizes[len(batch)]++
		pan := w.handle(batch)
		obs, snap, newKeys, nd := w.dump(prevProv, pan)
		if len(newKeys) > 1 {
			st.MultiCreateBatches++
			st.MultiCreateSizes[len(newKeys)]++
		}
		st.DeploymentsListed += nd
		for _, k := range newKeys {
			if strings.Contains(k, lockNeedle) {
				st.GatewaysWithNeedle++
			}
		}
		if nd > st.MaxDeployments {
			st.MaxDeployments = nd
		}
		hist = append(hist, join(evs, ",")+"@"+join(newKeys, ","))
		obsL = append(obsL, obs)
		snapL = append(snapL, snap)
		opsL = append(opsL, join(desc, ","))
		if pan != "-" {
			st.Panics[pan]++
			return false
		}
		return true
	}

	// start-up: the cluster already holds some objects; the first batch is what
	// events.FirstEventBatchPreparerImpl delivers: Get(configured GatewayClass), List(Gateways), List(CRDs).
	var first events.EventBatch
	var desc []string
	applyQuiet := func(o op) {
		w.apply(o)
		desc = append(desc, o.String())
		st.OpKinds[o.kind]++
	}
	if fixed == nil {
		if r.Chance(prof.startGC, 100) {
			applyQuiet(op{kind: "cc", cls: gcName})
		}
		for i := 0; i < prof.nKeys; i++ {
			if r.Chance(1, 3) {
				cls := gcName
				if r.Chance(1, 3) {
					cls = "other"
				}
				applyQuiet(op{kind: "cg", key: prof.key(i), cls: cls})
				everClass[prof.key(i).String()] = cls
			}
		}
	} else if len(fixed) > 0 {
		for _, o := range fixed[0] {
			applyQuiet(o)
		}
		fixed = fixed[1:]
	}
	if g := w.getGC(gcName); g != nil {
		first = append(first, &events.UpsertEvent{Resource: g})
	}
	var gws gatewayv1.GatewayList
	must(w.c.List(context.Background(), &gws))
	for i := range gws.Items {
		first = append(first, &events.UpsertEvent{Resource: &gws.Items[i]})
	}
	first = append(first, &events.UpsertEvent{Resource: w.crd()})
	alive := runBatch(first, desc)

	for b := 0; alive && ((fixed == nil && b < nBatches) || (fixed != nil && b < len(fixed))); b++ {
		var batch events.EventBatch
		desc = nil
		var ops []op
		if fixed != nil {
			ops = fixed[b]
		} else {
			n := 1
			for n < 6 && r.Chance(45, 100) {
				n++
			}
			for i := 0; i < n; i++ {
				o, ok := w.genOp(r, prof)
				if !ok {
					break
				}
				ops = append(ops, o)
				// apply immediately so that the next op is drawn against the new cluster state
				if e := w.applyCounted(o, everClass); e != nil {
					batch = append(batch, e)
				}
				desc = append(desc, o.String())
			}
			if len(batch) == 0 {
				continue
			}
		}
		if fixed != nil {
			for _, o := range ops {
				if e := w.applyCounted(o, everClass); e != nil {
					batch = append(batch, e)
				}
				desc = append(desc, o.String())
			}
		}
		alive = runBatch(batch, desc)
	}

	fmt.Fprintf(out, "M gc=%s tmpl=%s hist=%s\tO %s\tJ gc=%s tmpl=%s snaps=%s\tH %s\n",
		gcName, join(tmpl, "|"), join(hist, ";"), join(obsL, ";"), gcName, join(tmpl, "|"), join(snapL, ";"), join(opsL, ";"))
	out.Flush()
	return false
}

func (w *world) applyCounted(o op, everClass map[string]string) interface{} {
	st := w.stats
	st.OpKinds[o.kind]++
	switch o.kind {
	case "cg":
		if _, ok := everClass[o.key.String()]; ok {
			st.Recreates++
		}
		everClass[o.key.String()] = o.cls
	case "ug":
		if everClass[o.key.String()] == w.gcName && o.cls != w.gcName {
			st.ClassChangesAway++
		}
		if o.cls == w.gcName {
			st.ClassChangeTo++
		}
		everClass[o.key.String()] = o.cls
	}
	return w.apply(o)
}

func parseOps(s string) ([][]op, error) {
	var out [][]op
	for _, b := range strings.Split(s, ";") {
		var ops []op
		if b != "-" && b != "" {
			for _, t := range strings.Split(b, ",") {
				f := strings.Split(t, ":")
				switch {
				case len(f) == 3 && (f[0] == "cg" || f[0] == "ug" || f[0] == "tg"):
					k := strings.Split(f[1], "/")
					ops = append(ops, op{kind: f[0], key: types.NamespacedName{Namespace: k[0], Name: k[1]}, cls: f[2]})
				case len(f) == 2 && f[0] == "dg":
					k := strings.Split(f[1], "/")
					ops = append(ops, op{kind: "dg", key: types.NamespacedName{Namespace: k[0], Name: k[1]}})
				case len(f) == 2 && (f[0] == "cc" || f[0] == "tc" || f[0] == "dc"):
					ops = append(ops, op{kind: f[0], cls: f[1]})
				default:
					return nil, fmt.Errorf("bad op %q", t)
				}
			}
		}
		out = append(out, ops)
	}
	return out, nil
}

// Run is the entry point of harness/cmd/c18.
func Run(args []string) int {
	fs := flag.NewFlagSet("c18", flag.ContinueOnError)
	seed := fs.Uint64("seed", 1, "seed")
	n := fs.Int("n", 200, "number of histories")
	maxBatches := fs.Int("maxbatches", 12, "max batches per history")
	replay := fs.String("ops", "", "replay: gc name '=' batches of ops (first = start-up cluster), e.g. nginx=cc:nginx;cg:ns1/gw-a:nginx;ug:ns1/gw-a:other")
	opsFile := fs.String("opsfile", "", "file with one -ops history per line")
	hostile := fs.Bool("hostile", false, "hostile-name family: Gateway namespaces/names that contain the arg names of the manifest (leader-election-lock-name, gateway, …), prefixes/suffixes of each other; deterministic single/pair histories, then -n random histories over such keys; also emits the K lines (DNS-1123 validity by apimachinery)")
	exhaustive := fs.Int("exhaustive", 0, "enumerate ALL op histories of this length over 2 Gateways x {configured, other} and 2 GatewayClasses (every op its own batch, and all ops after start-up in one batch)")
	if err := fs.Parse(args); err != nil {
		return 2
	}
	out := bufio.NewWriter(os.Stdout)
	defer out.Flush()
	st := &stats{OpKinds: map[string]int{}, BatchSizes: map[int]int{}, Panics: map[string]int{}, MultiCreateSizes: map[int]int{}}

	tmpl, err := templateArgs()
	if err != nil {
		fmt.Fprintf(out, "T error %v\n", err)
		return 0
	}
	fmt.Fprintf(out, "T %s\n", join(tmpl, "|"))

	replays := []string{}
	if *replay != "" {
		replays = append(replays, *replay)
	}
	if *opsFile != "" {
		data, err := os.ReadFile(*opsFile)
		if err != nil {
			fmt.Fprintln(os.Stderr, err)
			return 2
		}
		for _, l := range strings.Split(string(data), "\n") {
			if l = strings.TrimSpace(l); l != "" && !strings.HasPrefix(l, "#") {
				replays = append(replays, l)
			}
		}
	}
	if *hostile {
		runHostile(rng.New(*seed), *n, *maxBatches, st, tmpl, out)
	} else if *exhaustive > 0 {
		enumerate(*exhaustive, st, tmpl, out)
	} else if len(replays) > 0 {
		// one output line per replayed history, in order ("X …" when an op was not applicable)
		for _, rp := range replays {
			parts := strings.SplitN(rp, "=", 2)
			if len(parts) != 2 {
				fmt.Fprintf(out, "X bad-replay-line\n")
				continue
			}
			ops, err := parseOps(parts[1])
			if err != nil {
				fmt.Fprintf(out, "X %v\n", err)
				continue
			}
			func() {
				defer func() {
					if r := recover(); r != nil {
						fmt.Fprintf(out, "X replay-not-applicable %v\n", r)
					}
				}()
				runHistory(rng.New(*seed), parts[0], profile{nKeys: 4}, 0, ops, st, tmpl, out)
			}()
		}
	} else {
		r := rng.New(*seed)
		for i := 0; i < *n; i++ {
			hr := r.Fork()
			gc := "nginx"
			if hr.Chance(1, 5) {
				gc = "edge"
			}
			prof := profile{nKeys: 4, gcOps: 20, cfgGCOps: 15, classChange: 25, startGC: 95}
			switch hr.Intn(5) {
			case 0: // no class changes, configured class stable: the _partial region
				prof.classChange, prof.cfgGCOps = 0, 0
				prof.startGC = 100
			case 1: // small scope, dense
				prof.nKeys = 2
				prof.classChange = 40
			case 2: // GatewayClass churn
				prof.gcOps, prof.cfgGCOps = 45, 25
			}
			nb := hr.Range(3, *maxBatches)
			runHistory(hr, gc, prof, nb, nil, st, tmpl, out)
		}
	}
	js, _ := json.Marshal(st)
	fmt.Fprintf(out, "STATS %s\n", js)
	return 0
}
