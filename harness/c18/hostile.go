package c18

import (
	"bufio"
	"fmt"
	"strings"

	"k8s.io/apimachinery/pkg/types"
	"k8s.io/apimachinery/pkg/util/validation"

	"github.com/nginx/nginx-gateway-fabric/verifharness/rng"
)

const lockNeedle = "leader-election-lock-name"

// hostilePool: legal Gateway keys (namespace = DNS-1123 label, name = DNS-1123 subdomain) whose parts contain the
// arg names of the static manifest, look like flags ("--" inside a label is legal), like Deployment ids, or are
// prefixes / suffixes / swaps / re-bracketings of each other.
var hostilePool = []types.NamespacedName{
	{Namespace: lockNeedle, Name: "gw"},
	{Namespace: "ns1", Name: lockNeedle},
	{Namespace: "x-" + lockNeedle + "-y", Name: "gw-a"},
	{Namespace: "ns1", Name: "my-" + lockNeedle + ".example"},
	{Namespace: lockNeedle, Name: lockNeedle},
	{Namespace: "ns1", Name: "eader-election-lock-name"},
	{Namespace: "leader-election-lock-nam", Name: "e"},
	{Namespace: "lock-name", Name: "leader-election"},
	{Namespace: "gateway", Name: "gateway"},
	{Namespace: "gateway", Name: "gatewayclass"},
	{Namespace: "gatewayclass", Name: "gateway"},
	{Namespace: "config", Name: "service"},
	{Namespace: "nginx-gateway", Name: "nginx-gateway-1"},
	{Namespace: "update-gatewayclass-status", Name: "false"},
	{Namespace: "a--gateway", Name: "b--gateway"},
	{Namespace: "static-mode", Name: "metrics-disable"},
	{Namespace: "ns1", Name: "gw"},
	{Namespace: "ns1", Name: "gw-a"},
	{Namespace: "ns1", Name: "a-gw"},
	{Namespace: "ns", Name: "gw-a"},
	{Namespace: "ns1-gw", Name: "a"},
	{Namespace: "gw-a", Name: "ns1"},
	{Namespace: "ns2", Name: "gw-a"},
	{Namespace: "ns1", Name: "gw.a"},
	{Namespace: "0", Name: "0"},
}

var fragments = []string{
	lockNeedle, "leader-election", "lock-name", "gateway", "gatewayclass", "gateway-ctlr-name", "config", "service",
	"nginx-gateway", "update-gatewayclass-status", "static-mode", "health-port", "gw", "a", "b", "ns1", "x", "0", "false",
}

func genLabel(r *rng.R, max int) string {
	n := 1 + r.Intn(3)
	var b strings.Builder
	for i := 0; i < n; i++ {
		if i > 0 {
			b.WriteString(rng.Pick(r, []string{"-", "-", "--", ""}))
		}
		b.WriteString(rng.Pick(r, fragments))
	}
	s := b.String()
	if len(s) > max {
		s = strings.TrimRight(s[:max], "-")
	}
	return s
}

func genHostileKey(r *rng.R) types.NamespacedName {
	ns := genLabel(r, 63)
	name := genLabel(r, 63)
	if r.Chance(1, 4) {
		name += "." + genLabel(r, 40)
	}
	return types.NamespacedName{Namespace: ns, Name: name}
}

// derived keys: prefix / suffix / swap of a base key
func derive(r *rng.R, k types.NamespacedName) types.NamespacedName {
	switch r.Intn(5) {
	case 0:
		return types.NamespacedName{Namespace: k.Namespace, Name: k.Name + "-x"}
	case 1:
		return types.NamespacedName{Namespace: k.Namespace, Name: "x-" + k.Name}
	case 2:
		if validation.IsDNS1123Label(k.Name) == nil {
			return types.NamespacedName{Namespace: k.Name, Name: k.Namespace}
		}
	case 3:
		return types.NamespacedName{Namespace: "ns1", Name: k.Name} // same name, other namespace
	}
	if len(k.Namespace) > 1 {
		return types.NamespacedName{Namespace: strings.TrimRight(k.Namespace[:len(k.Namespace)-1], "-"), Name: k.Name}
	}
	return types.NamespacedName{Namespace: k.Namespace + "0", Name: k.Name}
}

func validKey(k types.NamespacedName) bool {
	return validation.IsDNS1123Label(k.Namespace) == nil && validation.IsDNS1123Subdomain(k.Name) == nil
}

func bit(b bool) string {
	if b {
		return "1"
	}
	return "0"
}

func emitK(out *bufio.Writer, ns, name string) {
	fmt.Fprintf(out, "K %s/%s %s%s\n", ns, name, bit(validation.IsDNS1123Label(ns) == nil),
		bit(validation.IsDNS1123Subdomain(name) == nil))
}

// runHostile: (1) every pool key alone — present at start-up, and created in a later batch; (2) pairs of pool keys
// becoming provisionable in ONE batch (start-up batch and a later batch); (3) n random histories over 4 keys drawn
// from the pool, freshly generated hostile names and keys derived from them.
func runHostile(r *rng.R, n, maxBatches int, st *stats, tmpl []string, out *bufio.Writer) {
	cc := op{kind: "cc", cls: "nginx"}
	cg := func(k types.NamespacedName) op { return op{kind: "cg", key: k, cls: "nginx"} }
	for _, k := range hostilePool {
		emitK(out, k.Namespace, k.Name)
		st.HostileHistories += 2
		runGuarded([][]op{{cc, cg(k)}}, st, tmpl, out)
		runGuarded([][]op{{cc}, {cg(k)}, {{kind: "dg", key: k}}, {cg(k)}}, st, tmpl, out)
	}
	// names the validators must reject (the Lean predicates are compared on them too)
	long := strings.Repeat("a", 64)
	for _, bad := range [][2]string{
		{"Ns1", "gw"}, {"ns1", "-gw"}, {"ns1", "gw-"}, {"ns1", "a..b"}, {"ns1", "a.-b"}, {"ns_1", "x"}, {"", "x"}, {"ns1", ""},
		{long, long}, {long[:63], strings.Repeat(long[:63]+".", 4)[:254]}, {"a.b", "a.b"}, {"ns1", "gw=a"}, {"ns1", ".a"},
		{"ns1", "a."}, {long[:63], strings.Repeat(long[:62]+".", 3) + long}, {long[:63], strings.Repeat(long[:62]+".", 3) + long + "a"},
	} {
		emitK(out, bad[0], bad[1])
	}
	np := len(hostilePool)
	for i := 0; i < np; i++ {
		a, b := hostilePool[i], hostilePool[(i+1+r.Intn(np-1))%np]
		st.HostileHistories += 2
		runGuarded([][]op{{cc, cg(a), cg(b)}}, st, tmpl, out)
		runGuarded([][]op{{cc}, {cg(a), cg(b)}, {{kind: "dg", key: a}}, {cg(a), {kind: "tg", key: b, cls: "nginx"}}}, st, tmpl, out)
	}
	for i := 0; i < n; i++ {
		hr := r.Fork()
		keys := make([]types.NamespacedName, 0, 4)
		seen := map[string]bool{}
		for len(keys) < 4 {
			var k types.NamespacedName
			switch x := hr.Intn(10); {
			case x < 4:
				k = rng.Pick(hr, hostilePool)
			case x < 7 || len(keys) == 0:
				k = genHostileKey(hr)
			default:
				k = derive(hr, keys[hr.Intn(len(keys))])
			}
			if seen[k.String()] || !validKey(k) {
				continue
			}
			seen[k.String()] = true
			emitK(out, k.Namespace, k.Name)
			keys = append(keys, k)
		}
		prof := profile{keys: keys, nKeys: 4, gcOps: 8, cfgGCOps: 5, classChange: 20, startGC: 100}
		st.HostileHistories++
		func() {
			defer func() {
				if rec := recover(); rec != nil {
					fmt.Fprintf(out, "X hostile-history-panicked %v\n", rec)
				}
			}()
			runHistory(hr, "nginx", prof, hr.Range(2, maxBatches), nil, st, tmpl, out)
		}()
	}
}
