package c18

import (
	"bufio"
	"fmt"

	"k8s.io/apimachinery/pkg/types"

	"github.com/nginx/nginx-gateway-fabric/verifharness/rng"
)

// small-scope alphabet for the exhaustive mode: abstract cluster state -> applicable ops.
type absState struct {
	gw [2]string // "" = absent, else class
	gc [2]bool   // configured ("nginx"), "other"
}

func (a absState) ops() []op {
	var out []op
	for i := 0; i < 2; i++ {
		k := gwKeys[i*2] // ns1/gw-a, ns2/gw-a (same name, different namespace)
		switch a.gw[i] {
		case "":
			out = append(out, op{kind: "cg", key: k, cls: "nginx"}, op{kind: "cg", key: k, cls: "other"})
		case "nginx":
			out = append(out, op{kind: "dg", key: k}, op{kind: "ug", key: k, cls: "other"}, op{kind: "tg", key: k, cls: "nginx"})
		default:
			out = append(out, op{kind: "dg", key: k}, op{kind: "ug", key: k, cls: "nginx"})
		}
	}
	for i, n := range []string{"nginx", "other"} {
		if a.gc[i] {
			out = append(out, op{kind: "dc", cls: n})
			if i == 1 {
				out = append(out, op{kind: "tc", cls: n})
			}
		} else {
			out = append(out, op{kind: "cc", cls: n})
		}
	}
	return out
}

func (a absState) apply(o op) absState {
	idx := func(k types.NamespacedName) int {
		if k == gwKeys[0] {
			return 0
		}
		return 1
	}
	switch o.kind {
	case "cg", "ug", "tg":
		a.gw[idx(o.key)] = o.cls
	case "dg":
		a.gw[idx(o.key)] = ""
	case "cc":
		a.gc[map[string]int{"nginx": 0, "other": 1}[o.cls]] = true
	case "dc":
		a.gc[map[string]int{"nginx": 0, "other": 1}[o.cls]] = false
	}
	return a
}

func enumerate(depth int, st *stats, tmpl []string, out *bufio.Writer) {
	start := []op{{kind: "cc", cls: "nginx"}}
	var rec func(a absState, seq []op)
	emit := func(seq []op) {
		// every op its own batch
		single := [][]op{start}
		for _, o := range seq {
			single = append(single, []op{o})
		}
		runGuarded(single, st, tmpl, out)
		if len(seq) > 1 {
			runGuarded([][]op{start, seq}, st, tmpl, out)
		}
	}
	rec = func(a absState, seq []op) {
		if len(seq) == depth {
			emit(seq)
			return
		}
		if !a.gc[0] { // the handler has panicked: the history ends here
			emit(seq)
			return
		}
		for _, o := range a.ops() {
			rec(a.apply(o), append(append([]op{}, seq...), o))
		}
	}
	rec(absState{gc: [2]bool{true, false}}, nil)
}

func runGuarded(ops [][]op, st *stats, tmpl []string, out *bufio.Writer) {
	defer func() {
		if r := recover(); r != nil {
			fmt.Fprintf(out, "X replay-not-applicable %v\n", r)
		}
	}()
	runHistory(rng.New(1), "nginx", profile{nKeys: 4}, 0, ops, st, tmpl, out)
}
