package c07

import (
	"fmt"

	apiv1 "k8s.io/api/core/v1"
	"sigs.k8s.io/controller-runtime/pkg/client"
	gatewayv1 "sigs.k8s.io/gateway-api/apis/v1"
	"sigs.k8s.io/gateway-api/apis/v1alpha2"

	ngfAPI "github.com/nginx/nginx-gateway-fabric/apis/v1alpha1"
	ngfAPIv2 "github.com/nginx/nginx-gateway-fabric/apis/v1alpha2"
	p "github.com/nginx/nginx-gateway-fabric/verifharness/pipeline"
	"github.com/nginx/nginx-gateway-fabric/verifharness/rng"
	"github.com/nginx/nginx-gateway-fabric/verifharness/scen"
)

func ptr[T any](v T) *T { return &v }

// Scenario = shared scen scenario + C07 emphasis (status-relevant corner cases), made admissible.
type Scenario struct {
	Objs []client.Object
	Opts p.Options
	Tags map[string]int
}

func (s *Scenario) tag(t string) { s.Tags[t]++ }

type gwInfo struct {
	ns, name, class string
	listeners       []gatewayv1.Listener
}

// Generate draws a scen scenario and adds C07-specific objects.
func Generate(r *rng.R) *Scenario {
	cfg := scen.DefaultConfig()
	cfg.PPolicies = 30
	cfg.PBackendTLS = 25
	base := scen.Generate(r, cfg)
	s := &Scenario{Objs: base.Objs, Opts: base.Opts, Tags: base.Tags}

	var gws []gwInfo
	maxAge := 0
	for _, o := range s.Objs {
		if a := int(o.GetCreationTimestamp().Unix() - p.Epoch.Unix()); a > maxAge {
			maxAge = a
		}
		if g, ok := o.(*gatewayv1.Gateway); ok && string(g.Spec.GatewayClassName) != "other" {
			gws = append(gws, gwInfo{g.Namespace, g.Name, string(g.Spec.GatewayClassName), g.Spec.Listeners})
		}
	}
	age := maxAge
	nextAge := func() int { age++; return age }
	nss := cfg.Namespaces

	// --- extra listeners on the first gateway: unsupported protocol, protocol conflict, protected port
	if len(gws) > 0 && r.Chance(35, 100) {
		for _, o := range s.Objs {
			g, ok := o.(*gatewayv1.Gateway)
			if !ok || g.Name != gws[0].name || g.Namespace != gws[0].ns {
				continue
			}
			switch r.Intn(3) {
			case 0:
				g.Spec.Listeners = append(g.Spec.Listeners, gatewayv1.Listener{Name: "ltcp", Port: 5000, Protocol: "TCP"})
				s.tag("listener-unsupported-protocol")
			case 1:
				// HTTPS on a port that an HTTP listener may own -> protocol conflict invalidates both
				g.Spec.Listeners = append(g.Spec.Listeners, gatewayv1.Listener{
					Name: "lconf", Port: rng.Pick(r, []gatewayv1.PortNumber{80, 8080}), Protocol: "HTTPS",
					Hostname: ptr(gatewayv1.Hostname("conf.example.com")),
					TLS: &gatewayv1.GatewayTLSConfig{Mode: ptr(gatewayv1.TLSModeTerminate),
						CertificateRefs: []gatewayv1.SecretObjectReference{{Kind: ptr(gatewayv1.Kind("Secret")), Name: "tls-a"}}},
				})
				s.tag("listener-protocol-conflict")
			default:
				g.Spec.Listeners = append(g.Spec.Listeners, gatewayv1.Listener{
					Name: "lbadcert", Port: 7443, Protocol: "HTTPS",
					TLS: &gatewayv1.GatewayTLSConfig{Mode: ptr(gatewayv1.TLSModeTerminate),
						CertificateRefs: []gatewayv1.SecretObjectReference{{Kind: ptr(gatewayv1.Kind("Secret")), Name: "tls-missing"}}},
				})
				s.tag("listener-missing-secret")
			}
			gws[0].listeners = g.Spec.Listeners
		}
	}

	parentTo := func(g gwInfo, routeNS, section string) gatewayv1.ParentReference {
		pr := gatewayv1.ParentReference{Name: gatewayv1.ObjectName(g.name), Namespace: ptr(gatewayv1.Namespace(g.ns))}
		if g.ns == routeNS && r.Chance(30, 100) {
			pr.Namespace = nil
		}
		if section != "" {
			pr.SectionName = ptr(gatewayv1.SectionName(section))
		}
		return pr
	}

	simpleRule := func(ns string) gatewayv1.HTTPRouteRule {
		return p.HTTPRule([]gatewayv1.HTTPRouteMatch{p.PathMatch("PathPrefix", rng.Pick(r, cfg.Paths))},
			p.Backend{Ref: fmt.Sprintf("svc%d", r.Intn(cfg.Services)), Port: 80, Weight: -1})
	}

	// --- routes with one parentRef per listener (sectionName on each), possibly a bad section / port
	if len(gws) > 0 && r.Chance(70, 100) {
		n := r.Range(1, 2)
		for i := 0; i < n; i++ {
			g := rng.Pick(r, gws)
			ns := rng.Pick(r, nss)
			var prs []gatewayv1.ParentReference
			for _, l := range g.listeners {
				if r.Chance(70, 100) {
					pr := parentTo(g, ns, string(l.Name))
					pr.Namespace = ptr(gatewayv1.Namespace(g.ns)) // same textual form for all (CEL)
					prs = append(prs, pr)
				}
			}
			if r.Chance(15, 100) {
				pr := parentTo(g, ns, "missing")
				pr.Namespace = ptr(gatewayv1.Namespace(g.ns))
				prs = append(prs, pr)
				s.tag("parent-missing-section")
			}
			if len(prs) > 0 && r.Chance(15, 100) {
				prs[0].Port = ptr(g.listeners[0].Port)
				s.tag("parent-port-set")
			}
			if len(prs) == 0 {
				continue
			}
			var hs []string
			if r.Chance(50, 100) {
				hs = []string{rng.Pick(r, []string{"cafe.example.com", "foo.example.com", "x.bar.org", "*.example.com", "nomatch.test"})}
			}
			kind := r.Intn(10)
			switch {
			case kind < 6:
				s.Objs = append(s.Objs, p.HTTPRoute(ns, fmt.Sprintf("hm%d", i), nextAge(), prs, hs, simpleRule(ns)))
				s.tag("multi-parent-http")
			case kind < 8:
				rule := gatewayv1.GRPCRouteRule{BackendRefs: []gatewayv1.GRPCBackendRef{{BackendRef: p.BackendRef(
					p.Backend{Ref: "svc0", Port: 80, Weight: -1})}}}
				s.Objs = append(s.Objs, p.GRPCRoute(ns, fmt.Sprintf("gm%d", i), nextAge(), prs, hs, rule))
				s.tag("multi-parent-grpc")
			default:
				if len(hs) == 0 {
					hs = []string{"cafe.example.com"}
				}
				s.Objs = append(s.Objs, p.TLSRoute(ns, fmt.Sprintf("tm%d", i), nextAge(), prs, hs,
					p.Backend{Ref: "svc1", Port: 80, Weight: -1}))
				s.tag("multi-parent-tls")
			}
		}
	}

	// --- a route naming the same gateway twice, once with and once without namespace (passes the CRD's CEL
	// rules, which compare the namespace textually)
	if len(gws) > 0 && r.Chance(12, 100) {
		g := rng.Pick(r, gws)
		prs := []gatewayv1.ParentReference{
			{Name: gatewayv1.ObjectName(g.name)},
			{Name: gatewayv1.ObjectName(g.name), Namespace: ptr(gatewayv1.Namespace(g.ns))},
		}
		s.Objs = append(s.Objs, p.HTTPRoute(g.ns, "hdup", nextAge(), prs, nil, simpleRule(g.ns)))
		s.tag("parent-implicit-explicit-ns")
	}

	// --- a parentRef that is not a Gateway (mesh) next to a Gateway parentRef
	if len(gws) > 0 && r.Chance(15, 100) {
		g := rng.Pick(r, gws)
		prs := []gatewayv1.ParentReference{
			{Group: ptr(gatewayv1.Group("")), Kind: ptr(gatewayv1.Kind("Service")), Name: "svc0"},
			parentTo(g, g.ns, ""),
		}
		s.Objs = append(s.Objs, p.HTTPRoute(g.ns, "hmesh", nextAge(), prs, nil, simpleRule(g.ns)))
		s.tag("parent-service-kind")
	}

	// --- invalid rules / filters / filter refs
	if len(gws) > 0 && r.Chance(60, 100) {
		g := rng.Pick(r, gws)
		ns := rng.Pick(r, nss)
		prs := []gatewayv1.ParentReference{parentTo(g, ns, "")}
		good := simpleRule(ns)
		bad := simpleRule(ns)
		switch r.Intn(6) {
		case 4:
			// the SnippetsFilter exists but is invalid (two snippets for one context): the reference does not resolve
			sf := &ngfAPI.SnippetsFilter{ObjectMeta: p.Meta(ns, "sf-invalid", nextAge())}
			sf.Spec.Snippets = []ngfAPI.Snippet{
				{Context: ngfAPI.NginxContextHTTPServerLocation, Value: "add_header X-Sf a;"},
				{Context: ngfAPI.NginxContextHTTPServerLocation, Value: "add_header X-Sf b;"},
			}
			s.Objs = append(s.Objs, sf)
			bad.Filters = []gatewayv1.HTTPRouteFilter{{Type: gatewayv1.HTTPRouteFilterExtensionRef,
				ExtensionRef: &gatewayv1.LocalObjectReference{Group: ngfAPI.GroupName, Kind: "SnippetsFilter", Name: "sf-invalid"}}}
			s.tag("rule-invalid-snippetsfilter-extref")
		case 0:
			bad.Matches[0].Headers = []gatewayv1.HTTPHeaderMatch{{Type: ptr(gatewayv1.HeaderMatchRegularExpression), Name: "h", Value: "a.*"}}
			s.tag("rule-invalid-match")
		case 1:
			bad.Filters = []gatewayv1.HTTPRouteFilter{{Type: gatewayv1.HTTPRouteFilterRequestMirror,
				RequestMirror: &gatewayv1.HTTPRequestMirrorFilter{BackendRef: gatewayv1.BackendObjectReference{Name: "svc0", Port: ptr(gatewayv1.PortNumber(80))}}}}
			s.tag("rule-unsupported-filter")
		case 2:
			bad.Filters = []gatewayv1.HTTPRouteFilter{{Type: gatewayv1.HTTPRouteFilterExtensionRef,
				ExtensionRef: &gatewayv1.LocalObjectReference{Group: ngfAPI.GroupName, Kind: "SnippetsFilter", Name: "sf-missing"}}}
			s.tag("rule-unresolved-extref")
		case 3:
			bad.Filters = []gatewayv1.HTTPRouteFilter{{Type: gatewayv1.HTTPRouteFilterExtensionRef,
				ExtensionRef: &gatewayv1.LocalObjectReference{Group: "example.com", Kind: "Foo", Name: "x"}}}
			s.tag("rule-invalid-extref")
		default:
			sf := &ngfAPI.SnippetsFilter{ObjectMeta: p.Meta(ns, "sf-ok", nextAge())}
			sf.Spec.Snippets = []ngfAPI.Snippet{{Context: ngfAPI.NginxContextHTTPServerLocation, Value: "add_header X-Sf ok;"}}
			s.Objs = append(s.Objs, sf)
			bad.Filters = []gatewayv1.HTTPRouteFilter{{Type: gatewayv1.HTTPRouteFilterExtensionRef,
				ExtensionRef: &gatewayv1.LocalObjectReference{Group: ngfAPI.GroupName, Kind: "SnippetsFilter", Name: "sf-ok"}}}
			s.tag("rule-resolved-extref")
		}
		rules := []gatewayv1.HTTPRouteRule{bad}
		if r.Bool() {
			rules = append(rules, good)
		}
		s.Objs = append(s.Objs, p.HTTPRoute(ns, "hbad", nextAge(), prs, nil, rules...))
	}

	// --- TLSRoutes: two backendRefs; two routes competing for one hostname
	var tlsGw *gwInfo
	var tlsListener string
	for i := range gws {
		for _, l := range gws[i].listeners {
			if l.Protocol == gatewayv1.TLSProtocolType {
				tlsGw, tlsListener = &gws[i], string(l.Name)
			}
		}
	}
	if tlsGw != nil && r.Chance(60, 100) {
		ns := tlsGw.ns
		prs := []gatewayv1.ParentReference{parentTo(*tlsGw, ns, rng.Pick(r, []string{"", tlsListener}))}
		switch r.Intn(2) {
		case 0:
			s.Objs = append(s.Objs, p.TLSRoute(ns, "t2b", nextAge(), prs, []string{"two.example.com"},
				p.Backend{Ref: "svc0", Port: 80, Weight: -1}, p.Backend{Ref: "svc1", Port: 80, Weight: -1}))
			s.tag("tlsroute-two-backends")
		default:
			h := rng.Pick(r, []string{"dup.example.com", "cafe.example.com"})
			s.Objs = append(s.Objs,
				p.TLSRoute(ns, "tdup-a", nextAge(), prs, []string{h}, p.Backend{Ref: "svc0", Port: 80, Weight: -1}),
				p.TLSRoute(ns, "tdup-b", nextAge(), prs, []string{h}, p.Backend{Ref: "svc2", Port: 80, Weight: -1}))
			s.tag("tlsroute-hostname-conflict")
		}
	}

	// --- policies on gateways / routes / services
	routeNames := map[string][][2]string{} // kind -> (ns, name)
	for _, o := range s.Objs {
		switch x := o.(type) {
		case *gatewayv1.HTTPRoute:
			routeNames["HTTPRoute"] = append(routeNames["HTTPRoute"], [2]string{x.Namespace, x.Name})
		case *gatewayv1.GRPCRoute:
			routeNames["GRPCRoute"] = append(routeNames["GRPCRoute"], [2]string{x.Namespace, x.Name})
		}
	}
	csp := func(ns, name, kind, target string, size string) *ngfAPI.ClientSettingsPolicy {
		c := &ngfAPI.ClientSettingsPolicy{ObjectMeta: p.Meta(ns, name, nextAge())}
		c.Spec.TargetRef = v1alpha2.LocalPolicyTargetReference{Group: gatewayv1.GroupName, Kind: gatewayv1.Kind(kind),
			Name: gatewayv1.ObjectName(target)}
		c.Spec.Body = &ngfAPI.ClientBody{MaxSize: ptr(ngfAPI.Size(size))}
		return c
	}
	if r.Chance(45, 100) {
		kind := rng.Pick(r, []string{"HTTPRoute", "HTTPRoute", "GRPCRoute"})
		if rs := routeNames[kind]; len(rs) > 0 {
			t := rng.Pick(r, rs)
			s.Objs = append(s.Objs, csp(t[0], "csp-route", kind, t[1], "5m"))
			s.tag("policy-on-route")
			if r.Chance(30, 100) {
				// a second, conflicting policy on the same route
				s.Objs = append(s.Objs, csp(t[0], "csp-route2", kind, t[1], "6m"))
				s.tag("policy-conflict")
			}
		}
	}
	if r.Chance(15, 100) {
		s.Objs = append(s.Objs, csp(rng.Pick(r, nss), "csp-nowhere", "HTTPRoute", "no-such-route", "1m"))
		s.tag("policy-target-missing")
	}
	if len(gws) > 0 && r.Chance(25, 100) {
		g := rng.Pick(r, gws)
		bad := csp(g.ns, "csp-gw2", "Gateway", g.name, "not-a-size")
		s.Objs = append(s.Objs, bad)
		s.tag("policy-invalid")
	}
	if r.Chance(35, 100) {
		if rs := routeNames["HTTPRoute"]; len(rs) > 0 {
			t := rng.Pick(r, rs)
			op := &ngfAPIv2.ObservabilityPolicy{ObjectMeta: p.Meta(t[0], "obs", nextAge())}
			op.Spec.TargetRefs = []v1alpha2.LocalPolicyTargetReference{{Group: gatewayv1.GroupName, Kind: "HTTPRoute", Name: gatewayv1.ObjectName(t[1])}}
			for _, o := range rs {
				if o[0] == t[0] && o[1] != t[1] && r.Bool() {
					op.Spec.TargetRefs = append(op.Spec.TargetRefs, v1alpha2.LocalPolicyTargetReference{
						Group: gatewayv1.GroupName, Kind: "HTTPRoute", Name: gatewayv1.ObjectName(o[1])})
				}
			}
			if r.Chance(30, 100) {
				op.Spec.TargetRefs = append(op.Spec.TargetRefs, v1alpha2.LocalPolicyTargetReference{
					Group: gatewayv1.GroupName, Kind: "GRPCRoute", Name: "no-such-grpc"})
			}
			op.Spec.Tracing = &ngfAPIv2.Tracing{Strategy: ngfAPIv2.TraceStrategyRatio}
			s.Objs = append(s.Objs, op)
			s.tag("observability-policy")
		}
	}
	if r.Chance(30, 100) {
		ns := rng.Pick(r, nss)
		up := &ngfAPI.UpstreamSettingsPolicy{ObjectMeta: p.Meta(ns, "usp", nextAge())}
		up.Spec.TargetRefs = []v1alpha2.LocalPolicyTargetReference{{Group: "core", Kind: "Service", Name: "svc0"}}
		if r.Bool() {
			up.Spec.TargetRefs = append(up.Spec.TargetRefs, v1alpha2.LocalPolicyTargetReference{Group: "core", Kind: "Service", Name: "svc1"})
		}
		up.Spec.ZoneSize = ptr(ngfAPI.Size("1m"))
		s.Objs = append(s.Objs, up)
		s.tag("upstream-settings-policy")
	}

	// --- policies with several targetRefs x winning Gateway valid / invalid: an UpstreamSettingsPolicy on 2-3 Services that a
	// route of the winning Gateway references (or not), an ObservabilityPolicy on several routes; the winning Gateway is made
	// invalid in half of these cases (spec.addresses is unsupported; or the GatewayClass object is removed)
	if r.Chance(22, 100) {
		var win *gatewayv1.Gateway
		for _, o := range s.Objs {
			g, ok := o.(*gatewayv1.Gateway)
			if !ok || string(g.Spec.GatewayClassName) != s.Opts.Class {
				continue
			}
			if win == nil || g.CreationTimestamp.Time.Before(win.CreationTimestamp.Time) ||
				(g.CreationTimestamp.Time.Equal(win.CreationTimestamp.Time) && g.Namespace+"/"+g.Name < win.Namespace+"/"+win.Name) {
				win = g
			}
		}
		if win != nil {
			ns := rng.Pick(r, nss)
			nsvc := r.Range(2, 3)
			if nsvc > cfg.Services {
				nsvc = cfg.Services
			}
			var rules []gatewayv1.HTTPRouteRule
			refd := r.Chance(80, 100)
			for i := 0; i < nsvc; i++ {
				if refd || i == 0 {
					rules = append(rules, p.HTTPRule([]gatewayv1.HTTPRouteMatch{p.PathMatch("PathPrefix", fmt.Sprintf("/multi%d", i))},
						p.Backend{Ref: fmt.Sprintf("svc%d", i), Port: 80, Weight: -1}))
				}
			}
			pr := gatewayv1.ParentReference{Name: gatewayv1.ObjectName(win.Name), Namespace: ptr(gatewayv1.Namespace(win.Namespace))}
			s.Objs = append(s.Objs, p.HTTPRoute(ns, "hmulti", nextAge(), []gatewayv1.ParentReference{pr}, nil, rules...))
			s.Objs = append(s.Objs, p.HTTPRoute(ns, "hmulti2", nextAge(), []gatewayv1.ParentReference{pr}, nil, rules[0]))
			up := &ngfAPI.UpstreamSettingsPolicy{ObjectMeta: p.Meta(ns, "usp-multi", nextAge())}
			for i := 0; i < nsvc; i++ {
				up.Spec.TargetRefs = append(up.Spec.TargetRefs, v1alpha2.LocalPolicyTargetReference{Group: "core", Kind: "Service",
					Name: gatewayv1.ObjectName(fmt.Sprintf("svc%d", i))})
			}
			up.Spec.ZoneSize = ptr(ngfAPI.Size("2m"))
			s.Objs = append(s.Objs, up)
			op := &ngfAPIv2.ObservabilityPolicy{ObjectMeta: p.Meta(ns, "obs-multi", nextAge())}
			for _, n := range []string{"hmulti", "hmulti2"} {
				op.Spec.TargetRefs = append(op.Spec.TargetRefs, v1alpha2.LocalPolicyTargetReference{
					Group: gatewayv1.GroupName, Kind: "HTTPRoute", Name: gatewayv1.ObjectName(n)})
			}
			op.Spec.Tracing = &ngfAPIv2.Tracing{Strategy: ngfAPIv2.TraceStrategyRatio}
			s.Objs = append(s.Objs, op)
			s.tag("policy-multi-target")
			switch r.Intn(4) {
			case 0:
				win.Spec.Addresses = []gatewayv1.GatewayAddress{{Value: "198.51.100.7"}}
				s.tag("winning-gateway-invalid-addresses")
			case 1:
				var objs []client.Object
				for _, o := range s.Objs {
					if gc, ok := o.(*gatewayv1.GatewayClass); ok && gc.Name == s.Opts.Class {
						continue
					}
					objs = append(objs, o)
				}
				s.Objs = objs
				s.tag("winning-gateway-invalid-class-missing")
			}
		}
	}

	makeAdmissible(s, r)

	// --- generations: observedGeneration must follow metadata.generation of each object
	for _, o := range s.Objs {
		switch o.(type) {
		case *apiv1.Namespace, *apiv1.Service, *apiv1.Secret:
		default:
			o.SetGeneration(int64(r.Range(1, 9)))
		}
	}
	return s
}

// ---------------------------------------------------------------- admissibility (CRD schema / CEL of gateway-api v1.2.1)

func sameParentCEL(a, b gatewayv1.ParentReference) bool {
	grp := func(x gatewayv1.ParentReference) string {
		if x.Group == nil {
			return gatewayv1.GroupName
		}
		return string(*x.Group)
	}
	knd := func(x gatewayv1.ParentReference) string {
		if x.Kind == nil {
			return "Gateway"
		}
		return string(*x.Kind)
	}
	nsEmpty := func(x gatewayv1.ParentReference) bool { return x.Namespace == nil || *x.Namespace == "" }
	if grp(a) != grp(b) || knd(a) != knd(b) || a.Name != b.Name {
		return false
	}
	if nsEmpty(a) && nsEmpty(b) {
		return true
	}
	return !nsEmpty(a) && !nsEmpty(b) && *a.Namespace == *b.Namespace
}

// parentRefsAdmissible implements the two experimental-channel CEL rules on spec.parentRefs
// ("sectionName or port must be specified / unique when parentRefs includes 2 or more references to the same parent").
func parentRefsAdmissible(prs []gatewayv1.ParentReference) bool {
	secEmpty := func(x gatewayv1.ParentReference) bool { return x.SectionName == nil || *x.SectionName == "" }
	portEmpty := func(x gatewayv1.ParentReference) bool { return x.Port == nil || *x.Port == 0 }
	for i, a := range prs {
		matches := 0
		for j, b := range prs {
			if !sameParentCEL(a, b) {
				continue
			}
			if i != j && (secEmpty(a) != secEmpty(b) || portEmpty(a) != portEmpty(b)) {
				return false
			}
			secEq := (secEmpty(a) && secEmpty(b)) || (a.SectionName != nil && b.SectionName != nil && *a.SectionName == *b.SectionName)
			portEq := (portEmpty(a) && portEmpty(b)) || (a.Port != nil && b.Port != nil && *a.Port == *b.Port)
			if secEq && portEq {
				matches++
			}
		}
		if matches != 1 {
			return false
		}
	}
	return true
}

func fixParentRefs(prs []gatewayv1.ParentReference) ([]gatewayv1.ParentReference, bool) {
	changed := false
	for !parentRefsAdmissible(prs) && len(prs) > 1 {
		prs = prs[:len(prs)-1]
		changed = true
	}
	return prs, changed
}

// makeAdmissible repairs what the shared generator may produce outside the CRD rules and that matters here.
// sameGatewayTwice: two parentRefs that resolve to the same (gateway, sectionName) although the CEL rules,
// which compare namespaces textually, let them pass.
func sameGatewayTwice(prs []gatewayv1.ParentReference, routeNS string) bool {
	seen := map[string]bool{}
	for _, pr := range prs {
		if pr.Kind != nil && *pr.Kind != "Gateway" {
			continue
		}
		ns := routeNS
		if pr.Namespace != nil {
			ns = string(*pr.Namespace)
		}
		sec := ""
		if pr.SectionName != nil {
			sec = string(*pr.SectionName)
		}
		k := ns + "/" + string(pr.Name) + "/" + sec
		if seen[k] {
			return true
		}
		seen[k] = true
	}
	return false
}

func makeAdmissible(s *Scenario, r *rng.R) {
	// the shared generator produces "same gateway twice" parentRefs in about a fifth of the scenarios; keep a
	// quarter of them (known finding C07:duplicate-parentref) so that they do not dominate the sample
	thin := func(prs []gatewayv1.ParentReference, ns, name string) []gatewayv1.ParentReference {
		if name != "hdup" && sameGatewayTwice(prs, ns) && !r.Chance(25, 100) {
			for sameGatewayTwice(prs, ns) && len(prs) > 1 {
				prs = prs[:len(prs)-1]
			}
			s.tag("thinned-duplicate-parentref")
		}
		return prs
	}
	for _, o := range s.Objs {
		switch x := o.(type) {
		case *gatewayv1.HTTPRoute:
			var ch bool
			x.Spec.ParentRefs = thin(x.Spec.ParentRefs, x.Namespace, x.Name)
			x.Spec.ParentRefs, ch = fixParentRefs(x.Spec.ParentRefs)
			if ch {
				s.tag("fixed-parentrefs")
			}
			for i := range x.Spec.Rules {
				for _, f := range x.Spec.Rules[i].Filters {
					if f.Type == gatewayv1.HTTPRouteFilterRequestRedirect {
						x.Spec.Rules[i].BackendRefs = nil // CEL: redirect must not be used with backendRefs
					}
				}
			}
		case *gatewayv1.GRPCRoute:
			var ch bool
			x.Spec.ParentRefs = thin(x.Spec.ParentRefs, x.Namespace, x.Name)
			x.Spec.ParentRefs, ch = fixParentRefs(x.Spec.ParentRefs)
			if ch {
				s.tag("fixed-parentrefs")
			}
		case *v1alpha2.TLSRoute:
			var ch bool
			x.Spec.ParentRefs = thin(x.Spec.ParentRefs, x.Namespace, x.Name)
			x.Spec.ParentRefs, ch = fixParentRefs(x.Spec.ParentRefs)
			if ch {
				s.tag("fixed-parentrefs")
			}
			for i := range x.Spec.Rules {
				if len(x.Spec.Rules[i].BackendRefs) == 0 { // MinItems=1
					x.Spec.Rules[i].BackendRefs = []gatewayv1.BackendRef{p.BackendRef(p.Backend{Ref: "svc0", Port: 80, Weight: -1})}
					s.tag("fixed-tls-backend")
				}
			}
		case *gatewayv1.Gateway:
			// CEL: combination of port, protocol and hostname must be unique; listener names unique
			seen := map[string]bool{}
			var ls []gatewayv1.Listener
			for _, l := range x.Spec.Listeners {
				// CRD defaulting: allowedRoutes defaults to {namespaces: {from: Same}}
				if l.AllowedRoutes == nil {
					l.AllowedRoutes = &gatewayv1.AllowedRoutes{}
				}
				if l.AllowedRoutes.Namespaces == nil {
					l.AllowedRoutes.Namespaces = &gatewayv1.RouteNamespaces{}
				}
				if l.AllowedRoutes.Namespaces.From == nil {
					l.AllowedRoutes.Namespaces.From = ptr(gatewayv1.NamespacesFromSame)
				}
				h := ""
				if l.Hostname != nil {
					h = string(*l.Hostname)
				}
				k := fmt.Sprintf("%d/%s/%s", l.Port, l.Protocol, h)
				if seen[k] {
					s.tag("fixed-duplicate-listener")
					continue
				}
				seen[k] = true
				ls = append(ls, l)
			}
			x.Spec.Listeners = ls
		}
	}
}
