package c07

// Handler stream: the REAL static eventHandlerImpl.HandleEventBatch (through overlay accessor VerifC07*) wired to the
// real change processor and service resolver of the shared pipeline, with stubs for the generator, the file manager
// and the NGINX runtime manager whose outcomes the harness chooses, and a recording status updater. After every
// batch the recorded UpdateRequests are applied to the persisted copies of the objects and one Line is emitted:
// `reloadErr` is the TRUTH of the environment (did NGINX fail to take the last applied configuration), `prepErr` what
// the handler recorded in latestReloadResult, `h` the batch history for the Lean handler model.

import (
	"context"
	"errors"
	"fmt"
	"sort"

	ngxclient "github.com/nginxinc/nginx-plus-go-client/client"
	apiv1 "k8s.io/api/core/v1"
	discoveryV1 "k8s.io/api/discovery/v1"
	"k8s.io/apimachinery/pkg/types"
	"k8s.io/client-go/tools/record"
	"sigs.k8s.io/controller-runtime/pkg/client"
	gatewayv1 "sigs.k8s.io/gateway-api/apis/v1"

	"github.com/nginx/nginx-gateway-fabric/internal/framework/events"
	frameworkStatus "github.com/nginx/nginx-gateway-fabric/internal/framework/status"
	ngftypes "github.com/nginx/nginx-gateway-fabric/internal/framework/types"
	static "github.com/nginx/nginx-gateway-fabric/internal/mode/static"
	"github.com/nginx/nginx-gateway-fabric/internal/mode/static/licensing/licensingfakes"
	"github.com/nginx/nginx-gateway-fabric/internal/mode/static/nginx/file"
	"github.com/nginx/nginx-gateway-fabric/internal/mode/static/state"
	"github.com/nginx/nginx-gateway-fabric/internal/mode/static/state/dataplane"
	"github.com/nginx/nginx-gateway-fabric/internal/mode/static/state/graph"
	ngfStatus "github.com/nginx/nginx-gateway-fabric/internal/mode/static/status"
	metav1 "k8s.io/apimachinery/pkg/apis/meta/v1"
	p "github.com/nginx/nginx-gateway-fabric/verifharness/pipeline"
	"github.com/nginx/nginx-gateway-fabric/verifharness/rng"
)

// ---- stubs whose outcome the harness chooses per batch

type stubGenerator struct{}

func (stubGenerator) Generate(conf dataplane.Configuration) []file.File {
	return []file.File{{Path: "/etc/nginx/conf.d/http.conf", Type: file.TypeRegular,
		Content: []byte(fmt.Sprintf("# version %d\n", conf.Version))}}
}

func (stubGenerator) GenerateDeploymentContext(dataplane.DeploymentContext) (file.File, error) {
	return file.File{Path: "/etc/nginx/main-includes/deployment_ctx.json", Type: file.TypeRegular, Content: []byte("{}")}, nil
}

type stubFileMgr struct {
	ok     bool
	called bool
}

func (f *stubFileMgr) ReplaceFiles([]file.File) error {
	f.called = true
	if !f.ok {
		return errors.New("verif: write failed: no space left on device")
	}
	return nil
}

type stubRuntime struct {
	plus      bool
	reloadOK  bool
	apiOK     bool
	reloaded  bool // Reload was called and succeeded in this batch
	reloadErr bool
	apiErr    bool // a Plus API call failed in this batch
	loaded    int  // configuration version NGINX runs (last successful Reload)
}

func (r *stubRuntime) Reload(_ context.Context, v int) error {
	if !r.reloadOK {
		r.reloadErr = true
		return errors.New("verif: nginx: [emerg] reload failed")
	}
	r.reloaded = true
	r.loaded = v
	return nil
}

func (r *stubRuntime) IsPlus() bool { return r.plus }

func (r *stubRuntime) GetUpstreams() (ngxclient.Upstreams, ngxclient.StreamUpstreams, error) {
	if !r.apiOK {
		r.apiErr = true
		return nil, nil, errors.New("verif: NGINX Plus API unavailable")
	}
	return ngxclient.Upstreams{}, ngxclient.StreamUpstreams{}, nil
}

func (r *stubRuntime) UpdateHTTPServers(string, []ngxclient.UpstreamServer) error { return nil }

func (r *stubRuntime) UpdateStreamServers(string, []ngxclient.StreamUpstreamServer) error { return nil }

// recProcessor delegates to the real ChangeProcessorImpl and records what Process returned.
type recProcessor struct {
	state.ChangeProcessor
	lastCT    state.ChangeType
	lastGraph *graph.Graph // graph of the last batch that was not NoChange
	called    bool
	// onProcess runs when the handler calls Process(), i.e. after parseAndCaptureEvent of every event of the batch (where
	// the out-of-batch callbacks for the NGF front Service run) and before the batch's own apply / status update
	onProcess func()
}

func (r *recProcessor) Process() (state.ChangeType, *graph.Graph) {
	if r.onProcess != nil {
		r.onProcess()
	}
	ct, g := r.ChangeProcessor.Process()
	r.called, r.lastCT = true, ct
	if ct != state.NoChange {
		r.lastGraph = g
	}
	return ct, g
}

type recUpdater struct {
	reqs  []frameworkStatus.UpdateRequest
	calls int
}

func (u *recUpdater) UpdateGroup(_ context.Context, _ string, reqs ...frameworkStatus.UpdateRequest) {
	u.calls++
	u.reqs = append(u.reqs, reqs...)
}

// ---- one batch history entry (input of the Lean handler model + what was observed)

type HBatch struct {
	Ct     string `json:"ct"` // n | e | c   (what the REAL change processor reported)
	W      bool   `json:"w"`  // ReplaceFiles succeeds
	R      bool   `json:"r"`  // Reload succeeds
	API    bool   `json:"api"`
	ObsErr bool   `json:"obsErr"` // handler.latestReloadResult.Error != nil after the batch
	ObsVer int    `json:"obsVer"` // handler.version after the batch
	ObsSt  bool   `json:"obsSt"`  // the batch's own updateStatuses issued status updates (after Process)
	// the batch contained an upsert ("u") / delete ("d") of the Service that fronts NGF: nginxGatewayServiceUpsert/Delete
	// rewrite the Gateway statuses OUTSIDE batch processing, with the remembered reload result
	Svc      string `json:"svc,omitempty"`
	ObsSvcSt bool   `json:"obsSvcSt"` // a status update was issued before Process() (by that callback)
}

// the Service that fronts NGF (gatewayPodConfig of the overlay constructor VerifC07NewHandler)
const ngfSvcNamespace, ngfSvcName = "nginx-gateway", "nginx-gateway"

func ngfFrontService(r *rng.R) *apiv1.Service {
	svc := p.Service(ngfSvcNamespace, ngfSvcName, 80)
	svc.Spec.Type = apiv1.ServiceTypeLoadBalancer
	if r.Chance(70, 100) {
		svc.Status.LoadBalancer.Ingress = []apiv1.LoadBalancerIngress{{IP: fmt.Sprintf("192.0.2.%d", r.Range(1, 250))}}
	}
	return svc
}

type HInfo struct {
	Plus    bool     `json:"plus"`
	Batches []HBatch `json:"batches"`
}

// freshGatewayStatuses: what a freshly started handler (latestReloadResult = nil) writes for the Gateways of graph g.
func freshGatewayStatuses(g *graph.Graph, objs []client.Object) []JGatewayStatus {
	if g == nil {
		return nil
	}
	reqs := ngfStatus.PrepareGatewayRequests(g.Gateway, g.IgnoredGateways, metav1.Now(), nil, ngfStatus.NginxReloadResult{})
	res, _, tg := p.ApplyStatuses(reqs, objs)
	all := Statuses(objs, res).Gateways
	out := []JGatewayStatus{}
	for _, gs := range all {
		for _, k := range tg {
			if k.NN.Namespace == gs.Ns && k.NN.Name == gs.Name {
				out = append(out, gs)
				break
			}
		}
	}
	return out
}

// RunSequence drives one controller process through nb batches; emit receives one Line per batch.
func RunSequence(id string, s *Scenario, r *rng.R, nb int, emit func(Line)) {
	plus := r.Chance(1, 3)
	opts := s.Opts
	opts.Plus = plus
	c := p.NewController(opts)
	proc := &recProcessor{ChangeProcessor: c.Proc}
	fm := &stubFileMgr{}
	rt := &stubRuntime{plus: plus, loaded: -1}
	upd := &recUpdater{}
	h := static.VerifC07NewHandler(static.VerifC07Deps{
		Plus: plus, Generator: stubGenerator{}, FileMgr: fm, RuntimeMgr: rt, Processor: proc, Resolver: c.Resolver,
		StatusUpdater: upd, K8sClient: c.Client, DeployCtx: &licensingfakes.FakeCollector{},
		EventRecorder: record.NewFakeRecorder(1 << 12), CtlrName: opts.Controller,
	})

	// persisted objects (statuses accumulate across batches, as in the API server)
	cur := map[p.Key]client.Object{}
	var order []p.Key
	for _, o := range s.Objs {
		cp := o.DeepCopyObject().(client.Object)
		k := p.KeyOf(cp)
		if _, dup := cur[k]; !dup {
			order = append(order, k)
		}
		cur[k] = cp
	}
	objsNow := func() []client.Object {
		out := make([]client.Object, 0, len(order))
		for _, k := range order {
			if o, ok := cur[k]; ok {
				out = append(out, o)
			}
		}
		return out
	}
	syncSlice := func(es *discoveryV1.EndpointSlice) {
		cp := es.DeepCopy()
		cp.ResourceVersion = ""
		existing := &discoveryV1.EndpointSlice{}
		if err := c.Client.Get(context.Background(), client.ObjectKeyFromObject(cp), existing); err == nil {
			cp.ResourceVersion = existing.ResourceVersion
			_ = c.Client.Update(context.Background(), cp)
		} else {
			_ = c.Client.Create(context.Background(), cp)
		}
	}
	upsert := func(o client.Object) interface{} {
		k := p.KeyOf(o)
		if _, ok := cur[k]; !ok {
			order = append(order, k)
		}
		cur[k] = o
		if es, ok := o.(*discoveryV1.EndpointSlice); ok {
			syncSlice(es)
		}
		return &events.UpsertEvent{Resource: o.DeepCopyObject().(client.Object)}
	}
	del := func(t ngftypes.ObjectType, k p.Key) interface{} {
		delete(cur, k)
		return &events.DeleteEvent{Type: t, NamespacedName: k.NN}
	}

	hist := HInfo{Plus: plus}
	stale := false    // the last full apply (files + reload) failed: NGINX does not run the latest configuration
	lastFail := false // the last apply of any kind failed
	var lastSum JSummary
	var lastConf *JConf
	tags := map[string]int{}
	for k, v := range s.Tags {
		tags[k] = v
	}

	for b := 0; b < nb; b++ {
		var batch events.EventBatch
		want := "c"
		// state before this batch: what an out-of-batch Gateway status write during the batch is held against
		prevFail, prevStale := lastFail, stale
		before := make([]client.Object, 0, len(order))
		for _, o := range objsNow() {
			before = append(before, o.DeepCopyObject().(client.Object))
		}
		svcEvent := ""
		if b > 0 && r.Chance(35, 100) {
			// the Service that fronts NGF changes (LoadBalancer address assigned / changed) or is deleted; alone in the
			// batch (60 %) or followed / preceded by one of the usual events
			if r.Chance(75, 100) {
				svcEvent = "u"
			} else {
				svcEvent = "d"
			}
		}
		svcFirst := r.Bool()
		addSvc := func() {
			switch svcEvent {
			case "u":
				batch = append(batch, upsert(ngfFrontService(r)))
			case "d":
				batch = append(batch, del(&apiv1.Service{}, p.KeyOf(p.Service(ngfSvcNamespace, ngfSvcName, 80))))
			}
		}
		if svcEvent != "" && svcFirst {
			addSvc()
		}
		if b == 0 {
			for _, o := range objsNow() {
				batch = append(batch, upsert(o))
			}
		} else {
			x := r.Intn(100)
			if svcEvent != "" && r.Chance(60, 100) {
				x = 99 // the Service event is alone in the batch
			}
			switch {
			case x < 35:
				want = "c"
				var routes []p.Key
				for _, k := range order {
					if _, ok := cur[k]; ok && k.Kind == "HTTPRoute" {
						routes = append(routes, k)
					}
				}
				if len(routes) == 0 {
					want = "n"
					break
				}
				k := rng.Pick(r, routes)
				if r.Chance(25, 100) {
					batch = append(batch, del(&gatewayv1.HTTPRoute{}, k))
				} else {
					hr := cur[k].DeepCopyObject().(*gatewayv1.HTTPRoute)
					hr.Generation++
					if len(hr.Spec.Rules) > 0 && len(hr.Spec.Rules[0].Matches) > 0 && hr.Spec.Rules[0].Matches[0].Path != nil {
						hr.Spec.Rules[0].Matches[0].Path.Value = ptr(rng.Pick(r, []string{"/changed", "/v2", "/other"}))
					} else {
						hr.Spec.Hostnames = append(hr.Spec.Hostnames, "changed.example.com")
					}
					batch = append(batch, upsert(hr))
				}
			case x < 75:
				want = "e"
				var refd []types.NamespacedName
				if proc.lastGraph != nil {
					for nn := range proc.lastGraph.ReferencedServices {
						refd = append(refd, nn)
					}
				}
				sort.Slice(refd, func(i, j int) bool { return refd[i].String() < refd[j].String() })
				if len(refd) == 0 {
					want = "n"
					break
				}
				svc := rng.Pick(r, refd)
				es := p.EndpointSlice(svc.Namespace, svc.Name, "hx", []int32{80},
					fmt.Sprintf("10.99.%d.%d", r.Intn(200), r.Range(1, 250)))
				batch = append(batch, upsert(es))
			default:
				want = "n"
			}
		}
		_ = want
		if svcEvent != "" && !svcFirst {
			addSvc()
		}

		// outcome of this batch's apply
		fm.ok, rt.reloadOK, rt.apiOK = true, true, true
		if r.Chance(40, 100) {
			switch r.Intn(3) {
			case 0:
				fm.ok = false
			case 1:
				rt.reloadOK = false
			default:
				if plus {
					rt.apiOK = false
				} else {
					rt.reloadOK = false
				}
			}
		}
		fm.called, rt.reloaded, rt.reloadErr, rt.apiErr = false, false, false, false
		proc.called = false
		upd.reqs, upd.calls = nil, 0
		// what the out-of-batch callbacks did (before Process): requests issued, and the result the handler remembered then
		var preReqs []frameworkStatus.UpdateRequest
		preCalls, preErr := 0, false
		var preGraph *graph.Graph // the graph the callback read (GetLatestGraph before this batch's Process)
		proc.onProcess = func() {
			preGraph = proc.ChangeProcessor.GetLatestGraph()
			preReqs = append([]frameworkStatus.UpdateRequest(nil), upd.reqs...)
			preCalls = upd.calls
			preErr = h.LatestReloadErr() != nil
		}

		panicked := ""
		func() {
			defer func() {
				if rec := recover(); rec != nil {
					panicked = fmt.Sprintf("%v", rec)
				}
			}()
			h.HandleEventBatch(context.Background(), batch)
		}()
		ln := Line{ID: fmt.Sprintf("%s-b%d", id, b), Ctl: opts.Controller, Cls: opts.Class, Tags: tags, Targets: []string{}}
		if panicked != "" {
			ln.Panic = "HandleEventBatch: " + panicked
			ln.Objs = FlatObjects(objsNow())
			emit(ln)
			return
		}

		// the Gateway statuses written by nginxGatewayServiceUpsert/Delete, as they stood before the batch itself was
		// processed: one extra Line, held against the truth BEFORE this batch (graph, configuration, objects of the previous
		// batches; `h` = the history so far)
		if svcEvent != "" && len(preReqs) > 0 {
			res, _, tg := p.ApplyStatuses(preReqs, before)
			mid := Line{ID: fmt.Sprintf("%s-b%d-svc%s", id, b, svcEvent), Ctl: opts.Controller, Cls: opts.Class, Tags: tags, Targets: []string{}}
			for _, t := range tg {
				mid.Targets = append(mid.Targets, t.String())
			}
			sort.Strings(mid.Targets)
			switch {
			case prevFail:
				mid.FailKind = "apply-failed"
			case prevStale:
				mid.FailKind = "stale-after-plus-endpoints-only-update"
			}
			pe := preErr
			hc := HInfo{Plus: plus, Batches: append([]HBatch(nil), hist.Batches...)}
			mid.ReloadErr = prevFail || prevStale
			mid.PrepErr = &pe
			mid.H = &hc
			mid.Sum = lastSum
			mid.Conf = lastConf
			mid.Objs = FlatObjects(before)
			mid.St = Statuses(before, res)
			if !mid.ReloadErr {
				mid.Fresh = freshGatewayStatuses(preGraph, before)
			}
			tags["h-svc-"+svcEvent]++
			if mid.ReloadErr {
				tags["h-svc-after-failed-apply"]++
			}
			emit(mid)
		}

		ct := "n"
		switch proc.lastCT {
		case state.EndpointsOnlyChange:
			ct = "e"
		case state.ClusterStateChange:
			ct = "c"
		}
		// truth of the environment
		failKind := ""
		if ct != "n" {
			// a full apply (files + reload) was attempted iff ReplaceFiles was called — what the stubs experienced, not what the
			// model expects (since /repo c94173a also a Plus endpoints-only batch after a remembered failure is a full apply)
			fullApply := fm.called
			failedNow := (fm.called && !fm.ok) || rt.reloadErr || rt.apiErr
			if fullApply {
				stale = (fm.called && !fm.ok) || rt.reloadErr
			}
			lastFail = failedNow
			lastSum = Summarize(proc.lastGraph)
			lastConf = ConfSummary(h.LatestConfiguration())
		}
		switch {
		case lastFail:
			failKind = "apply-failed"
		case stale:
			failKind = "stale-after-plus-endpoints-only-update"
		}
		tags["h-"+ct]++
		if failKind != "" {
			tags["h-"+failKind]++
		}

		// apply the issued requests to the persisted objects
		res, _, tg := p.ApplyStatuses(upd.reqs, objsNow())
		for k, o := range res {
			cur[k] = o
		}
		for _, t := range tg {
			ln.Targets = append(ln.Targets, t.String())
		}
		sort.Strings(ln.Targets)

		obsErr := h.LatestReloadErr() != nil
		hist.Batches = append(hist.Batches, HBatch{Ct: ct, W: fm.ok, R: rt.reloadOK, API: rt.apiOK,
			ObsErr: obsErr, ObsVer: h.Version(), ObsSt: upd.calls-preCalls > 0, Svc: svcEvent, ObsSvcSt: preCalls > 0})
		hc := HInfo{Plus: plus, Batches: append([]HBatch(nil), hist.Batches...)}

		ln.ReloadErr = lastFail || stale
		ln.PrepErr = &obsErr
		ln.FailKind = failKind
		ln.H = &hc
		ln.Sum = lastSum
		ln.Conf = lastConf
		ln.Objs = FlatObjects(objsNow())
		ln.St = Statuses(objsNow(), nil)
		if !ln.ReloadErr {
			ln.Fresh = freshGatewayStatuses(proc.lastGraph, objsNow())
		}
		emit(ln)
	}
}
