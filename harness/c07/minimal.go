package c07

import (
	apiv1 "k8s.io/api/core/v1"
	"sigs.k8s.io/controller-runtime/pkg/client"
	gatewayv1 "sigs.k8s.io/gateway-api/apis/v1"

	p "github.com/nginx/nginx-gateway-fabric/verifharness/pipeline"
)

// Minimal returns hand-minimised cluster states for the corpus (each reproduces one finding on the real code).
func Minimal() map[string][]client.Object {
	base := func() []client.Object {
		return []client.Object{
			p.Namespace("default", map[string]string{"kubernetes.io/metadata.name": "default"}),
			p.GatewayClass(p.DefaultClass, p.DefaultController, 1),
			p.Service("default", "svc0", 80),
			p.Service("default", "svc1", 80),
			p.EndpointSlice("default", "svc0", "s0", []int32{80}, "10.0.0.1"),
		}
	}
	same := func(ls ...p.Listener) []p.Listener {
		for i := range ls {
			ls[i].FromNS = "Same"
		}
		return ls
	}
	rule := p.HTTPRule([]gatewayv1.HTTPRouteMatch{p.PathMatch("PathPrefix", "/")}, p.Backend{Ref: "svc0", Port: 80, Weight: -1})
	out := map[string][]client.Object{}

	// 1. the same Gateway named twice: once without namespace, once with the route's own namespace
	//    (passes the CRD's CEL uniqueness rules, which compare the namespace textually)
	out["duplicate-parentref"] = append(base(),
		p.Gateway("default", "gw", p.DefaultClass, 2, same(p.Listener{Name: "http", Port: 80, Protocol: "HTTP"})...),
		p.HTTPRoute("default", "r", 3, []gatewayv1.ParentReference{
			{Name: "gw"},
			{Name: "gw", Namespace: ptr(gatewayv1.Namespace("default"))},
		}, nil, rule),
	)

	// 2. a TLSRoute with two backendRefs (admissible: 1..16) is not attachable, yet reported Accepted=True
	out["tlsroute-backend-count"] = append(base(),
		p.Gateway("default", "gw", p.DefaultClass, 2, same(p.Listener{Name: "tls", Port: 443, Protocol: "TLS", Hostname: "*.example.com"})...),
		p.TLSRoute("default", "t", 3, []gatewayv1.ParentReference{p.ParentRef("default", "gw", "tls")}, []string{"a.example.com"},
			p.Backend{Ref: "svc0", Port: 80, Weight: -1}, p.Backend{Ref: "svc1", Port: 80, Weight: -1}),
	)

	// 3. one parentRef on a valid listener (served), another on an HTTPS listener whose Secret is missing:
	//    the route-wide InvalidListener condition makes the served parent Accepted=False too
	out["invalid-listener-leak"] = append(base(),
		p.Gateway("default", "gw", p.DefaultClass, 2, same(
			p.Listener{Name: "http", Port: 80, Protocol: "HTTP"},
			p.Listener{Name: "https", Port: 443, Protocol: "HTTPS", CertRefs: []string{"no-such-secret"}})...),
		p.HTTPRoute("default", "r", 3, []gatewayv1.ParentReference{
			p.ParentRef("default", "gw", "http"),
			p.ParentRef("default", "gw", "https"),
		}, nil, rule),
	)
	// 4. a TLSRoute naming the whole Gateway (with namespace) and one of its listeners (without namespace): the CEL
	//    rules see two different parents; the second parentRef then conflicts with the hostname the route itself claimed
	out["tlsroute-self-conflict"] = append(base(),
		p.Gateway("default", "gw", p.DefaultClass, 2, same(p.Listener{Name: "tls", Port: 443, Protocol: "TLS", Hostname: "*.example.com"})...),
		p.TLSRoute("default", "t", 3, []gatewayv1.ParentReference{
			{Name: "gw", Namespace: ptr(gatewayv1.Namespace("default"))},
			{Name: "gw", SectionName: ptr(gatewayv1.SectionName("tls"))},
		}, []string{"a.example.com"}, p.Backend{Ref: "svc0", Port: 80, Weight: -1}),
	)
	// 5. an INVALID Gateway (here: its GatewayClass object does not exist) has no listeners in the graph, so a parentRef that
	//    names an existing listener is reported NoMatchingParent, while the parentRef without sectionName gets InvalidGateway
	//    (regression input: both entries say Accepted=False, which is the truth; C07 does not prescribe the reason — must be quiet)
	var noClass []client.Object
	for _, o := range base() {
		if _, isClass := o.(*gatewayv1.GatewayClass); !isClass {
			noClass = append(noClass, o)
		}
	}
	out["invalid-gateway-section"] = append(noClass,
		p.Gateway("default", "gw", p.DefaultClass, 2, same(p.Listener{Name: "http", Port: 80, Protocol: "HTTP"})...),
		p.HTTPRoute("default", "r", 3, []gatewayv1.ParentReference{p.ParentRef("default", "gw", "http")}, nil, rule),
		p.HTTPRoute("default", "q", 4, []gatewayv1.ParentReference{p.ParentRef("default", "gw", "")}, nil, rule),
	)
	// 6. a parentRef to an IGNORED Gateway (younger Gateway of our class) that names one of ITS listeners: the section name is
	//    looked up among the WINNING Gateway's listeners, so the entry says NoMatchingParent; without sectionName: GatewayIgnored
	//    (regression input, must be quiet: Accepted=False is the truth either way)
	out["ignored-gateway-section"] = append(base(),
		p.Gateway("default", "gw", p.DefaultClass, 2, same(p.Listener{Name: "http", Port: 80, Protocol: "HTTP"})...),
		p.Gateway("default", "gw2", p.DefaultClass, 5, same(p.Listener{Name: "web", Port: 8080, Protocol: "HTTP"})...),
		p.HTTPRoute("default", "r", 6, []gatewayv1.ParentReference{p.ParentRef("default", "gw2", "web")}, nil, rule),
		p.HTTPRoute("default", "q", 7, []gatewayv1.ParentReference{p.ParentRef("default", "gw2", "")}, nil, rule),
	)
	_ = apiv1.ProtocolTCP
	return out
}
