package c07

import (
	"crypto/tls"

	apiv1 "k8s.io/api/core/v1"
	"sigs.k8s.io/controller-runtime/pkg/client"
	gatewayv1 "sigs.k8s.io/gateway-api/apis/v1"

	"github.com/nginx/nginx-gateway-fabric/verifharness/c02"
	"github.com/nginx/nginx-gateway-fabric/verifharness/c16"
	p "github.com/nginx/nginx-gateway-fabric/verifharness/pipeline"
	"github.com/nginx/nginx-gateway-fabric/verifharness/rng"
	"github.com/nginx/nginx-gateway-fabric/verifharness/scen"
)

// GenerateFragment draws a scenario inside the fragment of lean/NGF/Model/Pipeline.lean (C02's generator
// c02.GenFragment: HTTP listeners, HTTPRoutes, Exact/PathPrefix matches, valid/invalid backends, redirects, a foreign
// class, a younger Gateway) and adds what matters for statuses: several parentRefs per route (other listeners, the ignored
// Gateway, Gateways of a foreign class, missing Gateways, non-Gateway kinds, section names that name no listener), routes
// whose rules are all invalid, hostnames that miss the listener's, routes in namespaces a listener does not allow, varying
// generations, and — rarely — a missing / foreign GatewayClass object and the known "same Gateway twice" shape.
func GenerateFragment(r *rng.R) *Scenario {
	base := c02.GenFragment(r)
	s := &Scenario{Objs: base.Objs, Opts: base.Opts, Tags: base.Tags}
	if s.Tags == nil {
		s.Tags = map[string]int{}
	}

	var gw *gatewayv1.Gateway
	young := false
	for _, o := range s.Objs {
		if g, ok := o.(*gatewayv1.Gateway); ok {
			if g.Name == "gw" {
				gw = g
			}
			if g.Name == "gw-young" {
				young = true
			}
			g.Generation = int64(r.Range(1, 9))
		}
	}
	if gw == nil {
		return s
	}
	var lnames []string
	for _, l := range gw.Spec.Listeners {
		lnames = append(lnames, string(l.Name))
	}

	// a second ignored Gateway in the winner's namespace (the winner is the older one)
	if r.Chance(20, 100) {
		s.Objs = append(s.Objs, p.Gateway(gw.Namespace, "gw-late", p.DefaultClass, 2000,
			p.Listener{Name: "l0", Port: 80, Protocol: "HTTP", FromNS: "All"}))
		s.tag("frag-second-ignored-gateway")
	}

	extra := func(routeNS string) gatewayv1.ParentReference {
		switch k := r.Intn(12); {
		case k < 3:
			return p.ParentRef(gw.Namespace, "gw", rng.Pick(r, lnames))
		case k < 4:
			return p.ParentRef(gw.Namespace, "gw", "")
		case k < 6:
			s.tag("frag-parent-section-miss")
			return p.ParentRef(gw.Namespace, "gw", rng.Pick(r, []string{"nope", "l9", "L0"}))
		case k < 8:
			s.tag("frag-parent-ignored-gateway")
			if young || r.Chance(50, 100) {
				return p.ParentRef("team-b", "gw-young", rng.Pick(r, []string{"", "http", "l0"}))
			}
			return p.ParentRef(gw.Namespace, "gw-late", rng.Pick(r, []string{"", "l0"}))
		case k < 9:
			s.tag("frag-parent-foreign-class")
			return p.ParentRef("default", "foreign-gw", rng.Pick(r, []string{"", "http"}))
		case k < 10:
			s.tag("frag-parent-missing-gateway")
			return p.ParentRef(rng.Pick(r, nsPoolFrag), "no-such-gw", "")
		case k < 11:
			// a parentRef without namespace: the route's namespace
			s.tag("frag-parent-no-namespace")
			return p.ParentRef("", "gw", rng.Pick(r, append([]string{""}, lnames...)))
		default:
			s.tag("frag-parent-service-kind")
			pr := p.ParentRef(routeNS, "svc0", "")
			pr.Kind = ptr(gatewayv1.Kind("Service"))
			pr.Group = ptr(gatewayv1.Group(""))
			return pr
		}
	}

	for _, o := range s.Objs {
		hr, ok := o.(*gatewayv1.HTTPRoute)
		if !ok {
			continue
		}
		hr.Generation = int64(r.Range(1, 9))
		if r.Chance(55, 100) {
			for i, n := 0, r.Range(1, 3); i < n; i++ {
				pr := extra(hr.Namespace)
				if r.Chance(30, 100) {
					hr.Spec.ParentRefs = append([]gatewayv1.ParentReference{pr}, hr.Spec.ParentRefs...)
				} else {
					hr.Spec.ParentRefs = append(hr.Spec.ParentRefs, pr)
				}
			}
			var ch bool
			hr.Spec.ParentRefs, ch = fixParentRefs(hr.Spec.ParentRefs)
			if ch {
				s.tag("fixed-parentrefs")
			}
			// "same Gateway twice" passes the CEL rules when the namespace is written differently; it is the known finding
			// duplicate-parentref and outside the fragment hypotheses: keep a few
			if sameGatewayTwice(hr.Spec.ParentRefs, hr.Namespace) {
				if r.Chance(85, 100) {
					for sameGatewayTwice(hr.Spec.ParentRefs, hr.Namespace) && len(hr.Spec.ParentRefs) > 1 {
						hr.Spec.ParentRefs = hr.Spec.ParentRefs[:len(hr.Spec.ParentRefs)-1]
					}
				} else {
					s.tag("frag-duplicate-parentref")
				}
			}
		}
		if r.Chance(15, 100) && len(hr.Spec.Rules) > 0 {
			// every rule invalid: the route is not accepted but still attaches (attachedRoutes counts it)
			for i := range hr.Spec.Rules {
				for j := range hr.Spec.Rules[i].Matches {
					if hr.Spec.Rules[i].Matches[j].Path != nil {
						hr.Spec.Rules[i].Matches[j].Path.Type = ptr(gatewayv1.PathMatchRegularExpression)
					}
				}
			}
			s.tag("frag-route-all-rules-invalid")
		}
		if r.Chance(15, 100) {
			// hostnames that intersect no / few listener hostnames
			hr.Spec.Hostnames = []gatewayv1.Hostname{gatewayv1.Hostname(rng.Pick(r, []string{"nomatch.test", "*.nomatch.test", "deep.cafe.example.com", "org"}))}
			s.tag("frag-route-hostname-miss")
		}
	}

	// the class object: missing (Gateway invalid, routes get InvalidGateway) or owned by another controller (no statuses at all)
	if k := r.Intn(100); k < 8 {
		var objs []client.Object
		for _, o := range s.Objs {
			if gc, ok := o.(*gatewayv1.GatewayClass); ok && gc.Name == p.DefaultClass {
				if k < 4 {
					s.tag("frag-class-missing")
					continue
				}
				gc.Spec.ControllerName = scen.ForeignController
				s.tag("frag-class-foreign-controller")
			}
			objs = append(objs, o)
		}
		s.Objs = objs
	}
	c02.ApplyDefaults(s.Objs)
	return s
}

var nsPoolFrag = []string{"default", "team-a", "team-b"}

// RunFragment = Run + the flat scenario (input of the Lean fragment view, the same projection C02 uses).
func RunFragment(id string, s *Scenario, reloadFailed bool) Line {
	ln := Run(id, s.Objs, s.Opts, reloadFailed, s.Tags)
	fl := c02.Flatten(s.Objs, s.Opts)
	ln.Flat = &fl
	return ln
}

// JSecret is a Secret as lean/NGF/Model/TlsBind.lean reads it (same JSON as harness/c16).
type JSecret struct {
	NS     string `json:"ns"`
	Name   string `json:"name"`
	Type   string `json:"type"`
	Cert   string `json:"cert"`
	Key    string `json:"key"`
	PairOK bool   `json:"pairOK"` // crypto/tls.X509KeyPair accepts (cert, key)
}

// GenerateFragmentTLS draws a scenario of the TLS layer of the pipeline model (C16's generator c16.GenFragmentTLS: HTTPS listeners
// with good / missing / malformed / wrong-type / cross-namespace Secrets and ReferenceGrants, rejected certificateRefs, HTTP/HTTPS port
// conflicts) and adds parentRefs that select single listeners, so that routes attach to invalid listeners only, to valid ones only, or both.
func GenerateFragmentTLS(r *rng.R) *Scenario {
	base := c16.GenFragmentTLS(r)
	s := &Scenario{Objs: base.Objs, Opts: base.Opts, Tags: base.Tags}
	if s.Tags == nil {
		s.Tags = map[string]int{}
	}
	var gw *gatewayv1.Gateway
	for _, o := range s.Objs {
		if g, ok := o.(*gatewayv1.Gateway); ok && g.Name == "gw" {
			gw = g
			g.Generation = int64(r.Range(1, 9))
		}
	}
	if gw == nil || len(gw.Spec.Listeners) == 0 {
		c02.ApplyDefaults(s.Objs)
		return s
	}
	for _, o := range s.Objs {
		hr, ok := o.(*gatewayv1.HTTPRoute)
		if !ok {
			continue
		}
		hr.Generation = int64(r.Range(1, 9))
		if r.Chance(50, 100) {
			// replace / extend the parentRefs by references to single listeners
			var prs []gatewayv1.ParentReference
			seen := map[string]bool{}
			for i, n := 0, r.Range(1, 3); i < n; i++ {
				l := string(rng.Pick(r, gw.Spec.Listeners).Name)
				if !seen[l] {
					seen[l] = true
					prs = append(prs, p.ParentRef(gw.Namespace, "gw", l))
				}
			}
			if r.Chance(20, 100) {
				prs = append(prs, p.ParentRef(gw.Namespace, "gw", "nope"))
			}
			hr.Spec.ParentRefs = prs
			s.tag("tls-parentrefs-by-listener")
		}
	}
	c02.ApplyDefaults(s.Objs)
	return s
}

// RunFragmentTLS = RunFragment + the Secrets.
func RunFragmentTLS(id string, s *Scenario, reloadFailed bool) Line {
	ln := RunFragment(id, s, reloadFailed)
	ln.Secrets = []JSecret{}
	for _, o := range s.Objs {
		if x, ok := o.(*apiv1.Secret); ok {
			_, err := tls.X509KeyPair(x.Data[apiv1.TLSCertKey], x.Data[apiv1.TLSPrivateKeyKey])
			ln.Secrets = append(ln.Secrets, JSecret{NS: x.Namespace, Name: x.Name, Type: string(x.Type),
				Cert: string(x.Data[apiv1.TLSCertKey]), Key: string(x.Data[apiv1.TLSPrivateKeyKey]), PairOK: err == nil})
		}
	}
	return ln
}
