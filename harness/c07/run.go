// Package c07 drives the REAL pipeline (graph -> dataplane.Configuration -> status.Prepare*Requests ->
// status setters) on generated cluster states and emits, per (scenario, reload outcome), one JSON line:
//
//	{"id":…, "ctl":…, "cls":…, "reloadErr":bool,
//	 "sum":  abstract summary of the REAL graph (what status.Prepare* reads)      -> input of the Lean model
//	 "st":   the REAL status sub-resources after running the real setters          -> compared with model(sum); judged
//	 "conf": summary of the REAL dataplane.Configuration (servers / match-rule sources / passthrough servers)
//	 "objs": flat form of the cluster objects (gateways, listeners, routes, parentRefs, namespaces, policies)
//	 "tags": generator branches}
//
// "sum" is extracted field by field from graph.Graph; nothing in it is computed by the harness except
// sorting map keys.
package c07

import (
	"encoding/json"
	"errors"
	"sort"

	apiv1 "k8s.io/api/core/v1"
	metav1 "k8s.io/apimachinery/pkg/apis/meta/v1"
	"sigs.k8s.io/controller-runtime/pkg/client"
	gatewayv1 "sigs.k8s.io/gateway-api/apis/v1"
	"sigs.k8s.io/gateway-api/apis/v1alpha2"
	"sigs.k8s.io/gateway-api/apis/v1alpha3"

	ngfAPI "github.com/nginx/nginx-gateway-fabric/apis/v1alpha1"
	ngfAPIv2 "github.com/nginx/nginx-gateway-fabric/apis/v1alpha2"
	"github.com/nginx/nginx-gateway-fabric/internal/framework/conditions"
	"github.com/nginx/nginx-gateway-fabric/internal/mode/static/nginx/config/policies"
	"github.com/nginx/nginx-gateway-fabric/internal/mode/static/state/dataplane"
	"github.com/nginx/nginx-gateway-fabric/internal/mode/static/state/graph"
	"github.com/nginx/nginx-gateway-fabric/verifharness/c02"
	p "github.com/nginx/nginx-gateway-fabric/verifharness/pipeline"
)

// ---------------------------------------------------------------- summary of the real graph

type JCond struct {
	T string `json:"t"`
	S string `json:"s"`
	R string `json:"r"`
}

type JApiCond struct {
	T string `json:"t"`
	S string `json:"s"`
	R string `json:"r"`
	G int64  `json:"g"`
}

func conds(cs []conditions.Condition) []JCond {
	out := make([]JCond, 0, len(cs))
	for _, c := range cs {
		out = append(out, JCond{c.Type, string(c.Status), c.Reason})
	}
	return out
}

func apiConds(cs []metav1.Condition) []JApiCond {
	out := make([]JApiCond, 0, len(cs))
	for _, c := range cs {
		out = append(out, JApiCond{c.Type, string(c.Status), c.Reason, c.ObservedGeneration})
	}
	return out
}

type JAttachment struct {
	Attached bool                `json:"attached"`
	Failed   JCond               `json:"failed"`
	Hosts    map[string][]string `json:"hosts"` // AcceptedHostnames (debugging aid; not read by the model)
}

type JParentRef struct {
	GwNs    string       `json:"gwNs"`
	GwName  string       `json:"gwName"`
	Section *string      `json:"section"`
	Idx     int          `json:"idx"`
	Att     *JAttachment `json:"att"`
}

type JRoute struct {
	Kind       string       `json:"kind"`
	Ns         string       `json:"ns"`
	Name       string       `json:"name"`
	Gen        int64        `json:"gen"`
	Conds      []JCond      `json:"conds"`
	ParentRefs []JParentRef `json:"parentRefs"`
	// extras for the judge (not read by the model)
	Valid      bool `json:"valid"`
	Attachable bool `json:"attachable"`
	BadRefs    bool `json:"badRefs"`    // some BackendRef of the graph route has Valid=false
	BadFilter  bool `json:"badFilter"`  // some ExtensionRef filter of the graph route did not resolve
	NRefs      int  `json:"nrefs"`      // number of BackendRefs the graph evaluated
}

type JListener struct {
	Name     string   `json:"name"`
	Valid    bool     `json:"valid"`
	Conds    []JCond  `json:"conds"`
	Routes   []string `json:"routes"`   // keys of Listener.Routes
	L4Routes []string `json:"l4routes"` // keys of Listener.L4Routes
	// extras
	Attachable bool `json:"attachable"`
}

type JGateway struct {
	Ns        string      `json:"ns"`
	Name      string      `json:"name"`
	Gen       int64       `json:"gen"`
	Valid     bool        `json:"valid"`
	Conds     []JCond     `json:"conds"`
	Listeners []JListener `json:"listeners"`
}

type JObjRef struct {
	Ns   string `json:"ns"`
	Name string `json:"name"`
	Gen  int64  `json:"gen"`
}

type JAncRef struct {
	Group string `json:"group"`
	Kind  string `json:"kind"`
	Ns    string `json:"ns"`
	Name  string `json:"name"`
}

type JAncestor struct {
	Ref   JAncRef `json:"ref"`
	Conds []JCond `json:"conds"`
}

type JPolicy struct {
	Kind      string      `json:"kind"`
	Ns        string      `json:"ns"`
	Name      string      `json:"name"`
	Gen       int64       `json:"gen"`
	Conds     []JCond     `json:"conds"`
	Ancestors []JAncestor `json:"ancestors"`
	NTargets  int         `json:"ntargets"`
	// number of targetRefs of kind Service that name a Service in graph.ReferencedServices (each of them makes
	// attachPolicyToService run once)
	SvcRefd int `json:"svcRefd"`
}

type JBTP struct {
	Ns         string  `json:"ns"`
	Name       string  `json:"name"`
	Gen        int64   `json:"gen"`
	GwNs       string  `json:"gwNs"`
	GwName     string  `json:"gwName"`
	Conds      []JCond `json:"conds"`
	Referenced bool    `json:"referenced"`
	Ignored    bool    `json:"ignored"`
}

type JSummary struct {
	Gateway  *JGateway `json:"gateway"`
	Ignored  []JObjRef `json:"ignored"`
	Routes   []JRoute  `json:"routes"`
	Policies []JPolicy `json:"policies"`
	BTPs     []JBTP    `json:"btps"`
}

func strp[T ~string](s *T) *string {
	if s == nil {
		return nil
	}
	v := string(*s)
	return &v
}

func parentRefs(prs []graph.ParentRef) []JParentRef {
	out := make([]JParentRef, 0, len(prs))
	for _, pr := range prs {
		j := JParentRef{GwNs: pr.Gateway.Namespace, GwName: pr.Gateway.Name, Section: strp(pr.SectionName), Idx: pr.Idx}
		if pr.Attachment != nil {
			fc := pr.Attachment.FailedCondition
			j.Att = &JAttachment{
				Attached: pr.Attachment.Attached,
				Failed:   JCond{fc.Type, string(fc.Status), fc.Reason},
				Hosts:    pr.Attachment.AcceptedHostnames,
			}
		}
		out = append(out, j)
	}
	return out
}

func ancRef(r gatewayv1.ParentReference) JAncRef {
	a := JAncRef{Name: string(r.Name)}
	if r.Group != nil {
		a.Group = string(*r.Group)
	}
	if r.Kind != nil {
		a.Kind = string(*r.Kind)
	}
	if r.Namespace != nil {
		a.Ns = string(*r.Namespace)
	}
	return a
}

func unresolvedExtRef(f graph.Filter) bool {
	return f.FilterType == graph.FilterExtensionRef && f.ExtensionRef != nil &&
		string(f.ExtensionRef.Group) == ngfAPI.GroupName && string(f.ExtensionRef.Kind) == "SnippetsFilter" &&
		f.ExtensionRef.Name != "" && f.ResolvedExtensionRef == nil
}

// Summarize extracts what status.Prepare* reads from the real graph.
func Summarize(g *graph.Graph) JSummary {
	var s JSummary
	if g == nil {
		return s
	}
	if g.Gateway != nil {
		gw := g.Gateway
		jg := &JGateway{
			Ns: gw.Source.Namespace, Name: gw.Source.Name, Gen: gw.Source.Generation,
			Valid: gw.Valid, Conds: conds(gw.Conditions), Listeners: []JListener{},
		}
		for _, l := range gw.Listeners {
			jl := JListener{Name: l.Name, Valid: l.Valid, Conds: conds(l.Conditions), Attachable: l.Attachable,
				Routes: []string{}, L4Routes: []string{}}
			for k := range l.Routes {
				kind := "HTTPRoute"
				if k.RouteType == graph.RouteTypeGRPC {
					kind = "GRPCRoute"
				}
				jl.Routes = append(jl.Routes, kind+"/"+k.NamespacedName.Namespace+"/"+k.NamespacedName.Name)
			}
			for k := range l.L4Routes {
				jl.L4Routes = append(jl.L4Routes, "TLSRoute/"+k.NamespacedName.Namespace+"/"+k.NamespacedName.Name)
			}
			sort.Strings(jl.Routes)
			sort.Strings(jl.L4Routes)
			jg.Listeners = append(jg.Listeners, jl)
		}
		s.Gateway = jg
	}
	s.Ignored = []JObjRef{}
	for nn, gw := range g.IgnoredGateways {
		s.Ignored = append(s.Ignored, JObjRef{nn.Namespace, nn.Name, gw.Generation})
	}
	sort.Slice(s.Ignored, func(i, j int) bool {
		return s.Ignored[i].Ns+"/"+s.Ignored[i].Name < s.Ignored[j].Ns+"/"+s.Ignored[j].Name
	})

	s.Routes = []JRoute{}
	for k, r := range g.Routes {
		kind := "HTTPRoute"
		if r.RouteType == graph.RouteTypeGRPC {
			kind = "GRPCRoute"
		}
		jr := JRoute{
			Kind: kind, Ns: k.NamespacedName.Namespace, Name: k.NamespacedName.Name, Gen: r.Source.GetGeneration(),
			Conds: conds(r.Conditions), ParentRefs: parentRefs(r.ParentRefs), Valid: r.Valid, Attachable: r.Attachable,
		}
		for _, rule := range r.Spec.Rules {
			for _, b := range rule.BackendRefs {
				jr.NRefs++
				if !b.Valid {
					jr.BadRefs = true
				}
			}
			for _, f := range rule.Filters.Filters {
				if unresolvedExtRef(f) {
					jr.BadFilter = true
				}
			}
		}
		s.Routes = append(s.Routes, jr)
	}
	for k, r := range g.L4Routes {
		jr := JRoute{
			Kind: "TLSRoute", Ns: k.NamespacedName.Namespace, Name: k.NamespacedName.Name, Gen: r.Source.GetGeneration(),
			Conds: conds(r.Conditions), ParentRefs: parentRefs(r.ParentRefs), Valid: r.Valid, Attachable: r.Attachable,
		}
		if r.Attachable {
			jr.NRefs = 1
			jr.BadRefs = !r.Spec.BackendRef.Valid
		}
		s.Routes = append(s.Routes, jr)
	}
	sort.Slice(s.Routes, func(i, j int) bool {
		a, b := s.Routes[i], s.Routes[j]
		return a.Kind+"/"+a.Ns+"/"+a.Name < b.Kind+"/"+b.Ns+"/"+b.Name
	})

	s.Policies = []JPolicy{}
	for k, pol := range g.NGFPolicies {
		jp := JPolicy{
			Kind: k.GVK.Kind, Ns: k.NsName.Namespace, Name: k.NsName.Name, Gen: pol.Source.GetGeneration(),
			Conds: conds(pol.Conditions), Ancestors: []JAncestor{}, NTargets: len(pol.TargetRefs),
		}
		for _, a := range pol.Ancestors {
			jp.Ancestors = append(jp.Ancestors, JAncestor{Ref: ancRef(a.Ancestor), Conds: conds(a.Conditions)})
		}
		for _, tr := range pol.TargetRefs {
			if _, ok := g.ReferencedServices[tr.Nsname]; ok && string(tr.Kind) == "Service" {
				jp.SvcRefd++
			}
		}
		s.Policies = append(s.Policies, jp)
	}
	sort.Slice(s.Policies, func(i, j int) bool {
		a, b := s.Policies[i], s.Policies[j]
		return a.Kind+"/"+a.Ns+"/"+a.Name < b.Kind+"/"+b.Ns+"/"+b.Name
	})

	s.BTPs = []JBTP{}
	for nn, b := range g.BackendTLSPolicies {
		s.BTPs = append(s.BTPs, JBTP{
			Ns: nn.Namespace, Name: nn.Name, Gen: b.Source.Generation, GwNs: b.Gateway.Namespace, GwName: b.Gateway.Name,
			Conds: conds(b.Conditions), Referenced: b.IsReferenced, Ignored: b.Ignored,
		})
	}
	sort.Slice(s.BTPs, func(i, j int) bool { return s.BTPs[i].Ns+"/"+s.BTPs[i].Name < s.BTPs[j].Ns+"/"+s.BTPs[j].Name })
	return s
}

// ---------------------------------------------------------------- real statuses

type JParentStatus struct {
	Ns      string     `json:"ns"`
	Name    string     `json:"name"`
	Section *string    `json:"section"`
	Ctl     string     `json:"ctl"`
	Conds   []JApiCond `json:"conds"`
}

type JRouteStatus struct {
	Kind    string          `json:"kind"`
	Ns      string          `json:"ns"`
	Name    string          `json:"name"`
	Parents []JParentStatus `json:"parents"`
}

type JListenerStatus struct {
	Name     string     `json:"name"`
	Attached int32      `json:"attached"`
	Conds    []JApiCond `json:"conds"`
}

type JGatewayStatus struct {
	Ns        string            `json:"ns"`
	Name      string            `json:"name"`
	Conds     []JApiCond        `json:"conds"`
	Listeners []JListenerStatus `json:"listeners"`
}

type JAncStatus struct {
	Ref   JAncRef    `json:"ref"`
	Ctl   string     `json:"ctl"`
	Conds []JApiCond `json:"conds"`
}

type JPolicyStatus struct {
	Kind      string       `json:"kind"`
	Ns        string       `json:"ns"`
	Name      string       `json:"name"`
	Ancestors []JAncStatus `json:"ancestors"`
}

type JStatuses struct {
	Routes   []JRouteStatus   `json:"routes"`
	Gateways []JGatewayStatus `json:"gateways"`
	Policies []JPolicyStatus  `json:"policies"`
}

func routeParents(ps []gatewayv1.RouteParentStatus) []JParentStatus {
	out := make([]JParentStatus, 0, len(ps))
	for _, s := range ps {
		j := JParentStatus{Name: string(s.ParentRef.Name), Section: strp(s.ParentRef.SectionName),
			Ctl: string(s.ControllerName), Conds: apiConds(s.Conditions)}
		if s.ParentRef.Namespace != nil {
			j.Ns = string(*s.ParentRef.Namespace)
		}
		out = append(out, j)
	}
	return out
}

func ancestors(as []v1alpha2.PolicyAncestorStatus) []JAncStatus {
	out := make([]JAncStatus, 0, len(as))
	for _, a := range as {
		out = append(out, JAncStatus{Ref: ancRef(a.AncestorRef), Ctl: string(a.ControllerName), Conds: apiConds(a.Conditions)})
	}
	return out
}

// Statuses reads the status sub-resource of every route / gateway / policy object. `res` holds the objects the
// real setters were applied to; objects without a request keep their (empty) generated status.
func Statuses(objs []client.Object, res map[p.Key]client.Object) JStatuses {
	st := JStatuses{Routes: []JRouteStatus{}, Gateways: []JGatewayStatus{}, Policies: []JPolicyStatus{}}
	for _, o := range objs {
		k := p.KeyOf(o)
		if r, ok := res[k]; ok {
			o = r
		}
		switch x := o.(type) {
		case *gatewayv1.HTTPRoute:
			st.Routes = append(st.Routes, JRouteStatus{"HTTPRoute", x.Namespace, x.Name, routeParents(x.Status.Parents)})
		case *gatewayv1.GRPCRoute:
			st.Routes = append(st.Routes, JRouteStatus{"GRPCRoute", x.Namespace, x.Name, routeParents(x.Status.Parents)})
		case *v1alpha2.TLSRoute:
			st.Routes = append(st.Routes, JRouteStatus{"TLSRoute", x.Namespace, x.Name, routeParents(x.Status.Parents)})
		case *gatewayv1.Gateway:
			g := JGatewayStatus{Ns: x.Namespace, Name: x.Name, Conds: apiConds(x.Status.Conditions), Listeners: []JListenerStatus{}}
			for _, l := range x.Status.Listeners {
				g.Listeners = append(g.Listeners, JListenerStatus{string(l.Name), l.AttachedRoutes, apiConds(l.Conditions)})
			}
			st.Gateways = append(st.Gateways, g)
		case *v1alpha3.BackendTLSPolicy:
			st.Policies = append(st.Policies, JPolicyStatus{"BackendTLSPolicy", x.Namespace, x.Name, ancestors(x.Status.Ancestors)})
		case policies.Policy:
			st.Policies = append(st.Policies, JPolicyStatus{k.Kind, x.GetNamespace(), x.GetName(), ancestors(x.GetPolicyStatus().Ancestors)})
		}
	}
	sort.Slice(st.Routes, func(i, j int) bool {
		a, b := st.Routes[i], st.Routes[j]
		return a.Kind+"/"+a.Ns+"/"+a.Name < b.Kind+"/"+b.Ns+"/"+b.Name
	})
	sort.Slice(st.Gateways, func(i, j int) bool {
		return st.Gateways[i].Ns+"/"+st.Gateways[i].Name < st.Gateways[j].Ns+"/"+st.Gateways[j].Name
	})
	sort.Slice(st.Policies, func(i, j int) bool {
		a, b := st.Policies[i], st.Policies[j]
		return a.Kind+"/"+a.Ns+"/"+a.Name < b.Kind+"/"+b.Ns+"/"+b.Name
	})
	return st
}

// ---------------------------------------------------------------- real dataplane configuration

type JRuleSrc struct {
	Ns   string `json:"ns"`
	Name string `json:"name"`
	Idx  int    `json:"idx"`
	Bad  bool   `json:"bad"` // some backend of the match rule's group is invalid
	Inv  bool   `json:"inv"` // the match rule carries InvalidFilter
}

type JServer struct {
	Port    int32      `json:"port"`
	Host    string     `json:"host"`
	Default bool       `json:"default"`
	Rules   []JRuleSrc `json:"rules"`
}

type JL4Server struct {
	Port    int32  `json:"port"`
	Host    string `json:"host"`
	Default bool   `json:"default"`
	Up      string `json:"up"`
}

type JConf struct {
	HTTP []JServer   `json:"http"`
	SSL  []JServer   `json:"ssl"`
	TLS  []JL4Server `json:"tls"`
}

func servers(vs []dataplane.VirtualServer) []JServer {
	out := make([]JServer, 0, len(vs))
	for _, s := range vs {
		js := JServer{Port: s.Port, Host: s.Hostname, Default: s.IsDefault, Rules: []JRuleSrc{}}
		seen := map[JRuleSrc]bool{}
		for _, pr := range s.PathRules {
			for _, mr := range pr.MatchRules {
				if mr.Source == nil {
					continue
				}
				r := JRuleSrc{Ns: mr.Source.Namespace, Name: mr.Source.Name, Idx: mr.BackendGroup.RuleIdx,
					Inv: mr.Filters.InvalidFilter != nil}
				for _, b := range mr.BackendGroup.Backends {
					if !b.Valid {
						r.Bad = true
					}
				}
				if !seen[r] {
					seen[r] = true
					js.Rules = append(js.Rules, r)
				}
			}
		}
		out = append(out, js)
	}
	return out
}

func ConfSummary(c *dataplane.Configuration) *JConf {
	if c == nil {
		return nil
	}
	jc := &JConf{HTTP: servers(c.HTTPServers), SSL: servers(c.SSLServers), TLS: []JL4Server{}}
	for _, s := range c.TLSPassthroughServers {
		jc.TLS = append(jc.TLS, JL4Server{s.Port, s.Hostname, s.IsDefault, s.UpstreamName})
	}
	return jc
}

// ---------------------------------------------------------------- flat objects (for the independent oracle)

type JKind struct {
	Group string `json:"group"`
	Kind  string `json:"kind"`
}

type JObjListener struct {
	Name     string            `json:"name"`
	Port     int32             `json:"port"`
	Protocol string            `json:"protocol"`
	Hostname string            `json:"hostname"`
	From     string            `json:"from"` // Same (default) / All / Selector
	Selector map[string]string `json:"selector"`
	SelExprs int               `json:"selExprs"` // number of matchExpressions (not interpreted by the oracle)
	Kinds    []JKind           `json:"kinds"`    // nil = not specified
}

type JObjGateway struct {
	Ns        string         `json:"ns"`
	Name      string         `json:"name"`
	Gen       int64          `json:"gen"`
	Age       int64          `json:"age"`
	Class     string         `json:"class"`
	Listeners []JObjListener `json:"listeners"`
}

type JObjParentRef struct {
	Group   *string `json:"group"`
	Kind    *string `json:"kind"`
	Ns      *string `json:"ns"`
	Name    string  `json:"name"`
	Section *string `json:"section"`
	Port    *int32  `json:"port"`
}

type JObjRoute struct {
	Kind       string          `json:"kind"`
	Ns         string          `json:"ns"`
	Name       string          `json:"name"`
	Gen        int64           `json:"gen"`
	Age        int64           `json:"age"`
	ParentRefs []JObjParentRef `json:"parentRefs"`
	Hostnames  []string        `json:"hostnames"`
	Upstream   string          `json:"upstream"` // TLSRoute only: ns_name_port of its single backendRef ("" otherwise)
	L4OK       bool            `json:"l4ok"`     // TLSRoute only: exactly one rule with exactly one backendRef
}

type JObjClass struct {
	Name       string `json:"name"`
	Controller string `json:"controller"`
}

type JObjNamespace struct {
	Name   string            `json:"name"`
	Labels map[string]string `json:"labels"`
}

type JObjTarget struct {
	Group string `json:"group"`
	Kind  string `json:"kind"`
	Name  string `json:"name"`
}

type JObjPolicy struct {
	Kind    string       `json:"kind"`
	Ns      string       `json:"ns"`
	Name    string       `json:"name"`
	Gen     int64        `json:"gen"`
	Targets []JObjTarget `json:"targets"`
}

type JObjs struct {
	Classes    []JObjClass     `json:"classes"`
	Gateways   []JObjGateway   `json:"gateways"`
	Routes     []JObjRoute     `json:"routes"`
	Namespaces []JObjNamespace `json:"namespaces"`
	Policies   []JObjPolicy    `json:"policies"`
}

func objParentRefs(prs []gatewayv1.ParentReference) []JObjParentRef {
	out := make([]JObjParentRef, 0, len(prs))
	for _, pr := range prs {
		j := JObjParentRef{Group: strp(pr.Group), Kind: strp(pr.Kind), Ns: strp(pr.Namespace), Name: string(pr.Name),
			Section: strp(pr.SectionName)}
		if pr.Port != nil {
			v := int32(*pr.Port)
			j.Port = &v
		}
		out = append(out, j)
	}
	return out
}

func hostnames(hs []gatewayv1.Hostname) []string {
	out := make([]string, 0, len(hs))
	for _, h := range hs {
		out = append(out, string(h))
	}
	return out
}

func targets(refs []v1alpha2.LocalPolicyTargetReference) []JObjTarget {
	out := make([]JObjTarget, 0, len(refs))
	for _, r := range refs {
		out = append(out, JObjTarget{string(r.Group), string(r.Kind), string(r.Name)})
	}
	return out
}

func FlatObjects(objs []client.Object) JObjs {
	o := JObjs{Classes: []JObjClass{}, Gateways: []JObjGateway{}, Routes: []JObjRoute{}, Namespaces: []JObjNamespace{},
		Policies: []JObjPolicy{}}
	age := func(m metav1.ObjectMeta) int64 { return m.CreationTimestamp.Unix() - p.Epoch.Unix() }
	for _, obj := range objs {
		switch x := obj.(type) {
		case *gatewayv1.GatewayClass:
			o.Classes = append(o.Classes, JObjClass{x.Name, string(x.Spec.ControllerName)})
		case *apiv1.Namespace:
			o.Namespaces = append(o.Namespaces, JObjNamespace{x.Name, x.Labels})
		case *gatewayv1.Gateway:
			g := JObjGateway{Ns: x.Namespace, Name: x.Name, Gen: x.Generation, Age: age(x.ObjectMeta),
				Class: string(x.Spec.GatewayClassName), Listeners: []JObjListener{}}
			for _, l := range x.Spec.Listeners {
				jl := JObjListener{Name: string(l.Name), Port: int32(l.Port), Protocol: string(l.Protocol), From: "Same"}
				if l.Hostname != nil {
					jl.Hostname = string(*l.Hostname)
				}
				if l.AllowedRoutes != nil {
					if l.AllowedRoutes.Namespaces != nil && l.AllowedRoutes.Namespaces.From != nil {
						jl.From = string(*l.AllowedRoutes.Namespaces.From)
						if sel := l.AllowedRoutes.Namespaces.Selector; sel != nil {
							jl.Selector = sel.MatchLabels
							jl.SelExprs = len(sel.MatchExpressions)
						}
					}
					if l.AllowedRoutes.Kinds != nil {
						jl.Kinds = []JKind{}
						for _, k := range l.AllowedRoutes.Kinds {
							grp := gatewayv1.GroupName
							if k.Group != nil {
								grp = string(*k.Group)
							}
							jl.Kinds = append(jl.Kinds, JKind{grp, string(k.Kind)})
						}
					}
				}
				g.Listeners = append(g.Listeners, jl)
			}
			o.Gateways = append(o.Gateways, g)
		case *gatewayv1.HTTPRoute:
			o.Routes = append(o.Routes, JObjRoute{Kind: "HTTPRoute", Ns: x.Namespace, Name: x.Name, Gen: x.Generation,
				Age: age(x.ObjectMeta), ParentRefs: objParentRefs(x.Spec.ParentRefs), Hostnames: hostnames(x.Spec.Hostnames)})
		case *gatewayv1.GRPCRoute:
			o.Routes = append(o.Routes, JObjRoute{Kind: "GRPCRoute", Ns: x.Namespace, Name: x.Name, Gen: x.Generation,
				Age: age(x.ObjectMeta), ParentRefs: objParentRefs(x.Spec.ParentRefs), Hostnames: hostnames(x.Spec.Hostnames)})
		case *v1alpha2.TLSRoute:
			r := JObjRoute{Kind: "TLSRoute", Ns: x.Namespace, Name: x.Name, Gen: x.Generation,
				Age: age(x.ObjectMeta), ParentRefs: objParentRefs(x.Spec.ParentRefs), Hostnames: hostnames(x.Spec.Hostnames)}
			if len(x.Spec.Rules) == 1 && len(x.Spec.Rules[0].BackendRefs) == 1 {
				r.L4OK = true
				b := x.Spec.Rules[0].BackendRefs[0]
				ns := x.Namespace
				if b.Namespace != nil {
					ns = string(*b.Namespace)
				}
				if b.Port != nil {
					r.Upstream = ns + "_" + string(b.Name) + "_" + itoa(int(*b.Port))
				}
			}
			o.Routes = append(o.Routes, r)
		case *v1alpha3.BackendTLSPolicy:
			jp := JObjPolicy{Kind: "BackendTLSPolicy", Ns: x.Namespace, Name: x.Name, Gen: x.Generation, Targets: []JObjTarget{}}
			for _, t := range x.Spec.TargetRefs {
				jp.Targets = append(jp.Targets, JObjTarget{string(t.Group), string(t.Kind), string(t.Name)})
			}
			o.Policies = append(o.Policies, jp)
		case *ngfAPI.ClientSettingsPolicy:
			o.Policies = append(o.Policies, JObjPolicy{"ClientSettingsPolicy", x.Namespace, x.Name, x.Generation, targets(x.GetTargetRefs())})
		case *ngfAPIv2.ObservabilityPolicy:
			o.Policies = append(o.Policies, JObjPolicy{"ObservabilityPolicy", x.Namespace, x.Name, x.Generation, targets(x.GetTargetRefs())})
		case *ngfAPI.UpstreamSettingsPolicy:
			o.Policies = append(o.Policies, JObjPolicy{"UpstreamSettingsPolicy", x.Namespace, x.Name, x.Generation, targets(x.GetTargetRefs())})
		}
	}
	return o
}

func itoa(i int) string {
	b, _ := json.Marshal(i)
	return string(b)
}

// ---------------------------------------------------------------- one case

type Line struct {
	ID        string         `json:"id"`
	Ctl       string         `json:"ctl"`
	Cls       string         `json:"cls"`
	ReloadErr bool           `json:"reloadErr"`
	Panic     string         `json:"panic,omitempty"`
	Sum       JSummary       `json:"sum"`
	St        JStatuses      `json:"st"`
	Conf      *JConf         `json:"conf"`
	Objs      JObjs          `json:"objs"`
	Targets   []string       `json:"targets"` // objects an UpdateRequest was issued for
	// handler stream only (see handler.go)
	PrepErr  *bool  `json:"prepErr,omitempty"`  // the reload result the REAL handler passed to status preparation
	FailKind string `json:"failKind,omitempty"` // why reloadErr (the truth) is set: apply-failed | stale-after-plus-endpoints-only-update
	H        *HInfo `json:"h,omitempty"`        // batch history so far (input + observations for the Lean handler model)
	// handler stream, only when NGINX runs the last applied configuration (reloadErr=false): the Gateway statuses a FRESH
	// handler issues for the same graph, i.e. the real status.PrepareGatewayRequests with a nil reload result, applied by the
	// real setters (reference of the judge clause programmed:false-after-successful-reload)
	Fresh []JGatewayStatus `json:"fresh,omitempty"`
	// TLS fragment stream only (see fragment.go RunFragmentTLS): the cluster's Secrets (input of PipelineTlsTie.toFragmentT)
	Secrets []JSecret `json:"secrets,omitempty"`
	// fragment stream only (see fragment.go): the flat scenario, input of PipelineStatusTie.toFragmentV
	Flat *c02.Flat `json:"flat,omitempty"`
	Tags      map[string]int `json:"tags,omitempty"`
}

var errReload = errors.New("reload failed: nginx: [emerg] simulated")

// Run executes the real pipeline once on objs with the given reload outcome.
func Run(id string, objs []client.Object, opts p.Options, reloadFailed bool, tags map[string]int) Line {
	var rerr error
	if reloadFailed {
		rerr = errReload
	}
	_, out := p.RunFresh(objs, opts, rerr)
	ln := Line{ID: id, Ctl: opts.Controller, Cls: opts.Class, ReloadErr: reloadFailed, Tags: tags, Objs: FlatObjects(objs),
		Targets: []string{}}
	if out.Panic != "" {
		ln.Panic = p.PanicSite(out.Panic)
		return ln
	}
	ln.Sum = Summarize(out.Graph)
	ln.Conf = ConfSummary(out.Conf)
	res, _, tg := p.ApplyStatuses(out.Requests, objs)
	for _, t := range tg {
		ln.Targets = append(ln.Targets, t.String())
	}
	sort.Strings(ln.Targets)
	ln.St = Statuses(objs, res)
	return ln
}
