package c16

import (
	"fmt"
	"strings"

	apiv1 "k8s.io/api/core/v1"
	"sigs.k8s.io/controller-runtime/pkg/client"
	gatewayv1 "sigs.k8s.io/gateway-api/apis/v1"
	"sigs.k8s.io/gateway-api/apis/v1alpha2"
	"sigs.k8s.io/gateway-api/apis/v1alpha3"

	p "github.com/nginx/nginx-gateway-fabric/verifharness/pipeline"
	"github.com/nginx/nginx-gateway-fabric/verifharness/rng"
	"github.com/nginx/nginx-gateway-fabric/verifharness/scen"
)

// Case is one cluster state handed to the real pipeline.
type Case struct {
	Kind string // fixed | tls | scen
	Name string
	Objs []client.Object
	Opts p.Options
	Tags map[string]int
}

func (c *Case) tag(t string) { c.Tags[t]++ }

func ptr[T any](v T) *T { return &v }

var hostPool = []string{
	"", "*.example.com", "foo.example.com", "*.foo.example.com", "bar.foo.example.com",
	"cafe.example.com", "*.org", "bar.org",
	// exact names exactly as long as the wildcard that covers them (single-character first label)
	"a.example.com", "a.foo.example.com", "*.x.org", "a.x.org", "ab.x.org",
}

// (exact, covering wildcard) pairs of EQUAL string length, and one pair where the exact name is longer
var equalLengthPairs = [][2]string{
	{"a.example.com", "*.example.com"}, {"a.x.org", "*.x.org"}, {"a.foo.example.com", "*.foo.example.com"},
	{"b.org", "*.org"}, {"ab.x.org", "*.x.org"},
}

// secret flavours of the emphasis generator
const (
	secOK = iota
	secMalformed
	secOpaque
	secSwapped
	secNoKey
)

func mkSecret(ns, name string, idx, flavour int) *apiv1.Secret {
	s := p.TLSSecret(ns, name, idx)
	switch flavour {
	case secMalformed:
		s.Data[apiv1.TLSCertKey] = []byte("-----BEGIN CERTIFICATE-----\nbm90IGEgY2VydA==\n-----END CERTIFICATE-----\n")
	case secOpaque:
		s.Type = apiv1.SecretTypeOpaque
	case secSwapped:
		_, k := p.CertPair(idx + 20)
		s.Data[apiv1.TLSPrivateKeyKey] = k
	case secNoKey:
		delete(s.Data, apiv1.TLSPrivateKeyKey)
	}
	return s
}

// BTP describes one BackendTLSPolicy of the emphasis generator.
type btpSpec struct {
	ns, name string
	age      int
	targets  []string
	host     string
	cmRefs   []gatewayv1.LocalObjectReference
	wk       string // "" = nil
	// foreign: number of status.ancestors entries written by OTHER controllers (16 = the list is full: NGF ignores the policy)
	foreign int
}

func mkBTP(b btpSpec) *v1alpha3.BackendTLSPolicy {
	o := &v1alpha3.BackendTLSPolicy{ObjectMeta: p.Meta(b.ns, b.name, b.age)}
	for _, t := range b.targets {
		o.Spec.TargetRefs = append(o.Spec.TargetRefs, v1alpha2.LocalPolicyTargetReferenceWithSectionName{
			LocalPolicyTargetReference: v1alpha2.LocalPolicyTargetReference{Kind: "Service", Name: gatewayv1.ObjectName(t)},
		})
	}
	o.Spec.Validation.Hostname = gatewayv1.PreciseHostname(b.host)
	o.Spec.Validation.CACertificateRefs = b.cmRefs
	if b.wk != "" {
		o.Spec.Validation.WellKnownCACertificates = ptr(v1alpha3.WellKnownCACertificatesType(b.wk))
	}
	for i := 0; i < b.foreign; i++ {
		o.Status.Ancestors = append(o.Status.Ancestors, v1alpha2.PolicyAncestorStatus{
			AncestorRef: gatewayv1.ParentReference{
				Namespace: ptr(gatewayv1.Namespace(b.ns)), Name: gatewayv1.ObjectName(fmt.Sprintf("other-gw-%d", i)),
			},
			ControllerName: gatewayv1.GatewayController(fmt.Sprintf("example.com/other-controller-%d", i)),
		})
	}
	return o
}

// padCert appends n bytes of non-PEM text after the certificate block: the pair still loads (pem.Decode ignores the
// rest) but the key-pair file gets another size.
func padCert(s *apiv1.Secret, n int) *apiv1.Secret {
	if n > 0 {
		s.Data[apiv1.TLSCertKey] = append(s.Data[apiv1.TLSCertKey], []byte("# "+strings.Repeat("p", n)+"\n")...)
	}
	return s
}

func cmRef(name string) []gatewayv1.LocalObjectReference {
	return []gatewayv1.LocalObjectReference{{Kind: "ConfigMap", Name: gatewayv1.ObjectName(name)}}
}

func caConfigMap(ns, name string, idx int) *apiv1.ConfigMap {
	cert, _ := p.CertPair(idx)
	return &apiv1.ConfigMap{ObjectMeta: p.Meta(ns, name, 0), Data: map[string]string{"ca.crt": string(cert)}}
}

// base objects shared by the fixed and the emphasis cases
func baseObjs() []client.Object {
	objs := []client.Object{
		p.Namespace("default", map[string]string{"kubernetes.io/metadata.name": "default"}),
		p.Namespace("team-a", map[string]string{"kubernetes.io/metadata.name": "team-a", "team": "dev"}),
		p.GatewayClass(p.DefaultClass, p.DefaultController, 1),
	}
	for _, ns := range []string{"default", "team-a"} {
		for _, s := range []string{"svc-a", "svc-b", "svc-c", "svc-d", "svc-e"} {
			objs = append(objs, p.Service(ns, s, 80), p.EndpointSlice(ns, s, "s0", []int32{80}, "10.0.0.1"))
		}
	}
	return objs
}

// Fixed returns the hand-written regression scenarios (run first).
func Fixed() []*Case {
	var out []*Case
	add := func(name string, objs ...client.Object) {
		out = append(out, &Case{Kind: "fixed", Name: name, Objs: append(baseObjs(), objs...), Opts: p.DefaultOptions(),
			Tags: map[string]int{"fixed": 1}})
	}
	wholeGW := []gatewayv1.ParentReference{p.ParentRef("default", "gw", "")}
	ruleTo := func(path string, svcs ...string) gatewayv1.HTTPRouteRule {
		var bs []p.Backend
		for _, s := range svcs {
			bs = append(bs, p.Backend{Ref: s, Port: 80, Weight: -1})
		}
		return p.HTTPRule([]gatewayv1.HTTPRouteMatch{p.PathMatch("PathPrefix", path)}, bs...)
	}
	polP := mkBTP(btpSpec{ns: "default", name: "pol-p", age: 5, targets: []string{"svc-b"}, host: "b.example.com", cmRefs: cmRef("ca-1")})
	polQ := mkBTP(btpSpec{ns: "default", name: "pol-q", age: 6, targets: []string{"svc-c"}, host: "c.example.com", cmRefs: cmRef("ca-2")})
	ca1, ca2 := caConfigMap("default", "ca-1", 7), caConfigMap("default", "ca-2", 8)

	// 1. two listeners, two secrets, wildcard + specific, one route on the whole gateway
	add("wildcard-and-specific",
		p.TLSSecret("default", "tls-a", 1), p.TLSSecret("default", "tls-b", 2),
		p.Gateway("default", "gw", p.DefaultClass, 2,
			p.Listener{Name: "wild", Port: 443, Protocol: "HTTPS", Hostname: "*.example.com", CertRefs: []string{"tls-a"}},
			p.Listener{Name: "foo", Port: 443, Protocol: "HTTPS", Hostname: "foo.example.com", CertRefs: []string{"tls-b"}}),
		p.HTTPRoute("default", "hr0", 3, wholeGW, []string{"foo.example.com", "cafe.example.com"}, ruleTo("/", "svc-a")))
	// 2. DESIGN §7 row 17: [no policy, P] / [P, no policy]
	add("btp-none-then-p", polP, ca1,
		p.TLSSecret("default", "tls-a", 1),
		p.Gateway("default", "gw", p.DefaultClass, 2,
			p.Listener{Name: "l0", Port: 443, Protocol: "HTTPS", Hostname: "foo.example.com", CertRefs: []string{"tls-a"}}),
		p.HTTPRoute("default", "hr0", 3, wholeGW, nil, ruleTo("/np", "svc-a", "svc-b"), ruleTo("/pn", "svc-b", "svc-a")))
	// 3. [P, Q], [P], [Q, P, none]
	add("btp-p-q", polP, polQ, ca1, ca2,
		p.TLSSecret("default", "tls-a", 1),
		p.Gateway("default", "gw", p.DefaultClass, 2,
			p.Listener{Name: "l0", Port: 443, Protocol: "HTTPS", Hostname: "foo.example.com", CertRefs: []string{"tls-a"}}),
		p.HTTPRoute("default", "hr0", 3, wholeGW, nil, ruleTo("/pq", "svc-b", "svc-c"), ruleTo("/p", "svc-b"),
			ruleTo("/qpn", "svc-c", "svc-b", "svc-a")))
	// 4. a route attached only to the wildcard listener carries the hostname of the specific listener
	add("route-on-wildcard-only",
		p.TLSSecret("default", "tls-a", 1), p.TLSSecret("default", "tls-b", 2),
		p.Gateway("default", "gw", p.DefaultClass, 2,
			p.Listener{Name: "wild", Port: 443, Protocol: "HTTPS", Hostname: "*.example.com", CertRefs: []string{"tls-a"}},
			p.Listener{Name: "foo", Port: 443, Protocol: "HTTPS", Hostname: "foo.example.com", CertRefs: []string{"tls-b"}}),
		p.HTTPRoute("default", "hr0", 3, []gatewayv1.ParentReference{p.ParentRef("default", "gw", "wild")},
			[]string{"foo.example.com"}, ruleTo("/", "svc-a")))
	// 5. every kind of bad certificate reference next to a good one
	add("bad-secrets",
		p.TLSSecret("default", "tls-a", 1), mkSecret("default", "tls-mal", 2, secMalformed),
		mkSecret("default", "tls-opaque", 3, secOpaque), p.TLSSecret("team-a", "tls-x", 4),
		p.Gateway("default", "gw", p.DefaultClass, 2,
			p.Listener{Name: "ok", Port: 443, Protocol: "HTTPS", Hostname: "cafe.example.com", CertRefs: []string{"tls-a"}},
			p.Listener{Name: "mal", Port: 443, Protocol: "HTTPS", Hostname: "foo.example.com", CertRefs: []string{"tls-mal"}},
			p.Listener{Name: "opq", Port: 443, Protocol: "HTTPS", Hostname: "bar.org", CertRefs: []string{"tls-opaque"}},
			p.Listener{Name: "mis", Port: 443, Protocol: "HTTPS", Hostname: "*.org", CertRefs: []string{"tls-missing"}},
			p.Listener{Name: "nog", Port: 8443, Protocol: "HTTPS", Hostname: "foo.example.com", CertRefs: []string{"team-a/tls-x"}}),
		p.HTTPRoute("default", "hr0", 3, wholeGW, nil, ruleTo("/", "svc-a")))
	// 6. one Secret shared by two ports, same name in two namespaces with a grant
	add("shared-and-crossns",
		p.TLSSecret("default", "tls-a", 1), p.TLSSecret("team-a", "tls-a", 6),
		p.ReferenceGrant("team-a", "rg", []p.GrantFrom{{Group: "gateway.networking.k8s.io", Kind: "Gateway", Namespace: "default"}},
			[]p.GrantTo{{Kind: "Secret"}}),
		p.Gateway("default", "gw", p.DefaultClass, 2,
			p.Listener{Name: "a", Port: 443, Protocol: "HTTPS", Hostname: "cafe.example.com", CertRefs: []string{"tls-a"}},
			p.Listener{Name: "b", Port: 8443, Protocol: "HTTPS", Hostname: "cafe.example.com", CertRefs: []string{"tls-a"}},
			p.Listener{Name: "c", Port: 443, Protocol: "HTTPS", Hostname: "foo.example.com", CertRefs: []string{"team-a/tls-a"}}),
		p.HTTPRoute("default", "hr0", 3, wholeGW, nil, ruleTo("/", "svc-a")))
	// 7. cross-namespace backendRefs whose policies name ConfigMaps of the same NAME (different bytes) in two namespaces
	add("btp-same-named-configmaps",
		polP, ca1,
		mkBTP(btpSpec{ns: "team-a", name: "pol-p", age: 7, targets: []string{"svc-b"}, host: "b.example.com", cmRefs: cmRef("ca-1")}),
		caConfigMap("team-a", "ca-1", 17),
		p.ReferenceGrant("team-a", "rg-svc", []p.GrantFrom{{Group: "gateway.networking.k8s.io", Kind: "HTTPRoute", Namespace: "default"}},
			[]p.GrantTo{{Kind: "Service"}}),
		p.TLSSecret("default", "tls-a", 1),
		p.Gateway("default", "gw", p.DefaultClass, 2,
			p.Listener{Name: "l0", Port: 443, Protocol: "HTTPS", Hostname: "foo.example.com", CertRefs: []string{"tls-a"}}),
		p.HTTPRoute("default", "hr0", 3, wholeGW, nil, ruleTo("/twins", "svc-b", "team-a/svc-b")))
	// 10. ONE invalid Secret referenced by several HTTPS listeners (different ports / hostnames), per invalidity kind: the
	// resolver's cache must answer every listener alike (seeded change C16-r4m1)
	for _, kind := range []struct {
		name string
		sec  client.Object
	}{
		{"malformed", mkSecret("default", "tls-bad", 2, secMalformed)}, {"wrong-type", mkSecret("default", "tls-bad", 3, secOpaque)},
		{"swapped-key", mkSecret("default", "tls-bad", 9, secSwapped)}, {"missing-key", mkSecret("default", "tls-bad", 10, secNoKey)},
		{"missing", p.Namespace("unused-ns", nil)},
	} {
		add("shared-invalid-secret-"+kind.name, kind.sec, p.TLSSecret("default", "tls-a", 1),
			p.Gateway("default", "gw", p.DefaultClass, 2,
				p.Listener{Name: "b0", Port: 443, Protocol: "HTTPS", Hostname: "foo.example.com", CertRefs: []string{"tls-bad"}},
				p.Listener{Name: "b1", Port: 8443, Protocol: "HTTPS", Hostname: "cafe.example.com", CertRefs: []string{"tls-bad"}},
				p.Listener{Name: "b2", Port: 443, Protocol: "HTTPS", Hostname: "bar.org", CertRefs: []string{"tls-bad"}},
				p.Listener{Name: "ok", Port: 443, Protocol: "HTTPS", Hostname: "a.example.com", CertRefs: []string{"tls-a"}}),
			p.HTTPRoute("default", "hr0", 3, wholeGW, nil, ruleTo("/", "svc-a")))
	}
	// 11. a well-formed BackendTLSPolicy whose ancestor status list is full (16 entries of other controllers) / almost full
	// (15) targets a referenced Service: 16 = ignored, the backend must fail closed; 15 = served with verified TLS
	// (seeded change C16-r4m2)
	for _, nAnc := range []int{16, 15} {
		add(fmt.Sprintf("btp-ancestors-%d", nAnc), ca1,
			mkBTP(btpSpec{ns: "default", name: "pol-p", age: 5, targets: []string{"svc-b"}, host: "b.example.com", cmRefs: cmRef("ca-1"), foreign: nAnc}),
			p.TLSSecret("default", "tls-a", 1),
			p.Gateway("default", "gw", p.DefaultClass, 2,
				p.Listener{Name: "l0", Port: 443, Protocol: "HTTPS", Hostname: "foo.example.com", CertRefs: []string{"tls-a"}},
				p.Listener{Name: "h", Port: 80, Protocol: "HTTP"}),
			p.HTTPRoute("default", "hr0", 3, wholeGW, nil, ruleTo("/b", "svc-b"), ruleTo("/bb", "svc-b", "svc-b"), ruleTo("/a", "svc-a")))
	}
	// 12. two and three DISTINCT key pairs in one configuration, of equal and of decreasing file sizes (the generator
	// writes them in map order: every such case is generated several times) (seeded change C16-r4m3)
	for _, sizes := range [][]int{{0, 0}, {300, 0}, {0, 0, 0}, {600, 300, 0}, {0, 300, 600}} {
		var objs []client.Object
		var ls []p.Listener
		for i, pad := range sizes {
			name := fmt.Sprintf("tls-k%d", i)
			objs = append(objs, padCert(p.TLSSecret("default", name, 1+i), pad))
			ls = append(ls, p.Listener{Name: fmt.Sprintf("k%d", i), Port: 443, Protocol: "HTTPS",
				Hostname: []string{"foo.example.com", "cafe.example.com", "bar.org"}[i], CertRefs: []string{name}})
		}
		objs = append(objs, p.Gateway("default", "gw", p.DefaultClass, 2, ls...),
			p.HTTPRoute("default", "hr0", 3, wholeGW, nil, ruleTo("/", "svc-a")))
		add(fmt.Sprintf("distinct-keypairs-%v", sizes), objs...)
	}
	// 13. Secret / ConfigMap NAMES with dots: identical up to the last dot, or ending in .pem / .crt / .conf — each on its own
	// listener (policy); every listener must present ITS Secret, every backend be verified against ITS CA (seeded change C16-r5m1)
	add("dotted-object-names",
		p.TLSSecret("default", "example.com-tls", 1), p.TLSSecret("default", "example.org-tls", 2),
		p.TLSSecret("default", "edge.pem", 3), p.TLSSecret("default", "site.conf", 15), p.TLSSecret("default", "site.crt", 16),
		caConfigMap("default", "ca.payments", 7), caConfigMap("default", "ca.orders", 8),
		mkBTP(btpSpec{ns: "default", name: "pol-p", age: 5, targets: []string{"svc-b"}, host: "b.example.com", cmRefs: cmRef("ca.payments")}),
		mkBTP(btpSpec{ns: "default", name: "pol-q", age: 6, targets: []string{"svc-c"}, host: "c.example.com", cmRefs: cmRef("ca.orders")}),
		p.Gateway("default", "gw", p.DefaultClass, 2,
			p.Listener{Name: "d0", Port: 443, Protocol: "HTTPS", Hostname: "foo.example.com", CertRefs: []string{"example.com-tls"}},
			p.Listener{Name: "d1", Port: 443, Protocol: "HTTPS", Hostname: "bar.org", CertRefs: []string{"example.org-tls"}},
			p.Listener{Name: "d2", Port: 443, Protocol: "HTTPS", Hostname: "cafe.example.com", CertRefs: []string{"edge.pem"}},
			p.Listener{Name: "d3", Port: 8443, Protocol: "HTTPS", Hostname: "a.example.com", CertRefs: []string{"site.conf"}},
			p.Listener{Name: "d4", Port: 8443, Protocol: "HTTPS", Hostname: "a.x.org", CertRefs: []string{"site.crt"}}),
		p.HTTPRoute("default", "hr0", 3, wholeGW, nil, ruleTo("/b", "svc-b"), ruleTo("/c", "svc-c"), ruleTo("/a", "svc-a")))
	// 8./9. exact hostname of the same LENGTH as the covering wildcard, both listener orders, route accepted by both
	for i, order := range [][2]int{{0, 1}, {1, 0}} {
		ls := []p.Listener{
			{Name: "exact", Port: 443, Protocol: "HTTPS", Hostname: "a.example.com", CertRefs: []string{"tls-b"}},
			{Name: "wild", Port: 443, Protocol: "HTTPS", Hostname: "*.example.com", CertRefs: []string{"tls-a"}},
		}
		add(fmt.Sprintf("equal-length-exact-and-wildcard-%d", i),
			p.TLSSecret("default", "tls-a", 1), p.TLSSecret("default", "tls-b", 2),
			p.Gateway("default", "gw", p.DefaultClass, 2, ls[order[0]], ls[order[1]]),
			p.HTTPRoute("default", "hr0", 3, wholeGW, []string{"a.example.com"}, ruleTo("/", "svc-a")))
	}
	return out
}

// GenTLS draws one TLS-focused scenario.
func GenTLS(r *rng.R) *Case {
	c := &Case{Kind: "tls", Opts: p.DefaultOptions(), Tags: map[string]int{}}
	c.Objs = baseObjs()
	gwNS := "default"
	if r.Chance(15, 100) {
		gwNS = "team-a"
		c.tag("gw-in-team-a")
	}
	otherNS := map[string]string{"default": "team-a", "team-a": "default"}[gwNS]

	// ---- secrets
	type sec struct {
		ns, name string
	}
	c.Objs = append(c.Objs,
		p.TLSSecret(gwNS, "tls-a", 1), p.TLSSecret(gwNS, "tls-b", 2), p.TLSSecret(gwNS, "tls-c", 3),
		mkSecret(gwNS, "tls-mal", 4, secMalformed), mkSecret(gwNS, "tls-opaque", 5, secOpaque),
		mkSecret(gwNS, "tls-swapped", 9, secSwapped), mkSecret(gwNS, "tls-nokey", 10, secNoKey),
		p.TLSSecret(otherNS, "tls-a", 6), p.TLSSecret(otherNS, "tls-x", 11), p.TLSSecret(otherNS, "tls-y", 12),
		mkSecret(otherNS, "tls-mal", 13, secMalformed))
	// good Secrets of other sizes (padding after the certificate block): which key-pair file is larger varies per case
	c.Objs = append(c.Objs, padCert(p.TLSSecret(gwNS, "tls-big", 15), rng.Pick(r, []int{0, 200, 700})),
		padCert(p.TLSSecret(gwNS, "tls-mid", 16), rng.Pick(r, []int{0, 100, 350})))
	// dotted names (legal for Secrets and ConfigMaps): equal up to the LAST dot, or ending in a file extension
	dotted := []string{"example.com-tls", "example.org-tls", "edge.pem", "edge.crt", "site.conf"}
	for i, n := range dotted {
		c.Objs = append(c.Objs, p.TLSSecret(gwNS, n, 30+i))
	}
	good := []string{"tls-a", "tls-b", "tls-c", "tls-big", "tls-mid", "example.com-tls", "edge.pem"}
	bad := []string{"tls-mal", "tls-opaque", "tls-swapped", "tls-nokey", "tls-missing"}
	cross := []string{otherNS + "/tls-a", otherNS + "/tls-x", otherNS + "/tls-y", otherNS + "/tls-mal", otherNS + "/tls-missing"}

	// ---- reference grants (exact, all-in-namespace and near misses)
	gwGroup := "gateway.networking.k8s.io"
	ng := r.Intn(3)
	for i := 0; i < ng; i++ {
		from := p.GrantFrom{Group: gwGroup, Kind: "Gateway", Namespace: gwNS}
		to := p.GrantTo{Kind: "Secret"}
		switch r.Intn(8) {
		case 0:
			from.Namespace = otherNS
			c.tag("grant-wrong-from-ns")
		case 1:
			from.Kind = "HTTPRoute"
			c.tag("grant-wrong-from-kind")
		case 2:
			to.Kind = "Service"
			c.tag("grant-wrong-to-kind")
		case 3:
			to.Name = rng.Pick(r, []string{"tls-x", "tls-a", "tls-y"})
			c.tag("grant-named")
		case 4:
			to.Group = "core"
			c.tag("grant-core-group")
		default:
			c.tag("grant-all")
		}
		grantNS := otherNS
		if r.Chance(10, 100) {
			grantNS = gwNS // a grant in the wrong namespace
			c.tag("grant-wrong-ns")
		}
		c.Objs = append(c.Objs, p.ReferenceGrant(grantNS, fmt.Sprintf("rg%d", i), []p.GrantFrom{from}, []p.GrantTo{to}))
	}

	// ---- listeners
	var ls []p.Listener
	nl := r.Range(1, 5)
	used := map[string]bool{}
	for i := 0; i < nl; i++ {
		l := p.Listener{Name: fmt.Sprintf("l%d", i), Protocol: "HTTPS", Port: rng.Pick(r, []int32{443, 443, 8443})}
		l.Hostname = rng.Pick(r, hostPool)
		key := fmt.Sprintf("%d/%s", l.Port, l.Hostname)
		if used[key] && !r.Chance(8, 100) {
			// the API server rejects duplicate (port, protocol, hostname): mostly avoid them
			l.Hostname = rng.Pick(r, hostPool)
			key = fmt.Sprintf("%d/%s", l.Port, l.Hostname)
		}
		if used[key] {
			c.tag("dup-port-hostname")
		}
		used[key] = true
		switch k := r.Intn(100); {
		case k < 45:
			l.CertRefs = []string{rng.Pick(r, good)}
		case k < 70:
			l.CertRefs = []string{rng.Pick(r, bad)}
			c.tag("bad-secret-ref")
		case k < 92:
			l.CertRefs = []string{rng.Pick(r, cross)}
			c.tag("crossns-secret-ref")
		case k < 95:
			l.CertRefs = nil
			c.tag("no-cert-ref")
		default:
			l.CertRefs = []string{rng.Pick(r, good), rng.Pick(r, good)}
			c.tag("two-cert-refs")
		}
		switch k := r.Intn(100); {
		case k < 6:
			l.Protocol, l.Port, l.CertRefs = "HTTP", rng.Pick(r, []int32{80, 443}), nil
			c.tag("http-listener")
		case k < 10:
			l.Protocol, l.CertRefs = "TLS", nil
			c.tag("tls-passthrough-listener")
		case k < 13:
			l.Port = 9113
			c.tag("protected-port")
		}
		switch r.Intn(8) {
		case 0:
			l.FromNS = "Same"
		case 1:
			l.FromNS = "All"
		}
		ls = append(ls, l)
	}
	// equal-length exact/wildcard pair on one port with distinct good Secrets, either order, and a route that both accept
	pairRouteHost := ""
	if r.Chance(15, 100) {
		pr := rng.Pick(r, equalLengthPairs)
		port := rng.Pick(r, []int32{443, 8443})
		a := p.Listener{Name: "lx", Protocol: "HTTPS", Port: port, Hostname: pr[0], CertRefs: []string{good[0]}}
		b := p.Listener{Name: "lw", Protocol: "HTTPS", Port: port, Hostname: pr[1], CertRefs: []string{good[1]}}
		if r.Bool() {
			a, b = b, a
		}
		// drop generated listeners that would repeat (port, hostname)
		kept := ls[:0]
		for _, l := range ls {
			if !(l.Port == port && (l.Hostname == pr[0] || l.Hostname == pr[1])) {
				kept = append(kept, l)
			}
		}
		ls = kept
		pos := r.Intn(len(ls) + 1)
		ls = append(ls[:pos], append([]p.Listener{a, b}, ls[pos:]...)...)
		pairRouteHost = pr[0]
		c.tag("equal-length-pair")
	}
	// ONE invalid Secret shared by 2–3 further HTTPS listeners on different ports / hostnames (resolver cache)
	if r.Chance(15, 100) {
		ref := rng.Pick(r, []string{"tls-mal", "tls-mal", "tls-swapped", "tls-nokey", "tls-opaque", "tls-missing", otherNS + "/tls-mal"})
		hosts := []string{"s0.example.com", "s1.example.com", "s2.bar.org"}
		for i, k := 0, r.Range(2, 3); i < k; i++ {
			ls = append(ls, p.Listener{Name: fmt.Sprintf("sb%d", i), Protocol: "HTTPS", Port: rng.Pick(r, []int32{443, 8443, 9443}),
				Hostname: hosts[i], CertRefs: []string{ref}})
		}
		c.tag("shared-invalid-secret")
	}
	// 2–3 further listeners with DISTINCT good Secrets (several key-pair files of different sizes in one configuration)
	if r.Chance(20, 100) {
		refs := []string{"tls-big", "tls-mid", "tls-a"}
		if r.Bool() {
			refs = []string{"tls-a", "tls-mid", "tls-big"}
		}
		hosts := []string{"k0.example.com", "k1.example.com", "k2.bar.org"}
		for i, k := 0, r.Range(2, 3); i < k; i++ {
			ls = append(ls, p.Listener{Name: fmt.Sprintf("kp%d", i), Protocol: "HTTPS", Port: rng.Pick(r, []int32{443, 8443}),
				Hostname: hosts[i], CertRefs: []string{refs[i]}})
		}
		c.tag("distinct-keypairs")
	}
	// 2–4 further listeners whose Secrets have dotted names identical up to the last dot / ending in an extension
	if r.Chance(20, 100) {
		hosts := []string{"d0.example.com", "d1.example.com", "d2.bar.org", "d3.bar.org"}
		perm := r.Intn(len(dotted))
		for i, k := 0, r.Range(2, 4); i < k; i++ {
			ls = append(ls, p.Listener{Name: fmt.Sprintf("dn%d", i), Protocol: "HTTPS", Port: rng.Pick(r, []int32{443, 8443}),
				Hostname: hosts[i], CertRefs: []string{dotted[(perm+i)%len(dotted)]}})
		}
		c.tag("dotted-secret-names")
	}
	gw := p.Gateway(gwNS, "gw", p.DefaultClass, 2, ls...)
	for i := range gw.Spec.Listeners {
		gl := &gw.Spec.Listeners[i]
		if gl.TLS == nil || len(gl.TLS.CertificateRefs) == 0 {
			continue
		}
		switch r.Intn(40) {
		case 0:
			gl.TLS.CertificateRefs[0].Kind = ptr(gatewayv1.Kind("ConfigMap"))
			c.tag("cert-ref-kind")
		case 1:
			gl.TLS.CertificateRefs[0].Group = ptr(gatewayv1.Group("example.com"))
			c.tag("cert-ref-group")
		case 2:
			gl.TLS.CertificateRefs[0].Kind = nil
		case 3:
			gl.TLS.Options = map[gatewayv1.AnnotationKey]gatewayv1.AnnotationValue{"x": "y"}
			c.tag("tls-options")
		}
	}
	c.Objs = append(c.Objs, gw)

	// ---- BackendTLSPolicies (services svc-a..svc-e of the route namespace "default"/"team-a")
	for _, ns := range []string{"default", "team-a"} {
		off := 0
		if ns == "team-a" {
			off = 10 // same ConfigMap names, different CA bytes in the other namespace
		}
		c.Objs = append(c.Objs, caConfigMap(ns, "ca-1", 7+off), caConfigMap(ns, "ca-2", 8+off),
			&apiv1.ConfigMap{ObjectMeta: p.Meta(ns, "ca-empty", 0), Data: map[string]string{"other": "x"}},
			&apiv1.ConfigMap{ObjectMeta: p.Meta(ns, "ca-bad", 0), Data: map[string]string{"ca.crt": "garbage"}})
		cert, _ := p.CertPair(14)
		c.Objs = append(c.Objs, &apiv1.ConfigMap{ObjectMeta: p.Meta(ns, "ca-bin", 0), BinaryData: map[string][]byte{"ca.crt": cert}})
		c.Objs = append(c.Objs, caConfigMap(ns, "ca.payments", 21+off), caConfigMap(ns, "ca.orders", 22+off))
	}
	dottedCAs := r.Chance(20, 100)
	if dottedCAs {
		c.tag("dotted-configmap-names")
	}
	age := 10
	addBTP := func(b btpSpec) {
		age++
		if b.age == 0 {
			b.age = age
		}
		// status.ancestors written by other controllers: 16 entries = full (the policy is ignored), 15 = one slot left
		switch k := r.Intn(100); {
		case k < 9:
			b.foreign = 16
			c.tag("btp-ancestors-full")
		case k < 14:
			b.foreign = 15
			c.tag("btp-ancestors-15")
		}
		c.Objs = append(c.Objs, mkBTP(b))
	}
	for _, ns := range []string{"default", "team-a"} {
		if ns == "team-a" && !r.Chance(45, 100) {
			continue
		}
		// svc-a: never a policy; svc-b: P; svc-c: Q; svc-d: same configuration as P by value, or wellKnown; svc-e: invalid / conflicting
		if r.Chance(85, 100) {
			tg := []string{"svc-b"}
			if r.Chance(25, 100) {
				tg = append(tg, "svc-d")
				c.tag("btp-two-targets")
			}
			caP := "ca-1"
			if dottedCAs {
				caP = "ca.payments"
			}
			addBTP(btpSpec{ns: ns, name: "pol-p", targets: tg, host: "b.example.com", cmRefs: cmRef(caP)})
		}
		if r.Chance(70, 100) {
			b := btpSpec{ns: ns, name: "pol-q", targets: []string{"svc-c"}, host: "c.example.com", cmRefs: cmRef("ca-2")}
			if dottedCAs {
				b.cmRefs = cmRef("ca.orders")
			}
			switch r.Intn(6) {
			case 0:
				b.cmRefs = cmRef("ca-1") // differs from P by hostname only
			case 1:
				b.host = "b.example.com" // differs from P by CA only
			case 2:
				b.cmRefs, b.wk = nil, "System"
				c.tag("btp-wellknown")
			case 3:
				b.cmRefs = cmRef("ca-bin")
				c.tag("btp-binarydata")
			}
			addBTP(b)
		}
		if r.Chance(50, 100) {
			b := btpSpec{ns: ns, name: "pol-d", targets: []string{"svc-d"}, host: "b.example.com", cmRefs: cmRef("ca-1")}
			if r.Chance(40, 100) {
				b.cmRefs, b.wk, b.host = nil, "System", "c.example.com"
				c.tag("btp-wellknown")
			}
			addBTP(b)
		}
		switch r.Intn(10) {
		case 0:
			addBTP(btpSpec{ns: ns, name: "pol-e", targets: []string{"svc-e"}, host: "e.example.com", cmRefs: cmRef("ca-missing")})
			c.tag("btp-missing-cm")
		case 1:
			addBTP(btpSpec{ns: ns, name: "pol-e", targets: []string{"svc-e"}, host: "e.example.com", cmRefs: cmRef("ca-empty")})
			c.tag("btp-cm-without-ca")
		case 2:
			addBTP(btpSpec{ns: ns, name: "pol-e", targets: []string{"svc-e"}, host: "e.example.com", cmRefs: cmRef("ca-bad")})
			c.tag("btp-cm-bad-ca")
		case 3:
			addBTP(btpSpec{ns: ns, name: "pol-e", targets: []string{"svc-e"}, host: "e.example.com",
				cmRefs: []gatewayv1.LocalObjectReference{{Kind: "Secret", Name: "ca-1"}}})
			c.tag("btp-wrong-ca-kind")
		case 4:
			addBTP(btpSpec{ns: ns, name: "pol-e", targets: []string{"svc-e"}, host: "Not_A_Host", cmRefs: cmRef("ca-1")})
			c.tag("btp-bad-hostname")
		case 5:
			addBTP(btpSpec{ns: ns, name: "pol-e", targets: []string{"svc-e"}, host: "e.example.com", cmRefs: cmRef("ca-1"), wk: "System"})
			c.tag("btp-both-ca-kinds")
		case 6:
			addBTP(btpSpec{ns: ns, name: "pol-e", targets: []string{"svc-e"}, host: "e.example.com"})
			c.tag("btp-no-ca")
		case 7:
			// two policies on one Service: the older wins; equal age: the smaller name wins
			a1, a2 := 50, 51
			if r.Bool() {
				a1, a2 = 51, 50
			}
			if r.Chance(30, 100) {
				a2 = a1
				c.tag("btp-conflict-equal-age")
			}
			addBTP(btpSpec{ns: ns, name: "pol-e1", age: a1, targets: []string{"svc-e"}, host: "e1.example.com", cmRefs: cmRef("ca-1")})
			addBTP(btpSpec{ns: ns, name: "pol-e2", age: a2, targets: []string{"svc-e"}, host: "e2.example.com", cmRefs: cmRef("ca-2")})
			c.tag("btp-conflict")
		case 8:
			// the older of two policies is invalid
			addBTP(btpSpec{ns: ns, name: "pol-e1", age: 50, targets: []string{"svc-e"}, host: "e1.example.com", cmRefs: cmRef("ca-missing")})
			addBTP(btpSpec{ns: ns, name: "pol-e2", age: 51, targets: []string{"svc-e"}, host: "e2.example.com", cmRefs: cmRef("ca-2")})
			c.tag("btp-conflict-older-invalid")
		}
	}

	// ---- routes
	if pairRouteHost != "" {
		hs := []string{pairRouteHost}
		if r.Chance(30, 100) {
			hs = nil // no hostnames: accepted as the listener hostnames themselves
		}
		c.Objs = append(c.Objs, p.HTTPRoute(gwNS, "hr-pair", 19, []gatewayv1.ParentReference{p.ParentRef(gwNS, "gw", "")}, hs,
			p.HTTPRule([]gatewayv1.HTTPRouteMatch{p.PathMatch("PathPrefix", "/pair")}, p.Backend{Ref: "svc-a", Port: 80, Weight: -1})))
	}
	svcs := []string{"svc-a", "svc-b", "svc-c", "svc-d", "svc-e"}
	crossBackends := map[string]bool{}
	nr := r.Range(1, 4)
	for i := 0; i < nr; i++ {
		ns := "default"
		if r.Chance(25, 100) {
			ns = "team-a"
		}
		var parents []gatewayv1.ParentReference
		if r.Chance(45, 100) {
			parents = append(parents, p.ParentRef(gwNS, "gw", rng.Pick(r, ls).Name))
			c.tag("parent-section")
			if r.Chance(30, 100) {
				parents = append(parents, p.ParentRef(gwNS, "gw", rng.Pick(r, ls).Name))
			}
		} else {
			parents = append(parents, p.ParentRef(gwNS, "gw", ""))
		}
		var hs []string
		for k := r.Intn(3); k > 0; k-- {
			if h := rng.Pick(r, hostPool); h != "" {
				hs = append(hs, h)
			}
		}
		nrules := r.Range(1, 3)
		var rules []gatewayv1.HTTPRouteRule
		var grules []gatewayv1.GRPCRouteRule
		grpc := r.Chance(15, 100)
		for j := 0; j < nrules; j++ {
			nb := rng.Pick(r, []int{1, 2, 2, 2, 3, 3})
			var bs []p.Backend
			for k := 0; k < nb; k++ {
				b := p.Backend{Ref: rng.Pick(r, svcs), Port: 80, Weight: -1}
				if r.Chance(12, 100) {
					// cross-namespace backend (granted below, mostly)
					b.Ref = map[string]string{"default": "team-a", "team-a": "default"}[ns] + "/" + b.Ref
					crossBackends[ns] = true
					c.tag("crossns-backend")
				}
				if r.Chance(15, 100) {
					b.Weight = int32(rng.Pick(r, []int{0, 2, 5}))
				}
				if r.Chance(4, 100) {
					b.Ref = "no-such-svc"
					c.tag("invalid-backend")
				}
				bs = append(bs, b)
			}
			path := fmt.Sprintf("/r%d-%d", i, j)
			if grpc {
				gr := gatewayv1.GRPCRouteRule{Matches: []gatewayv1.GRPCRouteMatch{{Method: &gatewayv1.GRPCMethodMatch{
					Type: ptr(gatewayv1.GRPCMethodMatchExact), Service: ptr(fmt.Sprintf("svc.R%d", i)), Method: ptr(fmt.Sprintf("M%d", j)),
				}}}}
				for _, b := range bs {
					gr.BackendRefs = append(gr.BackendRefs, gatewayv1.GRPCBackendRef{BackendRef: p.BackendRef(b)})
				}
				grules = append(grules, gr)
			} else {
				rules = append(rules, p.HTTPRule([]gatewayv1.HTTPRouteMatch{p.PathMatch("PathPrefix", path)}, bs...))
			}
		}
		if grpc {
			c.Objs = append(c.Objs, p.GRPCRoute(ns, fmt.Sprintf("gr%d", i), 20+i, parents, hs, grules...))
			c.tag("grpcroute")
		} else {
			c.Objs = append(c.Objs, p.HTTPRoute(ns, fmt.Sprintf("hr%d", i), 20+i, parents, hs, rules...))
		}
	}
	for ns := range crossBackends {
		if r.Chance(85, 100) {
			other := map[string]string{"default": "team-a", "team-a": "default"}[ns]
			c.Objs = append(c.Objs, p.ReferenceGrant(other, "rg-svc-"+ns,
				[]p.GrantFrom{{Group: gwGroup, Kind: "HTTPRoute", Namespace: ns}, {Group: gwGroup, Kind: "GRPCRoute", Namespace: ns}},
				[]p.GrantTo{{Kind: "Service"}}))
		}
	}
	return c
}

// GenScen wraps the shared generator with more TLS and BackendTLSPolicy weight.
func GenScen(r *rng.R) *Case {
	cfg := scen.DefaultConfig()
	cfg.PTLS = 75
	cfg.PBackendTLS = 50
	s := scen.Generate(r, cfg)
	return &Case{Kind: "scen", Objs: s.Objs, Opts: s.Opts, Tags: s.Tags}
}
