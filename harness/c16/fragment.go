package c16

// Stream "frag" (mode -mode frag): scenarios of C02's pipeline-fragment generator (harness/c02/fragment.go) EXTENDED
// with HTTPS listeners — shared / distinct Secrets, wildcard + specific listeners on one port, missing / malformed /
// wrong-type / foreign-namespace Secrets with and without ReferenceGrants, malformed certificate references, HTTP and
// HTTPS listeners sharing a port — run through the REAL pipeline. One line per case:
//
//	{"site":"frag","id":n,"flat":{…c02 flat scenario…},"files":{"http":…,"stream":…,"matches":…},
//	 "secrets":[{ns,name,type,cert,key,pairOK}],"sfiles":[{"path":…,"content":…}],"tags":{…}}
//
// The Lean side (ngfdriver_C16 pipeline) abstracts the real http.conf + the real secret files and compares them with
// Model/PipelineTls.genT of the fragment view of "flat" + "secrets".

import (
	"bufio"
	"crypto/tls"
	"encoding/json"
	"fmt"
	"os"
	"strings"

	apiv1 "k8s.io/api/core/v1"
	"sigs.k8s.io/controller-runtime/pkg/client"
	gatewayv1 "sigs.k8s.io/gateway-api/apis/v1"

	"github.com/nginx/nginx-gateway-fabric/verifharness/c02"
	p "github.com/nginx/nginx-gateway-fabric/verifharness/pipeline"
	"github.com/nginx/nginx-gateway-fabric/verifharness/rng"
	"github.com/nginx/nginx-gateway-fabric/verifharness/scen"
)

type fragFile struct {
	Path    string `json:"path"`
	Content string `json:"content"`
}

type fragLine struct {
	Site    string          `json:"site"`
	ID      int             `json:"id"`
	Name    string          `json:"name,omitempty"`
	Flat    *c02.Flat       `json:"flat,omitempty"`
	Files   *c02.Files      `json:"files,omitempty"`
	Secrets []inSecret      `json:"secrets"`
	SFiles  []fragFile      `json:"sfiles"`
	Tags    map[string]int  `json:"tags,omitempty"`
	Panic   string          `json:"panic,omitempty"`
	Objs    json.RawMessage `json:"objs,omitempty"`
}

var fragHosts = []string{"", "*.example.com", "cafe.example.com", "*.cafe.example.com", "foo.example.com", "example.com", "bar.org", "*.org",
	"a.example.com"}

// servedGateway finds the Gateway the fragment generator means to be served.
func servedGateway(objs []client.Object) *gatewayv1.Gateway {
	for _, o := range objs {
		if g, ok := o.(*gatewayv1.Gateway); ok && g.Name == "gw" {
			return g
		}
	}
	return nil
}

// GenFragmentTLS draws a fragment scenario and layers TLS on it.
func GenFragmentTLS(r *rng.R) *scen.Scenario {
	s := c02.GenFragment(r)
	tag := func(t string) { s.Tags["tls:"+t]++ }
	gw := servedGateway(s.Objs)
	if gw == nil {
		return s
	}
	gwNS := gw.Namespace
	otherNS := "team-b"

	// ---- Secrets and grants
	s.Objs = append(s.Objs,
		p.TLSSecret(gwNS, "tls-a", 1), p.TLSSecret(gwNS, "tls-b", 2), p.TLSSecret(gwNS, "tls-c", 3),
		mkSecret(gwNS, "tls-mal", 4, secMalformed), mkSecret(gwNS, "tls-opaque", 5, secOpaque),
		mkSecret(gwNS, "tls-swapped", 9, secSwapped),
		p.TLSSecret(otherNS, "tls-a", 6), p.TLSSecret(otherNS, "tls-x", 11), mkSecret(otherNS, "tls-mal", 13, secMalformed))
	s.Objs = append(s.Objs, p.TLSSecret(gwNS, "example.com-tls", 21), p.TLSSecret(gwNS, "example.org-tls", 22), p.TLSSecret(gwNS, "edge.pem", 23))
	good := []string{"tls-a", "tls-a", "tls-b", "tls-c", "example.com-tls", "example.org-tls", "edge.pem"}
	bad := []string{"tls-mal", "tls-opaque", "tls-swapped", "tls-missing"}
	cross := []string{otherNS + "/tls-a", otherNS + "/tls-x", otherNS + "/tls-x", otherNS + "/tls-mal", otherNS + "/tls-missing"}
	gwGroup := "gateway.networking.k8s.io"
	for i, ng := 0, r.Intn(3); i < ng; i++ {
		from := p.GrantFrom{Group: gwGroup, Kind: "Gateway", Namespace: gwNS}
		to := p.GrantTo{Kind: "Secret"}
		grantNS := otherNS
		switch r.Intn(9) {
		case 0:
			from.Namespace = otherNS
			tag("grant-wrong-from-ns")
		case 1:
			from.Kind = "HTTPRoute"
			tag("grant-wrong-from-kind")
		case 2:
			to.Kind = "Service"
			tag("grant-wrong-to-kind")
		case 3:
			to.Name = rng.Pick(r, []string{"tls-x", "tls-a"})
			tag("grant-named")
		case 4:
			to.Group = "core"
			tag("grant-core-group")
		case 5:
			grantNS = gwNS
			tag("grant-wrong-ns")
		default:
			tag("grant-all")
		}
		s.Objs = append(s.Objs, p.ReferenceGrant(grantNS, fmt.Sprintf("rg%d", i), []p.GrantFrom{from}, []p.GrantTo{to}))
	}

	certRefs := func() []gatewayv1.SecretObjectReference {
		mk := func(ref string) gatewayv1.SecretObjectReference {
			o := gatewayv1.SecretObjectReference{Name: gatewayv1.ObjectName(ref)}
			if i := strings.IndexByte(ref, '/'); i >= 0 {
				o.Namespace = ptr(gatewayv1.Namespace(ref[:i]))
				o.Name = gatewayv1.ObjectName(ref[i+1:])
			}
			return o
		}
		switch k := r.Intn(100); {
		case k < 50:
			tag("ref-good")
			return []gatewayv1.SecretObjectReference{mk(rng.Pick(r, good))}
		case k < 68:
			tag("ref-bad-secret")
			return []gatewayv1.SecretObjectReference{mk(rng.Pick(r, bad))}
		case k < 88:
			tag("ref-cross-ns")
			return []gatewayv1.SecretObjectReference{mk(rng.Pick(r, cross))}
		case k < 91:
			tag("ref-none")
			return nil
		case k < 94:
			tag("ref-two")
			return []gatewayv1.SecretObjectReference{mk(rng.Pick(r, good)), mk(rng.Pick(r, good))}
		case k < 97:
			tag("ref-kind-configmap")
			o := mk(rng.Pick(r, good))
			o.Kind = ptr(gatewayv1.Kind("ConfigMap"))
			return []gatewayv1.SecretObjectReference{o}
		default:
			tag("ref-explicit-own-ns")
			o := mk(rng.Pick(r, good))
			o.Namespace = ptr(gatewayv1.Namespace(gwNS))
			return []gatewayv1.SecretObjectReference{o}
		}
	}
	toHTTPS := func(l *gatewayv1.Listener) {
		l.Protocol = gatewayv1.HTTPSProtocolType
		l.TLS = &gatewayv1.GatewayTLSConfig{Mode: ptr(gatewayv1.TLSModeTerminate), CertificateRefs: certRefs()}
	}

	// ---- existing listeners: some become HTTPS (mostly on an HTTPS port, sometimes staying on the HTTP port → conflict)
	for i := range gw.Spec.Listeners {
		l := &gw.Spec.Listeners[i]
		if !r.Chance(45, 100) {
			continue
		}
		toHTTPS(l)
		if r.Chance(88, 100) {
			l.Port = map[gatewayv1.PortNumber]gatewayv1.PortNumber{80: 443, 8080: 8443}[l.Port]
		} else {
			tag("https-on-http-port")
		}
	}
	// ---- additional HTTPS listeners (wildcard + specific on one port, shared / distinct Secrets)
	for i, n := 0, r.Intn(4); i < n; i++ {
		l := gatewayv1.Listener{Name: gatewayv1.SectionName(fmt.Sprintf("t%d", i)), Port: rng.Pick(r, []gatewayv1.PortNumber{443, 443, 443, 8443})}
		if h := rng.Pick(r, fragHosts); h != "" {
			l.Hostname = ptr(gatewayv1.Hostname(h))
		}
		l.AllowedRoutes = &gatewayv1.AllowedRoutes{Namespaces: &gatewayv1.RouteNamespaces{
			From: ptr(gatewayv1.FromNamespaces(rng.Pick(r, []string{"All", "All", "Same"})))}}
		toHTTPS(&l)
		if r.Chance(6, 100) {
			l.Port = 80
			tag("https-on-port-80")
		}
		gw.Spec.Listeners = append(gw.Spec.Listeners, l)
	}
	// ---- emphasis: a wildcard and a specific listener on ONE port with distinct good Secrets (either order, random
	// position) and a route on the whole Gateway carrying the specific name: `listenersForHost` has to choose
	if r.Chance(30, 100) {
		exact := rng.Pick(r, []string{"foo.example.com", "a.example.com", "cafe.example.com"})
		port := rng.Pick(r, []gatewayv1.PortNumber{443, 443, 8443})
		mk := func(name, host, sec string) gatewayv1.Listener {
			return gatewayv1.Listener{Name: gatewayv1.SectionName(name), Port: port, Protocol: gatewayv1.HTTPSProtocolType,
				Hostname:      ptr(gatewayv1.Hostname(host)),
				AllowedRoutes: &gatewayv1.AllowedRoutes{Namespaces: &gatewayv1.RouteNamespaces{From: ptr(gatewayv1.NamespacesFromAll)}},
				TLS: &gatewayv1.GatewayTLSConfig{Mode: ptr(gatewayv1.TLSModeTerminate),
					CertificateRefs: []gatewayv1.SecretObjectReference{{Name: gatewayv1.ObjectName(sec)}}}}
		}
		pair := []gatewayv1.Listener{mk("pw", "*.example.com", "tls-b"), mk("px", exact, "tls-c")}
		if r.Bool() {
			pair[0], pair[1] = pair[1], pair[0]
		}
		pos := r.Intn(len(gw.Spec.Listeners) + 1)
		ls := append([]gatewayv1.Listener{}, gw.Spec.Listeners[:pos]...)
		ls = append(ls, pair...)
		gw.Spec.Listeners = append(ls, gw.Spec.Listeners[pos:]...)
		for _, o := range s.Objs {
			if hr, ok := o.(*gatewayv1.HTTPRoute); ok {
				hr.Spec.ParentRefs = []gatewayv1.ParentReference{p.ParentRef(gwNS, "gw", "")}
				hr.Spec.Hostnames = []gatewayv1.Hostname{gatewayv1.Hostname(exact)}
				if r.Chance(40, 100) {
					hr.Spec.Hostnames = append(hr.Spec.Hostnames, "*.example.com")
				}
				break
			}
		}
		tag("pair-wildcard-and-specific")
	}
	// the fragment wants distinct (port, hostname) pairs
	seen := map[string]bool{}
	kept := gw.Spec.Listeners[:0]
	for _, l := range gw.Spec.Listeners {
		h := ""
		if l.Hostname != nil {
			h = string(*l.Hostname)
		}
		k := fmt.Sprintf("%d/%s", l.Port, h)
		if seen[k] {
			continue
		}
		seen[k] = true
		kept = append(kept, l)
	}
	gw.Spec.Listeners = kept
	nHTTPS := 0
	for _, l := range gw.Spec.Listeners {
		if l.Protocol == gatewayv1.HTTPSProtocolType {
			nHTTPS++
		}
	}
	s.Tags[fmt.Sprintf("tls:https-listeners-%d", min(nHTTPS, 5))]++

	// ---- some routes are (also) attached to a specific HTTPS listener
	var tlsNames []string
	for _, l := range gw.Spec.Listeners {
		if l.Protocol == gatewayv1.HTTPSProtocolType {
			tlsNames = append(tlsNames, string(l.Name))
		}
	}
	if len(tlsNames) > 0 {
		for _, o := range s.Objs {
			hr, ok := o.(*gatewayv1.HTTPRoute)
			if !ok || !r.Chance(35, 100) {
				continue
			}
			sec := rng.Pick(r, tlsNames)
			dup := false
			for _, pr := range hr.Spec.ParentRefs {
				if string(pr.Name) == "gw" && (pr.SectionName == nil || string(*pr.SectionName) == sec) {
					dup = true
				}
			}
			if dup {
				continue
			}
			ref := p.ParentRef(gwNS, "gw", sec)
			if r.Chance(50, 100) {
				hr.Spec.ParentRefs = []gatewayv1.ParentReference{ref}
				tag("route-only-on-https-listener")
			} else {
				hr.Spec.ParentRefs = append(hr.Spec.ParentRefs, ref)
				tag("route-also-on-https-listener")
			}
		}
	}
	return s
}

// fixedFragTLS: hand-written states run first (each names the situation it pins).
func fixedFragTLS() []*scen.Scenario {
	base := func() []client.Object {
		return []client.Object{
			p.Namespace("default", map[string]string{"kubernetes.io/metadata.name": "default"}),
			p.Namespace("team-b", map[string]string{"kubernetes.io/metadata.name": "team-b"}),
			p.Service("default", "svc0", 80), p.EndpointSlice("default", "svc0", "s0", []int32{80}, "10.1.0.1"),
			p.GatewayClass(p.DefaultClass, p.DefaultController, 1),
			p.TLSSecret("default", "tls-a", 1), p.TLSSecret("default", "tls-b", 2), p.TLSSecret("team-b", "tls-x", 11),
			mkSecret("default", "tls-opaque", 5, secOpaque),
		}
	}
	rule := func(path string) gatewayv1.HTTPRouteRule {
		return p.HTTPRule([]gatewayv1.HTTPRouteMatch{p.PathMatch("PathPrefix", path)}, p.Backend{Ref: "svc0", Port: 80, Weight: -1})
	}
	whole := []gatewayv1.ParentReference{p.ParentRef("default", "gw", "")}
	var out []*scen.Scenario
	add := func(name string, objs ...client.Object) {
		out = append(out, &scen.Scenario{Objs: append(base(), objs...), Opts: p.DefaultOptions(), Tags: map[string]int{"tls:fixed:" + name: 1}})
	}
	// wildcard + specific listener on one port, distinct Secrets, route on the whole Gateway
	add("wild-and-specific",
		p.Gateway("default", "gw", p.DefaultClass, 2,
			p.Listener{Name: "wild", Port: 443, Protocol: "HTTPS", Hostname: "*.example.com", CertRefs: []string{"tls-a"}, FromNS: "All"},
			p.Listener{Name: "foo", Port: 443, Protocol: "HTTPS", Hostname: "foo.example.com", CertRefs: []string{"tls-b"}, FromNS: "All"}),
		p.HTTPRoute("default", "hr0", 3, whole, []string{"foo.example.com", "cafe.example.com"}, rule("/")))
	// the known finding: route attached to the wildcard listener only
	add("route-on-wildcard-only",
		p.Gateway("default", "gw", p.DefaultClass, 2,
			p.Listener{Name: "wild", Port: 443, Protocol: "HTTPS", Hostname: "*.example.com", CertRefs: []string{"tls-a"}, FromNS: "All"},
			p.Listener{Name: "foo", Port: 443, Protocol: "HTTPS", Hostname: "foo.example.com", CertRefs: []string{"tls-b"}, FromNS: "All"}),
		p.HTTPRoute("default", "hr0", 3, []gatewayv1.ParentReference{p.ParentRef("default", "gw", "wild")}, []string{"foo.example.com"}, rule("/")))
	// HTTPS listener with an unusable Secret shares the port of an HTTP listener: both are out
	add("bad-https-on-http-port",
		p.Gateway("default", "gw", p.DefaultClass, 2,
			p.Listener{Name: "h", Port: 80, Protocol: "HTTP", FromNS: "All"},
			p.Listener{Name: "s", Port: 80, Protocol: "HTTPS", Hostname: "foo.example.com", CertRefs: []string{"tls-missing"}, FromNS: "All"},
			p.Listener{Name: "t", Port: 443, Protocol: "HTTPS", Hostname: "bar.org", CertRefs: []string{"tls-opaque"}, FromNS: "All"}),
		p.HTTPRoute("default", "hr0", 3, whole, nil, rule("/")))
	// cross-namespace Secret with and without grant; shared Secret on two ports
	add("cross-ns-grant",
		p.Gateway("default", "gw", p.DefaultClass, 2,
			p.Listener{Name: "a", Port: 443, Protocol: "HTTPS", Hostname: "cafe.example.com", CertRefs: []string{"team-b/tls-x"}, FromNS: "All"},
			p.Listener{Name: "b", Port: 8443, Protocol: "HTTPS", CertRefs: []string{"team-b/tls-x"}, FromNS: "All"},
			p.Listener{Name: "c", Port: 8443, Protocol: "HTTPS", Hostname: "bar.org", CertRefs: []string{"tls-a"}, FromNS: "Same"}),
		p.ReferenceGrant("team-b", "rg", []p.GrantFrom{{Group: "gateway.networking.k8s.io", Kind: "Gateway", Namespace: "default"}},
			[]p.GrantTo{{Kind: "Secret", Name: "tls-x"}}),
		p.HTTPRoute("default", "hr0", 3, whole, []string{"cafe.example.com"}, rule("/coffee")))
	add("cross-ns-no-grant",
		p.Gateway("default", "gw", p.DefaultClass, 2,
			p.Listener{Name: "a", Port: 443, Protocol: "HTTPS", Hostname: "cafe.example.com", CertRefs: []string{"team-b/tls-x"}, FromNS: "All"},
			p.Listener{Name: "h", Port: 80, Protocol: "HTTP", FromNS: "All"}),
		p.HTTPRoute("default", "hr0", 3, whole, []string{"cafe.example.com"}, rule("/coffee")))
	return out
}

func runFragCase(id int, s *scen.Scenario, withObjs bool) fragLine {
	c02.ApplyDefaults(s.Objs)
	_, out := p.RunFresh(s.Objs, s.Opts, nil)
	l := fragLine{Site: "frag", ID: id, Tags: s.Tags, Secrets: []inSecret{}, SFiles: []fragFile{}}
	if out.Panic != "" {
		l.Panic = p.PanicSite(out.Panic)
		return l
	}
	fl := c02.Flatten(s.Objs, s.Opts)
	l.Flat = &fl
	l.Files = &c02.Files{
		HTTP:    p.FileText(out.Files, "/etc/nginx/conf.d/http.conf"),
		Stream:  p.FileText(out.Files, "/etc/nginx/stream-conf.d/stream.conf"),
		Matches: p.FileText(out.Files, "/etc/nginx/conf.d/matches.json"),
	}
	for _, o := range s.Objs {
		if x, ok := o.(*apiv1.Secret); ok {
			_, err := tls.X509KeyPair(x.Data[apiv1.TLSCertKey], x.Data[apiv1.TLSPrivateKeyKey])
			l.Secrets = append(l.Secrets, inSecret{NS: x.Namespace, Name: x.Name, Type: string(x.Type),
				Cert: string(x.Data[apiv1.TLSCertKey]), Key: string(x.Data[apiv1.TLSPrivateKeyKey]), PairOK: err == nil})
		}
	}
	for _, f := range p.SortedFiles(out.Files) {
		if strings.HasPrefix(f.Path, "/etc/nginx/secrets/") {
			l.SFiles = append(l.SFiles, fragFile{Path: f.Path, Content: string(f.Content)})
		}
	}
	if withObjs {
		l.Objs = p.EncodeObjects(s.Objs)
	}
	return l
}

func runFrag(r *rng.R, n int, only int, w *bufio.Writer) int {
	enc := json.NewEncoder(w)
	enc.SetEscapeHTML(false)
	id := 0
	panics := 0
	emit := func(s *scen.Scenario) {
		defer func() { id++ }()
		if only >= 0 && id != only {
			return
		}
		l := runFragCase(id, s, only >= 0)
		if l.Panic != "" {
			panics++
		}
		_ = enc.Encode(l)
		w.Flush()
	}
	for _, s := range fixedFragTLS() {
		emit(s)
	}
	for i := 0; i < n && panics < 12; i++ {
		emit(GenFragmentTLS(r.Fork()))
	}
	if panics >= 12 {
		fmt.Fprintln(os.Stderr, "frag: stopped after 12 panics")
	}
	return 0
}
