package c16

import (
	"bufio"
	"crypto/tls"
	"encoding/json"
	"fmt"
	"strings"

	"github.com/go-logr/logr"
	apiv1 "k8s.io/api/core/v1"

	metav1 "k8s.io/apimachinery/pkg/apis/meta/v1"
	"k8s.io/apimachinery/pkg/types"
	gatewayv1 "sigs.k8s.io/gateway-api/apis/v1"
	"sigs.k8s.io/gateway-api/apis/v1alpha2"
	"sigs.k8s.io/gateway-api/apis/v1alpha3"

	"github.com/nginx/nginx-gateway-fabric/internal/framework/conditions"
	ngxcfg "github.com/nginx/nginx-gateway-fabric/internal/mode/static/nginx/config"
	"github.com/nginx/nginx-gateway-fabric/internal/mode/static/state/dataplane"
	"github.com/nginx/nginx-gateway-fabric/internal/mode/static/state/graph"
	p "github.com/nginx/nginx-gateway-fabric/verifharness/pipeline"
	"github.com/nginx/nginx-gateway-fabric/verifharness/rng"
)

// specimen policies for the mismatch loop: identity (pointer), CA refs, wellKnown, hostname
type polSpec struct {
	ID   int     `json:"id"`
	Refs []inRef `json:"refs"`
	WK   *string `json:"wk"`
	Host string  `json:"host"`
}

func specimenPolicies() ([]polSpec, []*graph.BackendTLSPolicy) {
	sys := "System"
	specs := []polSpec{
		{ID: 1, Refs: []inRef{{Kind: "ConfigMap", Name: "ca-1"}}, Host: "b.example.com"},                // P
		{ID: 2, Refs: []inRef{{Kind: "ConfigMap", Name: "ca-1"}}, Host: "b.example.com"},                // P' = P by value
		{ID: 3, Refs: []inRef{{Kind: "ConfigMap", Name: "ca-2"}}, Host: "c.example.com"},                // Q
		{ID: 4, Refs: []inRef{{Kind: "ConfigMap", Name: "ca-1"}}, Host: "c.example.com"},                // hostname differs from P
		{ID: 5, WK: &sys, Host: "b.example.com"},                                                        // W
		{ID: 6, WK: &sys, Host: "b.example.com"},                                                        // W' = W by value
		{ID: 7, Refs: []inRef{{Group: "core", Kind: "ConfigMap", Name: "ca-1"}}, Host: "b.example.com"}, // group spelled differently
	}
	var pols []*graph.BackendTLSPolicy
	for _, s := range specs {
		src := &v1alpha3.BackendTLSPolicy{ObjectMeta: p.Meta("default", fmt.Sprintf("pol%d", s.ID), s.ID)}
		for _, r := range s.Refs {
			src.Spec.Validation.CACertificateRefs = append(src.Spec.Validation.CACertificateRefs,
				gatewayv1.LocalObjectReference{Group: gatewayv1.Group(r.Group), Kind: gatewayv1.Kind(r.Kind), Name: gatewayv1.ObjectName(r.Name)})
		}
		if s.WK != nil {
			src.Spec.Validation.WellKnownCACertificates = ptr(v1alpha3.WellKnownCACertificatesType(*s.WK))
		}
		src.Spec.Validation.Hostname = gatewayv1.PreciseHostname(s.Host)
		pols = append(pols, &graph.BackendTLSPolicy{Source: src, Valid: true})
	}
	return specs, pols
}

var oddHosts = []string{
	"", "*.example.com", "foo.example.com", "*.foo.example.com", "bar.foo.example.com", "cafe.example.com",
	"*.org", "bar.org", "example.com", "*.com", "*.a.b.c.d", "x.a.b.c.d", "*.xexample.com", "fooexample.com",
	"~^", "*.", "*", ".example.com", "a", "*.a",
	"a.example.com", "a.foo.example.com", "*.x.org", "a.x.org", "ab.x.org", "b.org",
}

func runLoop(r *rng.R, n int, w *bufio.Writer) int {
	enc := json.NewEncoder(w)
	enc.SetEscapeHTML(false)
	emit := func(v any) { _ = enc.Encode(v) }

	// 1. the mismatch loop, exhaustively over lists of length <= maxLen of {none, 7 specimen policies}
	specs, pols := specimenPolicies()
	maxLen := 4
	if n >= 5000 {
		maxLen = 5
	}
	var rec func(prefix []int)
	rec = func(prefix []int) {
		refs := make([]graph.BackendRef, 0, len(prefix))
		in := make([]*polSpec, 0, len(prefix))
		for _, i := range prefix {
			if i == 0 {
				refs = append(refs, graph.BackendRef{Valid: true})
				in = append(in, nil)
			} else {
				refs = append(refs, graph.BackendRef{Valid: true, BackendTLSPolicy: pols[i-1]})
				in = append(in, &specs[i-1])
			}
		}
		emit(map[string]any{"k": "mismatch", "in": in, "out": graph.VerifC16BTPMismatch(refs)})
		if len(prefix) < maxLen {
			for i := 0; i <= len(specs); i++ {
				rec(append(append([]int{}, prefix...), i))
			}
		}
	}
	rec(nil)

	// 2. hostname specificity and acceptance
	for _, a := range oddHosts {
		for _, b := range oddHosts {
			emit(map[string]any{"k": "morespecific", "a": a, "b": b, "out": graph.GetMoreSpecificHostname(a, b),
				"lms": dataplane.VerifC16ListenerHostnameMoreSpecific(a, b)})
		}
	}
	for i := 0; i < n; i++ {
		l := rng.Pick(r, oddHosts[:14])
		var rh []string
		for k := r.Intn(4); k > 0; k-- {
			rh = append(rh, rng.Pick(r, oddHosts[1:14]))
		}
		out := graph.VerifC16FindAcceptedHostnames(l, rh)
		if out == nil {
			out = []string{}
		}
		if rh == nil {
			rh = []string{}
		}
		emit(map[string]any{"k": "accepted", "l": l, "r": rh, "out": out})
	}

	// 3. ids, file names and PEM bytes — through the EXPORTED Generate (robust against signature changes of generatePEM,
	// and the only way to see what several key pairs of one configuration do to each other)
	gen := ngxcfg.NewGeneratorImpl(false, nil, logr.Discard())
	pemFiles := func(pairs map[dataplane.SSLKeyPairID]dataplane.SSLKeyPair) (out []fragFile) {
		defer func() {
			if rec := recover(); rec != nil {
				out = []fragFile{{Path: "panic", Content: fmt.Sprint(rec)}}
			}
		}()
		for _, f := range p.SortedFiles(gen.Generate(dataplane.Configuration{SSLKeyPairs: pairs})) {
			if strings.HasPrefix(f.Path, "/etc/nginx/secrets/") {
				out = append(out, fragFile{Path: f.Path, Content: string(f.Content)})
			}
		}
		return out
	}
	names := []string{"default", "team-a", "a", "a-b", "tls-a", "x.y", "ns1", "very-long-name-0123456789"}
	for _, ns := range names {
		for _, nm := range names {
			id := dataplane.VerifC16KeyPairID(ns, nm)
			fs := pemFiles(map[dataplane.SSLKeyPairID]dataplane.SSLKeyPair{dataplane.SSLKeyPairID(id): {}})
			path := ""
			if len(fs) == 1 {
				path = fs[0].Path
			}
			emit(map[string]any{"k": "ids", "ns": ns, "name": nm, "kp": id, "cb": dataplane.VerifC16CertBundleID(ns, nm), "path": path})
		}
	}
	mkBytes := func(n int) string {
		b := make([]byte, n)
		for j := range b {
			b[j] = "abc-\n =+/XYZ019"[r.Intn(15)]
		}
		return string(b)
	}
	for i := 0; i < n/4+8; i++ {
		c, k := mkBytes(r.Intn(40)), mkBytes(r.Intn(40))
		fs := pemFiles(map[dataplane.SSLKeyPairID]dataplane.SSLKeyPair{"id": {Cert: []byte(c), Key: []byte(k)}})
		content := ""
		if len(fs) == 1 {
			content = fs[0].Content
		}
		emit(map[string]any{"k": "pem", "cert": c, "key": k, "out": content})
	}
	// 3b. SEVERAL key pairs in one configuration: equal sizes, strictly decreasing sizes, random sizes; the map order decides
	// which file is written later, so every set is generated several times
	type pairSpec struct {
		ID   string `json:"id"`
		Cert string `json:"cert"`
		Key  string `json:"key"`
	}
	for i := 0; i < n/6+12; i++ {
		np := r.Range(2, 4)
		var specs []pairSpec
		shape := i % 3
		for k := 0; k < np; k++ {
			cl, kl := 20+r.Intn(60), 10+r.Intn(40)
			switch shape {
			case 0: // equal sizes
				cl, kl = 48, 24
			case 1: // decreasing
				cl, kl = 90-20*k, 40-8*k
			}
			specs = append(specs, pairSpec{ID: fmt.Sprintf("ssl_keypair_ns%d_s%d", i, k), Cert: mkBytes(cl), Key: mkBytes(kl)})
		}
		for rep := 0; rep < 4; rep++ {
			m := map[dataplane.SSLKeyPairID]dataplane.SSLKeyPair{}
			for _, sp := range specs {
				m[dataplane.SSLKeyPairID(sp.ID)] = dataplane.SSLKeyPair{Cert: []byte(sp.Cert), Key: []byte(sp.Key)}
			}
			fs := pemFiles(m)
			if fs == nil {
				fs = []fragFile{}
			}
			emit(map[string]any{"k": "pemfiles", "pairs": specs, "files": fs, "shape": shape})
		}
	}
	// 3c. one secretResolver, several resolves of the same Secrets (as the HTTPS listeners of one Gateway do)
	pool := []*apiv1.Secret{
		p.TLSSecret("default", "tls-a", 1), p.TLSSecret("default", "tls-b", 2),
		mkSecret("default", "tls-mal", 4, secMalformed), mkSecret("default", "tls-opaque", 5, secOpaque),
		mkSecret("default", "tls-swapped", 9, secSwapped), mkSecret("default", "tls-nokey", 10, secNoKey),
		p.TLSSecret("team-a", "tls-a", 6), mkSecret("team-a", "tls-mal", 13, secMalformed),
	}
	keyNames := []types.NamespacedName{{Namespace: "default", Name: "tls-a"}, {Namespace: "default", Name: "tls-b"},
		{Namespace: "default", Name: "tls-mal"}, {Namespace: "default", Name: "tls-opaque"}, {Namespace: "default", Name: "tls-swapped"},
		{Namespace: "default", Name: "tls-nokey"}, {Namespace: "default", Name: "tls-missing"}, {Namespace: "team-a", Name: "tls-a"},
		{Namespace: "team-a", Name: "tls-mal"}}
	var inSecrets []inSecret
	for _, x := range pool {
		_, err := tls.X509KeyPair(x.Data[apiv1.TLSCertKey], x.Data[apiv1.TLSPrivateKeyKey])
		inSecrets = append(inSecrets, inSecret{NS: x.Namespace, Name: x.Name, Type: string(x.Type), PairOK: err == nil})
	}
	resolveSeq := func(keys []types.NamespacedName) {
		var ks []nn
		for _, k := range keys {
			ks = append(ks, nn{k.Namespace, k.Name})
		}
		emit(map[string]any{"k": "resolveseq", "secrets": inSecrets, "keys": ks, "out": graph.VerifC16ResolveSeq(pool, keys)})
	}
	for _, k := range keyNames { // every Secret two and three times in a row
		resolveSeq([]types.NamespacedName{k, k})
		resolveSeq([]types.NamespacedName{k, k, k})
	}
	for i := 0; i < n/4+8; i++ {
		var keys []types.NamespacedName
		for k := r.Range(2, 6); k > 0; k-- {
			keys = append(keys, rng.Pick(r, keyNames))
		}
		resolveSeq(keys)
	}

	// 4. createProxyTLSFromBackends + protocol
	verifs := []*dataplane.VerifyTLS{nil, {CertBundleID: "cert_bundle_default_ca-1", Hostname: "b.example.com"},
		{CertBundleID: "cert_bundle_default_ca-2", Hostname: "c.example.com"}, {RootCAPath: "/etc/ssl/cert.pem", Hostname: "w.example.com"}}
	for i := 0; i < n/2+16; i++ {
		var bs []dataplane.Backend
		var in []*obsVerify
		for k := r.Intn(4); k > 0; k-- {
			v := rng.Pick(r, verifs)
			bs = append(bs, dataplane.Backend{UpstreamName: "u", Valid: r.Bool(), Weight: 1, VerifyTLS: v})
			if v == nil {
				in = append(in, nil)
			} else {
				in = append(in, &obsVerify{Bundle: string(v.CertBundleID), Host: v.Hostname, Root: v.RootCAPath})
			}
		}
		if in == nil {
			in = []*obsVerify{}
		}
		grpc := r.Bool()
		has, tc, name, proto := ngxcfg.VerifC16ProxyTLS(bs, grpc)
		emit(map[string]any{"k": "proxytls", "in": in, "grpc": grpc, "has": has, "tc": tc, "name": name, "proto": proto})
	}

	// 5. findBackendTLSPolicyForService
	for i := 0; i < n+16; i++ {
		m := map[types.NamespacedName]*graph.BackendTLSPolicy{}
		var in []map[string]any
		np := r.Intn(4)
		for k := 0; k < np; k++ {
			ns := rng.Pick(r, []string{"default", "team-a"})
			name := fmt.Sprintf("pol%d", r.Intn(4))
			key := types.NamespacedName{Namespace: ns, Name: name}
			if _, dup := m[key]; dup {
				continue
			}
			ts := r.Intn(3)
			src := &v1alpha3.BackendTLSPolicy{ObjectMeta: p.Meta(ns, name, ts)}
			var tg []string
			for t := r.Range(1, 2); t > 0; t-- {
				tn := rng.Pick(r, []string{"svc-a", "svc-b"})
				tg = append(tg, tn)
				src.Spec.TargetRefs = append(src.Spec.TargetRefs, v1alpha2.LocalPolicyTargetReferenceWithSectionName{
					LocalPolicyTargetReference: v1alpha2.LocalPolicyTargetReference{Kind: "Service", Name: gatewayv1.ObjectName(tn)}})
			}
			valid := r.Chance(75, 100)
			bp := &graph.BackendTLSPolicy{Source: src, Valid: valid}
			if !valid {
				bp.Conditions = append(bp.Conditions, condInvalid())
			}
			m[key] = bp
			in = append(in, map[string]any{"ns": ns, "name": name, "ts": ts, "targets": tg, "valid": valid})
		}
		if in == nil {
			in = []map[string]any{}
		}
		routeNS := rng.Pick(r, []string{"default", "team-a"})
		var refNS *gatewayv1.Namespace
		refNSs := ""
		if r.Chance(40, 100) {
			refNSs = rng.Pick(r, []string{"default", "team-a"})
			refNS = (*gatewayv1.Namespace)(&refNSs)
		}
		refName := rng.Pick(r, []string{"svc-a", "svc-b", "svc-c"})
		got, err := graph.VerifC16FindBTP(m, refNS, refName, routeNS)
		out := ""
		if got != nil {
			out = got.Source.Namespace + "/" + got.Source.Name
		}
		emit(map[string]any{"k": "findbtp", "pols": in, "refNS": refNSs, "refName": refName, "routeNS": routeNS,
			"out": out, "err": err != nil})
	}
	w.Flush()
	return 0
}

var _ = metav1.Now

func condInvalid() conditions.Condition {
	return conditions.Condition{Type: "Accepted", Status: metav1.ConditionFalse, Reason: "Invalid", Message: "invalid"}
}
