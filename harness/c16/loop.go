package c16

import (
	"bufio"
	"encoding/json"
	"fmt"

	metav1 "k8s.io/apimachinery/pkg/apis/meta/v1"
	"k8s.io/apimachinery/pkg/types"
	gatewayv1 "sigs.k8s.io/gateway-api/apis/v1"
	"sigs.k8s.io/gateway-api/apis/v1alpha2"
	"sigs.k8s.io/gateway-api/apis/v1alpha3"

	"github.com/nginx/nginx-gateway-fabric/internal/framework/conditions"
	ngxcfg "github.com/nginx/nginx-gateway-fabric/internal/mode/static/nginx/config"
	"github.com/nginx/nginx-gateway-fabric/internal/mode/static/state/dataplane"
	"github.com/nginx/nginx-gateway-fabric/internal/mode/static/state/graph"
	p "github.com/nginx/nginx-gateway-fabric/verifharness/pipeline"
	"github.com/nginx/nginx-gateway-fabric/verifharness/rng"
)

// specimen policies for the mismatch loop: identity (pointer), CA refs, wellKnown, hostname
type polSpec struct {
	ID   int     `json:"id"`
	Refs []inRef `json:"refs"`
	WK   *string `json:"wk"`
	Host string  `json:"host"`
}

func specimenPolicies() ([]polSpec, []*graph.BackendTLSPolicy) {
	sys := "System"
	specs := []polSpec{
		{ID: 1, Refs: []inRef{{Kind: "ConfigMap", Name: "ca-1"}}, Host: "b.example.com"},              // P
		{ID: 2, Refs: []inRef{{Kind: "ConfigMap", Name: "ca-1"}}, Host: "b.example.com"},              // P' = P by value
		{ID: 3, Refs: []inRef{{Kind: "ConfigMap", Name: "ca-2"}}, Host: "c.example.com"},              // Q
		{ID: 4, Refs: []inRef{{Kind: "ConfigMap", Name: "ca-1"}}, Host: "c.example.com"},              // hostname differs from P
		{ID: 5, WK: &sys, Host: "b.example.com"},                                                      // W
		{ID: 6, WK: &sys, Host: "b.example.com"},                                                      // W' = W by value
		{ID: 7, Refs: []inRef{{Group: "core", Kind: "ConfigMap", Name: "ca-1"}}, Host: "b.example.com"}, // group spelled differently
	}
	var pols []*graph.BackendTLSPolicy
	for _, s := range specs {
		src := &v1alpha3.BackendTLSPolicy{ObjectMeta: p.Meta("default", fmt.Sprintf("pol%d", s.ID), s.ID)}
		for _, r := range s.Refs {
			src.Spec.Validation.CACertificateRefs = append(src.Spec.Validation.CACertificateRefs,
				gatewayv1.LocalObjectReference{Group: gatewayv1.Group(r.Group), Kind: gatewayv1.Kind(r.Kind), Name: gatewayv1.ObjectName(r.Name)})
		}
		if s.WK != nil {
			src.Spec.Validation.WellKnownCACertificates = ptr(v1alpha3.WellKnownCACertificatesType(*s.WK))
		}
		src.Spec.Validation.Hostname = gatewayv1.PreciseHostname(s.Host)
		pols = append(pols, &graph.BackendTLSPolicy{Source: src, Valid: true})
	}
	return specs, pols
}

var oddHosts = []string{
	"", "*.example.com", "foo.example.com", "*.foo.example.com", "bar.foo.example.com", "cafe.example.com",
	"*.org", "bar.org", "example.com", "*.com", "*.a.b.c.d", "x.a.b.c.d", "*.xexample.com", "fooexample.com",
	"~^", "*.", "*", ".example.com", "a", "*.a",
	"a.example.com", "a.foo.example.com", "*.x.org", "a.x.org", "ab.x.org", "b.org",
}

func runLoop(r *rng.R, n int, w *bufio.Writer) int {
	enc := json.NewEncoder(w)
	enc.SetEscapeHTML(false)
	emit := func(v any) { _ = enc.Encode(v) }

	// 1. the mismatch loop, exhaustively over lists of length <= maxLen of {none, 7 specimen policies}
	specs, pols := specimenPolicies()
	maxLen := 4
	if n >= 5000 {
		maxLen = 5
	}
	var rec func(prefix []int)
	rec = func(prefix []int) {
		refs := make([]graph.BackendRef, 0, len(prefix))
		in := make([]*polSpec, 0, len(prefix))
		for _, i := range prefix {
			if i == 0 {
				refs = append(refs, graph.BackendRef{Valid: true})
				in = append(in, nil)
			} else {
				refs = append(refs, graph.BackendRef{Valid: true, BackendTLSPolicy: pols[i-1]})
				in = append(in, &specs[i-1])
			}
		}
		emit(map[string]any{"k": "mismatch", "in": in, "out": graph.VerifC16BTPMismatch(refs)})
		if len(prefix) < maxLen {
			for i := 0; i <= len(specs); i++ {
				rec(append(append([]int{}, prefix...), i))
			}
		}
	}
	rec(nil)

	// 2. hostname specificity and acceptance
	for _, a := range oddHosts {
		for _, b := range oddHosts {
			emit(map[string]any{"k": "morespecific", "a": a, "b": b, "out": graph.GetMoreSpecificHostname(a, b),
				"lms": dataplane.VerifC16ListenerHostnameMoreSpecific(a, b)})
		}
	}
	for i := 0; i < n; i++ {
		l := rng.Pick(r, oddHosts[:14])
		var rh []string
		for k := r.Intn(4); k > 0; k-- {
			rh = append(rh, rng.Pick(r, oddHosts[1:14]))
		}
		out := graph.VerifC16FindAcceptedHostnames(l, rh)
		if out == nil {
			out = []string{}
		}
		if rh == nil {
			rh = []string{}
		}
		emit(map[string]any{"k": "accepted", "l": l, "r": rh, "out": out})
	}

	// 3. ids, file names and PEM bytes
	names := []string{"default", "team-a", "a", "a-b", "tls-a", "x.y", "ns1", "very-long-name-0123456789"}
	for _, ns := range names {
		for _, nm := range names {
			path, _ := ngxcfg.VerifC16PEM(dataplane.VerifC16KeyPairID(ns, nm), nil, nil)
			emit(map[string]any{"k": "ids", "ns": ns, "name": nm, "kp": dataplane.VerifC16KeyPairID(ns, nm),
				"cb": dataplane.VerifC16CertBundleID(ns, nm), "path": path})
		}
	}
	for i := 0; i < n/4+8; i++ {
		mk := func() string {
			b := make([]byte, r.Intn(40))
			for j := range b {
				b[j] = "abc-\n =+/XYZ019"[r.Intn(15)]
			}
			return string(b)
		}
		c, k := mk(), mk()
		_, content := ngxcfg.VerifC16PEM("id", []byte(c), []byte(k))
		emit(map[string]any{"k": "pem", "cert": c, "key": k, "out": string(content)})
	}

	// 4. createProxyTLSFromBackends + protocol
	verifs := []*dataplane.VerifyTLS{nil, {CertBundleID: "cert_bundle_default_ca-1", Hostname: "b.example.com"},
		{CertBundleID: "cert_bundle_default_ca-2", Hostname: "c.example.com"}, {RootCAPath: "/etc/ssl/cert.pem", Hostname: "w.example.com"}}
	for i := 0; i < n/2+16; i++ {
		var bs []dataplane.Backend
		var in []*obsVerify
		for k := r.Intn(4); k > 0; k-- {
			v := rng.Pick(r, verifs)
			bs = append(bs, dataplane.Backend{UpstreamName: "u", Valid: r.Bool(), Weight: 1, VerifyTLS: v})
			if v == nil {
				in = append(in, nil)
			} else {
				in = append(in, &obsVerify{Bundle: string(v.CertBundleID), Host: v.Hostname, Root: v.RootCAPath})
			}
		}
		if in == nil {
			in = []*obsVerify{}
		}
		grpc := r.Bool()
		has, tc, name, proto := ngxcfg.VerifC16ProxyTLS(bs, grpc)
		emit(map[string]any{"k": "proxytls", "in": in, "grpc": grpc, "has": has, "tc": tc, "name": name, "proto": proto})
	}

	// 5. findBackendTLSPolicyForService
	for i := 0; i < n+16; i++ {
		m := map[types.NamespacedName]*graph.BackendTLSPolicy{}
		var in []map[string]any
		np := r.Intn(4)
		for k := 0; k < np; k++ {
			ns := rng.Pick(r, []string{"default", "team-a"})
			name := fmt.Sprintf("pol%d", r.Intn(4))
			key := types.NamespacedName{Namespace: ns, Name: name}
			if _, dup := m[key]; dup {
				continue
			}
			ts := r.Intn(3)
			src := &v1alpha3.BackendTLSPolicy{ObjectMeta: p.Meta(ns, name, ts)}
			var tg []string
			for t := r.Range(1, 2); t > 0; t-- {
				tn := rng.Pick(r, []string{"svc-a", "svc-b"})
				tg = append(tg, tn)
				src.Spec.TargetRefs = append(src.Spec.TargetRefs, v1alpha2.LocalPolicyTargetReferenceWithSectionName{
					LocalPolicyTargetReference: v1alpha2.LocalPolicyTargetReference{Kind: "Service", Name: gatewayv1.ObjectName(tn)}})
			}
			valid := r.Chance(75, 100)
			bp := &graph.BackendTLSPolicy{Source: src, Valid: valid}
			if !valid {
				bp.Conditions = append(bp.Conditions, condInvalid())
			}
			m[key] = bp
			in = append(in, map[string]any{"ns": ns, "name": name, "ts": ts, "targets": tg, "valid": valid})
		}
		if in == nil {
			in = []map[string]any{}
		}
		routeNS := rng.Pick(r, []string{"default", "team-a"})
		var refNS *gatewayv1.Namespace
		refNSs := ""
		if r.Chance(40, 100) {
			refNSs = rng.Pick(r, []string{"default", "team-a"})
			refNS = (*gatewayv1.Namespace)(&refNSs)
		}
		refName := rng.Pick(r, []string{"svc-a", "svc-b", "svc-c"})
		got, err := graph.VerifC16FindBTP(m, refNS, refName, routeNS)
		out := ""
		if got != nil {
			out = got.Source.Namespace + "/" + got.Source.Name
		}
		emit(map[string]any{"k": "findbtp", "pols": in, "refNS": refNSs, "refName": refName, "routeNS": routeNS,
			"out": out, "err": err != nil})
	}
	w.Flush()
	return 0
}

var _ = metav1.Now

func condInvalid() conditions.Condition {
	return conditions.Condition{Type: "Accepted", Status: metav1.ConditionFalse, Reason: "Invalid", Message: "invalid"}
}
