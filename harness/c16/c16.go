// Package c16 drives the REAL pipeline (graph -> dataplane.Configuration -> generated files) on
// TLS-focused cluster states and emits, per case, one JSON line
//
//	{"id":n,"kind":..,"name":..,"in":{…flat input objects…},"obs":{…graph / configuration / files…}}
//
// "in" is derived from the input objects only (plus bits computed with Go's crypto libraries: whether a
// Secret holds a loadable key pair, whether a ca.crt parses); "obs" is what the real code produced.
// Mode -mode loop emits direct calls of the unexported decision functions (through the verif overlay).
package c16

import (
	"bufio"
	"crypto/tls"
	"crypto/x509"
	"encoding/base64"
	"encoding/json"
	"encoding/pem"
	"flag"
	"fmt"
	"os"
	"sort"
	"strings"

	apiv1 "k8s.io/api/core/v1"
	"k8s.io/apimachinery/pkg/util/validation"
	"sigs.k8s.io/controller-runtime/pkg/client"
	gatewayv1 "sigs.k8s.io/gateway-api/apis/v1"
	"sigs.k8s.io/gateway-api/apis/v1alpha3"
	"sigs.k8s.io/gateway-api/apis/v1beta1"

	"github.com/nginx/nginx-gateway-fabric/internal/mode/static/state/graph"
	p "github.com/nginx/nginx-gateway-fabric/verifharness/pipeline"
	"github.com/nginx/nginx-gateway-fabric/verifharness/rng"
)

type nn struct {
	NS   string `json:"ns"`
	Name string `json:"name"`
}

type inListener struct {
	Name     string `json:"name"`
	Port     int    `json:"port"`
	Proto    string `json:"proto"`
	Host     string `json:"host"`
	HasTLS   bool   `json:"hasTLS"`
	Mode     string `json:"mode"`
	NRefs    int    `json:"nrefs"`
	RefKind  string `json:"refKind"`  // "" = nil
	RefGroup string `json:"refGroup"` // "" = nil or empty
	RefNS    string `json:"refNS"`    // defaulted to the Gateway namespace
	RefName  string `json:"refName"`
	NOpts    int    `json:"nopts"`
}

type inSecret struct {
	NS     string `json:"ns"`
	Name   string `json:"name"`
	Type   string `json:"type"`
	Cert   string `json:"cert"`
	Key    string `json:"key"`
	PairOK bool   `json:"pairOK"` // crypto/tls.X509KeyPair accepts (cert, key)
}

type inGrantEnd struct {
	Group string `json:"group"`
	Kind  string `json:"kind"`
	NS    string `json:"ns,omitempty"`
	Name  string `json:"name,omitempty"`
}

type inGrant struct {
	NS   string       `json:"ns"`
	From []inGrantEnd `json:"from"`
	To   []inGrantEnd `json:"to"`
}

type inService struct {
	NS    string `json:"ns"`
	Name  string `json:"name"`
	Ports []int  `json:"ports"`
}

type inConfigMap struct {
	NS    string `json:"ns"`
	Name  string `json:"name"`
	HasCA bool   `json:"hasCA"` // data or binaryData has a non-empty ca.crt
	CA    string `json:"ca"`    // the bytes NGF is expected to write (binaryData wins over data; base64 decoded if it decodes)
	CAOK  bool   `json:"caOK"`  // every present ca.crt entry is one parsable CERTIFICATE PEM block (crypto/x509)
}

type inRef struct {
	Group string `json:"group"`
	Kind  string `json:"kind"`
	Name  string `json:"name"`
}

type inBTP struct {
	NS      string   `json:"ns"`
	Name    string   `json:"name"`
	TS      int64    `json:"ts"`
	Targets []string `json:"targets"`
	Host    string   `json:"host"`
	HostOK  bool     `json:"hostOK"`
	Refs    []inRef  `json:"refs"`
	WK      *string  `json:"wk"`
	Full    bool     `json:"full"` // 16 foreign ancestors already recorded
}

type input struct {
	GW        *nn           `json:"gw"`
	Listeners []inListener  `json:"listeners"`
	Secrets   []inSecret    `json:"secrets"`
	Grants    []inGrant     `json:"grants"`
	Services  []inService   `json:"services"`
	CMs       []inConfigMap `json:"cms"`
	BTPs      []inBTP       `json:"btps"`
}

// ---- observations

type obsListener struct {
	Name         string     `json:"name"`
	Valid        bool       `json:"valid"`
	Resolved     *nn        `json:"resolved"`
	OtherInvalid bool       `json:"otherInvalid"` // a condition whose reason is not about the certificate reference
	NRoutes      int        `json:"nroutes"`
	RouteHosts   [][]string `json:"routeHosts"` // spec.hostnames of each VALID attached route
	Accepted     [][]string `json:"accepted"`   // accepted hostnames of each VALID attached route (same order)
}

type obsRef struct {
	Svc   *nn  `json:"svc"`
	Port  int  `json:"port"` // resolved ServicePort.Port (0 = the Service or its port was not found)
	BTP   *nn  `json:"btp"`
	Valid bool `json:"valid"`
}

type obsRule struct {
	Route string   `json:"route"`
	Idx   int      `json:"idx"`
	Refs  []obsRef `json:"refs"`
}

type obsRoute struct {
	Route    string `json:"route"`
	Mismatch int    `json:"mismatch"` // number of "Backend TLS policies do not match" conditions
}

type obsBTP struct {
	NS      string `json:"ns"`
	Name    string `json:"name"`
	Valid   bool   `json:"valid"`
	Ignored bool   `json:"ignored"`
	CA      string `json:"ca"` // CaCertRef.Name
}

type obsKeyPair struct {
	ID   string `json:"id"`
	Cert string `json:"cert"`
	Key  string `json:"key"`
}

type obsServer struct {
	Host string  `json:"host"`
	Port int     `json:"port"`
	Def  bool    `json:"def"`
	KP   *string `json:"kp"`
}

type obsVerify struct {
	Bundle string `json:"bundle"`
	Host   string `json:"host"`
	Root   string `json:"root"`
}

type obsBackend struct {
	Up     string     `json:"up"`
	Valid  bool       `json:"valid"`
	Weight int        `json:"weight"`
	Verify *obsVerify `json:"verify"`
}

type obsGroup struct {
	Name     string       `json:"name"`
	Backends []obsBackend `json:"backends"`
}

type obsBundle struct {
	ID   string `json:"id"`
	Data string `json:"data"`
}

type obsFile struct {
	Path    string `json:"path"`
	Type    int    `json:"type"`
	Content string `json:"content"`
}

type observation struct {
	Panic     string        `json:"panic,omitempty"`
	NoConf    bool          `json:"noconf"`
	Listeners []obsListener `json:"listeners"`
	Rules     []obsRule     `json:"rules"`
	Routes    []obsRoute    `json:"routes"`
	BTPs      []obsBTP      `json:"btps"`
	KeyPairs  []obsKeyPair  `json:"keyPairs"`
	Servers   []obsServer   `json:"servers"`
	Groups    []obsGroup    `json:"groups"`
	Bundles   []obsBundle   `json:"bundles"`
	Files     []obsFile     `json:"files"`
}

type line struct {
	ID   int            `json:"id"`
	Kind string         `json:"kind"`
	Name string         `json:"name,omitempty"`
	Tags map[string]int `json:"tags,omitempty"`
	In   input          `json:"in"`
	Obs  observation    `json:"obs"`
}

const mismatchMsg = "Backend TLS policies do not match for all backends"

func caOK(data []byte) bool {
	// an independent reading of "ca.crt holds one CERTIFICATE block that parses", plain or base64
	d := data
	if dec, err := base64.StdEncoding.DecodeString(string(data)); err == nil {
		d = dec
	}
	b, _ := pem.Decode(d)
	if b == nil || b.Type != "CERTIFICATE" {
		return false
	}
	_, err := x509.ParseCertificate(b.Bytes)
	return err == nil
}

func buildInput(objs []client.Object, gwKey *nn) input {
	in := input{GW: gwKey}
	for _, o := range objs {
		switch x := o.(type) {
		case *gatewayv1.Gateway:
			if gwKey == nil || x.Namespace != gwKey.NS || x.Name != gwKey.Name {
				continue
			}
			for _, l := range x.Spec.Listeners {
				il := inListener{Name: string(l.Name), Port: int(l.Port), Proto: string(l.Protocol)}
				if l.Hostname != nil {
					il.Host = string(*l.Hostname)
				}
				if l.TLS != nil {
					il.HasTLS = true
					if l.TLS.Mode != nil {
						il.Mode = string(*l.TLS.Mode)
					}
					il.NRefs = len(l.TLS.CertificateRefs)
					il.NOpts = len(l.TLS.Options)
					if il.NRefs > 0 {
						cr := l.TLS.CertificateRefs[0]
						if cr.Kind != nil {
							il.RefKind = string(*cr.Kind)
						}
						if cr.Group != nil {
							il.RefGroup = string(*cr.Group)
						}
						il.RefNS = x.Namespace
						if cr.Namespace != nil {
							il.RefNS = string(*cr.Namespace)
						}
						il.RefName = string(cr.Name)
					}
				}
				in.Listeners = append(in.Listeners, il)
			}
		case *apiv1.Secret:
			_, err := tls.X509KeyPair(x.Data[apiv1.TLSCertKey], x.Data[apiv1.TLSPrivateKeyKey])
			in.Secrets = append(in.Secrets, inSecret{NS: x.Namespace, Name: x.Name, Type: string(x.Type),
				Cert: string(x.Data[apiv1.TLSCertKey]), Key: string(x.Data[apiv1.TLSPrivateKeyKey]), PairOK: err == nil})
		case *v1beta1.ReferenceGrant:
			g := inGrant{NS: x.Namespace}
			for _, f := range x.Spec.From {
				g.From = append(g.From, inGrantEnd{Group: string(f.Group), Kind: string(f.Kind), NS: string(f.Namespace)})
			}
			for _, t := range x.Spec.To {
				e := inGrantEnd{Group: string(t.Group), Kind: string(t.Kind)}
				if t.Name != nil {
					e.Name = string(*t.Name)
				}
				g.To = append(g.To, e)
			}
			in.Grants = append(in.Grants, g)
		case *apiv1.Service:
			s := inService{NS: x.Namespace, Name: x.Name}
			for _, sp := range x.Spec.Ports {
				s.Ports = append(s.Ports, int(sp.Port))
			}
			in.Services = append(in.Services, s)
		case *apiv1.ConfigMap:
			cm := inConfigMap{NS: x.Namespace, Name: x.Name, CAOK: true}
			var ca []byte
			if v, ok := x.Data["ca.crt"]; ok {
				ca = []byte(v)
				cm.CAOK = cm.CAOK && caOK(ca)
			}
			if v, ok := x.BinaryData["ca.crt"]; ok {
				ca = v
				cm.CAOK = caOK(v) // the binaryData entry decides when both are present
			}
			cm.HasCA = len(ca) > 0
			if dec, err := base64.StdEncoding.DecodeString(string(ca)); err == nil && len(ca) > 0 {
				ca = dec
			}
			cm.CA = string(ca)
			in.CMs = append(in.CMs, cm)
		case *v1alpha3.BackendTLSPolicy:
			b := inBTP{NS: x.Namespace, Name: x.Name, TS: x.CreationTimestamp.Unix(), Host: string(x.Spec.Validation.Hostname)}
			for _, t := range x.Spec.TargetRefs {
				b.Targets = append(b.Targets, string(t.Name))
			}
			h := b.Host
			if strings.HasPrefix(h, "*.") {
				b.HostOK = len(validation.IsWildcardDNS1123Subdomain(h)) == 0
			} else {
				b.HostOK = h != "" && len(validation.IsDNS1123Subdomain(h)) == 0
			}
			for _, r := range x.Spec.Validation.CACertificateRefs {
				b.Refs = append(b.Refs, inRef{Group: string(r.Group), Kind: string(r.Kind), Name: string(r.Name)})
			}
			if x.Spec.Validation.WellKnownCACertificates != nil {
				b.WK = ptr(string(*x.Spec.Validation.WellKnownCACertificates))
			}
			foreign := 0
			for _, a := range x.Status.Ancestors {
				if string(a.ControllerName) != p.DefaultController {
					foreign++
				} else {
					foreign = -1000
				}
			}
			b.Full = foreign >= 16
			in.BTPs = append(in.BTPs, b)
		}
	}
	return in
}

func secretReason(r string) bool { return r == "InvalidCertificateRef" || r == "RefNotPermitted" }

func routeKeyString(k graph.RouteKey) string {
	return fmt.Sprintf("%s/%s/%s", k.RouteType, k.NamespacedName.Namespace, k.NamespacedName.Name)
}

func observe(out p.Output) observation {
	var ob observation
	if out.Panic != "" {
		ob.Panic = p.PanicSite(out.Panic)
		return ob
	}
	gr := out.Graph
	if gr == nil || gr.Gateway == nil || out.Conf == nil {
		ob.NoConf = true
		return ob
	}
	for _, l := range gr.Gateway.Listeners {
		ol := obsListener{Name: l.Name, Valid: l.Valid, NRoutes: len(l.Routes)}
		if l.ResolvedSecret != nil {
			ol.Resolved = &nn{l.ResolvedSecret.Namespace, l.ResolvedSecret.Name}
		}
		for _, c := range l.Conditions {
			if c.Type != "Programmed" && !secretReason(c.Reason) {
				ol.OtherInvalid = true
			}
		}
		var keys []graph.RouteKey
		for k := range l.Routes {
			keys = append(keys, k)
		}
		sort.Slice(keys, func(i, j int) bool { return routeKeyString(keys[i]) < routeKeyString(keys[j]) })
		for _, k := range keys {
			r := l.Routes[k]
			if !r.Valid {
				continue
			}
			var hs []string
			for _, h := range r.Spec.Hostnames {
				hs = append(hs, string(h))
			}
			var acc []string
			for _, pr := range r.ParentRefs {
				if pr.Attachment == nil {
					continue
				}
				if v, ok := pr.Attachment.AcceptedHostnames[l.Name]; ok {
					acc = v
					break
				}
			}
			ol.RouteHosts = append(ol.RouteHosts, append([]string{}, hs...))
			ol.Accepted = append(ol.Accepted, append([]string{}, acc...))
		}
		ob.Listeners = append(ob.Listeners, ol)
	}
	var rkeys []graph.RouteKey
	for k := range gr.Routes {
		rkeys = append(rkeys, k)
	}
	sort.Slice(rkeys, func(i, j int) bool { return routeKeyString(rkeys[i]) < routeKeyString(rkeys[j]) })
	for _, k := range rkeys {
		r := gr.Routes[k]
		or := obsRoute{Route: routeKeyString(k)}
		for _, c := range r.Conditions {
			if c.Message == mismatchMsg {
				or.Mismatch++
			}
		}
		ob.Routes = append(ob.Routes, or)
		for i, rule := range r.Spec.Rules {
			if len(rule.BackendRefs) == 0 {
				continue
			}
			ru := obsRule{Route: or.Route, Idx: i}
			for _, b := range rule.BackendRefs {
				ref := obsRef{Valid: b.Valid, Port: int(b.ServicePort.Port)}
				if b.SvcNsName.Name != "" {
					ref.Svc = &nn{b.SvcNsName.Namespace, b.SvcNsName.Name}
				}
				if b.BackendTLSPolicy != nil {
					ref.BTP = &nn{b.BackendTLSPolicy.Source.Namespace, b.BackendTLSPolicy.Source.Name}
				}
				ru.Refs = append(ru.Refs, ref)
			}
			ob.Rules = append(ob.Rules, ru)
		}
	}
	for k, b := range gr.BackendTLSPolicies {
		ob.BTPs = append(ob.BTPs, obsBTP{NS: k.Namespace, Name: k.Name, Valid: b.Valid, Ignored: b.Ignored, CA: b.CaCertRef.Name})
	}
	sort.Slice(ob.BTPs, func(i, j int) bool { return ob.BTPs[i].NS+"/"+ob.BTPs[i].Name < ob.BTPs[j].NS+"/"+ob.BTPs[j].Name })

	conf := out.Conf
	for id, kp := range conf.SSLKeyPairs {
		ob.KeyPairs = append(ob.KeyPairs, obsKeyPair{ID: string(id), Cert: string(kp.Cert), Key: string(kp.Key)})
	}
	sort.Slice(ob.KeyPairs, func(i, j int) bool { return ob.KeyPairs[i].ID < ob.KeyPairs[j].ID })
	for _, s := range conf.SSLServers {
		os := obsServer{Host: s.Hostname, Port: int(s.Port), Def: s.IsDefault}
		if s.SSL != nil {
			os.KP = ptr(string(s.SSL.KeyPairID))
		}
		ob.Servers = append(ob.Servers, os)
	}
	for _, g := range conf.BackendGroups {
		og := obsGroup{Name: g.Name()}
		for _, b := range g.Backends {
			ob2 := obsBackend{Up: b.UpstreamName, Valid: b.Valid, Weight: int(b.Weight)}
			if b.VerifyTLS != nil {
				ob2.Verify = &obsVerify{Bundle: string(b.VerifyTLS.CertBundleID), Host: b.VerifyTLS.Hostname, Root: b.VerifyTLS.RootCAPath}
			}
			og.Backends = append(og.Backends, ob2)
		}
		ob.Groups = append(ob.Groups, og)
	}
	sort.Slice(ob.Groups, func(i, j int) bool { return ob.Groups[i].Name < ob.Groups[j].Name })
	for id, b := range conf.CertBundles {
		ob.Bundles = append(ob.Bundles, obsBundle{ID: string(id), Data: string(b)})
	}
	sort.Slice(ob.Bundles, func(i, j int) bool { return ob.Bundles[i].ID < ob.Bundles[j].ID })
	for _, f := range p.SortedFiles(out.Files) {
		if f.Path == "/etc/nginx/conf.d/http.conf" || strings.HasPrefix(f.Path, "/etc/nginx/secrets/") {
			ob.Files = append(ob.Files, obsFile{Path: f.Path, Type: int(f.Type), Content: string(f.Content)})
		}
	}
	return ob
}

// RunCase runs the real pipeline on one case.
func RunCase(id int, c *Case) line { return RunCaseRegen(id, c, 0)[0] }

// RunCaseRegen runs the real pipeline on one case; when the configuration has at least two SSL key pairs the files
// are GENERATED AGAIN `regen` times from the same dataplane.Configuration (the generator ranges over the key-pair
// map, so the order in which the files are written differs between generations) and every generation that differs
// in a secrets file from the first one is returned as a further line (kind "<kind>+regen").
func RunCaseRegen(id int, c *Case, regen int) []line {
	ctl, out := p.RunFresh(c.Objs, c.Opts, nil)
	var gwKey *nn
	if out.Graph != nil && out.Graph.Gateway != nil {
		gwKey = &nn{out.Graph.Gateway.Source.Namespace, out.Graph.Gateway.Source.Name}
	}
	first := line{ID: id, Kind: c.Kind, Name: c.Name, Tags: c.Tags, In: buildInput(c.Objs, gwKey), Obs: observe(out)}
	lines := []line{first}
	if out.Panic != "" || out.Conf == nil || len(out.Conf.SSLKeyPairs) < 2 {
		return lines
	}
	secretsOf := func(fs []obsFile) string {
		var b strings.Builder
		for _, f := range fs {
			if strings.HasPrefix(f.Path, "/etc/nginx/secrets/") {
				b.WriteString(f.Path + "\x00" + f.Content + "\x00")
			}
		}
		return b.String()
	}
	seen := map[string]bool{secretsOf(first.Obs.Files): true}
	for i := 0; i < regen; i++ {
		var files []obsFile
		func() {
			defer func() { _ = recover() }()
			for _, f := range p.SortedFiles(ctl.Gen.Generate(*out.Conf)) {
				if f.Path == "/etc/nginx/conf.d/http.conf" || strings.HasPrefix(f.Path, "/etc/nginx/secrets/") {
					files = append(files, obsFile{Path: f.Path, Type: int(f.Type), Content: string(f.Content)})
				}
			}
		}()
		if k := secretsOf(files); files != nil && !seen[k] {
			seen[k] = true
			l := first
			l.Kind = c.Kind + "+regen"
			l.Obs.Files = files
			lines = append(lines, l)
		}
	}
	return lines
}

func Run(args []string) int {
	fs := flag.NewFlagSet("c16", flag.ContinueOnError)
	seed := fs.Uint64("seed", 1, "seed")
	n := fs.Int("n", 100, "number of generated cases")
	mode := fs.String("mode", "pipeline", "pipeline | loop | frag")
	only := fs.Int("only", -1, "mode frag: emit only the case with this id (with its objects)")
	replay := fs.String("replay", "", "file with a JSON array of objects (pipeline.EncodeObjects) to run as a single case")
	dump := fs.Int("dump", -1, "print the objects of case <id> (EncodeObjects) instead of running")
	if err := fs.Parse(args); err != nil {
		return 2
	}
	w := bufio.NewWriterSize(os.Stdout, 1<<20)
	defer w.Flush()
	enc := json.NewEncoder(w)
	enc.SetEscapeHTML(false)
	if *mode == "loop" {
		return runLoop(rng.New(*seed), *n, w)
	}
	if *mode == "frag" {
		return runFrag(rng.New(*seed), *n, *only, w)
	}
	if *replay != "" {
		data, err := os.ReadFile(*replay)
		if err != nil {
			fmt.Fprintln(os.Stderr, err)
			return 2
		}
		objs, err := p.DecodeObjects(data)
		if err != nil {
			fmt.Fprintln(os.Stderr, err)
			return 2
		}
		_ = enc.Encode(RunCase(0, &Case{Kind: "replay", Objs: objs, Opts: p.DefaultOptions()}))
		return 0
	}
	r := rng.New(*seed)
	id := 0
	emit := func(c *Case) {
		if *dump >= 0 {
			if id == *dump {
				w.Write(p.EncodeObjects(c.Objs))
				w.WriteByte('\n')
			}
			id++
			return
		}
		for _, l := range RunCaseRegen(id, c, 5) {
			_ = enc.Encode(l)
		}
		w.Flush()
		id++
	}
	for _, c := range Fixed() {
		emit(c)
	}
	for i := 0; i < *n; i++ {
		cr := r.Fork()
		if i%4 == 3 {
			emit(GenScen(cr))
		} else {
			emit(GenTLS(cr))
		}
	}
	return 0
}
