package c14

import (
	"fmt"

	apiv1 "k8s.io/api/core/v1"
	"sigs.k8s.io/controller-runtime/pkg/client"
	gatewayv1 "sigs.k8s.io/gateway-api/apis/v1"
	"sigs.k8s.io/gateway-api/apis/v1alpha2"
	"sigs.k8s.io/gateway-api/apis/v1alpha3"

	ngfAPI "github.com/nginx/nginx-gateway-fabric/apis/v1alpha1"
	p "github.com/nginx/nginx-gateway-fabric/verifharness/pipeline"
)

// Corpus returns the hand-minimised regression scenarios written to /verif/corpus/C14 (run first by the
// check): one per known finding and two clean competition scenarios.
func Corpus() map[string][]client.Object {
	base := func(ls ...p.Listener) []client.Object {
		o := []client.Object{
			p.Namespace("default", nil), p.Namespace("team-a", nil), p.Namespace("team-b", nil),
			p.GatewayClass(p.DefaultClass, p.DefaultController, 0),
			p.Gateway("default", "gw", p.DefaultClass, 1, ls...),
		}
		for _, ns := range []string{"default", "team-a", "team-b"} {
			for k := 0; k < 3; k++ {
				n := fmt.Sprintf("svc%d", k)
				o = append(o, p.Service(ns, n, 80), p.EndpointSlice(ns, n, "s0", []int32{80}, fmt.Sprintf("10.0.%d.1", k)))
			}
		}
		return o
	}
	http80 := p.Listener{Name: "http", Port: 80, Protocol: "HTTP", FromNS: "All"}
	http8080 := p.Listener{Name: "http2", Port: 8080, Protocol: "HTTP", FromNS: "All"}
	pr := func(section string) []gatewayv1.ParentReference {
		return []gatewayv1.ParentReference{p.ParentRef("default", "gw", section)}
	}
	usp := func(name string, age int, zone, conns bool, targets ...string) *ngfAPI.UpstreamSettingsPolicy {
		up := &ngfAPI.UpstreamSettingsPolicy{ObjectMeta: p.Meta("default", name, age)}
		if zone {
			up.Spec.ZoneSize = ptr(ngfAPI.Size("1m"))
		}
		if conns {
			up.Spec.KeepAlive = &ngfAPI.UpstreamKeepAlive{Connections: ptr(int32(8))}
		}
		for _, t := range targets {
			up.Spec.TargetRefs = append(up.Spec.TargetRefs, v1alpha2.LocalPolicyTargetReference{Group: "core", Kind: "Service", Name: gatewayv1.ObjectName(t)})
		}
		return up
	}
	grpcRule := func(b ...p.Backend) gatewayv1.GRPCRouteRule {
		r := gatewayv1.GRPCRouteRule{Matches: []gatewayv1.GRPCRouteMatch{{Method: &gatewayv1.GRPCMethodMatch{
			Type: ptr(gatewayv1.GRPCMethodMatchExact), Service: ptr("svc.A"), Method: ptr("Do")}}}}
		for _, x := range b {
			r.BackendRefs = append(r.BackendRefs, gatewayv1.GRPCBackendRef{BackendRef: p.BackendRef(x)})
		}
		return r
	}
	btp := func(ns, name string, age int, host string, targets ...string) *v1alpha3.BackendTLSPolicy {
		b := &v1alpha3.BackendTLSPolicy{ObjectMeta: p.Meta(ns, name, age)}
		for _, t := range targets {
			b.Spec.TargetRefs = append(b.Spec.TargetRefs, v1alpha2.LocalPolicyTargetReferenceWithSectionName{
				LocalPolicyTargetReference: v1alpha2.LocalPolicyTargetReference{Kind: "Service", Name: gatewayv1.ObjectName(t)}})
		}
		b.Spec.Validation.Hostname = gatewayv1.PreciseHostname(host)
		b.Spec.Validation.WellKnownCACertificates = ptr(v1alpha3.WellKnownCACertificatesSystem)
		return b
	}
	out := map[string][]client.Object{}

	// 1. policy chain (known finding policy-conflict-order-dependent)
	out["01-policy-chain"] = append(base(http80),
		p.HTTPRoute("default", "chain", 2, pr(""), nil, p.HTTPRule([]gatewayv1.HTTPRouteMatch{p.PathMatch("PathPrefix", "/")},
			p.Backend{Ref: "svc0", Port: 80, Weight: 1}, p.Backend{Ref: "svc1", Port: 80, Weight: 1})),
		usp("a", 1, true, false, "svc0"), usp("b", 2, true, true, "svc0", "svc1"), usp("c", 3, false, true, "svc1"))

	// 2. HTTPRoute and GRPCRoute with one name on different ports (known finding same-name-http-grpc-backend-group)
	out["02-twin-routes"] = append(base(http80, http8080),
		p.HTTPRoute("default", "twin", 2, pr("http"), nil, p.HTTPRule([]gatewayv1.HTTPRouteMatch{p.PathMatch("PathPrefix", "/")},
			p.Backend{Ref: "svc0", Port: 80, Weight: 1}, p.Backend{Ref: "svc1", Port: 80, Weight: 3})),
		p.GRPCRoute("default", "twin", 2, pr("http2"), nil,
			grpcRule(p.Backend{Ref: "svc2", Port: 80, Weight: 1}, p.Backend{Ref: "svc1", Port: 80, Weight: 1})))

	// 3. HTTPRoute and GRPCRoute on one host and path (known finding hostrule-grpc-last-writer)
	out["03-http-grpc-same-path"] = append(base(http80),
		p.HTTPRoute("default", "h", 2, pr(""), nil, p.HTTPRule([]gatewayv1.HTTPRouteMatch{p.PathMatch("Exact", "/svc.A/Do")},
			p.Backend{Ref: "svc0", Port: 80, Weight: 1})),
		p.GRPCRoute("default", "g", 3, pr(""), nil, grpcRule(p.Backend{Ref: "svc1", Port: 80, Weight: 1})))

	// 4. two BackendTLSPolicies on one Service (known finding btp-loser-not-told)
	out["04-two-btps"] = append(base(http80),
		p.HTTPRoute("default", "r", 2, pr(""), nil, p.HTTPRule([]gatewayv1.HTTPRouteMatch{p.PathMatch("PathPrefix", "/")},
			p.Backend{Ref: "svc0", Port: 80, Weight: 1})),
		btp("default", "btp-b", 1, "b.example.com", "svc0"), btp("default", "btp-a", 1, "a.example.com", "svc0"),
		btp("default", "btp-0", 2, "z.example.com", "svc0"))

	// 5. TLSRoute loser told NoMatchingListenerHostname (known finding tlsroute-loser-wrong-reason)
	out["05-tls-loser-reason"] = append(base(
		p.Listener{Name: "tls3", Port: 9443, Protocol: "TLS", FromNS: "All"},
		p.Listener{Name: "tls2", Port: 8443, Protocol: "TLS", Hostname: "app.example.com", FromNS: "All"}),
		p.TLSRoute("team-a", "t-a", 2, pr(""), []string{"a.example.com"}, p.Backend{Ref: "svc0", Port: 80, Weight: -1}),
		p.TLSRoute("team-b", "t", 2, pr(""), []string{"a.example.com"}, p.Backend{Ref: "svc1", Port: 80, Weight: -1}))

	// 6. clean: five Gateways with age and name ties, routes with identical matches across namespaces,
	//    four TLSRoutes on overlapping hostnames, three ClientSettingsPolicies on the Gateway
	clean := base(http80,
		p.Listener{Name: "https", Port: 443, Protocol: "HTTPS", Hostname: "cafe.example.com", CertRefs: []string{"tls-a"}, FromNS: "All"},
		p.Listener{Name: "tls", Port: 8443, Protocol: "TLS", Hostname: "*.example.com", FromNS: "All"},
		p.Listener{Name: "tls2", Port: 8443, Protocol: "TLS", Hostname: "app.example.com", FromNS: "All"})
	clean = append(clean, p.TLSSecret("default", "tls-a", 0),
		p.Gateway("team-a", "gw", p.DefaultClass, 1, http80), p.Gateway("default", "gw-a", p.DefaultClass, 1, http80),
		p.Gateway("team-b", "aaa", p.DefaultClass, 2, http80), p.Gateway("default", "a-other", "other", 0, http80))
	for i, ns := range []string{"team-b", "default", "team-a"} {
		clean = append(clean, p.HTTPRoute(ns, "r", 2, pr(""), []string{"cafe.example.com"},
			p.HTTPRule([]gatewayv1.HTTPRouteMatch{p.PathMatch("PathPrefix", "/coffee"), p.PathMatch("Exact", "/coffee")},
				p.Backend{Ref: fmt.Sprintf("svc%d", i), Port: 80, Weight: 1}),
			p.HTTPRule([]gatewayv1.HTTPRouteMatch{p.PathMatch("PathPrefix", "/coffee")}, p.Backend{Ref: "svc2", Port: 80, Weight: 1})))
	}
	hm := p.PathMatch("PathPrefix", "/coffee")
	hm.Headers = []gatewayv1.HTTPHeaderMatch{{Type: ptr(gatewayv1.HeaderMatchExact), Name: "x", Value: "1"}}
	clean = append(clean, p.HTTPRoute("team-b", "z-young", 3, pr(""), []string{"cafe.example.com"},
		p.HTTPRule([]gatewayv1.HTTPRouteMatch{hm}, p.Backend{Ref: "svc0", Port: 80, Weight: 1})))
	clean = append(clean,
		p.TLSRoute("team-b", "t", 2, pr(""), []string{"app.example.com", "a.example.com"}, p.Backend{Ref: "svc0", Port: 80, Weight: -1}),
		p.TLSRoute("team-a", "t", 2, pr(""), []string{"app.example.com"}, p.Backend{Ref: "svc1", Port: 80, Weight: -1}),
		p.TLSRoute("default", "t-z", 1, pr("tls"), []string{"a.example.com"}, p.Backend{Ref: "svc2", Port: 80, Weight: -1}),
		p.TLSRoute("default", "t-y", 3, pr("tls2"), []string{"app.example.com"}, p.Backend{Ref: "svc2", Port: 80, Weight: -1}))
	for i, nm := range []string{"csp-b", "csp-a", "csp-c"} {
		csp := &ngfAPI.ClientSettingsPolicy{ObjectMeta: p.Meta("default", nm, 2+i/2)}
		csp.Spec.TargetRef = v1alpha2.LocalPolicyTargetReference{Group: "gateway.networking.k8s.io", Kind: "Gateway", Name: "gw"}
		csp.Spec.Body = &ngfAPI.ClientBody{MaxSize: ptr(ngfAPI.Size("10m"))}
		clean = append(clean, csp)
	}
	out["06-clean-competition"] = clean

	// 7. clean: listeners on one port with incompatible protocols and overlapping HTTPS/TLS hostnames
	out["07-clean-listeners"] = append(base(http80,
		p.Listener{Name: "https", Port: 443, Protocol: "HTTPS", Hostname: "cafe.example.com", CertRefs: []string{"tls-a"}, FromNS: "All"},
		p.Listener{Name: "tls-overlap", Port: 443, Protocol: "TLS", Hostname: "*.example.com", FromNS: "All"},
		p.Listener{Name: "tls-free", Port: 443, Protocol: "TLS", Hostname: "other.org", FromNS: "All"},
		p.Listener{Name: "http-clash", Port: 8443, Protocol: "HTTP", FromNS: "All"},
		p.Listener{Name: "tls-clash", Port: 8443, Protocol: "TLS", Hostname: "x.example.com", FromNS: "All"},
		p.Listener{Name: "https-late", Port: 8443, Protocol: "HTTPS", Hostname: "y.example.com", CertRefs: []string{"tls-a"}, FromNS: "All"}),
		p.TLSSecret("default", "tls-a", 0),
		p.HTTPRoute("default", "r", 2, pr(""), nil, p.HTTPRule([]gatewayv1.HTTPRouteMatch{p.PathMatch("PathPrefix", "/")},
			p.Backend{Ref: "svc0", Port: 80, Weight: 1})))

	// 8. TargetConflict of a policy on a route bound through several listeners (known finding
	//    policy-target-overlap-order-dependent)
	csp := &ngfAPI.ClientSettingsPolicy{ObjectMeta: p.Meta("team-a", "csp", 1)}
	csp.Spec.TargetRef = v1alpha2.LocalPolicyTargetReference{Group: "gateway.networking.k8s.io", Kind: "HTTPRoute", Name: "app"}
	csp.Spec.Body = &ngfAPI.ClientBody{Timeout: ptr(ngfAPI.Duration("30s"))}
	out["08-policy-target-overlap"] = append(base(
		p.Listener{Name: "http2", Port: 8080, Protocol: "HTTP", Hostname: "cafe.example.com", FromNS: "All"},
		p.Listener{Name: "http3", Port: 8082, Protocol: "HTTP", Hostname: "cafe.example.com", FromNS: "All"},
		http80),
		p.HTTPRoute("team-a", "app", 4, pr(""), []string{"foo.example.com", "cafe.example.com"},
			p.HTTPRule([]gatewayv1.HTTPRouteMatch{p.PathMatch("Exact", "/coffee")}, p.Backend{Ref: "svc0", Port: 80, Weight: 1})),
		p.HTTPRoute("team-a", "route-a", 1, pr("http"), []string{"foo.example.com", "cafe.example.com"},
			p.HTTPRule([]gatewayv1.HTTPRouteMatch{p.PathMatch("PathPrefix", "/coffee")}, p.Backend{Ref: "svc1", Port: 80, Weight: 1})),
		csp)

	// 9. clean: four policies of one kind on one target with interleaved conflicts (A-C on body.maxSize, B-D on
	//    keepAlive.requests; A<B<C<D): C and D lose, D must not hide behind the already-conflicted C. Same for
	//    UpstreamSettingsPolicies on svc0 (zoneSize / keepAlive.connections).
	inter := append(base(http80),
		p.HTTPRoute("default", "r", 2, pr(""), nil, p.HTTPRule([]gatewayv1.HTTPRouteMatch{p.PathMatch("PathPrefix", "/")},
			p.Backend{Ref: "svc0", Port: 80, Weight: 1})))
	for i, nm := range []string{"a", "b", "c", "d", "e"} {
		c := &ngfAPI.ClientSettingsPolicy{ObjectMeta: p.Meta("default", "csp-"+nm, 1+i)}
		c.Spec.TargetRef = v1alpha2.LocalPolicyTargetReference{Group: "gateway.networking.k8s.io", Kind: "Gateway", Name: "gw"}
		switch i % 2 {
		case 0:
			c.Spec.Body = &ngfAPI.ClientBody{MaxSize: ptr(ngfAPI.Size(fmt.Sprintf("%dm", 10+i)))}
		default:
			c.Spec.KeepAlive = &ngfAPI.ClientKeepAlive{Requests: ptr(int32(100 + i))}
		}
		inter = append(inter, c)
	}
	inter = append(inter, usp("u-a", 1, true, false, "svc0"), usp("u-b", 2, false, true, "svc0"),
		usp("u-c", 3, true, false, "svc0"), usp("u-d", 4, false, true, "svc0"))
	out["09-clean-interleaved-policies"] = inter

	// 10. clean: two routes with eight equal-priority match rules each on one host and path (stability beyond
	//     insertion-sort sizes: Go's sorts are only accidentally stable up to 12 elements)
	mk := func(nm string) *gatewayv1.HTTPRoute {
		var many []gatewayv1.HTTPRouteRule
		for j := 0; j < 8; j++ {
			m := p.PathMatch("PathPrefix", "/many")
			m.Headers = []gatewayv1.HTTPHeaderMatch{{Type: ptr(gatewayv1.HeaderMatchExact), Name: "x-variant", Value: fmt.Sprintf("%s-%d", nm, j)}}
			many = append(many, p.HTTPRule([]gatewayv1.HTTPRouteMatch{m}, p.Backend{Ref: fmt.Sprintf("svc%d", j%3), Port: 80, Weight: 1}))
		}
		return p.HTTPRoute("default", nm, 2, pr(""), nil, many...)
	}
	out["10-clean-many-equal-rules"] = append(base(http80), mk("many-a"), mk("many-b"))
	return out
}

var _ = apiv1.ProtocolTCP
