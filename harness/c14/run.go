package c14

import (
	"bufio"
	"encoding/json"
	"fmt"
	"io"
	"sort"
	"strings"

	apiv1 "k8s.io/api/core/v1"
	metav1 "k8s.io/apimachinery/pkg/apis/meta/v1"
	"k8s.io/apimachinery/pkg/types"
	"sigs.k8s.io/controller-runtime/pkg/client"
	gatewayv1 "sigs.k8s.io/gateway-api/apis/v1"
	"sigs.k8s.io/gateway-api/apis/v1alpha2"
	"sigs.k8s.io/gateway-api/apis/v1alpha3"

	ngfAPI "github.com/nginx/nginx-gateway-fabric/apis/v1alpha1"
	ngfAPIv2 "github.com/nginx/nginx-gateway-fabric/apis/v1alpha2"
	"github.com/nginx/nginx-gateway-fabric/internal/framework/conditions"
	"github.com/nginx/nginx-gateway-fabric/internal/mode/static/state/dataplane"
	"github.com/nginx/nginx-gateway-fabric/internal/mode/static/state/graph"
	p "github.com/nginx/nginx-gateway-fabric/verifharness/pipeline"
	"github.com/nginx/nginx-gateway-fabric/verifharness/rng"
)

type Config struct {
	Seed     uint64
	N        int
	Reps     int
	PermAll  bool   // additionally: all arrival permutations of the competitors (thorough)
	Families string // "" = default mix, or a digit string like "0" / "1239"
	Corpus   string // replay one scenario: JSON array of objects (file content)
	// stream `pipe` (pipeline.go): in-fragment scenarios of harness/c02 in several arrival orders
	Pipeline bool
	Orders   int // arrival orders per scenario
	Only     int // emit only this scenario (with its objects), -1 = all
}

// Rep is what one build of the scenario produced.
type Rep struct {
	Sections map[string]string
	Out      p.Output
	Status   map[p.Key]client.Object
	Targets  map[p.Key]bool
	Panic    string
}

func ts(o metav1.Object) int64 { return o.GetCreationTimestamp().Unix() }

// oneRep builds the state once. rep 0: generator order, one batch. Otherwise: shuffled arrival, random
// batching, optionally a transient older Gateway that is deleted again. Every rep ends with the same
// no-op event (GatewayClass generation bump) so that the final graph is built from the complete store.
func oneRep(objs []client.Object, opts p.Options, r *rng.R, rep int, plan *Plan) *Rep {
	res := &Rep{Sections: map[string]string{}}
	c := p.NewController(opts)
	var gc *gatewayv1.GatewayClass
	order := append([]client.Object(nil), objs...)
	if plan != nil {
		order = plan.Order
	} else if rep > 0 {
		rng.Shuffle(r, order)
	}
	var out p.Output
	apply := func() bool {
		out = c.Apply(nil)
		if out.Panic != "" {
			res.Panic = out.Panic
			return false
		}
		return true
	}
	nb := 1
	if rep > 0 {
		nb = r.Range(1, 4)
	}
	func() {
		defer func() {
			if rec := recover(); rec != nil {
				res.Panic = fmt.Sprintf("%v", rec)
			}
		}()
		for i, o := range order {
			if g, ok := o.(*gatewayv1.GatewayClass); ok && g.Name == opts.Class {
				gc = g
			}
			c.Upsert(o)
			if plan != nil {
				if plan.ApplyAfter[i] && i+1 < len(order) {
					if !apply() {
						return
					}
				}
				continue
			}
			if nb > 1 && i+1 < len(order) && r.Chance(nb-1, len(order)) {
				if !apply() {
					return
				}
			}
		}
		if !apply() {
			return
		}
		if (rep%3 == 1 && plan == nil) || (plan != nil && plan.Transient) {
			// a transient competitor: older than everything, then deleted
			tr := p.Gateway("default", "aaa-transient", opts.Class, -5, p.Listener{Name: "http", Port: 80, Protocol: "HTTP"})
			c.Upsert(tr)
			if !apply() {
				return
			}
			c.Delete(&gatewayv1.Gateway{}, types.NamespacedName{Namespace: "default", Name: "aaa-transient"})
			if !apply() {
				return
			}
		}
		if gc != nil {
			g2 := gc.DeepCopy()
			g2.Generation = 2
			c.Upsert(g2)
			apply()
		}
	}()
	if res.Panic != "" {
		return res
	}
	res.Out = out
	if out.Graph == nil {
		res.Sections["graph"] = "nil"
		return res
	}
	for k, v := range CanonConf(out.Conf) {
		res.Sections[k] = v
	}
	for k, v := range CanonFiles(out.Files) {
		res.Sections[k] = v
	}
	cur := make([]client.Object, 0, len(objs))
	for _, o := range objs {
		if g, ok := o.(*gatewayv1.GatewayClass); ok && g.Name == opts.Class {
			g2 := g.DeepCopy()
			g2.Generation = 2
			cur = append(cur, g2)
			continue
		}
		cur = append(cur, o)
	}
	var st map[p.Key]client.Object
	var targets []p.Key
	func() {
		defer func() {
			if rec := recover(); rec != nil {
				res.Panic = fmt.Sprintf("status setter: %v", rec)
			}
		}()
		st, _, targets = p.ApplyStatuses(out.Requests, cur)
	}()
	res.Status = st
	res.Targets = map[p.Key]bool{}
	for _, k := range targets {
		res.Targets[k] = true
	}
	for k, o := range st {
		res.Sections["status:"+k.String()] = CanonStatus(o)
	}
	return res
}

// Plan is an explicit arrival order with batch boundaries (used for the exhaustive permutations).
type Plan struct {
	Order      []client.Object
	ApplyAfter []bool
	// Transient: after everything has arrived, an older Gateway of the class appears and is deleted again
	Transient bool
}

// competitorPlans: all arrival permutations of up to five competitors of one site (Gateways of the class,
// else TLSRoutes, else policies); everything else arrives first in one batch, then the competitors one
// event per batch.
func competitorPlans(objs []client.Object, opts p.Options) []*Plan {
	pick := func(f func(o client.Object) bool) []int {
		var idx []int
		for i, o := range objs {
			if f(o) {
				idx = append(idx, i)
			}
		}
		return idx
	}
	comp := pick(func(o client.Object) bool {
		g, ok := o.(*gatewayv1.Gateway)
		return ok && string(g.Spec.GatewayClassName) == opts.Class
	})
	if len(comp) < 2 {
		comp = pick(func(o client.Object) bool { _, ok := o.(*v1alpha2.TLSRoute); return ok })
	}
	if len(comp) < 2 {
		comp = pick(func(o client.Object) bool {
			switch o.(type) {
			case *ngfAPI.ClientSettingsPolicy, *ngfAPIv2.ObservabilityPolicy, *ngfAPI.UpstreamSettingsPolicy, *v1alpha3.BackendTLSPolicy:
				return true
			}
			return false
		})
	}
	if len(comp) > 5 {
		comp = comp[:5]
	}
	if len(comp) < 2 {
		return nil
	}
	isComp := map[int]bool{}
	for _, i := range comp {
		isComp[i] = true
	}
	var base []client.Object
	for i, o := range objs {
		if !isComp[i] {
			base = append(base, o)
		}
	}
	var plans []*Plan
	var rec func(cur []int, rest []int)
	rec = func(cur []int, rest []int) {
		if len(rest) == 0 {
			pl := &Plan{Order: append([]client.Object(nil), base...)}
			pl.ApplyAfter = make([]bool, len(base), len(objs))
			if len(base) > 0 {
				pl.ApplyAfter[len(base)-1] = true
			}
			for _, i := range cur {
				pl.Order = append(pl.Order, objs[i])
				pl.ApplyAfter = append(pl.ApplyAfter, true)
			}
			plans = append(plans, pl)
			return
		}
		for k := range rest {
			nr := append(append([]int(nil), rest[:k]...), rest[k+1:]...)
			rec(append(append([]int(nil), cur...), rest[k]), nr)
		}
	}
	rec(nil, comp)
	return plans
}

// ------------------------------------------------------------------ site records (flat JSON for Lean)

type metaJ struct {
	TS   int64  `json:"ts"`
	NS   string `json:"ns"`
	Name string `json:"name"`
}

func metaOf(o metav1.Object) metaJ { return metaJ{ts(o), o.GetNamespace(), o.GetName()} }

func condHas(conds []metav1.Condition, typ, status, reason string) bool {
	for _, c := range conds {
		if c.Type == typ && string(c.Status) == status && c.Reason == reason {
			return true
		}
	}
	return false
}

func emit(w *bufio.Writer, v any) {
	b, err := json.Marshal(v)
	if err != nil {
		panic(err)
	}
	w.Write(b)
	w.WriteByte('\n')
}

type gwSite struct {
	Site    string   `json:"site"`
	Sc      int      `json:"sc"`
	Class   string   `json:"class"`
	Gws     []gwJ    `json:"gws"`
	Winner  string   `json:"winner"` // "ns/name" or ""
	Ignored []string `json:"ignored"`
	Told    []string `json:"told"` // ignored gateways whose status carries Accepted=False/GatewayConflict
}
type gwJ struct {
	metaJ
	Cls string `json:"cls"`
}

func siteGateways(sc int, objs []client.Object, opts p.Options, rep *Rep) gwSite {
	s := gwSite{Site: "gw", Sc: sc, Class: opts.Class, Ignored: []string{}, Told: []string{}, Gws: []gwJ{}}
	for _, o := range objs {
		if g, ok := o.(*gatewayv1.Gateway); ok {
			s.Gws = append(s.Gws, gwJ{metaOf(g), string(g.Spec.GatewayClassName)})
		}
	}
	g := rep.Out.Graph
	if g.Gateway != nil {
		s.Winner = g.Gateway.Source.Namespace + "/" + g.Gateway.Source.Name
	}
	for nn := range g.IgnoredGateways {
		s.Ignored = append(s.Ignored, nn.Namespace+"/"+nn.Name)
		if o, ok := rep.Status[p.Key{Kind: "Gateway", NN: nn}]; ok {
			gw := o.(*gatewayv1.Gateway)
			if condHas(gw.Status.Conditions, "Accepted", "False", "GatewayConflict") {
				s.Told = append(s.Told, nn.Namespace+"/"+nn.Name)
			}
		}
	}
	sort.Strings(s.Ignored)
	sort.Strings(s.Told)
	return s
}

type mrJ struct {
	M    bool   `json:"m"`
	H    int    `json:"h"`
	Q    int    `json:"q"`
	Src  metaJ  `json:"src"`
	Kind string `json:"kind"`
	Rule int    `json:"rule"`
	Tag  int    `json:"tag"` // index in the observed order
}
type mrSite struct {
	Site   string `json:"site"`
	Sc     int    `json:"sc"`
	Where  string `json:"where"`
	Obs    []mrJ  `json:"obs"`   // observed order
	Input  []mrJ  `json:"input"` // a shuffle that preserves the relative order of the rules of each route
	Mixed  bool   `json:"mixed"` // rules of an HTTPRoute and of a GRPCRoute in one path rule
	GRPC   bool   `json:"grpc"`
	Twin   bool   `json:"twin"` // two different route objects with identical (ts, ns, name)
}

func siteMatchRules(sc int, rep *Rep, r *rng.R) []mrSite {
	var out []mrSite
	g := rep.Out.Graph
	kindOf := map[*metav1.ObjectMeta]string{}
	for _, rt := range g.Routes {
		switch x := rt.Source.(type) {
		case *gatewayv1.HTTPRoute:
			kindOf[&x.ObjectMeta] = "H"
		case *gatewayv1.GRPCRoute:
			kindOf[&x.ObjectMeta] = "G"
		}
	}
	handle := func(proto string, servers []dataplane.VirtualServer) {
		for _, s := range servers {
			for _, pr := range s.PathRules {
				if len(pr.MatchRules) < 2 {
					continue
				}
				site := mrSite{Site: "mr", Sc: sc, Where: fmt.Sprintf("%s:%d/%s%s[%s]", proto, s.Port, s.Hostname, pr.Path, pr.PathType), GRPC: pr.GRPC}
				groups := map[*metav1.ObjectMeta][]mrJ{}
				var keys []*metav1.ObjectMeta
				kinds := map[string]bool{}
				for i, mr := range pr.MatchRules {
					j := mrJ{M: mr.Match.Method != nil, H: len(mr.Match.Headers), Q: len(mr.Match.QueryParams),
						Src: metaOf(mr.Source), Kind: kindOf[mr.Source], Rule: mr.BackendGroup.RuleIdx, Tag: i}
					site.Obs = append(site.Obs, j)
					if _, ok := groups[mr.Source]; !ok {
						keys = append(keys, mr.Source)
					}
					groups[mr.Source] = append(groups[mr.Source], j)
					kinds[j.Kind] = true
				}
				site.Mixed = len(kinds) > 1
				for a := 0; a < len(keys); a++ {
					for b := a + 1; b < len(keys); b++ {
						if metaOf(keys[a]) == metaOf(keys[b]) {
							site.Twin = true
						}
					}
				}
				// random interleaving of the groups, keeping the order inside each group
				rng.Shuffle(r, keys)
				idx := map[*metav1.ObjectMeta]int{}
				remaining := len(pr.MatchRules)
				for remaining > 0 {
					k := keys[r.Intn(len(keys))]
					if idx[k] < len(groups[k]) {
						site.Input = append(site.Input, groups[k][idx[k]])
						idx[k]++
						remaining--
					}
				}
				out = append(out, site)
			}
		}
	}
	handle("http", rep.Out.Conf.HTTPServers)
	handle("ssl", rep.Out.Conf.SSLServers)
	return out
}

type lisJ struct {
	ID         int      `json:"id"`
	Name       string   `json:"name"`
	Port       int      `json:"port"`
	Proto      string   `json:"proto"`
	Host       *string  `json:"host"`
	Entered    bool     `json:"entered"`    // reached the conflict resolver (passed all validators)
	Valid      bool     `json:"valid"`
	Attachable bool     `json:"attachable"`
	TLSKind    bool     `json:"tlsKind"`    // SupportedKinds contains TLSRoute
	AllowNS    []string `json:"allowNs"`    // namespaces allowed by allowedRoutes
	Conflicts  []string `json:"conflicts"`  // ProtocolConflict / HostnameConflict reasons seen in the conditions
	Told       bool     `json:"told"`       // status: Conflicted=True with that reason
}
type lisSite struct {
	Site string `json:"site"`
	Sc   int    `json:"sc"`
	Gw   string `json:"gw"`
	Ls   []lisJ `json:"ls"`
}

var validatorReasons = map[string]bool{"UnsupportedValue": true, "UnsupportedProtocol": true, "PortUnavailable": true,
	"InvalidRouteKinds": true, "Invalid": false}

func siteListeners(sc int, rep *Rep) (lisSite, bool) {
	g := rep.Out.Graph
	s := lisSite{Site: "lis", Sc: sc, Ls: []lisJ{}}
	if g.Gateway == nil || !g.Gateway.Valid {
		return s, false
	}
	s.Gw = g.Gateway.Source.Namespace + "/" + g.Gateway.Source.Name
	var stGw *gatewayv1.Gateway
	if o, ok := rep.Status[p.Key{Kind: "Gateway", NN: client.ObjectKeyFromObject(g.Gateway.Source)}]; ok {
		stGw = o.(*gatewayv1.Gateway)
	}
	for i, l := range g.Gateway.Listeners {
		j := lisJ{ID: i, Name: l.Name, Port: int(l.Source.Port), Proto: string(l.Source.Protocol), Valid: l.Valid,
			Attachable: l.Attachable, Entered: true, Conflicts: []string{}, AllowNS: []string{}}
		if l.Source.Hostname != nil {
			h := string(*l.Source.Hostname)
			j.Host = &h
		}
		seen := map[string]bool{}
		for _, c := range l.Conditions {
			switch c.Reason {
			case "ProtocolConflict", "HostnameConflict":
				if !seen[c.Reason] {
					seen[c.Reason] = true
					j.Conflicts = append(j.Conflicts, c.Reason)
				}
			case "InvalidCertificateRef", "RefNotPermitted", "Invalid":
				// produced after (or by) the resolvers
			default:
				j.Entered = false
			}
		}
		sort.Strings(j.Conflicts)
		for _, k := range l.SupportedKinds {
			if k.Kind == "TLSRoute" {
				j.TLSKind = true
			}
		}
		from := "All" // isRouteNamespaceAllowedByListener: no allowedRoutes.namespaces = no restriction
		if ar := l.Source.AllowedRoutes; ar != nil && ar.Namespaces != nil && ar.Namespaces.From != nil {
			from = string(*ar.Namespaces.From)
		}
		switch from {
		case "All":
			j.AllowNS = append(j.AllowNS, nss...)
		case "Same":
			j.AllowNS = append(j.AllowNS, g.Gateway.Source.Namespace)
		}
		if stGw != nil {
			for _, ls := range stGw.Status.Listeners {
				if string(ls.Name) == l.Name {
					for _, c := range ls.Conditions {
						if c.Type == "Conflicted" && c.Status == "True" {
							j.Told = true
						}
					}
				}
			}
		}
		s.Ls = append(s.Ls, j)
	}
	return s, true
}

type tlsRouteJ struct {
	metaJ
	Hosts   []string   `json:"hosts"`
	Parents []tlsParJ  `json:"parents"`
	Conflict bool      `json:"conflictTold"` // status of some parent: Accepted=False/HostnameConflict
}
type tlsParJ struct {
	Section  string              `json:"section"`
	Eligible bool                `json:"eligible"` // reached tryToAttachL4RouteToListeners
	Failed   string              `json:"failed"`   // reason of the failed condition ("" = none)
	Granted  map[string][]string `json:"granted"`  // listener name -> accepted hostnames
}
type tlsSite struct {
	Site   string      `json:"site"`
	Sc     int         `json:"sc"`
	Ls     []lisJ      `json:"ls"`
	Routes []tlsRouteJ `json:"routes"`
}

func siteTLS(sc int, rep *Rep, ls lisSite) (tlsSite, bool) {
	g := rep.Out.Graph
	s := tlsSite{Site: "tls", Sc: sc, Ls: ls.Ls, Routes: []tlsRouteJ{}}
	if len(g.L4Routes) == 0 {
		return s, false
	}
	early := map[string]bool{"NoMatchingParent": true, "UnsupportedValue": true, "GatewayIgnored": true, "InvalidGateway": true}
	for _, rt := range g.L4Routes {
		src := rt.Source.(*v1alpha2.TLSRoute)
		j := tlsRouteJ{metaJ: metaOf(src), Hosts: []string{}, Parents: []tlsParJ{}}
		for _, h := range rt.Spec.Hostnames {
			j.Hosts = append(j.Hosts, string(h))
		}
		for _, pr := range rt.ParentRefs {
			pj := tlsParJ{Granted: map[string][]string{}}
			if pr.SectionName != nil {
				pj.Section = string(*pr.SectionName)
			}
			if pr.Attachment != nil && rt.Attachable {
				pj.Failed = pr.Attachment.FailedCondition.Reason
				pj.Eligible = !early[pj.Failed]
				for k, v := range pr.Attachment.AcceptedHostnames {
					pj.Granted[k] = append([]string{}, v...)
				}
			}
			j.Parents = append(j.Parents, pj)
		}
		if o, ok := rep.Status[p.Key{Kind: "TLSRoute", NN: client.ObjectKeyFromObject(src)}]; ok {
			for _, ps := range o.(*v1alpha2.TLSRoute).Status.Parents {
				if condHas(ps.Conditions, "Accepted", "False", "HostnameConflict") {
					j.Conflict = true
				}
			}
		}
		s.Routes = append(s.Routes, j)
	}
	sort.Slice(s.Routes, func(a, b int) bool {
		return s.Routes[a].NS+"/"+s.Routes[a].Name < s.Routes[b].NS+"/"+s.Routes[b].Name
	})
	return s, true
}

type btpJ struct {
	metaJ
	Targets []string `json:"targets"`
	Valid   bool     `json:"valid"`
	HasReq  bool     `json:"hasReq"` // a status update request exists for it
	Told    bool     `json:"told"`   // its status carries Accepted=False/Conflicted
}
type btpRefJ struct {
	Route  string `json:"route"`
	SvcNS  string `json:"svcNs"`
	Svc    string `json:"svc"`
	Valid  bool   `json:"valid"`
	Chosen string `json:"chosen"` // "ns/name" or ""
}
type btpSite struct {
	Site string    `json:"site"`
	Sc   int       `json:"sc"`
	Btps []btpJ    `json:"btps"`
	Refs []btpRefJ `json:"refs"`
}

func siteBTP(sc int, objs []client.Object, rep *Rep) (btpSite, bool) {
	g := rep.Out.Graph
	s := btpSite{Site: "btp", Sc: sc, Btps: []btpJ{}, Refs: []btpRefJ{}}
	for _, o := range objs {
		b, ok := o.(*v1alpha3.BackendTLSPolicy)
		if !ok {
			continue
		}
		j := btpJ{metaJ: metaOf(b), Targets: []string{}}
		for _, t := range b.Spec.TargetRefs {
			j.Targets = append(j.Targets, string(t.Name))
		}
		nn := client.ObjectKeyFromObject(b)
		if gb, ok := g.BackendTLSPolicies[nn]; ok {
			j.Valid = gb.Valid
		}
		k := p.Key{Kind: "BackendTLSPolicy", NN: nn}
		j.HasReq = rep.Targets[k]
		if so, ok := rep.Status[k]; ok {
			for _, a := range so.(*v1alpha3.BackendTLSPolicy).Status.Ancestors {
				if condHas(a.Conditions, "Accepted", "False", "Conflicted") {
					j.Told = true
				}
			}
		}
		s.Btps = append(s.Btps, j)
	}
	if len(s.Btps) == 0 {
		return s, false
	}
	var keys []graph.RouteKey
	for k := range g.Routes {
		keys = append(keys, k)
	}
	sort.Slice(keys, func(a, b int) bool {
		return fmt.Sprint(keys[a]) < fmt.Sprint(keys[b])
	})
	for _, k := range keys {
		rt := g.Routes[k]
		for ri, rule := range rt.Spec.Rules {
			for bi, br := range rule.BackendRefs {
				if br.SvcNsName.Name == "" || br.ServicePort.Port == 0 {
					continue
				}
				j := btpRefJ{Route: fmt.Sprintf("%s/%s/%s[%d][%d]", k.RouteType, k.NamespacedName.Namespace, k.NamespacedName.Name, ri, bi),
					SvcNS: br.SvcNsName.Namespace, Svc: br.SvcNsName.Name, Valid: br.Valid}
				if br.BackendTLSPolicy != nil {
					j.Chosen = br.BackendTLSPolicy.Source.Namespace + "/" + br.BackendTLSPolicy.Source.Name
				}
				s.Refs = append(s.Refs, j)
			}
		}
	}
	return s, true
}

type polJ struct {
	ID      int      `json:"id"`
	Kind    string   `json:"kind"`
	Gvk     int      `json:"gvk"`
	metaJ
	Targets []string `json:"targets"`
	Mask    int      `json:"mask"`
	ValidBefore bool `json:"validBefore"` // no condition other than Conflicted
	Conflicted  bool `json:"conflicted"`  // graph: carries the PolicyConflicted condition
	Valid   bool     `json:"valid"`
	Told    bool     `json:"told"` // status: some ancestor has Accepted=False/Conflicted
}
type polSite struct {
	Site string `json:"site"`
	Sc   int    `json:"sc"`
	Pols []polJ `json:"pols"`
}

func polMask(o client.Object) (kind string, gvk int, mask int) {
	b := func(c bool, bit int) int {
		if c {
			return bit
		}
		return 0
	}
	switch x := o.(type) {
	case *ngfAPI.ClientSettingsPolicy:
		m := 0
		if x.Spec.Body != nil {
			m |= b(x.Spec.Body.Timeout != nil, 1) | b(x.Spec.Body.MaxSize != nil, 2)
		}
		if x.Spec.KeepAlive != nil {
			m |= b(x.Spec.KeepAlive.Requests != nil, 4) | b(x.Spec.KeepAlive.Time != nil, 8) | b(x.Spec.KeepAlive.Timeout != nil, 16)
		}
		return "ClientSettingsPolicy", 1, m
	case *ngfAPIv2.ObservabilityPolicy:
		return "ObservabilityPolicy", 2, b(x.Spec.Tracing != nil, 1)
	case *ngfAPI.UpstreamSettingsPolicy:
		m := b(x.Spec.ZoneSize != nil, 1)
		if x.Spec.KeepAlive != nil {
			m |= b(x.Spec.KeepAlive.Connections != nil, 2) | b(x.Spec.KeepAlive.Requests != nil, 4) |
				b(x.Spec.KeepAlive.Time != nil, 8) | b(x.Spec.KeepAlive.Timeout != nil, 16)
		}
		return "UpstreamSettingsPolicy", 3, m
	}
	return "?", 0, 0
}

func hasCond(cs []conditions.Condition, reason string) bool {
	for _, c := range cs {
		if c.Reason == reason {
			return true
		}
	}
	return false
}

func sitePolicies(sc int, rep *Rep) (polSite, bool) {
	g := rep.Out.Graph
	s := polSite{Site: "pol", Sc: sc, Pols: []polJ{}}
	var keys []graph.PolicyKey
	for k := range g.NGFPolicies {
		keys = append(keys, k)
	}
	sort.Slice(keys, func(a, b int) bool {
		return keys[a].GVK.Kind+"/"+keys[a].NsName.String() < keys[b].GVK.Kind+"/"+keys[b].NsName.String()
	})
	for i, k := range keys {
		pol := g.NGFPolicies[k]
		kind, gvk, mask := polMask(pol.Source)
		j := polJ{ID: i, Kind: kind, Gvk: gvk, metaJ: metaOf(pol.Source), Mask: mask, Valid: pol.Valid, Targets: []string{}, ValidBefore: true}
		for _, t := range pol.TargetRefs {
			j.Targets = append(j.Targets, fmt.Sprintf("%s/%s/%s/%s", t.Group, t.Kind, t.Nsname.Namespace, t.Nsname.Name))
		}
		for _, c := range pol.Conditions {
			if c.Reason == "Conflicted" {
				j.Conflicted = true
			} else {
				j.ValidBefore = false
			}
		}
		if o, ok := rep.Status[p.Key{Kind: kind, NN: k.NsName}]; ok {
			var anc []v1alpha2.PolicyAncestorStatus
			switch x := o.(type) {
			case *ngfAPI.ClientSettingsPolicy:
				anc = x.Status.Ancestors
			case *ngfAPIv2.ObservabilityPolicy:
				anc = x.Status.Ancestors
			case *ngfAPI.UpstreamSettingsPolicy:
				anc = x.Status.Ancestors
			}
			for _, a := range anc {
				if condHas(a.Conditions, "Accepted", "False", "Conflicted") {
					j.Told = true
				}
			}
		}
		s.Pols = append(s.Pols, j)
	}
	return s, len(s.Pols) > 0
}

// policy outcome of a rep: which policies are conflicted (for grouping the reps)
func polOutcome(rep *Rep) string {
	s, _ := sitePolicies(0, rep)
	var c []string
	for _, pj := range s.Pols {
		if pj.Conflicted {
			c = append(c, fmt.Sprint(pj.ID))
		}
	}
	return strings.Join(c, ",")
}

type secJ struct {
	K    string `json:"k"`
	C    string `json:"c"` // class index per rep, one char each
	Diff string `json:"diff,omitempty"`
}
type detSite struct {
	Site  string `json:"site"`
	Sc    int    `json:"sc"`
	N     int    `json:"n"`
	Secs  []secJ `json:"secs"`
	PC    string `json:"pc"`    // policy-outcome class per rep
	TC    string `json:"tc"`    // class per rep of the set of policies carrying TargetConflict
	TCShape bool `json:"tcShape"` // a policy targets a route that is bound through two or more listeners
	Twin  bool   `json:"twin"`  // an HTTPRoute and a GRPCRoute share namespace/name
	Mixed bool   `json:"mixed"` // some path rule mixes HTTPRoute and GRPCRoute rules
	Pols  []polJ `json:"pols"`
}

const classChars = "0123456789abcdefghijklmnopqrstuvwxyzABCDEFGHIJKLMNOPQRSTUVWXYZ"

func classes(vals []string) string {
	idx := map[string]int{}
	var b strings.Builder
	for _, v := range vals {
		i, ok := idx[v]
		if !ok {
			i = len(idx)
			idx[v] = i
		}
		if i >= len(classChars) {
			i = len(classChars) - 1
		}
		b.WriteByte(classChars[i])
	}
	return b.String()
}

func firstDiff(a, b string) string {
	la, lb := strings.Split(a, "\n"), strings.Split(b, "\n")
	for i := 0; i < len(la) || i < len(lb); i++ {
		x, y := "", ""
		if i < len(la) {
			x = la[i]
		}
		if i < len(lb) {
			y = lb[i]
		}
		if x != y {
			// for one-line JSON sections show the neighbourhood of the first differing byte
			k := 0
			for k < len(x) && k < len(y) && x[k] == y[k] {
				k++
			}
			lo := k - 60
			if lo < 0 {
				lo = 0
			}
			cut := func(s string) string {
				hi := k + 100
				if hi > len(s) {
					hi = len(s)
				}
				if lo > len(s) {
					return ""
				}
				return s[lo:hi]
			}
			return fmt.Sprintf("line %d: %q <> %q", i, cut(x), cut(y))
		}
	}
	return ""
}

func siteDet(sc int, objs []client.Object, reps []*Rep, mixed bool) detSite {
	d := detSite{Site: "det", Sc: sc, N: len(reps), Secs: []secJ{}, Mixed: mixed}
	keys := map[string]bool{}
	for _, r := range reps {
		for k := range r.Sections {
			keys[k] = true
		}
	}
	var ks []string
	for k := range keys {
		ks = append(ks, k)
	}
	sort.Strings(ks)
	for _, k := range ks {
		vals := make([]string, len(reps))
		for i, r := range reps {
			vals[i] = r.Sections[k]
		}
		s := secJ{K: k, C: classes(vals)}
		for i := 1; i < len(vals); i++ {
			if vals[i] != vals[0] {
				s.Diff = fmt.Sprintf("rep0 vs rep%d: %s", i, firstDiff(vals[0], vals[i]))
				break
			}
		}
		d.Secs = append(d.Secs, s)
	}
	pcs := make([]string, len(reps))
	for i, r := range reps {
		pcs[i] = polOutcome(r)
	}
	d.PC = classes(pcs)
	tcs := make([]string, len(reps))
	for i, r := range reps {
		var c []string
		for k, pol := range r.Out.Graph.NGFPolicies {
			if hasCond(pol.Conditions, "TargetConflict") {
				c = append(c, k.GVK.Kind+"/"+k.NsName.String())
			}
		}
		sort.Strings(c)
		tcs[i] = strings.Join(c, ",")
	}
	d.TC = classes(tcs)
	for _, pol := range reps[0].Out.Graph.NGFPolicies {
		for _, ref := range pol.TargetRefs {
			for _, rt := range reps[0].Out.Graph.Routes {
				if rt.Source.GetNamespace() == ref.Nsname.Namespace && rt.Source.GetName() == ref.Nsname.Name {
					for _, pr := range rt.ParentRefs {
						if pr.Attachment != nil && len(pr.Attachment.AcceptedHostnames) >= 2 {
							d.TCShape = true
						}
					}
				}
			}
		}
	}
	h, g := map[string]bool{}, map[string]bool{}
	for _, o := range objs {
		switch x := o.(type) {
		case *gatewayv1.HTTPRoute:
			h[x.Namespace+"/"+x.Name] = true
		case *gatewayv1.GRPCRoute:
			g[x.Namespace+"/"+x.Name] = true
		}
	}
	for k := range h {
		if g[k] {
			d.Twin = true
		}
	}
	ps, _ := sitePolicies(sc, reps[0])
	d.Pols = ps.Pols
	return d
}

// ------------------------------------------------------------------ driver loop

func FamOf(cfg Config, i int) int {
	if cfg.Families != "" {
		return int(cfg.Families[i%len(cfg.Families)] - '0')
	}
	switch i % 10 {
	case 7:
		return FamMultiTarget
	case 8:
		return FamSameNameRoute
	case 9:
		return FamSamePath
	}
	return FamBase
}

// RunScenario builds one scenario `reps` times and emits the site lines.
func RunScenario(w *bufio.Writer, sc int, objs []client.Object, opts p.Options, r *rng.R, nreps int, desc string, permAll bool) (panicked bool) {
	reps := make([]*Rep, 0, nreps)
	var plans []*Plan
	if permAll {
		plans = competitorPlans(objs, opts)
		if len(plans) == 0 {
			emit(w, map[string]any{"site": "skip", "sc": sc, "why": "fewer than two competitors", "desc": desc})
			return false
		}
		nreps = len(plans)
	}
	for k := 0; k < nreps; k++ {
		var plan *Plan
		if permAll {
			plan = plans[k]
		}
		rep := oneRep(objs, opts, r.Fork(), k, plan)
		if rep.Panic != "" {
			emit(w, map[string]any{"site": "panic", "sc": sc, "rep": k, "where": p.PanicSite(rep.Panic), "desc": desc})
			return true
		}
		reps = append(reps, rep)
	}
	r0 := reps[0]
	if r0.Out.Graph == nil || r0.Out.Conf == nil {
		emit(w, map[string]any{"site": "skip", "sc": sc, "why": "no graph", "desc": desc})
		return false
	}
	emit(w, siteGateways(sc, objs, opts, r0))
	mixed := false
	for _, m := range siteMatchRules(sc, r0, r) {
		if m.Mixed {
			mixed = true
		}
		emit(w, m)
	}
	ls, ok := siteListeners(sc, r0)
	if ok {
		emit(w, ls)
		if t, ok := siteTLS(sc, r0, ls); ok {
			emit(w, t)
		}
	}
	if b, ok := siteBTP(sc, objs, r0); ok {
		emit(w, b)
	}
	if ps, ok := sitePolicies(sc, r0); ok {
		emit(w, ps)
	}
	emit(w, siteDet(sc, objs, reps, mixed))
	return false
}

func Run(cfg Config, out io.Writer) {
	w := bufio.NewWriterSize(out, 1<<20)
	defer w.Flush()
	if cfg.Corpus != "" {
		objs, err := p.DecodeObjects([]byte(cfg.Corpus))
		if err != nil {
			emit(w, map[string]any{"site": "skip", "sc": -1, "why": "corpus does not decode: " + err.Error()})
			return
		}
		RunScenario(w, -1, objs, p.DefaultOptions(), rng.New(cfg.Seed), cfg.Reps, "corpus", cfg.PermAll)
		return
	}
	r := rng.New(cfg.Seed)
	tags := map[string]int{}
	panics := 0
	for i := 0; i < cfg.N; i++ {
		fam := FamOf(cfg, i)
		s := Generate(r.Fork(), fam)
		for k, v := range s.Tags {
			tags[k] += v
		}
		if RunScenario(w, i, s.Objs, s.Opts, r.Fork(), cfg.Reps, s.Describe(), cfg.PermAll) {
			panics++
			if panics > 12 {
				break
			}
		}
		if i < 3 {
			emit(w, map[string]any{"site": "sample", "sc": i, "desc": s.Describe()})
		}
		w.Flush()
	}
	emit(w, map[string]any{"site": "tags", "tags": tags})
}

// Encode renders a scenario for a replay file.
func Encode(objs []client.Object) string { return string(p.EncodeObjects(objs)) }

var _ = apiv1.ProtocolTCP
