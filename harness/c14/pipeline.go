package c14

// Stream `pipe`: cluster states inside the fragment of lean/NGF/Model/Pipeline.lean (generator of harness/c02, plus
// extra competition: Gateways of our class with the SAME creationTimestamp as the served one, routes with equal
// timestamps) are fed to the REAL pipeline in several arrival orders (shuffled upserts, random batching, a transient
// older Gateway; Go's map iteration is random per range anyway). Per order the line carries the flat scenario with
// the objects IN THAT ARRIVAL ORDER, the generated files and the digests of the canonical sections. The Lean side
// (NGF/DriverLib/PipelineIO.lean, `ngfdriver_C14 pipeline`) judges order-independence on the real outputs and ties
// `Pipeline.gen` of the permuted scenario to the real configuration of that order.

import (
	"bufio"
	"encoding/json"
	"fmt"
	"io"
	"strings"

	"sigs.k8s.io/controller-runtime/pkg/client"
	gatewayv1 "sigs.k8s.io/gateway-api/apis/v1"

	"github.com/nginx/nginx-gateway-fabric/verifharness/c02"
	p "github.com/nginx/nginx-gateway-fabric/verifharness/pipeline"
	"github.com/nginx/nginx-gateway-fabric/verifharness/rng"
)

const (
	httpConfPath   = "/etc/nginx/conf.d/http.conf"
	streamConfPath = "/etc/nginx/stream-conf.d/stream.conf"
	matchesPath    = "/etc/nginx/conf.d/matches.json"
)

type pipeOrder struct {
	Arrival string            `json:"arrival"`
	Flat    c02.Flat          `json:"flat"`
	Files   c02.Files         `json:"files"`
	Secs    map[string]string `json:"secs"`
}

type pipeSite struct {
	Site   string          `json:"site"`
	Sc     int             `json:"sc"`
	Desc   string          `json:"desc"`
	Tags   map[string]int  `json:"tags"`
	Orders []pipeOrder     `json:"orders"`
	Objs   json.RawMessage `json:"objs,omitempty"`
}

// addCompetition makes the conflict resolution matter: same-age Gateways of the class (name / namespace decide), an
// older Gateway of a foreign class, routes sharing one creationTimestamp.
func addCompetition(r *rng.R, objs []client.Object, opts p.Options, tags map[string]int) []client.Object {
	var served *gatewayv1.Gateway
	var routes []*gatewayv1.HTTPRoute
	for _, o := range objs {
		switch t := o.(type) {
		case *gatewayv1.Gateway:
			if string(t.Spec.GatewayClassName) == opts.Class && t.Name == "gw" {
				served = t
			}
		case *gatewayv1.HTTPRoute:
			routes = append(routes, t)
		}
	}
	if served != nil {
		sameAge := func(ns, name string, ls ...p.Listener) *gatewayv1.Gateway {
			g := p.Gateway(ns, name, opts.Class, 0, ls...)
			g.CreationTimestamp = served.CreationTimestamp
			return g
		}
		if r.Chance(50, 100) {
			tags["gw-same-age-later-name"]++
			objs = append(objs, sameAge(served.Namespace, "gw-z", p.Listener{Name: "all", Port: 80, Protocol: "HTTP", FromNS: "All"}))
		}
		if r.Chance(35, 100) {
			tags["gw-same-age-later-namespace"]++
			objs = append(objs, sameAge("team-b", "a-gw", p.Listener{Name: "all", Port: 8080, Protocol: "HTTP", FromNS: "All"}))
		}
		if r.Chance(25, 100) {
			tags["gw-older-foreign-class"]++
			g := p.Gateway("default", "a-foreign", "not-ours", -3, p.Listener{Name: "all", Port: 80, Protocol: "HTTP", FromNS: "All"})
			objs = append(objs, g)
		}
	}
	if len(routes) >= 2 && r.Chance(50, 100) {
		tags["routes-same-age"]++
		a, b := r.Intn(len(routes)), r.Intn(len(routes))
		if a != b {
			routes[b].CreationTimestamp = routes[a].CreationTimestamp
		}
	}
	if len(routes) >= 3 && r.Chance(25, 100) {
		tags["routes-all-same-age"]++
		for _, rt := range routes[1:] {
			rt.CreationTimestamp = routes[0].CreationTimestamp
		}
	}
	return objs
}

func arrivalDesc(order []client.Object, after []bool) string {
	var sb strings.Builder
	for i, o := range order {
		switch o.(type) {
		case *gatewayv1.Gateway:
			sb.WriteString("GW:" + o.GetNamespace() + "/" + o.GetName() + " ")
		case *gatewayv1.HTTPRoute:
			sb.WriteString("HR:" + o.GetNamespace() + "/" + o.GetName() + " ")
		case *gatewayv1.GatewayClass:
			sb.WriteString("GC:" + o.GetName() + " ")
		}
		if i < len(after) && after[i] {
			sb.WriteString("| ")
		}
	}
	return strings.TrimSpace(sb.String())
}

func pipeScenario(r *rng.R) ([]client.Object, p.Options, map[string]int) {
	s := c02.GenFragment(r.Fork())
	if s.Tags == nil {
		s.Tags = map[string]int{}
	}
	objs := addCompetition(r.Fork(), s.Objs, s.Opts, s.Tags)
	c02.ApplyDefaults(objs)
	return objs, s.Opts, s.Tags
}

func describePipe(objs []client.Object) string {
	n := map[string]int{}
	for _, o := range objs {
		n[p.KeyOf(o).Kind]++
	}
	return fmt.Sprintf("gateways=%d httproutes=%d classes=%d", n["Gateway"], n["HTTPRoute"], n["GatewayClass"])
}

// RunPipeline emits one `pipe` line per scenario.
func RunPipeline(cfg Config, out io.Writer) {
	w := bufio.NewWriterSize(out, 1<<20)
	defer w.Flush()
	r := rng.New(cfg.Seed)
	if cfg.Orders < 2 {
		cfg.Orders = 2
	}
	tags := map[string]int{}
	panics := 0
	for i := 0; i < cfg.N && panics <= 12; i++ {
		sr := r.Fork()
		objs, opts, stags := pipeScenario(sr)
		if cfg.Only >= 0 && i != cfg.Only {
			continue
		}
		for k, v := range stags {
			tags[k] += v
		}
		line := pipeSite{Site: "pipe", Sc: i, Desc: describePipe(objs), Tags: stags}
		if cfg.Only >= 0 {
			line.Objs = p.EncodeObjects(objs)
		}
		bad := false
		for k := 0; k < cfg.Orders; k++ {
			or := sr.Fork()
			plan := &Plan{Order: append([]client.Object(nil), objs...)}
			if k > 0 {
				rng.Shuffle(or, plan.Order)
			}
			plan.ApplyAfter = make([]bool, len(plan.Order))
			if k > 0 {
				nb := or.Range(1, 5)
				for j := range plan.ApplyAfter {
					plan.ApplyAfter[j] = nb > 1 && or.Chance(nb-1, len(plan.Order))
				}
				if k%4 == 3 {
					// one event per batch for the competitors: every intermediate graph is built
					for j, o := range plan.Order {
						switch o.(type) {
						case *gatewayv1.Gateway, *gatewayv1.HTTPRoute, *gatewayv1.GatewayClass:
							plan.ApplyAfter[j] = true
						}
					}
				}
				plan.Transient = k%3 == 2
			}
			rep := oneRep(objs, opts, or.Fork(), k, plan)
			if rep.Panic != "" {
				emit(w, map[string]any{"site": "panic", "sc": i, "rep": k, "where": p.PanicSite(rep.Panic), "desc": line.Desc})
				panics++
				bad = true
				break
			}
			if rep.Out.Graph == nil || rep.Out.Conf == nil {
				emit(w, map[string]any{"site": "skip", "sc": i, "why": "no graph", "desc": line.Desc})
				bad = true
				break
			}
			secs := map[string]string{}
			for name, v := range rep.Sections {
				secs[name] = digest(v)
			}
			desc := arrivalDesc(plan.Order, plan.ApplyAfter)
			if plan.Transient {
				desc += " | +transient-older-gateway -transient"
			}
			line.Orders = append(line.Orders, pipeOrder{
				Arrival: desc,
				Flat:    c02.Flatten(plan.Order, opts),
				Files: c02.Files{HTTP: p.FileText(rep.Out.Files, httpConfPath), Stream: p.FileText(rep.Out.Files, streamConfPath),
					Matches: p.FileText(rep.Out.Files, matchesPath)},
				Secs: secs,
			})
		}
		if !bad {
			emit(w, line)
		}
		w.Flush()
	}
	emit(w, map[string]any{"site": "tags", "tags": tags})
}
