package c14

import (
	"crypto/sha1"
	"encoding/hex"
	"encoding/json"
	"fmt"
	"sort"
	"strings"

	"sigs.k8s.io/controller-runtime/pkg/client"

	"github.com/nginx/nginx-gateway-fabric/internal/mode/static/nginx/file"
	"github.com/nginx/nginx-gateway-fabric/internal/mode/static/state/dataplane"
)

// Order-normalisation of DESIGN.md §8: servers by (port, name), locations by (modifier, path), upstream
// servers / map parameters / includes as sets, files by path, conditions by type with the message text
// dropped. Everything else (match rule order, backend order, split_clients order, directive order inside
// a location) is kept, because it is meaning.

func digest(s string) string {
	h := sha1.Sum([]byte(s))
	return hex.EncodeToString(h[:])[:10]
}

// ------------------------------------------------------------------ generic JSON canonicaliser

// setKeys: JSON keys whose array value is a set.
var confSetKeys = map[string]bool{
	"HTTPServers": true, "SSLServers": true, "TLSPassthroughServers": true, "Upstreams": true,
	"StreamUpstreams": true, "BackendGroups": true, "Endpoints": true, "Policies": true, "Ratios": true,
	"SpanAttributes": true, "MainSnippets": true, "Snippets": true,
}

func canonJSON(v any, key string, setKeys map[string]bool, allSets bool, drop map[string]bool) any {
	switch x := v.(type) {
	case map[string]any:
		// a Kubernetes object (policy) inside the configuration: identify it by name + spec digest
		if md, ok := x["metadata"].(map[string]any); ok {
			if _, ok := x["spec"]; ok {
				sp, _ := json.Marshal(x["spec"])
				return fmt.Sprintf("obj:%v/%v#%s", md["namespace"], md["name"], digest(string(sp)))
			}
		}
		out := map[string]any{}
		for k, e := range x {
			if drop[k] {
				continue
			}
			out[k] = canonJSON(e, k, setKeys, allSets, drop)
		}
		return out
	case []any:
		out := make([]any, len(x))
		for i, e := range x {
			out[i] = canonJSON(e, "", setKeys, allSets, drop)
		}
		if allSets || setKeys[key] {
			sort.SliceStable(out, func(i, j int) bool { return mustJSON(out[i]) < mustJSON(out[j]) })
		}
		return out
	default:
		return v
	}
}

func mustJSON(v any) string {
	b, err := json.Marshal(v)
	if err != nil {
		return "!" + err.Error()
	}
	return string(b)
}

// CanonConf returns the normalised sections of a dataplane.Configuration.
func CanonConf(c *dataplane.Configuration) map[string]string {
	out := map[string]string{}
	if c == nil {
		out["conf"] = "nil"
		return out
	}
	cp := *c
	cp.Version = 0
	b, err := json.Marshal(cp)
	if err != nil {
		out["conf"] = "marshal-error " + err.Error()
		return out
	}
	var m map[string]any
	_ = json.Unmarshal(b, &m)
	drop := map[string]bool{"managedFields": true, "resourceVersion": true}
	cm := canonJSON(m, "", confSetKeys, false, drop).(map[string]any)
	for k, v := range cm {
		out["conf:"+k] = mustJSON(v)
	}
	return out
}

// CanonStatus: the status of an object with times and messages dropped and every list as a set.
func CanonStatus(o client.Object) string {
	b, err := json.Marshal(o)
	if err != nil {
		return "marshal-error"
	}
	var m map[string]any
	_ = json.Unmarshal(b, &m)
	st, ok := m["status"]
	if !ok {
		return "{}"
	}
	drop := map[string]bool{"lastTransitionTime": true, "message": true}
	return mustJSON(canonJSON(st, "", nil, true, drop))
}

// ------------------------------------------------------------------ NGINX configuration text

type dir struct {
	words []string
	block []*dir
	isBlk bool
}

func lexNginx(s string) []string {
	var toks []string
	i := 0
	for i < len(s) {
		c := s[i]
		switch {
		case c == ' ' || c == '\t' || c == '\n' || c == '\r':
			i++
		case c == '#':
			for i < len(s) && s[i] != '\n' {
				i++
			}
		case c == '{' || c == '}' || c == ';':
			toks = append(toks, string(c))
			i++
		case c == '"' || c == '\'':
			j := i + 1
			for j < len(s) && s[j] != c {
				if s[j] == '\\' {
					j++
				}
				j++
			}
			if j >= len(s) {
				j = len(s) - 1
			}
			toks = append(toks, s[i:j+1])
			i = j + 1
		default:
			j := i
			for j < len(s) {
				d := s[j]
				if d == ' ' || d == '\t' || d == '\n' || d == '\r' || d == ';' || d == '{' {
					break
				}
				if d == '\\' {
					j++
				}
				if d == '$' && j+1 < len(s) && s[j+1] == '{' {
					for j < len(s) && s[j] != '}' {
						j++
					}
				}
				j++
			}
			if j > len(s) {
				j = len(s)
			}
			toks = append(toks, s[i:j])
			i = j
		}
	}
	return toks
}

func parseNginx(toks []string, pos *int) []*dir {
	var out []*dir
	var cur []string
	for *pos < len(toks) {
		t := toks[*pos]
		*pos++
		switch t {
		case ";":
			out = append(out, &dir{words: cur})
			cur = nil
		case "{":
			d := &dir{words: cur, isBlk: true}
			d.block = parseNginx(toks, pos)
			out = append(out, d)
			cur = nil
		case "}":
			return out
		default:
			cur = append(cur, t)
		}
	}
	if len(cur) > 0 {
		out = append(out, &dir{words: append(cur, "<unterminated>")})
	}
	return out
}

// orderFree: block directives whose children are order-insensitive in NGINX for what NGF emits.
var orderFree = map[string]bool{"": true, "http": true, "stream": true, "server": true, "upstream": true, "map": true, "events": true}

func renderDirs(ctx string, ds []*dir, indent string) string {
	lines := make([]string, 0, len(ds))
	for _, d := range ds {
		l := indent + strings.Join(d.words, " ")
		if d.isBlk {
			name := ""
			if len(d.words) > 0 {
				name = d.words[0]
			}
			l += " {\n" + renderDirs(name, d.block, indent+"  ") + indent + "}"
		} else {
			l += ";"
		}
		lines = append(lines, l)
	}
	if orderFree[ctx] {
		sort.Strings(lines)
	} else {
		// includes are a set; they go first, sorted; the rest keeps its order
		var inc, rest []string
		for _, l := range lines {
			if strings.HasPrefix(strings.TrimSpace(l), "include ") {
				inc = append(inc, l)
			} else {
				rest = append(rest, l)
			}
		}
		sort.Strings(inc)
		lines = append(inc, rest...)
	}
	if len(lines) == 0 {
		return ""
	}
	return strings.Join(lines, "\n") + "\n"
}

func CanonNginx(text string, matches map[string]json.RawMessage) string {
	pos := 0
	ds := parseNginx(lexNginx(text), &pos)
	var fix func(ds []*dir)
	fix = func(ds []*dir) {
		for _, d := range ds {
			if len(d.words) == 3 && d.words[0] == "set" && d.words[1] == "$match_key" {
				if v, ok := matches[d.words[2]]; ok {
					var x any
					_ = json.Unmarshal(v, &x)
					d.words[2] = "matches:" + digest(mustJSON(x))
				} else {
					d.words[2] = "matches:<missing " + d.words[2] + ">"
				}
			}
			fix(d.block)
		}
	}
	fix(ds)
	return renderDirs("", ds, "")
}

// CanonFiles: files by path; NGINX text normalised, JSON re-marshalled, everything else by digest.
// Two things are names, not meaning, and are normalised away: the configuration version file, and the
// keys of matches.json (`<server index>_<path rule index>`, which depend on the order in which the
// servers of different ports come out of a map): `set $match_key K;` is rewritten to the digest of
// matches[K] and matches.json becomes the set of its values.
func CanonFiles(files []file.File) map[string]string {
	out := map[string]string{}
	matches := map[string]json.RawMessage{}
	for _, f := range files {
		if strings.HasSuffix(f.Path, "/matches.json") {
			_ = json.Unmarshal(f.Content, &matches)
		}
	}
	for _, f := range files {
		key := "file:" + f.Path
		switch {
		case strings.HasSuffix(f.Path, "/config-version.conf"):
			continue
		case strings.HasSuffix(f.Path, "/matches.json"):
			var vals []string
			for _, v := range matches {
				var x any
				_ = json.Unmarshal(v, &x)
				vals = append(vals, mustJSON(x))
			}
			sort.Strings(vals)
			out[key] = strings.Join(vals, "\n")
		case strings.HasSuffix(f.Path, ".json"):
			var v any
			if err := json.Unmarshal(f.Content, &v); err != nil {
				out[key] = "bad-json " + digest(string(f.Content))
			} else {
				out[key] = mustJSON(v)
			}
		case strings.HasSuffix(f.Path, ".conf"):
			out[key] = CanonNginx(string(f.Content), matches)
		default:
			out[key] = fmt.Sprintf("type=%d sha=%s", f.Type, digest(string(f.Content)))
		}
	}
	// duplicate paths would silently overwrite each other: count them
	seen := map[string]int{}
	for _, f := range files {
		seen[f.Path]++
	}
	for pth, n := range seen {
		if n > 1 {
			out["file-dup:"+pth] = fmt.Sprint(n)
		}
	}
	return out
}
