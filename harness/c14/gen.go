// Package c14 drives the REAL pipeline on cluster states full of competition (several Gateways of the
// class, routes with identical matches, TLSRoutes claiming one hostname, policies of one kind on one
// target, BackendTLSPolicies on one Service, listeners on one port), builds each state K times with
// permuted event arrival and batching, normalises the outputs and emits what the Lean judge needs.
package c14

import (
	"fmt"

	apiv1 "k8s.io/api/core/v1"
	"sigs.k8s.io/controller-runtime/pkg/client"
	gatewayv1 "sigs.k8s.io/gateway-api/apis/v1"
	"sigs.k8s.io/gateway-api/apis/v1alpha2"
	"sigs.k8s.io/gateway-api/apis/v1alpha3"

	ngfAPI "github.com/nginx/nginx-gateway-fabric/apis/v1alpha1"
	ngfAPIv2 "github.com/nginx/nginx-gateway-fabric/apis/v1alpha2"
	p "github.com/nginx/nginx-gateway-fabric/verifharness/pipeline"
	"github.com/nginx/nginx-gateway-fabric/verifharness/rng"
)

// Families of scenarios. Families 1-3 contain the shapes on which the unchanged code is predicted to be
// order dependent (DESIGN.md §7 rows 15, 16); family 0 must be deterministic.
const (
	FamBase          = 0
	FamMultiTarget   = 1 // policies with several targetRefs forming chains
	FamSameNameRoute = 2 // an HTTPRoute and a GRPCRoute with the same namespace/name
	FamSamePath      = 3 // an HTTPRoute and a GRPCRoute on the same host and exact path
)

var FamNames = []string{"base", "multi-target-policy", "same-name-http-grpc", "http-grpc-same-path"}

type Scenario struct {
	Objs   []client.Object
	Opts   p.Options
	Tags   map[string]int
	Family int
	// namespaces with label team=dev (for Selector listeners; unused for now)
}

func (s *Scenario) tag(t string) { s.Tags[t]++ }

func ptr[T any](v T) *T { return &v }

var nss = []string{"default", "team-a", "team-b"}

type lsTemplate struct {
	l    p.Listener
	prob int
}

// Generate draws one scenario of the given family.
func Generate(r *rng.R, fam int) *Scenario {
	s := &Scenario{Opts: p.DefaultOptions(), Tags: map[string]int{}, Family: fam}
	s.tag("family-" + FamNames[fam])
	// a small pool of ages makes timestamp ties frequent
	agePool := r.Range(1, 4)
	age := func() int {
		a := r.Range(1, agePool)
		return a
	}
	add := func(o ...client.Object) { s.Objs = append(s.Objs, o...) }

	for _, ns := range nss {
		add(p.Namespace(ns, map[string]string{"kubernetes.io/metadata.name": ns}))
	}
	gc := p.GatewayClass(p.DefaultClass, p.DefaultController, 0)
	telemetry := r.Chance(45, 100)
	if telemetry {
		gc.Spec.ParametersRef = &gatewayv1.ParametersReference{Group: "gateway.nginx.org", Kind: "NginxProxy", Name: "proxy"}
		np := &ngfAPI.NginxProxy{ObjectMeta: p.Meta("", "proxy", 0)}
		np.Spec.Telemetry = &ngfAPI.Telemetry{Exporter: &ngfAPI.TelemetryExporter{Endpoint: "otel:4317"}}
		add(np)
		s.tag("telemetry")
	}
	add(gc)
	if r.Chance(20, 100) {
		add(p.GatewayClass("other", "example.com/other", 0))
	}

	// services, endpoints, secrets
	for i, ns := range nss {
		for k := 0; k < 3; k++ {
			name := fmt.Sprintf("svc%d", k)
			add(p.Service(ns, name, 80))
			add(p.EndpointSlice(ns, name, "s0", []int32{80}, fmt.Sprintf("10.%d.%d.1", i, k), fmt.Sprintf("10.%d.%d.2", i, k)))
		}
		add(p.TLSSecret(ns, "tls-a", i))
		cert, _ := p.CertPair(7)
		add(&apiv1.ConfigMap{ObjectMeta: p.Meta(ns, "ca", 0), Data: map[string]string{"ca.crt": string(cert)}})
	}

	// ---------------------------------------------------------------- gateways
	templates := []lsTemplate{
		{p.Listener{Name: "http", Port: 80, Protocol: "HTTP"}, 90},
		{p.Listener{Name: "http-wc", Port: 80, Protocol: "HTTP", Hostname: "*.example.com"}, 40},
		{p.Listener{Name: "http2", Port: 8080, Protocol: "HTTP", Hostname: "cafe.example.com"}, 40},
		{p.Listener{Name: "https", Port: 443, Protocol: "HTTPS", Hostname: "cafe.example.com", CertRefs: []string{"tls-a"}}, 50},
		{p.Listener{Name: "https-wc", Port: 443, Protocol: "HTTPS", Hostname: "*.example.com", CertRefs: []string{"tls-a"}}, 25},
		{p.Listener{Name: "tls", Port: 8443, Protocol: "TLS", Hostname: "*.example.com"}, 60},
		{p.Listener{Name: "tls2", Port: 8443, Protocol: "TLS", Hostname: "app.example.com"}, 35},
		{p.Listener{Name: "tls3", Port: 9443, Protocol: "TLS"}, 25},
		// conflict makers
		{p.Listener{Name: "clash-http", Port: 443, Protocol: "HTTP"}, 8},
		{p.Listener{Name: "clash-tls", Port: 443, Protocol: "TLS", Hostname: "cafe.example.com"}, 10},
		{p.Listener{Name: "clash-tls-wc", Port: 443, Protocol: "TLS", Hostname: "*.example.com"}, 6},
		{p.Listener{Name: "clash-https", Port: 8443, Protocol: "HTTPS", Hostname: "app.example.com", CertRefs: []string{"tls-a"}}, 8},
		{p.Listener{Name: "clash-8080", Port: 8080, Protocol: "HTTPS", Hostname: "x.example.com", CertRefs: []string{"tls-a"}}, 5},
	}
	type gwRef struct {
		ns, name  string
		listeners []p.Listener
	}
	var gws []gwRef
	ngw := r.Range(1, 5)
	gwNames := []string{"gw", "gw-a", "gw-b"}
	used := map[string]bool{}
	for g := 0; g < ngw; g++ {
		ns, name := rng.Pick(r, nss), rng.Pick(r, gwNames)
		if used[ns+"/"+name] {
			continue
		}
		used[ns+"/"+name] = true
		var ls []p.Listener
		for _, t := range templates {
			if r.Chance(t.prob, 100) {
				l := t.l
				// always explicit, as after CRD defaulting
				if r.Chance(75, 100) {
					l.FromNS = "All"
				} else {
					l.FromNS = "Same"
				}
				ls = append(ls, l)
			}
		}
		if len(ls) == 0 {
			ls = append(ls, templates[0].l)
		}
		rng.Shuffle(r, ls)
		class := p.DefaultClass
		if r.Chance(12, 100) {
			class = "other"
			s.tag("gateway-other-class")
		}
		add(p.Gateway(ns, name, class, age(), ls...))
		gws = append(gws, gwRef{ns, name, ls})
	}
	s.tag(fmt.Sprintf("gateways=%d", len(gws)))

	parents := func(section func(g gwRef) string) []gatewayv1.ParentReference {
		var ps []gatewayv1.ParentReference
		n := 1
		if r.Chance(30, 100) {
			n = 2
		}
		seen := map[string]bool{}
		for i := 0; i < n; i++ {
			g := rng.Pick(r, gws)
			sec := section(g)
			if seen[g.ns+"/"+g.name+"/"+sec] {
				continue
			}
			seen[g.ns+"/"+g.name+"/"+sec] = true
			ps = append(ps, p.ParentRef(g.ns, g.name, sec))
		}
		return ps
	}
	anySection := func(proto ...string) func(g gwRef) string {
		return func(g gwRef) string {
			if r.Chance(65, 100) {
				return ""
			}
			var c []string
			for _, l := range g.listeners {
				for _, pr := range proto {
					if l.Protocol == pr {
						c = append(c, l.Name)
					}
				}
			}
			if len(c) == 0 {
				return ""
			}
			return rng.Pick(r, c)
		}
	}
	backends := func(ns string) []p.Backend {
		n := 1
		if r.Chance(40, 100) {
			n = 2
		}
		var bs []p.Backend
		for i := 0; i < n; i++ {
			bs = append(bs, p.Backend{Ref: fmt.Sprintf("svc%d", r.Intn(3)), Port: 80, Weight: int32(rng.Pick(r, []int{1, 1, 2, 3}))})
		}
		return bs
	}

	// ---------------------------------------------------------------- HTTPRoutes
	type routeRef struct{ kind, ns, name string }
	var l7 []routeRef
	hostPool := [][]string{nil, {"cafe.example.com"}, {"cafe.example.com"}, {"*.example.com"}, {"foo.example.com", "cafe.example.com"}}
	type pm struct{ typ, path string }
	pathPool := []pm{{"PathPrefix", "/"}, {"PathPrefix", "/coffee"}, {"Exact", "/coffee"}, {"PathPrefix", "/coffee"}, {"PathPrefix", "/tea"}}
	routeNames := []string{"r", "app", "route-a", "route-b"}
	usedR := map[string]bool{}
	nh := r.Range(2, 6)
	for i := 0; i < nh; i++ {
		ns, name := rng.Pick(r, nss), rng.Pick(r, routeNames)
		if usedR[ns+"/"+name] {
			continue
		}
		usedR[ns+"/"+name] = true
		var rules []gatewayv1.HTTPRouteRule
		for j := 0; j < r.Range(1, 2); j++ {
			var ms []gatewayv1.HTTPRouteMatch
			for k := 0; k < r.Range(1, 2); k++ {
				pp := rng.Pick(r, pathPool)
				m := p.PathMatch(pp.typ, pp.path)
				if r.Chance(30, 100) {
					m.Method = ptr(gatewayv1.HTTPMethod(rng.Pick(r, []string{"GET", "POST"})))
				}
				for h := 0; h < rng.Pick(r, []int{0, 0, 1, 1, 2}); h++ {
					m.Headers = append(m.Headers, gatewayv1.HTTPHeaderMatch{
						Type: ptr(gatewayv1.HeaderMatchExact), Name: gatewayv1.HTTPHeaderName(fmt.Sprintf("x-h%d", h)),
						Value: rng.Pick(r, []string{"v1", "v2"}),
					})
				}
				if r.Chance(25, 100) {
					m.QueryParams = append(m.QueryParams, gatewayv1.HTTPQueryParamMatch{
						Type: ptr(gatewayv1.QueryParamMatchExact), Name: "q", Value: rng.Pick(r, []string{"1", "2"}),
					})
				}
				ms = append(ms, m)
			}
			rules = append(rules, p.HTTPRule(ms, backends(ns)...))
		}
		add(p.HTTPRoute(ns, name, age(), parents(anySection("HTTP", "HTTPS")), rng.Pick(r, hostPool), rules...))
		l7 = append(l7, routeRef{"HTTPRoute", ns, name})
	}

	// ---------------------------------------------------------------- GRPCRoutes
	grpcRule := func(ns string, svc, method string, nhdr int) gatewayv1.GRPCRouteRule {
		rule := gatewayv1.GRPCRouteRule{}
		m := gatewayv1.GRPCRouteMatch{Method: &gatewayv1.GRPCMethodMatch{
			Type: ptr(gatewayv1.GRPCMethodMatchExact), Service: ptr(svc), Method: ptr(method),
		}}
		for h := 0; h < nhdr; h++ {
			m.Headers = append(m.Headers, gatewayv1.GRPCHeaderMatch{
				Type: ptr(gatewayv1.GRPCHeaderMatchExact), Name: gatewayv1.GRPCHeaderName(fmt.Sprintf("x-h%d", h)), Value: "v1",
			})
		}
		rule.Matches = []gatewayv1.GRPCRouteMatch{m}
		for _, b := range backends(ns) {
			rule.BackendRefs = append(rule.BackendRefs, gatewayv1.GRPCBackendRef{BackendRef: p.BackendRef(b)})
		}
		return rule
	}
	ng := r.Intn(3)
	for i := 0; i < ng; i++ {
		ns, name := rng.Pick(r, nss), "g-"+rng.Pick(r, routeNames)
		if usedR[ns+"/"+name] {
			continue
		}
		usedR[ns+"/"+name] = true
		add(p.GRPCRoute(ns, name, age(), parents(anySection("HTTP", "HTTPS")), rng.Pick(r, hostPool),
			grpcRule(ns, rng.Pick(r, []string{"svc.A", "svc.B"}), "Do", r.Intn(2))))
		l7 = append(l7, routeRef{"GRPCRoute", ns, name})
		s.tag("grpcroute")
	}
	wholeGw := func(g gwRef) string { return "" }
	if r.Chance(12, 100) {
		// more than twelve match rules of equal priority on one host and path: Go's sorts switch from insertion
		// sort to an unstable algorithm above 12 elements, so only here does "stable" differ from "unstable"
		// Two routes with 7-8 rules each (the younger one may be visited first, so the sort has real work to do).
		ns := rng.Pick(r, nss)
		host := rng.Pick(r, hostPool)
		ps := parents(wholeGw)
		for _, nm := range []string{"many-a", "many-b"} {
			var rules []gatewayv1.HTTPRouteRule
			for j := 0; j < r.Range(7, 8); j++ {
				m := p.PathMatch("PathPrefix", "/many")
				m.Headers = []gatewayv1.HTTPHeaderMatch{{Type: ptr(gatewayv1.HeaderMatchExact), Name: "x-variant", Value: fmt.Sprintf("%s-%d", nm, j)}}
				rules = append(rules, p.HTTPRule([]gatewayv1.HTTPRouteMatch{m}, p.Backend{Ref: fmt.Sprintf("svc%d", j%3), Port: 80, Weight: 1}))
			}
			add(p.HTTPRoute(ns, nm, age(), ps, host, rules...))
			l7 = append(l7, routeRef{"HTTPRoute", ns, nm})
		}
		s.tag("many-equal-rules")
	}
	switch fam {
	case FamSameNameRoute:
		// HTTPRoute and GRPCRoute ns/name identical; both with two weighted backends so that the shared
		// backend group name `group_<ns>__<name>_rule0` matters; sometimes on the same path and age.
		ns, name := rng.Pick(r, nss), "twin"
		a1 := age()
		a2 := a1
		if r.Bool() {
			a2 = age()
		}
		host := rng.Pick(r, hostPool)
		hr := p.HTTPRoute(ns, name, a1, parents(wholeGw), host,
			p.HTTPRule([]gatewayv1.HTTPRouteMatch{p.PathMatch("Exact", rng.Pick(r, []string{"/svc.A/Do", "/twin"}))},
				p.Backend{Ref: "svc0", Port: 80, Weight: 1}, p.Backend{Ref: "svc1", Port: 80, Weight: 3}))
		gr := p.GRPCRoute(ns, name, a2, hr.Spec.ParentRefs, host, gatewayv1.GRPCRouteRule{
			Matches: []gatewayv1.GRPCRouteMatch{{Method: &gatewayv1.GRPCMethodMatch{
				Type: ptr(gatewayv1.GRPCMethodMatchExact), Service: ptr("svc.A"), Method: ptr("Do")}}},
			BackendRefs: []gatewayv1.GRPCBackendRef{
				{BackendRef: p.BackendRef(p.Backend{Ref: "svc2", Port: 80, Weight: 1})},
				{BackendRef: p.BackendRef(p.Backend{Ref: "svc1", Port: 80, Weight: 1})},
			},
		})
		if r.Bool() {
			// different parents: the two routes land on different ports
			gr.Spec.ParentRefs = parents(anySection("HTTP", "HTTPS"))
		}
		add(hr, gr)
		l7 = append(l7, routeRef{"HTTPRoute", ns, name}, routeRef{"GRPCRoute", ns, name})
	case FamSamePath:
		ns := rng.Pick(r, nss)
		host := rng.Pick(r, hostPool)
		hr := p.HTTPRoute(ns, "h-same", age(), parents(wholeGw), host,
			p.HTTPRule([]gatewayv1.HTTPRouteMatch{p.PathMatch("Exact", "/svc.A/Do")}, p.Backend{Ref: "svc0", Port: 80, Weight: 1}))
		gr := p.GRPCRoute(ns, "g-same", age(), hr.Spec.ParentRefs, host, gatewayv1.GRPCRouteRule{
			Matches: []gatewayv1.GRPCRouteMatch{{Method: &gatewayv1.GRPCMethodMatch{
				Type: ptr(gatewayv1.GRPCMethodMatchExact), Service: ptr("svc.A"), Method: ptr("Do")}}},
			BackendRefs: []gatewayv1.GRPCBackendRef{{BackendRef: p.BackendRef(p.Backend{Ref: "svc1", Port: 80, Weight: 1})}},
		})
		add(hr, gr)
		l7 = append(l7, routeRef{"HTTPRoute", ns, "h-same"}, routeRef{"GRPCRoute", ns, "g-same"})
	}

	// ---------------------------------------------------------------- TLSRoutes
	tlsHosts := [][]string{{"app.example.com"}, {"app.example.com"}, {"a.example.com"}, {"a.example.com", "app.example.com"},
		{"*.example.com"}, {"b.example.com", "a.example.com"}, {"other.org"}}
	nt := rng.Pick(r, []int{0, 2, 3, 4, 5})
	for i := 0; i < nt; i++ {
		ns, name := rng.Pick(r, nss), rng.Pick(r, []string{"t", "t-a", "t-b"})
		if usedR["tls/"+ns+"/"+name] {
			continue
		}
		usedR["tls/"+ns+"/"+name] = true
		add(p.TLSRoute(ns, name, age(), parents(anySection("TLS")), rng.Pick(r, tlsHosts), p.Backend{Ref: fmt.Sprintf("svc%d", r.Intn(3)), Port: 80, Weight: -1}))
		s.tag("tlsroute")
	}

	// ---------------------------------------------------------------- BackendTLSPolicies
	if r.Chance(55, 100) {
		ns := rng.Pick(r, nss)
		nb := r.Range(1, 4)
		for i := 0; i < nb; i++ {
			btp := &v1alpha3.BackendTLSPolicy{ObjectMeta: p.Meta(ns, rng.Pick(r, []string{"btp", "btp-a", "btp-b", "btp-c"}), age())}
			if usedR["btp/"+btp.Namespace+"/"+btp.Name] {
				continue
			}
			usedR["btp/"+btp.Namespace+"/"+btp.Name] = true
			targets := []string{"svc0"}
			if r.Chance(35, 100) {
				targets = append(targets, "svc1")
			}
			if r.Chance(15, 100) {
				targets = []string{"svc1"}
			}
			for _, t := range targets {
				btp.Spec.TargetRefs = append(btp.Spec.TargetRefs, v1alpha2.LocalPolicyTargetReferenceWithSectionName{
					LocalPolicyTargetReference: v1alpha2.LocalPolicyTargetReference{Kind: "Service", Name: gatewayv1.ObjectName(t)},
				})
			}
			btp.Spec.Validation.Hostname = gatewayv1.PreciseHostname(fmt.Sprintf("b%d.backend.example.com", i))
			if r.Chance(10, 100) {
				// invalid: neither CA refs nor well-known certs
				s.tag("btp-invalid")
			} else if r.Chance(30, 100) {
				btp.Spec.Validation.WellKnownCACertificates = ptr(v1alpha3.WellKnownCACertificatesSystem)
			} else {
				btp.Spec.Validation.CACertificateRefs = []gatewayv1.LocalObjectReference{{Kind: "ConfigMap", Name: "ca"}}
			}
			add(btp)
			s.tag("btp")
		}
	}

	// ---------------------------------------------------------------- NGF policies
	multi := fam == FamMultiTarget
	// ClientSettingsPolicy (single targetRef by type). "stack": four to six policies on ONE target with sparse field
	// sets, so that conflicts interleave by age (A-C, B-D, ...), some policies survive behind already-conflicted ones.
	cspNames := []string{"csp", "csp-a", "csp-b", "csp-c", "csp-d", "csp-e", "csp-f", "csp-g"}
	ncsp := rng.Pick(r, []int{0, 0, 2, 3, 4})
	stack := r.Chance(40, 100)
	var stNS, stKind, stName string
	if stack {
		ncsp = r.Range(4, 6)
		if r.Chance(60, 100) || len(l7) == 0 {
			g := rng.Pick(r, gws)
			stNS, stKind, stName = g.ns, "Gateway", g.name
		} else {
			t := rng.Pick(r, l7)
			stNS, stKind, stName = t.ns, t.kind, t.name
		}
		s.tag("csp-stack")
	}
	for i := 0; i < ncsp; i++ {
		var ns, kind, tname string
		if stack {
			ns, kind, tname = stNS, stKind, stName
		} else if r.Chance(50, 100) || len(l7) == 0 {
			g := rng.Pick(r, gws)
			ns, kind, tname = g.ns, "Gateway", g.name
		} else {
			t := rng.Pick(r, l7)
			ns, kind, tname = t.ns, t.kind, t.name
		}
		name := rng.Pick(r, cspNames)
		if usedR["csp/"+ns+"/"+name] {
			continue
		}
		usedR["csp/"+ns+"/"+name] = true
		csp := &ngfAPI.ClientSettingsPolicy{ObjectMeta: p.Meta(ns, name, age())}
		csp.Spec.TargetRef = v1alpha2.LocalPolicyTargetReference{Group: "gateway.networking.k8s.io", Kind: gatewayv1.Kind(kind), Name: gatewayv1.ObjectName(tname)}
		bits := r.Range(1, 31)
		if stack || r.Chance(50, 100) {
			bits = 1 << r.Intn(5)
			if r.Chance(35, 100) {
				bits |= 1 << r.Intn(5)
			}
		}
		if bits&3 != 0 {
			csp.Spec.Body = &ngfAPI.ClientBody{}
			if bits&1 != 0 {
				csp.Spec.Body.MaxSize = ptr(ngfAPI.Size(rng.Pick(r, []string{"10m", "20m"})))
			}
			if bits&2 != 0 {
				csp.Spec.Body.Timeout = ptr(ngfAPI.Duration("30s"))
			}
		}
		if bits&28 != 0 {
			csp.Spec.KeepAlive = &ngfAPI.ClientKeepAlive{}
			if bits&4 != 0 {
				csp.Spec.KeepAlive.Requests = ptr(int32(100))
			}
			if bits&8 != 0 {
				csp.Spec.KeepAlive.Time = ptr(ngfAPI.Duration("5m"))
			}
			if bits&16 != 0 {
				csp.Spec.KeepAlive.Timeout = &ngfAPI.ClientKeepAliveTimeout{Server: ptr(ngfAPI.Duration("60s"))}
			}
		}
		add(csp)
		s.tag("csp")
	}
	// ObservabilityPolicy (targetRefs: routes of its namespace)
	if telemetry && len(l7) > 0 {
		nobs := rng.Pick(r, []int{0, 2, 3})
		if multi {
			nobs = r.Range(2, 4)
		}
		ns := rng.Pick(r, l7).ns
		var cands []routeRef
		for _, t := range l7 {
			if t.ns == ns {
				cands = append(cands, t)
			}
		}
		for i := 0; i < nobs; i++ {
			name := rng.Pick(r, []string{"obs", "obs-a", "obs-b", "obs-c"})
			if usedR["obs/"+ns+"/"+name] {
				continue
			}
			usedR["obs/"+ns+"/"+name] = true
			op := &ngfAPIv2.ObservabilityPolicy{ObjectMeta: p.Meta(ns, name, age())}
			op.Spec.Tracing = &ngfAPIv2.Tracing{Strategy: ngfAPIv2.TraceStrategyRatio, Ratio: ptr(int32(10 + i))}
			nt := 1
			if multi {
				nt = r.Range(1, 3)
			}
			seen := map[string]bool{}
			for k := 0; k < nt; k++ {
				t := rng.Pick(r, cands)
				if seen[t.kind+t.name] {
					continue
				}
				seen[t.kind+t.name] = true
				op.Spec.TargetRefs = append(op.Spec.TargetRefs, v1alpha2.LocalPolicyTargetReference{
					Group: "gateway.networking.k8s.io", Kind: gatewayv1.Kind(t.kind), Name: gatewayv1.ObjectName(t.name)})
			}
			add(op)
			s.tag("obs")
		}
	}
	// UpstreamSettingsPolicy (targetRefs: services of its namespace)
	nusp := rng.Pick(r, []int{0, 0, 2, 3})
	if multi {
		nusp = r.Range(2, 4)
	}
	uns := rng.Pick(r, nss)
	if multi && r.Chance(60, 100) {
		// the chain of DESIGN.md §7 row 16: A and B share svc0, B and C share svc1; A conflicts with B, B with C,
		// A not with C. A route references both services so that they are in the graph.
		add(p.HTTPRoute(uns, "chain-route", age(), parents(wholeGw), nil,
			p.HTTPRule([]gatewayv1.HTTPRouteMatch{p.PathMatch("PathPrefix", "/chain")},
				p.Backend{Ref: "svc0", Port: 80, Weight: 1}, p.Backend{Ref: "svc1", Port: 80, Weight: 1})))
		mk := func(name string, a int, zone bool, conns bool, targets ...string) {
			up := &ngfAPI.UpstreamSettingsPolicy{ObjectMeta: p.Meta(uns, name, a)}
			if zone {
				up.Spec.ZoneSize = ptr(ngfAPI.Size("1m"))
			}
			if conns {
				up.Spec.KeepAlive = &ngfAPI.UpstreamKeepAlive{Connections: ptr(int32(8))}
			}
			for _, t := range targets {
				up.Spec.TargetRefs = append(up.Spec.TargetRefs, v1alpha2.LocalPolicyTargetReference{Group: "core", Kind: "Service", Name: gatewayv1.ObjectName(t)})
			}
			add(up)
			usedR["usp/"+uns+"/"+name] = true
		}
		a0 := r.Range(1, 3)
		mk("chain-a", a0, true, false, "svc0")
		mk("chain-b", a0+r.Intn(2), true, true, "svc0", "svc1")
		mk("chain-c", a0+1+r.Intn(2), false, true, "svc1")
		s.tag("usp-chain")
		nusp = r.Intn(2)
	}
	uspStack := !multi && r.Chance(30, 100)
	if uspStack {
		nusp = r.Range(4, 6)
		add(p.HTTPRoute(uns, "stack-route", age(), parents(wholeGw), nil,
			p.HTTPRule([]gatewayv1.HTTPRouteMatch{p.PathMatch("PathPrefix", "/stack")}, p.Backend{Ref: "svc0", Port: 80, Weight: 1})))
		s.tag("usp-stack")
	}
	for i := 0; i < nusp; i++ {
		name := rng.Pick(r, []string{"usp", "usp-a", "usp-b", "usp-c", "usp-d", "usp-e", "usp-f", "usp-g"})
		if usedR["usp/"+uns+"/"+name] {
			continue
		}
		usedR["usp/"+uns+"/"+name] = true
		up := &ngfAPI.UpstreamSettingsPolicy{ObjectMeta: p.Meta(uns, name, age())}
		bits := r.Range(1, 31)
		if uspStack || r.Chance(50, 100) {
			bits = 1 << r.Intn(5)
			if r.Chance(35, 100) {
				bits |= 1 << r.Intn(5)
			}
		}
		if bits&1 != 0 {
			up.Spec.ZoneSize = ptr(ngfAPI.Size(rng.Pick(r, []string{"1m", "2m"})))
		}
		if bits&30 != 0 {
			up.Spec.KeepAlive = &ngfAPI.UpstreamKeepAlive{}
			if bits&2 != 0 {
				up.Spec.KeepAlive.Connections = ptr(int32(16 + i))
			}
			if bits&4 != 0 {
				up.Spec.KeepAlive.Requests = ptr(int32(100))
			}
			if bits&8 != 0 {
				up.Spec.KeepAlive.Time = ptr(ngfAPI.Duration("1h"))
			}
			if bits&16 != 0 {
				up.Spec.KeepAlive.Timeout = ptr(ngfAPI.Duration("60s"))
			}
		}
		nt := 1
		if multi {
			nt = r.Range(1, 3)
		}
		seen := map[string]bool{}
		for k := 0; k < nt; k++ {
			t := fmt.Sprintf("svc%d", r.Intn(3))
			if uspStack {
				t = "svc0"
			}
			if seen[t] {
				continue
			}
			seen[t] = true
			up.Spec.TargetRefs = append(up.Spec.TargetRefs, v1alpha2.LocalPolicyTargetReference{Group: "core", Kind: "Service", Name: gatewayv1.ObjectName(t)})
		}
		add(up)
		s.tag("usp")
	}
	return s
}

// Describe gives a one-line size summary (for the evidence samples).
func (s *Scenario) Describe() string {
	counts := map[string]int{}
	for _, o := range s.Objs {
		counts[p.KindOf(o)]++
	}
	return fmt.Sprintf("%s %v", FamNames[s.Family], counts)
}
