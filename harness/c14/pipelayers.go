package c14

// Stream `pipe`, layered families (flag -pipelayers): cluster states of three families —
//
//	refs : harness/c06 GenRefs (Services with several ports, same- and cross-namespace backendRefs, ReferenceGrants,
//	       EndpointSlices; plus a second EndpointSlice for some Services and the Gateway / route competition of pipeline.go)
//	tls  : harness/c16 GenFragmentTLS (HTTPS listeners, Secrets incl. wrong type / missing / cross-namespace, grants)
//	base : harness/c02 GenFragment + competition
//
// are fed to the REAL pipeline in several arrival orders (as in pipeline.go). Per order the line carries, with the objects
// IN THAT ARRIVAL ORDER: C02's flat scenario, C06's flat input (backendRefs as written, grants), the Service port entries
// and EndpointSlices, the Secrets, the generated http.conf / matches.json / secret files, the statuses the status
// updater wrote (harness/c07 projection) and the digests of all canonical sections. The Lean side is
// NGF/DriverLib/PipelineLayersIO.lean (`ngfdriver_C14 layers`).

import (
	"bufio"
	"crypto/tls"
	"encoding/json"
	"fmt"
	"io"
	"strings"

	apiv1 "k8s.io/api/core/v1"
	discoveryV1 "k8s.io/api/discovery/v1"
	"k8s.io/apimachinery/pkg/util/intstr"
	"sigs.k8s.io/controller-runtime/pkg/client"
	gatewayv1 "sigs.k8s.io/gateway-api/apis/v1"

	"github.com/nginx/nginx-gateway-fabric/verifharness/c02"
	"github.com/nginx/nginx-gateway-fabric/verifharness/c06"
	"github.com/nginx/nginx-gateway-fabric/verifharness/c07"
	"github.com/nginx/nginx-gateway-fabric/verifharness/c16"
	p "github.com/nginx/nginx-gateway-fabric/verifharness/pipeline"
	"github.com/nginx/nginx-gateway-fabric/verifharness/rng"
)

type lPort struct {
	NS    string  `json:"ns"`
	Name  string  `json:"name"`
	PName string  `json:"pname"`
	Port  int32   `json:"port"`
	TPI   *int32  `json:"tpi"`
	TPS   *string `json:"tps"`
}

type lEPPort struct {
	Name *string `json:"name"`
	Port *int32  `json:"port"`
}

type lEndpoint struct {
	Addrs []string `json:"addrs"`
	Ready *bool    `json:"ready"`
}

type lSlice struct {
	NS    string      `json:"ns"`
	Label *string     `json:"label"`
	Type  string      `json:"type"`
	Ports []lEPPort   `json:"ports"`
	Eps   []lEndpoint `json:"eps"`
}

type lSecret struct {
	NS     string `json:"ns"`
	Name   string `json:"name"`
	Type   string `json:"type"`
	Cert   string `json:"cert"`
	Key    string `json:"key"`
	PairOK bool   `json:"pairOK"`
}

type lFile struct {
	Path    string `json:"path"`
	Content string `json:"content"`
}

type layerOrder struct {
	Arrival string            `json:"arrival"`
	Flat    c02.Flat          `json:"flat"`
	Files   c02.Files         `json:"files"`
	Secs    map[string]string `json:"secs"`
	In      c06.In            `json:"in"`
	Ports   []lPort           `json:"ports"`
	Slices  []lSlice          `json:"slices"`
	Secrets []lSecret         `json:"secrets"`
	SFiles  []lFile           `json:"sfiles"`
	St      c07.JStatuses     `json:"st"`
	Objs    c07.JObjs         `json:"objs"`
}

type layerSite struct {
	Site   string          `json:"site"`
	Fam    string          `json:"fam"`
	Sc     int             `json:"sc"`
	Desc   string          `json:"desc"`
	Tags   map[string]int  `json:"tags"`
	Orders []layerOrder    `json:"orders"`
	Dump   json.RawMessage `json:"dump,omitempty"`
}

func endpointView(objs []client.Object) ([]lPort, []lSlice) {
	ports, slices := []lPort{}, []lSlice{}
	for _, o := range objs {
		switch x := o.(type) {
		case *apiv1.Service:
			for _, sp := range x.Spec.Ports {
				j := lPort{NS: x.Namespace, Name: x.Name, PName: sp.Name, Port: sp.Port}
				if sp.TargetPort.Type == intstr.String {
					v := sp.TargetPort.StrVal
					j.TPS = &v
				} else {
					v := sp.TargetPort.IntVal
					j.TPI = &v
				}
				ports = append(ports, j)
			}
		case *discoveryV1.EndpointSlice:
			s := lSlice{NS: x.Namespace, Type: string(x.AddressType), Ports: []lEPPort{}, Eps: []lEndpoint{}}
			if v, ok := x.Labels[discoveryV1.LabelServiceName]; ok {
				s.Label = &v
			}
			for _, pt := range x.Ports {
				s.Ports = append(s.Ports, lEPPort{Name: pt.Name, Port: pt.Port})
			}
			for _, e := range x.Endpoints {
				s.Eps = append(s.Eps, lEndpoint{Addrs: append([]string{}, e.Addresses...), Ready: e.Conditions.Ready})
			}
			slices = append(slices, s)
		}
	}
	return ports, slices
}

func secretView(objs []client.Object) []lSecret {
	out := []lSecret{}
	for _, o := range objs {
		if x, ok := o.(*apiv1.Secret); ok {
			_, err := tls.X509KeyPair(x.Data[apiv1.TLSCertKey], x.Data[apiv1.TLSPrivateKeyKey])
			out = append(out, lSecret{NS: x.Namespace, Name: x.Name, Type: string(x.Type),
				Cert: string(x.Data[apiv1.TLSCertKey]), Key: string(x.Data[apiv1.TLSPrivateKeyKey]), PairOK: err == nil})
		}
	}
	return out
}

// moreSlices gives some Services a second (and third) EndpointSlice, so that the listing order of the slices matters for
// the order in which endpoints are collected.
func moreSlices(r *rng.R, objs []client.Object, tags map[string]int) []client.Object {
	for _, o := range objs {
		svc, ok := o.(*apiv1.Service)
		if !ok || !r.Chance(40, 100) {
			continue
		}
		var ports []int32
		for _, sp := range svc.Spec.Ports {
			ports = append(ports, sp.Port)
		}
		n := r.Range(1, 3)
		for k := 1; k <= n; k++ {
			tags["extra-endpointslice"]++
			objs = append(objs, p.EndpointSlice(svc.Namespace, svc.Name, fmt.Sprintf("s%d", k), ports,
				fmt.Sprintf("10.2.%d.%d", k, r.Range(1, 9)), fmt.Sprintf("10.2.%d.%d", k, r.Range(10, 19))))
		}
	}
	return objs
}

func layerScenario(r *rng.R, fam string) ([]client.Object, p.Options, map[string]int) {
	switch fam {
	case "refs":
		s := c06.GenRefs(r.Fork())
		if s.Tags == nil {
			s.Tags = map[string]int{}
		}
		opts := p.DefaultOptions()
		objs := moreSlices(r.Fork(), s.Objs, s.Tags)
		objs = addCompetition(r.Fork(), objs, opts, s.Tags)
		c02.ApplyDefaults(objs)
		return objs, opts, s.Tags
	case "tls":
		s := c16.GenFragmentTLS(r.Fork())
		if s.Tags == nil {
			s.Tags = map[string]int{}
		}
		objs := addCompetition(r.Fork(), s.Objs, s.Opts, s.Tags)
		c02.ApplyDefaults(objs)
		return objs, s.Opts, s.Tags
	default:
		objs, opts, tags := pipeScenario(r)
		return moreSlices(r.Fork(), objs, tags), opts, tags
	}
}

// RunPipeLayers emits one `pipe` line (with "fam") per scenario.
func RunPipeLayers(cfg Config, out io.Writer) {
	w := bufio.NewWriterSize(out, 1<<20)
	defer w.Flush()
	r := rng.New(cfg.Seed)
	if cfg.Orders < 2 {
		cfg.Orders = 2
	}
	tags := map[string]int{}
	panics := 0
	fams := []string{"refs", "tls", "refs", "base", "tls"}
	for i := 0; i < cfg.N && panics <= 12; i++ {
		sr := r.Fork()
		fam := fams[i%len(fams)]
		objs, opts, stags := layerScenario(sr, fam)
		if cfg.Only >= 0 && i != cfg.Only {
			continue
		}
		for k, v := range stags {
			tags[fam+":"+k] += v
		}
		line := layerSite{Site: "pipe", Fam: fam, Sc: i, Desc: describePipe(objs), Tags: stags}
		if cfg.Only >= 0 {
			line.Dump = p.EncodeObjects(objs)
		}
		bad := false
		for k := 0; k < cfg.Orders; k++ {
			or := sr.Fork()
			plan := &Plan{Order: append([]client.Object(nil), objs...)}
			if k > 0 {
				rng.Shuffle(or, plan.Order)
			}
			plan.ApplyAfter = make([]bool, len(plan.Order))
			if k > 0 {
				nb := or.Range(1, 5)
				for j := range plan.ApplyAfter {
					plan.ApplyAfter[j] = nb > 1 && or.Chance(nb-1, len(plan.Order))
				}
				if k%4 == 3 {
					for j, o := range plan.Order {
						switch o.(type) {
						case *gatewayv1.Gateway, *gatewayv1.HTTPRoute, *gatewayv1.GatewayClass, *apiv1.Secret:
							plan.ApplyAfter[j] = true
						}
					}
				}
				plan.Transient = k%3 == 2
			}
			rep := oneRep(objs, opts, or.Fork(), k, plan)
			if rep.Panic != "" {
				emit(w, map[string]any{"site": "panic", "sc": i, "rep": k, "where": p.PanicSite(rep.Panic), "desc": line.Desc})
				panics++
				bad = true
				break
			}
			if rep.Out.Graph == nil || rep.Out.Conf == nil {
				emit(w, map[string]any{"site": "skip", "sc": i, "why": "no graph", "desc": line.Desc})
				bad = true
				break
			}
			secs := map[string]string{}
			for name, v := range rep.Sections {
				secs[name] = digest(v)
			}
			desc := arrivalDesc(plan.Order, plan.ApplyAfter)
			if plan.Transient {
				desc += " | +transient-older-gateway -transient"
			}
			// the objects as the store holds them at the end (GatewayClass generation bumped), in arrival order
			cur := make([]client.Object, 0, len(plan.Order))
			for _, o := range plan.Order {
				if g, ok := o.(*gatewayv1.GatewayClass); ok && g.Name == opts.Class {
					g2 := g.DeepCopy()
					g2.Generation = 2
					cur = append(cur, g2)
					continue
				}
				cur = append(cur, o)
			}
			ports, slices := endpointView(plan.Order)
			lo := layerOrder{
				Arrival: desc,
				Flat:    c02.Flatten(plan.Order, opts),
				Files: c02.Files{HTTP: p.FileText(rep.Out.Files, httpConfPath), Stream: p.FileText(rep.Out.Files, streamConfPath),
					Matches: p.FileText(rep.Out.Files, matchesPath)},
				Secs:    secs,
				In:      c06.Flatten(plan.Order),
				Ports:   ports,
				Slices:  slices,
				Secrets: secretView(plan.Order),
				SFiles:  []lFile{},
				St:      c07.Statuses(cur, rep.Status),
				Objs:    c07.FlatObjects(cur),
			}
			for _, f := range p.SortedFiles(rep.Out.Files) {
				if strings.HasPrefix(f.Path, "/etc/nginx/secrets/") {
					lo.SFiles = append(lo.SFiles, lFile{Path: f.Path, Content: string(f.Content)})
				}
			}
			line.Orders = append(line.Orders, lo)
		}
		if !bad {
			emit(w, line)
		}
		w.Flush()
	}
	emit(w, map[string]any{"site": "tags", "tags": tags})
}
