package c08

import (
	"strconv"
	"strings"

	"github.com/nginx/nginx-gateway-fabric/verifharness/rng"
)

const ownCtlr = "gateway.nginx.org/nginx-gateway-controller"

// foreign controller names include one that has ours as a prefix and one that is a prefix of ours
var foreignCtlrs = []string{
	"example.com/other-controller",
	"gateway.nginx.org/nginx-gateway-controller-2",
	"gateway.nginx.org/nginx-gateway",
	"istio.io/gateway-controller",
}

// Case is one generated scenario; it is also what a replay line decodes to.
type Case struct {
	Variant string
	Ctlr    string
	New     []Entry
	Store   []Entry
	Sched   []op
	Lenient bool   // contains values the CRD would not admit (nil/"" pointer equivalence probes)
	Profile string // how prev was derived from new
	// Prepared != 0: the setter comes from the real Prepare*Requests functions (preparedReq with this
	// seed) and New is what it computes; LongMsg: from longMessageReq.
	Prepared uint64
	LongMsg  bool
	// live drift: Snap is the status of the (cached) object the graph was built from, i.e. what the
	// ancestor-full checks saw when New was computed; Store is the LIVE object the first Get returns.
	HasSnap  bool
	Snap     []Entry
	DriftOps string
}

func countForeign(st []Entry, ctlr string) int {
	n := 0
	for _, e := range st {
		if e.Ctlr != ctlr {
			n++
		}
	}
	return n
}

// driftInfo: "-" when the live object is the one the status was computed from, otherwise
// <edits>:<foreign entries in the snapshot>:<foreign entries in the live object>:<own computed entries>.
func (c *Case) driftInfo() string {
	if !c.HasSnap || encStatus(c.Snap) == encStatus(c.Store) {
		return "-"
	}
	ops := c.DriftOps
	if ops == "" {
		ops = "replay"
	}
	return ops + ":" + strconv.Itoa(countForeign(c.Snap, c.Ctlr)) + ":" + strconv.Itoa(countForeign(c.Store, c.Ctlr)) +
		":" + strconv.Itoa(len(c.New))
}

// entryLimit is the CRD's maxItems of the entry list (parents 32, ancestors 16, controllers 16): what an
// object accepted by the API server can hold at most.
func entryLimit(k *kindOps) int {
	if k.mode == "ownFirst" {
		return 32
	}
	return 16
}

// driftStatus: what other controllers did to the object between the graph build and our write: foreign
// entries added (never beyond the CRD limit: the live object was accepted by the API server), removed,
// reordered or altered. fill: add as many foreign entries as fit, at least one.
func driftStatus(r *rng.R, k *kindOps, c *Case, snap []Entry, fill bool) ([]Entry, string) {
	out := cloneStatus(snap)
	limit := entryLimit(k)
	var names []string
	add := func() {
		if len(out) >= limit {
			return
		}
		e := genEntry(r, k, rng.Pick(r, foreignCtlrs), int64(r.Intn(9)), 1650000000+int64(r.Intn(1000)), false)
		if len(e.Ref) == 6 {
			e.Ref[3] = "drift-gw" + strconv.Itoa(len(out))
		}
		i := len(out)
		if r.Chance(1, 3) {
			i = r.Intn(len(out) + 1)
		}
		out = append(out[:i], append([]Entry{e}, out[i:]...)...)
		names = append(names, "add")
	}
	foreignIdx := func() []int {
		var idx []int
		for i, e := range out {
			if e.Ctlr != c.Ctlr {
				idx = append(idx, i)
			}
		}
		return idx
	}
	if fill {
		free := limit - len(out)
		n := free // half of the time the other controllers use up every free slot
		if free > 1 && r.Bool() {
			n = 1 + r.Intn(free)
		}
		for i := 0; i < n; i++ {
			add()
		}
	}
	for i, n := 0, r.Intn(3); i < n || len(names) == 0; i++ {
		switch p := r.Intn(6); {
		case p < 2:
			add()
		case p == 2:
			if idx := foreignIdx(); len(idx) > 0 {
				j := idx[r.Intn(len(idx))]
				out = append(out[:j], out[j+1:]...)
				names = append(names, "remove")
			}
		case p == 3:
			if len(out) > 1 {
				rng.Shuffle(r, out)
				names = append(names, "reorder")
			}
		case p == 4:
			if idx := foreignIdx(); len(idx) > 0 {
				j := idx[r.Intn(len(idx))]
				out[j], _ = perturbEntry(r, k, out[j])
				names = append(names, "alter")
			}
		default:
			if idx := foreignIdx(); len(idx) > 0 && len(out) < limit { // the other controller wrote an entry twice
				out = append(out, retime(out[idx[r.Intn(len(idx))]], 1650000000))
				names = append(names, "dup")
			}
		}
		if i > 8 {
			break
		}
	}
	return out, strings.Join(names, "+")
}

var (
	condTypes   = []string{"Accepted", "ResolvedRefs", "PartiallyInvalid", "Programmed", "Conflicted", "SupportedVersion", "Valid", "example.com/Custom"}
	condReasons = []string{"Accepted", "ResolvedRefs", "UnsupportedValue", "InvalidListener", "BackendNotFound", "NoMatchingParent", "Invalid", "a", "Foo_Bar:baz,q"}
	condMsgs    = []string{"", "ok", "The route is accepted", "All references are resolved",
		"spec.rules[0].matches[0].path.value: Invalid value: \"/a b\": must not contain whitespace; {}|#&,;%~*",
		"Gateway is ignored", "ünïcode ✓ message"}
)

func genMessage(r *rng.R) string {
	switch k := r.Intn(40); {
	case k == 0:
		return strings.Repeat("m", 32768) // longest admissible
	case k == 1:
		return strings.Repeat("long message ", 200)
	default:
		return rng.Pick(r, condMsgs)
	}
}

func genCond(r *rng.R, typ string, gen, time int64) Cond {
	st := "True"
	if r.Bool() {
		st = "False"
	} else if r.Chance(1, 20) {
		st = "Unknown"
	}
	return Cond{Type: typ, Status: st, Reason: rng.Pick(r, condReasons), Message: genMessage(r), Gen: gen, Time: time}
}

func genConds(r *rng.R, gen, time int64) []Cond {
	n := 1 + r.Intn(3)
	if r.Chance(1, 25) {
		n = 8
	}
	types := append([]string(nil), condTypes...)
	rng.Shuffle(r, types)
	out := make([]Cond, 0, n)
	for i := 0; i < n && i < len(types); i++ {
		out = append(out, genCond(r, types[i], gen, time))
	}
	return out
}

func optOf(r *rng.R, nilNum, den int, vals ...string) string {
	if r.Chance(nilNum, den) {
		return nilRef
	}
	return rng.Pick(r, vals)
}

// genRef produces (group, kind, namespace, name, sectionName, port).
func genRef(r *rng.R, lenient bool) []string {
	ns := optOf(r, 1, 4, "ns1", "ns2")
	sec := optOf(r, 1, 2, "l1", "l2")
	group := optOf(r, 1, 2, "gateway.networking.k8s.io", "example.com")
	if lenient && r.Chance(1, 3) {
		ns = ""
	}
	if lenient && r.Chance(1, 3) {
		sec = ""
	}
	if lenient && r.Chance(1, 3) {
		group = ""
	}
	return []string{group, optOf(r, 1, 2, "Gateway", "Service", "HTTPRoute"), ns,
		rng.Pick(r, []string{"gw1", "gw2", "gw3"}), sec, optOf(r, 3, 4, "80", "443")}
}

func genEntry(r *rng.R, k *kindOps, ctlr string, gen, time int64, lenient bool) Entry {
	e := Entry{Ctlr: ctlr, Conds: genConds(r, gen, time)}
	if k.name != "SnippetsFilter" {
		e.Ref = genRef(r, lenient)
	}
	return e
}

func retime(e Entry, time int64) Entry {
	out := Entry{Ctlr: e.Ctlr, Ref: append([]string(nil), e.Ref...), Conds: append([]Cond(nil), e.Conds...)}
	for i := range out.Conds {
		out.Conds[i].Time = time
	}
	return out
}

// perturbEntry changes exactly one thing; returns what was changed.
func perturbEntry(r *rng.R, k *kindOps, e Entry) (Entry, string) {
	out := retime(e, e.Conds0Time())
	nc := len(out.Conds)
	choices := []string{"reason", "message", "gen", "status", "type", "dropcond", "addcond", "swapconds", "time"}
	if len(out.Ref) == 6 && k.mode != "whole" { // a ParentReference (flattened Gateway entries have their own perturbation)
		choices = append(choices, "ref0", "ref1", "ref2", "ref3", "ref4", "ref5", "ref2nil", "ref4nil")
	}
	what := rng.Pick(r, choices)
	i := 0
	if nc > 0 {
		i = r.Intn(nc)
	}
	switch what {
	case "reason":
		if nc > 0 {
			out.Conds[i].Reason += "X"
		}
	case "message":
		if nc > 0 {
			if len(out.Conds[i].Message) >= 32768 {
				out.Conds[i].Message = out.Conds[i].Message[:100]
			} else {
				out.Conds[i].Message += "."
			}
		}
	case "gen":
		if nc > 0 {
			out.Conds[i].Gen++
		}
	case "status":
		if nc > 0 {
			if out.Conds[i].Status == "True" {
				out.Conds[i].Status = "False"
			} else {
				out.Conds[i].Status = "True"
			}
		}
	case "type":
		if nc > 0 {
			out.Conds[i].Type += "X"
		}
	case "dropcond":
		if nc > 1 {
			out.Conds = append(out.Conds[:i], out.Conds[i+1:]...)
		} else {
			what = "time"
		}
	case "addcond":
		hasExtra := false
		for _, c := range out.Conds {
			hasExtra = hasExtra || c.Type == "Extra"
		}
		if nc < 8 && !hasExtra {
			out.Conds = append(out.Conds, Cond{Type: "Extra", Status: "True", Reason: "Extra", Gen: 1, Time: 1})
		} else {
			what = "time"
		}
	case "swapconds":
		if nc > 1 {
			out.Conds[0], out.Conds[nc-1] = out.Conds[nc-1], out.Conds[0]
		} else {
			what = "time"
		}
	case "time":
		for j := range out.Conds {
			out.Conds[j].Time += 1000
		}
	case "ref2nil", "ref4nil":
		idx := int(what[3] - '0')
		if out.Ref[idx] == nilRef {
			out.Ref[idx] = "other"
		} else {
			out.Ref[idx] = nilRef
		}
	default: // refN
		idx := int(what[3] - '0')
		if out.Ref[idx] == nilRef {
			out.Ref[idx] = "other"
			if idx == 5 {
				out.Ref[idx] = "8080"
			}
		} else if idx == 5 {
			out.Ref[idx] = "8081"
		} else {
			out.Ref[idx] += "x"
		}
	}
	return out, what
}

// Conds0Time is the time of the first condition (0 if none).
func (e Entry) Conds0Time() int64 {
	if len(e.Conds) == 0 {
		return 0
	}
	return e.Conds[0].Time
}

func genWholeStatus(r *rng.R, k *kindOps, gen, time int64) []Entry {
	top := Entry{Conds: genConds(r, gen, time)}
	if k.name != "Gateway" {
		return []Entry{top}
	}
	for i, n := 0, r.Intn(3); i < n; i++ {
		top.Ref = append(top.Ref, optOf(r, 1, 3, "IPAddress", "Hostname"), "10.0.0."+strconv.Itoa(r.Intn(4)))
	}
	out := []Entry{top}
	for i, n := 0, r.Intn(4); i < n; i++ {
		l := Entry{Ref: []string{"l" + strconv.Itoa(i), strconv.Itoa(r.Intn(3))}, Conds: genConds(r, gen, time)}
		for j, m := 0, r.Intn(3); j < m; j++ {
			l.Ref = append(l.Ref, rng.Pick(r, []string{"HTTPRoute", "GRPCRoute", "TLSRoute"}),
				optOf(r, 1, 3, "gateway.networking.k8s.io"))
		}
		out = append(out, l)
	}
	return out
}

func perturbWhole(r *rng.R, k *kindOps, st []Entry) ([]Entry, string) {
	out := cloneStatus(st)
	i := r.Intn(len(out))
	if k.name == "Gateway" && r.Chance(1, 3) {
		switch r.Intn(4) {
		case 0:
			if len(out) > 1 {
				return out[:len(out)-1], "droplistener"
			}
		case 1:
			if len(out) > 2 {
				out[1], out[2] = out[2], out[1]
				return out, "swaplisteners"
			}
		case 2:
			if len(out[i].Ref) > 0 {
				j := r.Intn(len(out[i].Ref))
				if out[i].Ref[j] == nilRef {
					out[i].Ref[j] = "IPAddress"
				} else if i > 0 && j == 1 {
					out[i].Ref[j] = "9"
				} else {
					out[i].Ref[j] += "x"
				}
				return out, "ref"
			}
		default:
			if len(out[0].Ref) >= 2 {
				out[0].Ref = out[0].Ref[2:]
				return out, "dropaddress"
			}
		}
	}
	e, what := perturbEntry(r, k, out[i])
	out[i] = e
	return out, what
}

// genCase builds a scenario for kind k. trim (may be nil) restricts the own entries to what the real
// ancestor-full checks admit for the generated previous status; it returns nil to skip the case.
func genCase(r *rng.R, k *kindOps, steps int, trim func(k *kindOps, prev, own []Entry) []Entry, prep uint64) *Case {
	c := &Case{Variant: k.variant, Ctlr: ownCtlr, Lenient: r.Chance(1, 25), Prepared: prep}
	gen := int64(1 + r.Intn(5))
	now := int64(1700000000 + r.Intn(1000))
	old := now - int64(1+r.Intn(100000))
	var given []Entry
	if prep != 0 {
		var ok bool
		if given, ok = preparedNew(k, prep); !ok {
			return nil
		}
		c.Lenient = false
		trim = nil
	}

	if k.mode == "whole" {
		c.Ctlr = ""
		c.New = genWholeStatus(r, k, gen, now)
		if prep != 0 {
			c.New = given
		}
		switch p := r.Intn(10); {
		case p < 4:
			c.Profile = "unchanged"
			c.Store = cloneStatus(c.New)
			for i := range c.Store {
				c.Store[i] = retime(c.Store[i], old)
			}
		case p < 8:
			var what string
			c.Store, what = perturbWhole(r, k, c.New)
			c.Profile = "one-field:" + what
		case p < 9:
			c.Profile = "empty"
			c.Store = []Entry{{}}
		default:
			c.Profile = "random"
			c.Store = genWholeStatus(r, k, gen-1, old)
		}
		c.Sched = genSched(r, k, steps, c)
		return c
	}

	// own computed entries
	nOwn := 1
	switch k.name {
	case "HTTPRoute", "GRPCRoute", "TLSRoute":
		nOwn = r.Intn(4)
		if r.Chance(1, 10) {
			nOwn = 1
		}
	case "NGFPolicy":
		nOwn = 1 + r.Intn(3)
		if r.Chance(1, 12) {
			nOwn = 4 + r.Intn(16)
		}
	}
	if prep != 0 {
		nOwn = 0
		c.New = given
	}
	for i := 0; i < nOwn; i++ {
		e := genEntry(r, k, ownCtlr, gen, now, c.Lenient)
		if r.Chance(9, 10) { // mostly distinct references, as the CRD's CEL rules demand
			if len(e.Ref) == 6 {
				e.Ref[3] = "gw" + strconv.Itoa(i+1)
			}
		}
		c.New = append(c.New, e)
	}

	// own part of the previous status
	var prevOwn []Entry
	switch p := r.Intn(20); {
	case p < 6:
		c.Profile = "unchanged"
		for _, e := range c.New {
			prevOwn = append(prevOwn, retime(e, old))
		}
		if len(prevOwn) > 1 && r.Chance(1, 3) {
			rng.Shuffle(r, prevOwn)
			c.Profile = "unchanged-permuted"
		}
		if len(prevOwn) > 0 && r.Chance(1, 6) {
			prevOwn = append(prevOwn, prevOwn[r.Intn(len(prevOwn))])
			c.Profile = "unchanged-dup-own"
		}
	case p < 13:
		c.Profile = "one-field"
		for _, e := range c.New {
			prevOwn = append(prevOwn, retime(e, old))
		}
		if len(prevOwn) > 0 {
			i := r.Intn(len(prevOwn))
			var what string
			prevOwn[i], what = perturbEntry(r, k, prevOwn[i])
			c.Profile = "one-field:" + what
		}
	case p < 17:
		c.Profile = "stale"
		for i, n := 0, 1+r.Intn(3); i < n; i++ {
			prevOwn = append(prevOwn, genEntry(r, k, ownCtlr, gen-1, old, c.Lenient))
		}
		if len(c.New) > 0 && r.Bool() {
			prevOwn = append(prevOwn, retime(c.New[0], old))
		}
	default:
		c.Profile = "no-own"
	}

	// foreign part
	maxForeign := 20 - len(prevOwn)
	if k.mode == "foreignFirst" && maxForeign > 16-len(prevOwn) {
		// a previous status the CRD admits (maxItems 16); the real "ancestor list is full" checks decide
		// (in trimOwn) how many own entries may be added
		maxForeign = 16 - len(prevOwn)
	}
	if k.name == "SnippetsFilter" && maxForeign > 15-len(prevOwn) {
		maxForeign = 15 - len(prevOwn) // 16 foreign controllers: known finding, kept in the corpus only
	}
	if prep != 0 && k.mode == "foreignFirst" && maxForeign > 11-len(prevOwn) {
		maxForeign = 11 - len(prevOwn) // the prepared policies were attached without looking at prev: stay far from "full"
	}
	if maxForeign < 0 {
		maxForeign = 0
	}
	nForeign := 0
	switch p := r.Intn(10); {
	case p < 2:
	case p < 8:
		nForeign = 1 + r.Intn(4)
	default:
		nForeign = r.Intn(maxForeign + 1)
	}
	if k.mode == "foreignFirst" && r.Chance(1, 5) {
		nForeign = maxForeign // the previous status is exactly full
	}
	if nForeign > maxForeign {
		nForeign = maxForeign
	}
	// live drift (decided here, applied below): the object fetched by the retry function is not the one the
	// graph was built from. Half of these start from a snapshot with 1..3 free slots under the CRD limit
	// (policies: 13..15 entries, routes: 29..31) which the other controllers then fill.
	drift := r.Chance(1, 4)
	nearLimit := drift && prep == 0 && r.Bool()
	if nearLimit {
		if nForeign = entryLimit(k) - len(prevOwn) - 1 - r.Intn(3); nForeign < 0 {
			nForeign = 0
		}
	}
	var prevForeign []Entry
	for i := 0; i < nForeign; i++ {
		var e Entry
		switch {
		case len(c.New) > 0 && r.Chance(1, 5): // same reference and conditions as one of ours, other controller
			e = retime(c.New[r.Intn(len(c.New))], old)
			e.Ctlr = rng.Pick(r, foreignCtlrs)
		case len(prevForeign) > 0 && r.Chance(1, 6): // exact duplicate of a foreign entry
			e = retime(prevForeign[r.Intn(len(prevForeign))], old)
		default:
			e = genEntry(r, k, rng.Pick(r, foreignCtlrs), int64(r.Intn(9)), old-int64(r.Intn(1000)), c.Lenient)
		}
		prevForeign = append(prevForeign, e)
	}
	switch r.Intn(3) {
	case 0:
		c.Store = append(append([]Entry{}, prevOwn...), prevForeign...)
	case 1:
		c.Store = append(append([]Entry{}, prevForeign...), prevOwn...)
	default:
		c.Store = append(append([]Entry{}, prevOwn...), prevForeign...)
		rng.Shuffle(r, c.Store)
	}
	if trim != nil {
		c.New = trim(k, c.Store, c.New)
		if len(c.New) == 0 && k.mode == "foreignFirst" {
			return nil // no ancestors / list full: the Prepare* functions emit no request
		}
	}
	// what the graph (and the real ancestor-full checks in trim) saw; the write lands on the live object
	c.HasSnap, c.Snap = true, cloneStatus(c.Store)
	if drift {
		c.Store, c.DriftOps = driftStatus(r, k, c, c.Snap, nearLimit)
	}
	c.Sched = genSched(r, k, steps, c)
	return c
}

// genSched: failure schedule of at most steps+1 ops; conflicts carry the status another writer stored.
func genSched(r *rng.R, k *kindOps, steps int, c *Case) []op {
	n := 0
	switch p := r.Intn(10); {
	case p < 4:
	case p < 7:
		n = 1
	default:
		n = 1 + r.Intn(steps+1)
	}
	cur := c.Store
	var out []op
	for i := 0; i < n; i++ {
		var o op
		if r.Chance(1, 4) { // another writer changes the object between two attempts (before this Get)
			cur = pokeStatus(r, k, c, cur)
			o.hasPre, o.pre = true, cur
		}
		switch p := r.Intn(20); {
		case p < 4:
			o.kind = 'g'
		case p < 5:
			o.kind = 'n'
		case p < 10:
			o.kind = 'u'
		case p < 16:
			cur = pokeStatus(r, k, c, cur)
			o.kind, o.poke = 'c', cur
		default:
			o.kind = 'o'
		}
		out = append(out, o)
	}
	return out
}

// pokeStatus: what another writer stored in between (the cause of a conflict).
func pokeStatus(r *rng.R, k *kindOps, c *Case, cur []Entry) []Entry {
	out := cloneStatus(cur)
	if k.mode == "whole" {
		if r.Bool() {
			out, _ = perturbWhole(r, k, out)
		}
		return out
	}
	var foreignIdx []int
	for i, e := range out {
		if e.Ctlr != c.Ctlr {
			foreignIdx = append(foreignIdx, i)
		}
	}
	switch p := r.Intn(6); {
	case p == 0 && len(out) < entryLimit(k): // a foreign entry more (the object stays within the CRD limit)
		out = append(out, genEntry(r, k, rng.Pick(r, foreignCtlrs), 3, 1600000000, false))
	case p == 1 && len(foreignIdx) > 0:
		i := foreignIdx[r.Intn(len(foreignIdx))]
		out = append(out[:i], out[i+1:]...)
	case p == 2 && len(foreignIdx) > 0:
		i := foreignIdx[r.Intn(len(foreignIdx))]
		out[i], _ = perturbEntry(r, k, out[i])
	case p == 3:
		rng.Shuffle(r, out)
	case p == 4: // somebody wiped our entries
		var kept []Entry
		for _, e := range out {
			if e.Ctlr != c.Ctlr {
				kept = append(kept, e)
			}
		}
		out = kept
	}
	return out
}
