package c08

import (
	"context"
	"errors"
	"reflect"

	apierrors "k8s.io/apimachinery/pkg/api/errors"
	"k8s.io/apimachinery/pkg/runtime/schema"
	"sigs.k8s.io/controller-runtime/pkg/client"
)

// op is what the environment does to one attempt of the retry function.
type op struct {
	kind byte    // g: get error, n: not found, u: update error, c: update conflict (store := poke), o: ok
	poke []Entry // for c
	// live drift: another writer stored `pre` between the previous attempt and the Get of this one
	hasPre bool
	pre    []Entry
}

// fakeAPI is the scripted API client: controller.Getter + status.K8sUpdater (+ client.Client for
// the real Updater). One op of the schedule is consumed per Get; an exhausted schedule means ok.
type fakeAPI struct {
	client.Client // nil: every method not overridden below panics if the code under test calls it
	k             *kindOps
	store         client.Object
	sched         []op
	pos           int
	cur           op
	calls         []string
	jcalls        []string // the same for the judge, with NotFound distinguished (gn)
	gets          [][]Entry
	subs          [][]Entry
	schemas       *schemaSet // when set: every submitted object is checked against the CRD status schema
	schemaViol    []string
}

var errInjected = errors.New("injected failure")

func (f *fakeAPI) Get(_ context.Context, _ client.ObjectKey, obj client.Object, _ ...client.GetOption) error {
	f.cur = op{kind: 'o'}
	if f.pos < len(f.sched) {
		f.cur = f.sched[f.pos]
	}
	f.pos++
	if f.cur.hasPre {
		f.k.setStatus(f.store, cloneStatus(f.cur.pre))
	}
	switch f.cur.kind {
	case 'g':
		f.calls = append(f.calls, "g0")
		f.jcalls = append(f.jcalls, "g0")
		return errInjected
	case 'n':
		f.calls = append(f.calls, "g0")
		f.jcalls = append(f.jcalls, "gn")
		return apierrors.NewNotFound(schema.GroupResource{Resource: "x"}, "obj")
	}
	// like the cache reader of controller-runtime: the whole object is replaced by a deep copy
	reflect.ValueOf(obj).Elem().Set(reflect.ValueOf(f.store.DeepCopyObject()).Elem())
	f.calls = append(f.calls, "g1")
	f.jcalls = append(f.jcalls, "g1")
	f.gets = append(f.gets, f.k.getStatus(obj))
	return nil
}

type fakeStatusWriter struct {
	client.SubResourceWriter
	f *fakeAPI
}

func (f *fakeAPI) Status() client.SubResourceWriter { return fakeStatusWriter{f: f} }

func (w fakeStatusWriter) Update(ctx context.Context, obj client.Object, _ ...client.SubResourceUpdateOption) error {
	return w.f.statusUpdate(ctx, obj)
}

// statusUpdate is the status subresource update (status.K8sUpdater is satisfied by Status()).
func (f *fakeAPI) statusUpdate(_ context.Context, obj client.Object) error {
	sub := f.k.getStatus(obj)
	f.subs = append(f.subs, sub)
	if f.schemas != nil {
		f.schemaViol = append(f.schemaViol, f.schemas.validateSubmitted(f.k.variant, f.k.version, obj)...)
	}
	switch f.cur.kind {
	case 'u':
		f.calls = append(f.calls, "u0")
		f.jcalls = append(f.jcalls, "u0")
		return errInjected
	case 'c':
		f.calls = append(f.calls, "u0")
		f.jcalls = append(f.jcalls, "u0")
		f.k.setStatus(f.store, cloneStatus(f.cur.poke))
		return apierrors.NewConflict(schema.GroupResource{Resource: "x"}, "obj", errInjected)
	}
	f.calls = append(f.calls, "u1")
	f.jcalls = append(f.jcalls, "u1")
	f.store = obj.DeepCopyObject().(client.Object)
	return nil
}
