package c08

import (
	"encoding/json"
	"fmt"
	"os"
	"path/filepath"
	"regexp"
	"sort"
	"strings"
	"unicode/utf8"

	"sigs.k8s.io/controller-runtime/pkg/client"
	"sigs.k8s.io/yaml"
)

// A small structural validator for the `status` part of the CRD OpenAPI schemas (what the API server
// checks on a status update, minus CEL rules): type, required, maxItems/minItems, maxLength/minLength,
// pattern, enum, minimum/maximum, list-map key uniqueness. It is applied to the JSON form of every
// object the code under test submits, independently of the Lean judge (which sees the entry-list view).

var crdFile = map[string]string{
	"HTTPRoute": "gw:gateway.networking.k8s.io_httproutes.yaml", "GRPCRoute": "gw:gateway.networking.k8s.io_grpcroutes.yaml",
	"TLSRoute":         "gw:gateway.networking.k8s.io_tlsroutes.yaml",
	"BackendTLSPolicy": "gw:gateway.networking.k8s.io_backendtlspolicies.yaml",
	"Gateway":          "gw:gateway.networking.k8s.io_gateways.yaml", "GatewayClass": "gw:gateway.networking.k8s.io_gatewayclasses.yaml",
	"ClientSettingsPolicy": "ngf:gateway.nginx.org_clientsettingspolicies.yaml",
	"ObservabilityPolicy":  "ngf:gateway.nginx.org_observabilitypolicies.yaml",
	"UpstreamSettingsPolicy": "ngf:gateway.nginx.org_upstreamsettingspolicies.yaml",
	"SnippetsFilter": "ngf:gateway.nginx.org_snippetsfilters.yaml", "NginxGateway": "ngf:gateway.nginx.org_nginxgateways.yaml",
}

type schemaSet struct {
	repo, gwapi string
	cache       map[string]map[string]any
	res         map[string]*regexp.Regexp
}

func newSchemaSet(repo, gwapi string) *schemaSet {
	return &schemaSet{repo: repo, gwapi: gwapi, cache: map[string]map[string]any{}, res: map[string]*regexp.Regexp{}}
}

// statusSchema returns properties.status of the version `apiVersion` (or the storage version).
func (s *schemaSet) statusSchema(variant, version string) (map[string]any, error) {
	key := variant + "/" + version
	if sc, ok := s.cache[key]; ok {
		return sc, nil
	}
	spec, ok := crdFile[variant]
	if !ok {
		return nil, fmt.Errorf("no CRD known for %s", variant)
	}
	var path string
	if strings.HasPrefix(spec, "gw:") {
		path = filepath.Join(s.gwapi, "config", "crd", "experimental", spec[3:])
	} else {
		path = filepath.Join(s.repo, "config", "crd", "bases", spec[4:])
	}
	b, err := os.ReadFile(path)
	if err != nil {
		return nil, err
	}
	var crd map[string]any
	if err := yaml.Unmarshal(b, &crd); err != nil {
		return nil, err
	}
	versions, _ := dig(crd, "spec", "versions").([]any)
	for _, v := range versions {
		vm, _ := v.(map[string]any)
		if vm["name"] != version {
			continue
		}
		st, _ := dig(vm, "schema", "openAPIV3Schema", "properties", "status").(map[string]any)
		if st == nil {
			return nil, fmt.Errorf("%s %s: no status schema", path, version)
		}
		s.cache[key] = st
		return st, nil
	}
	return nil, fmt.Errorf("%s: version %s not found", path, version)
}

func dig(v any, path ...string) any {
	for _, k := range path {
		m, ok := v.(map[string]any)
		if !ok {
			return nil
		}
		v = m[k]
	}
	return v
}

func num(v any) (float64, bool) {
	switch x := v.(type) {
	case float64:
		return x, true
	case int64:
		return float64(x), true
	case int:
		return float64(x), true
	}
	return 0, false
}

func (s *schemaSet) validate(sc map[string]any, v any, path string, out *[]string) {
	if len(*out) > 8 || sc == nil {
		return
	}
	add := func(kw string) { *out = append(*out, kw+"@"+path) }
	switch x := v.(type) {
	case nil:
		if n, _ := sc["nullable"].(bool); !n {
			add("null")
		}
	case map[string]any:
		if t, _ := sc["type"].(string); t != "" && t != "object" {
			add("type")
			return
		}
		if req, ok := sc["required"].([]any); ok {
			for _, r := range req {
				if _, has := x[r.(string)]; !has {
					add("required:" + r.(string))
				}
			}
		}
		props, _ := sc["properties"].(map[string]any)
		keys := make([]string, 0, len(x))
		for k := range x {
			keys = append(keys, k)
		}
		sort.Strings(keys)
		for _, k := range keys {
			if ps, ok := props[k].(map[string]any); ok {
				s.validate(ps, x[k], path+"."+k, out)
			}
		}
	case []any:
		if t, _ := sc["type"].(string); t != "" && t != "array" {
			add("type")
			return
		}
		if m, ok := num(sc["maxItems"]); ok && float64(len(x)) > m {
			add("maxItems")
		}
		if m, ok := num(sc["minItems"]); ok && float64(len(x)) < m {
			add("minItems")
		}
		if lt, _ := sc["x-kubernetes-list-type"].(string); lt == "map" {
			keys, _ := sc["x-kubernetes-list-map-keys"].([]any)
			seen := map[string]bool{}
			for _, it := range x {
				im, _ := it.(map[string]any)
				var kv []string
				for _, k := range keys {
					kv = append(kv, fmt.Sprint(im[k.(string)]))
				}
				id := strings.Join(kv, "\x00")
				if seen[id] {
					add("listMapKeyDuplicate")
					break
				}
				seen[id] = true
			}
		}
		items, _ := sc["items"].(map[string]any)
		for i, it := range x {
			s.validate(items, it, fmt.Sprintf("%s[%d]", path, i), out)
		}
	case string:
		if t, _ := sc["type"].(string); t != "" && t != "string" {
			add("type")
			return
		}
		n := float64(utf8.RuneCountInString(x))
		if m, ok := num(sc["maxLength"]); ok && n > m {
			add("maxLength")
		}
		if m, ok := num(sc["minLength"]); ok && n < m {
			add("minLength")
		}
		if p, ok := sc["pattern"].(string); ok {
			re := s.res[p]
			if re == nil {
				var err error
				if re, err = regexp.Compile(p); err != nil {
					add("badpattern")
					return
				}
				s.res[p] = re
			}
			if !re.MatchString(x) {
				add("pattern")
			}
		}
		if en, ok := sc["enum"].([]any); ok {
			found := false
			for _, e := range en {
				found = found || e == x
			}
			if !found {
				add("enum")
			}
		}
	case float64:
		if t, _ := sc["type"].(string); t != "" && t != "integer" && t != "number" {
			add("type")
			return
		}
		if m, ok := num(sc["minimum"]); ok && x < m {
			add("minimum")
		}
		if m, ok := num(sc["maximum"]); ok && x > m {
			add("maximum")
		}
	case bool:
		if t, _ := sc["type"].(string); t != "" && t != "boolean" {
			add("type")
		}
	}
}

// validateSubmitted returns the schema violations of obj.status ("keyword@path"), nil if none.
func (s *schemaSet) validateSubmitted(variant, version string, obj client.Object) []string {
	sc, err := s.statusSchema(variant, version)
	if err != nil {
		return []string{"schema-unavailable:" + err.Error()}
	}
	b, err := json.Marshal(obj)
	if err != nil {
		return []string{"marshal:" + err.Error()}
	}
	var m map[string]any
	if err := json.Unmarshal(b, &m); err != nil {
		return []string{"unmarshal:" + err.Error()}
	}
	st, ok := m["status"]
	if !ok {
		return nil
	}
	var out []string
	s.validate(sc, st, "status", &out)
	return out
}
