package c08

import (
	"fmt"
	"strconv"
	"strings"
)

// Decoder of the line encoding (replay of corpus / counterexample lines).

func unesc(s string) (string, error) {
	var b strings.Builder
	rs := []rune(s)
	for i := 0; i < len(rs); i++ {
		if rs[i] != '%' {
			b.WriteRune(rs[i])
			continue
		}
		j := i + 1
		for j < len(rs) && rs[j] != '$' {
			j++
		}
		if j >= len(rs) {
			return "", fmt.Errorf("unterminated escape in %q", s)
		}
		v, err := strconv.ParseInt(string(rs[i+1:j]), 16, 32)
		if err != nil {
			return "", err
		}
		b.WriteRune(rune(v))
		i = j
	}
	return b.String(), nil
}

func decCond(s string) (Cond, error) {
	f := strings.Split(s, ",")
	if len(f) != 6 {
		return Cond{}, fmt.Errorf("bad cond %q", s)
	}
	var c Cond
	var err error
	if c.Type, err = unesc(f[0]); err != nil {
		return c, err
	}
	if c.Status, err = unesc(f[1]); err != nil {
		return c, err
	}
	if c.Reason, err = unesc(f[2]); err != nil {
		return c, err
	}
	if c.Message, err = unesc(f[3]); err != nil {
		return c, err
	}
	if c.Gen, err = strconv.ParseInt(f[4], 10, 64); err != nil {
		return c, err
	}
	c.Time, err = strconv.ParseInt(f[5], 10, 64)
	return c, err
}

func decStatus(s string) ([]Entry, error) {
	if s == "*" {
		return nil, nil
	}
	var out []Entry
	for _, es := range strings.Split(s, ";") {
		p := strings.Split(es, "|")
		if len(p) != 3 {
			return nil, fmt.Errorf("bad entry %q", es)
		}
		var e Entry
		var err error
		if e.Ctlr, err = unesc(p[0]); err != nil {
			return nil, err
		}
		if p[1] != "*" {
			for _, f := range strings.Split(p[1], ",") {
				if f != nilRef {
					if f, err = unesc(f); err != nil {
						return nil, err
					}
				}
				e.Ref = append(e.Ref, f)
			}
		}
		if p[2] != "*" {
			for _, cs := range strings.Split(p[2], "&") {
				c, err := decCond(cs)
				if err != nil {
					return nil, err
				}
				e.Conds = append(e.Conds, c)
			}
		}
		out = append(out, e)
	}
	return out, nil
}

func decodeCase(line string) (*Case, int, error) {
	kv := map[string]string{}
	for _, f := range strings.Split(line, " ") {
		if i := strings.IndexByte(f, '='); i > 0 {
			kv[f[:i]] = f[i+1:]
		}
	}
	c := &Case{Variant: kv["variant"], Lenient: true, Profile: "replay"}
	if kindByVariant(c.Variant) == nil {
		return nil, 0, fmt.Errorf("unknown variant %q", c.Variant)
	}
	steps, err := strconv.Atoi(kv["steps"])
	if err != nil {
		return nil, 0, err
	}
	if c.Ctlr, err = unesc(kv["ctlr"]); err != nil {
		return nil, 0, err
	}
	if c.New, err = decStatus(kv["new"]); err != nil {
		return nil, 0, err
	}
	if c.Store, err = decStatus(kv["store"]); err != nil {
		return nil, 0, err
	}
	if sn, ok := kv["snap"]; ok {
		c.HasSnap = true
		if c.Snap, err = decStatus(sn); err != nil {
			return nil, 0, err
		}
	}
	var pokes [][]Entry
	if kv["pokes"] != "" {
		for _, ps := range strings.Split(kv["pokes"], "#") {
			p, err := decStatus(ps)
			if err != nil {
				return nil, 0, err
			}
			pokes = append(pokes, p)
		}
	}
	if kv["sched"] != "*" && kv["sched"] != "" {
		for _, o := range strings.Split(kv["sched"], ",") {
			var cur op
			if strings.HasPrefix(o, "e") { // e<i>+<op>: pokes[i] is stored right before this attempt's Get
				j := strings.IndexByte(o, '+')
				if j < 0 {
					return nil, 0, fmt.Errorf("bad op %q", o)
				}
				i, err := strconv.Atoi(o[1:j])
				if err != nil || i >= len(pokes) {
					return nil, 0, fmt.Errorf("bad op %q", o)
				}
				cur.hasPre, cur.pre = true, pokes[i]
				o = o[j+1:]
			}
			switch {
			case o == "g" || o == "n" || o == "u" || o == "o":
				cur.kind = o[0]
			case strings.HasPrefix(o, "c"):
				i, err := strconv.Atoi(o[1:])
				if err != nil || i >= len(pokes) {
					return nil, 0, fmt.Errorf("bad op %q", o)
				}
				cur.kind, cur.poke = 'c', pokes[i]
			default:
				return nil, 0, fmt.Errorf("bad op %q", o)
			}
			c.Sched = append(c.Sched, cur)
		}
	}
	return c, steps, nil
}
