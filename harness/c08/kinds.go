package c08

import (
	"strconv"

	metav1 "k8s.io/apimachinery/pkg/apis/meta/v1"
	"sigs.k8s.io/controller-runtime/pkg/client"
	gatewayv1 "sigs.k8s.io/gateway-api/apis/v1"
	"sigs.k8s.io/gateway-api/apis/v1alpha2"
	"sigs.k8s.io/gateway-api/apis/v1alpha3"

	ngfAPI "github.com/nginx/nginx-gateway-fabric/apis/v1alpha1"
	ngfAPIv2 "github.com/nginx/nginx-gateway-fabric/apis/v1alpha2"
	frameworkStatus "github.com/nginx/nginx-gateway-fabric/internal/framework/status"
	"github.com/nginx/nginx-gateway-fabric/internal/mode/static/nginx/config/policies"
	staticStatus "github.com/nginx/nginx-gateway-fabric/internal/mode/static/status"
)

// kindOps adapts one resource kind to the generic entry-list view of its status.
type kindOps struct {
	name      string // kind name in the Lean model's vocabulary
	variant   string // concrete Go type (several NGF policy types share one setter)
	version   string // served CRD version of that Go type
	mode      string // ownFirst | foreignFirst | whole
	newObj    func() client.Object
	setStatus func(obj client.Object, st []Entry)
	getStatus func(obj client.Object) []Entry
	setter    func(st []Entry, ctlr string) frameworkStatus.Setter
}

// spareCap makes the slices handed to the setter constructors carry unused capacity, so that the
// setters' `append` writes into the shared backing array instead of reallocating.
var spareCap bool

func withSpare[T any](s []T) []T {
	if !spareCap || s == nil {
		return s
	}
	return append(make([]T, 0, len(s)+5), s...)
}

// ---- conditions

func toConds(cs []Cond) []metav1.Condition {
	if cs == nil {
		return nil
	}
	out := make([]metav1.Condition, len(cs))
	for i, c := range cs {
		out[i] = metav1.Condition{
			Type: c.Type, Status: metav1.ConditionStatus(c.Status), Reason: c.Reason, Message: c.Message,
			ObservedGeneration: c.Gen, LastTransitionTime: metav1.Unix(c.Time, 0),
		}
	}
	return out
}

func fromConds(cs []metav1.Condition) []Cond {
	out := make([]Cond, len(cs))
	for i, c := range cs {
		out[i] = Cond{
			Type: c.Type, Status: string(c.Status), Reason: c.Reason, Message: c.Message,
			Gen: c.ObservedGeneration, Time: c.LastTransitionTime.Unix(),
		}
	}
	return out
}

// ---- ParentReference <-> six reference fields (group, kind, namespace, name, sectionName, port)

func ptrField[T ~string](p *T) string {
	if p == nil {
		return nilRef
	}
	return string(*p)
}

func fieldPtr[T ~string](s string) *T {
	if s == nilRef {
		return nil
	}
	v := T(s)
	return &v
}

func refFields(r gatewayv1.ParentReference) []string {
	port := nilRef
	if r.Port != nil {
		port = strconv.Itoa(int(*r.Port))
	}
	return []string{ptrField(r.Group), ptrField(r.Kind), ptrField(r.Namespace), string(r.Name), ptrField(r.SectionName), port}
}

func fieldsRef(f []string) gatewayv1.ParentReference {
	r := gatewayv1.ParentReference{
		Group: fieldPtr[gatewayv1.Group](f[0]), Kind: fieldPtr[gatewayv1.Kind](f[1]),
		Namespace: fieldPtr[gatewayv1.Namespace](f[2]), Name: gatewayv1.ObjectName(f[3]),
		SectionName: fieldPtr[gatewayv1.SectionName](f[4]),
	}
	if f[5] != nilRef {
		n, _ := strconv.Atoi(f[5])
		p := gatewayv1.PortNumber(n) //nolint:gosec
		r.Port = &p
	}
	return r
}

func toParents(st []Entry) []gatewayv1.RouteParentStatus {
	if st == nil {
		return nil
	}
	out := make([]gatewayv1.RouteParentStatus, len(st))
	for i, e := range st {
		out[i] = gatewayv1.RouteParentStatus{
			ParentRef: fieldsRef(e.Ref), ControllerName: gatewayv1.GatewayController(e.Ctlr), Conditions: toConds(e.Conds),
		}
	}
	return withSpare(out)
}

func fromParents(ps []gatewayv1.RouteParentStatus) []Entry {
	out := make([]Entry, len(ps))
	for i, p := range ps {
		out[i] = Entry{Ctlr: string(p.ControllerName), Ref: refFields(p.ParentRef), Conds: fromConds(p.Conditions)}
	}
	return out
}

func toAncestors(st []Entry) []v1alpha2.PolicyAncestorStatus {
	if st == nil {
		return nil
	}
	out := make([]v1alpha2.PolicyAncestorStatus, len(st))
	for i, e := range st {
		out[i] = v1alpha2.PolicyAncestorStatus{
			AncestorRef: fieldsRef(e.Ref), ControllerName: gatewayv1.GatewayController(e.Ctlr), Conditions: toConds(e.Conds),
		}
	}
	return withSpare(out)
}

func fromAncestors(as []v1alpha2.PolicyAncestorStatus) []Entry {
	out := make([]Entry, len(as))
	for i, a := range as {
		out[i] = Entry{Ctlr: string(a.ControllerName), Ref: refFields(a.AncestorRef), Conds: fromConds(a.Conditions)}
	}
	return out
}

func toControllers(st []Entry) []ngfAPI.ControllerStatus {
	if st == nil {
		return nil
	}
	out := make([]ngfAPI.ControllerStatus, len(st))
	for i, e := range st {
		out[i] = ngfAPI.ControllerStatus{ControllerName: gatewayv1.GatewayController(e.Ctlr), Conditions: toConds(e.Conds)}
	}
	return withSpare(out)
}

func fromControllers(cs []ngfAPI.ControllerStatus) []Entry {
	out := make([]Entry, len(cs))
	for i, c := range cs {
		out[i] = Entry{Ctlr: string(c.ControllerName), Conds: fromConds(c.Conditions)}
	}
	return out
}

// ---- Gateway status flattened: entry 0 = (addresses, conditions), then one entry per listener
// with ref = name, attachedRoutes, (kind, group)*

func toGatewayStatus(st []Entry) gatewayv1.GatewayStatus {
	var gs gatewayv1.GatewayStatus
	if len(st) == 0 {
		return gs
	}
	top := st[0]
	for i := 0; i+1 < len(top.Ref); i += 2 {
		gs.Addresses = append(gs.Addresses, gatewayv1.GatewayStatusAddress{
			Type: fieldPtr[gatewayv1.AddressType](top.Ref[i]), Value: top.Ref[i+1],
		})
	}
	gs.Conditions = toConds(top.Conds)
	for _, e := range st[1:] {
		n, _ := strconv.Atoi(e.Ref[1])
		ls := gatewayv1.ListenerStatus{
			Name: gatewayv1.SectionName(e.Ref[0]), AttachedRoutes: int32(n), //nolint:gosec
			Conditions: toConds(e.Conds), SupportedKinds: []gatewayv1.RouteGroupKind{},
		}
		for i := 2; i+1 < len(e.Ref); i += 2 {
			ls.SupportedKinds = append(ls.SupportedKinds, gatewayv1.RouteGroupKind{
				Kind: gatewayv1.Kind(e.Ref[i]), Group: fieldPtr[gatewayv1.Group](e.Ref[i+1]),
			})
		}
		gs.Listeners = append(gs.Listeners, ls)
	}
	return gs
}

func fromGatewayStatus(gs gatewayv1.GatewayStatus) []Entry {
	top := Entry{Conds: fromConds(gs.Conditions)}
	for _, a := range gs.Addresses {
		top.Ref = append(top.Ref, ptrField(a.Type), a.Value)
	}
	out := []Entry{top}
	for _, l := range gs.Listeners {
		e := Entry{Ref: []string{string(l.Name), strconv.Itoa(int(l.AttachedRoutes))}, Conds: fromConds(l.Conditions)}
		for _, k := range l.SupportedKinds {
			e.Ref = append(e.Ref, string(k.Kind), ptrField(k.Group))
		}
		out = append(out, e)
	}
	return out
}

func condsOnly(st []Entry) []metav1.Condition {
	if len(st) == 0 {
		return nil
	}
	return toConds(st[0].Conds)
}

var meta = metav1.ObjectMeta{Namespace: "ns", Name: "obj", ResourceVersion: "1", Generation: 7}

func policyKind(variant, version string, newObj func() policies.Policy) *kindOps {
	return &kindOps{
		name: "NGFPolicy", variant: variant, version: version, mode: "foreignFirst",
		newObj: func() client.Object { return newObj() },
		setStatus: func(o client.Object, st []Entry) {
			o.(policies.Policy).SetPolicyStatus(v1alpha2.PolicyStatus{Ancestors: toAncestors(st)})
		},
		getStatus: func(o client.Object) []Entry { return fromAncestors(o.(policies.Policy).GetPolicyStatus().Ancestors) },
		setter: func(st []Entry, c string) frameworkStatus.Setter {
			return staticStatus.VerifC08NGFPolicySetter(v1alpha2.PolicyStatus{Ancestors: toAncestors(st)}, c)
		},
	}
}

var allKinds = []*kindOps{
	{
		name: "HTTPRoute", variant: "HTTPRoute", version: "v1", mode: "ownFirst",
		newObj:    func() client.Object { return &gatewayv1.HTTPRoute{ObjectMeta: meta} },
		setStatus: func(o client.Object, st []Entry) { o.(*gatewayv1.HTTPRoute).Status.Parents = toParents(st) },
		getStatus: func(o client.Object) []Entry { return fromParents(o.(*gatewayv1.HTTPRoute).Status.Parents) },
		setter: func(st []Entry, c string) frameworkStatus.Setter {
			return staticStatus.VerifC08HTTPRouteSetter(
				gatewayv1.HTTPRouteStatus{RouteStatus: gatewayv1.RouteStatus{Parents: toParents(st)}}, c)
		},
	},
	{
		name: "GRPCRoute", variant: "GRPCRoute", version: "v1", mode: "ownFirst",
		newObj:    func() client.Object { return &gatewayv1.GRPCRoute{ObjectMeta: meta} },
		setStatus: func(o client.Object, st []Entry) { o.(*gatewayv1.GRPCRoute).Status.Parents = toParents(st) },
		getStatus: func(o client.Object) []Entry { return fromParents(o.(*gatewayv1.GRPCRoute).Status.Parents) },
		setter: func(st []Entry, c string) frameworkStatus.Setter {
			return staticStatus.VerifC08GRPCRouteSetter(
				gatewayv1.GRPCRouteStatus{RouteStatus: gatewayv1.RouteStatus{Parents: toParents(st)}}, c)
		},
	},
	{
		name: "TLSRoute", variant: "TLSRoute", version: "v1alpha2", mode: "ownFirst",
		newObj:    func() client.Object { return &v1alpha2.TLSRoute{ObjectMeta: meta} },
		setStatus: func(o client.Object, st []Entry) { o.(*v1alpha2.TLSRoute).Status.Parents = toParents(st) },
		getStatus: func(o client.Object) []Entry { return fromParents(o.(*v1alpha2.TLSRoute).Status.Parents) },
		setter: func(st []Entry, c string) frameworkStatus.Setter {
			return staticStatus.VerifC08TLSRouteSetter(
				v1alpha2.TLSRouteStatus{RouteStatus: gatewayv1.RouteStatus{Parents: toParents(st)}}, c)
		},
	},
	policyKind("ClientSettingsPolicy", "v1alpha1", func() policies.Policy { return &ngfAPI.ClientSettingsPolicy{ObjectMeta: meta} }),
	policyKind("ObservabilityPolicy", "v1alpha2", func() policies.Policy { return &ngfAPIv2.ObservabilityPolicy{ObjectMeta: meta} }),
	policyKind("UpstreamSettingsPolicy", "v1alpha1", func() policies.Policy { return &ngfAPI.UpstreamSettingsPolicy{ObjectMeta: meta} }),
	{
		name: "BackendTLSPolicy", variant: "BackendTLSPolicy", version: "v1alpha3", mode: "foreignFirst",
		newObj: func() client.Object { return &v1alpha3.BackendTLSPolicy{ObjectMeta: meta} },
		setStatus: func(o client.Object, st []Entry) {
			o.(*v1alpha3.BackendTLSPolicy).Status.Ancestors = toAncestors(st)
		},
		getStatus: func(o client.Object) []Entry { return fromAncestors(o.(*v1alpha3.BackendTLSPolicy).Status.Ancestors) },
		setter: func(st []Entry, c string) frameworkStatus.Setter {
			return staticStatus.VerifC08BackendTLSPolicySetter(v1alpha2.PolicyStatus{Ancestors: toAncestors(st)}, c)
		},
	},
	{
		name: "SnippetsFilter", variant: "SnippetsFilter", version: "v1alpha1", mode: "foreignFirst",
		newObj: func() client.Object { return &ngfAPI.SnippetsFilter{ObjectMeta: meta} },
		setStatus: func(o client.Object, st []Entry) {
			o.(*ngfAPI.SnippetsFilter).Status.Controllers = toControllers(st)
		},
		getStatus: func(o client.Object) []Entry { return fromControllers(o.(*ngfAPI.SnippetsFilter).Status.Controllers) },
		setter: func(st []Entry, c string) frameworkStatus.Setter {
			return staticStatus.VerifC08SnippetsFilterSetter(ngfAPI.SnippetsFilterStatus{Controllers: toControllers(st)}, c)
		},
	},
	{
		name: "Gateway", variant: "Gateway", version: "v1", mode: "whole",
		newObj:    func() client.Object { return &gatewayv1.Gateway{ObjectMeta: meta} },
		setStatus: func(o client.Object, st []Entry) { o.(*gatewayv1.Gateway).Status = toGatewayStatus(st) },
		getStatus: func(o client.Object) []Entry { return fromGatewayStatus(o.(*gatewayv1.Gateway).Status) },
		setter: func(st []Entry, _ string) frameworkStatus.Setter {
			return staticStatus.VerifC08GatewaySetter(toGatewayStatus(st))
		},
	},
	{
		name: "GatewayClass", variant: "GatewayClass", version: "v1", mode: "whole",
		newObj: func() client.Object { return &gatewayv1.GatewayClass{ObjectMeta: meta} },
		setStatus: func(o client.Object, st []Entry) {
			o.(*gatewayv1.GatewayClass).Status.Conditions = condsOnly(st)
		},
		getStatus: func(o client.Object) []Entry {
			return []Entry{{Conds: fromConds(o.(*gatewayv1.GatewayClass).Status.Conditions)}}
		},
		setter: func(st []Entry, _ string) frameworkStatus.Setter {
			return staticStatus.VerifC08GatewayClassSetter(gatewayv1.GatewayClassStatus{Conditions: condsOnly(st)})
		},
	},
	{
		name: "NginxGateway", variant: "NginxGateway", version: "v1alpha1", mode: "whole",
		newObj: func() client.Object { return &ngfAPI.NginxGateway{ObjectMeta: meta} },
		setStatus: func(o client.Object, st []Entry) {
			o.(*ngfAPI.NginxGateway).Status.Conditions = condsOnly(st)
		},
		getStatus: func(o client.Object) []Entry {
			return []Entry{{Conds: fromConds(o.(*ngfAPI.NginxGateway).Status.Conditions)}}
		},
		setter: func(st []Entry, _ string) frameworkStatus.Setter {
			return staticStatus.VerifC08NginxGatewaySetter(ngfAPI.NginxGatewayStatus{Conditions: condsOnly(st)})
		},
	},
}
