package c08

import (
	"errors"
	"strconv"
	"strings"

	metav1 "k8s.io/apimachinery/pkg/apis/meta/v1"
	"k8s.io/apimachinery/pkg/types"
	gatewayv1 "sigs.k8s.io/gateway-api/apis/v1"
	"sigs.k8s.io/gateway-api/apis/v1alpha2"
	"sigs.k8s.io/gateway-api/apis/v1alpha3"

	ngfAPI "github.com/nginx/nginx-gateway-fabric/apis/v1alpha1"
	"github.com/nginx/nginx-gateway-fabric/internal/framework/conditions"
	frameworkStatus "github.com/nginx/nginx-gateway-fabric/internal/framework/status"
	"github.com/nginx/nginx-gateway-fabric/internal/mode/static/nginx/config/policies"
	ngxvalidation "github.com/nginx/nginx-gateway-fabric/internal/mode/static/nginx/config/validation"
	staticConds "github.com/nginx/nginx-gateway-fabric/internal/mode/static/state/conditions"
	"github.com/nginx/nginx-gateway-fabric/internal/mode/static/state/graph"
	staticStatus "github.com/nginx/nginx-gateway-fabric/internal/mode/static/status"
	"github.com/nginx/nginx-gateway-fabric/verifharness/rng"
)

// The "prepared" profile: the setter is not built from a generated entry list but by the REAL
// Prepare*Requests functions from graph objects whose conditions come from the real constructors,
// so that what is submitted (condition counts, types, reasons) is what the controller computes.

var (
	routeCondsMsg = []func(string) conditions.Condition{
		staticConds.NewRouteUnsupportedValue, staticConds.NewRoutePartiallyInvalid,
		staticConds.NewRouteBackendRefInvalidKind, staticConds.NewRouteBackendRefRefNotPermitted,
		staticConds.NewRouteBackendRefRefBackendNotFound, staticConds.NewRouteBackendRefUnsupportedValue,
		staticConds.NewRouteUnsupportedConfiguration, staticConds.NewRouteInvalidIPFamily,
		staticConds.NewRouteResolvedRefsInvalidFilter, staticConds.NewRouteGatewayNotProgrammed,
	}
	routeCondsPlain = []func() conditions.Condition{
		staticConds.NewRouteInvalidGateway, staticConds.NewRouteResolvedRefs, staticConds.NewRouteAccepted,
	}
	routeFailed = []func() conditions.Condition{
		staticConds.NewRouteNotAllowedByListeners, staticConds.NewRouteNoMatchingListenerHostname,
		staticConds.NewRouteInvalidListener, staticConds.NewRouteHostnameConflict,
		staticConds.NewRouteNoMatchingParent, staticConds.NewRouteNotAcceptedGatewayIgnored,
	}
	listenerConds = []func(string) []conditions.Condition{
		staticConds.NewListenerUnsupportedValue, staticConds.NewListenerInvalidCertificateRef,
		staticConds.NewListenerInvalidRouteKinds, staticConds.NewListenerProtocolConflict,
		staticConds.NewListenerHostnameConflict, staticConds.NewListenerUnsupportedProtocol,
		staticConds.NewListenerRefNotPermitted,
	}
	policyConds = []func(string) conditions.Condition{
		staticConds.NewPolicyInvalid, staticConds.NewPolicyConflicted, staticConds.NewPolicyTargetNotFound,
		staticConds.NewPolicyNotAcceptedTargetConflict, staticConds.NewPolicyNotAcceptedNginxProxyNotSet,
	}
	prepMsgs = []string{"msg", "spec.rules[0].matches[0]: Invalid value", "a longer message, with punctuation; and {braces}"}
)

func genRouteConds(r *rng.R) []conditions.Condition {
	var out []conditions.Condition
	for i, n := 0, r.Intn(5); i < n; i++ {
		if r.Chance(1, 4) {
			out = append(out, rng.Pick(r, routeCondsPlain)())
		} else {
			out = append(out, rng.Pick(r, routeCondsMsg)(rng.Pick(r, prepMsgs)))
		}
	}
	return out
}

func genParentRefs(r *rng.R) []graph.ParentRef {
	var out []graph.ParentRef
	for i, n := 0, r.Intn(4); i < n; i++ {
		ref := graph.ParentRef{Idx: i, Gateway: types.NamespacedName{Namespace: "ns1", Name: "gw" + strconv.Itoa(i+1)}}
		if r.Bool() {
			s := gatewayv1.SectionName("l" + strconv.Itoa(r.Intn(2)))
			ref.SectionName = &s
		}
		switch r.Intn(3) {
		case 0:
			ref.Attachment = &graph.ParentRefAttachmentStatus{Attached: true}
		case 1:
			ref.Attachment = &graph.ParentRefAttachmentStatus{FailedCondition: rng.Pick(r, routeFailed)()}
		}
		out = append(out, ref)
	}
	return out
}

func reloadRes(r *rng.R) staticStatus.NginxReloadResult {
	if r.Chance(1, 4) {
		return staticStatus.NginxReloadResult{Error: errors.New("reload failed")}
	}
	return staticStatus.NginxReloadResult{}
}

// preparedReq returns a fresh UpdateRequest for kind k, a pure function of seed (calling it twice
// yields two independent closures over equal computed statuses), or nil when the real code would
// not emit a request.
func preparedReq(k *kindOps, seed uint64) *frameworkStatus.UpdateRequest {
	r := rng.New(seed)
	gen := int64(1 + r.Intn(5))
	now := metav1.Unix(int64(1700000000+r.Intn(1000)), 0)
	nsname := types.NamespacedName{Namespace: "ns", Name: "obj"}
	om := metav1.ObjectMeta{Namespace: "ns", Name: "obj", Generation: gen}
	var reqs []frameworkStatus.UpdateRequest
	switch k.variant {
	case "HTTPRoute", "GRPCRoute":
		rt, src := graph.RouteTypeHTTP, k.newObj()
		if k.variant == "GRPCRoute" {
			rt = graph.RouteTypeGRPC
		}
		src.SetGeneration(gen)
		route := &graph.L7Route{Source: src, RouteType: rt, ParentRefs: genParentRefs(r), Conditions: genRouteConds(r)}
		reqs = staticStatus.PrepareRouteRequests(nil,
			map[graph.RouteKey]*graph.L7Route{{NamespacedName: nsname, RouteType: rt}: route}, now, reloadRes(r), ownCtlr)
	case "TLSRoute":
		src := k.newObj()
		src.SetGeneration(gen)
		route := &graph.L4Route{Source: src, ParentRefs: genParentRefs(r), Conditions: genRouteConds(r)}
		reqs = staticStatus.PrepareRouteRequests(
			map[graph.L4RouteKey]*graph.L4Route{{NamespacedName: nsname}: route}, nil, now, reloadRes(r), ownCtlr)
	case "ClientSettingsPolicy", "ObservabilityPolicy", "UpstreamSettingsPolicy":
		src := k.newObj().(policies.Policy)
		src.SetGeneration(gen)
		pol := &graph.Policy{Source: src}
		for i, n := 0, 1+r.Intn(3); i < n; i++ {
			route := &graph.L7Route{
				Source: &gatewayv1.HTTPRoute{}, RouteType: graph.RouteTypeHTTP,
				Valid: r.Chance(3, 4), Attachable: true, ParentRefs: []graph.ParentRef{{}},
			}
			route.Source.SetNamespace("ns1")
			route.Source.SetName("r" + strconv.Itoa(i))
			graph.VerifC08AttachPolicyToRoute(pol, route, ownCtlr)
		}
		for i, n := 0, r.Intn(3); i < n; i++ {
			pol.Conditions = append(pol.Conditions, rng.Pick(r, policyConds)(rng.Pick(r, prepMsgs)))
		}
		reqs = staticStatus.PrepareNGFPolicyRequests(
			map[graph.PolicyKey]*graph.Policy{{NsName: nsname}: pol}, now, ownCtlr)
	case "BackendTLSPolicy":
		pol := &graph.BackendTLSPolicy{
			Source: &v1alpha3.BackendTLSPolicy{ObjectMeta: om}, IsReferenced: true,
			Gateway: types.NamespacedName{Namespace: "ns1", Name: "gw1"},
		}
		if r.Bool() {
			pol.Conditions = []conditions.Condition{staticConds.NewPolicyAccepted()}
		} else {
			for i, n := 0, 1+r.Intn(2); i < n; i++ {
				pol.Conditions = append(pol.Conditions, staticConds.NewPolicyInvalid(rng.Pick(r, prepMsgs)))
			}
		}
		reqs = staticStatus.PrepareBackendTLSPolicyRequests(
			map[types.NamespacedName]*graph.BackendTLSPolicy{nsname: pol}, now, ownCtlr)
	case "SnippetsFilter":
		sf := &graph.SnippetsFilter{Source: &ngfAPI.SnippetsFilter{ObjectMeta: om}}
		for i, n := 0, r.Intn(3); i < n; i++ {
			sf.Conditions = append(sf.Conditions, staticConds.NewSnippetsFilterInvalid(rng.Pick(r, prepMsgs)))
		}
		reqs = staticStatus.PrepareSnippetsFilterRequests(
			map[types.NamespacedName]*graph.SnippetsFilter{nsname: sf}, now, ownCtlr)
	case "Gateway":
		gw := &graph.Gateway{Source: &gatewayv1.Gateway{ObjectMeta: om}, Valid: r.Chance(4, 5)}
		if !gw.Valid {
			gw.Conditions = append(staticConds.NewGatewayInvalid(rng.Pick(r, prepMsgs)),
				staticConds.NewGatewayUnsupportedValue(rng.Pick(r, prepMsgs))...)
		}
		for i, n := 0, r.Intn(4); i < n; i++ {
			// SupportedKinds is never nil in a graph built by the real listener configurators
			l := &graph.Listener{Name: "l" + strconv.Itoa(i), Valid: r.Chance(2, 3), SupportedKinds: []gatewayv1.RouteGroupKind{}}
			if !l.Valid {
				for j, m := 0, 1+r.Intn(3); j < m; j++ {
					l.Conditions = append(l.Conditions, rng.Pick(r, listenerConds)(rng.Pick(r, prepMsgs))...)
				}
			}
			for j, m := 0, r.Intn(3); j < m; j++ {
				l.SupportedKinds = append(l.SupportedKinds, gatewayv1.RouteGroupKind{Kind: "HTTPRoute"})
			}
			l.Routes = map[graph.RouteKey]*graph.L7Route{}
			for j, m := 0, r.Intn(3); j < m; j++ {
				l.Routes[graph.RouteKey{NamespacedName: types.NamespacedName{Name: strconv.Itoa(j)}}] = &graph.L7Route{}
			}
			gw.Listeners = append(gw.Listeners, l)
		}
		var addrs []gatewayv1.GatewayStatusAddress
		if r.Bool() {
			t := gatewayv1.IPAddressType
			addrs = append(addrs, gatewayv1.GatewayStatusAddress{Type: &t, Value: "10.0.0.1"})
		}
		reqs = staticStatus.PrepareGatewayRequests(gw, nil, now, addrs, reloadRes(r))
	case "GatewayClass":
		gc := &graph.GatewayClass{Source: &gatewayv1.GatewayClass{ObjectMeta: om}}
		switch r.Intn(5) {
		case 0:
			gc.Conditions = conditions.NewGatewayClassSupportedVersionBestEffort("v1.2.1")
		case 1:
			gc.Conditions = conditions.NewGatewayClassUnsupportedVersion("v1.2.1")
		case 2:
			gc.Conditions = []conditions.Condition{staticConds.NewGatewayClassRefNotFound(),
				staticConds.NewGatewayClassInvalidParameters(rng.Pick(r, prepMsgs))}
		case 3:
			gc.Conditions = []conditions.Condition{staticConds.NewGatewayClassResolvedRefs()}
		}
		reqs = staticStatus.PrepareGatewayClassRequests(gc, nil, now)
	case "NginxGateway":
		res := staticStatus.ControlPlaneUpdateResult{}
		if r.Bool() {
			res.Error = errors.New("bad log level")
		}
		if req := staticStatus.PrepareNginxGatewayStatus(&ngfAPI.NginxGateway{ObjectMeta: om}, now, res); req != nil {
			reqs = append(reqs, *req)
		}
	}
	if len(reqs) != 1 {
		return nil
	}
	return &reqs[0]
}

// preparedNew is the status a prepared request computes: what its setter writes onto an object
// without any previous status.
func preparedNew(k *kindOps, seed uint64) ([]Entry, bool) {
	req := preparedReq(k, seed)
	if req == nil {
		return nil, false
	}
	obj := k.newObj()
	req.Setter(obj)
	return k.getStatus(obj), true
}

// longMessageCase: an admissible HTTPRoute / GRPCRoute (16 rules, one header match each, header
// values of 4096 characters that the NGINX validator rejects) goes through the REAL route builder;
// its aggregated validation message exceeds the CRD's maxLength for condition messages.
func longMessageReq(variant string) (*frameworkStatus.UpdateRequest, []Entry) {
	k := kindByVariant(variant)
	gwNs := types.NamespacedName{Namespace: "ns", Name: "gw"}
	gwName := gatewayv1.ObjectName("gw")
	bad := strings.Repeat("v", 4090) + "$bad\""
	validator := ngxvalidation.HTTPValidator{}
	nsname := types.NamespacedName{Namespace: "ns", Name: "obj"}
	build := func() *graph.L7Route {
		if variant == "HTTPRoute" {
			hr := &gatewayv1.HTTPRoute{ObjectMeta: meta}
			hr.Spec.ParentRefs = []gatewayv1.ParentReference{{Name: gwName}}
			for i := 0; i < 16; i++ {
				hr.Spec.Rules = append(hr.Spec.Rules, gatewayv1.HTTPRouteRule{Matches: []gatewayv1.HTTPRouteMatch{{
					Headers: []gatewayv1.HTTPHeaderMatch{{Name: "x-h", Value: bad}},
				}}})
			}
			return graph.VerifC08BuildHTTPRoute(validator, hr, []types.NamespacedName{gwNs})
		}
		gr := &gatewayv1.GRPCRoute{ObjectMeta: meta}
		gr.Spec.ParentRefs = []gatewayv1.ParentReference{{Name: gwName}}
		for i := 0; i < 16; i++ {
			gr.Spec.Rules = append(gr.Spec.Rules, gatewayv1.GRPCRouteRule{Matches: []gatewayv1.GRPCRouteMatch{{
				Headers: []gatewayv1.GRPCHeaderMatch{{Name: "x-h", Value: bad}},
			}}})
		}
		return graph.VerifC08BuildGRPCRoute(validator, gr, []types.NamespacedName{gwNs})
	}
	mk := func() *frameworkStatus.UpdateRequest {
		route := build()
		if route == nil {
			return nil
		}
		reqs := staticStatus.PrepareRouteRequests(nil,
			map[graph.RouteKey]*graph.L7Route{{NamespacedName: nsname, RouteType: route.RouteType}: route},
			metav1.Unix(1700000000, 0), staticStatus.NginxReloadResult{}, ownCtlr)
		if len(reqs) != 1 {
			return nil
		}
		return &reqs[0]
	}
	first := mk()
	if first == nil {
		return nil, nil
	}
	obj := k.newObj()
	first.Setter(obj)
	return mk(), k.getStatus(obj)
}

var _ = v1alpha2.PolicyStatus{}
