// Package c08 drives the real status setters of internal/mode/static/status through the real
// framework/status.NewRetryUpdateFunc / Updater against a scripted API client.
package c08

import (
	"fmt"
	"strconv"
	"strings"
)

// Cond / Entry mirror NGF.StatusWrite.Cond / Entry of the Lean model.
type Cond struct {
	Type, Status, Reason, Message string
	Gen                           int64
	Time                          int64
}

// Entry: Ref uses "~" for a nil pointer.
type Entry struct {
	Ctlr  string
	Ref   []string
	Conds []Cond
}

const nilRef = "~"

func okChar(r rune) bool {
	return r >= 'a' && r <= 'z' || r >= 'A' && r <= 'Z' || r >= '0' && r <= '9' ||
		r == '_' || r == '.' || r == ':' || r == '/' || r == '-'
}

func esc(s string) string {
	var b strings.Builder
	for _, r := range s {
		if okChar(r) {
			b.WriteRune(r)
		} else {
			fmt.Fprintf(&b, "%%%x$", r)
		}
	}
	return b.String()
}

func encCond(c Cond) string {
	return esc(c.Type) + "," + esc(c.Status) + "," + esc(c.Reason) + "," + esc(c.Message) + "," +
		strconv.FormatInt(c.Gen, 10) + "," + strconv.FormatInt(c.Time, 10)
}

func encConds(cs []Cond) string {
	if len(cs) == 0 {
		return "*"
	}
	p := make([]string, len(cs))
	for i, c := range cs {
		p[i] = encCond(c)
	}
	return strings.Join(p, "&")
}

func encRefField(s string) string {
	if s == nilRef {
		return nilRef
	}
	return esc(s)
}

func encEntry(e Entry) string {
	r := "*"
	if len(e.Ref) > 0 {
		p := make([]string, len(e.Ref))
		for i, f := range e.Ref {
			p[i] = encRefField(f)
		}
		r = strings.Join(p, ",")
	}
	return esc(e.Ctlr) + "|" + r + "|" + encConds(e.Conds)
}

func encStatus(st []Entry) string {
	if len(st) == 0 {
		return "*"
	}
	p := make([]string, len(st))
	for i, e := range st {
		p[i] = encEntry(e)
	}
	return strings.Join(p, ";")
}

func encStatuses(l [][]Entry) string {
	p := make([]string, len(l))
	for i, s := range l {
		p[i] = encStatus(s)
	}
	return strings.Join(p, "#")
}

func cloneStatus(st []Entry) []Entry {
	out := make([]Entry, len(st))
	for i, e := range st {
		out[i] = Entry{Ctlr: e.Ctlr, Ref: append([]string(nil), e.Ref...), Conds: append([]Cond(nil), e.Conds...)}
	}
	return out
}
