package c08

import (
	"bufio"
	"context"
	"flag"
	"fmt"
	"os"
	"strconv"
	"strings"
	"sync"
	"time"

	"github.com/go-logr/logr"
	"k8s.io/apimachinery/pkg/types"
	"sigs.k8s.io/controller-runtime/pkg/client"
	gatewayv1 "sigs.k8s.io/gateway-api/apis/v1"

	"github.com/nginx/nginx-gateway-fabric/internal/framework/conditions"
	frameworkStatus "github.com/nginx/nginx-gateway-fabric/internal/framework/status"
	"github.com/nginx/nginx-gateway-fabric/internal/mode/static/nginx/config/policies"
	"github.com/nginx/nginx-gateway-fabric/internal/mode/static/state/graph"
	"github.com/nginx/nginx-gateway-fabric/verifharness/rng"
)

func kindByVariant(v string) *kindOps {
	for _, k := range allKinds {
		if k.variant == v {
			return k
		}
	}
	return nil
}

func encSched(c *Case) (sched, pokes string) {
	if len(c.Sched) == 0 {
		return "*", ""
	}
	var ops []string
	var ps [][]Entry
	for _, o := range c.Sched {
		pre := ""
		if o.hasPre {
			pre = "e" + strconv.Itoa(len(ps)) + "+"
			ps = append(ps, o.pre)
		}
		if o.kind == 'c' {
			ops = append(ops, pre+"c"+strconv.Itoa(len(ps)))
			ps = append(ps, o.poke)
		} else {
			ops = append(ops, pre+string(o.kind))
		}
	}
	return strings.Join(ops, ","), encStatuses(ps)
}

func modelLine(c *Case, steps int) string {
	k := kindByVariant(c.Variant)
	sched, pokes := encSched(c)
	return fmt.Sprintf("kind=%s variant=%s ctlr=%s steps=%d new=%s store=%s sched=%s pokes=%s%s",
		k.name, c.Variant, esc(c.Ctlr), steps, encStatus(c.New), encStatus(c.Store), sched, pokes, snapField(c))
}

// snapField: the status of the (cached) object the computed status was derived from, when it is known;
// the model ignores it, the judge uses it only to NAME a violation (live drift or not).
func snapField(c *Case) string {
	if !c.HasSnap {
		return ""
	}
	return " snap=" + encStatus(c.Snap)
}

// schemas is set by -gwapi: the CRD status schemas every submitted object is validated against.
var schemas *schemaSet

type outcome struct {
	schema     string // CRD schema violations of the submitted objects ("-" if none)
	obs, judge string
	panicked   string
	invoked    int
}

// execCase runs the real setter under the real retry function against the scripted API.
// viaUpdater: through the real Updater.Update (real exponential backoff sleeps) instead of calling
// the function returned by NewRetryUpdateFunc `steps` times.
func execCase(c *Case, steps int, viaUpdater, spare bool) (out outcome) {
	k := kindByVariant(c.Variant)
	store := k.newObj()
	k.setStatus(store, cloneStatus(c.Store))
	f := &fakeAPI{k: k, store: store, sched: c.Sched, schemas: schemas}
	defer func() {
		if p := recover(); p != nil {
			out.panicked = fmt.Sprint(p)
		}
	}()
	var inner frameworkStatus.Setter
	switch {
	case c.LongMsg:
		req, _ := longMessageReq(c.Variant)
		inner = req.Setter
	case c.Prepared != 0:
		inner = preparedReq(k, c.Prepared).Setter
	default:
		if spare { // only in the sequential modes
			spareCap = true
		}
		inner = k.setter(cloneStatus(c.New), c.Ctlr)
		if spare {
			spareCap = false
		}
	}
	inv := 0
	setter := func(o client.Object) bool { inv++; return inner(o) }
	nsname := types.NamespacedName{Namespace: "ns", Name: "obj"}
	ctx, cancel := context.WithTimeout(context.Background(), 30*time.Second)
	defer cancel()
	doneFlag := "-" // what the retry function returned last (not observable through Updater.Update)
	if viaUpdater {
		u := frameworkStatus.NewUpdater(f, logr.Discard())
		u.Update(ctx, frameworkStatus.UpdateRequest{NsName: nsname, ResourceType: k.newObj(), Setter: setter})
	} else {
		fn := frameworkStatus.NewRetryUpdateFunc(f, f.Status(), nsname, k.newObj(), logr.Discard(), setter)
		doneFlag = "0"
		for i := 0; i < steps; i++ {
			done, err := fn(ctx)
			if done || err != nil {
				doneFlag = "1"
				break
			}
		}
	}
	calls := "*"
	if len(f.calls) > 0 {
		calls = strings.Join(f.calls, ",")
	}
	out.invoked = inv
	out.schema = "-"
	if len(f.schemaViol) > 0 {
		out.schema = esc(strings.Join(f.schemaViol, ","))
	}
	out.obs = fmt.Sprintf("calls:%s/subs:%s/store:%s/inv:%d", calls, encStatuses(f.subs), encStatus(k.getStatus(f.store)), inv)
	jcalls := "*"
	if len(f.jcalls) > 0 {
		jcalls = strings.Join(f.jcalls, ",")
	}
	out.judge = fmt.Sprintf("kind=%s ctlr=%s steps=%d new=%s calls=%s gets=%s subs=%s done=%s%s",
		k.name, esc(c.Ctlr), steps, encStatus(c.New), jcalls, encStatuses(f.gets), encStatuses(f.subs), doneFlag, snapField(c))
	return out
}

// trimOwn applies the REAL ancestor-full checks of the graph package to the generated previous
// status: for NGF policies every own ancestor goes through attachPolicyToRoute, for a
// BackendTLSPolicy a full list means no status request at all.
func trimOwn(k *kindOps, prev, own []Entry) []Entry {
	switch k.name {
	case "NGFPolicy":
		src := k.newObj().(policies.Policy)
		k.setStatus(src, cloneStatus(prev))
		pol := &graph.Policy{Source: src}
		for i := range own {
			// every other target is an invalid route: it still becomes an ancestor (with a TargetNotFound
			// condition) and must be subject to the same "list is full" check
			route := &graph.L7Route{
				Source:     &gatewayv1.HTTPRoute{},
				RouteType:  graph.RouteTypeHTTP,
				Valid:      i%2 == 0,
				Attachable: true,
				ParentRefs: []graph.ParentRef{{}},
			}
			route.Source.SetName("r" + strconv.Itoa(i))
			graph.VerifC08AttachPolicyToRoute(pol, route, ownCtlr)
		}
		return own[:len(pol.Ancestors)]
	case "BackendTLSPolicy":
		if graph.VerifC08BackendTLSPolicyAncestorsFull(toAncestors(prev), ownCtlr) {
			return nil
		}
		return own[:1]
	}
	return own
}

// Run is the entry point of harness command c08.
func Run(args []string) int {
	fs := flag.NewFlagSet("c08", flag.ExitOnError)
	seed := fs.Uint64("seed", 1, "seed")
	n := fs.Int("n", 1000, "number of cases")
	steps := fs.Int("steps", 4, "attempts of the retry loop (Steps of the backoff in updater.go)")
	mode := fs.String("mode", "retry", "retry | updater | replay | longmsg | dedup | attach")
	gwapi := fs.String("gwapi", "", "directory of the gateway-api module (CRD schemas); empty: no schema validation")
	_ = fs.Parse(args)
	if *gwapi != "" {
		repo := os.Getenv("VERIF_REPO")
		if repo == "" {
			repo = "/repo"
		}
		schemas = newSchemaSet(repo, *gwapi)
	}
	r := rng.New(*seed)
	w := bufio.NewWriter(os.Stdout)
	defer w.Flush()
	switch *mode {
	case "retry":
		anomalies := 0
		for i := 0; i < *n && anomalies < 12; i++ {
			cr := r.Fork()
			k := allKinds[cr.Intn(len(allKinds))]
			var prep uint64
			if cr.Chance(1, 3) {
				prep = cr.U64() | 1
			}
			c := genCase(cr, k, *steps, trimOwn, prep)
			if c == nil {
				fmt.Fprintf(w, "S kind=%s\n", k.name)
				continue
			}
			o := execCase(c, *steps, false, cr.Chance(1, 4))
			if o.panicked != "" {
				anomalies++
				fmt.Fprintf(w, "P %s\tM %s\n", esc(o.panicked), modelLine(c, *steps))
				continue
			}
			fmt.Fprintf(w, "M %s\tO %s\tJ %s\tI profile=%s lenient=%t prepared=%t schema=%s drift=%s\n", modelLine(c, *steps), o.obs, o.judge, c.Profile, c.Lenient, c.Prepared != 0, o.schema, c.driftInfo())
			w.Flush()
		}
	case "longmsg":
		// real route builder + real validator: aggregated message beyond the CRD's maxLength
		for _, v := range []string{"HTTPRoute", "GRPCRoute"} {
			req, st := longMessageReq(v)
			if req == nil {
				fmt.Fprintf(w, "X longmsg: no request for %s\n", v)
				continue
			}
			c := &Case{Variant: v, Ctlr: ownCtlr, New: st, LongMsg: true, Profile: "longmsg"}
			o := execCase(c, *steps, false, false)
			if o.panicked != "" {
				fmt.Fprintf(w, "P %s\tM %s\n", esc(o.panicked), modelLine(c, *steps))
				continue
			}
			fmt.Fprintf(w, "M %s\tO %s\tJ %s\tI profile=longmsg lenient=false prepared=true schema=%s\n", modelLine(c, *steps), o.obs, o.judge, o.schema)
		}
	case "updater":
		// the same, through the real Updater (real backoff sleeps): run concurrently
		cases := make([]*Case, 0, *n)
		for len(cases) < *n {
			cr := r.Fork()
			c := genCase(cr, allKinds[cr.Intn(len(allKinds))], *steps, trimOwn, 0)
			if c != nil {
				cases = append(cases, c)
			}
		}
		outs := make([]outcome, len(cases))
		var wg sync.WaitGroup
		for i := range cases {
			wg.Add(1)
			go func() { defer wg.Done(); outs[i] = execCase(cases[i], *steps, true, false) }()
		}
		wg.Wait()
		for i, c := range cases {
			if outs[i].panicked != "" {
				fmt.Fprintf(w, "P %s\tM %s\n", esc(outs[i].panicked), modelLine(c, *steps))
				continue
			}
			fmt.Fprintf(w, "M %s\tO %s\tJ %s\tI profile=%s lenient=%t prepared=false schema=%s drift=%s\n", modelLine(c, *steps), outs[i].obs, outs[i].judge, c.Profile, c.Lenient, outs[i].schema, c.driftInfo())
		}
	case "replay":
		sc := bufio.NewScanner(os.Stdin)
		sc.Buffer(make([]byte, 1<<20), 1<<28)
		for sc.Scan() {
			line := strings.TrimSpace(sc.Text())
			if line == "" || strings.HasPrefix(line, "#") {
				continue
			}
			c, st, err := decodeCase(line)
			if err != nil {
				fmt.Fprintf(w, "X bad replay line: %v\n", err)
				continue
			}
			o := execCase(c, st, false, false)
			if o.panicked != "" {
				fmt.Fprintf(w, "P %s\tM %s\n", esc(o.panicked), modelLine(c, st))
				continue
			}
			fmt.Fprintf(w, "M %s\tO %s\tJ %s\tI profile=replay lenient=false prepared=false schema=%s drift=%s\n", modelLine(c, st), o.obs, o.judge, o.schema, c.driftInfo())
		}
	case "dedup":
		for i := 0; i < *n; i++ {
			cr := r.Fork()
			m := cr.Intn(12)
			in := make([]conditions.Condition, m)
			cs := make([]Cond, m)
			for j := range in {
				c := genCond(cr, condTypes[cr.Intn(4)], 0, 0)
				cs[j] = c
				in[j] = conditions.Condition{Type: c.Type, Status: "True", Reason: c.Reason, Message: strconv.Itoa(j)}
				cs[j].Status, cs[j].Message = "True", strconv.Itoa(j)
			}
			got := conditions.DeduplicateConditions(in)
			outc := make([]Cond, len(got))
			for j, c := range got {
				outc[j] = Cond{Type: c.Type, Status: string(c.Status), Reason: c.Reason, Message: c.Message}
			}
			fmt.Fprintf(w, "M conds=%s\tO %s\n", encConds(cs), encConds(outc))
		}
	case "attach":
		for i := 0; i < *n; i++ {
			cr := r.Fork()
			k := kindByVariant("ClientSettingsPolicy")
			nf := cr.Intn(19)
			var cur []Entry
			for j := 0; j < nf; j++ {
				cur = append(cur, genEntry(cr, k, rng.Pick(cr, foreignCtlrs), 1, 1, false))
			}
			for j, m := 0, cr.Intn(3); j < m; j++ {
				cur = append(cur, genEntry(cr, k, ownCtlr, 1, 1, false))
			}
			rng.Shuffle(cr, cur)
			t := cr.Intn(20)
			own := make([]Entry, t)
			got := len(trimOwn(k, cur, own))
			full := 0
			if graph.VerifC08BackendTLSPolicyAncestorsFull(toAncestors(cur), ownCtlr) {
				full = 1
			}
			fmt.Fprintf(w, "M ctlr=%s max=%d cur=%s targets=%d\tO own=%d btpfull=%d\n",
				esc(ownCtlr), graph.VerifC08MaxAncestors, encStatus(cur), t, got, full)
		}
	default:
		fmt.Fprintln(os.Stderr, "unknown mode")
		return 2
	}
	return 0
}
