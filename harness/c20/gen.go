package c20

import (
	"fmt"
	"strconv"
	"strings"

	"github.com/nginx/nginx-gateway-fabric/verifharness/rng"
)

// ---------------------------------------------------------------- building blocks

const lowerAlnum = "abcdefghijklmnopqrstuvwxyz0123456789"

// hostile bytes: white space, NGINX token and block delimiters, quotes, variables, comments,
// brackets, signs, separators, upper case, non-ASCII and invalid UTF-8
var hostile = []string{" ", "\t", "\n", "\r", ";", "{", "}", "\"", "'", "$", "#", "\\", "[", "]", ":", ".", "-",
	"_", "+", "/", "%", "=", "?", "*", "A", "Z", "\x00", "\x7f", "\xc3\xa9", "\xff", "０", "..", "::", "--", "${"}

func genLabel(r *rng.R, max int) string {
	n := 1
	switch r.Intn(10) {
	case 0:
		n = max // boundary
	case 1:
		n = max + 1
	case 2, 3:
		n = r.Range(1, 3)
	default:
		n = r.Range(1, 12)
	}
	if n < 1 {
		n = 1
	}
	b := make([]byte, n)
	for i := range b {
		if i > 0 && i < n-1 && r.Chance(1, 6) {
			b[i] = '-'
		} else {
			b[i] = lowerAlnum[r.Intn(len(lowerAlnum))]
		}
	}
	return string(b)
}

func genDNS(r *rng.R) string {
	switch r.Intn(12) {
	case 0: // length boundary 253 / 254
		target := 253 + r.Intn(2)
		var parts []string
		total := 0
		for total < target {
			l := 63
			if target-total < 64 {
				l = target - total
			}
			parts = append(parts, strings.Repeat(string(lowerAlnum[r.Intn(26)]), l))
			total += l + 1
		}
		s := strings.Join(parts, ".")
		if len(s) > target {
			s = s[:target]
		}
		return s
	case 1:
		return genLabel(r, 63)
	case 2: // all-numeric labels look like an IP address
		return fmt.Sprintf("%d.%d.%d.%d", r.Intn(400), r.Intn(400), r.Intn(300), r.Intn(300))
	}
	k := r.Range(1, 5)
	parts := make([]string, k)
	for i := range parts {
		parts[i] = genLabel(r, 63)
	}
	return strings.Join(parts, ".")
}

func genV4(r *rng.R) string {
	oct := func() string {
		switch r.Intn(12) {
		case 0:
			return "0"
		case 1:
			return "255"
		case 2:
			return "256"
		case 3:
			return "0" + strconv.Itoa(r.Intn(100)) // leading zero
		case 4:
			return ""
		}
		return strconv.Itoa(r.Intn(256))
	}
	k := 4
	if r.Chance(1, 10) {
		k = r.Range(1, 6)
	}
	parts := make([]string, k)
	for i := range parts {
		parts[i] = oct()
	}
	return strings.Join(parts, ".")
}

func genGroup(r *rng.R) string {
	n := r.Range(1, 4)
	if r.Chance(1, 15) {
		n = 5
	}
	const hexd = "0123456789abcdefABCDEF"
	b := make([]byte, n)
	for i := range b {
		b[i] = hexd[r.Intn(len(hexd))]
	}
	if r.Chance(1, 25) {
		b[r.Intn(n)] = 'g'
	}
	return string(b)
}

// genV6 draws from the RFC 4291 text forms (full, one "::" anywhere, embedded IPv4 tail) with the group
// counts around the legal limits.
func genV6(r *rng.R) string {
	groups := func(k int) []string {
		out := make([]string, k)
		for i := range out {
			out[i] = genGroup(r)
		}
		return out
	}
	tail := ""
	units := 8
	if r.Chance(1, 4) {
		tail = fmt.Sprintf("%d.%d.%d.%d", r.Intn(256), r.Intn(256), r.Intn(256), r.Intn(256))
		units = 6
	}
	join := func(g []string, withTail bool) string {
		if withTail && tail != "" {
			g = append(g, tail)
		}
		return strings.Join(g, ":")
	}
	switch r.Intn(8) {
	case 0: // full form, possibly one group too many / too few
		k := units
		if r.Chance(1, 4) {
			k += r.Range(-1, 1)
		}
		if k < 0 {
			k = 0
		}
		return join(groups(k), true)
	case 1:
		return "::"
	case 2: // leading ellipsis
		return "::" + join(groups(r.Range(0, units)), true)
	case 3: // trailing ellipsis
		return strings.Join(groups(r.Range(1, 8)), ":") + "::"
	default:
		total := r.Range(1, units)
		if r.Chance(1, 6) {
			total = units + r.Intn(2) - 1
		}
		a := r.Range(1, total)
		if total-a == 0 && tail == "" {
			return strings.Join(groups(a), ":") + "::"
		}
		return strings.Join(groups(a), ":") + "::" + join(groups(total-a), true)
	}
}

func mutate(r *rng.R, s string) string {
	b := []byte(s)
	for k := r.Range(1, 2); k > 0; k-- {
		pos := 0
		if len(b) > 0 {
			pos = r.Intn(len(b) + 1)
			if r.Chance(1, 3) { // the ends matter most: prefixes, suffixes, trimming
				pos = []int{0, len(b)}[r.Intn(2)]
			}
		}
		h := rng.Pick(r, hostile)
		switch r.Intn(4) {
		case 0, 1: // insert
			b = append(b[:pos], append([]byte(h), b[pos:]...)...)
		case 2: // replace
			if pos < len(b) {
				b = append(b[:pos], append([]byte(h), b[pos+1:]...)...)
			}
		case 3: // delete
			if pos < len(b) {
				b = append(b[:pos], b[pos+1:]...)
			}
		}
	}
	return string(b)
}

var portTexts = []string{"0", "1", "2", "53", "80", "443", "1023", "1024", "1025", "8080", "32767", "32768", "32769",
	"49152", "65534", "65535", "65536", "65537", "99999", "100000", "2147483647", "2147483648", "4294967295",
	"4294967296", "4294967297", "9223372036854775807", "9223372036854775808", "18446744073709551616",
	"-1", "-0", "+0", "+1", "+80", "+65535", "+65536", "-65535", "080", "0080", "00000000000000000000000080",
	"000000000065535", "0x50", "0b1", "0o7", "8_0", "1_000", "_80", "80_", "1e3", "80.0", " 80", "80 ", "", "８０",
	"٨٠", "eighty", "+", "-", "++1", "+-1", "65535\n", "\t443"}

func genPort(r *rng.R) string {
	switch r.Intn(6) {
	case 0, 1:
		return rng.Pick(r, portTexts)
	case 2:
		return strconv.Itoa(r.Range(65530, 65540))
	case 3:
		return strconv.Itoa(r.Range(32760, 32775))
	}
	return strconv.Itoa(r.Range(0, 70000))
}

func genHost(r *rng.R) string {
	switch r.Intn(10) {
	case 0, 1, 2:
		return genV4(r)
	case 3, 4, 5:
		return genV6(r)
	case 6:
		return rng.Pick(r, []string{"", "localhost", "unix", "UNIX", "a", "0", "-", ".", "a.", ".a", "a..b", "a_b", "A.b",
			"fe80::1%eth0", "::ffff:1.2.3.4", "::1.2.3.4", "1.2.3.4::", "::ffff:01.2.3.4", "0:0:0:0:0:0:0:0",
			"1:2:3:4:5:6:7::", "1:2:3:4:5:6:7:8::", ":::", ":", "1::2::3", "example.com", "missing port", "too many colons"})
	}
	return genDNS(r)
}

func genEndpoint(r *rng.R) string {
	h := genHost(r)
	p := genPort(r)
	switch r.Intn(16) {
	case 0:
		return h // no port
	case 1:
		return "[" + h + "]" // bracketed, no port
	case 2:
		return h + ":" // empty port
	case 3:
		return ":" + p
	case 4:
		return h + ":" + p + ":" + genPort(r)
	case 5:
		return "[" + h + "]" + p // missing colon
	case 6:
		return "[" + h + ":" + p // missing ']'
	case 7:
		return "[[" + h + "]]:" + p
	case 8:
		return "[" + h + "]:" + p + "]"
	case 9:
		return rng.Pick(r, []string{"", "missing port", "[too many colons", "[missing port]x", "a]missing port:1",
			"[::1]too many colons", "x[missing port:80", "[a]b:missing port", "[a]:b]:too many colons"})
	case 10, 11, 12:
		if strings.Contains(h, ":") || r.Chance(1, 5) {
			return "[" + h + "]:" + p
		}
		return h + ":" + p
	}
	return h + ":" + p
}

// ---------------------------------------------------------------- cases

func fixedCases() []tcase {
	var c []tcase
	for _, s := range []string{
		"h:1", "h:65535", "h:32767", "h:32768", "example.com:443", "1.2.3.4:32768", "[::1]:32768", "[::1]:65535",
		"[2001:db8::1]:53", "::1", "2001:db8::1", "[::1]", "host:", "[::1]:", "host:+80", "[1.2.3.4]:80",
		"[example.com]:80", "unix:53", "h:0", "h:65536", "h:-1", "h: 80", " h:80", "h:80 ", "h:80\n", "h;x:80",
		"a b:80", "h:8_0", "01.2.3.4:80", "999.1.1.1:80", "1.2.3.4", "example.com", "Example.com", "a_b", "", ":80",
		"[]:80", "missing port", "[too many colons", "::ffff:1.2.3.4", "[::ffff:1.2.3.4]:80", "fe80::1%eth0",
		"[fe80::1%eth0]:80", "1:2:3:4:5:6:7:8", "1:2:3:4:5:6:7:8:9", "1::", "::", ":::",
	} {
		c = append(c, tcase{"endpoint", []string{s}}, tcase{"endpointopt", []string{s}}, tcase{"ip", []string{s}})
	}
	for _, s := range []string{"nginx", "a", "a.b", "a-b", "a--b", "-a", "a-", "a.", ".a", "a..b", "A", "a_b", "",
		" a", "a ", "a\n", "a;b", "a/b", "ns/name", "ns/", "/name", "ns/na/me", "my.ns/name", "ns/my.name",
		strings.Repeat("a", 63), strings.Repeat("a", 64), strings.Repeat("a", 253), strings.Repeat("a", 254),
		"example.com/MyName", "MyName", "my.name", "123-abc", "a/b/c", "/x", "x/", "_a", "a_", "Example.com/x"} {
		c = append(c, tcase{"resname", []string{s}}, tcase{"nsname", []string{s}}, tcase{"nsresname", []string{s}},
			tcase{"qname", []string{s}})
	}
	for _, s := range []string{"gateway.nginx.org/nginx-gateway-controller", "gateway.nginx.org/a", "gateway.nginx.org/",
		"gateway.nginx.org", "gateway.nginx.org/a/b", "gateway.nginx.org//", "gateway.nginx.org/a b", "gateway.nginx.org/a\n",
		"gateway.nginx.org/a;b", "gateway.nginx.org/~%!$&'()*+,;=:", "gateway.nginx.org/a\"", "gateway.nginx.org/a#",
		"gateway.nginx.org/a{", "gateway.nginx.org/é", "example.com/a", "Gateway.nginx.org/a", " gateway.nginx.org/a",
		"gateway.nginx.org/a ", "", "/", "a", "gateway.nginx.orgx/a", "gateway.nginx.org/a?b", "gateway.nginx.org/a@b",
		"gateway.nginx.org/a[", "gateway.nginx.org/a\\"} {
		c = append(c, tcase{"ctlr", []string{s}})
	}
	for _, p := range portTexts {
		c = append(c, tcase{"intflag", []string{p}})
	}
	c = append(c,
		tcase{"collide", nil}, tcase{"collide", []string{"9113"}}, tcase{"collide", []string{"9113", "8081"}},
		tcase{"collide", []string{"9113", "9113"}}, tcase{"collide", []string{"1", "2", "1"}},
		tcase{"collide", []string{"1", "2", "2"}}, tcase{"collide", []string{"1", "1", "2"}},
		tcase{"collide", []string{"1", "2", "3", "4"}}, tcase{"collide", []string{"0", "-1", "0"}})
	return c
}

const qnameChars = "abcXYZ019-_."
const ctlrChars = "abzAZ09/-._~%!$&'()*+,;=:"

func genName(r *rng.R) string {
	switch r.Intn(8) {
	case 0:
		return genLabel(r, 63)
	case 1:
		n := r.Range(1, 10)
		b := make([]byte, n)
		for i := range b {
			b[i] = qnameChars[r.Intn(len(qnameChars))]
		}
		if r.Chance(1, 3) {
			return genDNS(r) + "/" + string(b)
		}
		return string(b)
	case 2:
		return genLabel(r, 63) + "/" + genDNS(r)
	}
	return genDNS(r)
}

func genCtlr(r *rng.R) string {
	n := r.Range(0, 12)
	b := make([]byte, n)
	for i := range b {
		b[i] = ctlrChars[r.Intn(len(ctlrChars))]
	}
	d := "gateway.nginx.org"
	if r.Chance(1, 8) {
		d = genDNS(r)
	}
	return d + "/" + string(b)
}

func genCases(r *rng.R, n int) []tcase {
	var c []tcase
	maybeMut := func(s string) string {
		if r.Chance(1, 3) {
			return mutate(r, s)
		}
		return s
	}
	for i := 0; i < n; i++ {
		e := maybeMut(genEndpoint(r))
		c = append(c, tcase{"endpoint", []string{e}}, tcase{"endpointopt", []string{e}})
		h := maybeMut(genHost(r))
		c = append(c, tcase{"ip", []string{h}}, tcase{"endpointopt", []string{h}})
		nm := maybeMut(genName(r))
		op := rng.Pick(r, []string{"resname", "nsname", "nsresname", "qname"})
		c = append(c, tcase{op, []string{nm}})
		if i%2 == 0 {
			c = append(c, tcase{"ctlr", []string{maybeMut(genCtlr(r))}})
			c = append(c, tcase{"intflag", []string{maybeMut(genPort(r))}})
		}
		if i%4 == 0 {
			k := r.Range(0, 5)
			ports := make([]string, k)
			for j := range ports {
				if j > 0 && r.Chance(1, 3) {
					ports[j] = ports[r.Intn(j)]
				} else {
					ports[j] = strconv.Itoa(r.Range(1024, 1030))
				}
			}
			c = append(c, tcase{"collide", ports})
		}
	}
	return c
}

// portSweep: every port text 0..65536 for a DNS host, an IPv4 host and a bracketed IPv6 host.
func portSweep() []tcase {
	c := make([]tcase, 0, 5*65537)
	for p := 0; p <= 65536; p++ {
		ps := strconv.Itoa(p)
		c = append(c,
			tcase{"endpoint", []string{"h:" + ps}},
			tcase{"endpoint", []string{"10.0.0.1:" + ps}},
			tcase{"endpoint", []string{"[2001:db8::1]:" + ps}},
			tcase{"endpointopt", []string{"dns.example.com:" + ps}},
			tcase{"endpointopt", []string{"[::1]:" + ps}})
	}
	return c
}

// ---------------------------------------------------------------- the static-mode command

var boolFlags = []string{"update-gatewayclass-status", "metrics-disable", "metrics-secure-serving", "health-disable",
	"leader-election-disable", "product-telemetry-disable", "gateway-api-experimental-features",
	"usage-report-skip-verify", "snippets-filters"}

func genStatic(r *rng.R, n int) []tcase {
	var c []tcase
	resName := func() string {
		if r.Chance(1, 14) {
			return mutate(r, genDNS(r))
		}
		return genDNS(r)
	}
	opt := func() string {
		switch r.Intn(12) {
		case 0:
			return mutate(r, genEndpoint(r))
		case 1:
			return genEndpoint(r)
		case 2:
			return genV4(r)
		case 3:
			return "[" + genV6(r) + "]:" + strconv.Itoa(r.Range(1, 65535))
		}
		h := genDNS(r)
		if r.Bool() {
			return h
		}
		return h + ":" + strconv.Itoa(r.Range(1, 65535))
	}
	for i := 0; i < n; i++ {
		var args []string
		add := func(name, val string) { args = append(args, name+"="+val) }
		if !r.Chance(1, 25) {
			if r.Chance(1, 16) {
				add("gateway-ctlr-name", mutate(r, genCtlr(r)))
			} else {
				add("gateway-ctlr-name", "gateway.nginx.org/"+genLabel(r, 20))
			}
		}
		if !r.Chance(1, 25) {
			add("gatewayclass", resName())
		}
		mp, hp := "", ""
		portVal := func() string {
			switch r.Intn(16) {
			case 0:
				return genPort(r)
			case 1, 2:
				return rng.Pick(r, []string{"1023", "1024", "65535", "65536", "8081", "9113", "+9000", "09000", "32768"})
			}
			return strconv.Itoa(r.Range(8998, 9002))
		}
		if r.Chance(2, 3) {
			mp = portVal()
			add("metrics-port", mp)
		}
		if r.Chance(2, 3) {
			hp = portVal()
			if mp != "" && r.Chance(1, 4) {
				hp = mp
			}
			add("health-port", hp)
		}
		if r.Chance(1, 8) { // a later occurrence overrides an earlier one
			add("metrics-port", portVal())
		}
		if r.Chance(1, 3) {
			add("gateway", genLabel(r, 63)+"/"+resName())
		}
		if r.Chance(1, 3) {
			add("config", resName())
		}
		if r.Chance(1, 3) {
			add("service", resName())
		}
		if r.Chance(1, 4) {
			add("leader-election-lock-name", resName())
		}
		if r.Chance(1, 2) {
			switch r.Intn(5) {
			case 0:
				args = append(args, "nginx-plus")
			case 1:
				add("nginx-plus", rng.Pick(r, []string{"false", "0", "yes", "TRUE", "t"}))
			default:
				add("nginx-plus", "true")
			}
		}
		if r.Chance(1, 3) {
			if r.Chance(1, 4) {
				add("usage-report-secret", "")
			} else {
				add("usage-report-secret", resName())
			}
		}
		if r.Chance(1, 3) {
			add("usage-report-endpoint", opt())
		}
		if r.Chance(1, 3) {
			add("usage-report-resolver", opt())
		}
		if r.Chance(1, 6) {
			add("usage-report-client-ssl-secret", resName())
		}
		if r.Chance(1, 6) {
			add("usage-report-ca-secret", resName())
		}
		if r.Chance(1, 3) {
			add(rng.Pick(r, boolFlags), rng.Pick(r, []string{"true", "false", "1", "F", "maybe"}))
		}
		if r.Chance(1, 2) {
			rng.Shuffle(r, args)
		}
		te := ""
		switch r.Intn(6) {
		case 0:
			te = genEndpoint(r)
		case 1:
			te = "telemetry.example.com:" + strconv.Itoa(r.Range(1, 65535))
		case 2:
			te = mutate(r, "otel.example.com:4317")
		}
		ti := rng.Pick(r, []string{"false", "true", "false", "true", "0", "T", "", "no"})
		c = append(c, tcase{"static", append([]string{te, ti}, args...)})
	}
	return c
}
