// Package c20 drives the REAL command-line validators of cmd/gateway (through the line-protocol server
// that overlay/cmd/gateway/zz_verif_c20.go adds to the gateway binary built with -tags verif) on
// generated strings and command lines, and renders accepted usage-report values through the REAL
// mgmt template (config.GeneratorImpl.Generate, in-process).
//
// Output, one line per case:   <op> <hex(arg)>[,<hex(arg)>…] <verdict>
//
//	verdict of a validator : ok | err:<class>      (class = which return statement, from the message)
//	verdict of `static`    : validated | flag:<i> | required | collision | telemetry-endpoint |
//	                         telemetry-bool | plus-secret | other:<hex msg>
//	render lines           : render <hex ep>,<hex res>,<hex mgmt.conf> -
package c20

import (
	"bufio"
	"encoding/hex"
	"flag"
	"fmt"
	"os"
	"os/exec"
	"strconv"
	"strings"
	"time"

	"github.com/go-logr/logr"

	ngfcfg "github.com/nginx/nginx-gateway-fabric/internal/mode/static/config"
	ngxcfg "github.com/nginx/nginx-gateway-fabric/internal/mode/static/nginx/config"
	"github.com/nginx/nginx-gateway-fabric/internal/mode/static/state/dataplane"
	"github.com/nginx/nginx-gateway-fabric/internal/mode/static/state/graph"
	"github.com/nginx/nginx-gateway-fabric/verifharness/rng"
)

type tcase struct {
	op   string
	args []string
}

func hexArgs(args []string) string {
	parts := make([]string, len(args))
	for i, a := range args {
		parts[i] = hex.EncodeToString([]byte(a))
	}
	return strings.Join(parts, ",")
}

// ---------------------------------------------------------------- the server

func serve(gw string, cases []tcase) ([]string, error) {
	cmd := exec.Command(gw)
	cmd.Env = append(os.Environ(), "VERIF_C20_SERVER=1")
	stdin, err := cmd.StdinPipe()
	if err != nil {
		return nil, err
	}
	stdout, err := cmd.StdoutPipe()
	if err != nil {
		return nil, err
	}
	if err := cmd.Start(); err != nil {
		return nil, err
	}
	timer := time.AfterFunc(10*time.Minute, func() { _ = cmd.Process.Kill() })
	defer timer.Stop()
	go func() {
		w := bufio.NewWriterSize(stdin, 1<<20)
		for _, c := range cases {
			op := c.op
			args := c.args
			if op == "static" {
				// the report period is not varied; the settings travel as name=value
				args = []string{"24h", c.args[0], c.args[1]}
				for _, a := range c.args[2:] {
					args = append(args, "--"+a)
				}
			}
			fmt.Fprintf(w, "%s %s\n", op, hexArgs(args))
		}
		w.Flush()
		stdin.Close()
	}()
	out := make([]string, 0, len(cases))
	sc := bufio.NewScanner(stdout)
	sc.Buffer(make([]byte, 1<<20), 1<<26)
	for sc.Scan() {
		out = append(out, sc.Text())
	}
	_ = cmd.Wait()
	if len(out) != len(cases) {
		return out, fmt.Errorf("server answered %d lines for %d requests", len(out), len(cases))
	}
	return out, nil
}

// classify maps the error message of the real code to the return statement that produced it.
func classify(c tcase, resp string) string {
	if resp == "ok" {
		if c.op == "static" {
			return "other:" + hex.EncodeToString([]byte("nil error"))
		}
		return "ok"
	}
	kind, hx, _ := strings.Cut(resp, " ")
	b, _ := hex.DecodeString(hx)
	msg := string(b)
	if kind != "err" {
		return kind + ":" + hx
	}
	in := ""
	if len(c.args) > 0 {
		in = c.args[0]
	}
	has := strings.HasPrefix
	switch c.op {
	case "endpoint":
		switch {
		case msg == fmt.Sprintf("%q must be in the format <host>:<port>", in):
			return "err:host"
		case has(msg, fmt.Sprintf("%q must be in the format <host>:<port>: ", in)):
			return "err:split"
		case has(msg, "port must be a valid number: "):
			return "err:portnum"
		case has(msg, "port outside of valid port range"):
			return "err:portrange"
		}
	case "endpointopt":
		switch {
		case msg == "must be set":
			return "err:empty"
		case has(msg, fmt.Sprintf("error splitting %q into host and port: ", in)):
			return "err:split"
		case has(msg, "port must be a valid number: "):
			return "err:portnum"
		case has(msg, "port outside of valid port range"):
			return "err:portrange"
		case msg == fmt.Sprintf("%q must be a domain name or IP address with optional port", in):
			return "err:host"
		case msg == fmt.Sprintf("%q: only IPv6 addresses may be enclosed in brackets", in):
			return "err:bracket"
		case has(msg, fmt.Sprintf("%q: NGINX reads the host name \"unix\"", in)):
			return "err:unix"
		}
	case "ip":
		switch {
		case msg == "IP address must be set":
			return "err:empty"
		case msg == fmt.Sprintf("%q must be a valid IP address", in):
			return "err:host"
		}
	case "resname", "qname":
		switch {
		case msg == "must be set":
			return "err:empty"
		case has(msg, "invalid format: "):
			return "err:format"
		}
	case "nsname":
		if has(msg, "invalid format: ") {
			return "err:format"
		}
	case "nsresname":
		switch {
		case msg == "must be set":
			return "err:empty"
		case msg == "invalid format; must be NAMESPACE/NAME":
			return "err:format"
		case has(msg, "invalid namespace name: "):
			return "err:nsname"
		case has(msg, "invalid resource name: "):
			return "err:resname"
		}
	case "ctlr":
		switch {
		case msg == "must be set":
			return "err:empty"
		case msg == "invalid format; must be DOMAIN/PATH":
			return "err:format"
		case has(msg, "invalid domain: "):
			return "err:domain"
		case has(msg, "invalid gateway controller name: "):
			return "err:regex"
		}
	case "intflag":
		if has(msg, "failed to parse int value: ") || has(msg, "port outside of valid port range") {
			return "err:int"
		}
	case "collide":
		if has(msg, "port ") && strings.HasSuffix(msg, " has been defined multiple times") {
			return "err:collision"
		}
	case "static":
		switch {
		case has(msg, "error creating gateway pod config: "):
			return "validated"
		case has(msg, "error validating ports: "):
			return "collision"
		case has(msg, "error validating telemetry endpoint: "):
			return "telemetry-endpoint"
		case has(msg, "error parsing telemetry endpoint insecure: "):
			return "telemetry-bool"
		case msg == "usage-report-secret is required when using NGINX Plus":
			return "plus-secret"
		case has(msg, "required flag(s) "):
			return "required"
		case has(msg, "invalid argument "):
			for i, a := range c.args[2:] {
				name, val, found := strings.Cut(a, "=")
				if !found {
					continue
				}
				disp := "--" + name
				if name == "config" {
					disp = "-c, --config"
				}
				if has(msg, fmt.Sprintf("invalid argument %q for %q flag: ", val, disp)) {
					return "flag:" + strconv.Itoa(i)
				}
			}
		}
	}
	return "other:" + hex.EncodeToString([]byte(msg))
}

// ---------------------------------------------------------------- rendering

func renderMgmt(ep, res string) (text string, err error) {
	defer func() {
		if r := recover(); r != nil {
			err = fmt.Errorf("panic: %v", r)
		}
	}()
	g := ngxcfg.NewGeneratorImpl(true, &ngfcfg.UsageReportConfig{Endpoint: ep, Resolver: res}, logr.Discard())
	files := g.Generate(dataplane.Configuration{
		AuxiliarySecrets: map[graph.SecretFileType][]byte{graph.PlusReportJWTToken: []byte("token")},
	})
	for _, f := range files {
		if strings.HasSuffix(f.Path, "/mgmt.conf") {
			return string(f.Content), nil
		}
	}
	return "", fmt.Errorf("no mgmt.conf among %d files", len(files))
}

// ---------------------------------------------------------------- main

func Run(argv []string) int {
	fs := flag.NewFlagSet("c20", flag.ContinueOnError)
	seed := fs.Uint64("seed", 1, "seed")
	n := fs.Int("n", 2000, "random cases per validator family")
	gw := fs.String("gw", "", "gateway binary built with -tags verif and the C20 overlay")
	allPorts := fs.Bool("allports", true, "sweep every port 0..65536 over a few hosts")
	nstatic := fs.Int("nstatic", 1500, "random command lines for the static-mode command")
	nrender := fs.Int("nrender", 400, "accepted usage-report values rendered through the mgmt template")
	corpus := fs.String("corpus", "", "file with extra cases: <op> <hexargs> per line, run first")
	if err := fs.Parse(argv); err != nil {
		return 2
	}
	if _, err := os.Stat(*gw); err != nil {
		fmt.Fprintln(os.Stderr, "c20: gateway binary missing:", err)
		return 2
	}
	r := rng.New(*seed)
	var cases []tcase
	if *corpus != "" {
		if b, err := os.ReadFile(*corpus); err == nil {
			for _, l := range strings.Split(string(b), "\n") {
				f := strings.Fields(l)
				if len(f) == 0 || strings.HasPrefix(f[0], "#") {
					continue
				}
				var args []string
				if len(f) > 1 {
					for _, h := range strings.Split(f[1], ",") {
						d, _ := hex.DecodeString(h)
						args = append(args, string(d))
					}
				} else {
					args = []string{""}
				}
				cases = append(cases, tcase{f[0], args})
			}
		}
	}
	cases = append(cases, fixedCases()...)
	cases = append(cases, genCases(r, *n)...)
	if *allPorts {
		cases = append(cases, portSweep()...)
	}
	cases = append(cases, genStatic(r, *nstatic)...)

	resp, err := serve(*gw, cases)
	if err != nil {
		fmt.Fprintln(os.Stderr, "c20:", err)
		return 3
	}
	w := bufio.NewWriterSize(os.Stdout, 1<<20)
	defer w.Flush()
	var accepted []string
	seen := map[string]bool{}
	for i, c := range cases {
		v := classify(c, resp[i])
		fmt.Fprintf(w, "%s %s %s\n", c.op, hexArgs(c.args), v)
		if c.op == "endpointopt" && v == "ok" && !seen[c.args[0]] {
			seen[c.args[0]] = true
			accepted = append(accepted, c.args[0])
		}
	}
	// accepted values through the real template: each accepted value once as endpoint, once as
	// resolver, paired with another accepted value; the first ones are the fixed cases
	if len(accepted) > 0 {
		k := *nrender
		for i := 0; i < k && i < 4*len(accepted); i++ {
			var ep, res string
			switch {
			case i < len(accepted) && i < k/2:
				res = accepted[i]
				if i%3 == 0 {
					ep = rng.Pick(r, accepted)
				}
			default:
				ep, res = rng.Pick(r, accepted), rng.Pick(r, accepted)
				if r.Chance(1, 4) {
					res = ""
				}
			}
			text, err := renderMgmt(ep, res)
			if err != nil {
				fmt.Fprintf(w, "render %s other:%s\n", hexArgs([]string{ep, res, ""}), hex.EncodeToString([]byte(err.Error())))
				continue
			}
			fmt.Fprintf(w, "render %s -\n", hexArgs([]string{ep, res, text}))
		}
	}
	return 0
}
