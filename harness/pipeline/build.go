package pipeline

import (
	"bytes"
	"crypto/ecdsa"
	"crypto/elliptic"
	"crypto/x509"
	"crypto/x509/pkix"
	"encoding/json"
	"encoding/pem"
	"fmt"
	"math/big"
	"time"

	apiv1 "k8s.io/api/core/v1"
	discoveryV1 "k8s.io/api/discovery/v1"
	metav1 "k8s.io/apimachinery/pkg/apis/meta/v1"
	"k8s.io/apimachinery/pkg/runtime/serializer"
	"k8s.io/apimachinery/pkg/util/intstr"
	"sigs.k8s.io/controller-runtime/pkg/client"
	gatewayv1 "sigs.k8s.io/gateway-api/apis/v1"
	"sigs.k8s.io/gateway-api/apis/v1alpha2"
	"sigs.k8s.io/gateway-api/apis/v1beta1"
)

// Epoch is the base creation time; objects get Epoch + age seconds.
var Epoch = time.Date(2024, 1, 1, 0, 0, 0, 0, time.UTC)

func Meta(ns, name string, age int) metav1.ObjectMeta {
	return metav1.ObjectMeta{
		Namespace:         ns,
		Name:              name,
		Generation:        1,
		CreationTimestamp: metav1.NewTime(Epoch.Add(time.Duration(age) * time.Second)),
	}
}

func GatewayClass(name, controller string, age int) *gatewayv1.GatewayClass {
	return &gatewayv1.GatewayClass{
		ObjectMeta: Meta("", name, age),
		Spec:       gatewayv1.GatewayClassSpec{ControllerName: gatewayv1.GatewayController(controller)},
	}
}

// Listener describes one listener of a Gateway in compact form.
type Listener struct {
	Name     string
	Port     int32
	Protocol string // HTTP, HTTPS, TLS
	Hostname string // "" = none
	// TLS
	Mode      string   // Terminate / Passthrough ("" = default for protocol)
	CertRefs  []string // "ns/name" (or "name" for same namespace)
	FromNS    string   // "", Same, All, Selector
	Selector  map[string]string
	Kinds     []string // allowed route kinds ("" group default)
}

func Gateway(ns, name, class string, age int, ls ...Listener) *gatewayv1.Gateway {
	g := &gatewayv1.Gateway{
		ObjectMeta: Meta(ns, name, age),
		Spec:       gatewayv1.GatewaySpec{GatewayClassName: gatewayv1.ObjectName(class)},
	}
	for _, l := range ls {
		gl := gatewayv1.Listener{
			Name:     gatewayv1.SectionName(l.Name),
			Port:     gatewayv1.PortNumber(l.Port),
			Protocol: gatewayv1.ProtocolType(l.Protocol),
		}
		if l.Hostname != "" {
			gl.Hostname = ptr(gatewayv1.Hostname(l.Hostname))
		}
		if l.Protocol == "HTTPS" || l.Protocol == "TLS" {
			tls := &gatewayv1.GatewayTLSConfig{}
			mode := l.Mode
			if mode == "" {
				if l.Protocol == "TLS" {
					mode = "Passthrough"
				} else {
					mode = "Terminate"
				}
			}
			tls.Mode = ptr(gatewayv1.TLSModeType(mode))
			for _, r := range l.CertRefs {
				rns, rname := splitRef(r)
				ref := gatewayv1.SecretObjectReference{
					Kind: ptr(gatewayv1.Kind("Secret")),
					Name: gatewayv1.ObjectName(rname),
				}
				if rns != "" {
					ref.Namespace = ptr(gatewayv1.Namespace(rns))
				}
				tls.CertificateRefs = append(tls.CertificateRefs, ref)
			}
			gl.TLS = tls
		}
		if l.FromNS != "" || len(l.Kinds) > 0 {
			ar := &gatewayv1.AllowedRoutes{}
			if l.FromNS != "" {
				ar.Namespaces = &gatewayv1.RouteNamespaces{From: ptr(gatewayv1.FromNamespaces(l.FromNS))}
				if l.FromNS == "Selector" {
					ar.Namespaces.Selector = &metav1.LabelSelector{MatchLabels: l.Selector}
				}
			}
			for _, k := range l.Kinds {
				ar.Kinds = append(ar.Kinds, gatewayv1.RouteGroupKind{Kind: gatewayv1.Kind(k)})
			}
			gl.AllowedRoutes = ar
		}
		g.Spec.Listeners = append(g.Spec.Listeners, gl)
	}
	return g
}

func splitRef(r string) (ns, name string) {
	for i := 0; i < len(r); i++ {
		if r[i] == '/' {
			return r[:i], r[i+1:]
		}
	}
	return "", r
}

// ParentRef builds a parentRef to a Gateway; section "" = whole gateway.
func ParentRef(ns, name, section string) gatewayv1.ParentReference {
	p := gatewayv1.ParentReference{Name: gatewayv1.ObjectName(name)}
	if ns != "" {
		p.Namespace = ptr(gatewayv1.Namespace(ns))
	}
	if section != "" {
		p.SectionName = ptr(gatewayv1.SectionName(section))
	}
	return p
}

// Backend is a compact backendRef: "ns/name" or "name", port, weight (-1 = unset).
type Backend struct {
	Ref    string
	Port   int32
	Weight int32
	Kind   string // "" = Service
	Group  string
}

func BackendRef(b Backend) gatewayv1.BackendRef {
	ns, name := splitRef(b.Ref)
	br := gatewayv1.BackendRef{BackendObjectReference: gatewayv1.BackendObjectReference{
		Name: gatewayv1.ObjectName(name),
		Port: ptr(gatewayv1.PortNumber(b.Port)),
	}}
	if ns != "" {
		br.Namespace = ptr(gatewayv1.Namespace(ns))
	}
	if b.Kind != "" {
		br.Kind = ptr(gatewayv1.Kind(b.Kind))
	} else {
		br.Kind = ptr(gatewayv1.Kind("Service"))
	}
	if b.Group != "" {
		br.Group = ptr(gatewayv1.Group(b.Group))
	}
	if b.Weight >= 0 {
		br.Weight = ptr(b.Weight)
	} else {
		br.Weight = ptr(int32(1)) // CRD default
	}
	return br
}

// PathMatch builds an HTTPRouteMatch on a path; typ is Exact or PathPrefix.
func PathMatch(typ, value string) gatewayv1.HTTPRouteMatch {
	return gatewayv1.HTTPRouteMatch{Path: &gatewayv1.HTTPPathMatch{
		Type: ptr(gatewayv1.PathMatchType(typ)), Value: ptr(value),
	}}
}

func HTTPRule(matches []gatewayv1.HTTPRouteMatch, backends ...Backend) gatewayv1.HTTPRouteRule {
	r := gatewayv1.HTTPRouteRule{Matches: matches}
	for _, b := range backends {
		r.BackendRefs = append(r.BackendRefs, gatewayv1.HTTPBackendRef{BackendRef: BackendRef(b)})
	}
	return r
}

func HTTPRoute(ns, name string, age int, parents []gatewayv1.ParentReference, hostnames []string,
	rules ...gatewayv1.HTTPRouteRule,
) *gatewayv1.HTTPRoute {
	r := &gatewayv1.HTTPRoute{ObjectMeta: Meta(ns, name, age)}
	r.Spec.ParentRefs = parents
	for _, h := range hostnames {
		r.Spec.Hostnames = append(r.Spec.Hostnames, gatewayv1.Hostname(h))
	}
	r.Spec.Rules = rules
	return r
}

func GRPCRoute(ns, name string, age int, parents []gatewayv1.ParentReference, hostnames []string,
	rules ...gatewayv1.GRPCRouteRule,
) *gatewayv1.GRPCRoute {
	r := &gatewayv1.GRPCRoute{ObjectMeta: Meta(ns, name, age)}
	r.Spec.ParentRefs = parents
	for _, h := range hostnames {
		r.Spec.Hostnames = append(r.Spec.Hostnames, gatewayv1.Hostname(h))
	}
	r.Spec.Rules = rules
	return r
}

func TLSRoute(ns, name string, age int, parents []gatewayv1.ParentReference, hostnames []string,
	backends ...Backend,
) *v1alpha2.TLSRoute {
	r := &v1alpha2.TLSRoute{ObjectMeta: Meta(ns, name, age)}
	r.Spec.ParentRefs = parents
	for _, h := range hostnames {
		r.Spec.Hostnames = append(r.Spec.Hostnames, gatewayv1.Hostname(h))
	}
	rule := v1alpha2.TLSRouteRule{}
	for _, b := range backends {
		rule.BackendRefs = append(rule.BackendRefs, BackendRef(b))
	}
	r.Spec.Rules = []v1alpha2.TLSRouteRule{rule}
	return r
}

func Service(ns, name string, ports ...int32) *apiv1.Service {
	s := &apiv1.Service{ObjectMeta: Meta(ns, name, 0)}
	for _, p := range ports {
		s.Spec.Ports = append(s.Spec.Ports, apiv1.ServicePort{
			Name: fmt.Sprintf("p%d", p), Port: p, TargetPort: intstr.FromInt32(p + 8000), Protocol: apiv1.ProtocolTCP,
		})
	}
	s.Spec.Type = apiv1.ServiceTypeClusterIP
	s.Spec.IPFamilies = []apiv1.IPFamily{apiv1.IPv4Protocol}
	return s
}

// EndpointSlice for a Service: one slice with the given addresses, ready, exposing each service port.
func EndpointSlice(ns, svc, suffix string, ports []int32, addrs ...string) *discoveryV1.EndpointSlice {
	es := &discoveryV1.EndpointSlice{
		ObjectMeta:  Meta(ns, svc+"-"+suffix, 0),
		AddressType: discoveryV1.AddressTypeIPv4,
	}
	es.Labels = map[string]string{discoveryV1.LabelServiceName: svc}
	for _, p := range ports {
		es.Ports = append(es.Ports, discoveryV1.EndpointPort{
			Name: ptr(fmt.Sprintf("p%d", p)), Port: ptr(p + 8000), Protocol: ptr(apiv1.ProtocolTCP),
		})
	}
	for _, a := range addrs {
		es.Endpoints = append(es.Endpoints, discoveryV1.Endpoint{
			Addresses:  []string{a},
			Conditions: discoveryV1.EndpointConditions{Ready: ptr(true)},
		})
	}
	return es
}

func Namespace(name string, labels map[string]string) *apiv1.Namespace {
	n := &apiv1.Namespace{ObjectMeta: Meta("", name, 0)}
	n.Labels = labels
	return n
}

// RefGrant: from (group, kind, namespace) entries to (group, kind, name) entries, placed in ns.
type GrantFrom struct{ Group, Kind, Namespace string }
type GrantTo struct{ Group, Kind, Name string }

func ReferenceGrant(ns, name string, from []GrantFrom, to []GrantTo) *v1beta1.ReferenceGrant {
	rg := &v1beta1.ReferenceGrant{ObjectMeta: Meta(ns, name, 0)}
	for _, f := range from {
		rg.Spec.From = append(rg.Spec.From, v1beta1.ReferenceGrantFrom{
			Group: gatewayv1.Group(f.Group), Kind: gatewayv1.Kind(f.Kind), Namespace: gatewayv1.Namespace(f.Namespace),
		})
	}
	for _, t := range to {
		rt := v1beta1.ReferenceGrantTo{Group: gatewayv1.Group(t.Group), Kind: gatewayv1.Kind(t.Kind)}
		if t.Name != "" {
			rt.Name = ptr(gatewayv1.ObjectName(t.Name))
		}
		rg.Spec.To = append(rg.Spec.To, rt)
	}
	return rg
}

// ---------------------------------------------------------------- TLS material

type zeroReader struct{ n byte }

func (z *zeroReader) Read(p []byte) (int, error) {
	for i := range p {
		z.n = z.n*167 + 13
		p[i] = z.n
	}
	return len(p), nil
}

var certPool = map[int][2][]byte{}

// CertPair returns a deterministic, valid self-signed certificate and key (PEM); idx selects one of a
// pool so that different Secrets can carry different bytes.
func CertPair(idx int) (cert, key []byte) {
	if p, ok := certPool[idx]; ok {
		return p[0], p[1]
	}
	rd := &zeroReader{n: byte(idx*7 + 1)}
	priv, err := ecdsa.GenerateKey(elliptic.P256(), rd)
	if err != nil {
		panic(err)
	}
	tmpl := &x509.Certificate{
		SerialNumber: big.NewInt(int64(idx + 1)),
		Subject:      pkix.Name{CommonName: fmt.Sprintf("verif-%d.example.com", idx)},
		NotBefore:    Epoch,
		NotAfter:     Epoch.Add(100 * 365 * 24 * time.Hour),
		DNSNames:     []string{fmt.Sprintf("verif-%d.example.com", idx)},
		KeyUsage:     x509.KeyUsageDigitalSignature | x509.KeyUsageCertSign,
		IsCA:         true, BasicConstraintsValid: true,
	}
	der, err := x509.CreateCertificate(rd, tmpl, tmpl, &priv.PublicKey, priv)
	if err != nil {
		panic(err)
	}
	kb, err := x509.MarshalECPrivateKey(priv)
	if err != nil {
		panic(err)
	}
	cert = pem.EncodeToMemory(&pem.Block{Type: "CERTIFICATE", Bytes: der})
	key = pem.EncodeToMemory(&pem.Block{Type: "EC PRIVATE KEY", Bytes: kb})
	certPool[idx] = [2][]byte{cert, key}
	return cert, key
}

// TLSSecret builds a kubernetes.io/tls Secret carrying pool pair idx.
func TLSSecret(ns, name string, idx int) *apiv1.Secret {
	c, k := CertPair(idx)
	return &apiv1.Secret{
		ObjectMeta: Meta(ns, name, 0),
		Type:       apiv1.SecretTypeTLS,
		Data:       map[string][]byte{apiv1.TLSCertKey: c, apiv1.TLSPrivateKeyKey: k},
	}
}

// ---------------------------------------------------------------- JSON codec (for the Lean side)

// EncodeObjects renders the objects as a JSON array with apiVersion/kind filled in.
func EncodeObjects(objs []client.Object) []byte {
	var arr []json.RawMessage
	for _, o := range objs {
		cp := o.DeepCopyObject().(client.Object)
		gvks, _, err := Scheme.ObjectKinds(cp)
		if err == nil && len(gvks) > 0 {
			cp.GetObjectKind().SetGroupVersionKind(gvks[0])
		}
		b, err := json.Marshal(cp)
		if err != nil {
			panic(err)
		}
		arr = append(arr, b)
	}
	var buf bytes.Buffer
	enc := json.NewEncoder(&buf)
	enc.SetEscapeHTML(false)
	if err := enc.Encode(arr); err != nil {
		panic(err)
	}
	return bytes.TrimSpace(buf.Bytes())
}

// DecodeObjects parses a JSON array of typed Kubernetes objects.
func DecodeObjects(data []byte) ([]client.Object, error) {
	var arr []json.RawMessage
	if err := json.Unmarshal(data, &arr); err != nil {
		return nil, err
	}
	dec := serializer.NewCodecFactory(Scheme).UniversalDeserializer()
	var out []client.Object
	for _, raw := range arr {
		o, _, err := dec.Decode(raw, nil, nil)
		if err != nil {
			return nil, err
		}
		co, ok := o.(client.Object)
		if !ok {
			return nil, fmt.Errorf("not a client.Object: %T", o)
		}
		out = append(out, co)
	}
	return out, nil
}
