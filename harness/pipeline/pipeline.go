// Package pipeline runs the REAL control-plane pipeline of nginx-gateway-fabric in-process:
//
//	events -> state.ChangeProcessorImpl -> graph.BuildGraph -> dataplane.BuildConfiguration
//	       -> config.GeneratorImpl.Generate -> status.Prepare*Requests (+ setters applied to copies)
//
// with the same validators, scheme and wiring as internal/mode/static/manager.go, a fake Kubernetes
// client holding the EndpointSlices for the real ServiceResolverImpl, and no NGINX.
// It is shared by the pipeline properties (C01-C07, C14, C16, C17).
package pipeline

import (
	"context"
	"fmt"
	"runtime/debug"
	"sort"
	"strings"

	"github.com/go-logr/logr"
	appsv1 "k8s.io/api/apps/v1"
	apiv1 "k8s.io/api/core/v1"
	discoveryV1 "k8s.io/api/discovery/v1"
	apiext "k8s.io/apiextensions-apiserver/pkg/apis/apiextensions/v1"
	metav1 "k8s.io/apimachinery/pkg/apis/meta/v1"
	"k8s.io/apimachinery/pkg/runtime"
	"k8s.io/apimachinery/pkg/types"
	utilruntime "k8s.io/apimachinery/pkg/util/runtime"
	"k8s.io/client-go/tools/record"
	"sigs.k8s.io/controller-runtime/pkg/client"
	"sigs.k8s.io/controller-runtime/pkg/client/fake"
	gatewayv1 "sigs.k8s.io/gateway-api/apis/v1"
	gatewayv1alpha2 "sigs.k8s.io/gateway-api/apis/v1alpha2"
	gatewayv1alpha3 "sigs.k8s.io/gateway-api/apis/v1alpha3"
	gatewayv1beta1 "sigs.k8s.io/gateway-api/apis/v1beta1"

	ngfAPIv1alpha1 "github.com/nginx/nginx-gateway-fabric/apis/v1alpha1"
	ngfAPIv1alpha2 "github.com/nginx/nginx-gateway-fabric/apis/v1alpha2"
	"github.com/nginx/nginx-gateway-fabric/internal/framework/controller/index"
	"github.com/nginx/nginx-gateway-fabric/internal/framework/kinds"
	frameworkStatus "github.com/nginx/nginx-gateway-fabric/internal/framework/status"
	ngftypes "github.com/nginx/nginx-gateway-fabric/internal/framework/types"
	ngxcfg "github.com/nginx/nginx-gateway-fabric/internal/mode/static/nginx/config"
	"github.com/nginx/nginx-gateway-fabric/internal/mode/static/nginx/config/policies"
	"github.com/nginx/nginx-gateway-fabric/internal/mode/static/nginx/config/policies/clientsettings"
	"github.com/nginx/nginx-gateway-fabric/internal/mode/static/nginx/config/policies/observability"
	"github.com/nginx/nginx-gateway-fabric/internal/mode/static/nginx/config/policies/upstreamsettings"
	ngxvalidation "github.com/nginx/nginx-gateway-fabric/internal/mode/static/nginx/config/validation"
	"github.com/nginx/nginx-gateway-fabric/internal/mode/static/nginx/file"
	"github.com/nginx/nginx-gateway-fabric/internal/mode/static/state"
	"github.com/nginx/nginx-gateway-fabric/internal/mode/static/state/dataplane"
	"github.com/nginx/nginx-gateway-fabric/internal/mode/static/state/graph"
	"github.com/nginx/nginx-gateway-fabric/internal/mode/static/state/resolver"
	"github.com/nginx/nginx-gateway-fabric/internal/mode/static/state/validation"
	"github.com/nginx/nginx-gateway-fabric/internal/mode/static/status"
)

// Scheme mirrors the scheme of internal/mode/static/manager.go.
var Scheme = runtime.NewScheme()

func init() {
	utilruntime.Must(gatewayv1beta1.Install(Scheme))
	utilruntime.Must(gatewayv1.Install(Scheme))
	utilruntime.Must(gatewayv1alpha3.Install(Scheme))
	utilruntime.Must(gatewayv1alpha2.Install(Scheme))
	utilruntime.Must(apiv1.AddToScheme(Scheme))
	utilruntime.Must(discoveryV1.AddToScheme(Scheme))
	utilruntime.Must(ngfAPIv1alpha1.AddToScheme(Scheme))
	utilruntime.Must(ngfAPIv1alpha2.AddToScheme(Scheme))
	utilruntime.Must(apiext.AddToScheme(Scheme))
	utilruntime.Must(appsv1.AddToScheme(Scheme))
}

const (
	DefaultController = "gateway.nginx.org/nginx-gateway-controller"
	DefaultClass      = "nginx"
)

// Options are the controller flags that influence the pipeline.
type Options struct {
	Controller     string
	Class          string
	Plus           bool
	ProtectedPorts map[int32]string
}

func DefaultOptions() Options {
	return Options{
		Controller:     DefaultController,
		Class:          DefaultClass,
		ProtectedPorts: map[int32]string{9113: "MetricsPort", 8081: "HealthPort"},
	}
}

// Controller is one control-plane instance (change processor + resolver + generator).
type Controller struct {
	Opts     Options
	Proc     *state.ChangeProcessorImpl
	Client   client.WithWatch
	Resolver resolver.ServiceResolver
	Gen      ngxcfg.GeneratorImpl
	Version  int
	extract  kinds.MustExtractGVK
}

func policyManager(mustExtractGVK kinds.MustExtractGVK, v validation.GenericValidator) *policies.CompositeValidator {
	cfgs := []policies.ManagerConfig{
		{GVK: mustExtractGVK(&ngfAPIv1alpha1.ClientSettingsPolicy{}), Validator: clientsettings.NewValidator(v)},
		{GVK: mustExtractGVK(&ngfAPIv1alpha2.ObservabilityPolicy{}), Validator: observability.NewValidator(v)},
		{GVK: mustExtractGVK(&ngfAPIv1alpha1.UpstreamSettingsPolicy{}), Validator: upstreamsettings.NewValidator(v)},
	}
	return policies.NewManager(mustExtractGVK, cfgs...)
}

// NewController wires a controller exactly as StartManager does (minus NGINX, k8s and metrics).
func NewController(opts Options) *Controller {
	mustExtractGVK := kinds.NewMustExtractGKV(Scheme)
	gv := ngxvalidation.GenericValidator{}
	proc := state.NewChangeProcessorImpl(state.ChangeProcessorConfig{
		GatewayCtlrName:  opts.Controller,
		GatewayClassName: opts.Class,
		Logger:           logr.Discard(),
		Validators: validation.Validators{
			HTTPFieldsValidator: ngxvalidation.HTTPValidator{},
			GenericValidator:    gv,
			PolicyValidator:     policyManager(mustExtractGVK, gv),
		},
		EventRecorder:  record.NewFakeRecorder(1 << 16),
		MustExtractGVK: mustExtractGVK,
		ProtectedPorts: opts.ProtectedPorts,
		PlusSecrets:    map[types.NamespacedName][]graph.PlusSecretFile{},
	})
	cl := fake.NewClientBuilder().
		WithScheme(Scheme).
		WithIndex(&discoveryV1.EndpointSlice{}, index.KubernetesServiceNameIndexField, index.ServiceNameIndexFunc).
		Build()
	return &Controller{
		Opts:     opts,
		Proc:     proc,
		Client:   cl,
		Resolver: resolver.NewServiceResolverImpl(cl),
		Gen:      ngxcfg.NewGeneratorImpl(opts.Plus, nil, logr.Discard()),
		extract:  mustExtractGVK,
	}
}

// Upsert delivers an upsert event (the processor receives its own deep copy, as from an informer).
func (c *Controller) Upsert(obj client.Object) {
	o := obj.DeepCopyObject().(client.Object)
	if es, ok := o.(*discoveryV1.EndpointSlice); ok {
		cp := es.DeepCopy()
		cp.ResourceVersion = ""
		existing := &discoveryV1.EndpointSlice{}
		if err := c.Client.Get(context.Background(), client.ObjectKeyFromObject(cp), existing); err == nil {
			cp.ResourceVersion = existing.ResourceVersion
			_ = c.Client.Update(context.Background(), cp)
		} else {
			_ = c.Client.Create(context.Background(), cp)
		}
	}
	c.Proc.CaptureUpsertChange(o)
}

// Delete delivers a delete event: bare type + name, exactly as the reconciler does.
func (c *Controller) Delete(objType ngftypes.ObjectType, nsname types.NamespacedName) {
	if _, ok := objType.(*discoveryV1.EndpointSlice); ok {
		es := &discoveryV1.EndpointSlice{ObjectMeta: metav1.ObjectMeta{Namespace: nsname.Namespace, Name: nsname.Name}}
		_ = c.Client.Delete(context.Background(), es)
	}
	c.Proc.CaptureDeleteChange(objType, nsname)
}

// Output is everything one batch produced.
type Output struct {
	Change   state.ChangeType
	Graph    *graph.Graph
	Conf     *dataplane.Configuration
	Files    []file.File
	Requests []frameworkStatus.UpdateRequest // all groups; gateway requests last
	Panic    string                          // non-empty when the real code panicked ("value\nstack")
}

// Apply processes the captured changes like eventHandlerImpl.HandleEventBatch does (minus NGINX):
// Process, BuildConfiguration, Generate, Prepare*Requests with the given reload result.
func (c *Controller) Apply(reloadErr error) (out Output) {
	defer func() {
		if r := recover(); r != nil {
			out.Panic = fmt.Sprintf("%v\n%s", r, debug.Stack())
		}
	}()
	ct, gr := c.Proc.Process()
	out.Change = ct
	if ct == state.NoChange {
		return out
	}
	out.Graph = gr
	c.Version++
	conf := dataplane.BuildConfiguration(context.Background(), gr, c.Resolver, c.Version)
	out.Conf = &conf
	out.Files = c.Gen.Generate(conf)
	out.Requests = PrepareRequests(gr, c.Opts.Controller, reloadErr)
	return out
}

// PrepareRequests mirrors eventHandlerImpl.updateStatuses.
func PrepareRequests(gr *graph.Graph, controller string, reloadErr error) []frameworkStatus.UpdateRequest {
	tt := metav1.Now()
	rr := status.NginxReloadResult{Error: reloadErr}
	var reqs []frameworkStatus.UpdateRequest
	reqs = append(reqs, status.PrepareGatewayClassRequests(gr.GatewayClass, gr.IgnoredGatewayClasses, tt)...)
	reqs = append(reqs, status.PrepareRouteRequests(gr.L4Routes, gr.Routes, tt, rr, controller)...)
	reqs = append(reqs, status.PrepareBackendTLSPolicyRequests(gr.BackendTLSPolicies, tt, controller)...)
	reqs = append(reqs, status.PrepareNGFPolicyRequests(gr.NGFPolicies, tt, controller)...)
	reqs = append(reqs, status.PrepareSnippetsFilterRequests(gr.SnippetsFilters, tt, controller)...)
	addrs := []gatewayv1.GatewayStatusAddress{{Type: ptr(gatewayv1.IPAddressType), Value: "10.0.0.1"}}
	reqs = append(reqs, status.PrepareGatewayRequests(gr.Gateway, gr.IgnoredGateways, tt, addrs, rr)...)
	return reqs
}

func ptr[T any](v T) *T { return &v }

// RunFresh starts a new controller, delivers every object as the start-up batch and applies.
func RunFresh(objs []client.Object, opts Options, reloadErr error) (*Controller, Output) {
	c := NewController(opts)
	var out Output
	func() {
		defer func() {
			if r := recover(); r != nil {
				out.Panic = fmt.Sprintf("%v\n%s", r, debug.Stack())
			}
		}()
		for _, o := range objs {
			c.Upsert(o)
		}
	}()
	if out.Panic != "" {
		return c, out
	}
	return c, c.Apply(reloadErr)
}

// Key identifies an object by kind and namespaced name.
type Key struct {
	Kind string
	NN   types.NamespacedName
}

func (k Key) String() string { return k.Kind + "/" + k.NN.Namespace + "/" + k.NN.Name }

// KindOf returns the Kind of a typed object using the scheme.
func KindOf(o runtime.Object) string {
	gvks, _, err := Scheme.ObjectKinds(o)
	if err != nil || len(gvks) == 0 {
		return fmt.Sprintf("%T", o)
	}
	return gvks[0].Kind
}

func KeyOf(o client.Object) Key {
	return Key{Kind: KindOf(o), NN: client.ObjectKeyFromObject(o)}
}

// ApplyStatuses runs every request's setter on a deep copy of the matching object (as the status
// updater would on the object fetched from the API server) and returns the resulting objects for the
// requests whose object exists. written[key] tells whether the setter reported a change.
func ApplyStatuses(reqs []frameworkStatus.UpdateRequest, objs []client.Object) (map[Key]client.Object, map[Key]bool, []Key) {
	byKey := map[Key]client.Object{}
	for _, o := range objs {
		byKey[KeyOf(o)] = o
	}
	res := map[Key]client.Object{}
	written := map[Key]bool{}
	var targets []Key
	for _, r := range reqs {
		k := Key{Kind: KindOf(r.ResourceType), NN: r.NsName}
		targets = append(targets, k)
		o, ok := byKey[k]
		if !ok {
			continue
		}
		cp := o.DeepCopyObject().(client.Object)
		if prev, ok := res[k]; ok {
			cp = prev
		}
		written[k] = r.Setter(cp) || written[k]
		res[k] = cp
	}
	return res, written, targets
}

// FileText returns the content of the generated file with the given path ("" if absent).
func FileText(files []file.File, path string) string {
	for _, f := range files {
		if f.Path == path {
			return string(f.Content)
		}
	}
	return ""
}

// SortedFiles returns the files sorted by path.
func SortedFiles(files []file.File) []file.File {
	out := append([]file.File(nil), files...)
	sort.Slice(out, func(i, j int) bool { return out[i].Path < out[j].Path })
	return out
}

// PanicSite extracts "file.go:line function" of the first frame inside the repository from a
// recorded panic text, for signatures.
func PanicSite(p string) string {
	lines := strings.Split(p, "\n")
	for i, l := range lines {
		l = strings.TrimSpace(l)
		if strings.Contains(l, "/internal/") && strings.Contains(l, ".go:") && !strings.Contains(l, "verifharness") &&
			!strings.Contains(l, "/harness/") {
			fn := ""
			if i > 0 {
				fn = strings.TrimSpace(lines[i-1])
				if j := strings.LastIndex(fn, "/"); j >= 0 {
					fn = fn[j+1:]
				}
				if j := strings.Index(fn, "("); j >= 0 {
					fn = fn[:j]
				}
			}
			f := l
			if j := strings.Index(f, "/internal/"); j >= 0 {
				f = f[j+1:]
			}
			if j := strings.Index(f, " "); j >= 0 {
				f = f[:j]
			}
			// drop the line number: the site is the function
			if j := strings.LastIndex(f, ":"); j >= 0 {
				f = f[:j]
			}
			return f + " " + fn
		}
	}
	return "unknown"
}
