// Package c12 drives the real runtime.ManagerImpl.Reload / VerifyClient against a simulated NGINX
// master, and the real eventHandlerImpl (through the verif overlay) with that runtime manager, the
// real config generator and recording fakes for everything else.
//
// Output lines (tab separated parts, as for C10):
//
//	M <model input>    O <observed, in the model's output vocabulary>    J <judge input>
package c12

import (
	"context"
	"errors"
	"fmt"
	"io/fs"
	"net"
	"net/http"
	"os"
	"path/filepath"
	"strconv"
	"strings"
	"sync"
	"syscall"
	"time"

	ngxruntime "github.com/nginx/nginx-gateway-fabric/internal/mode/static/nginx/runtime"
)

var (
	errStat     = errors.New("verif: stat pid file: permission denied")
	errPidRead  = errors.New("verif: read pid file: input/output error")
	errPrevRead = errors.New("verif: read children file: input/output error")
	errChildRd  = errors.New("verif: read children file: no such process")
)

// VerAns is one scripted answer of the version endpoint.
// Kind: int (V) | cur (version on disk) | old (version loaded before this HUP) |
// e500 | e404 | garbage | empty | nl (number followed by newline) | hang (never answers).
type VerAns struct {
	Kind string
	V    int
}

// Script is the behaviour of the master during one Reload.
type Script struct {
	PidPolls string // one char per checkFile call: p present, m missing, s other error; then 'm' forever
	PidRead  string // content of the pid file; "\x00err" = read error
	PrevErr  bool   // the read of the children file before the signal fails
	Kill     bool   // kill(pid, HUP) succeeds
	Spurious bool   // kill fails, yet new workers appear (the master was reloaded by someone else)
	Child    string // changed | same | removed | delayed | exit (an old worker is replaced, the new files are not loaded)
	DelayMs  int
	Vers     []VerAns
	Stale    int // answered forever once Vers is exhausted
}

// Master simulates the NGINX master process as NGF observes it.
type Master struct {
	mu        sync.Mutex
	root      string
	sock      string
	pid       int
	childPath string
	ln        net.Listener
	srv       *http.Server
	closed    chan struct{}

	sc         *Script
	statCalls  int
	verIdx     int
	hup        bool
	wrongPid   bool
	killCalls  int
	preContent string
	served     *int
	verReqs    int
	answered   []string // resolved answers, in the oracle vocabulary ("e" or an integer)
	badPaths   []string

	workerSeq   int
	diskVersion int // version found in the generated config-version.conf (handler mode)
	loaded      int // version the current workers run
	diskGen     int // identity of the file set on disk (bumped by every operation that changes the disk)
	loadedGen   int // identity of the file set the current workers were started with

	// handler mode: the configuration files really are on disk (under disk.root)
	disk       *faultFS
	verPath    string // NGINX path of config-version.conf, as generated
	forcedSame bool   // HUP without a readable version file on disk: the master kept its old workers
}

func newMaster(root string, pid int) (*Master, error) {
	m := &Master{root: root, pid: pid, closed: make(chan struct{}), diskVersion: -1, loaded: -1}
	m.childPath = fmt.Sprintf(childFmt(root), pid)
	if err := os.MkdirAll(filepath.Dir(m.childPath), 0o755); err != nil {
		return nil, err
	}
	m.sock = filepath.Join(root, fmt.Sprintf("v%d.sock", pid))
	_ = os.Remove(m.sock)
	ln, err := net.Listen("unix", m.sock)
	if err != nil {
		return nil, err
	}
	m.ln = ln
	mux := http.NewServeMux()
	mux.HandleFunc("/version", m.serveVersion)
	m.srv = &http.Server{Handler: mux}
	go func() { _ = m.srv.Serve(ln) }()
	m.workerSeq = 100
	m.writeChildren()
	return m, nil
}

func childFmt(root string) string { return root + "/proc/%[1]v/task/%[1]v/children" }

func (m *Master) close() {
	close(m.closed)
	_ = m.srv.Close()
	_ = os.Remove(m.sock)
	_ = os.RemoveAll(filepath.Join(m.root, "proc", strconv.Itoa(m.pid)))
	if m.disk != nil {
		_ = os.RemoveAll(m.disk.root)
	}
}

// writeChildren renders the worker pid list as /proc/<pid>/task/<pid>/children does.
func (m *Master) writeChildren() {
	_ = os.WriteFile(m.childPath, []byte(fmt.Sprintf("%d %d ", m.workerSeq, m.workerSeq+1)), 0o644)
}

// install starts a new reload episode.
func (m *Master) install(sc *Script) {
	m.mu.Lock()
	defer m.mu.Unlock()
	m.sc = sc
	m.statCalls, m.verIdx, m.verReqs = 0, 0, 0
	m.hup, m.wrongPid, m.killCalls = false, false, 0
	m.served = nil
	m.answered = nil
	m.forcedSame = false
	if _, err := os.Stat(m.childPath); err != nil {
		m.writeChildren()
	}
	b, _ := os.ReadFile(m.childPath)
	m.preContent = string(b)
}

func (m *Master) checkFile(name string) (fs.FileInfo, error) {
	m.mu.Lock()
	defer m.mu.Unlock()
	if name != ngxruntime.PidFile {
		m.badPaths = append(m.badPaths, "stat:"+name)
		return nil, &fs.PathError{Op: "stat", Path: name, Err: fs.ErrNotExist}
	}
	c := byte('m')
	if m.statCalls < len(m.sc.PidPolls) {
		c = m.sc.PidPolls[m.statCalls]
	}
	m.statCalls++
	switch c {
	case 'p':
		return nil, nil
	case 's':
		return nil, &fs.PathError{Op: "stat", Path: name, Err: errStat}
	default:
		return nil, &fs.PathError{Op: "stat", Path: name, Err: syscall.ENOENT}
	}
}

func (m *Master) readFile(name string) ([]byte, error) {
	m.mu.Lock()
	defer m.mu.Unlock()
	switch name {
	case ngxruntime.PidFile:
		if m.sc.PidRead == "\x00err" {
			return nil, errPidRead
		}
		return []byte(m.sc.PidRead), nil
	case m.childPath:
		if m.sc.PrevErr {
			return nil, errPrevRead
		}
		return os.ReadFile(name)
	default:
		m.badPaths = append(m.badPaths, "read:"+name)
		return nil, &fs.PathError{Op: "open", Path: name, Err: fs.ErrNotExist}
	}
}

func (m *Master) kill(pid int) error {
	m.mu.Lock()
	defer m.mu.Unlock()
	m.killCalls++
	if !m.sc.Kill {
		if m.sc.Spurious {
			m.respawn()
		}
		return syscall.ESRCH
	}
	if pid != m.pid {
		m.wrongPid = true
		return nil
	}
	m.hup = true
	if m.disk != nil {
		// the master reads the configuration that is ACTUALLY on disk; without a readable version
		// file (included by nginx.conf) it rejects the configuration and keeps its old workers
		m.diskVersion = m.disk.diskVersion(m.verPath)
		if m.diskVersion < 0 {
			m.forcedSame = true
			return nil
		}
	}
	switch m.sc.Child {
	case "changed":
		m.respawn()
	case "removed":
		_ = os.Remove(m.childPath)
	case "exit":
		// one old worker goes away (exit of a draining worker / crash + respawn with the OLD
		// configuration): the children file changes, nothing new is loaded
		m.workerSeq++
		m.writeChildren()
	case "delayed":
		d := time.Duration(m.sc.DelayMs) * time.Millisecond
		go func() {
			select {
			case <-time.After(d):
				m.mu.Lock()
				m.respawn()
				m.mu.Unlock()
			case <-m.closed:
			}
		}()
	}
	return nil
}

// respawn: new workers with the configuration that is on disk. Caller holds mu.
func (m *Master) respawn() {
	m.workerSeq += 2
	m.writeChildren()
	m.loaded = m.diskVersion
	m.loadedGen = m.diskGen
}

func (m *Master) serveVersion(w http.ResponseWriter, r *http.Request) {
	m.mu.Lock()
	var a VerAns
	if m.sc == nil || m.verIdx >= len(m.sc.Vers) {
		a = VerAns{Kind: "int"}
		if m.sc != nil {
			a.V = m.sc.Stale
		}
	} else {
		a = m.sc.Vers[m.verIdx]
	}
	m.verIdx++
	m.verReqs++
	switch a.Kind {
	case "cur":
		a = VerAns{Kind: "int", V: m.diskVersion}
	case "old":
		a = VerAns{Kind: "int", V: m.loaded}
	}
	if a.Kind == "int" {
		v := a.V
		m.served = &v
		m.answered = append(m.answered, strconv.Itoa(v))
	} else {
		m.served = nil
		m.answered = append(m.answered, "e")
	}
	m.mu.Unlock()

	w.Header().Set("Connection", "close")
	switch a.Kind {
	case "int":
		_, _ = w.Write([]byte(strconv.Itoa(a.V)))
	case "e500":
		w.WriteHeader(http.StatusInternalServerError)
		_, _ = w.Write([]byte(strconv.Itoa(a.V))) // the body alone would be accepted
	case "e404":
		w.WriteHeader(http.StatusNotFound)
		_, _ = w.Write([]byte(strconv.Itoa(a.V)))
	case "garbage":
		_, _ = w.Write([]byte("abc"))
	case "empty":
		w.WriteHeader(http.StatusOK)
	case "nl":
		_, _ = w.Write([]byte(strconv.Itoa(a.V) + "\n"))
	case "hang":
		select {
		case <-r.Context().Done():
		case <-m.closed:
		case <-time.After(10 * time.Second):
		}
	}
}

// state at this instant, for the judge.
func (m *Master) state() (hup, chg bool, served string, verReqs, killCalls int) {
	m.mu.Lock()
	defer m.mu.Unlock()
	b, err := os.ReadFile(m.childPath)
	chg = err == nil && string(b) != m.preContent
	served = "-"
	if m.served != nil {
		served = strconv.Itoa(*m.served)
	}
	return m.hup && !m.wrongPid, chg, served, m.verReqs, m.killCalls
}

// runsDisk: the workers run exactly the files that are on disk now.
func (m *Master) runsDisk() bool {
	m.mu.Lock()
	defer m.mu.Unlock()
	return m.loadedGen == m.diskGen
}

// procHandler is the ProcessHandler given to the real ManagerImpl: the real FindMainProcess and
// ReadFile of ProcessHandlerImpl over the simulator's file functions; Kill goes to the simulator.
// PidFileTimeout (10 s, a constant argument of Reload) is scaled down.
type procHandler struct {
	*ngxruntime.ProcessHandlerImpl
	m          *Master
	pidTimeout time.Duration
}

func newProcHandler(m *Master, pidTimeout time.Duration) *procHandler {
	return &procHandler{
		ProcessHandlerImpl: ngxruntime.NewProcessHandlerImpl(m.readFile, m.checkFile),
		m:                  m,
		pidTimeout:         pidTimeout,
	}
}

func (p *procHandler) FindMainProcess(ctx context.Context, _ time.Duration) (int, error) {
	return p.ProcessHandlerImpl.FindMainProcess(ctx, p.pidTimeout)
}

func (p *procHandler) Kill(pid int) error { return p.m.kill(pid) }

// classify maps the error returned by Reload / WaitForCorrectVersion to the model's error kinds.
func classify(err error) string {
	if err == nil {
		return "ok"
	}
	s := err.Error()
	switch {
	case strings.Contains(s, "failed to find NGINX main process"):
		switch {
		case errors.Is(err, errStat):
			return "findPidStat"
		case errors.Is(err, errPidRead):
			return "pidRead"
		case strings.Contains(s, "invalid pid file content"):
			return "pidParse"
		case errors.Is(err, context.DeadlineExceeded):
			return "findPidTimeout"
		}
		return "findPid?:" + s
	case errors.Is(err, errPrevRead):
		return "prevRead"
	case strings.Contains(s, "failed to send the HUP signal"):
		return "kill"
	case strings.Contains(s, "no new NGINX worker processes started"):
		if errors.Is(err, context.DeadlineExceeded) {
			return "workersTimeout"
		}
		return "workersErr"
	case strings.Contains(s, "could not get expected config version"):
		if strings.Contains(s, "within the deadline") {
			return "versionTimeout"
		}
		return "versionErr"
	}
	return "other:" + strings.ReplaceAll(s, " ", "_")
}

type metrics struct {
	mu              sync.Mutex
	reloads, errors int
}

func (c *metrics) IncReloadCount() { c.mu.Lock(); c.reloads++; c.mu.Unlock() }

func (c *metrics) IncReloadErrors() { c.mu.Lock(); c.errors++; c.mu.Unlock() }

func (c *metrics) ObserveLastReloadTime(time.Duration) {}
