package c12

import (
	"context"
	"errors"
	"fmt"
	"os"
	"path/filepath"
	"regexp"
	"strconv"
	"strings"
	"sync"
	"time"

	"github.com/go-logr/logr"
	ngxclient "github.com/nginxinc/nginx-plus-go-client/client"
	v1 "k8s.io/api/core/v1"
	metav1 "k8s.io/apimachinery/pkg/apis/meta/v1"
	"k8s.io/apimachinery/pkg/types"
	"k8s.io/client-go/tools/record"
	"sigs.k8s.io/controller-runtime/pkg/client/fake"
	gatewayv1 "sigs.k8s.io/gateway-api/apis/v1"

	"github.com/nginx/nginx-gateway-fabric/internal/framework/conditions"
	"github.com/nginx/nginx-gateway-fabric/internal/framework/events"
	frameworkStatus "github.com/nginx/nginx-gateway-fabric/internal/framework/status"
	"github.com/nginx/nginx-gateway-fabric/internal/framework/status/statusfakes"
	static "github.com/nginx/nginx-gateway-fabric/internal/mode/static"
	ngfConfig "github.com/nginx/nginx-gateway-fabric/internal/mode/static/config"
	"github.com/nginx/nginx-gateway-fabric/internal/mode/static/licensing/licensingfakes"
	ngxConfig "github.com/nginx/nginx-gateway-fabric/internal/mode/static/nginx/config"
	"github.com/nginx/nginx-gateway-fabric/internal/mode/static/nginx/file"
	ngxruntime "github.com/nginx/nginx-gateway-fabric/internal/mode/static/nginx/runtime"
	"github.com/nginx/nginx-gateway-fabric/internal/mode/static/nginx/runtime/runtimefakes"
	"github.com/nginx/nginx-gateway-fabric/internal/mode/static/state"
	staticConds "github.com/nginx/nginx-gateway-fabric/internal/mode/static/state/conditions"
	"github.com/nginx/nginx-gateway-fabric/internal/mode/static/state/graph"
	"github.com/nginx/nginx-gateway-fabric/internal/mode/static/state/statefakes"
	"github.com/nginx/nginx-gateway-fabric/internal/mode/static/status"
	"github.com/nginx/nginx-gateway-fabric/verifharness/rng"
)

const ctlrName = "gateway.nginx.org/verif"

var versionRe = regexp.MustCompile(`return 200 (-?\d+);`)

// ---- collaborators of the real handler ------------------------------------------------------

// recMgr is the runtime.Manager of the handler: every call goes to a REAL ManagerImpl (real
// Reload, real VerifyClient against the simulator); it only records what happened and captures
// the simulator state at the instant Reload returns.
type recMgr struct {
	m       *Master
	plus    *runtimefakes.FakeNginxPlusClient // nil = OSS
	timeout time.Duration
	mc      *metrics

	reloadCalled bool
	reloadVer    int
	reloadErr    error
	hup, chg     bool
	runs         bool // the workers run the files that are on disk (same generation)
	served       string
	apiCalled    bool
	apiErr       error
}

func (r *recMgr) real() *ngxruntime.ManagerImpl {
	var pc ngxruntime.NginxPlusClient
	if r.plus != nil {
		pc = r.plus
	}
	return ngxruntime.NewManagerImpl(pc, r.mc, logr.Discard(), newProcHandler(r.m, pidLongTimeout),
		ngxruntime.VerifC12NewVerifyClient(r.m.sock, r.timeout))
}

func (r *recMgr) Reload(ctx context.Context, v int) error {
	r.m.mu.Lock()
	if r.m.disk != nil && r.m.disk.diskVersion(r.m.verPath) < 0 {
		// the master will not load anything (no version file on disk): do not wait long for it
		r.timeout = shortTimeout
	}
	r.m.mu.Unlock()
	err := r.real().Reload(ctx, v)
	r.reloadCalled, r.reloadVer, r.reloadErr = true, v, err
	r.hup, r.chg, r.served, _, _ = r.m.state()
	r.runs = r.m.runsDisk()
	return err
}

func (r *recMgr) IsPlus() bool { return r.real().IsPlus() }

func (r *recMgr) GetUpstreams() (ngxclient.Upstreams, ngxclient.StreamUpstreams, error) {
	u, s, err := r.real().GetUpstreams()
	r.apiCalled, r.apiErr = true, err
	return u, s, err
}

func (r *recMgr) UpdateHTTPServers(n string, s []ngxclient.UpstreamServer) error {
	return r.real().UpdateHTTPServers(n, s)
}

func (r *recMgr) UpdateStreamServers(n string, s []ngxclient.StreamUpstreamServer) error {
	return r.real().UpdateStreamServers(n, s)
}

// ---- graphs -----------------------------------------------------------------------------------

type rawCond struct{ t, s, r string }

var listenerCondPool = []rawCond{
	{"Accepted", "False", "UnsupportedValue"}, {"Programmed", "False", "Invalid"},
	{"Programmed", "True", "Programmed"}, {"ResolvedRefs", "False", "InvalidCertificateRef"},
	{"Conflicted", "True", "ProtocolConflict"}, {"Accepted", "True", "Accepted"},
	{"Programmed", "Unknown", "Pending"},
}

var routeCondPool = []rawCond{
	{"Accepted", "False", "UnsupportedValue"}, {"ResolvedRefs", "False", "BackendNotFound"},
	{"Accepted", "True", "Accepted"}, {"ResolvedRefs", "True", "ResolvedRefs"},
	{"PartiallyInvalid", "True", "UnsupportedValue"}, {"Accepted", "Unknown", "Pending"},
}

func mkConds(r *rng.R, pool []rawCond, max int) []conditions.Condition {
	n := r.Intn(max + 1)
	out := make([]conditions.Condition, 0, n)
	for i := 0; i < n; i++ {
		c := rng.Pick(r, pool)
		out = append(out, conditions.Condition{Type: c.t, Status: metav1.ConditionStatus(c.s), Reason: c.r, Message: "m"})
	}
	return out
}

func genGraph(r *rng.R) *graph.Graph {
	g := &graph.Graph{PlusSecrets: map[types.NamespacedName][]graph.PlusSecretFile{
		{Namespace: "nginx-gateway", Name: "nplus-license"}: {
			{FieldName: "license.jwt", Content: []byte("verif-token"), Type: graph.PlusReportJWTToken},
		},
	}}
	gwNs := types.NamespacedName{Namespace: "ns", Name: "gw"}
	if r.Chance(9, 10) {
		gw := &graph.Gateway{
			Source: &gatewayv1.Gateway{ObjectMeta: metav1.ObjectMeta{Namespace: gwNs.Namespace, Name: gwNs.Name, Generation: 3}},
			Valid:  r.Chance(9, 10),
		}
		if !gw.Valid {
			gw.Conditions = staticConds.NewGatewayInvalid("invalid for the test")
		}
		for i, n := 0, r.Intn(4); i < n; i++ {
			l := &graph.Listener{Name: fmt.Sprintf("l%d", i), Valid: r.Chance(2, 3)}
			if !l.Valid {
				l.Conditions = mkConds(r, listenerCondPool, 3)
			}
			gw.Listeners = append(gw.Listeners, l)
		}
		g.Gateway = gw
	}
	g.Routes = map[graph.RouteKey]*graph.L7Route{}
	for i, n := 0, r.Intn(3); i < n; i++ {
		nn := types.NamespacedName{Namespace: "ns", Name: fmt.Sprintf("r%d", i)}
		rt := &graph.L7Route{
			Source:     &gatewayv1.HTTPRoute{ObjectMeta: metav1.ObjectMeta{Namespace: nn.Namespace, Name: nn.Name, Generation: 2}},
			RouteType:  graph.RouteTypeHTTP,
			Conditions: mkConds(r, routeCondPool, 2),
		}
		for j, k := 0, r.Range(1, 2); j < k; j++ {
			sn := gatewayv1.SectionName(fmt.Sprintf("l%d", j))
			pr := graph.ParentRef{Idx: j, Gateway: gwNs, SectionName: &sn}
			switch r.Intn(4) {
			case 0:
			case 1:
				pr.Attachment = &graph.ParentRefAttachmentStatus{
					Attached:        false,
					FailedCondition: staticConds.NewRouteNotAllowedByListeners(),
				}
			default:
				pr.Attachment = &graph.ParentRefAttachmentStatus{Attached: true}
			}
			rt.ParentRefs = append(rt.ParentRefs, pr)
		}
		g.Routes[graph.RouteKey{NamespacedName: nn, RouteType: graph.RouteTypeHTTP}] = rt
	}
	return g
}

func condChar(cs []metav1.Condition, typ string) byte {
	for _, c := range cs {
		if c.Type == typ {
			switch c.Status {
			case metav1.ConditionTrue:
				return 'T'
			case metav1.ConditionFalse:
				return 'F'
			default:
				return 'U'
			}
		}
	}
	return 'N'
}

// summarise applies the issued status requests to fresh objects and extracts what the statuses say.
func summarise(calls [][]frameworkStatus.UpdateRequest) (gw, ls, rt string) {
	gw, ls, rt = "N", "", ""
	for _, reqs := range calls {
		for _, rq := range reqs {
			switch rq.ResourceType.(type) {
			case *gatewayv1.Gateway:
				if rq.NsName.Name != "gw" {
					continue
				}
				obj := &gatewayv1.Gateway{}
				rq.Setter(obj)
				gw = string(condChar(obj.Status.Conditions, "Programmed"))
				ls = ""
				for _, l := range obj.Status.Listeners {
					ls += string(condChar(l.Conditions, "Programmed"))
				}
			case *gatewayv1.HTTPRoute:
				obj := &gatewayv1.HTTPRoute{}
				rq.Setter(obj)
				for _, p := range obj.Status.Parents {
					rt += string(condChar(p.Conditions, "Accepted"))
				}
			}
		}
	}
	if ls == "" {
		ls = "-"
	}
	if rt == "" {
		rt = "-"
	}
	return gw, ls, rt
}

// ---- one batch sequence -------------------------------------------------------------------------

func genOracle(r *rng.R, pid int) (sc *Script, pp, pr, prev, ch string, timeout time.Duration) {
	sc = &Script{Kill: true, Child: "changed", PidPolls: "p", PidRead: pidContent(r, pid), Stale: -7}
	pp, pr, prev, ch = "p", strconv.Itoa(pid), "1", "2"
	timeout = longTimeout
	sc.Vers = []VerAns{{Kind: "cur"}}
	if r.Chance(3, 5) {
		return
	}
	switch r.Intn(12) {
	case 0:
		sc.PidPolls, pp = "s", "s"
	case 1:
		sc.PidRead, pr = rng.Pick(r, garbagePids), "g"
	case 2:
		sc.PrevErr, prev = true, "e"
	case 3:
		sc.Kill = false
		sc.Spurious = r.Bool()
	case 4:
		sc.Child, ch, timeout = "same", "1,1", shortTimeout
	case 5:
		sc.Child, ch = "removed", "e"
	case 6: // the master rejects the new configuration: a worker exits, the old ones keep answering
		sc.Child, ch, timeout = "exit", "3", shortTimeout
		sc.Vers = []VerAns{{Kind: "old"}, {Kind: "old"}}
	case 7:
		sc.Vers = []VerAns{{Kind: "old"}, {Kind: "cur"}}
	case 8:
		sc.Vers = []VerAns{{Kind: "old"}, {Kind: "old"}, {Kind: "cur"}}
	case 9:
		sc.Vers = []VerAns{{Kind: rng.Pick(r, errKinds)}}
	case 10:
		sc.Vers = []VerAns{{Kind: "old"}, {Kind: rng.Pick(r, errKinds)}}
	default: // a foreign process answers with a near-miss forever
		sc.Vers, timeout = []VerAns{{Kind: "int", V: r.Range(0, 3)}}, shortTimeout
		sc.Stale = 1000 + r.Intn(5)
	}
	return
}

// segment is one controller process: a fresh real eventHandlerImpl (version 0, unready) wired to
// the real runtime manager / generator and to recording fakes, talking to the simulated master.
type segment struct {
	m     *Master
	plus  bool
	h     *static.VerifC12Handler
	rm    *recMgr
	fm    *diskMgr
	apiOK bool
	lastOps int // file operations of the previous ReplaceFiles call (to aim faults at every index)
	curCT state.ChangeType
	curG  *graph.Graph
	mu    sync.Mutex
	calls [][]frameworkStatus.UpdateRequest
	mark  int          // number of status calls made before Process(): those of the Service upsert filter
	lastG *graph.Graph // GetLatestGraph(): the graph of the last batch that changed something

	mb, ob, jb []string
	kinds      map[string]bool
	note       string
}

func newSegment(m *Master, plus bool, kinds map[string]bool) *segment {
	s := &segment{m: m, plus: plus, apiOK: true, kinds: kinds, lastOps: 30}
	s.rm = &recMgr{m: m, mc: &metrics{}, timeout: longTimeout}
	if plus {
		s.rm.plus = &runtimefakes.FakeNginxPlusClient{}
		s.rm.plus.GetUpstreamsStub = func() (*ngxclient.Upstreams, error) {
			if !s.apiOK {
				return nil, errors.New("verif: NGINX Plus API unavailable")
			}
			return &ngxclient.Upstreams{}, nil
		}
		s.rm.plus.GetStreamUpstreamsStub = func() (*ngxclient.StreamUpstreams, error) {
			return &ngxclient.StreamUpstreams{}, nil
		}
	}
	// a new controller process starts with empty configuration folders (StartManager clears them)
	fsRoot := filepath.Join(m.root, fmt.Sprintf("fs%d", m.pid))
	_ = os.RemoveAll(fsRoot)
	_ = os.MkdirAll(fsRoot, 0o755)
	m.mu.Lock()
	m.diskGen++
	m.mu.Unlock()
	ffs := newFaultFS(fsRoot, m)
	m.disk = ffs
	s.fm = &diskMgr{inner: file.NewManagerImpl(logr.Discard(), ffs), fs: ffs, fileVer: "-"}
	proc := &statefakes.FakeChangeProcessor{}
	proc.ProcessStub = func() (state.ChangeType, *graph.Graph) {
		s.mu.Lock()
		s.mark = len(s.calls)
		s.mu.Unlock()
		return s.curCT, s.curG
	}
	proc.GetLatestGraphStub = func() *graph.Graph { return s.lastG }
	upd := &statusfakes.FakeGroupUpdater{}
	upd.UpdateGroupStub = func(_ context.Context, _ string, reqs ...frameworkStatus.UpdateRequest) {
		s.mu.Lock()
		s.calls = append(s.calls, reqs)
		s.mu.Unlock()
	}
	k8s := fake.NewFakeClient(&v1.Service{ObjectMeta: metav1.ObjectMeta{Namespace: "nginx-gateway", Name: "nginx-gateway"}})
	s.h = static.VerifC12NewHandler(static.VerifC12Deps{
		Plus:          plus,
		Generator:     ngxConfig.NewGeneratorImpl(plus, &ngfConfig.UsageReportConfig{}, logr.Discard()),
		FileMgr:       s.fm,
		RuntimeMgr:    s.rm,
		Processor:     proc,
		StatusUpdater: upd,
		K8sClient:     k8s,
		DeployCtx:     &licensingfakes.FakeCollector{},
		EventRecorder: record.NewFakeRecorder(64),
		CtlrName:      ctlrName,
	})
	return s
}

// batchSpec is the environment of one batch.
type batchSpec struct {
	ctc            string // n | e | c
	g              *graph.Graph
	fault          faultSpec // what the file layer does during ReplaceFiles
	svc            bool      // the batch carries an upsert of NGF's own Service (its filter re-issues Gateway statuses)
	apiOK          bool
	sc             *Script
	pp, pr, pv, ch string
	timeout        time.Duration
}

var faultClasses = []string{"n", "p", "i", "o"}

func genFault(r *rng.R, lastOps int) faultSpec {
	if !r.Chance(9, 20) {
		return faultSpec{}
	}
	f := faultSpec{mode: "idx", cls: rng.Pick(r, faultClasses), k: r.Intn(lastOps + 2)}
	if r.Chance(1, 3) {
		f.mode = "afterver"
	}
	if r.Chance(1, 4) {
		f.partial = r.Range(1, 40)
	}
	return f
}

func genBatch(r *rng.R, pid, lastOps int) batchSpec {
	b := batchSpec{ctc: "c"}
	switch p := r.Intn(100); {
	case p < 28:
		b.ctc = "n"
	case p < 55:
		b.ctc, b.g = "e", genGraph(r)
	default:
		b.g = genGraph(r)
	}
	b.fault = genFault(r, lastOps)
	b.svc = r.Chance(1, 3)
	b.apiOK = r.Chance(4, 5)
	b.sc, b.pp, b.pr, b.pv, b.ch, b.timeout = genOracle(r, pid)
	return b
}

// batch runs one real HandleEventBatch; false when the handler panicked.
func (s *segment) batch(b batchSpec) bool {
	m, fm, rm, h := s.m, s.fm, s.rm, s.h
	switch b.ctc {
	case "n":
		s.curCT, s.curG = state.NoChange, nil
	case "e":
		s.curCT, s.curG = state.EndpointsOnlyChange, b.g
	default:
		s.curCT, s.curG = state.ClusterStateChange, b.g
	}
	fm.reset(b.fault)
	s.apiOK = b.apiOK
	sc := b.sc
	rm.timeout = b.timeout
	rm.reloadCalled, rm.apiCalled, rm.hup, rm.chg, rm.served, rm.runs = false, false, false, false, "-", false
	m.mu.Lock()
	loadedBefore := m.loaded
	m.mu.Unlock()
	m.install(sc)
	s.mu.Lock()
	s.calls, s.mark = nil, 0
	s.mu.Unlock()
	var evs events.EventBatch
	if b.svc {
		evs = append(evs, &events.UpsertEvent{Resource: &v1.Service{
			ObjectMeta: metav1.ObjectMeta{Namespace: "nginx-gateway", Name: "nginx-gateway"},
			Spec:       v1.ServiceSpec{ClusterIP: "10.1.2.3"},
		}})
	}

	panicked := false
	func() {
		defer func() {
			if p := recover(); p != nil {
				panicked = true
				s.note = fmt.Sprintf("panic in HandleEventBatch: %v", p)
			}
		}()
		ctx, cancel := context.WithTimeout(context.Background(), outerTimeout)
		defer cancel()
		h.HandleEventBatch(ctx, evs)
	}()

	// the oracle this batch presented, resolved to concrete answers
	m.mu.Lock()
	vs := make([]string, len(sc.Vers))
	for k, a := range sc.Vers {
		switch {
		case k < len(m.answered):
			vs[k] = m.answered[k]
		case a.Kind == "int":
			vs[k] = strconv.Itoa(a.V)
		case a.Kind == "cur":
			vs[k] = strconv.Itoa(m.diskVersion)
		case a.Kind == "old":
			vs[k] = strconv.Itoa(loadedBefore)
		default:
			vs[k] = "e"
		}
	}
	m.mu.Unlock()
	wModel, nf, vi := "ok", 0, 0
	if fm.called {
		nf, vi = len(fm.files), fm.verIdx
		if fm.err != nil {
			wModel = classOf(fm.err) + ":" + strconv.Itoa(fm.fs.writesOK)
		}
	}
	chM := b.ch
	m.mu.Lock()
	if m.forcedSame {
		chM = "1,1"
	}
	m.mu.Unlock()
	s.mb = append(s.mb, fmt.Sprintf("ct=%s/nf=%d/vi=%d/w=%s/api=%s/pp=%s/pb=40/pr=%s/prev=%s/kill=%s/ch=%s/vs=%s/b=1000",
		b.ctc, nf, vi, wModel, b01(s.apiOK), b.pp, b.pr, b.pv, b01(sc.Kill), chM, strings.Join(vs, ",")))

	s.mu.Lock()
	if s.mark > len(s.calls) {
		s.mark = len(s.calls)
	}
	st := len(s.calls) > s.mark
	gw, ls, rt := summarise(s.calls[s.mark:])
	sv, svl, _ := summarise(s.calls[:s.mark]) // issued by the Service filter from the result remembered BEFORE this batch
	if s.mark > 0 {
		s.kinds["service-upsert-status"] = true
	}
	s.mu.Unlock()
	if b.ctc != "n" {
		s.lastG = b.g
	}
	v := "-"
	if b.ctc != "n" {
		v = strconv.Itoa(h.LatestConfigVersion())
	}
	rv, rr, rrJ := "-", "-", "-"
	if rm.reloadCalled {
		rv, rr, rrJ = strconv.Itoa(rm.reloadVer), classify(rm.reloadErr), "err"
		if rm.reloadErr == nil {
			rrJ = "ok"
		}
		s.kinds["reload-"+rr] = true
	}
	w, api, full, fw := "-", "-", "-", "-"
	if fm.called {
		w = b01(fm.err == nil)
		s.lastOps = len(fm.fs.ops)
		if fm.fs.fired != "" {
			s.kinds["files-"+fm.fs.fired+"-"+fm.spec.cls] = true
		}
		if fm.err != nil {
			s.kinds["write-fails"] = true
			if fm.fs.verOnDisk {
				s.kinds["write-fails-after-version-file"] = true
			}
		}
		isFull, complete := fm.diskState()
		full, fw = b01(isFull), strconv.Itoa(complete)
	}
	vd := "-"
	if v := fm.fs.diskVersion(fm.verPath); v >= 0 {
		vd = strconv.Itoa(v)
	}
	fe := "-"
	if e := h.LatestReloadErr(); fm.called && e != nil && strings.Contains(e.Error(), "failed to replace NGINX configuration files") {
		fe = classOf(e)
	}
	if rm.apiCalled {
		api = b01(rm.apiErr == nil)
		if rm.apiErr != nil {
			s.kinds["api-fails"] = true
		}
	}
	closes := 0
	if h.ReadyChClosed() {
		closes = 1
	}
	s.ob = append(s.ob, fmt.Sprintf("v=%s gen=%s rv=%s rr=%s api=%s st=%s fe=%s fw=%s ver=%d ready=%s fbe=%s last=%s closes=%d",
		v, b01(fm.called), rv, rr, b01(rm.apiCalled), b01(st), fe, fw, h.Version(), b01(h.ReadyzOK()),
		b01(h.FirstBatchErr() != nil), b01(h.LatestReloadErr() != nil), closes))
	s.jb = append(s.jb, fmt.Sprintf("ct=%s/w=%s/rr=%s/api=%s/v=%s/fv=%s/rv=%s/hup=%s/chg=%s/served=%s/run=%s/full=%s/vd=%s/st=%s/gw=%s/ls=%s/rt=%s/sv=%s/svl=%s/ready=%s/closes=%d/panic=%s",
		b.ctc, w, rrJ, api, v, fm.fileVer, rv, b01(rm.hup), b01(rm.chg), rm.served, b01(rm.runs), full, vd, b01(st), gw, ls, rt, sv, svl,
		b01(h.ReadyzOK()), closes, b01(panicked)))
	return !panicked
}

func kindSuffix(kinds map[string]bool) string {
	ks := make([]string, 0, len(kinds))
	for k := range kinds {
		ks = append(ks, k)
	}
	if len(ks) == 0 {
		return ""
	}
	sortStrings(ks)
	return "+" + strings.Join(ks, "+")
}

// handlerCase: one controller process, a random batch sequence.
func handlerCase(r *rng.R, root string, pid, maxBatches int) (out line) {
	m, err := newMaster(root, pid)
	if err != nil {
		return line{note: "simulator: " + err.Error(), kind: "sim-error"}
	}
	defer m.close()
	plus := r.Chance(1, 3)
	s := newSegment(m, plus, map[string]bool{})
	for i, nb := 0, r.Range(1, maxBatches); i < nb; i++ {
		if !s.batch(genBatch(r, pid, s.lastOps)) {
			break
		}
	}
	out.kind = "handler"
	if plus {
		out.kind = "handler-plus"
	}
	out.kind += kindSuffix(s.kinds)
	out.note = s.note
	out.judge = "H plus=" + b01(plus) + " obs=" + strings.Join(s.jb, ";")
	if out.note == "" {
		out.model = fmt.Sprintf("H plus=%s bs=%s", b01(plus), strings.Join(s.mb, ";"))
		out.obs = strings.Join(s.ob, ";")
	}
	if len(m.badPaths) > 0 {
		out.note = "unexpected paths: " + strings.Join(m.badPaths, ",")
	}
	return out
}

// cleanBatch: a change with a master that behaves and no file fault.
func cleanBatch(r *rng.R, pid int, ctc string) batchSpec {
	b := batchSpec{ctc: ctc, g: genGraph(r), apiOK: true, timeout: longTimeout,
		pp: "p", pr: strconv.Itoa(pid), pv: "1", ch: "2"}
	b.sc = &Script{Kill: true, Child: "changed", PidPolls: "p", PidRead: pidContent(r, pid), Stale: -7,
		Vers: []VerAns{{Kind: "cur"}}}
	return b
}

// applyDirectedCase: the FIRST configuration of a controller cannot be written completely — creating a
// file fails with an error of class cls right after the version file was written —, the master would
// accept whatever is on disk; then an idle batch (with a Service upsert), then a clean apply.
func applyDirectedCase(r *rng.R, root string, pid int, cls string, plus bool) (out line) {
	// the generator iterates a map: when the version file happens to come last nothing can fail after it; try again
	for attempt := 0; attempt < 6; attempt++ {
		var fired bool
		out, fired = applyDirectedOnce(r, root, pid, cls, plus)
		if fired || out.note != "" {
			break
		}
	}
	return out
}

func applyDirectedOnce(r *rng.R, root string, pid int, cls string, plus bool) (out line, fired bool) {
	m, err := newMaster(root, pid)
	if err != nil {
		return line{note: "simulator: " + err.Error(), kind: "sim-error"}, false
	}
	defer m.close()
	s := newSegment(m, plus, map[string]bool{})
	b1 := cleanBatch(r, pid, "c")
	b1.fault = faultSpec{mode: "afterver", cls: cls}
	b2 := cleanBatch(r, pid, "n")
	b2.svc = true
	for i, b := range []batchSpec{b1, b2, cleanBatch(r, pid, "c")} {
		if !s.batch(b) {
			break
		}
		if i == 0 {
			fired = s.fm.fs.fired != ""
		}
	}
	out.kind = "apply-directed-" + cls + kindSuffix(s.kinds)
	out.note = s.note
	out.judge = "H plus=" + b01(plus) + " obs=" + strings.Join(s.jb, ";")
	if out.note == "" {
		out.model = fmt.Sprintf("H plus=%s bs=%s", b01(plus), strings.Join(s.mb, ";"))
		out.obs = strings.Join(s.ob, ";")
	}
	if len(m.badPaths) > 0 {
		out.note = "unexpected paths: " + strings.Join(m.badPaths, ",")
	}
	return out, fired
}

// staleDirectedCase (regression input for the defect fixed by /repo c94173a): NGINX Plus; the first
// configuration cannot be written (permission error on the first create), then an endpoints-only change
// whose Plus API calls would succeed, then an idle batch with a Service upsert. Before the fix the second
// batch took the API path alone and reported success; now it writes the files and reloads.
func staleDirectedCase(r *rng.R, root string, pid int) (out line) {
	m, err := newMaster(root, pid)
	if err != nil {
		return line{note: "simulator: " + err.Error(), kind: "sim-error"}
	}
	defer m.close()
	s := newSegment(m, true, map[string]bool{})
	b1 := cleanBatch(r, pid, "c")
	b1.fault = faultSpec{mode: "idx", k: 0, cls: "p"}
	b3 := cleanBatch(r, pid, "n")
	b3.svc = true
	for _, b := range []batchSpec{b1, cleanBatch(r, pid, "e"), b3} {
		if !s.batch(b) {
			break
		}
	}
	out.kind = "stale-directed" + kindSuffix(s.kinds)
	out.note = s.note
	out.judge = "H plus=1 obs=" + strings.Join(s.jb, ";")
	if out.note == "" {
		out.model = fmt.Sprintf("H plus=1 bs=%s", strings.Join(s.mb, ";"))
		out.obs = strings.Join(s.ob, ";")
	}
	if len(m.badPaths) > 0 {
		out.note = "unexpected paths: " + strings.Join(m.badPaths, ",")
	}
	return out
}

// restartCase: the NGF container restarts (a new handler, version counter back at 0) while the
// NGINX master keeps running what the previous process configured. Judge only.
func restartCase(r *rng.R, root string, pid int, canonical bool) (out line) {
	m, err := newMaster(root, pid)
	if err != nil {
		return line{note: "simulator: " + err.Error(), kind: "sim-error"}
	}
	defer m.close()
	kinds := map[string]bool{}
	clean := func(ctc string) batchSpec {
		b := batchSpec{ctc: ctc, g: genGraph(r), apiOK: true, timeout: longTimeout,
			pp: "p", pr: strconv.Itoa(pid), pv: "1", ch: "2"}
		b.sc = &Script{Kill: true, Child: "changed", PidPolls: "p", PidRead: pidContent(r, pid), Stale: -7,
			Vers: []VerAns{{Kind: "cur"}}}
		return b
	}
	var segs []string
	// first process: configures NGINX k times, then idles
	a := newSegment(m, false, kinds)
	ka := r.Range(1, 3)
	if canonical { // the usual crash loop: the start-up batch was applied, nothing else
		ka = 1
	}
	for i := 0; i < ka; i++ {
		a.batch(clean("c"))
	}
	for i, k := 0, r.Intn(3); i < k; i++ {
		a.batch(batchSpec{ctc: "n", apiOK: true, timeout: longTimeout, pp: "p", pr: "1", pv: "1", ch: "2",
			sc: &Script{Kill: true, Child: "changed", PidPolls: "p", PidRead: "1"}})
	}
	segs = append(segs, strings.Join(a.jb, ";"))
	// second process
	b := newSegment(m, false, kinds)
	for i, k := 0, r.Range(1, 3); i < k; i++ {
		bs := clean("c")
		if r.Chance(1, 2) || (canonical && i == 0) {
			// the master rejects the new files (it keeps the old workers); one old worker, still
			// draining since the previous reload, exits meanwhile; the old workers answer their version
			bs.sc.Child, bs.ch = "exit", "3"
			bs.sc.Vers = []VerAns{{Kind: "old"}}
			bs.timeout = shortTimeout
			kinds["master-rejects-config"] = true
		}
		b.batch(bs)
	}
	segs = append(segs, strings.Join(b.jb, ";"))
	out.kind = "restart" + kindSuffix(kinds)
	out.note = a.note + b.note
	out.judge = "P plus=0 obs=" + strings.Join(segs, "|")
	if len(m.badPaths) > 0 {
		out.note = "unexpected paths: " + strings.Join(m.badPaths, ",")
	}
	return out
}

func sortStrings(s []string) {
	for i := 1; i < len(s); i++ {
		for j := i; j > 0 && s[j] < s[j-1]; j-- {
			s[j], s[j-1] = s[j-1], s[j]
		}
	}
}

// ---- status folding -----------------------------------------------------------------------------

func showConds(cs []metav1.Condition) string {
	if len(cs) == 0 {
		return "-"
	}
	out := make([]string, len(cs))
	for i, c := range cs {
		out[i] = fmt.Sprintf("%s:%s:%s", c.Type, c.Status, c.Reason)
	}
	return strings.Join(out, ",")
}

func showRaw(cs []conditions.Condition) string {
	if len(cs) == 0 {
		return "-"
	}
	out := make([]string, len(cs))
	for i, c := range cs {
		out[i] = fmt.Sprintf("%s:%s:%s", c.Type, c.Status, c.Reason)
	}
	return strings.Join(out, ",")
}

// statusCase calls the real PrepareGatewayRequests / PrepareRouteRequests on one generated graph
// with and without a reload error and reports one target (gateway, a listener, a route parent).
func statusCase(r *rng.R) (out line) {
	defer func() {
		if p := recover(); p != nil {
			out = line{note: fmt.Sprintf("panic in Prepare*Requests: %v", p), kind: "status"}
		}
	}()
	var g *graph.Graph
	for {
		g = genGraph(r)
		if g.Gateway != nil && g.Gateway.Valid {
			break
		}
	}
	now := metav1.Now()
	gwStatus := func(res status.NginxReloadResult) gatewayv1.GatewayStatus {
		reqs := status.PrepareGatewayRequests(g.Gateway, nil, now, nil, res)
		obj := &gatewayv1.Gateway{}
		reqs[0].Setter(obj)
		return obj.Status
	}
	rtStatus := func(res status.NginxReloadResult) map[string][]gatewayv1.RouteParentStatus {
		o := map[string][]gatewayv1.RouteParentStatus{}
		for _, rq := range status.PrepareRouteRequests(nil, g.Routes, now, res, ctlrName) {
			obj := &gatewayv1.HTTPRoute{}
			rq.Setter(obj)
			o[rq.NsName.Name] = obj.Status.Parents
		}
		return o
	}
	fail := status.NginxReloadResult{Error: errors.New("reload failed")}
	g0, g1 := gwStatus(status.NginxReloadResult{}), gwStatus(fail)
	r0, r1 := rtStatus(status.NginxReloadResult{}), rtStatus(fail)
	errFlag := "1"
	if r.Chance(1, 4) {
		errFlag = "0"
	}
	pickErr := func(a, b []metav1.Condition) []metav1.Condition {
		if errFlag == "0" {
			return a
		}
		return b
	}
	type cand struct{ t, in, want string }
	var cands []cand
	cands = append(cands, cand{"g err=" + errFlag, showConds(g0.Conditions), showConds(pickErr(g0.Conditions, g1.Conditions))})
	for i, l := range g.Gateway.Listeners {
		if i >= len(g0.Listeners) || i >= len(g1.Listeners) {
			return line{note: "listener status missing", kind: "status"}
		}
		want := showConds(pickErr(g0.Listeners[i].Conditions, g1.Listeners[i].Conditions))
		in := showConds(g0.Listeners[i].Conditions)
		if !l.Valid { // the conditions before folding are known exactly: the listener's own
			in = showRaw(l.Conditions)
		}
		cands = append(cands, cand{"l err=" + errFlag, in, want})
	}
	for name, ps := range r0 {
		for i := range ps {
			if i >= len(r1[name]) {
				return line{note: "route parent status missing", kind: "status"}
			}
			want := showConds(pickErr(ps[i].Conditions, r1[name][i].Conditions))
			cands = append(cands, cand{"r err=" + errFlag, showConds(ps[i].Conditions), want})
		}
	}
	// map iteration above is unordered: choose deterministically
	sortCands := func() {
		for i := 1; i < len(cands); i++ {
			for j := i; j > 0 && cands[j].t+cands[j].in+cands[j].want < cands[j-1].t+cands[j-1].in+cands[j-1].want; j-- {
				cands[j], cands[j-1] = cands[j-1], cands[j]
			}
		}
	}
	sortCands()
	c := cands[r.Intn(len(cands))]
	out.kind = "status-" + c.t[:1]
	out.model = fmt.Sprintf("S t=%s cs=%s", c.t, c.in)
	out.obs = "cs=" + c.want
	return out
}
