package c12

import (
	"context"
	"fmt"
	"strconv"
	"strings"
	"sync"
	"time"

	"github.com/go-logr/logr"

	ngxruntime "github.com/nginx/nginx-gateway-fabric/internal/mode/static/nginx/runtime"
	"github.com/nginx/nginx-gateway-fabric/verifharness/rng"
)

// Timeouts of the code under test, scaled down from PidFileTimeout (10 s) / NginxReloadTimeout (60 s).
// The polls run every 25 ms (version, children) / 500 ms (pid file): a scripted event at index <= 6 is
// due after <= 150 ms (pid file: index 1 after 500 ms), so longTimeout / pidLongTimeout leave a safety
// factor >= 50 on an idle machine; `-scale` multiplies everything for the isolated re-run of a case
// whose result differed from the model (machine under load).
var (
	longTimeout    = 10 * time.Second
	pidLongTimeout = 30 * time.Second
	shortTimeout   = 300 * time.Millisecond
	midTimeout     = 4 * time.Second
	pidNever       = 650 * time.Millisecond
	outerTimeout   = 150 * time.Second
)

func setScale(k int) {
	if k <= 1 {
		return
	}
	d := time.Duration(k)
	longTimeout, pidLongTimeout, shortTimeout, midTimeout, pidNever, outerTimeout =
		longTimeout*d, pidLongTimeout*d, shortTimeout*d, midTimeout*d, pidNever*d, outerTimeout*d
}

type line struct {
	model, obs, judge string
	note              string // anomaly of the harness itself (unexpected path, recovered panic)
	kind              string // histogram key
}

func (l line) String() string {
	var parts []string
	if l.model != "" {
		parts = append(parts, "M "+l.model, "O "+l.obs)
	}
	if l.judge != "" {
		parts = append(parts, "J "+l.judge)
	}
	if l.note != "" {
		parts = append(parts, "X "+l.note)
	}
	parts = append(parts, "K "+l.kind)
	return strings.Join(parts, "\t")
}

var garbagePids = []string{"", "abc", "12 34", "12a", "0x1F", "1e3", "99999999999999999999999", "１２", "-"}

func staleOf(r *rng.R, n int) int {
	c := []int{n - 1, n + 1, 0, -n, n * 10, n + 2, n / 2, 1}
	for i := 0; i < 10; i++ {
		v := rng.Pick(r, c)
		if v != n {
			return v
		}
	}
	return n + 1
}

var errKinds = []string{"e500", "e404", "garbage", "empty", "nl"}

// genVers draws a version-answer script; terminates reports whether some element stops the poll.
func genVers(r *rng.R, n int) (vs []VerAns, terminates bool) {
	k := r.Intn(4)
	if r.Chance(1, 2) {
		k = 0
	}
	for i := 0; i < k; i++ {
		vs = append(vs, VerAns{Kind: "int", V: staleOf(r, n)})
	}
	switch p := r.Intn(100); {
	case p < 55:
		vs = append(vs, VerAns{Kind: "int", V: n})
		terminates = true
	case p < 75:
		vs = append(vs, VerAns{Kind: rng.Pick(r, errKinds), V: n})
		terminates = true
	case p < 90: // stale forever
	default: // random tail
		for i := r.Intn(3); i >= 0; i-- {
			switch r.Intn(3) {
			case 0:
				vs = append(vs, VerAns{Kind: "int", V: n})
				terminates = true
			case 1:
				vs = append(vs, VerAns{Kind: rng.Pick(r, errKinds), V: n})
				terminates = true
			default:
				vs = append(vs, VerAns{Kind: "int", V: staleOf(r, n)})
			}
		}
	}
	return vs, terminates
}

func oracleVers(vs []VerAns) string {
	if len(vs) == 0 {
		return "-"
	}
	out := make([]string, len(vs))
	for i, a := range vs {
		if a.Kind == "int" {
			out[i] = strconv.Itoa(a.V)
		} else {
			out[i] = "e"
		}
	}
	return strings.Join(out, ",")
}

// pidContent decorates a pid the way strings.TrimSpace + Atoi tolerate.
func pidContent(r *rng.R, pid int) string {
	s := strconv.Itoa(pid)
	switch r.Intn(6) {
	case 0:
		return s
	case 1:
		return " " + s + " \n"
	case 2:
		return "+" + s + "\n"
	case 3:
		return "\t" + s + "\r\n"
	case 4:
		return "0" + s + "\n"
	default:
		return s + "\n"
	}
}

// rspec is one Reload case: the simulator script, the same thing in the oracle vocabulary of the
// Lean model, and the (scaled) timeouts.
type rspec struct {
	n                   int
	sc                  *Script
	pp, pr, prev, ch    string
	vs                  []VerAns
	pidTimeout, timeout time.Duration
	modelled            bool
	kind                []string
}

// genReload draws one Reload case.
func genReload(r *rng.R, pid int, slowOK bool) rspec {
	n := r.Range(1, 40)
	if r.Chance(1, 15) {
		n = 0
	}
	sc := &Script{Kill: true, Child: "changed", PidPolls: "p", PidRead: pidContent(r, pid)}
	pp, pr := "p", strconv.Itoa(pid)
	pidTimeout := pidLongTimeout
	kind := []string{}
	// pid file
	switch p := r.Intn(100); {
	case slowOK && pid%3 == 0:
		sc.PidPolls, pp = "mp", "m,p"
		kind = append(kind, "pid-late")
	case slowOK && pid%3 == 1:
		sc.PidPolls, pp = "ms", "m,s"
		kind = append(kind, "pid-late-stat-err")
	case slowOK:
		sc.PidPolls, pp = "m", "m,m"
		pidTimeout = pidNever
		kind = append(kind, "pid-never")
	case p < 4:
		sc.PidPolls, pp = "s", "s"
		kind = append(kind, "pid-stat-err")
	}
	switch p := r.Intn(100); {
	case p < 5:
		sc.PidRead, pr = "\x00err", "e"
		kind = append(kind, "pid-read-err")
	case p < 14:
		sc.PidRead, pr = rng.Pick(r, garbagePids), "g"
		kind = append(kind, "pid-garbled")
	}
	prev := "1"
	if r.Chance(1, 20) {
		sc.PrevErr, prev = true, "e"
		kind = append(kind, "prev-read-err")
	}
	if r.Chance(1, 12) {
		sc.Kill = false
		sc.Spurious = r.Bool()
		kind = append(kind, "kill-fails")
	}
	ch := "2"
	modelled := true
	switch p := r.Intn(100); {
	case p < 12:
		sc.Child, ch = "same", "1,1,1"
		kind = append(kind, "workers-never")
	case p < 20:
		sc.Child, ch = "removed", "e"
		kind = append(kind, "children-unreadable")
	case p < 28:
		sc.Child, ch = "exit", "3"
		kind = append(kind, "worker-exit-only")
	case p < 36:
		sc.Child, sc.DelayMs, ch = "delayed", r.Range(10, 70), "1,2"
		kind = append(kind, "workers-late")
	}
	vs, term := genVers(r, n)
	if r.Chance(1, 25) {
		vs = append(vs, VerAns{Kind: "hang"})
		term, modelled = true, false
		kind = append(kind, "version-hangs")
	}
	sc.Vers = vs
	sc.Stale = staleOf(r, n)
	if !term {
		kind = append(kind, "version-never")
	} else if len(vs) > 1 {
		kind = append(kind, "version-late")
	}
	for _, a := range vs {
		if a.Kind != "int" && a.Kind != "hang" {
			kind = append(kind, "version-"+a.Kind)
		}
	}
	timeout := longTimeout
	if !term || sc.Child == "same" || !modelled {
		timeout = shortTimeout
		if sc.Child == "delayed" { // the respawn must be seen well before the (short) deadline
			sc.DelayMs = 5
		}
	}
	if len(kind) == 0 {
		kind = append(kind, "clean")
	}

	return rspec{n: n, sc: sc, pp: pp, pr: pr, prev: prev, ch: ch, vs: vs, pidTimeout: pidTimeout,
		timeout: timeout, modelled: modelled, kind: kind}
}

// reloadCase runs one real ManagerImpl.Reload against a fresh simulated master.
func reloadCase(r *rng.R, root string, pid int, slowOK bool) line {
	return runReload(root, pid, genReload(r, pid, slowOK))
}

func runReload(root string, pid int, s rspec) (out line) {
	defer func() {
		if p := recover(); p != nil {
			out.note = fmt.Sprintf("panic in Reload: %v", p)
		}
	}()
	m, err := newMaster(root, pid)
	if err != nil {
		return line{note: "simulator: " + err.Error(), kind: "sim-error"}
	}
	defer m.close()
	n, sc, pp, pr, prev, ch, vs := s.n, s.sc, s.pp, s.pr, s.prev, s.ch, s.vs
	pidTimeout, timeout, modelled, kind := s.pidTimeout, s.timeout, s.modelled, s.kind
	pb := 40
	m.install(sc)
	mc := &metrics{}
	vc := ngxruntime.VerifC12NewVerifyClient(m.sock, timeout)
	mgr := ngxruntime.NewManagerImpl(nil, mc, logr.Discard(), newProcHandler(m, pidTimeout), vc)
	ctx, cancel := context.WithTimeout(context.Background(), outerTimeout)
	rerr := mgr.Reload(ctx, n)
	cancel()
	hup, chg, served, vr, kc := m.state()
	res := classify(rerr)
	ret := "err"
	if rerr == nil {
		ret = "ok"
	}
	out.kind = strings.Join(kind, "+")
	out.judge = fmt.Sprintf("R n=%d ret=%s hup=%s chg=%s served=%s", n, ret, b01(hup), b01(chg), served)
	if len(m.badPaths) > 0 {
		out.note = "unexpected paths: " + strings.Join(m.badPaths, ",")
	}
	if modelled {
		out.model = fmt.Sprintf("R pp=%s pb=%d pr=%s prev=%s kill=%s ch=%s vs=%s b=1000 n=%d",
			pp, pb, pr, prev, b01(sc.Kill), ch, oracleVers(vs), n)
		if strings.HasSuffix(res, "Timeout") {
			// the number of polls before a deadline depends on the wall clock
			out.obs = fmt.Sprintf("res=%s kill=%s", res, b01(kc > 0))
		} else {
			out.obs = fmt.Sprintf("res=%s kill=%s vr=%d", res, b01(kc > 0), vr)
		}
		if kc > 1 {
			out.note = fmt.Sprintf("Kill called %d times", kc)
		}
	}
	return out
}

// waitCase runs the real VerifyClient.WaitForCorrectVersion with a scripted readFile (so that the
// number of reads is observable) against the scripted version endpoint.
func waitCase(r *rng.R, root string, pid int) (out line) {
	defer func() {
		if p := recover(); p != nil {
			out.note = fmt.Sprintf("panic in WaitForCorrectVersion: %v", p)
		}
	}()
	m, err := newMaster(root, pid)
	if err != nil {
		return line{note: "simulator: " + err.Error(), kind: "sim-error"}
	}
	defer m.close()
	n := r.Range(0, 30)
	prev := r.Range(1, 3)
	var reads []string // "e" or content id
	k := r.Intn(4)
	for i := 0; i < k; i++ {
		reads = append(reads, strconv.Itoa(prev))
	}
	childTerm := true
	switch p := r.Intn(10); {
	case p < 6:
		reads = append(reads, strconv.Itoa(prev+1+r.Intn(2)))
	case p < 8:
		reads = append(reads, "e")
	default:
		childTerm = false
		if len(reads) == 0 {
			reads = append(reads, strconv.Itoa(prev))
		}
	}
	vs, term := genVers(r, n)
	if !term && childTerm && reads[len(reads)-1] != "e" && k > 0 && r.Chance(3, 4) {
		reads, k = reads[len(reads)-1:], 0
	}
	sc := &Script{Vers: vs, Stale: staleOf(r, n), Kill: true}
	m.install(sc)
	// Deadlines are wall-clock. A short one is used only where nothing scripted has to be reached before it
	// (children never change; or they change at the FIRST read and the version script never terminates).
	// A children script that ends in a read error aborts the wait: the version script is not consulted,
	// so the long deadline costs nothing. Late workers + a version that never comes need a deadline
	// >= 50 x the time of the last scripted read (k x 25 ms).
	timeout := longTimeout
	switch {
	case !childTerm:
		timeout = shortTimeout
	case reads[len(reads)-1] == "e":
	case !term && k == 0:
		timeout = shortTimeout
	case !term:
		timeout = midTimeout
	}
	content := func(id string) []byte { return []byte("w" + id + " ") }
	var mu sync.Mutex
	idx, last := 0, ""
	readFile := func(string) ([]byte, error) {
		mu.Lock()
		defer mu.Unlock()
		c := strconv.Itoa(prev)
		if idx < len(reads) {
			c = reads[idx]
		}
		idx++
		last = c
		if c == "e" {
			return nil, errChildRd
		}
		return content(c), nil
	}
	vc := ngxruntime.VerifC12NewVerifyClient(m.sock, timeout)
	ctx, cancel := context.WithTimeout(context.Background(), outerTimeout)
	rerr := vc.WaitForCorrectVersion(ctx, n, m.childPath, content(strconv.Itoa(prev)), readFile)
	cancel()
	_, _, served, vr, _ := m.state()
	res := classify(rerr)
	ret := "err"
	if rerr == nil {
		ret = "ok"
	}
	mu.Lock()
	cr, chg := idx, last != "e" && last != strconv.Itoa(prev) && last != ""
	mu.Unlock()
	out.kind = "wait"
	out.judge = fmt.Sprintf("R n=%d ret=%s hup=1 chg=%s served=%s", n, ret, b01(chg), served)
	out.model = fmt.Sprintf("W prev=%d ch=%s vs=%s b=1000 n=%d", prev, strings.Join(reads, ","), oracleVers(vs), n)
	if strings.HasSuffix(res, "Timeout") {
		// the number of polls before a deadline depends on the wall clock
		out.obs = fmt.Sprintf("res=%s", res)
	} else {
		out.obs = fmt.Sprintf("res=%s cr=%d vr=%d", res, cr, vr)
	}
	return out
}

func b01(b bool) string {
	if b {
		return "1"
	}
	return "0"
}

// corpusReload turns a line in the model's R vocabulary (corpus/C12/*.txt) into a Reload case:
//
//	R pp=p pb=40 pr=7 prev=1 kill=1 ch=2 vs=4,5 b=1000 n=5 [spurious=1]
//
// pr: e | g | <anything else: the case's pid>; ch: e = removed, first element != 1 = changed at
// the HUP, otherwise never; vs: e = HTTP 500 with the expected number as body.
func corpusReload(l string, pid int) (rspec, bool) {
	f := map[string]string{}
	for _, kv := range strings.Fields(l)[1:] {
		if i := strings.IndexByte(kv, '='); i > 0 {
			f[kv[:i]] = kv[i+1:]
		}
	}
	n, err := strconv.Atoi(f["n"])
	if err != nil || f["pp"] == "" || f["ch"] == "" {
		return rspec{}, false
	}
	sc := &Script{Kill: f["kill"] != "0", Spurious: f["spurious"] == "1", PrevErr: f["prev"] == "e",
		PidPolls: strings.ReplaceAll(f["pp"], ",", ""), PidRead: strconv.Itoa(pid) + "\n", Stale: n + 1000}
	s := rspec{n: n, sc: sc, pp: f["pp"], pr: strconv.Itoa(pid), prev: "1", ch: f["ch"], modelled: true,
		pidTimeout: pidLongTimeout, timeout: longTimeout, kind: []string{"corpus"}}
	if !strings.Contains(sc.PidPolls, "p") && !strings.Contains(sc.PidPolls, "s") {
		s.pidTimeout = pidNever
	}
	switch f["pr"] {
	case "e":
		sc.PidRead, s.pr = "\x00err", "e"
	case "g":
		sc.PidRead, s.pr = "12 34", "g"
	}
	if sc.PrevErr {
		s.prev = "e"
	}
	first := strings.Split(f["ch"], ",")[0]
	switch {
	case first == "e":
		sc.Child = "removed"
	case first != "1":
		sc.Child = "changed"
	default:
		sc.Child, s.timeout = "same", shortTimeout
	}
	term := false
	if f["vs"] != "-" && f["vs"] != "" {
		for _, a := range strings.Split(f["vs"], ",") {
			if a == "e" {
				s.vs = append(s.vs, VerAns{Kind: "e500", V: n})
				term = true
				continue
			}
			v, err := strconv.Atoi(a)
			if err != nil {
				return rspec{}, false
			}
			s.vs = append(s.vs, VerAns{Kind: "int", V: v})
			term = term || v == n
		}
	}
	sc.Vers = s.vs
	if !term {
		s.timeout = shortTimeout
	}
	return s, true
}
