package c12

import (
	"bufio"
	"flag"
	"fmt"
	"os"
	"strings"
	"sync"

	ngxruntime "github.com/nginx/nginx-gateway-fabric/internal/mode/static/nginx/runtime"
	"github.com/nginx/nginx-gateway-fabric/verifharness/rng"
)

type job func() line

// runParallel runs the jobs on `workers` goroutines and returns the lines in job order.
func runParallel(jobs []job, workers int) []line {
	out := make([]line, len(jobs))
	var wg sync.WaitGroup
	ch := make(chan int)
	for w := 0; w < workers; w++ {
		wg.Add(1)
		go func() {
			defer wg.Done()
			for i := range ch {
				out[i] = jobs[i]()
			}
		}()
	}
	for i := range jobs {
		ch <- i
	}
	close(ch)
	wg.Wait()
	return out
}

func Run(args []string) int {
	fs := flag.NewFlagSet("c12", flag.ExitOnError)
	seed := fs.Uint64("seed", 1, "seed")
	nReload := fs.Int("reload", 150, "number of Reload cases")
	nWait := fs.Int("wait", 100, "number of WaitForCorrectVersion cases")
	nHandler := fs.Int("handler", 80, "number of handler batch sequences")
	nStatus := fs.Int("status", 100, "number of status folding cases")
	nRestart := fs.Int("restart", 12, "number of controller-restart sequences (judge only)")
	maxBatches := fs.Int("maxbatches", 8, "max batches per sequence")
	slow := fs.Int("slow", 6, "max number of cases that wait for a 500 ms pid-file poll")
	workers := fs.Int("workers", 8, "parallel cases")
	corpus := fs.String("corpus", "", "file with Reload cases in the model's R vocabulary, run first")
	only := fs.Int("only", -1, "run only the case with this index (= output line number) of the same seed and sizes")
	scale := fs.Int("scale", 1, "multiply every scaled-down timeout by this factor")
	_ = fs.Parse(args)
	setScale(*scale)

	base := "/verif/work/tmp"
	if err := os.MkdirAll(base, 0o755); err != nil {
		fmt.Fprintln(os.Stderr, err)
		return 2
	}
	// unix socket paths are limited to ~107 bytes: keep the root short
	root, err := os.MkdirTemp(base, "c12-")
	if err != nil {
		fmt.Fprintln(os.Stderr, err)
		return 2
	}
	defer os.RemoveAll(root)
	old := ngxruntime.VerifC12SetChildProcPathFmt(childFmt(root))
	defer ngxruntime.VerifC12SetChildProcPathFmt(old)

	// rng.New(seed) streams of consecutive seeds are shifted copies of each other: fork once
	r := rng.New(*seed).Fork()
	var jobs []job
	pid := 1000
	if *corpus != "" {
		b, err := os.ReadFile(*corpus)
		if err != nil {
			fmt.Fprintln(os.Stderr, err)
			return 2
		}
		for _, l := range strings.Split(string(b), "\n") {
			l = strings.TrimSpace(l)
			if !strings.HasPrefix(l, "R ") {
				continue
			}
			pid++
			p := pid
			spec, ok := corpusReload(l, p)
			if !ok {
				jobs = append(jobs, func() line { return line{note: "bad corpus line: " + l, kind: "corpus"} })
				continue
			}
			jobs = append(jobs, func() line { return runReload(root, p, spec) })
		}
	}
	slowLeft := *slow
	for i := 0; i < *nReload; i++ {
		cr := r.Fork()
		pid++
		p := pid
		slowOK := slowLeft > 0 && i%7 == 3
		if slowOK {
			slowLeft--
		}
		jobs = append(jobs, func() line { return reloadCase(cr, root, p, slowOK) })
	}
	for i := 0; i < *nWait; i++ {
		cr := r.Fork()
		pid++
		p := pid
		jobs = append(jobs, func() line { return waitCase(cr, root, p) })
	}
	if *nHandler > 0 { // directed: every error class right after the version file, OSS and Plus
		for i, cls := range faultClasses {
			cr := r.Fork()
			pid++
			p, c, plus := pid, cls, i%2 == 1
			jobs = append(jobs, func() line { return applyDirectedCase(cr, root, p, c, plus) })
		}
		cr := r.Fork()
		pid++
		p := pid
		jobs = append(jobs, func() line { return staleDirectedCase(cr, root, p) })
	}
	for i := 0; i < *nHandler; i++ {
		cr := r.Fork()
		pid++
		p := pid
		jobs = append(jobs, func() line { return handlerCase(cr, root, p, *maxBatches) })
	}
	for i := 0; i < *nRestart; i++ {
		cr := r.Fork()
		pid++
		p := pid
		canonical := i == 0
		jobs = append(jobs, func() line { return restartCase(cr, root, p, canonical) })
	}
	for i := 0; i < *nStatus; i++ {
		cr := r.Fork()
		jobs = append(jobs, func() line { return statusCase(cr) })
	}
	if *only >= 0 {
		// the forks above were drawn for every case, so case #only sees the same random stream
		if *only >= len(jobs) {
			fmt.Fprintln(os.Stderr, "no such case")
			return 2
		}
		jobs = jobs[*only : *only+1]
	}
	lines := runParallel(jobs, *workers)
	w := bufio.NewWriter(os.Stdout)
	defer w.Flush()
	for _, l := range lines {
		fmt.Fprintln(w, l.String())
	}
	return 0
}
