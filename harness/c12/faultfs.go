package c12

import (
	"errors"
	"io"
	"io/fs"
	"os"
	"path/filepath"
	"strconv"
	"strings"
	"syscall"

	"github.com/nginx/nginx-gateway-fabric/internal/mode/static/nginx/file"
)

// faultSpec: which operation of one ReplaceFiles call fails, and with an error VALUE of which class.
type faultSpec struct {
	mode    string // "" = none | "idx" = operation number k | "afterver" = first create/chmod/write after the version file was written
	k       int
	cls     string // n = wraps fs.ErrNotExist (ENOENT) | p = fs.ErrPermission (EACCES) | i = EIO | o = a plain error
	partial int    // a failing write puts this many bytes on disk first
}

func (s faultSpec) String() string {
	if s.mode == "" {
		return "-"
	}
	return s.mode + ":" + strconv.Itoa(s.k) + ":" + s.cls
}

// errOf builds the error value of class cls for operation op on path.
func errOf(cls, op, path string) error {
	switch cls {
	case "n":
		return &fs.PathError{Op: op, Path: path, Err: syscall.ENOENT}
	case "p":
		return &fs.PathError{Op: op, Path: path, Err: syscall.EACCES}
	case "i":
		return &fs.PathError{Op: op, Path: path, Err: syscall.EIO}
	default:
		return errors.New("verif: " + op + " " + path + ": injected failure")
	}
}

// classOf is what errors.Is sees through the %w chain of a returned error.
func classOf(err error) string {
	switch {
	case errors.Is(err, fs.ErrNotExist):
		return "n"
	case errors.Is(err, fs.ErrPermission):
		return "p"
	case errors.Is(err, syscall.EIO):
		return "i"
	default:
		return "o"
	}
}

// faultFS implements file.OSFileManager: absolute NGINX paths are mapped into a private root, every
// operation goes to the REAL StdLibOSFileManager of the repository, and one operation per
// ReplaceFiles call fails as scheduled. It also keeps the simulated master informed that the
// file set on disk changed (generation counter).
type faultFS struct {
	root string
	real *file.StdLibOSFileManager
	m    *Master

	spec      faultSpec
	verPath   string // NGINX path of config-version.conf in the current call
	n         int
	ops       []string
	fired     string // "<op>" that was made to fail ("" = none); "remove-enoent" is tolerated by ReplaceFiles
	names     map[*os.File]string
	wrote     map[string]bool // paths whose Write succeeded in this call
	writesOK  int
	verOnDisk bool // the version file was written completely in this call
}

func newFaultFS(root string, m *Master) *faultFS {
	return &faultFS{root: root, real: file.NewStdLibOSFileManager(), m: m, names: map[*os.File]string{}}
}

func (f *faultFS) begin(spec faultSpec, verPath string) {
	f.spec, f.verPath = spec, verPath
	f.n, f.ops, f.fired = 0, nil, ""
	f.names = map[*os.File]string{}
	f.wrote = map[string]bool{}
	f.writesOK, f.verOnDisk = 0, false
}

func (f *faultFS) mapPath(p string) string { return filepath.Join(f.root, p) }

func (f *faultFS) touched() {
	f.m.mu.Lock()
	f.m.diskGen++
	f.m.mu.Unlock()
}

// next registers an operation; true = it has to fail.
func (f *faultFS) next(kind string) bool {
	idx := f.n
	f.n++
	f.ops = append(f.ops, kind)
	if f.fired != "" {
		return false
	}
	hit := false
	switch f.spec.mode {
	case "idx":
		hit = idx == f.spec.k
	case "afterver":
		hit = f.verOnDisk && (kind == "create" || kind == "chmod" || kind == "write")
	}
	if hit {
		f.fired = kind
		if kind == "remove" && f.spec.cls == "n" {
			f.fired = "remove-enoent"
		}
	}
	return hit
}

func (f *faultFS) ReadDir(dirname string) ([]fs.DirEntry, error) {
	return f.real.ReadDir(f.mapPath(dirname))
}

func (f *faultFS) Remove(name string) error {
	if f.next("remove") {
		if f.spec.cls == "n" { // somebody else removed the file: Remove truthfully answers ENOENT
			_ = os.Remove(f.mapPath(name))
			f.touched()
		}
		return errOf(f.spec.cls, "remove", name)
	}
	err := f.real.Remove(f.mapPath(name))
	f.touched()
	return err
}

func (f *faultFS) Create(name string) (*os.File, error) {
	if f.next("create") {
		return nil, errOf(f.spec.cls, "open", name)
	}
	_ = os.MkdirAll(filepath.Dir(f.mapPath(name)), 0o755)
	fl, err := f.real.Create(f.mapPath(name))
	if err == nil {
		f.names[fl] = name
	}
	f.touched()
	return fl, err
}

func (f *faultFS) Chmod(fl *os.File, mode os.FileMode) error {
	if f.next("chmod") {
		return errOf(f.spec.cls, "chmod", f.names[fl])
	}
	return f.real.Chmod(fl, mode)
}

func (f *faultFS) Write(fl *os.File, contents []byte) error {
	name := f.names[fl]
	if f.next("write") {
		if n := min(f.spec.partial, len(contents)); n > 0 {
			_ = f.real.Write(fl, contents[:n])
			f.touched()
		}
		return errOf(f.spec.cls, "write", name)
	}
	err := f.real.Write(fl, contents)
	f.touched()
	if err == nil {
		f.wrote[name] = true
		f.writesOK++
		if name == f.verPath {
			f.verOnDisk = true
		}
	}
	return err
}

func (f *faultFS) Open(name string) (*os.File, error) { return f.real.Open(f.mapPath(name)) }

func (f *faultFS) Copy(dst io.Writer, src io.Reader) error { return f.real.Copy(dst, src) }

// snapshot: every regular file under the root, NGINX path -> content.
func (f *faultFS) snapshot() map[string]string {
	out := map[string]string{}
	_ = filepath.WalkDir(f.root, func(p string, d fs.DirEntry, err error) error {
		if err != nil || d.IsDir() {
			return nil
		}
		b, rerr := os.ReadFile(p)
		if rerr != nil {
			return nil
		}
		out["/"+strings.TrimPrefix(filepath.ToSlash(strings.TrimPrefix(p, f.root)), "/")] = string(b)
		return nil
	})
	return out
}

// diskVersion: the version found in the version file ACTUALLY on disk (-1: no such file / no number).
func (f *faultFS) diskVersion(verPath string) int {
	if verPath == "" {
		return -1
	}
	b, err := os.ReadFile(f.mapPath(verPath))
	if err != nil {
		return -1
	}
	if mm := versionRe.FindSubmatch(b); mm != nil {
		v, _ := strconv.Atoi(string(mm[1]))
		return v
	}
	return -1
}

// diskMgr is the file.Manager given to the handler: the REAL ManagerImpl over faultFS; it records
// what was handed over and what came back.
type diskMgr struct {
	inner *file.ManagerImpl
	fs    *faultFS
	spec  faultSpec

	called  bool
	err     error
	files   []file.File
	fileVer string
	verIdx  int
	verPath string
}

func (d *diskMgr) reset(spec faultSpec) {
	d.spec, d.called, d.err, d.files, d.fileVer, d.verIdx = spec, false, nil, nil, "-", 0
}

func (d *diskMgr) ReplaceFiles(files []file.File) error {
	d.called, d.files, d.fileVer, d.verIdx = true, files, "-", 0
	for i, fl := range files {
		if strings.HasSuffix(fl.Path, "config-version.conf") {
			d.verIdx, d.verPath = i, fl.Path
			if mm := versionRe.FindSubmatch(fl.Content); mm != nil {
				d.fileVer = string(mm[1])
			}
		}
	}
	d.fs.m.mu.Lock()
	d.fs.m.verPath = d.verPath
	d.fs.m.mu.Unlock()
	d.fs.begin(d.spec, d.verPath)
	d.err = d.inner.ReplaceFiles(files)
	return d.err
}

// full: the files on disk are exactly the generated set; complete: how many generated files are
// completely on disk (written in this call, content equal).
func (d *diskMgr) diskState() (full bool, complete int) {
	snap := d.fs.snapshot()
	want := map[string]string{}
	for _, fl := range d.files {
		want[fl.Path] = string(fl.Content)
		if d.fs.wrote[fl.Path] && snap[fl.Path] == string(fl.Content) {
			complete++
		}
	}
	full = len(snap) == len(want)
	for p, c := range want {
		if got, ok := snap[p]; !ok || got != c {
			full = false
		}
	}
	return full, complete
}
