package c11

import (
	"encoding/hex"
	"fmt"
	"strconv"
	"strings"

	"github.com/nginx/nginx-gateway-fabric/internal/mode/static/nginx/file"
)

func splitList(s, sep string) []string {
	if s == "-" || s == "" {
		return nil
	}
	return strings.Split(s, sep)
}

func decSched(s string) ([]FaultAt, error) {
	var out []FaultAt
	for _, p := range splitList(s, "+") {
		kv := strings.SplitN(p, ":", 2)
		if len(kv) != 2 || kv[1] == "" {
			return nil, fmt.Errorf("bad fault %q", p)
		}
		k, err := strconv.Atoi(kv[0])
		if err != nil {
			return nil, err
		}
		f := Fault{Kind: FaultKind(kv[1][0])}
		if len(kv[1]) > 1 {
			if f.N, err = strconv.Atoi(kv[1][1:]); err != nil {
				return nil, err
			}
		}
		out = append(out, FaultAt{K: k, F: f})
	}
	return out, nil
}

// Decode parses the model vocabulary (`init=… steps=…`) back into a scenario.
func Decode(line string) (Scenario, error) {
	var sc Scenario
	sc.Family = "replay"
	for _, fld := range strings.Fields(line) {
		switch {
		case strings.HasPrefix(fld, "init="):
			for _, e := range splitList(fld[5:], "+") {
				p := strings.Split(e, ",")
				if len(p) != 3 {
					return sc, fmt.Errorf("bad fs entry %q", e)
				}
				m, err := strconv.Atoi(p[1])
				if err != nil {
					return sc, err
				}
				b, err := hex.DecodeString(p[2])
				if err != nil {
					return sc, err
				}
				sc.Init = append(sc.Init, FsEnt{Path: p[0], Mode: uint32(m), Content: b})
			}
		case strings.HasPrefix(fld, "steps="):
			for _, s := range splitList(fld[6:], ";") {
				p := strings.Split(s, "|")
				switch {
				case p[0] == "R" && len(p) == 3:
					st := Step{Kind: 'R'}
					for _, e := range splitList(p[1], "+") {
						q := strings.Split(e, ",")
						if len(q) != 3 {
							return sc, fmt.Errorf("bad file %q", e)
						}
						b, err := hex.DecodeString(q[2])
						if err != nil {
							return sc, err
						}
						t := file.TypeRegular
						if q[1] == "s" {
							t = file.TypeSecret
						}
						st.Files = append(st.Files, file.File{Path: q[0], Content: b, Type: t})
					}
					var err error
					if st.Sched, err = decSched(p[2]); err != nil {
						return sc, err
					}
					sc.Steps = append(sc.Steps, st)
				case p[0] == "S" && len(p) == 2:
					sched, err := decSched(p[1])
					if err != nil {
						return sc, err
					}
					sc.Steps = append(sc.Steps, Step{Kind: 'S', Sched: sched})
				default:
					return sc, fmt.Errorf("bad step %q", s)
				}
			}
		}
	}
	return sc, nil
}
