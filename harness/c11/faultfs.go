package c11

import (
	"fmt"
	"io"
	"io/fs"
	"os"
	"path/filepath"
	"syscall"

	"github.com/nginx/nginx-gateway-fabric/internal/mode/static/nginx/file"
)

// FaultKind of an injected fault.
type FaultKind byte

const (
	FEIO     FaultKind = 'e' // the operation fails without effect
	FENOENT  FaultKind = 'n' // Remove: the file has vanished and Remove answers ENOENT
	FPartial FaultKind = 'p' // Write: N bytes reach the disk, then the operation fails
	FCrash   FaultKind = 'c' // the process dies at this operation (a Write still puts N bytes on disk)
	// error VALUES (the operation fails without effect, as FEIO; only the returned error differs). FENOENT on
	// Create/Chmod/Write is a bare *PathError with ENOENT (errors.Is(err, fs.ErrNotExist) holds).
	FWrapENOENT FaultKind = 'w' // fmt.Errorf("…: %w", ENOENT): only errors.Is sees it, os.IsNotExist does not
	FEACCES     FaultKind = 'a' // bare EACCES
	FWrapEIO    FaultKind = 'v' // fmt.Errorf("…: %w", EIO)
)

// errFor is the error value an operation returns for an injected fault; dflt is the errno of the plain kinds.
func errFor(flt Fault, op, path string, dflt syscall.Errno) error {
	switch flt.Kind {
	case FENOENT:
		return ioErr(op, path, syscall.ENOENT)
	case FWrapENOENT:
		return fmt.Errorf("faultfs %s: %w", op, ioErr(op, path, syscall.ENOENT))
	case FEACCES:
		return ioErr(op, path, syscall.EACCES)
	case FWrapEIO:
		return fmt.Errorf("faultfs %s: %w", op, ioErr(op, path, syscall.EIO))
	}
	return ioErr(op, path, dflt)
}

type Fault struct {
	Kind FaultKind
	N    int
}

// crashSignal is thrown (panic) by FaultFS to simulate the death of the control plane.
type crashSignal struct{}

// FaultFS implements file.OSFileManager and file.ClearFoldersOSFileManager. It maps the absolute NGINX
// paths into a private root directory, delegates to the REAL StdLibOSFileManager of the repository
// (so a change of e.g. os.Create is observed) and fails operation #k of the current call per schedule.
type FaultFS struct {
	root  string
	real  *file.StdLibOSFileManager
	sched map[int]Fault
	n     int      // index of the next operation
	ops   []string // kinds of the operations performed in this call
	fail  string   // "<opkind>@<path>" of the operation that was made to fail with an error (not ENOENT-tolerated)
	names map[*os.File]string
}

func newFaultFS(root string) *FaultFS {
	return &FaultFS{root: root, real: file.NewStdLibOSFileManager(), names: map[*os.File]string{}}
}

func (f *FaultFS) begin(sched map[int]Fault) {
	f.sched, f.n, f.ops, f.fail = sched, 0, nil, "-"
	f.names = map[*os.File]string{}
}

func (f *FaultFS) mapPath(p string) string { return filepath.Join(f.root, p) }

// next registers an operation and returns the fault to apply, if any.
func (f *FaultFS) next(kind, path string) (Fault, bool) {
	flt, ok := f.sched[f.n]
	if ok && flt.Kind == FCrash && kind != "write" {
		f.ops = append(f.ops, kind)
		panic(crashSignal{})
	}
	f.ops = append(f.ops, kind)
	if ok && flt.Kind != FCrash {
		f.n++
		if !(kind == "remove" && flt.Kind == FENOENT) {
			f.fail = kind + "@" + path
		}
	}
	if !ok {
		f.n++
	}
	return flt, ok
}

func ioErr(op, path string, errno syscall.Errno) error {
	return &os.PathError{Op: op, Path: path, Err: errno}
}

func (f *FaultFS) ReadDir(dirname string) ([]fs.DirEntry, error) {
	if _, bad := f.next("readdir", dirname); bad {
		return nil, ioErr("open", dirname, syscall.EIO)
	}
	return f.real.ReadDir(f.mapPath(dirname))
}

func (f *FaultFS) Remove(name string) error {
	flt, bad := f.next("remove", name)
	if bad {
		if flt.Kind == FENOENT {
			// somebody else removed the file: the repository's Remove truthfully answers ENOENT — through
			// StdLibOSFileManager, so that the form in which it hands the error on is the real one
			_ = os.Remove(f.mapPath(name))
			if err := f.real.Remove(f.mapPath(name)); err != nil {
				return err
			}
			return ioErr("remove", name, syscall.ENOENT)
		}
		// a WRAPPED ENOENT is not what the OS answers: the file stays, and only errors.Is would call it "not found"
		return errFor(flt, "remove", name, syscall.EIO)
	}
	return f.real.Remove(f.mapPath(name))
}

func (f *FaultFS) Create(name string) (*os.File, error) {
	if flt, bad := f.next("create", name); bad {
		return nil, errFor(flt, "open", name, syscall.EACCES)
	}
	fl, err := f.real.Create(f.mapPath(name))
	if err == nil {
		f.names[fl] = name
	}
	return fl, err
}

func (f *FaultFS) Chmod(fl *os.File, mode os.FileMode) error {
	if flt, bad := f.next("chmod", f.names[fl]); bad {
		return errFor(flt, "chmod", f.names[fl], syscall.EPERM)
	}
	return f.real.Chmod(fl, mode)
}

func (f *FaultFS) Write(fl *os.File, contents []byte) error {
	flt, bad := f.next("write", f.names[fl])
	if bad {
		n := 0
		if flt.Kind == FPartial || flt.Kind == FCrash {
			n = flt.N
		}
		if n > len(contents) {
			n = len(contents)
		}
		if n > 0 {
			_ = f.real.Write(fl, contents[:n])
		}
		if flt.Kind == FCrash {
			panic(crashSignal{})
		}
		return errFor(flt, "write", f.names[fl], syscall.ENOSPC)
	}
	return f.real.Write(fl, contents)
}

func (f *FaultFS) Open(name string) (*os.File, error) { return f.real.Open(f.mapPath(name)) }

func (f *FaultFS) Copy(dst io.Writer, src io.Reader) error { return f.real.Copy(dst, src) }
