package c11

import (
	"fmt"
	"hash/fnv"
	"path/filepath"
	"sort"
	"sync"

	"github.com/go-logr/logr"

	ngfConfig "github.com/nginx/nginx-gateway-fabric/internal/mode/static/config"
	"github.com/nginx/nginx-gateway-fabric/internal/mode/static/nginx/config"
	"github.com/nginx/nginx-gateway-fabric/internal/mode/static/nginx/file"
	"github.com/nginx/nginx-gateway-fabric/internal/mode/static/state/dataplane"
	"github.com/nginx/nginx-gateway-fabric/internal/mode/static/state/graph"
	"github.com/nginx/nginx-gateway-fabric/verifharness/rng"
)

// Paths produced by the real generator that do not lie directly inside one of config.ConfigFolders
// (such a file would neither be cleared at start-up nor be creatable): reported as `P <path>` lines.
var (
	outsideMu sync.Mutex
	outside   = map[string]bool{}
	realPaths = map[string]bool{}
)

func inManaged(p string) bool {
	d := filepath.Dir(p)
	for _, f := range config.ConfigFolders {
		if d == f {
			return true
		}
	}
	return false
}

// shorten keeps the model lines small: the real content is replaced by 2 of its bytes plus a hash.
func shorten(b []byte) []byte {
	if len(b) <= 6 {
		return b
	}
	h := fnv.New32a()
	h.Write(b)
	s := h.Sum32()
	return []byte{b[0], b[1], byte('a' + s%26), byte('a' + (s>>8)%26), byte('a' + (s>>16)%26), byte('a' + (s>>24)%26)}
}

// genRealSet runs the REAL config.GeneratorImpl.Generate on a small random dataplane.Configuration:
// the paths and file types are the generator's own (key pair files of listeners that come and go,
// certificate bundles, snippet and policy includes, mgmt files in the Plus flavour).
func genRealSet(r *rng.R) (files []file.File) {
	defer func() {
		if rec := recover(); rec != nil {
			files = []file.File{{Path: "/etc/nginx/conf.d/http.conf", Content: []byte(fmt.Sprint("P", rec))[:2]}}
		}
	}()
	conf := dataplane.Configuration{
		HTTPServers: []dataplane.VirtualServer{{IsDefault: true, Port: 80}},
		SSLServers:  []dataplane.VirtualServer{{IsDefault: true, Port: 443}},
		SSLKeyPairs: map[dataplane.SSLKeyPairID]dataplane.SSLKeyPair{},
		CertBundles: map[dataplane.CertBundleID]dataplane.CertBundle{},
		Logging:     dataplane.Logging{ErrorLevel: "info"},
		Version:     r.Range(1, 9),
	}
	for _, id := range []string{"ssl_keypair_ns_listener-a", "ssl_keypair_ns_listener-b", "ssl_keypair_other_tls"} {
		if r.Chance(1, 2) {
			conf.SSLKeyPairs[dataplane.SSLKeyPairID(id)] = dataplane.SSLKeyPair{
				Cert: randBytes(r, 3, 9), Key: randBytes(r, 3, 9),
			}
			conf.SSLServers = append(conf.SSLServers, dataplane.VirtualServer{
				Hostname: id + ".example.com", Port: 443, SSL: &dataplane.SSL{KeyPairID: dataplane.SSLKeyPairID(id)},
			})
		}
	}
	for _, id := range []string{"cert_bundle_ns_ca", "cert_bundle_ns_ca2"} {
		if r.Chance(1, 3) {
			conf.CertBundles[dataplane.CertBundleID(id)] = dataplane.CertBundle(randBytes(r, 3, 9))
		}
	}
	if r.Chance(1, 3) {
		conf.MainSnippets = []dataplane.Snippet{{Name: "SnippetsFilter_main_ns_sf", Contents: "worker_priority 0;"}}
	}
	if r.Chance(1, 3) {
		conf.BaseHTTPConfig.Snippets = []dataplane.Snippet{{Name: "SnippetsFilter_http_ns_sf", Contents: "aio off;"}}
	}
	if r.Chance(1, 3) {
		conf.TLSPassthroughServers = []dataplane.Layer4VirtualServer{{Hostname: "app.example.com", Port: 8443, UpstreamName: "su"}}
		conf.StreamUpstreams = []dataplane.Upstream{{Name: "su"}}
	}
	plus := r.Chance(1, 3)
	var usage *ngfConfig.UsageReportConfig
	if plus {
		usage = &ngfConfig.UsageReportConfig{Endpoint: "usage.example.com"}
		conf.AuxiliarySecrets = map[graph.SecretFileType][]byte{graph.PlusReportJWTToken: randBytes(r, 3, 9)}
		if r.Chance(1, 2) {
			conf.AuxiliarySecrets[graph.PlusReportCACertificate] = randBytes(r, 3, 9)
			conf.AuxiliarySecrets[graph.PlusReportClientSSLCertificate] = randBytes(r, 3, 9)
			conf.AuxiliarySecrets[graph.PlusReportClientSSLKey] = randBytes(r, 3, 9)
		}
	}
	g := config.NewGeneratorImpl(plus, usage, logr.Discard())
	gen := g.Generate(conf)
	if plus && r.Chance(1, 2) {
		if f, err := g.GenerateDeploymentContext(conf.DeploymentContext); err == nil {
			gen = append(gen, f)
		}
	}
	// Generate ranges over maps; fix the order so that a seed replays exactly
	sort.SliceStable(gen, func(i, j int) bool { return gen[i].Path < gen[j].Path })
	outsideMu.Lock()
	for _, f := range gen {
		realPaths[f.Path] = true
		if !inManaged(f.Path) {
			outside[f.Path] = true
		}
	}
	outsideMu.Unlock()
	for _, f := range gen {
		files = append(files, file.File{Path: f.Path, Type: f.Type, Content: shorten(f.Content)})
	}
	return files
}
