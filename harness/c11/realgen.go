package c11

import (
	"fmt"
	"hash/fnv"
	"path/filepath"
	"sort"
	"sync"

	"github.com/nginx/nginx-gateway-fabric/internal/mode/static/nginx/config"
	"github.com/nginx/nginx-gateway-fabric/internal/mode/static/nginx/file"
	"github.com/nginx/nginx-gateway-fabric/verifharness/rng"
)

// Paths produced by the real generator that do not lie directly inside one of config.ConfigFolders
// (such a file would neither be cleared at start-up nor be creatable): reported as `P <path>` lines.
var (
	outsideMu sync.Mutex
	outside   = map[string]bool{}
	realPaths = map[string]bool{}
)

func inManaged(p string) bool {
	d := filepath.Dir(p)
	for _, f := range config.ConfigFolders {
		if d == f {
			return true
		}
	}
	return false
}

// shorten keeps the model lines small: the real content is replaced by 2 of its bytes plus a hash.
func shorten(b []byte) []byte {
	if len(b) <= 6 {
		return b
	}
	h := fnv.New32a()
	h.Write(b)
	s := h.Sum32()
	return []byte{b[0], b[1], byte('a' + s%26), byte('a' + (s>>8)%26), byte('a' + (s>>16)%26), byte('a' + (s>>24)%26)}
}

// genRealSet runs the REAL config.GeneratorImpl.Generate on a small random dataplane.Configuration (genRealConf):
// the paths and file types are the generator's own (key pair files of listeners that come and go,
// certificate bundles, snippet and policy includes, mgmt files in the Plus flavour).
func genRealSet(r *rng.R) (files []file.File) {
	gen, g, conf, plus, err := runGenerate(r)
	if err != nil {
		return []file.File{{Path: "/etc/nginx/conf.d/http.conf", Content: []byte(fmt.Sprint("P", err))[:2]}}
	}
	if plus && r.Chance(1, 2) {
		if f, err := g.GenerateDeploymentContext(conf.DeploymentContext); err == nil {
			gen = append(gen, f)
		}
	}
	// Generate ranges over maps; fix the order so that a seed replays exactly
	sort.SliceStable(gen, func(i, j int) bool { return gen[i].Path < gen[j].Path })
	outsideMu.Lock()
	for _, f := range gen {
		realPaths[f.Path] = true
		if !inManaged(f.Path) {
			outside[f.Path] = true
		}
	}
	outsideMu.Unlock()
	for _, f := range gen {
		files = append(files, file.File{Path: f.Path, Type: f.Type, Content: shorten(f.Content)})
	}
	return files
}
