package c11

import (
	"fmt"
	"sort"
	"strings"
	"sync"

	"github.com/go-logr/logr"
	metav1 "k8s.io/apimachinery/pkg/apis/meta/v1"
	"k8s.io/apimachinery/pkg/types"

	ngfAPI "github.com/nginx/nginx-gateway-fabric/apis/v1alpha1"
	ngfAPIv2 "github.com/nginx/nginx-gateway-fabric/apis/v1alpha2"
	ngfConfig "github.com/nginx/nginx-gateway-fabric/internal/mode/static/config"
	"github.com/nginx/nginx-gateway-fabric/internal/mode/static/nginx/config"
	"github.com/nginx/nginx-gateway-fabric/internal/mode/static/nginx/config/policies"
	"github.com/nginx/nginx-gateway-fabric/internal/mode/static/nginx/file"
	"github.com/nginx/nginx-gateway-fabric/internal/mode/static/state/dataplane"
	"github.com/nginx/nginx-gateway-fabric/internal/mode/static/state/graph"
	"github.com/nginx/nginx-gateway-fabric/internal/mode/static/state/resolver"
	"github.com/nginx/nginx-gateway-fabric/verifharness/rng"
)

// objSet is the object-level summary of a dataplane.Configuration: what the Lean model
// `GenPaths.generatedPaths (Objs.toIn …)` gets. The harness only records WHICH objects it put into the
// configuration; the include / PEM / bundle file names are computed by the model and compared with the paths
// the real Generate returns.
type objSet struct {
	kp, bd, csp [][2]string // namespace, name
	sn, obs     [][3]string // context|kind, namespace, name
	plus        bool
	ca, cert    bool
	key         bool
}

func encPairs(l [][2]string) string {
	if len(l) == 0 {
		return "-"
	}
	p := make([]string, len(l))
	for i, x := range l {
		p[i] = x[0] + "/" + x[1]
	}
	return strings.Join(p, ",")
}

func encTriples(l [][3]string) string {
	if len(l) == 0 {
		return "-"
	}
	p := make([]string, len(l))
	for i, x := range l {
		p[i] = x[0] + "/" + x[1] + "/" + x[2]
	}
	return strings.Join(p, ",")
}

func b01(b bool) string {
	if b {
		return "1"
	}
	return "0"
}

func (o objSet) Encode() string {
	return fmt.Sprintf("kp=%s bd=%s sn=%s csp=%s obs=%s plus=%s ca=%s cert=%s key=%s",
		encPairs(o.kp), encPairs(o.bd), encTriples(o.sn), encPairs(o.csp), encTriples(o.obs),
		b01(o.plus), b01(o.ca), b01(o.cert), b01(o.key))
}

// Kubernetes-legal namespaces and names (DNS labels / subdomains); several END WITH or EQUAL a bootstrap file name
// or another family's prefix, and one Secret name contains dots.
var (
	nsPool     = []string{"ns", "default", "team-a", "other"}
	secretPool = []string{"listener-a", "listener-b", "tls", "tls.example.com", "main", "mgmt-tls", "cert-bundle"}
	caPool     = []string{"ca", "ca2", "backend-ca.v2", "mgmt-ca", "ssl-keypair"}
	sfPool     = []string{"sf", "main", "mgmt", "sf.v2", "http"}
	polPool    = []string{"csp", "main", "p.v1", "obs", "trace-int"}
)

var snipCtx = map[string]ngfAPI.NginxContext{
	"main": ngfAPI.NginxContextMain, "http": ngfAPI.NginxContextHTTP,
	"server": ngfAPI.NginxContextHTTPServer, "location": ngfAPI.NginxContextHTTPServerLocation,
}

func pickPairs(r *rng.R, names []string, max int) [][2]string {
	n := r.Range(0, max)
	seen := map[string]bool{}
	var out [][2]string
	for i := 0; i < n; i++ {
		p := [2]string{rng.Pick(r, nsPool), rng.Pick(r, names)}
		if seen[p[0]+"/"+p[1]] {
			continue
		}
		seen[p[0]+"/"+p[1]] = true
		out = append(out, p)
	}
	return out
}

// snippetName mirrors state/dataplane createSnippetName (the format is pinned by the theorem facts_include_name_formats).
func snippetName(ctx, ns, name string) string {
	return fmt.Sprintf("SnippetsFilter_%s_%s_%s", snipCtx[ctx], ns, name)
}

// genRealConf builds a random dataplane.Configuration together with its object summary.
func genRealConf(r *rng.R) (dataplane.Configuration, bool, *ngfConfig.UsageReportConfig, objSet) {
	var o objSet
	conf := dataplane.Configuration{
		HTTPServers: []dataplane.VirtualServer{{IsDefault: true, Port: 80}},
		SSLServers:  []dataplane.VirtualServer{{IsDefault: true, Port: 443}},
		SSLKeyPairs: map[dataplane.SSLKeyPairID]dataplane.SSLKeyPair{},
		CertBundles: map[dataplane.CertBundleID]dataplane.CertBundle{},
		Logging:     dataplane.Logging{ErrorLevel: "info"},
		Version:     r.Range(1, 9),
	}
	o.kp = pickPairs(r, secretPool, 3)
	for _, p := range o.kp {
		id := dataplane.SSLKeyPairID("ssl_keypair_" + p[0] + "_" + p[1])
		conf.SSLKeyPairs[id] = dataplane.SSLKeyPair{Cert: randBytes(r, 3, 9), Key: randBytes(r, 3, 9)}
		conf.SSLServers = append(conf.SSLServers, dataplane.VirtualServer{
			Hostname: p[1] + "." + p[0] + ".example.com", Port: 443, SSL: &dataplane.SSL{KeyPairID: id},
		})
	}
	o.bd = pickPairs(r, caPool, 2)
	for _, p := range o.bd {
		conf.CertBundles[dataplane.CertBundleID("cert_bundle_"+p[0]+"_"+p[1])] = dataplane.CertBundle(randBytes(r, 3, 9))
	}
	// main / http snippets
	for _, p := range pickPairs(r, sfPool, 2) {
		if r.Chance(1, 2) {
			o.sn = append(o.sn, [3]string{"main", p[0], p[1]})
			conf.MainSnippets = append(conf.MainSnippets,
				dataplane.Snippet{Name: snippetName("main", p[0], p[1]), Contents: "worker_priority 0;"})
		}
		if r.Chance(1, 2) {
			o.sn = append(o.sn, [3]string{"http", p[0], p[1]})
			conf.BaseHTTPConfig.Snippets = append(conf.BaseHTTPConfig.Snippets,
				dataplane.Snippet{Name: snippetName("http", p[0], p[1]), Contents: "aio off;"})
		}
	}
	// an HTTP server with path rules carrying server / location snippets and policies
	if r.Chance(2, 3) {
		bg := dataplane.BackendGroup{
			Source:   types.NamespacedName{Namespace: "ns", Name: "route"},
			Backends: []dataplane.Backend{{UpstreamName: "ns_svc_80", Weight: 1, Valid: true}},
		}
		conf.BackendGroups = []dataplane.BackendGroup{bg}
		conf.Upstreams = []dataplane.Upstream{{Name: "ns_svc_80", Endpoints: []resolver.Endpoint{{Address: "10.0.0.1", Port: 80}}}}
		srv := dataplane.VirtualServer{Hostname: "app.example.com", Port: 80}
		for _, p := range pickPairs(r, polPool, 1) {
			o.csp = append(o.csp, p)
			srv.Policies = append(srv.Policies, &ngfAPI.ClientSettingsPolicy{ObjectMeta: metav1.ObjectMeta{Namespace: p[0], Name: p[1]}})
		}
		nrules := r.Range(1, 3)
		get := "GET"
		for i := 0; i < nrules; i++ {
			rule := dataplane.PathRule{Path: fmt.Sprintf("/r%d", i), PathType: dataplane.PathTypePrefix}
			if r.Chance(1, 3) {
				rule.PathType = dataplane.PathTypeExact
			}
			internal := r.Chance(1, 2) // needsInternalLocations: a match on something other than the path
			mr := dataplane.MatchRule{Source: &metav1.ObjectMeta{Namespace: "ns", Name: "route"}, BackendGroup: bg}
			if internal {
				mr.Match.Method = &get
			}
			for _, p := range pickPairs(r, sfPool, 2) {
				sf := dataplane.SnippetsFilter{}
				if r.Chance(1, 2) {
					o.sn = append(o.sn, [3]string{"server", p[0], p[1]})
					sf.ServerSnippet = &dataplane.Snippet{Name: snippetName("server", p[0], p[1]), Contents: "server_tokens off;"}
				}
				if r.Chance(2, 3) {
					o.sn = append(o.sn, [3]string{"location", p[0], p[1]})
					sf.LocationSnippet = &dataplane.Snippet{Name: snippetName("location", p[0], p[1]), Contents: "gzip off;"}
				}
				mr.Filters.SnippetsFilters = append(mr.Filters.SnippetsFilters, sf)
			}
			rule.MatchRules = []dataplane.MatchRule{mr}
			var pols []policies.Policy
			for _, p := range pickPairs(r, polPool, 1) {
				o.csp = append(o.csp, p)
				pols = append(pols, &ngfAPI.ClientSettingsPolicy{ObjectMeta: metav1.ObjectMeta{Namespace: p[0], Name: p[1]}})
			}
			for _, p := range pickPairs(r, polPool, 1) {
				// the generator uses the first ObservabilityPolicy of a rule: external location → `ext`; a rule that
				// needs internal locations → `redirect` on the external and `int` on the internal location
				if internal {
					o.obs = append(o.obs, [3]string{"redirect", p[0], p[1]}, [3]string{"int", p[0], p[1]})
				} else {
					o.obs = append(o.obs, [3]string{"ext", p[0], p[1]})
				}
				pols = append(pols, &ngfAPIv2.ObservabilityPolicy{
					ObjectMeta: metav1.ObjectMeta{Namespace: p[0], Name: p[1]},
					Spec:       ngfAPIv2.ObservabilityPolicySpec{Tracing: &ngfAPIv2.Tracing{Strategy: ngfAPIv2.TraceStrategyParent}},
				})
			}
			rule.Policies = pols
			srv.PathRules = append(srv.PathRules, rule)
		}
		conf.HTTPServers = append(conf.HTTPServers, srv)
	}
	if r.Chance(1, 3) {
		conf.TLSPassthroughServers = []dataplane.Layer4VirtualServer{{Hostname: "app.example.com", Port: 8443, UpstreamName: "su"}}
		conf.StreamUpstreams = []dataplane.Upstream{{Name: "su"}}
	}
	if r.Chance(1, 4) {
		conf.Telemetry = dataplane.Telemetry{Endpoint: "otel.example.com:4317", ServiceName: "ngf"}
	}
	o.plus = r.Chance(1, 3)
	var usage *ngfConfig.UsageReportConfig
	if o.plus {
		usage = &ngfConfig.UsageReportConfig{Endpoint: "usage.example.com"}
		conf.AuxiliarySecrets = map[graph.SecretFileType][]byte{graph.PlusReportJWTToken: randBytes(r, 3, 9)}
		if o.ca = r.Chance(1, 2); o.ca {
			conf.AuxiliarySecrets[graph.PlusReportCACertificate] = randBytes(r, 3, 9)
		}
		if o.cert = r.Chance(1, 2); o.cert {
			conf.AuxiliarySecrets[graph.PlusReportClientSSLCertificate] = randBytes(r, 3, 9)
		}
		if o.key = r.Chance(1, 2); o.key {
			conf.AuxiliarySecrets[graph.PlusReportClientSSLKey] = randBytes(r, 3, 9)
		}
	}
	return conf, o.plus, usage, o
}

// genPairs collects `GP <objects>\t<path,type list of the real Generate>` lines (model ↔ generator correspondence).
var (
	gpMu    sync.Mutex
	gpLines []string
)

func encGenerated(gen []file.File) string {
	if len(gen) == 0 {
		return "-"
	}
	parts := make([]string, len(gen))
	for i, f := range gen {
		t := "r"
		switch f.Type {
		case file.TypeRegular:
		case file.TypeSecret:
			t = "s"
		default:
			t = fmt.Sprintf("?%d", int(f.Type))
		}
		parts[i] = f.Path + "," + t
	}
	sort.Strings(parts)
	return strings.Join(parts, "+")
}

// runGenerate runs the REAL GeneratorImpl.Generate and records the (objects, generated paths) pair.
func runGenerate(r *rng.R) (gen []file.File, g config.GeneratorImpl, conf dataplane.Configuration, plus bool, err error) {
	defer func() {
		if rec := recover(); rec != nil {
			err = fmt.Errorf("generator panic: %v", rec)
		}
	}()
	var usage *ngfConfig.UsageReportConfig
	var o objSet
	conf, plus, usage, o = genRealConf(r)
	g = config.NewGeneratorImpl(plus, usage, logr.Discard())
	gen = g.Generate(conf)
	gpMu.Lock()
	gpLines = append(gpLines, "GP "+o.Encode()+"\t"+encGenerated(gen))
	gpMu.Unlock()
	return gen, g, conf, plus, nil
}
