// Package c11 drives the real file.ManagerImpl.ReplaceFiles and file.ClearFolders over a
// fault-injecting OSFileManager on a real directory tree and records the disk after every call.
//
// Output, one line per scenario, tab-separated parts:
//
//	M init=<fs> steps=<step>;…        the scenario in the vocabulary of the Lean model
//	O <out>|<ops>|<fs>|<last>|<failinfo>;…   what the real code did (outcome, #operations, disk, tracked paths)
//	F <family>                        generator family / fault class (for the coverage histograms)
//
// The Lean judge gets `M… obs=O…`.
package c11

import (
	"bufio"
	"encoding/hex"
	"flag"
	"fmt"
	"os"
	"path/filepath"
	"sort"
	"strconv"
	"strings"
	"sync"
	"syscall"

	"github.com/go-logr/logr"

	"github.com/nginx/nginx-gateway-fabric/internal/mode/static/nginx/config"
	"github.com/nginx/nginx-gateway-fabric/internal/mode/static/nginx/file"
	"github.com/nginx/nginx-gateway-fabric/verifharness/rng"
)

type FsEnt struct {
	Path    string
	Mode    uint32
	Content []byte
}

type FaultAt struct {
	K int
	F Fault
}

type Step struct {
	Kind  byte // 'R' replace, 'S' start
	Files []file.File
	Sched []FaultAt
}

type Scenario struct {
	Init   []FsEnt
	Steps  []Step
	Family string
}

type StepObs struct {
	Out  string
	Ops  int
	Disk []FsEnt
	Last []string
	Fail string
	Log  []string // operation kinds
}

// ---------------------------------------------------------------- encoding

func encFS(l []FsEnt) string {
	if len(l) == 0 {
		return "-"
	}
	parts := make([]string, len(l))
	for i, e := range l {
		parts[i] = fmt.Sprintf("%s,%d,%s", e.Path, e.Mode, hex.EncodeToString(e.Content))
	}
	return strings.Join(parts, "+")
}

func encFiles(l []file.File) string {
	if len(l) == 0 {
		return "-"
	}
	parts := make([]string, len(l))
	for i, f := range l {
		t := "r"
		if f.Type == file.TypeSecret {
			t = "s"
		}
		parts[i] = fmt.Sprintf("%s,%s,%s", f.Path, t, hex.EncodeToString(f.Content))
	}
	return strings.Join(parts, "+")
}

func encSched(l []FaultAt) string {
	if len(l) == 0 {
		return "-"
	}
	parts := make([]string, len(l))
	for i, a := range l {
		switch a.F.Kind {
		case FPartial, FCrash:
			parts[i] = fmt.Sprintf("%d:%c%d", a.K, a.F.Kind, a.F.N)
		default:
			parts[i] = fmt.Sprintf("%d:%c", a.K, a.F.Kind)
		}
	}
	return strings.Join(parts, "+")
}

func (s Scenario) Encode() string {
	steps := make([]string, len(s.Steps))
	for i, st := range s.Steps {
		if st.Kind == 'R' {
			steps[i] = "R|" + encFiles(st.Files) + "|" + encSched(st.Sched)
		} else {
			steps[i] = "S|" + encSched(st.Sched)
		}
	}
	return "init=" + encFS(s.Init) + " steps=" + strings.Join(steps, ";")
}

func encObs(obs []StepObs) string {
	parts := make([]string, len(obs))
	for i, o := range obs {
		last := "-"
		if len(o.Last) > 0 {
			last = strings.Join(o.Last, "+")
		}
		parts[i] = fmt.Sprintf("%s|%d|%s|%s|%s", o.Out, o.Ops, encFS(o.Disk), last, o.Fail)
	}
	return strings.Join(parts, ";")
}

// ---------------------------------------------------------------- running the real code

type world struct {
	root string
	ffs  *FaultFS
}

func newWorld(root string) (*world, error) {
	for _, d := range config.ConfigFolders {
		if err := os.MkdirAll(filepath.Join(root, d), 0o755); err != nil {
			return nil, err
		}
	}
	return &world{root: root, ffs: newFaultFS(root)}, nil
}

func (w *world) reset(init []FsEnt) error {
	for _, d := range config.ConfigFolders {
		dir := filepath.Join(w.root, d)
		ents, err := os.ReadDir(dir)
		if err != nil {
			return err
		}
		for _, e := range ents {
			if err := os.RemoveAll(filepath.Join(dir, e.Name())); err != nil {
				return err
			}
		}
	}
	for _, e := range init {
		p := filepath.Join(w.root, e.Path)
		if err := os.WriteFile(p, e.Content, 0o600); err != nil {
			return err
		}
		if err := os.Chmod(p, os.FileMode(e.Mode)); err != nil {
			return err
		}
	}
	return nil
}

// disk lists the regular files directly inside the managed folders: path, permission bits, bytes.
func (w *world) disk() []FsEnt {
	var out []FsEnt
	for _, d := range config.ConfigFolders {
		ents, err := os.ReadDir(filepath.Join(w.root, d))
		if err != nil {
			continue
		}
		for _, e := range ents {
			p := filepath.Join(w.root, d, e.Name())
			st, err := os.Lstat(p)
			if err != nil || !st.Mode().IsRegular() {
				continue
			}
			b, err := os.ReadFile(p)
			if err != nil {
				// unreadable by us would be a harness problem: report as content "??"
				b = []byte("??")
			}
			out = append(out, FsEnt{Path: filepath.Join(d, e.Name()), Mode: uint32(st.Mode().Perm()), Content: b})
		}
	}
	sort.Slice(out, func(i, j int) bool { return out[i].Path < out[j].Path })
	return out
}

func schedMap(l []FaultAt) map[int]Fault {
	m := map[int]Fault{}
	for _, a := range l {
		if _, dup := m[a.K]; !dup { // first entry wins, as List.lookup in the model
			m[a.K] = a.F
		}
	}
	return m
}

// call runs fn, translating the crash panic of FaultFS into outcome "crash" and any other panic into "panic".
func call(fn func() error) (out string) {
	defer func() {
		if r := recover(); r != nil {
			if _, ok := r.(crashSignal); ok {
				out = "crash"
				return
			}
			out = fmt.Sprintf("panic:%v", r)
		}
	}()
	if err := fn(); err != nil {
		return "fail"
	}
	return "ok"
}

// Run executes the scenario on the real code.
func (w *world) run(sc Scenario) ([]StepObs, error) {
	if err := w.reset(sc.Init); err != nil {
		return nil, err
	}
	var mgr *file.ManagerImpl
	obs := make([]StepObs, 0, len(sc.Steps))
	for _, st := range sc.Steps {
		var o StepObs
		switch st.Kind {
		case 'R':
			if mgr == nil {
				// the control plane is down: no replacement can happen
				o = StepObs{Out: "fail", Fail: "-"}
				break
			}
			w.ffs.begin(schedMap(st.Sched))
			m := mgr
			o.Out = call(func() error { return m.ReplaceFiles(st.Files) })
			o.Ops, o.Fail, o.Log = w.ffs.n, w.ffs.fail, w.ffs.ops
			o.Last = mgr.VerifLastWrittenPaths()
			if o.Out == "crash" {
				mgr = nil
			}
		case 'S':
			// static/manager.go: ClearFolders(StdLibOSFileManager, ngxcfg.ConfigFolders), then NewManagerImpl
			mgr = nil
			w.ffs.begin(schedMap(st.Sched))
			o.Out = call(func() error {
				_, err := file.ClearFolders(w.ffs, config.ConfigFolders)
				return err
			})
			o.Ops, o.Fail, o.Log = w.ffs.n, w.ffs.fail, w.ffs.ops
			if o.Out == "ok" {
				mgr = file.NewManagerImpl(logr.Discard(), w.ffs)
			}
		}
		if o.Out != "fail" {
			o.Fail = "-"
		}
		o.Disk = w.disk()
		obs = append(obs, o)
	}
	return obs, nil
}

// ---------------------------------------------------------------- generators

var pool = []struct {
	path   string
	secret bool
}{
	{"/etc/nginx/conf.d/http.conf", false},
	{"/etc/nginx/conf.d/matches.json", false},
	{"/etc/nginx/conf.d/config-version.conf", false},
	{"/etc/nginx/main-includes/main.conf", false},
	{"/etc/nginx/main-includes/mgmt.conf", false},
	{"/etc/nginx/main-includes/deployment_ctx.json", false},
	{"/etc/nginx/secrets/ssl_keypair_ns_a.pem", true},
	{"/etc/nginx/secrets/ssl_keypair_ns_b.pem", true},
	{"/etc/nginx/secrets/cert_bundle_ns_ca.crt", false},
	{"/etc/nginx/secrets/license.jwt", true},
	{"/etc/nginx/includes/ClientSettingsPolicy_ns_p.conf", false},
	{"/etc/nginx/includes/SnippetsFilter_main_ns_s.conf", false},
	{"/etc/nginx/stream-conf.d/stream.conf", false},
}

// bootstrapPaths are the files NGINX needs in order to start (shipped in the image / written by the init
// container): the only files a start-up may leave in the managed folders. (The list the code uses,
// ignoreFilePaths of folders.go, is pinned to the same three paths by the theorem facts_ignore_paths.)
var bootstrapPaths = []string{
	"/etc/nginx/main-includes/main.conf",
	"/etc/nginx/main-includes/mgmt.conf",
	"/etc/nginx/main-includes/deployment_ctx.json",
}

// lookalikes are stale files a previous incarnation may have left whose NAMES equal, end with, start with or
// contain a bootstrap file name — in another folder, or in the same folder under a longer name. None of them is
// a bootstrap file: start-up must remove every one (a restarted control plane tracks nothing, so whatever
// start-up leaves is never removed afterwards).
var lookalikes = []string{
	"/etc/nginx/conf.d/main.conf",
	"/etc/nginx/conf.d/mgmt.conf",
	"/etc/nginx/conf.d/xmain.conf",
	"/etc/nginx/conf.d/deployment_ctx.json",
	"/etc/nginx/stream-conf.d/main.conf",
	"/etc/nginx/stream-conf.d/old-mgmt.conf",
	"/etc/nginx/secrets/mgmt.conf",
	"/etc/nginx/secrets/deployment_ctx.json",
	"/etc/nginx/secrets/prev_deployment_ctx.json",
	"/etc/nginx/includes/main.conf",
	"/etc/nginx/includes/SnippetsFilter_http_default_main.conf",
	"/etc/nginx/includes/SnippetsFilter_main_ns_main.conf",
	"/etc/nginx/includes/SnippetsFilter_http.server_ns_mgmt.conf",
	"/etc/nginx/includes/ClientSettingsPolicy_ns_main.conf",
	"/etc/nginx/main-includes/xmain.conf",
	"/etc/nginx/main-includes/SnippetsFilter_main_ns_main.conf",
	"/etc/nginx/main-includes/my-mgmt.conf",
	"/etc/nginx/main-includes/old_deployment_ctx.json",
	"/etc/nginx/main-includes/main.conf.bak",
	"/etc/nginx/main-includes/main.config",
	"/etc/nginx/main-includes/mgmt.conf.d",
	"/etc/nginx/main-includes/main.con",
	"/etc/nginx/main-includes/ain.conf",
	"/etc/nginx/main-includes/deployment_ctx.json.tmp",
}

// genStartupInit: the bootstrap files plus a handful of look-alike leftovers.
func genStartupInit(r *rng.R) []FsEnt {
	var out []FsEnt
	for _, p := range bootstrapPaths {
		if r.Chance(2, 3) {
			out = append(out, FsEnt{Path: p, Mode: 0o644, Content: randBytes(r, 7, 10)})
		}
	}
	names := append([]string(nil), lookalikes...)
	rng.Shuffle(r, names)
	for _, p := range names[:r.Range(3, 6)] {
		out = append(out, FsEnt{Path: p, Mode: 0o644, Content: randBytes(r, 1, 4)})
	}
	sort.Slice(out, func(i, j int) bool { return out[i].Path < out[j].Path })
	return out
}

func randBytes(r *rng.R, lo, hi int) []byte {
	n := r.Range(lo, hi)
	b := make([]byte, n)
	for i := range b {
		b[i] = byte(r.Range(0x41, 0x5a))
	}
	return b
}

// genSet draws a file set; consecutive sets overlap often because the pool is small.
func genSet(r *rng.R, maxFiles int, dups bool) []file.File {
	n := r.Range(1, maxFiles)
	if r.Chance(1, 12) {
		n = 0
	}
	var out []file.File
	used := map[string]bool{}
	for len(out) < n {
		e := rng.Pick(r, pool)
		if used[e.path] && !dups {
			continue
		}
		used[e.path] = true
		t := file.TypeRegular
		if e.secret != r.Chance(1, 10) { // now and then a path changes its type
			t = file.TypeSecret
		}
		out = append(out, file.File{Path: e.path, Content: randBytes(r, 0, 6), Type: t})
	}
	return out
}

func genInit(r *rng.R) []FsEnt {
	var out []FsEnt
	if r.Chance(1, 6) {
		return out
	}
	// bootstrap files (long content, so that a missing truncate shows) and leftovers of a previous run
	for _, p := range bootstrapPaths {
		if r.Chance(2, 3) {
			out = append(out, FsEnt{Path: p, Mode: 0o644, Content: randBytes(r, 7, 10)})
		}
	}
	for _, e := range pool[:3] {
		if r.Chance(1, 2) {
			out = append(out, FsEnt{Path: e.path, Mode: 0o644, Content: randBytes(r, 0, 8)})
		}
	}
	for _, e := range pool[6:] {
		if r.Chance(1, 2) {
			m := uint32(0o644)
			if e.secret {
				m = 0o640
			}
			out = append(out, FsEnt{Path: e.path, Mode: m, Content: randBytes(r, 0, 8)})
		}
	}
	if r.Chance(1, 2) {
		out = append(out, FsEnt{Path: "/etc/nginx/secrets/old_listener.pem", Mode: 0o640, Content: []byte("KEY")})
	}
	if r.Chance(1, 2) {
		out = append(out, FsEnt{Path: "/etc/nginx/stream-conf.d/zz_old.conf", Mode: 0o644, Content: []byte("x")})
	}
	sort.Slice(out, func(i, j int) bool { return out[i].Path < out[j].Path })
	return out
}

func genBase(r *rng.R, nsets, maxFiles int, family string) Scenario {
	sc := Scenario{Init: genInit(r), Family: family}
	if family == "startup" {
		sc.Init = genStartupInit(r)
		if nsets > 2 {
			nsets = 2
		}
	}
	sc.Steps = append(sc.Steps, Step{Kind: 'S'})
	for i := 0; i < nsets; i++ {
		var files []file.File
		switch family {
		case "generator":
			files = genRealSet(r)
		case "dups":
			files = genSet(r, maxFiles, true)
		default:
			files = genSet(r, maxFiles, false)
		}
		sc.Steps = append(sc.Steps, Step{Kind: 'R', Files: files})
	}
	return sc
}

// ---------------------------------------------------------------- fault enumeration

func cloneSteps(s []Step) []Step {
	out := make([]Step, len(s))
	for i, st := range s {
		out[i] = Step{Kind: st.Kind, Files: st.Files, Sched: append([]FaultAt(nil), st.Sched...)}
	}
	return out
}

// applyFault puts fault f at operation k of step i and repairs the scenario so that it stays meaningful:
// after a crash the control plane restarts and redoes the step; after a failed start-up it starts again;
// a failure in the last step is followed by a fault-free retry.
func applyFault(sc Scenario, i, k int, f Fault) (Scenario, int) {
	steps := cloneSteps(sc.Steps)
	steps[i].Sched = append(steps[i].Sched, FaultAt{K: k, F: f})
	var out []Step
	out = append(out, steps[:i+1]...)
	inserted := 0
	st := steps[i]
	switch {
	case f.Kind == FCrash && st.Kind == 'R':
		out = append(out, Step{Kind: 'S'}, Step{Kind: 'R', Files: st.Files})
		inserted = 2
	case st.Kind == 'S': // crash or failure during start-up: the process exits and starts again
		out = append(out, Step{Kind: 'S'})
		inserted = 1
	case i == len(steps)-1:
		out = append(out, Step{Kind: 'R', Files: st.Files})
		inserted = 1
	}
	out = append(out, steps[i+1:]...)
	return Scenario{Init: sc.Init, Steps: out, Family: sc.Family}, inserted
}

// faultsFor lists the faults worth injecting at an operation of the given kind.
func faultsFor(r *rng.R, kind string, withCrash bool) []Fault {
	var out []Fault
	switch kind {
	case "remove":
		out = []Fault{{FEIO, 0}, {FENOENT, 0}}
	case "write":
		out = []Fault{{FEIO, 0}, {FPartial, r.Range(1, 6)}, {FWrapENOENT, 0}}
		if withCrash {
			out = append(out, Fault{FCrash, r.Range(1, 6)})
		}
	case "create":
		// error VALUES: the default EACCES, a bare ENOENT (folder absent) and an ENOENT wrapped with %w
		out = []Fault{{FEIO, 0}, {FENOENT, 0}, {FWrapENOENT, 0}}
	case "chmod":
		out = []Fault{{FEIO, 0}, {FENOENT, 0}}
	default:
		out = []Fault{{FEIO, 0}}
	}
	if withCrash {
		out = append(out, Fault{FCrash, 0})
	}
	return out
}

type job struct {
	sc    Scenario
	class string
}

// ---------------------------------------------------------------- main

func Run(args []string) int {
	fl := flag.NewFlagSet("c11", flag.ContinueOnError)
	seed := fl.Uint64("seed", 1, "seed")
	nseq := fl.Int("n", 20, "number of base sequences")
	from := fl.Int("from", 0, "first base sequence (the stream of sequences only depends on -seed)")
	nsets := fl.Int("sets", 3, "file sets per sequence")
	maxFiles := fl.Int("maxfiles", 4, "files per set")
	doubles := fl.Int("doubles", 40, "double failures per sequence; -1 = all")
	genDoubles := fl.Int("gendoubles", -2, "the same for the sequences of the real-generator family (default: as -doubles)")
	workers := fl.Int("workers", 8, "parallel workers")
	tmp := fl.String("tmp", "/verif/work/tmp", "parent of the scratch roots")
	genSets := fl.Int("gensets", 0, "additionally run the real Generate on this many random configurations (GP lines only)")
	replay := fl.String("replay", "", "run exactly this scenario (model vocabulary) and print it")
	replayFile := fl.String("replayfile", "", "run every scenario of this file (one per line, '#' comments)")
	if err := fl.Parse(args); err != nil {
		return 2
	}
	syscall.Umask(0o022)
	if err := os.MkdirAll(*tmp, 0o755); err != nil {
		fmt.Fprintln(os.Stderr, err)
		return 2
	}
	base, err := os.MkdirTemp(*tmp, "c11-")
	if err != nil {
		fmt.Fprintln(os.Stderr, err)
		return 2
	}
	defer os.RemoveAll(base)

	out := bufio.NewWriterSize(os.Stdout, 1<<20)
	defer out.Flush()

	if *replay != "" || *replayFile != "" {
		var lines []string
		if *replay != "" {
			lines = append(lines, *replay)
		}
		if *replayFile != "" {
			b, err := os.ReadFile(*replayFile)
			if err != nil {
				fmt.Fprintln(os.Stderr, err)
				return 2
			}
			for _, l := range strings.Split(string(b), "\n") {
				if l = strings.TrimSpace(l); l != "" && !strings.HasPrefix(l, "#") {
					lines = append(lines, l)
				}
			}
		}
		w, err := newWorld(filepath.Join(base, "w0"))
		if err != nil {
			fmt.Fprintln(os.Stderr, err)
			return 2
		}
		for _, l := range lines {
			sc, err := Decode(l)
			if err != nil {
				fmt.Fprintln(os.Stderr, "replay:", err)
				return 2
			}
			obs, err := w.run(sc)
			if err != nil {
				fmt.Fprintln(os.Stderr, err)
				return 2
			}
			fmt.Fprintf(out, "M %s\tO %s\tF corpus/replay\n", sc.Encode(), encObs(obs))
		}
		return 0
	}

	worlds := make([]*world, *workers)
	for i := range worlds {
		w, err := newWorld(filepath.Join(base, "w"+strconv.Itoa(i)))
		if err != nil {
			fmt.Fprintln(os.Stderr, err)
			return 2
		}
		worlds[i] = w
	}

	// runAll executes the jobs in parallel and returns the observations in job order.
	runAll := func(jobs []job) [][]StepObs {
		res := make([][]StepObs, len(jobs))
		var wg sync.WaitGroup
		ch := make(chan int, len(jobs))
		for i := range jobs {
			ch <- i
		}
		close(ch)
		for _, w := range worlds {
			wg.Add(1)
			go func(w *world) {
				defer wg.Done()
				for i := range ch {
					obs, err := w.run(jobs[i].sc)
					if err != nil {
						fmt.Fprintln(os.Stderr, "harness error:", err)
						continue
					}
					res[i] = obs
				}
			}(w)
		}
		wg.Wait()
		return res
	}
	emit := func(jobs []job, res [][]StepObs) {
		for i, j := range jobs {
			if res[i] == nil {
				fmt.Fprintf(out, "X harness-error\n")
				continue
			}
			fmt.Fprintf(out, "M %s\tO %s\tF %s/%s\n", j.sc.Encode(), encObs(res[i]), j.sc.Family, j.class)
		}
	}

	master := rng.New(*seed)
	for q := 0; q < *from+*nseq; q++ {
		r := master.Fork()
		if q < *from {
			continue
		}
		family := "synthetic"
		switch q % 5 {
		case 2:
			family = "startup"
		case 3:
			family = "dups"
		case 4:
			family = "generator"
		}
		bs := genBase(r, *nsets, *maxFiles, family)
		baseRes := runAll([]job{{bs, "none"}})
		emit([]job{{bs, "none"}}, baseRes)
		if baseRes[0] == nil {
			continue
		}
		// all single faults (errors and crashes) at every operation of every step
		type single struct {
			sc     Scenario
			i, k   int
			f      Fault
			opKind string
		}
		var singles []single
		var jobs []job
		for i, o := range baseRes[0] {
			for k := 0; k < o.Ops && k < len(o.Log); k++ {
				for _, f := range faultsFor(r, o.Log[k], true) {
					sc, _ := applyFault(bs, i, k, f)
					singles = append(singles, single{sc, i, k, f, o.Log[k]})
					jobs = append(jobs, job{sc, fmt.Sprintf("single:%s:%c", o.Log[k], f.Kind)})
				}
			}
		}
		sres := runAll(jobs)
		emit(jobs, sres)

		// double faults: a second fault at every operation that is still reached after the first one
		var djobs []job
		for si, s := range singles {
			if sres[si] == nil {
				continue
			}
			for j := s.i; j < len(s.sc.Steps); j++ {
				o := sres[si][j]
				for l := 0; l < o.Ops && l < len(o.Log); l++ {
					if j == s.i && l <= s.k {
						continue
					}
					for _, f := range faultsFor(r, o.Log[l], true) {
						sc, _ := applyFault(s.sc, j, l, f)
						djobs = append(djobs, job{sc, fmt.Sprintf("double:%s:%c+%s:%c", s.opKind, s.f.Kind, o.Log[l], f.Kind)})
					}
				}
			}
		}
		limit := *doubles
		if family == "generator" && *genDoubles != -2 {
			limit = *genDoubles
		}
		if limit >= 0 && len(djobs) > limit {
			rng.Shuffle(r, djobs)
			djobs = djobs[:limit]
		}
		dres := runAll(djobs)
		emit(djobs, dres)
	}
	// generated-set correspondence only: the real Generate on many more configurations (cheap, no disk involved)
	gr := rng.New(*seed ^ 0x9e3779b97f4a7c15)
	for i := 0; i < *genSets; i++ {
		if gen, _, _, _, err := runGenerate(gr.Fork()); err != nil {
			fmt.Fprintf(out, "X generate: %v\n", err)
		} else {
			outsideMu.Lock()
			for _, f := range gen {
				realPaths[f.Path] = true
				if !inManaged(f.Path) {
					outside[f.Path] = true
				}
			}
			outsideMu.Unlock()
		}
	}
	gpMu.Lock()
	for _, l := range gpLines {
		fmt.Fprintln(out, l)
	}
	gpMu.Unlock()
	outsideMu.Lock()
	for p := range outside {
		fmt.Fprintf(out, "P %s\n", p)
	}
	fmt.Fprintf(out, "G %d\n", len(realPaths))
	outsideMu.Unlock()
	return 0
}
