package c06

import (
	"fmt"

	"sigs.k8s.io/controller-runtime/pkg/client"
	gatewayv1 "sigs.k8s.io/gateway-api/apis/v1"

	p "github.com/nginx/nginx-gateway-fabric/verifharness/pipeline"
)

// base: class, namespaces, services with endpoints, two secrets per namespace, one open Gateway in gwNS.
func corpusBase(nss []string, gwNS string, extra ...p.Listener) []client.Object {
	var objs []client.Object
	objs = append(objs, p.GatewayClass(p.DefaultClass, p.DefaultController, 0))
	idx := 0
	for i, ns := range nss {
		objs = append(objs, p.Namespace(ns, map[string]string{"kubernetes.io/metadata.name": ns}))
		for j, sv := range []string{"svc0", "svc1"} {
			objs = append(objs, p.Service(ns, sv, 80))
			objs = append(objs, p.EndpointSlice(ns, sv, "s0", []int32{80}, fmt.Sprintf("10.%d.%d.1", i+1, j+1)))
		}
		for _, c := range []string{"cert-a", "cert-b"} {
			idx++
			objs = append(objs, p.TLSSecret(ns, c, idx))
		}
	}
	ls := append([]p.Listener{{Name: "http", Port: 80, Protocol: "HTTP", FromNS: "All"}}, extra...)
	objs = append(objs, p.Gateway(gwNS, "gw", p.DefaultClass, 1, ls...))
	return objs
}

func be(ref string) p.Backend { return p.Backend{Ref: ref, Port: 80, Weight: -1} }

func grant(ns, name, fromKind, fromNS, toKind, toName string) client.Object {
	return p.ReferenceGrant(ns, name, []p.GrantFrom{{Group: gwGroup, Kind: fromKind, Namespace: fromNS}},
		[]p.GrantTo{{Kind: toKind, Name: toName}})
}

// CorpusScenarios are the deterministic regression inputs written to corpus/C06 (mode mkcorpus).
func CorpusScenarios() map[string][]client.Object {
	out := map[string][]client.Object{}
	parent := []gatewayv1.ParentReference{p.ParentRef("default", "gw", "")}
	grpcRule := func(svc, method string, bs ...p.Backend) gatewayv1.GRPCRouteRule {
		r := gatewayv1.GRPCRouteRule{Matches: []gatewayv1.GRPCRouteMatch{{Method: &gatewayv1.GRPCMethodMatch{
			Type: ptr(gatewayv1.GRPCMethodMatchExact), Service: ptr(svc), Method: ptr(method)}}}}
		for _, b := range bs {
			r.BackendRefs = append(r.BackendRefs, gatewayv1.GRPCBackendRef{BackendRef: p.BackendRef(b)})
		}
		return r
	}

	// 1. every referrer kind, once with and once without a grant
	{
		o := corpusBase([]string{"default", "team-a", "team-b"}, "default",
			p.Listener{Name: "https0", Port: 443, Protocol: "HTTPS", FromNS: "All", Hostname: "cafe.example.com", CertRefs: []string{"team-a/cert-a"}},
			p.Listener{Name: "https1", Port: 443, Protocol: "HTTPS", FromNS: "All", Hostname: "foo.example.com", CertRefs: []string{"team-b/cert-a"}},
			p.Listener{Name: "tls", Port: 8443, Protocol: "TLS", FromNS: "All", Hostname: "*.tls.example.com"})
		o = append(o,
			p.HTTPRoute("default", "hr", 2, parent, nil,
				p.HTTPRule([]gatewayv1.HTTPRouteMatch{p.PathMatch("PathPrefix", "/granted")}, be("team-a/svc0")),
				p.HTTPRule([]gatewayv1.HTTPRouteMatch{p.PathMatch("PathPrefix", "/refused")}, be("team-b/svc0")),
				p.HTTPRule([]gatewayv1.HTTPRouteMatch{p.PathMatch("Exact", "/mixed")}, be("team-a/svc0"), be("team-b/svc0"), be("svc1"))),
			p.GRPCRoute("default", "gr", 3, parent, nil,
				grpcRule("pkg.S", "Granted", be("team-a/svc1")), grpcRule("pkg.S", "Refused", be("team-b/svc1"))),
			p.TLSRoute("default", "tr-granted", 4, parent, []string{"a.tls.example.com"}, be("team-a/svc0")),
			p.TLSRoute("default", "tr-refused", 5, parent, []string{"b.tls.example.com"}, be("team-b/svc0")),
			grant("team-a", "g-http", "HTTPRoute", "default", "Service", "svc0"),
			grant("team-a", "g-grpc", "GRPCRoute", "default", "Service", ""),
			grant("team-a", "g-tls", "TLSRoute", "default", "Service", "svc0"),
			grant("team-a", "g-gw", "Gateway", "default", "Secret", "cert-a"),
			// near misses for team-b: wrong from-kind, wrong name, grant in the referrer's namespace
			grant("team-b", "m-kind", "GRPCRoute", "default", "Service", "svc0"),
			grant("team-b", "m-name", "HTTPRoute", "default", "Service", "svc1"),
			grant("default", "m-place", "HTTPRoute", "default", "Service", "svc0"),
			grant("team-b", "m-tokind", "Gateway", "default", "Service", ""),
			grant("team-b", "m-fromns", "TLSRoute", "team-a", "Service", ""),
		)
		out["01-all-kinds-grant-and-refusal"] = o
	}
	// 2. an HTTPRoute and a GRPCRoute with the same namespace/name: their backend groups share key and variable
	{
		o := corpusBase([]string{"default", "team-a", "team-b"}, "default")
		o = append(o,
			p.HTTPRoute("default", "shared", 2, parent, nil,
				p.HTTPRule([]gatewayv1.HTTPRouteMatch{p.PathMatch("Exact", "/web")}, be("team-a/svc0"), be("team-a/svc1"))),
			p.GRPCRoute("default", "shared", 3, parent, nil, grpcRule("pkg.S", "M", be("team-b/svc0"), be("team-b/svc1"))),
			grant("team-a", "only-http", "HTTPRoute", "default", "Service", ""),
			grant("team-b", "only-grpc", "GRPCRoute", "default", "Service", ""),
		)
		out["02-httproute-grpcroute-same-name"] = o
	}
	// 3. two routes of different namespaces whose group variable names collide after '-' -> '_'
	{
		o := corpusBase([]string{"a", "a--b", "team-b"}, "a")
		gw := []gatewayv1.ParentReference{p.ParentRef("a", "gw", "")}
		o = append(o,
			p.HTTPRoute("a", "b--c", 2, gw, nil,
				p.HTTPRule([]gatewayv1.HTTPRouteMatch{p.PathMatch("Exact", "/one")}, be("svc0"), be("svc1"))),
			p.HTTPRoute("a--b", "c", 3, gw, nil,
				p.HTTPRule([]gatewayv1.HTTPRouteMatch{p.PathMatch("Exact", "/two")}, be("team-b/svc0"), be("team-b/svc1"))),
			grant("team-b", "for-a--b", "HTTPRoute", "a--b", "Service", ""),
		)
		out["03-group-variable-collision-across-namespaces"] = o
	}
	// 4. listeners with two certificateRefs (first permitted / second not, and the reverse)
	{
		o := corpusBase([]string{"default", "team-a", "team-b"}, "default",
			p.Listener{Name: "https0", Port: 443, Protocol: "HTTPS", FromNS: "All", Hostname: "cafe.example.com", CertRefs: []string{"cert-a", "team-b/cert-a"}},
			p.Listener{Name: "https1", Port: 443, Protocol: "HTTPS", FromNS: "All", Hostname: "foo.example.com", CertRefs: []string{"team-b/cert-b", "team-a/cert-a"}},
			p.Listener{Name: "https2", Port: 443, Protocol: "HTTPS", FromNS: "All", Hostname: "bar.example.com", CertRefs: []string{"team-b/cert-b"}})
		o = append(o,
			p.HTTPRoute("default", "hr", 2, parent, nil,
				p.HTTPRule([]gatewayv1.HTTPRouteMatch{p.PathMatch("PathPrefix", "/")}, be("svc0"))),
			grant("team-a", "g-gw", "Gateway", "default", "Secret", ""),
			grant("team-b", "m-gw", "Gateway", "team-a", "Secret", ""),
		)
		out["04-several-certificate-refs"] = o
	}
	return out
}
