// Package c06 drives the real ReferenceGrant resolver (through the verif overlay), the validators that
// consult it, and the real end-to-end pipeline (harness/pipeline) on generated cluster states and
// create/revoke sequences.
//
// Output: one JSON object per line {"k":<mode>,"id":..,"in":{…},"obs":{…}}; the same line is the input of
// the Lean driver in `model` mode (recomputes the modelled part of "obs" from "in") and in `judge` mode
// (evaluates the property on "in" and the real "obs").
package c06

import (
	"crypto/sha256"
	"encoding/hex"
	"sort"
	"strings"

	apiv1 "k8s.io/api/core/v1"
	metav1 "k8s.io/apimachinery/pkg/apis/meta/v1"
	"sigs.k8s.io/controller-runtime/pkg/client"
	gatewayv1 "sigs.k8s.io/gateway-api/apis/v1"
	"sigs.k8s.io/gateway-api/apis/v1alpha2"
	"sigs.k8s.io/gateway-api/apis/v1beta1"

	"github.com/nginx/nginx-gateway-fabric/internal/framework/conditions"
	ngxcfg "github.com/nginx/nginx-gateway-fabric/internal/mode/static/nginx/config"
	"github.com/nginx/nginx-gateway-fabric/internal/mode/static/state/dataplane"
	"github.com/nginx/nginx-gateway-fabric/internal/mode/static/state/graph"
	p "github.com/nginx/nginx-gateway-fabric/verifharness/pipeline"
)

// ---------------------------------------------------------------- flat input (what Lean decodes)

type FFrom struct {
	Group string `json:"group"`
	Kind  string `json:"kind"`
	NS    string `json:"ns"`
}

type FTo struct {
	Group string  `json:"group"`
	Kind  string  `json:"kind"`
	Name  *string `json:"name"`
}

type FGrant struct {
	NS   string  `json:"ns"`
	Name string  `json:"name"`
	From []FFrom `json:"from"`
	To   []FTo   `json:"to"`
}

type FRef struct {
	Group    *string `json:"group"`
	Kind     *string `json:"kind"`
	NS       *string `json:"ns"`
	Name     string  `json:"name"`
	Port     *int    `json:"port"`
	Weight   *int    `json:"weight"`
	NFilters int     `json:"nfilters"`
}

type FRule struct {
	Paths []string `json:"paths"` // match paths of an HTTPRoute rule; empty = unknown (treated as wildcard)
	Refs  []FRef   `json:"refs"`
}

type FRoute struct {
	Kind  string  `json:"kind"`
	NS    string  `json:"ns"`
	Name  string  `json:"name"`
	Rules []FRule `json:"rules"`
}

type FCert struct {
	Group *string `json:"group"`
	Kind  *string `json:"kind"`
	NS    *string `json:"ns"`
	Name  string  `json:"name"`
}

type FListener struct {
	Name     string  `json:"name"`
	Port     int     `json:"port"`
	Protocol string  `json:"protocol"`
	Hostname string  `json:"hostname"`
	Certs    []FCert `json:"certs"`
}

type FGateway struct {
	NS        string      `json:"ns"`
	Name      string      `json:"name"`
	Listeners []FListener `json:"listeners"`
}

type FSecret struct {
	NS   string `json:"ns"`
	Name string `json:"name"`
	Hash string `json:"hash"`
}

type In struct {
	Grants   []FGrant   `json:"grants"`
	Routes   []FRoute   `json:"routes"`
	Gateways []FGateway `json:"gateways"`
	Secrets  []FSecret  `json:"secrets"`
}

func hashBytes(b []byte) string {
	s := sha256.Sum256(b)
	return hex.EncodeToString(s[:8])
}

func sp[T ~string](v *T) *string {
	if v == nil {
		return nil
	}
	s := string(*v)
	return &s
}

func flatRef(b gatewayv1.BackendRef, nf int) FRef {
	r := FRef{Group: sp(b.Group), Kind: sp(b.Kind), NS: sp(b.Namespace), Name: string(b.Name), NFilters: nf}
	if b.Port != nil {
		v := int(*b.Port)
		r.Port = &v
	}
	if b.Weight != nil {
		v := int(*b.Weight)
		r.Weight = &v
	}
	return r
}

// FlatGrant copies the fields of a ReferenceGrant.
func FlatGrant(g *v1beta1.ReferenceGrant) FGrant {
	fg := FGrant{NS: g.Namespace, Name: g.Name, From: []FFrom{}, To: []FTo{}}
	for _, f := range g.Spec.From {
		fg.From = append(fg.From, FFrom{string(f.Group), string(f.Kind), string(f.Namespace)})
	}
	for _, t := range g.Spec.To {
		fg.To = append(fg.To, FTo{string(t.Group), string(t.Kind), sp(t.Name)})
	}
	return fg
}

// Flatten extracts from the typed objects exactly the fields the property talks about.
func Flatten(objs []client.Object) In {
	in := In{Grants: []FGrant{}, Routes: []FRoute{}, Gateways: []FGateway{}, Secrets: []FSecret{}}
	// a cluster holds one object per kind/namespace/name: the last one delivered wins
	last := map[string]int{}
	for i, o := range objs {
		last[p.KeyOf(o).String()] = i
	}
	for i, o := range objs {
		if last[p.KeyOf(o).String()] != i {
			continue
		}
		switch x := o.(type) {
		case *v1beta1.ReferenceGrant:
			in.Grants = append(in.Grants, FlatGrant(x))
		case *gatewayv1.HTTPRoute:
			fr := FRoute{Kind: "HTTPRoute", NS: x.Namespace, Name: x.Name, Rules: []FRule{}}
			for _, r := range x.Spec.Rules {
				rule := FRule{Paths: []string{}, Refs: []FRef{}}
				known := len(r.Matches) > 0
				for _, m := range r.Matches {
					if m.Path == nil || m.Path.Value == nil {
						known = false
						break
					}
					rule.Paths = append(rule.Paths, *m.Path.Value)
				}
				if !known {
					rule.Paths = []string{}
				}
				for _, b := range r.BackendRefs {
					rule.Refs = append(rule.Refs, flatRef(b.BackendRef, len(b.Filters)))
				}
				fr.Rules = append(fr.Rules, rule)
			}
			in.Routes = append(in.Routes, fr)
		case *gatewayv1.GRPCRoute:
			fr := FRoute{Kind: "GRPCRoute", NS: x.Namespace, Name: x.Name, Rules: []FRule{}}
			for _, r := range x.Spec.Rules {
				rule := FRule{Paths: []string{}, Refs: []FRef{}}
				// an exact method match on service and method is served at /<service>/<method>
				known := len(r.Matches) > 0
				for _, m := range r.Matches {
					if m.Method == nil || m.Method.Service == nil || m.Method.Method == nil ||
						(m.Method.Type != nil && *m.Method.Type != gatewayv1.GRPCMethodMatchExact) {
						known = false
						break
					}
					rule.Paths = append(rule.Paths, "/"+*m.Method.Service+"/"+*m.Method.Method)
				}
				if !known {
					rule.Paths = []string{}
				}
				for _, b := range r.BackendRefs {
					rule.Refs = append(rule.Refs, flatRef(b.BackendRef, len(b.Filters)))
				}
				fr.Rules = append(fr.Rules, rule)
			}
			in.Routes = append(in.Routes, fr)
		case *v1alpha2.TLSRoute:
			fr := FRoute{Kind: "TLSRoute", NS: x.Namespace, Name: x.Name, Rules: []FRule{}}
			for _, r := range x.Spec.Rules {
				rule := FRule{Paths: []string{}, Refs: []FRef{}}
				for _, b := range r.BackendRefs {
					rule.Refs = append(rule.Refs, flatRef(b, 0))
				}
				fr.Rules = append(fr.Rules, rule)
			}
			in.Routes = append(in.Routes, fr)
		case *gatewayv1.Gateway:
			fg := FGateway{NS: x.Namespace, Name: x.Name, Listeners: []FListener{}}
			for _, l := range x.Spec.Listeners {
				fl := FListener{Name: string(l.Name), Port: int(l.Port), Protocol: string(l.Protocol), Certs: []FCert{}}
				if l.Hostname != nil {
					fl.Hostname = string(*l.Hostname)
				}
				if l.TLS != nil {
					for _, c := range l.TLS.CertificateRefs {
						fl.Certs = append(fl.Certs, FCert{Group: sp(c.Group), Kind: sp(c.Kind), NS: sp(c.Namespace), Name: string(c.Name)})
					}
				}
				fg.Listeners = append(fg.Listeners, fl)
			}
			in.Gateways = append(in.Gateways, fg)
		case *apiv1.Secret:
			c, okc := x.Data[apiv1.TLSCertKey]
			k, okk := x.Data[apiv1.TLSPrivateKeyKey]
			if okc && okk {
				in.Secrets = append(in.Secrets, FSecret{NS: x.Namespace, Name: x.Name, Hash: hashBytes(pemContent(c, k))})
			}
		}
	}
	return in
}

// pemContent is what generatePEM writes: cert, newline, key.
func pemContent(cert, key []byte) []byte {
	c := make([]byte, 0, len(cert)+len(key)+1)
	c = append(c, cert...)
	c = append(c, '\n')
	return append(c, key...)
}

// ---------------------------------------------------------------- observations of the real pipeline

type Cond [3]string // type, status, reason

func flatConds(cs []conditions.Condition) []Cond {
	out := []Cond{}
	for _, c := range cs {
		out = append(out, Cond{c.Type, string(c.Status), c.Reason})
	}
	return out
}

func flatMetaConds(cs []metav1.Condition) []Cond {
	out := []Cond{}
	for _, c := range cs {
		out = append(out, Cond{c.Type, string(c.Status), c.Reason})
	}
	return out
}

type OGRef struct {
	Valid   bool   `json:"valid"`
	SvcNS   string `json:"svcns"`
	SvcName string `json:"svcname"`
	Port    int    `json:"port"`
	Weight  int    `json:"weight"`
}

type OGRule struct {
	Processed bool    `json:"processed"`
	Refs      []OGRef `json:"refs"`
}

type OGRoute struct {
	Kind  string   `json:"kind"`
	NS    string   `json:"ns"`
	Name  string   `json:"name"`
	Valid bool     `json:"valid"`
	Conds []Cond   `json:"conds"`
	Rules []OGRule `json:"rules"`
}

type OGListener struct {
	Name   string `json:"name"`
	Valid  bool   `json:"valid"`
	Conds  []Cond `json:"conds"`
	Secret string `json:"secret"`
}

type OGraph struct {
	Routes    []OGRoute    `json:"routes"`
	Listeners []OGListener `json:"listeners"`
}

type OBackend struct {
	Up     string `json:"up"`
	Valid  bool   `json:"valid"`
	Weight int    `json:"weight"`
}

type OGroup struct {
	NS       string     `json:"ns"`
	Name     string     `json:"name"`
	Rule     int        `json:"rule"`
	Kind     string     `json:"kind"` // kind of the route the match rule came from ("" if it cannot be told)
	GName    string     `json:"gname"`
	Backends []OBackend `json:"backends"`
	// what the real nginx/config functions make of the group (overlay accessors)
	Target string   `json:"target"`
	Split  []string `json:"split"`
}

type OL4 struct {
	Host string `json:"host"`
	Port int    `json:"port"`
	Up   string `json:"up"`
}

type OKeyPair struct {
	ID   string `json:"id"`
	Hash string `json:"hash"`
}

type OSSL struct {
	Host    string `json:"host"`
	Port    int    `json:"port"`
	KeyPair string `json:"keypair"`
}

type OConf struct {
	Groups   []OGroup   `json:"groups"`
	L4       []OL4      `json:"l4"`
	KeyPairs []OKeyPair `json:"keypairs"`
	SSL      []OSSL     `json:"ssl"`
}

type OPem struct {
	Path string `json:"path"`
	Hash string `json:"hash"`
}

type OFiles struct {
	HTTP   string `json:"http"`
	Stream string `json:"stream"`
	Pems   []OPem `json:"pems"`
}

type OParent struct {
	GwNS    string `json:"gwns"`
	GwName  string `json:"gwname"`
	Section string `json:"section"`
	Conds   []Cond `json:"conds"`
}

type ORouteStatus struct {
	Kind    string    `json:"kind"`
	NS      string    `json:"ns"`
	Name    string    `json:"name"`
	Parents []OParent `json:"parents"`
}

type OListenerStatus struct {
	Name  string `json:"name"`
	Conds []Cond `json:"conds"`
}

type OStatus struct {
	Routes    []ORouteStatus    `json:"routes"`
	Listeners []OListenerStatus `json:"listeners"`
}

type Obs struct {
	Change  string  `json:"change"`
	Stale   bool    `json:"stale"` // Apply reported NoChange: the served output is the previous one
	Panic   string  `json:"panic"`
	HasConf bool    `json:"hasconf"`
	Winner  *[2]string `json:"winner"`
	Graph   OGraph  `json:"graph"`
	Conf    OConf   `json:"conf"`
	Files   OFiles  `json:"files"`
	Status  OStatus `json:"status"`
}

func routeKindName(t graph.RouteType) string {
	if t == graph.RouteTypeGRPC {
		return "GRPCRoute"
	}
	return "HTTPRoute"
}

func ogRef(b graph.BackendRef) OGRef {
	return OGRef{Valid: b.Valid, SvcNS: b.SvcNsName.Namespace, SvcName: b.SvcNsName.Name,
		Port: int(b.ServicePort.Port), Weight: int(b.Weight)}
}

// Observe canonicalises one pipeline output. objs are the objects of the cluster at that moment
// (needed to run the status setters).
func Observe(out p.Output, objs []client.Object, controller string) Obs {
	o := Obs{Change: string(out.Change), Panic: out.Panic}
	o.Graph = OGraph{Routes: []OGRoute{}, Listeners: []OGListener{}}
	o.Conf = OConf{Groups: []OGroup{}, L4: []OL4{}, KeyPairs: []OKeyPair{}, SSL: []OSSL{}}
	o.Files = OFiles{Pems: []OPem{}}
	o.Status = OStatus{Routes: []ORouteStatus{}, Listeners: []OListenerStatus{}}
	if out.Panic != "" {
		if len(o.Panic) > 300 {
			o.Panic = p.PanicSite(out.Panic) + ": " + o.Panic[:300]
		}
		return o
	}
	g := out.Graph
	if g == nil {
		return o
	}
	for _, r := range g.Routes {
		gr := OGRoute{Kind: routeKindName(r.RouteType), NS: r.Source.GetNamespace(), Name: r.Source.GetName(),
			Valid: r.Valid, Conds: flatConds(r.Conditions), Rules: []OGRule{}}
		for _, rule := range r.Spec.Rules {
			or := OGRule{Refs: []OGRef{}}
			or.Processed = r.Valid && rule.ValidMatches && rule.Filters.Valid && len(rule.RouteBackendRefs) > 0
			for _, b := range rule.BackendRefs {
				or.Refs = append(or.Refs, ogRef(b))
			}
			gr.Rules = append(gr.Rules, or)
		}
		o.Graph.Routes = append(o.Graph.Routes, gr)
	}
	for _, r := range g.L4Routes {
		gr := OGRoute{Kind: "TLSRoute", NS: r.Source.GetNamespace(), Name: r.Source.GetName(),
			Valid: r.Valid, Conds: flatConds(r.Conditions), Rules: []OGRule{}}
		if r.Valid {
			gr.Rules = append(gr.Rules, OGRule{Processed: true, Refs: []OGRef{ogRef(r.Spec.BackendRef)}})
		}
		o.Graph.Routes = append(o.Graph.Routes, gr)
	}
	sort.Slice(o.Graph.Routes, func(i, j int) bool {
		a, b := o.Graph.Routes[i], o.Graph.Routes[j]
		return a.Kind+"/"+a.NS+"/"+a.Name < b.Kind+"/"+b.NS+"/"+b.Name
	})
	if g.Gateway != nil && g.Gateway.Source != nil {
		o.Winner = &[2]string{g.Gateway.Source.Namespace, g.Gateway.Source.Name}
		for _, l := range g.Gateway.Listeners {
			ol := OGListener{Name: l.Name, Valid: l.Valid, Conds: flatConds(l.Conditions)}
			if l.ResolvedSecret != nil {
				ol.Secret = l.ResolvedSecret.Namespace + "/" + l.ResolvedSecret.Name
			}
			o.Graph.Listeners = append(o.Graph.Listeners, ol)
		}
	}

	if out.Conf != nil {
		o.HasConf = true
		seen := map[string]bool{}
		// MatchRule.Source points at the ObjectMeta of the route object held by the graph: pointer identity
		// tells the route kind (PathRule.GRPC is shared by all routes that match on the same path).
		metaKind := map[*metav1.ObjectMeta]string{}
		for _, r := range g.Routes {
			switch src := r.Source.(type) {
			case *gatewayv1.HTTPRoute:
				metaKind[&src.ObjectMeta] = "HTTPRoute"
			case *gatewayv1.GRPCRoute:
				metaKind[&src.ObjectMeta] = "GRPCRoute"
			}
		}
		addServers := func(servers []dataplane.VirtualServer) {
			for _, s := range servers {
				if s.SSL != nil {
					o.Conf.SSL = append(o.Conf.SSL, OSSL{Host: s.Hostname, Port: int(s.Port), KeyPair: string(s.SSL.KeyPairID)})
				}
				for _, pr := range s.PathRules {
					for _, mr := range pr.MatchRules {
						bg := mr.BackendGroup
						og := OGroup{NS: bg.Source.Namespace, Name: bg.Source.Name, Rule: bg.RuleIdx, Kind: metaKind[mr.Source],
							GName: bg.Name(), Backends: []OBackend{}, Split: []string{}}
						key := og.Kind + "/" + og.NS + "/" + og.Name + "/" + string(rune('0'+og.Rule))
						if seen[key] {
							continue
						}
						seen[key] = true
						for _, b := range bg.Backends {
							og.Backends = append(og.Backends, OBackend{Up: b.UpstreamName, Valid: b.Valid, Weight: int(b.Weight)})
							og.Split = append(og.Split, ngxcfg.VerifC06SplitClientValue(b))
						}
						og.Target = ngxcfg.VerifC06BackendGroupName(bg)
						o.Conf.Groups = append(o.Conf.Groups, og)
					}
				}
			}
		}
		addServers(out.Conf.HTTPServers)
		addServers(out.Conf.SSLServers)
		for _, s := range out.Conf.TLSPassthroughServers {
			o.Conf.L4 = append(o.Conf.L4, OL4{Host: s.Hostname, Port: int(s.Port), Up: s.UpstreamName})
		}
		for id, kp := range out.Conf.SSLKeyPairs {
			o.Conf.KeyPairs = append(o.Conf.KeyPairs, OKeyPair{ID: string(id), Hash: hashBytes(pemContent(kp.Cert, kp.Key))})
		}
		sort.Slice(o.Conf.KeyPairs, func(i, j int) bool { return o.Conf.KeyPairs[i].ID < o.Conf.KeyPairs[j].ID })
	}

	for _, f := range p.SortedFiles(out.Files) {
		switch {
		case strings.HasSuffix(f.Path, "/http.conf"):
			o.Files.HTTP = string(f.Content)
		case strings.HasSuffix(f.Path, "/stream.conf"):
			o.Files.Stream = string(f.Content)
		case strings.HasSuffix(f.Path, ".pem"):
			o.Files.Pems = append(o.Files.Pems, OPem{Path: f.Path, Hash: hashBytes(f.Content)})
		}
	}

	res, _, _ := p.ApplyStatuses(out.Requests, objs)
	var keys []p.Key
	for k := range res {
		keys = append(keys, k)
	}
	sort.Slice(keys, func(i, j int) bool { return keys[i].String() < keys[j].String() })
	for _, k := range keys {
		var parents []gatewayv1.RouteParentStatus
		switch x := res[k].(type) {
		case *gatewayv1.HTTPRoute:
			parents = x.Status.Parents
		case *gatewayv1.GRPCRoute:
			parents = x.Status.Parents
		case *v1alpha2.TLSRoute:
			parents = x.Status.Parents
		case *gatewayv1.Gateway:
			if o.Winner != nil && x.Namespace == o.Winner[0] && x.Name == o.Winner[1] {
				for _, l := range x.Status.Listeners {
					o.Status.Listeners = append(o.Status.Listeners, OListenerStatus{Name: string(l.Name), Conds: flatMetaConds(l.Conditions)})
				}
			}
			continue
		default:
			continue
		}
		rs := ORouteStatus{Kind: k.Kind, NS: k.NN.Namespace, Name: k.NN.Name, Parents: []OParent{}}
		for _, ps := range parents {
			if string(ps.ControllerName) != controller {
				continue
			}
			op := OParent{GwName: string(ps.ParentRef.Name), Conds: flatMetaConds(ps.Conditions)}
			if ps.ParentRef.Namespace != nil {
				op.GwNS = string(*ps.ParentRef.Namespace)
			}
			if ps.ParentRef.SectionName != nil {
				op.Section = string(*ps.ParentRef.SectionName)
			}
			rs.Parents = append(rs.Parents, op)
		}
		o.Status.Routes = append(o.Status.Routes, rs)
	}
	return o
}
