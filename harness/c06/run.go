package c06

import (
	"bufio"
	"encoding/json"
	"flag"
	"fmt"
	"os"
	"path/filepath"
	"sort"
	"strconv"
	"strings"

	apiv1 "k8s.io/api/core/v1"
	"k8s.io/apimachinery/pkg/types"
	"sigs.k8s.io/controller-runtime/pkg/client"
	gatewayv1 "sigs.k8s.io/gateway-api/apis/v1"
	"sigs.k8s.io/gateway-api/apis/v1beta1"

	"github.com/nginx/nginx-gateway-fabric/internal/mode/static/state/graph"
	p "github.com/nginx/nginx-gateway-fabric/verifharness/pipeline"
	"github.com/nginx/nginx-gateway-fabric/verifharness/rng"
	"github.com/nginx/nginx-gateway-fabric/verifharness/scen"
)

type line struct {
	K    string         `json:"k"`
	ID   string         `json:"id"`
	In   any            `json:"in"`
	Obs  any            `json:"obs"`
	Tags map[string]int `json:"tags,omitempty"`
	Desc string         `json:"desc,omitempty"`
	// stream `refs` only: C02's flat view of the same objects and the generated matches.json
	Flat    any    `json:"flat,omitempty"`
	Matches string `json:"matches,omitempty"`
	// RefSvcs: keys of the real graph.ReferencedServices ("ns/name", sorted)
	RefSvcs []string `json:"refsvcs,omitempty"`
}

var w *bufio.Writer

func emit(l line) {
	b, err := json.Marshal(l)
	if err != nil {
		panic(err)
	}
	w.Write(b)
	w.WriteByte('\n')
	w.Flush()
}

// ---------------------------------------------------------------- mode res: resolver correspondence

type resTo struct{ Group, Kind, Name, NS string }
type resFrom struct{ Group, Kind, NS string }
type resQuery struct {
	To   resTo   `json:"to"`
	From resFrom `json:"from"`
}
type resIn struct {
	Grants  []FGrant   `json:"grants"`
	Queries []resQuery `json:"queries"`
	// constructor probes: namespace/name fed to every to*/from* constructor
	CNS   string `json:"cns"`
	CName string `json:"cname"`
}
type resObs struct {
	Keys    []string `json:"keys"`
	Answers []bool   `json:"answers"`
	ViaFrom []bool   `json:"viafrom"`
	Ctors   []string `json:"ctors"`
}

var (
	poolGroup = []string{"", "core", gwGroup, "apps"}
	poolKind  = []string{"Service", "Secret", "Gateway", "HTTPRoute", "GRPCRoute", "TLSRoute"}
	poolNS    = []string{"a", "b", "c", "a-b"}             // "a-b" + "-" + "x" == "a" + "-" + "b-x"
	poolName  = []string{"", "x", "y", "xy", "x-a", "b-x"} // "x" is a proper prefix of "xy" and "x-a"; "xy"/"x-a" have equal length
)

func genGrants(r *rng.R, n int) (map[types.NamespacedName]*v1beta1.ReferenceGrant, []FGrant) {
	m := map[types.NamespacedName]*v1beta1.ReferenceGrant{}
	var flat []FGrant
	for i := 0; i < n; i++ {
		g := &v1beta1.ReferenceGrant{ObjectMeta: p.Meta(rng.Pick(r, poolNS), fmt.Sprintf("g%d", i), 0)}
		nf, nt := r.Intn(4), r.Intn(4)
		for j := 0; j < nf; j++ {
			g.Spec.From = append(g.Spec.From, v1beta1.ReferenceGrantFrom{
				Group: gatewayv1.Group(rng.Pick(r, poolGroup)), Kind: gatewayv1.Kind(rng.Pick(r, poolKind)),
				Namespace: gatewayv1.Namespace(rng.Pick(r, poolNS)),
			})
		}
		for j := 0; j < nt; j++ {
			t := v1beta1.ReferenceGrantTo{Group: gatewayv1.Group(rng.Pick(r, poolGroup)), Kind: gatewayv1.Kind(rng.Pick(r, poolKind))}
			if r.Chance(60, 100) {
				t.Name = ptr(gatewayv1.ObjectName(rng.Pick(r, poolName)))
			}
			g.Spec.To = append(g.Spec.To, t)
		}
		m[client.ObjectKeyFromObject(g)] = g
		flat = append(flat, FlatGrant(g))
	}
	if flat == nil {
		flat = []FGrant{}
	}
	return m, flat
}

func showTo(t graph.VerifC06To) string {
	return t.Group + "|" + t.Kind + "|" + t.Name + "|" + t.Namespace
}

func showFrom(f graph.VerifC06From) string { return f.Group + "|" + f.Kind + "|" + f.Namespace }

func runRes(r *rng.R, n int) {
	for i := 0; i < n; i++ {
		cr := r.Fork()
		m, flat := genGrants(cr, cr.Intn(5))
		in := resIn{Grants: flat, CNS: rng.Pick(cr, poolNS), CName: rng.Pick(cr, poolName)}
		res := graph.VerifC06NewResolver(m)
		obs := resObs{Keys: res.Keys(), Answers: []bool{}, ViaFrom: []bool{}}
		nq := 12
		for q := 0; q < nq; q++ {
			var to graph.VerifC06To
			var from graph.VerifC06From
			if q%2 == 0 {
				// through the constructors, as the pipeline does
				nn := types.NamespacedName{Namespace: rng.Pick(cr, poolNS), Name: rng.Pick(cr, poolName)}
				if cr.Bool() {
					to = graph.VerifC06ToService(nn)
				} else {
					to = graph.VerifC06ToSecret(nn)
				}
				from = graph.VerifC06FromRoute(rng.Pick(cr, []string{"HTTPRoute", "GRPCRoute", "TLSRoute"}), rng.Pick(cr, poolNS))
				if cr.Chance(25, 100) {
					from = graph.VerifC06FromGateway(rng.Pick(cr, poolNS))
				}
			} else {
				to = graph.VerifC06To{Group: rng.Pick(cr, poolGroup), Kind: rng.Pick(cr, poolKind), Name: rng.Pick(cr, poolName), Namespace: rng.Pick(cr, poolNS)}
				from = graph.VerifC06From{Group: rng.Pick(cr, poolGroup), Kind: rng.Pick(cr, poolKind), Namespace: rng.Pick(cr, poolNS)}
			}
			if len(flat) > 0 && cr.Chance(65, 100) {
				// aim at an existing grant entry, then (sometimes) miss it in exactly one field
				g := rng.Pick(cr, flat)
				if len(g.From) > 0 && len(g.To) > 0 {
					f, t := rng.Pick(cr, g.From), rng.Pick(cr, g.To)
					from = graph.VerifC06From{Group: f.Group, Kind: f.Kind, Namespace: f.NS}
					to = graph.VerifC06To{Group: t.Group, Kind: t.Kind, Namespace: g.NS, Name: rng.Pick(cr, poolName)}
					if to.Group == "core" && cr.Chance(70, 100) {
						to.Group = ""
					}
					if t.Name != nil && cr.Chance(70, 100) {
						to.Name = *t.Name
						switch cr.Intn(8) {
						case 0:
							to.Name = *t.Name + "y" // the requested name has the granted one as a proper prefix
						case 1:
							if len(*t.Name) > 1 {
								to.Name = (*t.Name)[:len(*t.Name)-1] // … and the reverse
							}
						case 2:
							if len(*t.Name) > 0 {
								to.Name = (*t.Name)[:len(*t.Name)-1] + "z" // same length, differing
							}
						}
					}
					if t.Name != nil && cr.Chance(12, 100) {
						// another (namespace, name) with the same "namespace-name" concatenation: must not be permitted
						if n2, name2, ok := hyphenAligned(g.NS, *t.Name); ok {
							to.Namespace, to.Name = n2, name2
						}
					}
					switch cr.Intn(12) {
					case 0:
						from.Group = rng.Pick(cr, poolGroup)
					case 1:
						from.Kind = rng.Pick(cr, poolKind)
					case 2:
						from.Namespace = rng.Pick(cr, poolNS)
					case 3:
						to.Kind = rng.Pick(cr, poolKind)
					case 4:
						to.Namespace = rng.Pick(cr, poolNS)
					case 5:
						to.Group = rng.Pick(cr, poolGroup)
					}
				}
			}
			in.Queries = append(in.Queries, resQuery{To: resTo{to.Group, to.Kind, to.Name, to.Namespace}, From: resFrom{from.Group, from.Kind, from.Namespace}})
			obs.Answers = append(obs.Answers, res.RefAllowed(to, from))
			obs.ViaFrom = append(obs.ViaFrom, res.RefAllowedFrom(from, to))
		}
		nn := types.NamespacedName{Namespace: in.CNS, Name: in.CName}
		obs.Ctors = []string{
			showTo(graph.VerifC06ToSecret(nn)), showTo(graph.VerifC06ToService(nn)),
			showFrom(graph.VerifC06FromGateway(in.CNS)), showFrom(graph.VerifC06FromHTTPRoute(in.CNS)),
			showFrom(graph.VerifC06FromGRPCRoute(in.CNS)), showFrom(graph.VerifC06FromTLSRoute(in.CNS)),
			showFrom(graph.VerifC06FromRoute("HTTPRoute", in.CNS)), showFrom(graph.VerifC06FromRoute("GRPCRoute", in.CNS)),
		}
		emit(line{K: "res", ID: fmt.Sprintf("res%d", i), In: in, Obs: obs})
	}
}

// ---------------------------------------------------------------- mode val: validators that consult the resolver

type valIn struct {
	Grants  []FGrant `json:"grants"`
	Kind    string   `json:"kind"` // HTTPRoute | GRPCRoute | TLSRoute | Gateway
	NS      string   `json:"ns"`   // namespace of the referrer
	Ref     *FRef    `json:"ref"`
	Certs   []FCert  `json:"certs"`
	Secrets []string `json:"secrets"` // ns/name of the valid TLS secrets that exist
}
type valObs struct {
	Valid    bool     `json:"valid"`
	Reason   string   `json:"reason"`
	Conds    []string `json:"conds"`
	Resolved string   `json:"resolved"`
}

func runVal(r *rng.R, n int) {
	for i := 0; i < n; i++ {
		cr := r.Fork()
		m, flat := genGrants(cr, cr.Intn(4))
		// a (namespace, name) with the same "namespace-name" concatenation as the biased grant's target, if there is one
		alNS, alName, alOK := "", "", false
		// bias: make many grants relevant
		if cr.Chance(60, 100) {
			g := &v1beta1.ReferenceGrant{ObjectMeta: p.Meta(rng.Pick(cr, poolNS), "gx", 0)}
			g.Spec.From = []v1beta1.ReferenceGrantFrom{{Group: gwGroup, Kind: gatewayv1.Kind(rng.Pick(cr, []string{"HTTPRoute", "GRPCRoute", "TLSRoute", "Gateway"})), Namespace: gatewayv1.Namespace(rng.Pick(cr, poolNS))}}
			t := v1beta1.ReferenceGrantTo{Group: gatewayv1.Group(rng.Pick(cr, []string{"", "core"})), Kind: gatewayv1.Kind(rng.Pick(cr, []string{"Service", "Secret"}))}
			if cr.Bool() {
				t.Name = ptr(gatewayv1.ObjectName(rng.Pick(cr, poolName)))
			}
			g.Spec.To = []v1beta1.ReferenceGrantTo{t}
			m[client.ObjectKeyFromObject(g)] = g
			flat = append(flat, FlatGrant(g))
			if t.Name != nil {
				alNS, alName, alOK = hyphenAligned(g.Namespace, string(*t.Name))
			}
		}
		in := valIn{Grants: flat, NS: rng.Pick(cr, poolNS), Certs: []FCert{}, Secrets: []string{}}
		var obs valObs
		if cr.Chance(70, 100) {
			in.Kind = rng.Pick(cr, []string{"HTTPRoute", "GRPCRoute", "TLSRoute"})
			b := gatewayv1.BackendRef{BackendObjectReference: gatewayv1.BackendObjectReference{Name: gatewayv1.ObjectName(rng.Pick(cr, []string{"x", "y", "xy", "x-a", "b-x"}))}}
			if cr.Chance(75, 100) {
				b.Namespace = ptr(gatewayv1.Namespace(rng.Pick(cr, poolNS)))
			}
			if alOK && cr.Chance(25, 100) {
				b.Namespace = ptr(gatewayv1.Namespace(alNS))
				b.Name = gatewayv1.ObjectName(alName)
			}
			if cr.Chance(40, 100) {
				b.Group = ptr(gatewayv1.Group(rng.Pick(cr, []string{"", "core", "core", "apps"})))
			}
			if cr.Chance(50, 100) {
				b.Kind = ptr(gatewayv1.Kind(rng.Pick(cr, []string{"Service", "Service", "Service", "Secret"})))
			}
			if cr.Chance(92, 100) {
				b.Port = ptr(gatewayv1.PortNumber(80))
			}
			if cr.Chance(40, 100) {
				b.Weight = ptr(int32(rng.Pick(cr, []int{-1, 0, 1, 1000000, 1000001})))
			}
			nf := 0
			if cr.Chance(10, 100) {
				nf = 1
			}
			fr := flatRef(b, nf)
			in.Ref = &fr
			obs.Valid, obs.Reason = graph.VerifC06ValidateRef(m, in.Kind, in.NS, b, nf)
			obs.Conds = []string{}
		} else {
			in.Kind = "Gateway"
			secrets := map[types.NamespacedName]*apiv1.Secret{}
			for _, ns := range poolNS {
				for _, nm := range []string{"x", "y", "xy", "x-a", "b-x"} {
					if cr.Chance(80, 100) {
						secrets[types.NamespacedName{Namespace: ns, Name: nm}] = p.TLSSecret(ns, nm, 1)
						in.Secrets = append(in.Secrets, ns+"/"+nm)
					}
				}
			}
			var refs []gatewayv1.SecretObjectReference
			nc := rng.Pick(cr, []int{1, 1, 1, 2})
			for k := 0; k < nc; k++ {
				c := gatewayv1.SecretObjectReference{Name: gatewayv1.ObjectName(rng.Pick(cr, []string{"x", "y", "xy", "x-a", "b-x"}))}
				if cr.Chance(75, 100) {
					c.Namespace = ptr(gatewayv1.Namespace(rng.Pick(cr, poolNS)))
				}
				if alOK && cr.Chance(25, 100) {
					c.Namespace = ptr(gatewayv1.Namespace(alNS))
					c.Name = gatewayv1.ObjectName(alName)
					if _, ok := secrets[types.NamespacedName{Namespace: alNS, Name: alName}]; !ok {
						secrets[types.NamespacedName{Namespace: alNS, Name: alName}] = p.TLSSecret(alNS, alName, 1)
						in.Secrets = append(in.Secrets, alNS+"/"+alName)
					}
				}
				refs = append(refs, c)
				in.Certs = append(in.Certs, FCert{NS: sp(c.Namespace), Name: string(c.Name)})
			}
			obs.Valid, obs.Conds, obs.Resolved = graph.VerifC06ResolveCert(m, secrets, in.NS, refs)
			if obs.Conds == nil {
				obs.Conds = []string{}
			}
		}
		emit(line{K: "val", ID: fmt.Sprintf("val%d", i), In: in, Obs: obs})
	}
}

// ---------------------------------------------------------------- mode cube: exhaustive near-miss cube, one grant x one reference

// runCube enumerates, for each of the four referrer kinds, every combination of the attributes of a
// single grant around the reference (kind in namespace a) -> (Service|Secret b/x):
// from.group x from.kind x from.namespace x to.group x to.kind x to.name x namespace of the grant.
func runCube() {
	n := 0
	for _, kind := range []string{"HTTPRoute", "GRPCRoute", "TLSRoute", "Gateway"} {
		target := "Service"
		if kind == "Gateway" {
			target = "Secret"
		}
		otherKind := map[string]string{"HTTPRoute": "GRPCRoute", "GRPCRoute": "TLSRoute", "TLSRoute": "Gateway", "Gateway": "HTTPRoute"}[kind]
		otherTarget := map[string]string{"Service": "Secret", "Secret": "Service"}[target]
		for _, fg := range []string{gwGroup, "", "core", "networking.k8s.io"} {
			for _, fk := range []string{kind, otherKind} {
				for _, fns := range []string{"a", "b", "c"} {
					for _, tg := range []string{"", "core", "apps"} {
						for _, tk := range []string{target, otherTarget} {
							for _, tn := range []*string{nil, ptr(""), ptr("x"), ptr("y"), ptr("xy")} {
								for _, gnsrn := range [][2]string{{"b", "x"}, {"a", "x"}, {"c", "x"}, {"b", "xy"}, {"a", "xy"}, {"c", "xy"}} {
									// rn: the requested name — equal to / an extension of / a prefix of the granted one
									gns, rn := gnsrn[0], gnsrn[1]
									g := &v1beta1.ReferenceGrant{ObjectMeta: p.Meta(gns, "g", 0)}
									g.Spec.From = []v1beta1.ReferenceGrantFrom{{Group: gatewayv1.Group(fg), Kind: gatewayv1.Kind(fk), Namespace: gatewayv1.Namespace(fns)}}
									t := v1beta1.ReferenceGrantTo{Group: gatewayv1.Group(tg), Kind: gatewayv1.Kind(tk)}
									if tn != nil {
										t.Name = ptr(gatewayv1.ObjectName(*tn))
									}
									g.Spec.To = []v1beta1.ReferenceGrantTo{t}
									m := map[types.NamespacedName]*v1beta1.ReferenceGrant{client.ObjectKeyFromObject(g): g}
									in := valIn{Grants: []FGrant{FlatGrant(g)}, Kind: kind, NS: "a", Certs: []FCert{}, Secrets: []string{}}
									var obs valObs
									if kind == "Gateway" {
										secrets := map[types.NamespacedName]*apiv1.Secret{{Namespace: "b", Name: rn}: p.TLSSecret("b", rn, 1)}
										in.Secrets = []string{"b/" + rn}
										c := gatewayv1.SecretObjectReference{Name: gatewayv1.ObjectName(rn), Namespace: ptr(gatewayv1.Namespace("b"))}
										in.Certs = []FCert{{NS: sp(c.Namespace), Name: rn}}
										obs.Valid, obs.Conds, obs.Resolved = graph.VerifC06ResolveCert(m, secrets, "a", []gatewayv1.SecretObjectReference{c})
										if obs.Conds == nil {
											obs.Conds = []string{}
										}
									} else {
										b := gatewayv1.BackendRef{BackendObjectReference: gatewayv1.BackendObjectReference{
											Name: gatewayv1.ObjectName(rn), Namespace: ptr(gatewayv1.Namespace("b")), Port: ptr(gatewayv1.PortNumber(80))}}
										fr := flatRef(b, 0)
										in.Ref = &fr
										obs.Valid, obs.Reason = graph.VerifC06ValidateRef(m, kind, "a", b, 0)
										obs.Conds = []string{}
									}
									emit(line{K: "val", ID: fmt.Sprintf("cube%d", n), In: in, Obs: obs})
									n++
								}
							}
						}
					}
				}
			}
		}
	}
}

// ---------------------------------------------------------------- end to end

func mergeTags(dst, src map[string]int) {
	for k, v := range src {
		dst[k] += v
	}
}

// runFresh: scenario -> fresh controller -> one Apply.
func runFresh(id string, objs []client.Object, opts p.Options, tags map[string]int) bool {
	_, out := p.RunFresh(objs, opts, nil)
	obs := Observe(out, objs, opts.Controller)
	emit(line{K: "e2e", ID: id, In: Flatten(objs), Obs: obs, Tags: tags})
	return out.Panic != ""
}

func runE2E(r *rng.R, n int) {
	panics := 0
	for i := 0; i < n && panics < 12; i++ {
		s := GenCrossNS(r.Fork())
		if runFresh(fmt.Sprintf("x%d", i), s.Objs, p.DefaultOptions(), s.Tags) {
			panics++
		}
	}
}

func runScen(r *rng.R, n int) {
	cfg := scen.DefaultConfig()
	cfg.PCrossNS = 45
	cfg.PInvalid = 6
	panics := 0
	for i := 0; i < n && panics < 12; i++ {
		s := scen.Generate(r.Fork(), cfg)
		if runFresh(fmt.Sprintf("s%d", i), s.Objs, s.Opts, s.Tags) {
			panics++
		}
	}
}

// runSeq: a long-lived controller receives create / revoke events; after every batch the SERVED
// output (the latest one that was generated) is judged against the objects that exist now.
func runSeq(r *rng.R, n, steps int) {
	panics := 0
	for i := 0; i < n && panics < 12; i++ {
		cr := r.Fork()
		s := GenCrossNS(cr)
		opts := p.DefaultOptions()
		objs := append([]client.Object{}, s.Objs...)
		if cr.Chance(30, 100) {
			rng.Shuffle(cr, objs)
		}
		c := p.NewController(opts)
		// metadata.resourceVersion as the API server assigns it: ONE cluster-wide increasing counter, rendered in
		// decimal, bumped on every write (create, update, delete). The counter starts so that the initial objects end
		// just below a digit-length boundary (10, 100, 1000, 10000): the events of the history then cross 9->10,
		// 99->100, 999->1000, … (a controller must not order resourceVersions, least of all as strings).
		boundary := uint64(10)
		for boundary < uint64(len(objs))+4 || (boundary < 10000 && cr.Chance(50, 100)) {
			boundary *= 10
		}
		rv := boundary - uint64(len(objs)) - uint64(cr.Intn(4)) - 1
		nextRV := func() string {
			rv++
			return strconv.FormatUint(rv, 10)
		}
		for _, o := range objs {
			o.SetResourceVersion(nextRV())
			c.Upsert(o)
		}
		out := c.Apply(nil)
		served := Observe(out, objs, opts.Controller)
		emit(line{K: "e2e", ID: fmt.Sprintf("q%d.0", i), In: Flatten(objs), Obs: served,
			Desc: fmt.Sprintf("initial (resourceVersions up to %d)", rv)})
		if out.Panic != "" {
			panics++
			continue
		}
		var removed []*v1beta1.ReferenceGrant
		for st := 1; st <= steps; st++ {
			evs := s.nextEvents(cr, objs, &removed, st)
			desc := ""
			for _, e := range evs {
				if e.Upsert != nil {
					e.Upsert.SetResourceVersion(nextRV())
					c.Upsert(e.Upsert)
					desc += fmt.Sprintf("%s [resourceVersion %s]; ", e.Desc, e.Upsert.GetResourceVersion())
				} else {
					nextRV() // a delete is a write, too
					c.Delete(e.Delete, client.ObjectKeyFromObject(e.Delete))
					desc += e.Desc + "; "
				}
				objs = applyEvent(objs, e)
			}
			out = c.Apply(nil)
			if out.Panic != "" {
				panics++
				emit(line{K: "e2e", ID: fmt.Sprintf("q%d.%d", i, st), In: Flatten(objs), Obs: Observe(out, objs, opts.Controller), Desc: desc})
				break
			}
			if string(out.Change) == "NoChange" || out.Graph == nil {
				served.Stale = true
				served.Change = string(out.Change)
			} else {
				served = Observe(out, objs, opts.Controller)
			}
			var tags map[string]int
			if st == steps {
				tags = s.Tags
			}
			emit(line{K: "e2e", ID: fmt.Sprintf("q%d.%d", i, st), In: Flatten(objs), Obs: served, Desc: desc, Tags: tags})
		}
	}
}

// Run is the command entry point.
func Run(args []string) int {
	fs := flag.NewFlagSet("c06", flag.ContinueOnError)
	seed := fs.Uint64("seed", 1, "")
	n := fs.Int("n", 100, "number of cases")
	mode := fs.String("mode", "e2e", "res | val | cube | e2e | scen | seq | refs | replay | mkcorpus")
	steps := fs.Int("steps", 4, "events batches per sequence")
	file := fs.String("file", "", "replay: JSON array of typed objects (pipeline.EncodeObjects)")
	if err := fs.Parse(args); err != nil {
		return 2
	}
	w = bufio.NewWriterSize(os.Stdout, 1<<20)
	defer w.Flush()
	r := rng.New(*seed)
	switch *mode {
	case "res":
		runRes(r, *n)
	case "val":
		runVal(r, *n)
	case "cube":
		runCube()
	case "e2e":
		runE2E(r, *n)
	case "scen":
		runScen(r, *n)
	case "seq":
		runSeq(r, *n, *steps)
	case "refs":
		runRefs(r, *n)
	case "mkcorpus":
		for name, objs := range CorpusScenarios() {
			if err := os.WriteFile(filepath.Join(*file, name+".json"), append(p.EncodeObjects(objs), '\n'), 0o644); err != nil {
				fmt.Fprintln(os.Stderr, err)
				return 2
			}
		}
	case "replay":
		// every *.json of the directory (or the one file): a JSON array of typed objects
		paths := []string{*file}
		if st, err := os.Stat(*file); err == nil && st.IsDir() {
			paths, _ = filepath.Glob(filepath.Join(*file, "*.json"))
			sort.Strings(paths)
		}
		for _, path := range paths {
			data, err := os.ReadFile(path)
			if err != nil {
				fmt.Fprintln(os.Stderr, err)
				return 2
			}
			objs, err := p.DecodeObjects(data)
			if err != nil {
				fmt.Fprintln(os.Stderr, path, err)
				return 2
			}
			runFresh("c:"+strings.TrimSuffix(filepath.Base(path), ".json"), objs, p.DefaultOptions(), nil)
		}
	default:
		return 2
	}
	return 0
}
