package c06

import (
	"fmt"
	"sort"

	apiv1 "k8s.io/api/core/v1"
	discoveryV1 "k8s.io/api/discovery/v1"
	"sigs.k8s.io/controller-runtime/pkg/client"
	gatewayv1 "sigs.k8s.io/gateway-api/apis/v1"

	"github.com/nginx/nginx-gateway-fabric/verifharness/c02"
	p "github.com/nginx/nginx-gateway-fabric/verifharness/pipeline"
	"github.com/nginx/nginx-gateway-fabric/verifharness/rng"
)

// Stream `refs` (deepening round): scenarios INSIDE the fragment of Model/Pipeline.lean (C02's generator
// c02.GenFragment: one served Gateway, HTTP listeners, HTTPRoutes with Exact/PathPrefix matches, redirects)
// whose Services, backendRefs and ReferenceGrants are redrawn here, so that `Model/PipelineRefs.resolve`
// (createBackendRef: group/kind check, cross-namespace ⇒ grant, weight range, Service lookup, port lookup) and
// `Pipeline.gen (resolve c)` can be compared with the REAL graph's BackendRefs and the REAL http.conf.
//
// Services: svc0..svc2 per namespace, absent / one port / several ports (in different orders) / another port only.
// backendRefs: same or other namespace (explicit or defaulted), existing or missing Service, matching or missing
// port, nil port, group/kind variants incl. invalid ones, weights incl. 0 and out-of-range, backendRef filters.
// Grants: one draw of the existing near-miss generator (`grantFor`) per cross-namespace reference.

const (
	matchesJSON = "/etc/nginx/conf.d/matches.json"
)

func (s *Scenario) refBackend(r *rng.R, routeNS string) (gatewayv1.HTTPBackendRef, bool) {
	svcNS := routeNS
	if r.Chance(45, 100) {
		svcNS = other(r, s.nss, routeNS)
	}
	name := fmt.Sprintf("svc%d", r.Intn(3))
	if r.Chance(6, 100) {
		name = "no-such-svc"
		s.tag("ref:missing-service-name")
	}
	b := gatewayv1.BackendRef{BackendObjectReference: gatewayv1.BackendObjectReference{Name: gatewayv1.ObjectName(name)}}
	switch k := r.Intn(100); {
	case k < 60:
		b.Port = ptr(gatewayv1.PortNumber(80))
	case k < 82:
		b.Port = ptr(gatewayv1.PortNumber(8080))
	case k < 92:
		b.Port = ptr(gatewayv1.PortNumber(9090))
	case k < 97:
		b.Port = ptr(gatewayv1.PortNumber(81))
		s.tag("ref:port-nowhere")
	default:
		s.tag("ref:port-nil")
	}
	if svcNS != routeNS || r.Chance(30, 100) {
		b.Namespace = ptr(gatewayv1.Namespace(svcNS))
	}
	switch r.Intn(12) {
	case 0:
		b.Group = ptr(gatewayv1.Group("core"))
		b.Kind = ptr(gatewayv1.Kind("Service"))
	case 1:
		b.Group = ptr(gatewayv1.Group(""))
	case 2, 3, 4, 5, 6:
		b.Group = ptr(gatewayv1.Group(""))
		b.Kind = ptr(gatewayv1.Kind("Service"))
	case 7:
		b.Kind = ptr(gatewayv1.Kind("Service"))
	case 8:
		if r.Chance(40, 100) {
			b.Group = ptr(gatewayv1.Group("apps"))
			s.tag("ref:invalid-group")
		} else if r.Chance(50, 100) {
			b.Kind = ptr(gatewayv1.Kind("Secret"))
			s.tag("ref:invalid-kind")
		}
	}
	switch k := r.Intn(100); {
	case k < 40:
	case k < 50:
		b.Weight = ptr(int32(0))
		s.tag("ref:weight-0")
	case k < 96:
		b.Weight = ptr(int32(rng.Pick(r, []int{1, 1, 2, 3, 7, 10, 33, 50, 100})))
	case k < 98:
		b.Weight = ptr(int32(rng.Pick(r, []int{-1, 1000001})))
		s.tag("ref:weight-out-of-range")
	default:
		b.Weight = ptr(int32(1000000))
	}
	hb := gatewayv1.HTTPBackendRef{BackendRef: b}
	if r.Chance(3, 100) {
		hb.Filters = []gatewayv1.HTTPRouteFilter{{Type: gatewayv1.HTTPRouteFilterRequestHeaderModifier,
			RequestHeaderModifier: &gatewayv1.HTTPHeaderFilter{Set: []gatewayv1.HTTPHeader{{Name: "X-A", Value: "b"}}}}}
		s.tag("ref:backendref-filter")
	}
	cross := svcNS != routeNS
	if cross {
		s.tag("crossns-backend:HTTPRoute")
		s.refs = append(s.refs, crossRef{"HTTPRoute", routeNS, "Service", svcNS, name})
	}
	return hb, cross
}

// GenRefs draws an in-fragment scenario with redrawn Services, backendRefs and ReferenceGrants.
func GenRefs(r *rng.R) *Scenario {
	base := c02.GenFragment(r)
	c02.ApplyDefaults(base.Objs)
	s := &Scenario{Tags: map[string]int{}}
	var routes []*gatewayv1.HTTPRoute
	for _, o := range base.Objs {
		switch x := o.(type) {
		case *apiv1.Namespace:
			s.nss = append(s.nss, x.Name)
			s.Objs = append(s.Objs, o)
		case *apiv1.Service, *discoveryV1.EndpointSlice:
			// redrawn below
		case *gatewayv1.HTTPRoute:
			routes = append(routes, x)
			s.Objs = append(s.Objs, o)
		default:
			s.Objs = append(s.Objs, o)
		}
	}
	for _, ns := range s.nss {
		for i := 0; i < 3; i++ {
			name := fmt.Sprintf("svc%d", i)
			var ports []int32
			switch k := r.Intn(20); {
			case k < 2:
				s.tag("svc:absent")
				continue
			case k < 10:
				ports = []int32{80}
			case k < 15:
				ports = []int32{80, 8080}
			case k < 18:
				ports = []int32{9090, 8080, 80}
			default:
				ports = []int32{9090}
			}
			s.tag(fmt.Sprintf("svc:ports=%d", len(ports)))
			s.Objs = append(s.Objs, p.Service(ns, name, ports...))
			if !r.Chance(15, 100) {
				s.Objs = append(s.Objs, p.EndpointSlice(ns, name, "s0", ports, fmt.Sprintf("10.1.%d.%d", i, r.Range(1, 9))))
			}
		}
	}
	for _, rt := range routes {
		for ri := range rt.Spec.Rules {
			rule := &rt.Spec.Rules[ri]
			rule.BackendRefs = nil
			if len(rule.Filters) > 0 {
				continue // RequestRedirect rule: no backendRefs in the fragment
			}
			n := rng.Pick(r, []int{0, 1, 1, 1, 2, 2, 3})
			s.tag(fmt.Sprintf("rule:refs=%d", n))
			for a := 0; a < n; a++ {
				hb, _ := s.refBackend(r, rt.Namespace)
				rule.BackendRefs = append(rule.BackendRefs, hb)
			}
		}
	}
	for i, c := range s.refs {
		if g := s.grantFor(r, c, i); g != nil {
			s.Objs = append(s.Objs, g)
		}
	}
	if r.Chance(20, 100) {
		// a grant nobody needs: for a namespace pair without reference, or for Secrets
		s.Objs = append(s.Objs, p.ReferenceGrant(rng.Pick(r, s.nss), "rg-unused",
			[]p.GrantFrom{{Group: gwGroup, Kind: rng.Pick(r, []string{"HTTPRoute", "Gateway"}), Namespace: rng.Pick(r, s.nss)}},
			[]p.GrantTo{{Kind: rng.Pick(r, []string{"Secret", "Service"}), Name: "unused"}}))
	}
	return s
}

// runRefs: scenario -> fresh controller -> one Apply; the line carries C02's flat view (for the fragment conversion
// of Model/PipelineTie.toFragment) and matches.json next to the usual C06 input/observation.
func runRefs(r *rng.R, n int) {
	panics := 0
	for i := 0; i < n && panics < 12; i++ {
		s := GenRefs(r.Fork())
		opts := p.DefaultOptions()
		_, out := p.RunFresh(s.Objs, opts, nil)
		obs := Observe(out, s.Objs, opts.Controller)
		fl := c02.Flatten(s.Objs, opts)
		refSvcs := []string{}
		if out.Graph != nil {
			for k := range out.Graph.ReferencedServices {
				refSvcs = append(refSvcs, k.Namespace+"/"+k.Name)
			}
		}
		sort.Strings(refSvcs)
		emit(line{K: "e2e", ID: fmt.Sprintf("r%d", i), In: Flatten(s.Objs), Obs: obs, Tags: s.Tags, Flat: &fl,
			Matches: p.FileText(out.Files, matchesJSON), RefSvcs: refSvcs})
		if out.Panic != "" {
			panics++
		}
	}
}

var _ client.Object = (*apiv1.Service)(nil)
