package c06

import (
	"fmt"
	"strings"

	apiv1 "k8s.io/api/core/v1"
	"k8s.io/apimachinery/pkg/types"
	"sigs.k8s.io/controller-runtime/pkg/client"
	gatewayv1 "sigs.k8s.io/gateway-api/apis/v1"
	"sigs.k8s.io/gateway-api/apis/v1beta1"

	p "github.com/nginx/nginx-gateway-fabric/verifharness/pipeline"
	"github.com/nginx/nginx-gateway-fabric/verifharness/rng"
)

const gwGroup = "gateway.networking.k8s.io"

var nsPool = []string{"default", "team-a", "team-b", "infra"}

// crossRef is one cross-namespace reference of the generated scenario: who refers to what.
type crossRef struct {
	fromKind, fromNS string
	toKind, toNS     string
	toName           string
}

// Scenario is a generated cluster state with generator statistics.
type Scenario struct {
	Objs []client.Object
	Tags map[string]int
	refs []crossRef
	nss  []string
}

func (s *Scenario) tag(t string) { s.Tags[t]++ }

func ptr[T any](v T) *T { return &v }

func other[T comparable](r *rng.R, xs []T, not T) T {
	var cand []T
	for _, x := range xs {
		if x != not {
			cand = append(cand, x)
		}
	}
	if len(cand) == 0 {
		return not
	}
	return rng.Pick(r, cand)
}

// properPrefix: a non-empty proper prefix of a name that is itself a legal name (`svc0` -> `svc`, `cert-a` -> `cert`).
func properPrefix(name string) string {
	n := name[:len(name)-1]
	for len(n) > 1 && n[len(n)-1] == '-' {
		n = n[:len(n)-1]
	}
	return n
}

// hyphenAligned finds another (namespace, name) pair with the same "namespace-name" concatenation: the last label of a
// hyphenated namespace moves into the name, or the first label of a hyphenated name moves into the namespace.
func hyphenAligned(ns, name string) (string, string, bool) {
	if i := strings.LastIndex(ns, "-"); i > 0 {
		return ns[:i], ns[i+1:] + "-" + name, true
	}
	if i := strings.Index(name, "-"); i > 0 {
		return ns + "-" + name[:i], name[i+1:], true
	}
	return "", "", false
}

// grantFor draws a ReferenceGrant for a cross-namespace reference: correct, or with exactly one
// near miss, optionally padded with decoy from/to entries (the cross product must not create a hit).
func (s *Scenario) grantFor(r *rng.R, c crossRef, idx int) *v1beta1.ReferenceGrant {
	from := p.GrantFrom{Group: gwGroup, Kind: c.fromKind, Namespace: c.fromNS}
	to := p.GrantTo{Group: "", Kind: c.toKind}
	ns := c.toNS
	emptyName := false
	kinds := []string{"Gateway", "HTTPRoute", "GRPCRoute", "TLSRoute"}
	variant := r.Intn(26)
	switch variant {
	case 0, 1, 2:
		s.tag("grant:exact-all-names")
	case 3, 4:
		to.Name = c.toName
		s.tag("grant:exact-named")
	case 5:
		to.Group = "core"
		s.tag("grant:to-group-core")
	case 6:
		emptyName = true
		s.tag("grant:to-name-empty-string")
	case 7:
		to.Name = other(r, []string{"svc0", "svc1", "cert-a", "cert-b", "zzz"}, c.toName)
		s.tag("miss:to-name")
	case 8:
		to.Group = rng.Pick(r, []string{"apps", "v1", gwGroup})
		if r.Bool() {
			to.Name = c.toName
		}
		s.tag("miss:to-group")
	case 9:
		to.Kind = map[string]string{"Service": "Secret", "Secret": "Service"}[c.toKind]
		if r.Chance(30, 100) {
			to.Kind = map[string]string{"Service": "service", "Secret": "Secrets"}[c.toKind]
		}
		s.tag("miss:to-kind")
	case 10:
		from.Group = rng.Pick(r, []string{"", "core", gwGroup + "/v1", "networking.k8s.io"})
		s.tag("miss:from-group")
	case 11, 12:
		from.Kind = other(r, kinds, c.fromKind)
		s.tag("miss:from-kind")
	case 13, 14:
		from.Namespace = other(r, s.nss, c.fromNS)
		s.tag("miss:from-namespace")
	case 15, 16:
		// grant placed in the wrong namespace: the referrer's, or a third one
		if r.Bool() {
			ns = c.fromNS
		} else {
			ns = other(r, s.nss, c.toNS)
		}
		if r.Bool() {
			to.Name = c.toName
		}
		s.tag("miss:grant-in-wrong-namespace")
	case 17:
		// two misses that would combine to a hit if from/to were matched independently of the grant
		s.tag("miss:split-over-two-grants")
		g1 := p.ReferenceGrant(c.toNS, fmt.Sprintf("rg%d-a", idx),
			[]p.GrantFrom{from}, []p.GrantTo{{Kind: map[string]string{"Service": "Secret", "Secret": "Service"}[c.toKind]}})
		s.Objs = append(s.Objs, g1)
		from.Namespace = other(r, s.nss, c.fromNS)
	case 18:
		// the REQUESTED name has the granted name as a proper prefix (grant for `svc`, reference to `svc0`)
		to.Name = properPrefix(c.toName)
		s.tag("miss:to-name-proper-prefix")
	case 19:
		// the granted name has the requested name as a proper prefix (grant for `svc0-internal`, reference to `svc0`)
		to.Name = c.toName + rng.Pick(r, []string{"-internal", "-admin", "0"})
		s.tag("miss:to-name-extension")
	case 20:
		// same length, last character differs
		to.Name = c.toName[:len(c.toName)-1] + "z"
		s.tag("miss:to-name-same-length")
	case 21, 22, 23:
		// namespace/name aligned around a hyphen: the grant sits in ANOTHER namespace N1 and names another object name1,
		// with N1 + "-" + name1 == toNS + "-" + toName (grant in `team` for `a-svc0` vs reference to `team-a/svc0`; grant in
		// `infra-cert` for `a` vs reference to `infra/cert-a`). It permits nothing for the reference.
		if n1, name1, ok := hyphenAligned(c.toNS, c.toName); ok {
			ns = n1
			to.Name = name1
			s.tag("miss:hyphen-aligned-namespace-name")
		} else {
			s.tag("grant:none")
			return nil
		}
	default:
		s.tag("grant:none")
		return nil
	}
	froms := []p.GrantFrom{from}
	tos := []p.GrantTo{to}
	if r.Chance(40, 100) {
		// decoys: entries for other kinds/namespaces/names that never match this reference
		s.tag("grant:multi-entry")
		nd := r.Range(1, 2)
		for i := 0; i < nd; i++ {
			d := p.GrantFrom{Group: gwGroup, Kind: other(r, kinds, c.fromKind), Namespace: rng.Pick(r, s.nss)}
			if r.Bool() {
				d = p.GrantFrom{Group: gwGroup, Kind: c.fromKind, Namespace: other(r, s.nss, c.fromNS)}
			}
			if d.Kind == c.fromKind && d.Namespace == c.fromNS {
				continue
			}
			if r.Bool() {
				froms = append(froms, d)
			} else {
				froms = append([]p.GrantFrom{d}, froms...)
			}
		}
		dt := p.GrantTo{Group: rng.Pick(r, []string{"", "core"}), Kind: c.toKind, Name: "decoy-name"}
		if r.Bool() {
			dt = p.GrantTo{Group: "apps", Kind: c.toKind}
		}
		if r.Bool() {
			tos = append(tos, dt)
		} else {
			tos = append([]p.GrantTo{dt}, tos...)
		}
	}
	g := p.ReferenceGrant(ns, fmt.Sprintf("rg%d", idx), froms, tos)
	if emptyName {
		for i := range g.Spec.To {
			if g.Spec.To[i].Name == nil && string(g.Spec.To[i].Group) != "apps" {
				g.Spec.To[i].Name = ptr(gatewayv1.ObjectName(""))
			}
		}
	}
	return g
}

// backend draws a backendRef for a route of kind in ns; records cross-namespace references.
func (s *Scenario) backend(r *rng.R, kind, ns string, pCross int) gatewayv1.BackendRef {
	svcNS := ns
	if r.Chance(pCross, 100) {
		svcNS = other(r, s.nss, ns)
	}
	name := rng.Pick(r, []string{"svc0", "svc1"})
	port := int32(80)
	if name == "svc1" && r.Bool() {
		port = 8080
	}
	b := gatewayv1.BackendRef{BackendObjectReference: gatewayv1.BackendObjectReference{
		Name: gatewayv1.ObjectName(name), Port: ptr(gatewayv1.PortNumber(port)),
	}}
	if svcNS != ns || r.Chance(30, 100) {
		b.Namespace = ptr(gatewayv1.Namespace(svcNS))
	}
	switch r.Intn(8) {
	case 0:
		b.Group = ptr(gatewayv1.Group("core"))
		b.Kind = ptr(gatewayv1.Kind("Service"))
	case 1:
		b.Group = ptr(gatewayv1.Group(""))
	case 2, 3, 4:
		b.Kind = ptr(gatewayv1.Kind("Service"))
	}
	switch r.Intn(6) {
	case 0:
		b.Weight = ptr(int32(rng.Pick(r, []int{0, 1, 2, 5, 50})))
	case 1:
		b.Weight = ptr(int32(1))
	}
	if svcNS != ns {
		s.tag("crossns-backend:" + kind)
		s.refs = append(s.refs, crossRef{kind, ns, "Service", svcNS, name})
	}
	return b
}

// GenCrossNS builds a scenario that is all about cross-namespace references: 2-4 namespaces, one or two
// Gateways (all listeners open to every namespace), routes of the three kinds with one unique path per
// rule, backends and certificates in other namespaces, and a grant (correct / near miss / none) per reference.
func GenCrossNS(r *rng.R) *Scenario {
	s := &Scenario{Tags: map[string]int{}}
	s.nss = append([]string{}, nsPool[:r.Range(2, 4)]...)
	rng.Shuffle(r, s.nss)
	s.tag(fmt.Sprintf("namespaces=%d", len(s.nss)))
	for _, ns := range s.nss {
		s.Objs = append(s.Objs, p.Namespace(ns, map[string]string{"kubernetes.io/metadata.name": ns}))
	}
	s.Objs = append(s.Objs, p.GatewayClass(p.DefaultClass, p.DefaultController, 0))

	certIdx := 0
	for _, ns := range s.nss {
		for _, sv := range []string{"svc0", "svc1"} {
			ports := []int32{80}
			if sv == "svc1" {
				ports = append(ports, 8080)
			}
			s.Objs = append(s.Objs, p.Service(ns, sv, ports...))
			s.Objs = append(s.Objs, p.EndpointSlice(ns, sv, "s0", ports, fmt.Sprintf("10.%d.%d.1", len(ns), len(s.Objs)%200)))
		}
		for _, c := range []string{"cert-a", "cert-b"} {
			certIdx++
			idx := certIdx
			if r.Chance(10, 100) {
				idx = 1 // same bytes as another secret
				s.tag("secret:shared-bytes")
			}
			s.Objs = append(s.Objs, p.TLSSecret(ns, c, idx))
		}
	}

	// gateways
	ngw := 1
	if r.Chance(20, 100) {
		ngw = 2
		s.tag("two-gateways")
	}
	var gwNS []string
	for g := 0; g < ngw; g++ {
		ns := rng.Pick(r, s.nss)
		gwNS = append(gwNS, ns)
		ls := []p.Listener{{Name: "http", Port: 80, Protocol: "HTTP", FromNS: "All"}}
		nhttps := r.Intn(3)
		for i := 0; i < nhttps; i++ {
			l := p.Listener{Name: fmt.Sprintf("https%d", i), Port: 443, Protocol: "HTTPS", FromNS: "All",
				Hostname: []string{"cafe.example.com", "foo.example.com"}[i]}
			ncert := 1
			if r.Chance(15, 100) {
				ncert = 2
				s.tag("listener:two-certrefs")
			}
			for k := 0; k < ncert; k++ {
				cns := ns
				if r.Chance(65, 100) {
					cns = other(r, s.nss, ns)
				}
				name := rng.Pick(r, []string{"cert-a", "cert-b"})
				ref := name
				if cns != ns || r.Chance(30, 100) {
					ref = cns + "/" + name
				}
				l.CertRefs = append(l.CertRefs, ref)
				if cns != ns {
					s.tag("crossns-cert")
					s.refs = append(s.refs, crossRef{"Gateway", ns, "Secret", cns, name})
				}
			}
			ls = append(ls, l)
		}
		if r.Chance(60, 100) {
			ls = append(ls, p.Listener{Name: "tls", Port: 8443, Protocol: "TLS", FromNS: "All", Hostname: "*.tls.example.com"})
		}
		s.Objs = append(s.Objs, p.Gateway(ns, fmt.Sprintf("gw%d", g), p.DefaultClass, 10+g, ls...))
	}
	parent := func() []gatewayv1.ParentReference {
		g := 0
		if ngw == 2 && r.Chance(25, 100) {
			g = 1
		}
		return []gatewayv1.ParentReference{p.ParentRef(gwNS[g], fmt.Sprintf("gw%d", g), "")}
	}

	// HTTPRoutes: one unique path per rule, so that a location of http.conf identifies its rule
	nh := r.Range(1, 3)
	hr0NS := ""
	for i := 0; i < nh; i++ {
		ns := rng.Pick(r, s.nss)
		if i == 0 {
			hr0NS = ns
		}
		var rules []gatewayv1.HTTPRouteRule
		nr := r.Range(1, 3)
		for j := 0; j < nr; j++ {
			rule := gatewayv1.HTTPRouteRule{Matches: []gatewayv1.HTTPRouteMatch{
				p.PathMatch(rng.Pick(r, []string{"Exact", "PathPrefix"}), fmt.Sprintf("/h%dr%d", i, j)),
			}}
			nb := rng.Pick(r, []int{1, 1, 1, 2, 2, 3})
			for k := 0; k < nb; k++ {
				rule.BackendRefs = append(rule.BackendRefs, gatewayv1.HTTPBackendRef{BackendRef: s.backend(r, "HTTPRoute", ns, 60)})
			}
			rules = append(rules, rule)
		}
		hn := []string{}
		if r.Chance(40, 100) {
			hn = []string{rng.Pick(r, []string{"cafe.example.com", "foo.example.com", "bar.example.com"})}
		}
		s.Objs = append(s.Objs, p.HTTPRoute(ns, fmt.Sprintf("hr%d", i), 20+i, parent(), hn, rules...))
	}
	// GRPCRoutes
	ng := r.Intn(3)
	for i := 0; i < ng; i++ {
		ns := rng.Pick(r, s.nss)
		name := fmt.Sprintf("gr%d", i)
		if i == 0 && r.Chance(8, 100) {
			name = "hr0" // same name as an HTTPRoute, usually in the same namespace
			if r.Chance(70, 100) {
				ns = hr0NS
			}
			s.tag("grpc-named-like-httproute")
		}
		var rules []gatewayv1.GRPCRouteRule
		nr := r.Range(1, 2)
		for j := 0; j < nr; j++ {
			rule := gatewayv1.GRPCRouteRule{Matches: []gatewayv1.GRPCRouteMatch{{Method: &gatewayv1.GRPCMethodMatch{
				Type: ptr(gatewayv1.GRPCMethodMatchExact), Service: ptr(fmt.Sprintf("pkg.S%d", i)), Method: ptr(fmt.Sprintf("M%d", j)),
			}}}}
			nb := rng.Pick(r, []int{1, 1, 2})
			for k := 0; k < nb; k++ {
				rule.BackendRefs = append(rule.BackendRefs, gatewayv1.GRPCBackendRef{BackendRef: s.backend(r, "GRPCRoute", ns, 60)})
			}
			rules = append(rules, rule)
		}
		s.Objs = append(s.Objs, p.GRPCRoute(ns, name, 30+i, parent(), nil, rules...))
	}
	// TLSRoutes
	nt := r.Intn(3)
	for i := 0; i < nt; i++ {
		ns := rng.Pick(r, s.nss)
		b := s.backend(r, "TLSRoute", ns, 65)
		tr := p.TLSRoute(ns, fmt.Sprintf("tr%d", i), 40+i, parent(), []string{fmt.Sprintf("t%d.tls.example.com", i)})
		tr.Spec.Rules[0].BackendRefs = []gatewayv1.BackendRef{b}
		s.Objs = append(s.Objs, tr)
	}

	// grants
	for i, c := range s.refs {
		if g := s.grantFor(r, c, i); g != nil {
			s.Objs = append(s.Objs, g)
		}
	}
	if r.Chance(15, 100) {
		// a blanket grant that covers a whole namespace pair for one kind
		from := rng.Pick(r, s.nss)
		to := other(r, s.nss, from)
		k := rng.Pick(r, []string{"HTTPRoute", "GRPCRoute", "TLSRoute", "Gateway"})
		tk := "Service"
		if k == "Gateway" {
			tk = "Secret"
		}
		s.Objs = append(s.Objs, p.ReferenceGrant(to, "rg-blanket", []p.GrantFrom{{Group: gwGroup, Kind: k, Namespace: from}}, []p.GrantTo{{Kind: tk}}))
		s.tag("grant:blanket")
	}
	return s
}

// ---------------------------------------------------------------- create / revoke sequences

// Event is one change delivered to the controller.
type Event struct {
	Upsert client.Object
	Delete client.Object // type + namespace/name are used
	Desc   string
}

// applyEvent keeps the list of cluster objects in step with the events.
func applyEvent(objs []client.Object, e Event) []client.Object {
	key := func(o client.Object) string { return p.KeyOf(o).String() }
	var k string
	if e.Upsert != nil {
		k = key(e.Upsert)
	} else {
		k = key(e.Delete)
	}
	out := make([]client.Object, 0, len(objs)+1)
	for _, o := range objs {
		if key(o) != k {
			out = append(out, o)
		}
	}
	if e.Upsert != nil {
		out = append(out, e.Upsert)
	}
	return out
}

func grantsOf(objs []client.Object) []*v1beta1.ReferenceGrant {
	var gs []*v1beta1.ReferenceGrant
	for _, o := range objs {
		if g, ok := o.(*v1beta1.ReferenceGrant); ok {
			gs = append(gs, g)
		}
	}
	return gs
}

// pickGen1 prefers a grant that still has the generation of a fresh object.
func pickGen1(r *rng.R, gs []*v1beta1.ReferenceGrant) *v1beta1.ReferenceGrant {
	var fresh []*v1beta1.ReferenceGrant
	for _, g := range gs {
		if g.Generation == 1 {
			fresh = append(fresh, g)
		}
	}
	if len(fresh) > 0 {
		return rng.Pick(r, fresh)
	}
	return rng.Pick(r, gs)
}

// narrow changes the spec of a grant so that it no longer permits what it permitted.
func (s *Scenario) narrow(r *rng.R, g *v1beta1.ReferenceGrant) {
	switch r.Intn(4) {
	case 0:
		for i := range g.Spec.To {
			g.Spec.To[i].Name = ptr(gatewayv1.ObjectName("only-this"))
		}
		s.tag("ev:restrict-name")
	case 1:
		for i := range g.Spec.From {
			g.Spec.From[i].Namespace = gatewayv1.Namespace(other(r, s.nss, string(g.Spec.From[i].Namespace)))
		}
		s.tag("ev:change-from-ns")
	case 2:
		for i := range g.Spec.From {
			g.Spec.From[i].Kind = gatewayv1.Kind(other(r, []string{"Gateway", "HTTPRoute", "GRPCRoute", "TLSRoute"}, string(g.Spec.From[i].Kind)))
		}
		s.tag("ev:change-from-kind")
	default:
		g.Spec.To = g.Spec.To[:len(g.Spec.To)-1]
		if len(g.Spec.To) == 0 {
			g.Spec.To = []v1beta1.ReferenceGrantTo{{Kind: "ConfigMap"}}
		}
		s.tag("ev:drop-to-entry")
	}
}

// nextEvents draws the events of one step of a sequence: mostly grant revocations, restrictions,
// (re-)creations, sometimes together with an irrelevant event.
func (s *Scenario) nextEvents(r *rng.R, objs []client.Object, removed *[]*v1beta1.ReferenceGrant, step int) []Event {
	var evs []Event
	gs := grantsOf(objs)
	k := r.Intn(15)
	switch {
	case k >= 10 && len(gs) > 0:
		// history shapes around delete-and-recreate (kubectl replace --force, GitOps prune+apply)
		g := pickGen1(r, gs).DeepCopy()
		switch k {
		case 10, 11:
			// delete + re-create under the same name, coalesced by the workqueue into ONE upsert: new UID, another
			// spec, and - like every fresh object - generation 1 again
			g.UID = types.UID(fmt.Sprintf("recreated-%d", step))
			g.Generation = 1
			s.narrow(r, g)
			evs = append(evs, Event{Upsert: g, Desc: "replace (delete+create coalesced into one upsert, generation 1 again) " + g.Namespace + "/" + g.Name})
			s.tag("ev:replace-coalesced")
		case 12:
			// the spec is replaced, metadata.generation is what the stored object has
			s.narrow(r, g)
			evs = append(evs, Event{Upsert: g, Desc: "same-generation spec replacement " + g.Namespace + "/" + g.Name})
			s.tag("ev:same-generation-replacement")
		case 13:
			// delete and re-create (another spec) delivered as two events of one batch
			old := g.DeepCopy()
			g.UID = types.UID(fmt.Sprintf("recreated-%d", step))
			g.Generation = 1
			s.narrow(r, g)
			evs = append(evs, Event{Delete: old, Desc: "delete " + g.Namespace + "/" + g.Name},
				Event{Upsert: g, Desc: "re-create with another spec " + g.Namespace + "/" + g.Name})
			s.tag("ev:delete-recreate-one-batch")
		default:
			// the grant moves to another namespace keeping its name (where it permits nothing for its old targets)
			old := g.DeepCopy()
			g.Namespace = other(r, s.nss, g.Namespace)
			g.UID = types.UID(fmt.Sprintf("moved-%d", step))
			g.Generation = 1
			if r.Bool() {
				evs = append(evs, Event{Upsert: g, Desc: "create " + g.Namespace + "/" + g.Name}, Event{Delete: old, Desc: "delete " + old.Namespace + "/" + old.Name})
			} else {
				evs = append(evs, Event{Delete: old, Desc: "delete " + old.Namespace + "/" + old.Name}, Event{Upsert: g, Desc: "create " + g.Namespace + "/" + g.Name})
			}
			s.tag("ev:move-namespace")
		}
	case k < 4 && len(gs) > 0:
		g := rng.Pick(r, gs)
		*removed = append(*removed, g)
		evs = append(evs, Event{Delete: g, Desc: "revoke " + g.Namespace + "/" + g.Name})
		s.tag("ev:revoke")
	case k < 6 && len(gs) > 0:
		// restrict or retarget an existing grant (a regular update: the API server bumps the generation)
		g := rng.Pick(r, gs).DeepCopy()
		g.Generation++
		s.narrow(r, g)
		evs = append(evs, Event{Upsert: g, Desc: "modify " + g.Namespace + "/" + g.Name})
	case k < 8 && len(*removed) > 0:
		g := (*removed)[len(*removed)-1]
		*removed = (*removed)[:len(*removed)-1]
		evs = append(evs, Event{Upsert: g, Desc: "re-create " + g.Namespace + "/" + g.Name})
		s.tag("ev:recreate")
	case len(s.refs) > 0:
		c := rng.Pick(r, s.refs)
		g := p.ReferenceGrant(c.toNS, fmt.Sprintf("rg-new%d", step),
			[]p.GrantFrom{{Group: gwGroup, Kind: c.fromKind, Namespace: c.fromNS}}, []p.GrantTo{{Kind: c.toKind}})
		evs = append(evs, Event{Upsert: g, Desc: "grant " + g.Namespace + "/" + g.Name})
		s.tag("ev:new-grant")
	default:
		evs = append(evs, Event{Delete: p.ReferenceGrant("default", "absent", nil, nil), Desc: "delete absent grant"})
		s.tag("ev:delete-absent")
	}
	if r.Chance(20, 100) {
		// an event the change processor filters out (unreferenced Secret)
		sec := p.TLSSecret(rng.Pick(r, s.nss), "unused", 40)
		sec.Type = apiv1.SecretTypeTLS
		evs = append(evs, Event{Upsert: sec, Desc: "unreferenced secret"})
		s.tag("ev:irrelevant")
	}
	return evs
}
