// Package rng is the single source of randomness of the harness: one splitmix64 state derived
// from VERIF_SEED, so that every generated case replays exactly.
package rng

type R struct{ s uint64 }

// New mixes the seed through the splitmix64 finaliser so that nearby seeds give unrelated streams
// (a plain multiple of the increment would make New(s) and New(s+1) shifted copies of one stream).
func New(seed uint64) *R {
	z := seed + 0x632BE59BD9B4E019
	z = (z ^ (z >> 30)) * 0xBF58476D1CE4E5B9
	z = (z ^ (z >> 27)) * 0x94D049BB133111EB
	return &R{s: z ^ (z >> 31)}
}

func (r *R) U64() uint64 {
	r.s += 0x9E3779B97F4A7C15
	z := r.s
	z = (z ^ (z >> 30)) * 0xBF58476D1CE4E5B9
	z = (z ^ (z >> 27)) * 0x94D049BB133111EB
	return z ^ (z >> 31)
}

// Intn returns a value in [0,n).
func (r *R) Intn(n int) int {
	if n <= 0 {
		return 0
	}
	return int(r.U64() % uint64(n))
}

// Range returns a value in [lo,hi].
func (r *R) Range(lo, hi int) int { return lo + r.Intn(hi-lo+1) }

func (r *R) Bool() bool { return r.U64()&1 == 1 }

// Chance returns true with probability num/den.
func (r *R) Chance(num, den int) bool { return r.Intn(den) < num }

func Pick[T any](r *R, xs []T) T { return xs[r.Intn(len(xs))] }

func Shuffle[T any](r *R, xs []T) {
	for i := len(xs) - 1; i > 0; i-- {
		j := r.Intn(i + 1)
		xs[i], xs[j] = xs[j], xs[i]
	}
}

// Fork derives an independent stream (for per-case seeds).
func (r *R) Fork() *R { return New(r.U64()) }
