package main

import (
	"os"

	"github.com/nginx/nginx-gateway-fabric/verifharness/c08"
)

func main() { os.Exit(c08.Run(os.Args[1:])) }
