// c14: conflict resolution by age then name, independent of arrival and map order (DESIGN.md §6 C14).
//
//	c14 -seed N -n SCENARIOS -reps K [-families 0123] [-dump I] [-replay file.json]
package main

import (
	"flag"
	"fmt"
	"os"

	"github.com/nginx/nginx-gateway-fabric/verifharness/c14"
	"github.com/nginx/nginx-gateway-fabric/verifharness/rng"
)

func main() {
	var cfg c14.Config
	flag.Uint64Var(&cfg.Seed, "seed", 1, "")
	flag.IntVar(&cfg.N, "n", 200, "scenarios")
	flag.IntVar(&cfg.Reps, "reps", 8, "builds per scenario")
	flag.StringVar(&cfg.Families, "families", "", "family digits, cycled (default mix)")
	flag.BoolVar(&cfg.PermAll, "permall", false, "repetitions = all arrival permutations of up to five competitors")
	flag.BoolVar(&cfg.Pipeline, "pipeline", false, "stream `pipe`: in-fragment scenarios (harness/c02 generator) in several arrival orders")
	flag.IntVar(&cfg.Orders, "orders", 4, "arrival orders per scenario (stream pipe)")
	flag.IntVar(&cfg.Only, "only", -1, "stream pipe: emit only scenario I, with its objects")
	layers := flag.Bool("pipelayers", false, "stream `pipe`, layered families refs / tls / base (references, endpoints, TLS, statuses per arrival order)")
	dump := flag.Int("dump", -1, "print the objects of scenario I as JSON and exit")
	mkcorpus := flag.String("mkcorpus", "", "write the hand-built regression scenarios into this directory and exit")
	replay := flag.String("replay", "", "run one scenario from a JSON array of objects")
	flag.Parse()
	if *mkcorpus != "" {
		for name, objs := range c14.Corpus() {
			if err := os.WriteFile(*mkcorpus+"/"+name+".json", []byte(c14.Encode(objs)+"\n"), 0o644); err != nil {
				fmt.Fprintln(os.Stderr, err)
				os.Exit(2)
			}
		}
		return
	}
	if *layers {
		c14.RunPipeLayers(cfg, os.Stdout)
		return
	}
	if cfg.Pipeline {
		c14.RunPipeline(cfg, os.Stdout)
		return
	}
	if *replay != "" {
		b, err := os.ReadFile(*replay)
		if err != nil {
			fmt.Fprintln(os.Stderr, err)
			os.Exit(2)
		}
		cfg.Corpus = string(b)
	}
	if *dump >= 0 {
		r := rng.New(cfg.Seed)
		for i := 0; i <= *dump; i++ {
			fam := c14.FamOf(cfg, i)
			s := c14.Generate(r.Fork(), fam)
			r.Fork()
			if i == *dump {
				fmt.Println(c14.Encode(s.Objs))
			}
		}
		return
	}
	c14.Run(cfg, os.Stdout)
}
