package main

import (
	"os"

	"github.com/nginx/nginx-gateway-fabric/verifharness/c15"
)

func main() { os.Exit(c15.Run(os.Args[1:])) }
