package main

import (
	"os"

	"github.com/nginx/nginx-gateway-fabric/verifharness/c18"
)

func main() { os.Exit(c18.Run(os.Args[1:])) }
