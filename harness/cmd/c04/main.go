// c04: harness of property C04.
//
//	c04 -mode search [-seed N] [-thorough] [-stride K] [-combos K] [-only substr]
//	   B/P lines for the Lean judge (tab separated, see harness/c04/run.go), M lines (JSON meta) for the plugin
//	c04 -mode regex [-seed N] [-n K]
//	   validator correspondence: "V\t<validator>\t<escaped string>\t<0|1>" (1 = the real validator accepts)
//	c04 -mode print [-seed N] [-n K] [-stride K] [-scen I] [-site S]
//	   fragment scenarios with hostile values in every guarded field, through the real pipeline: JSON lines for the
//	   Lean driver mode `print` (see harness/c04/print.go)
//	c04 -mode pairs [-seed N] [-n perGroup] [-workers K] [-only substr]
//	   the same hostile value in two leaves guarded by different validators of one family, one and two batches, every
//	   scenario run twice in one process (see harness/c04/pairs.go): F/B/P/M lines for the judge, D lines (divergence), S
//	c04 -mode leaves      list the enumerated leaves
//	c04 -mode probe -base http -only <leaf path substring> -value <string>   show what one value does (replay aid)
package main

import (
	"bufio"
	"flag"
	"fmt"
	"os"
	"sort"

	"github.com/nginx/nginx-gateway-fabric/verifharness/c04"
)

func main() {
	mode := flag.String("mode", "search", "")
	seed := flag.Uint64("seed", 1, "")
	thorough := flag.Bool("thorough", false, "")
	stride := flag.Int("stride", 1, "")
	combos := flag.Int("combos", 1, "")
	only := flag.String("only", "", "")
	n := flag.Int("n", 2000, "")
	base := flag.String("base", "http", "")
	value := flag.String("value", "", "")
	workers := flag.Int("workers", 4, "")
	levels := flag.Int("levels", 3, "")
	scen := flag.Int("scen", -1, "")
	siteName := flag.String("site", "", "")
	flag.Parse()
	w := bufio.NewWriterSize(os.Stdout, 1<<20)
	defer w.Flush()
	switch *mode {
	case "search":
		st := c04.Search(w, c04.Config{Seed: *seed, Thorough: *thorough, Combos: *combos, Only: *only, Stride: *stride, Workers: *workers, Levels: *levels})
		keys := make([]string, 0, len(st))
		for k := range st {
			keys = append(keys, k)
		}
		sort.Strings(keys)
		for _, k := range keys {
			fmt.Fprintf(w, "S\t%s\t%d\n", k, st[k])
		}
	case "regex":
		c04.Validators(w, *seed, *n)
	case "pairs":
		c04.Pairs(w, *seed, *n, *workers, *only)
	case "print":
		c04.Print(w, *seed, *n, *stride, *scen, *siteName)
	case "probe":
		w.Flush()
		c04.Probe(*base, *only, *value)
	case "leaves":
		for _, b := range c04.Bases() {
			for _, l := range c04.Leaves(b.Objs) {
				fmt.Fprintf(w, "%s\t%s\t%s\t%q\n", b.Name, l.Path, l.Type, l.Value)
			}
		}
	default:
		fmt.Fprintln(os.Stderr, "unknown mode")
		os.Exit(2)
	}
}
