package main

import (
	"os"

	"github.com/nginx/nginx-gateway-fabric/verifharness/c20"
)

func main() { os.Exit(c20.Run(os.Args[1:])) }
