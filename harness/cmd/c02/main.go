package main

import (
	"os"

	"github.com/nginx/nginx-gateway-fabric/verifharness/c02"
)

func main() { os.Exit(c02.Run(os.Args[1:])) }
