// pipesmoke: smoke test of the pipeline + scen packages (not a registered check).
//   pipesmoke [-seed N] [-n K] [-show]
package main

import (
	"flag"
	"fmt"
	"sort"

	p "github.com/nginx/nginx-gateway-fabric/verifharness/pipeline"
	"github.com/nginx/nginx-gateway-fabric/verifharness/rng"
	"github.com/nginx/nginx-gateway-fabric/verifharness/scen"
)

func main() {
	seed := flag.Uint64("seed", 1, "")
	n := flag.Int("n", 50, "")
	show := flag.Bool("show", false, "print files of the first scenario")
	flag.Parse()
	r := rng.New(*seed)
	tags := map[string]int{}
	panics := map[string]int{}
	for i := 0; i < *n; i++ {
		s := scen.Generate(r.Fork(), scen.DefaultConfig())
		for k, v := range s.Tags {
			tags[k] += v
		}
		_, out := p.RunFresh(s.Objs, s.Opts, nil)
		if out.Panic != "" {
			panics[p.PanicSite(out.Panic)]++
			if panics[p.PanicSite(out.Panic)] == 1 {
				fmt.Println("PANIC", out.Panic[:600])
			}
			continue
		}
		if *show && i == 0 {
			fmt.Println(s.Describe())
			for _, f := range p.SortedFiles(out.Files) {
				if f.Type == 0 {
					fmt.Println("====", f.Path)
					fmt.Println(string(f.Content))
				}
			}
			_, w, t := p.ApplyStatuses(out.Requests, s.Objs)
			fmt.Println(t, w)
		}
		if out.Conf != nil {
			tags[fmt.Sprintf("servers=%d", min(len(out.Conf.HTTPServers)+len(out.Conf.SSLServers), 8))]++
		} else {
			tags["noconf"]++
		}
	}
	keys := make([]string, 0, len(tags))
	for k := range tags {
		keys = append(keys, k)
	}
	sort.Strings(keys)
	for _, k := range keys {
		fmt.Printf("%s=%d ", k, tags[k])
	}
	fmt.Println()
	fmt.Println("panics:", panics)
}
