package main

import (
	"os"

	"github.com/nginx/nginx-gateway-fabric/verifharness/c16"
)

func main() { os.Exit(c16.Run(os.Args[1:])) }
