package main

import (
	"os"

	"github.com/nginx/nginx-gateway-fabric/verifharness/c17"
)

func main() { os.Exit(c17.Run(os.Args[1:])) }
