package main

import (
	"os"

	"github.com/nginx/nginx-gateway-fabric/verifharness/c01"
)

func main() { os.Exit(c01.Run(os.Args[1:])) }
