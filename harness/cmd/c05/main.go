package main

import (
	"os"

	"github.com/nginx/nginx-gateway-fabric/verifharness/c05"
)

func main() { os.Exit(c05.Run(os.Args[1:])) }
