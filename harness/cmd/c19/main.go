package main

import (
	"fmt"

	"github.com/nginx/nginx-gateway-fabric/internal/mode/static/telemetry"
)

func main() { fmt.Println(telemetry.Data{}) }
