package main

import (
	"os"

	"github.com/nginx/nginx-gateway-fabric/verifharness/c19"
)

func main() { os.Exit(c19.Run(os.Args[1:])) }
