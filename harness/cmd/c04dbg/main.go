package main

import (
	"fmt"

	"github.com/nginx/nginx-gateway-fabric/verifharness/c04"
)

func main() {
	for _, b := range c04.Bases() {
		fmt.Println("=====", b.Name)
		c04.Dump(b)
	}
}
