package main

import (
	"os"

	"github.com/nginx/nginx-gateway-fabric/verifharness/c13"
)

func main() { os.Exit(c13.Run(os.Args[1:])) }
