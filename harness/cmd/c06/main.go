package main

import (
	"os"

	"github.com/nginx/nginx-gateway-fabric/verifharness/c06"
)

func main() { os.Exit(c06.Run(os.Args[1:])) }
