package main

import (
	"os"

	"github.com/nginx/nginx-gateway-fabric/verifharness/c03"
)

func main() { os.Exit(c03.Run(os.Args[1:])) }
