// c07: runs the real pipeline on generated cluster states x reload outcomes and prints one JSON line per case
// (see harness/c07/run.go).
//
//	c07 -seed N -n K            generated scenarios (each with reload ok and reload failed)
//	c07 -seed N -only I -dump   print the objects of scenario I as a JSON array (corpus / replay format)
//	c07 -objs file.json         run the objects stored in file.json (one JSON array)
//	c07 -seed N -hseq K [-hb B] K batch sequences through the REAL eventHandlerImpl.HandleEventBatch (one line per batch)
//	c07 -seed N -frag K         K scenarios inside the fragment of Model/Pipeline.lean (lines carry the flat scenario "flat")
//	c07 -mkcorpus dir           (re)write the hand-minimised corpus scenarios
package main

import (
	"bufio"
	"encoding/json"
	"flag"
	"fmt"
	"os"

	"github.com/nginx/nginx-gateway-fabric/verifharness/c07"
	p "github.com/nginx/nginx-gateway-fabric/verifharness/pipeline"
	"github.com/nginx/nginx-gateway-fabric/verifharness/rng"
)

func main() {
	seed := flag.Uint64("seed", 1, "")
	n := flag.Int("n", 100, "")
	only := flag.Int("only", -1, "generate only scenario I")
	dump := flag.Bool("dump", false, "print the objects instead of running")
	objsFile := flag.String("objs", "", "run the objects of this file")
	hseq := flag.Int("hseq", 0, "number of batch sequences driven through the REAL eventHandlerImpl (instead of -n scenarios)")
	hb := flag.Int("hb", 5, "maximum number of batches per sequence")
	tlsN := flag.Int("tls", 0, "number of scenarios of the TLS layer of the pipeline model (lines carry \"flat\" and \"secrets\")")
	frag := flag.Int("frag", 0, "number of scenarios inside the Pipeline fragment (instead of -n scenarios); lines carry \"flat\"")
	mkcorpus := flag.String("mkcorpus", "", "write the hand-minimised corpus scenarios into this directory")
	flag.Parse()

	if *mkcorpus != "" {
		for name, objs := range c07.Minimal() {
			if err := os.WriteFile(*mkcorpus+"/"+name+".json", append(p.EncodeObjects(objs), '\n'), 0o644); err != nil {
				fmt.Fprintln(os.Stderr, err)
				os.Exit(2)
			}
		}
		return
	}

	w := bufio.NewWriterSize(os.Stdout, 1<<20)
	defer w.Flush()
	emit := func(l c07.Line) {
		b, err := json.Marshal(l)
		if err != nil {
			panic(err)
		}
		w.Write(b)
		w.WriteByte('\n')
		w.Flush()
	}

	if *objsFile != "" {
		data, err := os.ReadFile(*objsFile)
		if err != nil {
			fmt.Fprintln(os.Stderr, err)
			os.Exit(2)
		}
		objs, err := p.DecodeObjects(data)
		if err != nil {
			fmt.Fprintln(os.Stderr, err)
			os.Exit(2)
		}
		for _, fail := range []bool{false, true} {
			emit(c07.Run(fmt.Sprintf("file:%s:%v", *objsFile, fail), objs, p.DefaultOptions(), fail, nil))
		}
		return
	}

	// rng.New(S+1) is rng.New(S) advanced by one draw, so consecutive seeds would replay each other's scenarios shifted
	// by one; derive the stream from a mixed value instead.
	r := rng.New(rng.New(*seed).U64() ^ 0xC07)
	if *tlsN > 0 {
		// TLS fragment stream: scenarios of Model/PipelineTls.lean (HTTPS listeners, Secrets, port conflicts); lines carry "flat" + "secrets"
		fr := rng.New(rng.New(*seed).U64() ^ 0x7150)
		for i := 0; i < *tlsN; i++ {
			s := c07.GenerateFragmentTLS(fr.Fork())
			if *only >= 0 && i != *only {
				continue
			}
			if *dump {
				w.Write(p.EncodeObjects(s.Objs))
				w.WriteByte('\n')
				continue
			}
			fails := []bool{false}
			if i%5 == 0 {
				fails = append(fails, true)
			}
			for _, fail := range fails {
				suffix := "ok"
				if fail {
					suffix = "err"
				}
				emit(c07.RunFragmentTLS(fmt.Sprintf("t%d-%d-%s", *seed, i, suffix), s, fail))
			}
		}
		return
	}
	if *frag > 0 {
		// fragment stream: scenarios inside the fragment of Model/Pipeline.lean, each line carries the flat scenario
		fr := rng.New(rng.New(*seed).U64() ^ 0xF4A6)
		panics := 0
		for i := 0; i < *frag; i++ {
			s := c07.GenerateFragment(fr.Fork())
			if *only >= 0 && i != *only {
				continue
			}
			if *dump {
				w.Write(p.EncodeObjects(s.Objs))
				w.WriteByte('\n')
				continue
			}
			// mostly reload ok (the truth theorems speak about the served configuration), every fourth case also failed
			fails := []bool{false}
			if i%4 == 0 {
				fails = append(fails, true)
			}
			for _, fail := range fails {
				suffix := "ok"
				if fail {
					suffix = "err"
				}
				l := c07.RunFragment(fmt.Sprintf("f%d-%d-%s", *seed, i, suffix), s, fail)
				emit(l)
				if l.Panic != "" {
					panics++
				}
			}
			if panics > 12 {
				fmt.Fprintln(os.Stderr, "too many panics, stopping")
				break
			}
		}
		return
	}
	if *hseq > 0 {
		panics := 0
		for i := 0; i < *hseq; i++ {
			fr := r.Fork()
			s := c07.Generate(fr)
			if *only >= 0 && i != *only {
				continue
			}
			c07.RunSequence(fmt.Sprintf("h%d-%d", *seed, i), s, fr, fr.Range(2, *hb), func(l c07.Line) {
				emit(l)
				if l.Panic != "" {
					panics++
				}
			})
			if panics > 12 {
				fmt.Fprintln(os.Stderr, "too many panics, stopping")
				break
			}
		}
		return
	}
	panics := 0
	for i := 0; i < *n; i++ {
		s := c07.Generate(r.Fork())
		if *only >= 0 && i != *only {
			continue
		}
		if *dump {
			w.Write(p.EncodeObjects(s.Objs))
			w.WriteByte('\n')
			continue
		}
		for _, fail := range []bool{false, true} {
			suffix := "ok"
			if fail {
				suffix = "err"
			}
			l := c07.Run(fmt.Sprintf("s%d-%d-%s", *seed, i, suffix), s.Objs, s.Opts, fail, s.Tags)
			emit(l)
			if l.Panic != "" {
				panics++
			}
		}
		if panics > 12 {
			fmt.Fprintln(os.Stderr, "too many panics, stopping")
			break
		}
	}
}
