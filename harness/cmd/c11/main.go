package main

import (
	"os"

	"github.com/nginx/nginx-gateway-fabric/verifharness/c11"
)

func main() { os.Exit(c11.Run(os.Args[1:])) }
