package main

import (
	"os"

	"github.com/nginx/nginx-gateway-fabric/verifharness/c10"
)

func main() { os.Exit(c10.Run(os.Args[1:])) }
