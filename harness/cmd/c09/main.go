package main

import (
	"os"

	"github.com/nginx/nginx-gateway-fabric/verifharness/c09"
)

func main() { os.Exit(c09.Run(os.Args[1:])) }
