package main

import (
	"os"

	"github.com/nginx/nginx-gateway-fabric/verifharness/c12"
)

func main() { os.Exit(c12.Run(os.Args[1:])) }
