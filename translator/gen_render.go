package main

import (
	"go/ast"
	"strings"
)

func init() { register("RenderFacts", genRender) }

// templateLines: the non-blank lines of a template text, whitespace-trimmed (what the parsed directives can depend on).
func templateLines(text string) []string {
	var out []string
	for _, l := range strings.Split(text, "\n") {
		l = strings.Join(strings.Fields(l), " ")
		if l != "" {
			out = append(out, l)
		}
	}
	return out
}

// headerLits: the {Name: "...", Value: "..."} composite literals under n, in source order, as "Name: Value".
func headerLits(s *srcFile, n ast.Node) []string {
	var out []string
	walk(n, func(x ast.Node) bool {
		cl, ok := x.(*ast.CompositeLit)
		if !ok {
			return true
		}
		name, value, have := "", "", 0
		for _, e := range cl.Elts {
			kv, ok := e.(*ast.KeyValueExpr)
			if !ok {
				return true
			}
			switch s.text(kv.Key) {
			case "Name":
				name = s.strValue(kv.Value)
				have |= 1
			case "Value":
				value = s.strValue(kv.Value)
				have |= 2
			}
		}
		if have == 3 {
			out = append(out, name+": "+value)
			return false
		}
		return true
	})
	return out
}

// C03 stage 2 (Model/Render.lean): the templates and the statements of the Go functions that `render` / `genR` mirror.
func genRender() {
	m := newModule("RenderFacts", "RenderFacts")
	cfg := "internal/mode/static/nginx/config/"

	st := src(cfg + "servers_template.go")
	m.strs("serversTemplate", templateLines(st.strConst("serversTemplateText")), "serversTemplateText: non-blank lines, whitespace-normalised")
	sc := src(cfg + "split_clients_template.go")
	m.strs("splitClientsTemplate", templateLines(sc.strConst("splitClientsTemplateText")), "splitClientsTemplateText likewise")

	sv := src(cfg + "servers.go")
	m.strs("baseProxySetHeaders", headerLits(sv, sv.fn("", "createBaseProxySetHeaders").Body), "createBaseProxySetHeaders: Name: Value")
	m.strs("upgradeHeader", headerLits(sv, sv.valueSpec("httpUpgradeHeader")), "httpUpgradeHeader")
	m.strs("connectionHeader", headerLits(sv, sv.valueSpec("httpConnectionHeader")), "httpConnectionHeader")
	var keyExpr []string
	walk(sv.fn("", "createLocations").Body, func(n ast.Node) bool {
		if as, ok := n.(*ast.AssignStmt); ok && len(as.Lhs) == 1 && sv.text(as.Lhs[0]) == "httpMatchKey" {
			keyExpr = append(keyExpr, sv.text(as.Rhs[0]))
		}
		return true
	})
	m.strs("matchKeyExpr", keyExpr, "httpMatchKey := … in createLocations")
	var sids []string
	walk(sv.fn("", "createServers").Body, func(n ast.Node) bool {
		if as, ok := n.(*ast.AssignStmt); ok && len(as.Lhs) == 1 && sv.text(as.Lhs[0]) == "serverID" {
			sids = append(sids, sv.text(as.Rhs[0]))
		}
		return true
	})
	m.strs("serverIDExprs", sids, "serverID := … in createServers (HTTP servers, then SSL servers)")
	m.strs("createProxyPassBody", sv.stmts(sv.fn("", "createProxyPass").Body), "")
	m.strs("redirectFilterBody", sv.stmts(sv.fn("", "createReturnAndRewriteConfigForRedirectFilter").Body), "")
	m.strs("needsInternalLocationsBody", sv.stmts(sv.fn("", "needsInternalLocations").Body), "")
	m.strs("createDefaultRootLocationBody", sv.stmts(sv.fn("", "createDefaultRootLocation").Body), "")
	m.strs("createMatchLocationBody", sv.stmts(sv.fn("", "createMatchLocation").Body), "")
	m.strs("getIPFamilyBody", sv.stmts(sv.fn("", "getIPFamily").Body), "")

	sp := src(cfg + "split_clients.go")
	m.strs("backendGroupNameBody", sp.stmts(sp.fn("", "backendGroupName").Body), "")
	m.strs("backendGroupNeedsSplitBody", sp.stmts(sp.fn("", "backendGroupNeedsSplit").Body), "")
	m.strs("createSplitClientsBody", sp.stmts(sp.fn("", "createSplitClients").Body), "")

	up := src(cfg + "upstreams.go")
	m.str("invalidBackendRef", up.strConst("invalidBackendRef"), "")
	m.str("nginx503Server", up.strConst("nginx503Server"), "")
	m.str("nginx500Server", up.strConst("nginx500Server"), "")

	dc := src("internal/mode/static/state/dataplane/configuration.go")
	// the `less` functions of the two sort.Slice calls in hostPathRules.buildServers (path rules, servers)
	var sorts []string
	for _, c := range dc.calls(dc.fn("hostPathRules", "buildServers").Body, "sort.Slice") {
		if fl, ok := c.Args[1].(*ast.FuncLit); ok {
			sorts = append(sorts, strings.Join(dc.stmts(fl.Body), " ; "))
		}
	}
	m.strs("buildServersSorts", sorts, "bodies of the less functions of sort.Slice in hostPathRules.buildServers")
	m.strs("buildBackendGroupsBody", dc.stmts(dc.fn("", "buildBackendGroups").Body), "")
	var groupArgs []string
	for _, c := range dc.calls(dc.fn("hostPathRules", "upsertRoute").Body, "newBackendGroup") {
		for _, a := range c.Args {
			groupArgs = append(groupArgs, dc.text(a))
		}
	}
	m.strs("newBackendGroupArgs", groupArgs, "arguments of newBackendGroup in upsertRoute (backend refs, route NsName, rule index)")
	dt := src("internal/mode/static/state/dataplane/types.go")
	m.str("pathTypeExact", dt.strConst("PathTypeExact"), "")
	m.str("pathTypePrefix", dt.strConst("PathTypePrefix"), "")
}
