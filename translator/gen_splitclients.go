package main

import (
	"go/ast"
	"go/token"
	"strings"
	"text/template/parse"
)

func init() { register("SplitFacts", genSplitClients) }

// C15: split_clients generation — template text, format verbs, the arithmetic of percentOf and the
// remainder accumulation as statement text, weight range and defaulting in createBackendRef.
func genSplitClients() {
	m := newModule("SplitFacts", "SplitClients")
	s := src("internal/mode/static/nginx/config/split_clients.go")
	t := src("internal/mode/static/nginx/config/split_clients_template.go")
	u := src("internal/mode/static/nginx/config/upstreams.go")
	sv := src("internal/mode/static/nginx/config/servers.go")
	vn := src("internal/mode/static/nginx/config/variable_names.go")
	br := src("internal/mode/static/state/graph/backend_refs.go")
	dt := src("internal/mode/static/state/dataplane/types.go")

	tmpl := t.strConst("splitClientsTemplateText")
	m.str("templateText", tmpl, "splitClientsTemplateText")

	// the literals the template compares $d.Percent with, and the pipeline shape
	var eqLits, fields []string
	trees, err := parse.Parse("split_clients", tmpl, "{{", "}}", map[string]any{"eq": 0})
	if err != nil {
		fail("SplitFacts: template does not parse: %v", err)
	} else {
		var visit func(n parse.Node)
		visit = func(n parse.Node) {
			switch x := n.(type) {
			case *parse.ListNode:
				if x != nil {
					for _, c := range x.Nodes {
						visit(c)
					}
				}
			case *parse.RangeNode:
				fields = append(fields, "range "+x.Pipe.String())
				visit(x.List)
				visit(x.ElseList)
			case *parse.IfNode:
				fields = append(fields, "if "+x.Pipe.String())
				for _, c := range x.Pipe.Cmds {
					if len(c.Args) > 0 && c.Args[0].String() == "eq" {
						for _, a := range c.Args[1:] {
							if sn, ok := a.(*parse.StringNode); ok {
								eqLits = append(eqLits, sn.Text)
							}
						}
					}
				}
				visit(x.List)
				visit(x.ElseList)
			case *parse.ActionNode:
				fields = append(fields, x.Pipe.String())
			}
		}
		visit(trees["split_clients"].Root)
	}
	m.strs("templateEqLiterals", eqLits, "string literals the template's `eq` tests compare with")
	m.strs("templateActions", fields, "range/if/action pipelines of the template in order")

	pct := s.fn("", "percentOf")
	m.strs("percentOfBody", s.stmts(pct.Body), "statements of percentOf")
	params := []string{}
	for _, p := range pct.Type.Params.List {
		for _, n := range p.Names {
			params = append(params, n.Name+" "+s.text(p.Type))
		}
	}
	m.strs("percentOfParams", params, "parameters of percentOf")
	m.str("percentOfResult", s.text(pct.Type.Results.List[0].Type), "result type of percentOf")

	dist := s.fn("", "createSplitClientDistributions")
	var distStmts []string
	for _, st := range dist.Body.List {
		if ds, ok := st.(*ast.DeclStmt); ok {
			if gd, ok := ds.Decl.(*ast.GenDecl); ok { // drop the doc comment of a declaration
				cp := *gd
				cp.Doc = nil
				distStmts = append(distStmts, s.text(&ast.DeclStmt{Decl: &cp}))
				continue
			}
		}
		distStmts = append(distStmts, s.text(st))
	}
	m.strs("distributionsBody", distStmts, "statements of createSplitClientDistributions (comments dropped)")
	var verbs []string
	for _, c := range s.calls(dist.Body, "fmt.Sprintf") {
		var args []string
		for _, a := range c.Args[1:] {
			args = append(args, s.text(a))
		}
		verbs = append(verbs, strLit(c.Args[0])+" <- "+strings.Join(args, ", "))
	}
	m.strs("sprintfCalls", verbs, "format verb and argument of every fmt.Sprintf in createSplitClientDistributions")

	// float64 must not come back into the generator: percentOf is called by tests only, and
	// createSplitClientDistributions mentions neither float64 nor math.
	nPercentOf, nFloat := 0, 0
	for _, d := range s.f.Decls {
		fd, ok := d.(*ast.FuncDecl)
		if !ok || fd.Name.Name == "percentOf" || fd.Body == nil {
			continue
		}
		nPercentOf += len(s.calls(fd.Body, "percentOf"))
	}
	walk(dist.Body, func(n ast.Node) bool {
		if id, ok := n.(*ast.Ident); ok && (id.Name == "float64" || id.Name == "float32" || id.Name == "math") {
			nFloat++
		}
		return true
	})
	m.nat("percentOfCallsInGenerator", nPercentOf, "calls of percentOf from non-test code of split_clients.go")
	m.nat("floatMentionsInDistributions", nFloat, "occurrences of float64/float32/math in createSplitClientDistributions")
	var distConsts []string
	walk(dist.Body, func(n ast.Node) bool {
		if gd, ok := n.(*ast.GenDecl); ok && gd.Tok == token.CONST {
			for _, sp := range gd.Specs {
				distConsts = append(distConsts, s.text(sp))
			}
		}
		return true
	})
	m.strs("distributionsConsts", distConsts, "constants declared in createSplitClientDistributions")

	m.strs("getSplitClientValueBody", s.stmts(s.fn("", "getSplitClientValue").Body), "statements of getSplitClientValue")
	m.strs("needsSplitBody", s.stmts(s.fn("", "backendGroupNeedsSplit").Body), "statements of backendGroupNeedsSplit")
	m.strs("backendGroupNameBody", s.stmts(s.fn("", "backendGroupName").Body), "statements of backendGroupName")
	m.strs("createSplitClientsBody", s.stmts(s.fn("", "createSplitClients").Body), "statements of createSplitClients")
	m.strs("createProxyPassBody", sv.stmts(sv.fn("", "createProxyPass").Body), "statements of createProxyPass")
	m.strs("safeVariableNameBody", vn.stmts(vn.fn("", "convertStringToSafeVariableName").Body),
		"statements of convertStringToSafeVariableName")
	m.strs("groupNameBody", dt.stmts(dt.fn("BackendGroup", "Name").Body), "statements of BackendGroup.Name")

	// dataplane newBackendGroup: the loop over refs (a plain map, nothing skipped) and ServicePortReference
	cf := src("internal/mode/static/state/dataplane/configuration.go")
	var loops []string
	for _, st := range cf.fn("", "newBackendGroup").Body.List {
		if _, ok := st.(*ast.RangeStmt); ok {
			loops = append(loops, cf.text(st))
		}
	}
	m.strs("newBackendGroupLoop", loops, "range statements of dataplane newBackendGroup")
	m.strs("servicePortReferenceBody", br.stmts(br.fn("BackendRef", "ServicePortReference").Body),
		"statements of graph BackendRef.ServicePortReference")

	m.str("invalidBackendRef", u.strConst("invalidBackendRef"), "name of the upstream answering 500")
	m.str("nginx500Server", u.strConst("nginx500Server"), "server of the invalid-backend-ref upstream")
	m.strs("invalidUpstreamBody", u.stmts(u.fn("", "createInvalidBackendRefUpstream").Body),
		"statements of createInvalidBackendRefUpstream")

	// weight range and defaulting
	vw := br.fn("", "validateWeight")
	consts := map[string]int{}
	walk(vw.Body, func(n ast.Node) bool {
		gd, ok := n.(*ast.GenDecl)
		if !ok || gd.Tok != token.CONST {
			return true
		}
		for _, sp := range gd.Specs {
			vs := sp.(*ast.ValueSpec)
			for i, nm := range vs.Names {
				if i < len(vs.Values) {
					func() {
						defer func() { _ = recover() }()
						consts[nm.Name] = intLit(vs.Values[i])
					}()
				}
			}
		}
		return true
	})
	for _, k := range []string{"minWeight", "maxWeight"} {
		v, ok := consts[k]
		if !ok {
			fail("SplitFacts: constant %s not found in validateWeight", k)
		}
		m.nat(k, v, k+" in validateWeight")
	}
	var vwStmts []string
	for _, st := range vw.Body.List {
		if ds, ok := st.(*ast.DeclStmt); ok {
			_ = ds
			continue
		}
		vwStmts = append(vwStmts, br.text(st))
	}
	m.strs("validateWeightBody", vwStmts, "statements of validateWeight after the const block")

	// createBackendRef: `weight := int32(1)` and the if that follows it
	cb := br.fn("", "createBackendRef")
	var weightStmts []string
	for i, st := range cb.Body.List {
		as, ok := st.(*ast.AssignStmt)
		if ok && len(as.Lhs) == 1 && br.text(as.Lhs[0]) == "weight" && as.Tok == token.DEFINE {
			weightStmts = append(weightStmts, br.text(st))
			if i+1 < len(cb.Body.List) {
				weightStmts = append(weightStmts, stripComments(br.text(cb.Body.List[i+1])))
			}
		}
	}
	m.strs("weightDefaulting", weightStmts, "createBackendRef: default weight and the validation that follows")
	// every BackendRef literal built in createBackendRef carries `Weight: weight`
	nLit, nWeight := 0, 0
	walk(cb.Body, func(n ast.Node) bool {
		cl, ok := n.(*ast.CompositeLit)
		if !ok || br.text(cl.Type) != "BackendRef" {
			return true
		}
		nLit++
		for _, e := range cl.Elts {
			if kv, ok := e.(*ast.KeyValueExpr); ok && br.text(kv.Key) == "Weight" && br.text(kv.Value) == "weight" {
				nWeight++
			}
		}
		return true
	})
	m.nat("backendRefLiterals", nLit, "BackendRef composite literals in createBackendRef")
	m.nat("backendRefLiteralsWithWeight", nWeight, "… of which carry `Weight: weight`")
}

func stripComments(s string) string {
	// printer output on one line: `// …` comments cannot be delimited any more, so they are cut at the
	// AST level by the printer mode; this only normalises whitespace
	return strings.Join(strings.Fields(s), " ")
}
