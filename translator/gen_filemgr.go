package main

import (
	"go/ast"
	"go/token"
	"os"
	"path/filepath"
	"regexp"
	"sort"
	"strconv"
	"strings"
)

func init() { register("FileFacts", genFileMgr) }

// fmSkeleton renders the control skeleton of a function body: one entry per statement in source
// order, prefixed with its nesting depth. Logging calls are dropped and the arguments of fmt.Errorf
// are elided, so that only a change of control flow / of the calls changes the fact.
func fmSkeleton(s *srcFile, body *ast.BlockStmt) []string {
	var out []string
	var block func(list []ast.Stmt, d int)
	emit := func(d int, t string) { out = append(out, strconv.Itoa(d)+"|"+t) }
	expr := func(e ast.Expr) string {
		t := s.text(e)
		if i := strings.Index(t, "fmt.Errorf("); i >= 0 {
			t = t[:i] + "fmt.Errorf(…)"
		}
		return t
	}
	isLog := func(e ast.Expr) bool {
		c, ok := e.(*ast.CallExpr)
		if !ok {
			return false
		}
		t := s.text(c.Fun)
		return strings.Contains(t, "logger.") || strings.Contains(t, "Logger.")
	}
	var stmt func(st ast.Stmt, d int)
	stmt = func(st ast.Stmt, d int) {
		switch x := st.(type) {
		case *ast.RangeStmt:
			emit(d, "range "+s.text(x.X))
			block(x.Body.List, d+1)
		case *ast.ForStmt:
			emit(d, "for")
			block(x.Body.List, d+1)
		case *ast.IfStmt:
			h := "if "
			if x.Init != nil {
				h += s.text(x.Init) + "; "
			}
			emit(d, h+s.text(x.Cond))
			block(x.Body.List, d+1)
			if x.Else != nil {
				emit(d, "else")
				if b, ok := x.Else.(*ast.BlockStmt); ok {
					block(b.List, d+1)
				} else {
					stmt(x.Else, d+1)
				}
			}
		case *ast.SwitchStmt:
			t := ""
			if x.Tag != nil {
				t = s.text(x.Tag)
			}
			emit(d, "switch "+t)
			for _, c := range x.Body.List {
				cc := c.(*ast.CaseClause)
				if cc.List == nil {
					emit(d+1, "default")
				} else {
					var l []string
					for _, e := range cc.List {
						l = append(l, s.text(e))
					}
					emit(d+1, "case "+strings.Join(l, ", "))
				}
				block(cc.Body, d+2)
			}
		case *ast.BlockStmt:
			block(x.List, d)
		case *ast.ExprStmt:
			if isLog(x.X) {
				return
			}
			emit(d, expr(x.X))
		case *ast.ReturnStmt:
			var l []string
			for _, e := range x.Results {
				l = append(l, expr(e))
			}
			emit(d, strings.TrimSpace("return "+strings.Join(l, ", ")))
		case *ast.DeferStmt:
			emit(d, "defer")
			if fl, ok := x.Call.Fun.(*ast.FuncLit); ok {
				block(fl.Body.List, d+1)
			} else {
				emit(d+1, s.text(x.Call))
			}
		case *ast.AssignStmt:
			var l, r []string
			for _, e := range x.Lhs {
				l = append(l, s.text(e))
			}
			for _, e := range x.Rhs {
				r = append(r, expr(e))
			}
			emit(d, strings.Join(l, ", ")+" "+x.Tok.String()+" "+strings.Join(r, ", "))
		default:
			emit(d, s.text(st))
		}
	}
	block = func(list []ast.Stmt, d int) {
		for _, st := range list {
			stmt(st, d)
		}
	}
	block(body.List, 0)
	return out
}

func fmIndex(l []string, sub string) int {
	for i, t := range l {
		if strings.Contains(t, sub) {
			return i
		}
	}
	return -1
}

// C11: file manager, folder clearing, generated paths.
func genFileMgr() {
	m := newModule("FileFacts", "FileMgr")

	mgr := src("internal/mode/static/nginx/file/manager.go")
	m.nat("regularFileMode", intLit(mgr.valueSpec("regularFileMode")), "regularFileMode of file/manager.go")
	m.nat("secretFileMode", intLit(mgr.valueSpec("secretFileMode")), "secretFileMode of file/manager.go")

	rf := fmSkeleton(mgr, mgr.fn("ManagerImpl", "ReplaceFiles").Body)
	m.strs("replaceFilesSkeleton", rf, "control skeleton of ManagerImpl.ReplaceFiles (logging dropped, error texts elided)")
	ia, iw := fmIndex(rf, "append(m.lastWrittenPaths"), fmIndex(rf, "WriteFile(")
	if ia < 0 || iw < 0 {
		fail("FileFacts: append to lastWrittenPaths / WriteFile call not found in ReplaceFiles")
	}
	m.boolean("trackBeforeWrite", ia >= 0 && iw >= 0 && ia < iw,
		"whether the path is appended to lastWrittenPaths before WriteFile is called")
	wf := fmSkeleton(mgr, mgr.fn("", "WriteFile").Body)
	m.strs("writeFileSkeleton", wf, "control skeleton of WriteFile")
	// order of the OSFileManager calls in WriteFile
	var calls []string
	walk(mgr.fn("", "WriteFile").Body, func(n ast.Node) bool {
		if c, ok := n.(*ast.CallExpr); ok {
			t := mgr.text(c.Fun)
			if strings.HasPrefix(t, "fileMgr.") {
				args := []string{}
				for _, a := range c.Args {
					args = append(args, mgr.text(a))
				}
				calls = append(calls, strings.TrimPrefix(t, "fileMgr.")+"("+strings.Join(args, ", ")+")")
			}
		}
		return true
	})
	m.strs("writeFileCalls", calls, "OSFileManager calls of WriteFile in source order")

	fo := src("internal/mode/static/nginx/file/folders.go")
	var ign []string
	func() {
		// a tree without this variable (or with a different shape) must not take the other facts of the module down
		defer func() {
			if r := recover(); r != nil {
				ign = nil
				fail("FileFacts: ignoreFilePaths: %v", r)
			}
		}()
		cl, ok := fo.valueSpec("ignoreFilePaths").(*ast.CompositeLit)
		if !ok {
			fail("FileFacts: ignoreFilePaths is not a composite literal")
			return
		}
		for _, e := range cl.Elts {
			ign = append(ign, fo.strValue(e))
		}
	}()
	m.strs("ignoreFilePaths", ign, "ignoreFilePaths of file/folders.go (evaluated)")
	cf := fo.fn("", "ClearFolders")
	m.strs("clearFoldersSkeleton", fmSkeleton(fo, cf.Body), "control skeleton of ClearFolders")
	// the test that decides whether an entry is kept (the `if` whose body is a lone `continue`) and the
	// expression the tested path is built from
	ignTest, entryExpr := "", ""
	walk(cf.Body, func(n ast.Node) bool {
		switch x := n.(type) {
		case *ast.IfStmt:
			if len(x.Body.List) == 1 {
				if b, ok := x.Body.List[0].(*ast.BranchStmt); ok && b.Tok == token.CONTINUE && ignTest == "" {
					ignTest = fo.text(x.Cond)
				}
			}
		case *ast.AssignStmt:
			if len(x.Lhs) == 1 && len(x.Rhs) == 1 && fo.text(x.Lhs[0]) == "entryPath" {
				entryExpr = fo.text(x.Rhs[0])
			}
		}
		return true
	})
	m.str("ignoreMatchExpr", ignTest, "condition under which ClearFolders skips (keeps) a directory entry")
	m.str("entryPathExpr", entryExpr, "how ClearFolders builds the path it tests and removes")

	osf := src("internal/mode/static/nginx/file/os_filemanager.go")
	var bodies []string
	for _, name := range []string{"ReadDir", "Remove", "Write", "Create", "Chmod"} {
		bodies = append(bodies, name+": "+strings.Join(osf.stmts(osf.fn("StdLibOSFileManager", name).Body), "; "))
	}
	m.strs("stdlibBodies", bodies, "bodies of the StdLibOSFileManager methods used by the file manager")

	// ---- how Remove's ENOENT reaches ReplaceFiles: producer (os_filemanager.go) and classifier (manager.go)
	m.str("removeErrorShape", fmRemoveShape(osf, osf.fn("StdLibOSFileManager", "Remove")),
		"how StdLibOSFileManager.Remove hands on the error of os.Remove: `direct` (the body is `return os.Remove(name)`), "+
			"`wrapped-%w` (returned inside fmt.Errorf with a %w verb), `wrapped-opaque` (fmt.Errorf without %w / errors.New) or `other: …`")
	m.str("notExistTest", fmNotExistTest(mgr, mgr.fn("ManagerImpl", "ReplaceFiles")),
		"the test ReplaceFiles applies to Remove's error before it `continue`s: `os.IsNotExist` (does not unwrap), "+
			"`errors.Is` (errors.Is(err, os.ErrNotExist|fs.ErrNotExist), follows %w chains) or `other: …`")

	// ---- generator: folders and every place a path is built from a folder
	gen := src("internal/mode/static/nginx/config/generator.go")
	var folders []string
	if cl, ok := gen.valueSpec("ConfigFolders").(*ast.CompositeLit); ok {
		for _, e := range cl.Elts {
			folders = append(folders, gen.strValue(e))
		}
	} else {
		fail("FileFacts: ConfigFolders is not a composite literal")
	}
	m.strs("configFolders", folders, "ConfigFolders of nginx/config/generator.go (evaluated)")

	folderIdent := regexp.MustCompile(`^(config|http|stream|mainIncludes|secrets|includes)Folder$`)
	var uses, useFolders, useShapes, fileConsts []string
	dir := filepath.Join(repo, "internal/mode/static/nginx/config")
	ents, err := os.ReadDir(dir)
	if err != nil {
		panic(err)
	}
	var names []string
	for _, e := range ents {
		if !e.IsDir() && strings.HasSuffix(e.Name(), ".go") && !strings.HasSuffix(e.Name(), "_test.go") {
			names = append(names, e.Name())
		}
	}
	sort.Strings(names)
	for _, n := range names {
		s := src("internal/mode/static/nginx/config/" + n)
		for _, d := range s.f.Decls {
			switch x := d.(type) {
			case *ast.GenDecl:
				if x.Tok != token.CONST {
					continue
				}
				for _, sp := range x.Specs {
					vs := sp.(*ast.ValueSpec)
					for i, id := range vs.Names {
						if i < len(vs.Values) && strings.HasSuffix(id.Name, "File") {
							func() {
								defer func() { _ = recover() }()
								fileConsts = append(fileConsts, s.strValue(vs.Values[i]))
							}()
						}
					}
				}
			case *ast.FuncDecl:
				if x.Body == nil {
					continue
				}
				// outermost expression (a + chain or a call) that mentions a folder identifier
				var visit func(n ast.Node) bool
				visit = func(n ast.Node) bool {
					e, ok := n.(ast.Expr)
					if !ok {
						return true
					}
					switch e.(type) {
					case *ast.BinaryExpr, *ast.CallExpr, *ast.Ident:
					default:
						return true
					}
					var ids []string
					ast.Inspect(e, func(k ast.Node) bool {
						if id, ok := k.(*ast.Ident); ok && folderIdent.MatchString(id.Name) {
							ids = append(ids, id.Name)
						}
						return true
					})
					if len(ids) == 0 {
						return true
					}
					if c, ok := e.(*ast.CallExpr); ok {
						if t := s.text(c.Fun); t != "filepath.Join" && t != "fmt.Sprintf" {
							return true // look inside other calls
						}
					}
					uses = append(uses, n0(s, x)+": "+s.text(e))
					useShapes = append(useShapes, fmShape(s, e, folderIdent))
					for _, id := range ids {
						useFolders = append(useFolders, gen.strConst(id))
					}
					return false
				}
				ast.Inspect(x.Body, visit)
			}
		}
	}
	sort.Strings(fileConsts)
	m.strs("generatedFileConsts", fileConsts, "every `…File` string constant of package nginx/config (evaluated)")
	m.strs("generatedPathExprs", uses, "every expression in package nginx/config that builds a path from a folder constant")
	m.strs("generatedPathFolders", useFolders, "the folder constants those expressions start from (evaluated)")
	m.strs("generatedPathShapes", useShapes,
		"shape of each of those expressions: `folder+/…` (folder constant, then a literal starting with a slash), "+
			"`join(folder,…)` (filepath.Join with the folder first) or `other`")

	// ---- the generated file SET: every file.File literal (path expression, type), every destination of an
	// executeResult, the structure of Generate / executeConfigTemplates / getExecuteFuncs, the name formats
	func() {
		defer func() {
			if r := recover(); r != nil {
				fail("FileFacts (generated set): %v", r)
			}
		}()
		var fileLits, dests []string
		for _, n := range names {
			s := src("internal/mode/static/nginx/config/" + n)
			for _, d := range s.f.Decls {
				fd, ok := d.(*ast.FuncDecl)
				if !ok || fd.Body == nil {
					continue
				}
				walk(fd.Body, func(k ast.Node) bool {
					cl, ok := k.(*ast.CompositeLit)
					if !ok || cl.Type == nil {
						return true
					}
					switch s.text(cl.Type) {
					case "file.File":
						path, typ := "?", "?"
						for _, e := range cl.Elts {
							if kv, ok := e.(*ast.KeyValueExpr); ok {
								switch s.text(kv.Key) {
								case "Path":
									path = s.text(kv.Value)
								case "Type":
									typ = s.text(kv.Value)
								}
							}
						}
						if len(cl.Elts) > 0 {
							fileLits = append(fileLits, n0(s, fd)+": "+path+" | "+typ)
						}
					case "executeResult":
						for _, e := range cl.Elts {
							if kv, ok := e.(*ast.KeyValueExpr); ok && s.text(kv.Key) == "dest" {
								dests = append(dests, n0(s, fd)+": "+s.text(kv.Value))
							}
						}
					}
					return true
				})
			}
		}
		m.strs("generatedFileLiterals", fileLits,
			"every non-empty file.File{…} literal of package nginx/config: `<file>:<func>: <Path expression> | <Type expression>`")
		m.strs("executeDests", dests, "the `dest` of every executeResult{…} literal of package nginx/config")
		m.strs("generateSkeleton", fmSkeleton(gen, gen.fn("GeneratorImpl", "Generate").Body), "control skeleton of GeneratorImpl.Generate")
		m.strs("executeConfigTemplatesSkeleton", fmSkeleton(gen, gen.fn("GeneratorImpl", "executeConfigTemplates").Body),
			"control skeleton of GeneratorImpl.executeConfigTemplates")
		var execFuncs []string
		walk(gen.fn("GeneratorImpl", "getExecuteFuncs").Body, func(k ast.Node) bool {
			if cl, ok := k.(*ast.CompositeLit); ok && gen.text(cl.Type) == "[]executeFunc" {
				for _, e := range cl.Elts {
					execFuncs = append(execFuncs, gen.text(e))
				}
				return false
			}
			return true
		})
		m.strs("executeFuncs", execFuncs, "the execute functions of getExecuteFuncs, in order")
		// include file names of snippets: createSnippetName (state/dataplane) and the NginxContext values
		dp := src("internal/mode/static/state/dataplane/configuration.go")
		snFmt, snArgs := "", []string{}
		for _, c := range dp.calls(dp.fn("", "createSnippetName").Body, "fmt.Sprintf") {
			snFmt = strLit(c.Args[0])
			for _, a := range c.Args[1:] {
				snArgs = append(snArgs, dp.text(a))
			}
		}
		m.raw("snippetNameFmt", "List Char", leanChars(snFmt), "format of createSnippetName (state/dataplane/configuration.go)", snFmt)
		m.strs("snippetNameArgs", snArgs, "arguments of that Sprintf")
		sft := src("apis/v1alpha1/snippetsfilter_types.go")
		var ctxs []string
		for _, id := range []string{"NginxContextMain", "NginxContextHTTP", "NginxContextHTTPServer", "NginxContextHTTPServerLocation"} {
			ctxs = append(ctxs, sft.strConst(id))
		}
		m.strs("nginxContexts", ctxs, "values of NginxContextMain, …HTTP, …HTTPServer, …HTTPServerLocation (apis/v1alpha1)")
		obsg := src("internal/mode/static/nginx/config/policies/observability/generator.go")
		var obsFmts, obsSuffixes []string
		walk(obsg.f, func(k ast.Node) bool {
			c, ok := k.(*ast.CallExpr)
			if !ok {
				return true
			}
			switch obsg.text(c.Fun) {
			case "fmt.Sprintf":
				if bl, ok := c.Args[0].(*ast.BasicLit); ok && strings.HasPrefix(strLit(bl), "ObservabilityPolicy_") {
					obsFmts = append(obsFmts, strLit(bl))
				}
			case "buildTemplate":
				if len(c.Args) == 3 {
					obsSuffixes = append(obsSuffixes, strLit(c.Args[1]))
				}
			}
			return true
		})
		m.strs("obsFileFmts", obsFmts, "file name formats of the ObservabilityPolicy includes")
		if len(obsFmts) == 2 {
			m.raw("obsFileFmt", "List Char", leanChars(obsFmts[0]), "the first of them (GenerateForLocation), as characters", obsFmts[0])
			m.raw("obsIntFileFmt", "List Char", leanChars(obsFmts[1]), "the second (GenerateForInternalLocation), as characters", obsFmts[1])
		}
		m.strs("obsFileSuffixes", obsSuffixes, "the fileSuffix arguments of buildTemplate in GenerateForLocation")
		cspg := src("internal/mode/static/nginx/config/policies/clientsettings/generator.go")
		var cspFmts []string
		for _, c := range cspg.calls(cspg.f, "fmt.Sprintf") {
			if bl, ok := c.Args[0].(*ast.BasicLit); ok {
				cspFmts = append(cspFmts, strLit(bl))
			}
		}
		m.strs("cspFileFmts", cspFmts, "file name formats of the ClientSettingsPolicy include")
		if len(cspFmts) == 1 {
			m.raw("cspFileFmt", "List Char", leanChars(cspFmts[0]), "the same, as characters", cspFmts[0])
		}
	}()

	// ---- nginx.conf: the folders NGINX loads globbed includes from
	conf, err := os.ReadFile(filepath.Join(repo, "internal/mode/static/nginx/conf/nginx.conf"))
	if err != nil {
		panic(err)
	}
	var globDirs []string
	for _, mm := range regexp.MustCompile(`(?m)^\s*include\s+(\S*\*\S*)\s*;`).FindAllStringSubmatch(string(conf), -1) {
		globDirs = append(globDirs, filepath.Dir(mm[1]))
	}
	m.strs("nginxConfGlobIncludeDirs", globDirs, "directories of the globbed include directives of conf/nginx.conf")

	// ---- static/manager.go: ClearFolders at start-up
	sm := src("internal/mode/static/manager.go")
	start := sm.fn("", "StartManager")
	cc := sm.calls(start.Body, "file.ClearFolders")
	if len(cc) != 1 {
		fail("FileFacts: expected exactly one file.ClearFolders call in StartManager, found %d", len(cc))
	}
	var args []string
	for _, c := range cc {
		for _, a := range c.Args {
			args = append(args, sm.text(a))
		}
	}
	m.strs("clearFoldersArgs", args, "arguments of the file.ClearFolders call in static.StartManager")
	alias := ""
	for _, im := range sm.f.Imports {
		if im.Name != nil && im.Name.Name == "ngxcfg" {
			alias, _ = strconv.Unquote(im.Path.Value)
		}
	}
	m.str("ngxcfgImport", alias, "import path behind the ngxcfg alias in static/manager.go")
	sk := fmSkeleton(sm, start.Body)
	ic, im := fmIndex(sk, "file.ClearFolders("), -1
	// NewManagerImpl is nested in a composite literal: compare source positions instead
	var posClear, posMgr token.Pos
	if len(cc) == 1 {
		posClear = cc[0].Pos()
	}
	if mc := sm.calls(start.Body, "file.NewManagerImpl"); len(mc) == 1 {
		posMgr = mc[0].Pos()
		im = 0
	}
	m.boolean("clearBeforeManagerCreated", ic >= 0 && im >= 0 && posClear < posMgr,
		"whether ClearFolders is called before the file manager is created in StartManager")
	errReturned := false
	if ic >= 0 {
		for j := ic + 1; j < len(sk) && j <= ic+4; j++ {
			if strings.HasSuffix(sk[j], "|if err != nil") && j+1 < len(sk) && strings.Contains(sk[j+1], "return fmt.Errorf(") {
				errReturned = true
			}
		}
	}
	m.boolean("clearFoldersErrorReturned", errReturned, "whether StartManager returns when ClearFolders fails")
}

// fmRemoveShape classifies how Remove returns the error of os.Remove.
func fmRemoveShape(s *srcFile, fd *ast.FuncDecl) string {
	if len(fd.Body.List) == 1 {
		if r, ok := fd.Body.List[0].(*ast.ReturnStmt); ok && len(r.Results) == 1 {
			if c, ok := r.Results[0].(*ast.CallExpr); ok && s.text(c.Fun) == "os.Remove" {
				return "direct"
			}
		}
	}
	if len(s.calls(fd.Body, "os.Remove")) != 1 {
		return "other: " + strings.Join(s.stmts(fd.Body), "; ")
	}
	shape := ""
	walk(fd.Body, func(n ast.Node) bool {
		r, ok := n.(*ast.ReturnStmt)
		if !ok || len(r.Results) != 1 {
			return true
		}
		switch x := r.Results[0].(type) {
		case *ast.Ident:
			if x.Name == "nil" {
				return true
			}
			if x.Name == "err" && shape == "" {
				shape = "direct"
				return true
			}
		case *ast.CallExpr:
			t := s.text(x.Fun)
			if t == "fmt.Errorf" && len(x.Args) >= 2 {
				if bl, ok := x.Args[0].(*ast.BasicLit); ok && strings.Contains(bl.Value, "%w") {
					shape = "wrapped-%w"
				} else {
					shape = "wrapped-opaque"
				}
				return true
			}
			if t == "errors.New" {
				shape = "wrapped-opaque"
				return true
			}
		}
		shape = "other: " + s.text(r)
		return true
	})
	if shape == "" {
		shape = "other: " + strings.Join(s.stmts(fd.Body), "; ")
	}
	return shape
}

// fmNotExistTest finds, inside the `if err := ….Remove(path); err != nil` of ReplaceFiles, the condition of the `if`
// whose body ends in `continue`, and classifies it.
func fmNotExistTest(s *srcFile, fd *ast.FuncDecl) string {
	res := "other: no tolerated error"
	walk(fd.Body, func(n ast.Node) bool {
		outer, ok := n.(*ast.IfStmt)
		if !ok || outer.Init == nil || !strings.Contains(s.text(outer.Init), ".Remove(") {
			return true
		}
		for _, st := range outer.Body.List {
			inner, ok := st.(*ast.IfStmt)
			if !ok || len(inner.Body.List) == 0 {
				continue
			}
			if b, ok := inner.Body.List[len(inner.Body.List)-1].(*ast.BranchStmt); !ok || b.Tok != token.CONTINUE {
				continue
			}
			c := s.text(inner.Cond)
			switch {
			case c == "os.IsNotExist(err)":
				res = "os.IsNotExist"
			case c == "errors.Is(err, os.ErrNotExist)" || c == "errors.Is(err, fs.ErrNotExist)":
				res = "errors.Is"
			default:
				res = "other: " + c
			}
		}
		return false
	})
	return res
}

func n0(s *srcFile, fd *ast.FuncDecl) string { return filepath.Base(s.path) + ":" + fd.Name.Name }

// fmShape classifies how an expression builds a path from a folder constant.
func fmShape(s *srcFile, e ast.Expr, folderIdent *regexp.Regexp) string {
	isFolder := func(x ast.Expr) bool {
		id, ok := x.(*ast.Ident)
		return ok && folderIdent.MatchString(id.Name)
	}
	switch x := e.(type) {
	case *ast.BinaryExpr:
		// flatten the left-associative + chain
		var ops []ast.Expr
		var flat func(b ast.Expr)
		flat = func(b ast.Expr) {
			if be, ok := b.(*ast.BinaryExpr); ok && be.Op == token.ADD {
				flat(be.X)
				ops = append(ops, be.Y)
				return
			}
			ops = append(ops, b)
		}
		flat(x)
		if len(ops) >= 2 && isFolder(ops[0]) {
			if bl, ok := ops[1].(*ast.BasicLit); ok && bl.Kind == token.STRING && strings.HasPrefix(strLit(bl), "/") {
				return "folder+/…"
			}
		}
	case *ast.CallExpr:
		if s.text(x.Fun) == "filepath.Join" && len(x.Args) >= 2 && isFolder(x.Args[0]) {
			return "join(folder,…)"
		}
	}
	return "other: " + s.text(e)
}
