package main

import (
	"go/ast"
	"strings"
)

func init() { register("OwnershipFacts", genOwnership) }

// C17: the statements that decide ownership in graph.BuildGraph and its helpers, the GatewayClass watch
// predicate, the Prepare*Requests calls of eventHandlerImpl.updateStatuses and the "keep the entries of
// other controllers" loops of the status setters.
func genOwnership() {
	m := newModule("OwnershipFacts", "OwnershipFacts")
	gdir := "internal/mode/static/state/graph/"

	// --- processGatewayClasses
	gc := src(gdir + "gatewayclass.go")
	m.strs("processGatewayClassesBody", gc.stmts(gc.fn("", "processGatewayClasses").Body),
		"statements of processGatewayClasses")

	// --- BuildGraph: everything up to and including the early return, and the arguments that carry ownership
	g := src(gdir + "graph.go")
	bg := g.fn("", "BuildGraph")
	var head []string
	for _, st := range bg.Body.List {
		head = append(head, g.text(st))
		if ifs, ok := st.(*ast.IfStmt); ok && strings.Contains(g.text(ifs.Cond), "gcExists") {
			break
		}
	}
	m.strs("buildGraphHead", head, "statements of BuildGraph up to and including the early return")
	callArgs := func(s *srcFile, body ast.Node, fun string) []string {
		out := []string{}
		for _, c := range s.calls(body, fun) {
			for _, a := range c.Args {
				out = append(out, s.text(a))
			}
		}
		return out
	}
	m.strs("processGatewaysArgs", callArgs(g, bg.Body, "processGateways"), "arguments of processGateways in BuildGraph")
	m.strs("buildRoutesArgs", callArgs(g, bg.Body, "buildRoutesForGateways"), "arguments of buildRoutesForGateways in BuildGraph")
	m.strs("buildL4RoutesArgs", callArgs(g, bg.Body, "buildL4RoutesForGateways"), "arguments of buildL4RoutesForGateways in BuildGraph")
	m.strs("processPoliciesArgs", callArgs(g, bg.Body, "processPolicies"), "arguments of processPolicies in BuildGraph")
	m.strs("buildReferencedServicesArgs", callArgs(g, bg.Body, "buildReferencedServices"), "arguments of buildReferencedServices in BuildGraph")
	// the composite literal of the returned Graph: which local feeds which ownership-carrying field
	fields := map[string]string{}
	walk(bg.Body, func(n ast.Node) bool {
		if cl, ok := n.(*ast.CompositeLit); ok && g.text(cl.Type) == "Graph" {
			for _, e := range cl.Elts {
				if kv, ok := e.(*ast.KeyValueExpr); ok {
					fields[g.text(kv.Key)] = g.text(kv.Value)
				}
			}
		}
		return true
	})
	var gf []string
	for _, k := range []string{"GatewayClass", "Gateway", "Routes", "L4Routes", "IgnoredGatewayClasses", "IgnoredGateways",
		"ReferencedServices", "BackendTLSPolicies", "NGFPolicies", "SnippetsFilters"} {
		gf = append(gf, k+": "+fields[k])
	}
	m.strs("graphLiteralFields", gf, "ownership-carrying fields of the Graph literal returned by BuildGraph")
	m.strs("gatewayExistsBody", g.stmts(g.fn("", "gatewayExists").Body), "statements of gatewayExists")

	// --- processGateways / GetAllNsNames
	gw := src(gdir + "gateway.go")
	m.strs("processGatewaysBody", gw.stmts(gw.fn("", "processGateways").Body), "statements of processGateways")
	m.strs("getAllNsNamesBody", gw.stmts(gw.fn("processedGateways", "GetAllNsNames").Body), "statements of GetAllNsNames")

	// --- routes
	rc := src(gdir + "route_common.go")
	m.strs("findGatewayForParentRefBody", rc.stmts(rc.fn("", "findGatewayForParentRef").Body),
		"statements of findGatewayForParentRef")
	m.strs("buildSectionNameRefsBody", rc.stmts(rc.fn("", "buildSectionNameRefs").Body), "statements of buildSectionNameRefs")
	m.strs("buildRoutesForGatewaysBody", rc.stmts(rc.fn("", "buildRoutesForGateways").Body), "statements of buildRoutesForGateways")
	m.strs("buildL4RoutesForGatewaysBody", rc.stmts(rc.fn("", "buildL4RoutesForGateways").Body), "statements of buildL4RoutesForGateways")
	// build*Route: everything up to and including `r.ParentRefs = sectionNameRefs`
	routeHead := func(file, fn string) []string {
		s := src(gdir + file)
		out := []string{}
		for _, st := range s.fn("", fn).Body.List {
			t := s.text(st)
			out = append(out, t)
			if strings.HasPrefix(t, "r.ParentRefs =") {
				break
			}
		}
		return out
	}
	m.strs("buildHTTPRouteHead", routeHead("httproute.go", "buildHTTPRoute"), "buildHTTPRoute up to the assignment of ParentRefs")
	m.strs("buildGRPCRouteHead", routeHead("grpcroute.go", "buildGRPCRoute"), "buildGRPCRoute up to the assignment of ParentRefs")
	m.strs("buildTLSRouteHead", routeHead("tlsroute.go", "buildTLSRoute"), "buildTLSRoute up to the assignment of ParentRefs")

	// --- SnippetsFilters: where the Referenced flag is set, the position of the resolver call inside
	// build{HTTP,GRPC}Route (AFTER the parentRef check), and its only consumer on the configuration side
	hrS := src(gdir + "httproute.go")
	m.strs("buildHTTPRouteBody", hrS.stmts(hrS.fn("", "buildHTTPRoute").Body), "statements of buildHTTPRoute")
	grS := src(gdir + "grpcroute.go")
	m.strs("buildGRPCRouteBody", grS.stmts(grS.fn("", "buildGRPCRoute").Body), "statements of buildGRPCRoute")
	sfS := src(gdir + "snippets_filter.go")
	var resolver []string
	walk(sfS.fn("", "getSnippetsFilterResolverForNamespace").Body, func(n ast.Node) bool {
		if fl, ok := n.(*ast.FuncLit); ok && resolver == nil {
			resolver = sfS.stmts(fl.Body)
			return false
		}
		return true
	})
	m.strs("snippetsFilterResolverBody", resolver, "statements of the closure returned by getSnippetsFilterResolverForNamespace")
	var refWrites []string
	for _, f := range []string{"snippets_filter.go", "httproute.go", "grpcroute.go", "route_common.go", "common_filter.go", "graph.go",
		"extension_ref_filter.go"} {
		fs := src(gdir + f)
		walk(fs.f, func(n ast.Node) bool {
			if as, ok := n.(*ast.AssignStmt); ok {
				for _, l := range as.Lhs {
					if sel, ok := l.(*ast.SelectorExpr); ok && sel.Sel.Name == "Referenced" {
						refWrites = append(refWrites, f+": "+fs.text(as))
					}
				}
			}
			if kv, ok := n.(*ast.KeyValueExpr); ok && fs.text(kv.Key) == "Referenced" {
				refWrites = append(refWrites, f+": "+fs.text(kv))
			}
			return true
		})
	}
	m.strs("snippetsFilterReferencedWrites", refWrites, "every assignment to a field named Referenced in the graph package files that handle filters")
	cf := src(gdir + "common_filter.go")
	m.strs("processRouteRuleFiltersBody", cf.stmts(cf.fn("", "processRouteRuleFilters").Body), "statements of processRouteRuleFilters")
	var resolverCalls []string
	for _, f := range []string{"httproute.go", "grpcroute.go", "route_common.go", "common_filter.go", "tlsroute.go"} {
		fs := src(gdir + f)
		for _, d := range fs.f.Decls {
			fd, ok := d.(*ast.FuncDecl)
			if !ok || fd.Body == nil {
				continue
			}
			for _, c := range fs.calls(fd.Body, "getSnippetsFilterResolverForNamespace") {
				resolverCalls = append(resolverCalls, f+" "+fd.Name.Name+": "+fs.text(c))
			}
			for _, c := range fs.calls(fd.Body, "resolveExtRefFunc") {
				resolverCalls = append(resolverCalls, f+" "+fd.Name.Name+": "+fs.text(c))
			}
		}
	}
	m.strs("snippetsFilterResolverCalls", resolverCalls, "call sites of getSnippetsFilterResolverForNamespace and of the resolver")
	dp := src("internal/mode/static/state/dataplane/configuration.go")
	m.strs("buildSnippetsForContextBody", dp.stmts(dp.fn("", "buildSnippetsForContext").Body), "statements of dataplane.buildSnippetsForContext")

	// --- referenced services
	sv := src(gdir + "service.go")
	m.strs("buildReferencedServicesBody", sv.stmts(sv.fn("", "buildReferencedServices").Body), "statements of buildReferencedServices")

	// --- policies
	pol := src(gdir + "policies.go")
	m.strs("processPoliciesBody", pol.stmts(pol.fn("", "processPolicies").Body), "statements of processPolicies")
	m.strs("attachPoliciesBody", pol.stmts(pol.fn("Graph", "attachPolicies").Body), "statements of Graph.attachPolicies")
	m.strs("attachPolicyToGatewayBody", pol.stmts(pol.fn("", "attachPolicyToGateway").Body), "statements of attachPolicyToGateway")
	m.strs("refGroupKindBody", pol.stmts(pol.fn("", "refGroupKind").Body), "statements of refGroupKind")
	for _, c := range []string{"gatewayGroupKind", "hrGroupKind", "grpcGroupKind", "serviceGroupKind"} {
		m.str(c+"Expr", pol.text(pol.valueSpec(c)), "source expression of the constant "+c)
	}
	k := src("internal/framework/kinds/kinds.go")
	for _, c := range []string{"Gateway", "HTTPRoute", "GRPCRoute", "Service"} {
		m.str("kind"+c, k.strConst(c), "kinds."+c)
	}
	pa := src(gdir + "policy_ancestor.go")
	m.nat("maxAncestors", intLit(pa.valueSpec("maxAncestors")), "maxAncestors")
	m.strs("ngfPolicyAncestorsFullBody", pa.stmts(pa.fn("", "ngfPolicyAncestorsFull").Body), "statements of ngfPolicyAncestorsFull")
	btp := src(gdir + "backend_tls_policy.go")
	m.strs("processBackendTLSPoliciesGuard", []string{btp.text(btp.fn("", "processBackendTLSPolicies").Body.List[0])},
		"first statement of processBackendTLSPolicies")

	// --- the GatewayClass watch predicate
	pr := src("internal/framework/controller/predicate/gatewayclass.go")
	for _, f := range []string{"Create", "Update", "Delete"} {
		m.strs("gatewayClassPredicate"+f, pr.stmts(pr.fn("GatewayClassPredicate", f).Body),
			"statements of GatewayClassPredicate."+f)
	}

	// --- status preparation: which Prepare*Requests the handler calls, on which graph fields
	h := src("internal/mode/static/handler.go")
	us := h.fn("eventHandlerImpl", "updateStatuses")
	var prep []string
	walk(us.Body, func(n ast.Node) bool {
		if c, ok := n.(*ast.CallExpr); ok {
			f := h.text(c.Fun)
			if strings.HasPrefix(f, "status.Prepare") {
				var args []string
				for _, a := range c.Args {
					if t := h.text(a); strings.HasPrefix(t, "gr.") {
						args = append(args, t)
					}
				}
				prep = append(prep, f+"("+strings.Join(args, ", ")+")")
			}
		}
		return true
	})
	m.strs("updateStatusesPrepareCalls", prep, "status.Prepare*Requests calls of updateStatuses with their graph arguments")
	// the two UpdateGroup calls of updateStatuses and what the first group is made of
	var groupCalls []string
	walk(us.Body, func(n ast.Node) bool {
		switch x := n.(type) {
		case *ast.CallExpr:
			if strings.HasSuffix(h.text(x.Fun), ".UpdateGroup") {
				groupCalls = append(groupCalls, h.text(x))
			}
			if id, ok := x.Fun.(*ast.Ident); ok && id.Name == "append" && len(x.Args) > 0 && h.text(x.Args[0]) == "reqs" {
				groupCalls = append(groupCalls, h.text(x))
			}
		}
		return true
	})
	m.strs("updateStatusesGroupCalls", groupCalls, "appends to reqs and UpdateGroup calls of updateStatuses, in source order")
	m.str("groupAllExceptGateways", h.strConst("groupAllExceptGateways"), "handler.go groupAllExceptGateways")
	m.str("groupGateways", h.strConst("groupGateways"), "handler.go groupGateways")

	// --- Prepare*Requests: the loop heads (what is ranged over) and the skip conditions
	ps := src("internal/mode/static/status/prepare_requests.go")
	var loops []string
	for _, fn := range []string{"PrepareRouteRequests", "PrepareGatewayClassRequests", "PrepareGatewayRequests",
		"PrepareNGFPolicyRequests", "PrepareBackendTLSPolicyRequests", "PrepareSnippetsFilterRequests"} {
		fd := ps.fn("", fn)
		for _, st := range fd.Body.List {
			switch x := st.(type) {
			case *ast.RangeStmt:
				loops = append(loops, fn+": range "+ps.text(x.X))
				for _, b := range x.Body.List {
					if ifs, ok := b.(*ast.IfStmt); ok {
						if len(ifs.Body.List) == 1 && ps.text(ifs.Body.List[0]) == "continue" {
							loops = append(loops, fn+": skip if "+ps.text(ifs.Cond))
						}
					}
				}
			case *ast.IfStmt:
				loops = append(loops, fn+": if "+ps.text(x.Cond))
			}
		}
	}
	m.strs("prepareRequestsLoops", loops, "range loops, skip conditions and guards of the Prepare*Requests functions")

	// --- status setters: the loops that keep the entries of other controllers
	ss := src("internal/mode/static/status/status_setters.go")
	var keep []string
	for _, d := range ss.f.Decls {
		fd, ok := d.(*ast.FuncDecl)
		if !ok {
			continue
		}
		walk(fd.Body, func(n ast.Node) bool {
			r, ok := n.(*ast.RangeStmt)
			if !ok || len(r.Body.List) != 1 {
				return true
			}
			if ifs, ok := r.Body.List[0].(*ast.IfStmt); ok && strings.Contains(ss.text(ifs.Cond), "ControllerName") &&
				strings.Contains(ss.text(ifs.Body), "append") {
				keep = append(keep, fd.Name.Name+": range "+ss.text(r.X)+" if "+ss.text(ifs.Cond)+" "+ss.text(ifs.Body.List[0]))
			}
			return true
		})
	}
	m.strs("setterKeepLoops", keep, "loops of the status setters that carry over the entries of other controllers")
}
