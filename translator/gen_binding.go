package main

func init() { register("BindingFacts", genBinding) }

// C07, fragment stage: the statement lists of the graph functions that lean/NGF/Model/PipelineStatus.lean mirrors
// (which Gateway the graph is built for, buildSectionNameRefs, validateParentRef, binding of an L7 route, route validity ->
// route-wide conditions, PrepareRouteRequests). Pinned by `facts_binding_*` in lean/NGF/Props/C07Fragment.lean against the
// hand-copied text in lean/NGF/Proofs/PipelineStatusExpected.lean.
func genBinding() {
	m := newModule("BindingFacts", "Binding")

	rc := src("internal/mode/static/state/graph/route_common.go")
	for _, f := range []string{
		"buildSectionNameRefs", "findGatewayForParentRef", "validateParentRef", "bindL7RouteToListeners",
		"tryToAttachL7RouteToListeners", "findAttachableListeners",
	} {
		m.strs(f+"Body", rc.stmts(rc.fn("", f).Body), "statements of "+f+" (graph/route_common.go)")
	}

	gw := src("internal/mode/static/state/graph/gateway.go")
	m.strs("processGatewaysBody", gw.stmts(gw.fn("", "processGateways").Body), "statements of processGateways (graph/gateway.go)")
	m.strs("getAllNsNamesBody", gw.stmts(gw.fn("processedGateways", "GetAllNsNames").Body), "statements of processedGateways.GetAllNsNames")
	m.strs("buildGatewayBody", gw.stmts(gw.fn("", "buildGateway").Body), "statements of buildGateway")
	m.strs("validateGatewayBody", gw.stmts(gw.fn("", "validateGateway").Body), "statements of validateGateway")

	gc := src("internal/mode/static/state/graph/gatewayclass.go")
	m.strs("processGatewayClassesBody", gc.stmts(gc.fn("", "processGatewayClasses").Body), "statements of processGatewayClasses")

	// BuildGraph up to the call of bindRoutesToListeners: the class test, which Gateways routes may name, the binding call
	g := src("internal/mode/static/state/graph/graph.go")
	var head []string
	for _, st := range g.stmts(g.fn("", "BuildGraph").Body) {
		head = append(head, st)
		if len(st) >= len("bindRoutesToListeners(") && st[:len("bindRoutesToListeners(")] == "bindRoutesToListeners(" {
			break
		}
	}
	m.strs("buildGraphHead", head, "statements of BuildGraph up to and including bindRoutesToListeners(...)")

	hr := src("internal/mode/static/state/graph/httproute.go")
	m.strs("buildHTTPRouteBody", hr.stmts(hr.fn("", "buildHTTPRoute").Body), "statements of buildHTTPRoute")
	m.strs("processHTTPRouteRulesBody", hr.stmts(hr.fn("", "processHTTPRouteRules").Body), "statements of processHTTPRouteRules")

	br := src("internal/mode/static/state/graph/backend_refs.go")
	m.strs("addBackendRefsToRulesBody", br.stmts(br.fn("", "addBackendRefsToRules").Body), "statements of addBackendRefsToRules")

	// policy ancestors of Service-targeting policies (mirrored by lean/NGF/Model/PolicyAttach.lean)
	po := src("internal/mode/static/state/graph/policies.go")
	m.strs("attachPoliciesBody", po.stmts(po.fn("Graph", "attachPolicies").Body), "statements of Graph.attachPolicies")
	m.strs("attachPolicyToServiceBody", po.stmts(po.fn("", "attachPolicyToService").Body), "statements of attachPolicyToService")
	pa := src("internal/mode/static/state/graph/policy_ancestor.go")
	m.strs("ancestorsContainsAncestorRefBody", pa.stmts(pa.fn("", "ancestorsContainsAncestorRef").Body),
		"statements of ancestorsContainsAncestorRef")

	pr := src("internal/mode/static/status/prepare_requests.go")
	m.strs("prepareRouteRequestsBody", pr.stmts(pr.fn("", "PrepareRouteRequests").Body), "statements of PrepareRouteRequests")
}
