package main

import (
	"fmt"
	"go/ast"
	"go/parser"
	"go/token"
	"os"
	"path/filepath"
	"sort"
	"strings"
)

func init() { register("PanicSites", genPanics) }

// C05: every explicit `panic(` of the control-plane packages, every index write into a slice created
// with length zero, and the statement lists of the functions mirrored in lean/NGF/Model/PanicSites.lean.

// panicRoots are scanned recursively (tests and generated fakes excluded).
var panicRoots = []string{
	"internal/mode/static/state",
	"internal/mode/static/nginx/config",
	"internal/mode/static/status",
	"internal/mode/static/handler.go",
	"internal/framework",
}

type panicSite struct{ file, fn, guard, arg string }

func goFilesUnder(rel string) []string {
	full := filepath.Join(repo, rel)
	st, err := os.Stat(full)
	if err != nil {
		fail("PanicSites: %s missing", rel)
		return nil
	}
	if !st.IsDir() {
		return []string{rel}
	}
	var out []string
	_ = filepath.Walk(full, func(p string, info os.FileInfo, err error) error {
		if err != nil {
			return nil
		}
		if info.IsDir() {
			if strings.HasSuffix(info.Name(), "fakes") {
				return filepath.SkipDir
			}
			return nil
		}
		if strings.HasSuffix(p, ".go") && !strings.HasSuffix(p, "_test.go") && !strings.HasPrefix(info.Name(), "zz_verif_") {
			r, _ := filepath.Rel(repo, p)
			out = append(out, r)
		}
		return nil
	})
	sort.Strings(out)
	return out
}

func funcName(fd *ast.FuncDecl, s *srcFile) string {
	if fd.Recv != nil && len(fd.Recv.List) == 1 {
		t := fd.Recv.List[0].Type
		if st, ok := t.(*ast.StarExpr); ok {
			t = st.X
		}
		if ix, ok := t.(*ast.IndexExpr); ok {
			t = ix.X
		}
		return s.text(t) + "." + fd.Name.Name
	}
	return fd.Name.Name
}

// guardOf describes the innermost enclosing if / case of the node at the end of the stack.
func guardOf(s *srcFile, stack []ast.Node) string {
	for i := len(stack) - 2; i >= 0; i-- {
		switch x := stack[i].(type) {
		case *ast.IfStmt:
			child := stack[i+1]
			if child == ast.Node(x.Body) {
				return "if " + s.text(x.Cond)
			}
			if x.Else != nil && child == x.Else {
				return "else of " + s.text(x.Cond)
			}
		case *ast.CaseClause:
			// find the switch
			tag := ""
			for j := i - 1; j >= 0; j-- {
				if sw, ok := stack[j].(*ast.SwitchStmt); ok {
					if sw.Tag != nil {
						tag = s.text(sw.Tag)
					}
					break
				}
				if sw, ok := stack[j].(*ast.TypeSwitchStmt); ok {
					tag = s.text(sw.Assign)
					break
				}
			}
			if x.List == nil {
				return "switch " + tag + " default"
			}
			var cs []string
			for _, e := range x.List {
				cs = append(cs, s.text(e))
			}
			return "switch " + tag + " case " + strings.Join(cs, ", ")
		case *ast.FuncLit:
			// keep going outwards: the closure's own guard is what matters, but if none, say closure
			continue
		}
	}
	return "unconditional"
}

func parseRel(rel string) *srcFile {
	if s, ok := parsed[rel]; ok {
		return s
	}
	fset := token.NewFileSet()
	f, err := parser.ParseFile(fset, filepath.Join(repo, rel), nil, parser.ParseComments)
	if err != nil {
		fail("PanicSites: parse %s: %v", rel, err)
		return nil
	}
	s := &srcFile{fset, f, rel}
	parsed[rel] = s
	return s
}

// zeroLenMake reports whether e is make([]T, 0) or make([]T, 0, n).
func zeroLenMake(e ast.Expr) bool {
	ce, ok := e.(*ast.CallExpr)
	if !ok || len(ce.Args) < 2 {
		return false
	}
	if id, ok := ce.Fun.(*ast.Ident); !ok || id.Name != "make" {
		return false
	}
	at, ok := ce.Args[0].(*ast.ArrayType)
	if !ok || at.Len != nil {
		return false
	}
	bl, ok := ce.Args[1].(*ast.BasicLit)
	return ok && bl.Kind == token.INT && bl.Value == "0"
}

func leanTriples(xs [][3]string) string {
	if len(xs) == 0 {
		return "[]"
	}
	parts := make([]string, len(xs))
	for i, x := range xs {
		parts[i] = fmt.Sprintf("(%s, %s, %s)", leanStr(x[0]), leanStr(x[1]), leanStr(x[2]))
	}
	return "[" + strings.Join(parts, ",\n   ") + "]"
}

func genPanics() {
	m := newModule("PanicSites", "PanicSites")
	var sites []panicSite
	var writes [][3]string
	nFiles := 0
	for _, root := range panicRoots {
		for _, rel := range goFilesUnder(root) {
			s := parseRel(rel)
			if s == nil {
				continue
			}
			nFiles++
			for _, d := range s.f.Decls {
				fd, ok := d.(*ast.FuncDecl)
				if !ok || fd.Body == nil {
					continue
				}
				fn := funcName(fd, s)
				// explicit panics
				var stack []ast.Node
				ast.Inspect(fd.Body, func(n ast.Node) bool {
					if n == nil {
						stack = stack[:len(stack)-1]
						return true
					}
					stack = append(stack, n)
					if ce, ok := n.(*ast.CallExpr); ok {
						if id, ok := ce.Fun.(*ast.Ident); ok && id.Name == "panic" && len(ce.Args) == 1 {
							sites = append(sites, panicSite{rel, fn, guardOf(s, stack), s.text(ce.Args[0])})
						}
					}
					return true
				})
				// index writes into zero-length slices: x := make([]T, 0, n) ... x[i] = v
				zero := map[string]bool{}
				ast.Inspect(fd.Body, func(n ast.Node) bool {
					as, ok := n.(*ast.AssignStmt)
					if !ok {
						return true
					}
					for i, lhs := range as.Lhs {
						if i < len(as.Rhs) {
							if id, ok := lhs.(*ast.Ident); ok {
								if zeroLenMake(as.Rhs[i]) {
									zero[id.Name] = true
								} else if len(as.Lhs) == len(as.Rhs) {
									// re-assigned from something else (append(x, …) keeps the name but grows it)
									if ce, ok := as.Rhs[i].(*ast.CallExpr); !ok || s.text(ce.Fun) != "append" {
										delete(zero, id.Name)
									}
								}
							}
						}
						if ix, ok := lhs.(*ast.IndexExpr); ok {
							if id, ok := ix.X.(*ast.Ident); ok && zero[id.Name] {
								writes = append(writes, [3]string{rel, fn, s.text(as)})
							}
						}
					}
					return true
				})
			}
		}
	}
	sort.Slice(sites, func(i, j int) bool {
		a, b := sites[i], sites[j]
		if a.file != b.file {
			return a.file < b.file
		}
		if a.fn != b.fn {
			return a.fn < b.fn
		}
		return a.guard < b.guard
	})
	var triples [][3]string
	var facts []map[string]string
	for _, p := range sites {
		triples = append(triples, [3]string{p.file, p.fn, p.guard})
		facts = append(facts, map[string]string{"file": p.file, "func": p.fn, "guard": p.guard, "arg": p.arg})
	}
	m.nat("filesScanned", nFiles, "number of non-test Go files scanned under the control-plane roots")
	m.raw("panicSites", "List (String × String × String)", leanTriples(triples),
		"every explicit panic( call: (file, enclosing function, innermost enclosing if/case guard)", facts)
	m.raw("zeroLenIndexWrites", "List (String × String × String)", leanTriples(writes),
		"every x[i] = … into a slice x created with make([]T, 0, …) in the same function: (file, function, statement)", writes)

	// implicit sites: optional-pointer dereferences, slice indexing, map writes (gen_panics_deref.go)
	func() {
		defer func() {
			if r := recover(); r != nil {
				fail("PanicSites: deref inventory: %v", r)
			}
		}()
		genDerefSites(m)
	}()

	// statement lists of the mirrored functions (the Lean mirrors are pinned to these texts)
	body := func(name, rel, recv, fn string) {
		defer func() {
			if r := recover(); r != nil {
				fail("PanicSites: %s: %v", name, r)
				m.strs(name, nil, "NOT FOUND")
			}
		}()
		s := src(rel)
		m.strs(name, s.stmts(s.fn(recv, fn).Body), "top-level statements of "+fn+" ("+rel+")")
	}
	g := "internal/mode/static/state/graph/"
	body("nsAllowedBody", g+"route_common.go", "", "isRouteNamespaceAllowedByListener")
	body("bindL7Body", g+"route_common.go", "", "bindL7RouteToListeners")
	body("bindL4Body", g+"route_common.go", "", "bindL4RouteToListeners")
	body("validateParentRefBody", g+"route_common.go", "", "validateParentRef")
	body("findAttachableBody", g+"route_common.go", "", "findAttachableListeners")
	body("bindToListenerL4Body", g+"route_common.go", "", "bindToListenerL4")
	body("validatePathMatchBody", g+"httproute.go", "", "validatePathMatch")
	body("setPlusSecretContentBody", g+"graph.go", "", "setPlusSecretContent")
	body("validateFilterBody", g+"common_filter.go", "", "validateFilter")
	body("validateFilterTypeBody", g+"common_filter.go", "", "validateFilterType")
	body("findBackendTLSPolicyForServiceBody", g+"backend_refs.go", "", "findBackendTLSPolicyForService")
	body("getServicePortBody", g+"backend_refs.go", "", "getServicePort")
	body("getIPFamilyAndPortFromRefBody", g+"backend_refs.go", "", "getIPFamilyAndPortFromRef")
	body("convertPathTypeBody", "internal/mode/static/state/dataplane/convert.go", "", "convertPathType")
	body("buildAuxiliarySecretsBody", "internal/mode/static/state/dataplane/configuration.go", "", "buildAuxiliarySecrets")
	body("storeUpsertBody", "internal/mode/static/state/store.go", "changeTrackingUpdater", "upsert")
	body("storeDeleteBody", "internal/mode/static/state/store.go", "changeTrackingUpdater", "delete")
	body("funcPredicateUpsertBody", "internal/mode/static/state/changed_predicate.go", "funcPredicate", "upsert")
	body("funcPredicateDeleteBody", "internal/mode/static/state/changed_predicate.go", "funcPredicate", "delete")
	body("storeUpsertOuterBody", "internal/mode/static/state/store.go", "changeTrackingUpdater", "Upsert")
	body("storeDeleteOuterBody", "internal/mode/static/state/store.go", "changeTrackingUpdater", "Delete")
	// task C05-nil: the functions mirrored in lean/NGF/Model/NilGuards.lean
	body("validateBackendRefBody", g+"backend_refs.go", "", "validateBackendRef")
	body("getConfiguratorForListenerBody", g+"gateway_listener.go", "listenerConfiguratorFactory", "getConfiguratorForListener")
	body("configureListenerBody", g+"gateway_listener.go", "listenerConfigurator", "configure")
	body("createHTTPSListenerValidatorBody", g+"gateway_listener.go", "", "createHTTPSListenerValidator")
	body("tlsSecretsResolverBody", g+"gateway_listener.go", "", "createExternalReferencesForTLSSecretsResolver")
	body("processBackendTLSPoliciesBody", g+"backend_tls_policy.go", "", "processBackendTLSPolicies")
	body("validateFilterHeaderModifierBody", g+"common_filter.go", "", "validateFilterHeaderModifier")
	body("validateFilterRedirectBody", g+"httproute.go", "", "validateFilterRedirect")
	body("validateFilterRewriteBody", g+"httproute.go", "", "validateFilterRewrite")
	body("convertPathModifierBody", "internal/mode/static/state/dataplane/convert.go", "", "convertPathModifier")
	body("createHTTPFiltersBody", "internal/mode/static/state/dataplane/configuration.go", "", "createHTTPFilters")
	body("buildServersBody", "internal/mode/static/state/dataplane/configuration.go", "", "buildServers")

	// the condition guarding Resolve's panic and the loop of upsertRoute that fills both host maps
	func() {
		defer func() {
			if r := recover(); r != nil {
				fail("PanicSites: extra facts: %v", r)
			}
		}()
		s := src("internal/mode/static/state/dataplane/configuration.go")
		up := s.fn("hostPathRules", "upsertRoute")
		var hostLoop []string
		var matchLoopUses []string
		walk(up.Body, func(n ast.Node) bool {
			rs, ok := n.(*ast.RangeStmt)
			if !ok {
				return true
			}
			if s.text(rs.X) == "hostnames" && len(hostLoop) == 0 {
				hostLoop = s.stmts(rs.Body)
			}
			if s.text(rs.X) == "route.Spec.Rules" {
				if len(rs.Body.List) > 0 {
					matchLoopUses = append(matchLoopUses, s.text(rs.Body.List[0]))
				}
			}
			return true
		})
		m.strs("upsertRouteHostLoop", hostLoop, "body of the first `for _, h := range hostnames` of hostPathRules.upsertRoute")
		m.strs("upsertRouteRuleGuard", matchLoopUses, "first statement of the rule loop of hostPathRules.upsertRoute")
		// supported filter types and the cases of the switch in validateFilter (identifier names without
		// the "Filter" prefix, which are the Gateway API type strings)
		fs := src(g + "common_filter.go")
		strip := func(id string) string { return strings.TrimPrefix(id, "Filter") }
		for _, name := range []string{"supportedHTTPFilterTypes", "supportedGRPCFilterTypes"} {
			var elems []string
			if cl, ok := fs.valueSpec(name).(*ast.CompositeLit); ok {
				for _, e := range cl.Elts {
					elems = append(elems, strip(fs.text(e)))
				}
			}
			m.strs(name, elems, "elements of "+name+" (Filter prefix stripped)")
		}
		m.strs("validateFilterCases", switchCases(fs, fs.fn("", "validateFilter"), "filter.FilterType", strip),
			"non-default cases of the switch over filter.FilterType in validateFilter")
		// RouteType: the constants, the values given to L7Route.RouteType, the cases of the switches over it
		rc := src(g + "route_common.go")
		var consts []string
		for _, n := range []string{"RouteTypeHTTP", "RouteTypeGRPC"} {
			consts = append(consts, n+"="+rc.strValue(rc.valueSpec(n)))
		}
		m.strs("routeTypeConsts", consts, "RouteType constants")
		var assigned []string
		for _, rel := range goFilesUnder("internal/mode/static/state/graph") {
			f := parseRel(rel)
			if f == nil {
				continue
			}
			walk(f.f, func(n ast.Node) bool {
				cl, ok := n.(*ast.CompositeLit)
				if !ok || cl.Type == nil || f.text(cl.Type) != "L7Route" {
					return true
				}
				for _, e := range cl.Elts {
					if kv, ok := e.(*ast.KeyValueExpr); ok && f.text(kv.Key) == "RouteType" {
						assigned = append(assigned, f.text(kv.Value))
					}
				}
				return true
			})
			// assignments x.RouteType = … outside composite literals
			walk(f.f, func(n ast.Node) bool {
				as, ok := n.(*ast.AssignStmt)
				if !ok {
					return true
				}
				for i, l := range as.Lhs {
					if sel, ok := l.(*ast.SelectorExpr); ok && sel.Sel.Name == "RouteType" && i < len(as.Rhs) {
						assigned = append(assigned, f.text(as.Rhs[i]))
					}
				}
				return true
			})
		}
		sort.Strings(assigned)
		m.strs("routeTypeAssigned", assigned, "every value given to an L7Route's / RouteKey's RouteType field in state/graph")
		id := func(x string) string { return x }
		m.strs("convertRouteTypeCases", switchCases(rc, rc.fn("", "convertRouteType"), "routeType", id), "cases of convertRouteType")
		m.strs("routeKeyForKindCases", switchCases(rc, rc.fn("", "routeKeyForKind"), "kind", id), "cases of routeKeyForKind")
		// guards of every call of routeKeyForKind (its precondition: kind is HTTPRoute or GRPCRoute)
		var rkGuards []string
		for _, rel := range goFilesUnder("internal/mode/static/state/graph") {
			f := parseRel(rel)
			if f == nil {
				continue
			}
			for _, d := range f.f.Decls {
				fd, ok := d.(*ast.FuncDecl)
				if !ok || fd.Body == nil {
					continue
				}
				var stack []ast.Node
				ast.Inspect(fd.Body, func(n ast.Node) bool {
					if n == nil {
						stack = stack[:len(stack)-1]
						return true
					}
					stack = append(stack, n)
					if ce, ok := n.(*ast.CallExpr); ok && f.text(ce.Fun) == "routeKeyForKind" {
						// innermost enclosing case clause
						gd := "unguarded"
						for i := len(stack) - 1; i >= 0; i-- {
							if cc, ok := stack[i].(*ast.CaseClause); ok {
								var cs []string
								for _, e := range cc.List {
									cs = append(cs, f.text(e))
								}
								gd = strings.Join(cs, ", ")
								break
							}
						}
						rkGuards = append(rkGuards, funcName(fd, f)+": case "+gd)
					}
					return true
				})
			}
		}
		sort.Strings(rkGuards)
		m.strs("routeKeyForKindCallGuards", rkGuards, "innermost enclosing case clause of every call of routeKeyForKind")
		br := src(g + "backend_refs.go")
		m.strs("refGrantFromCases", switchCases(br, br.fn("", "getRefGrantFromResourceForRoute"), "routeType", id),
			"cases of getRefGrantFromResourceForRoute")
		pr := src("internal/mode/static/status/prepare_requests.go")
		m.strs("prepareRouteRequestsCases", switchCases(pr, pr.fn("", "PrepareRouteRequests"), "r.RouteType", strip2("graph.")),
			"cases of the switch over r.RouteType in PrepareRouteRequests")
		cv := src("internal/mode/static/state/dataplane/convert.go")
		m.strs("convertPathTypeCases", switchCases(cv, cv.fn("", "convertPathType"), "pathType", strip2("v1.")), "cases of convertPathType")
		// kinds the change-tracking updater is configured for, and whether they have a store
		cp := src("internal/mode/static/state/change_processor.go")
		var cfgs []string
		walk(cp.fn("", "NewChangeProcessorImpl").Body, func(n ast.Node) bool {
			cl, ok := n.(*ast.CompositeLit)
			if !ok {
				return true
			}
			gvk, store := "", ""
			for _, e := range cl.Elts {
				if kv, ok := e.(*ast.KeyValueExpr); ok {
					switch cp.text(kv.Key) {
					case "gvk":
						gvk = cp.text(kv.Value)
					case "store":
						store = cp.text(kv.Value)
					}
				}
			}
			if gvk != "" && store != "" {
				t := gvk
				if i := strings.LastIndex(t, "."); i >= 0 {
					t = t[i+1:]
				}
				t = strings.TrimSuffix(strings.TrimSuffix(t, ")"), "{}")
				cfgs = append(cfgs, t+":"+map[bool]string{true: "0", false: "1"}[store == "nil"])
			}
			return true
		})
		m.strs("storeKindCfgs", cfgs, "changeTrackingUpdaterObjectTypeCfg entries of NewChangeProcessorImpl: <Go type>:<has store>")
		var cfgKinds []string
		for _, c := range cfgs {
			cfgKinds = append(cfgKinds, c[:strings.Index(c, ":")])
		}
		m.strs("storeKinds", cfgKinds, "the Go types of storeKindCfgs")
		// kinds the manager registers controllers for (events of these kinds reach the processor)
		mg := src("internal/mode/static/manager.go")
		var watched []string
		walk(mg.fn("", "registerControllers").Body, func(n ast.Node) bool {
			kv, ok := n.(*ast.KeyValueExpr)
			if !ok || mg.text(kv.Key) != "objectType" {
				return true
			}
			t := mg.text(kv.Value)
			if i := strings.LastIndex(t, "."); i >= 0 {
				t = t[i+1:]
			}
			t = strings.TrimSuffix(t, "{}")
			if t == "&crdWithGVK" {
				t = "CustomResourceDefinition" // apiext.CustomResourceDefinition{} with its GVK set (metadata-only watch)
			}
			watched = append(watched, t)
			return true
		})
		sort.Strings(watched)
		m.strs("watchedKinds", watched, "objectType of every controller registered by registerControllers (Go type names)")
	}()
}

func strip2(prefix string) func(string) string {
	return func(x string) string { return strings.TrimPrefix(x, prefix) }
}

// switchCases returns the expressions of the non-default cases of the first switch over `tag` in fd.
func switchCases(s *srcFile, fd *ast.FuncDecl, tag string, norm func(string) string) []string {
	var out []string
	found := false
	walk(fd.Body, func(n ast.Node) bool {
		sw, ok := n.(*ast.SwitchStmt)
		if !ok || found || sw.Tag == nil || s.text(sw.Tag) != tag {
			return true
		}
		found = true
		for _, c := range sw.Body.List {
			for _, e := range c.(*ast.CaseClause).List {
				out = append(out, norm(s.text(e)))
			}
		}
		return false
	})
	if !found {
		fail("PanicSites: switch over %s not found in %s", tag, fd.Name.Name)
	}
	return out
}
