package main

import (
	"go/ast"
	"os"
	"path/filepath"
	"sort"
	"strings"
)

func init() { register("OrderFacts", genOrder) }

// C14: the comparison functions, which sort function each site calls, and every `for … range <map>`
// of the anchored files with what its body does (append to a slice that is / is not sorted afterwards,
// write into another map, call a function, keep a running minimum).
func genOrder() {
	m := newModule("OrderFacts", "Order")

	srt := src("internal/mode/static/sort/sort.go")
	m.strs("lessObjectMetaBody", srt.stmts(srt.fn("", "LessObjectMeta").Body), "statements of sort.LessObjectMeta")
	m.strs("lessClientObjectBody", srt.stmts(srt.fn("", "LessClientObject").Body), "statements of sort.LessClientObject")

	dps := src("internal/mode/static/state/dataplane/sort.go")
	m.strs("higherPriorityBody", dps.stmts(dps.fn("", "higherPriority").Body), "statements of dataplane.higherPriority")
	m.strs("sortMatchRulesBody", dps.stmts(dps.fn("", "sortMatchRules").Body), "statements of dataplane.sortMatchRules")

	anchored := []string{
		"internal/mode/static/state/graph/gateway.go",
		"internal/mode/static/state/graph/policies.go",
		"internal/mode/static/state/graph/route_common.go",
		"internal/mode/static/state/graph/backend_refs.go",
		"internal/mode/static/state/graph/gateway_listener.go",
		"internal/mode/static/state/dataplane/sort.go",
		"internal/mode/static/state/dataplane/configuration.go",
	}

	// map-typed struct fields and named map types of the two packages
	mapFields := map[string]bool{}
	mapTypes := map[string]bool{}
	for _, dir := range []string{"internal/mode/static/state/graph", "internal/mode/static/state/dataplane"} {
		ents, err := os.ReadDir(filepath.Join(repo, dir))
		if err != nil {
			fail("OrderFacts: %v", err)
			continue
		}
		for _, e := range ents {
			if !strings.HasSuffix(e.Name(), ".go") || strings.HasSuffix(e.Name(), "_test.go") {
				continue
			}
			f := src(filepath.Join(dir, e.Name()))
			walk(f.f, func(n ast.Node) bool {
				switch x := n.(type) {
				case *ast.TypeSpec:
					if _, ok := x.Type.(*ast.MapType); ok {
						mapTypes[x.Name.Name] = true
					}
				case *ast.StructType:
					for _, fl := range x.Fields.List {
						if _, ok := fl.Type.(*ast.MapType); ok {
							for _, nm := range fl.Names {
								mapFields[nm.Name] = true
							}
						}
					}
				}
				return true
			})
		}
	}
	isMapType := func(t ast.Expr) bool {
		switch x := t.(type) {
		case *ast.MapType:
			return true
		case *ast.Ident:
			return mapTypes[x.Name]
		}
		return false
	}

	var sortCalls, ranges []string
	for _, rel := range anchored {
		f := src(rel)
		base := filepath.Base(rel)
		for _, d := range f.f.Decls {
			fd, ok := d.(*ast.FuncDecl)
			if !ok || fd.Body == nil {
				continue
			}
			fname := fd.Name.Name
			if fd.Recv != nil && len(fd.Recv.List) == 1 {
				t := f.text(fd.Recv.List[0].Type)
				fname = strings.TrimPrefix(t, "*") + "." + fname
			}
			mapIdents := map[string]bool{}
			addFields := func(fl *ast.FieldList) {
				if fl == nil {
					return
				}
				for _, p := range fl.List {
					if isMapType(p.Type) {
						for _, nm := range p.Names {
							mapIdents[nm.Name] = true
						}
					}
				}
			}
			addFields(fd.Type.Params)
			addFields(fd.Recv)
			walk(fd.Body, func(n ast.Node) bool {
				switch x := n.(type) {
				case *ast.AssignStmt:
					if len(x.Lhs) == 1 && len(x.Rhs) == 1 {
						id, ok := x.Lhs[0].(*ast.Ident)
						if !ok {
							return true
						}
						switch r := x.Rhs[0].(type) {
						case *ast.CallExpr:
							if f.text(r.Fun) == "make" && len(r.Args) > 0 && isMapType(r.Args[0]) {
								mapIdents[id.Name] = true
							}
						case *ast.CompositeLit:
							if r.Type != nil && isMapType(r.Type) {
								mapIdents[id.Name] = true
							}
						}
					}
				case *ast.ValueSpec:
					if x.Type != nil && isMapType(x.Type) {
						for _, nm := range x.Names {
							mapIdents[nm.Name] = true
						}
					}
				case *ast.CallExpr:
					fn := f.text(x.Fun)
					if fn == "sort.Slice" || fn == "sort.SliceStable" || fn == "sort.Strings" || fn == "sort.Sort" || fn == "sort.Stable" {
						arg := ""
						if len(x.Args) > 0 {
							arg = f.text(x.Args[0])
						}
						sortCalls = append(sortCalls, base+":"+fname+": "+fn+"("+arg+")")
					}
				}
				return true
			})
			isMapExpr := func(e ast.Expr) bool {
				switch x := e.(type) {
				case *ast.Ident:
					return mapIdents[x.Name]
				case *ast.SelectorExpr:
					return mapFields[x.Sel.Name]
				case *ast.IndexExpr:
					// element of a map of maps, e.g. rulesForProtocol[p]
					return false
				}
				return false
			}
			walk(fd.Body, func(n ast.Node) bool {
				rs, ok := n.(*ast.RangeStmt)
				if !ok || !isMapExpr(rs.X) {
					return true
				}
				var acts []string
				seen := map[string]bool{}
				add := func(a string) {
					if !seen[a] {
						seen[a] = true
						acts = append(acts, a)
					}
				}
				// only the statements of this loop body, not of nested map ranges (they are listed themselves)
				var visit func(n ast.Node) bool
				visit = func(n ast.Node) bool {
					switch x := n.(type) {
					case *ast.RangeStmt:
						if x != rs && isMapExpr(x.X) {
							add("nested range " + f.text(x.X))
							return false
						}
					case *ast.AssignStmt:
						if len(x.Rhs) == 1 {
							if ce, ok := x.Rhs[0].(*ast.CallExpr); ok && f.text(ce.Fun) == "append" && len(x.Lhs) == 1 {
								target := f.text(x.Lhs[0])
								sorted := "unsorted"
								walk(fd.Body, func(m ast.Node) bool {
									c, ok := m.(*ast.CallExpr)
									if !ok || c.Pos() < rs.End() {
										return true
									}
									fn := f.text(c.Fun)
									if (fn == "sort.Slice" || fn == "sort.SliceStable" || fn == "sort.Strings") && len(c.Args) > 0 &&
										f.text(c.Args[0]) == target {
										sorted = "then " + fn
									}
									return true
								})
								add("append " + target + " [" + sorted + "]")
								return true
							}
						}
						for _, l := range x.Lhs {
							if ix, ok := l.(*ast.IndexExpr); ok {
								add("set " + f.text(ix.X) + "[…]")
							} else if se, ok := l.(*ast.SelectorExpr); ok {
								add("set ." + se.Sel.Name)
							} else if id, ok := l.(*ast.Ident); ok && x.Tok.String() == "=" {
								add("assign " + id.Name)
							}
						}
					case *ast.ExprStmt:
						if ce, ok := x.X.(*ast.CallExpr); ok {
							add("call " + f.text(ce.Fun))
						}
					}
					return true
				}
				ast.Inspect(rs.Body, visit)
				if len(acts) == 0 {
					acts = []string{"read only"}
				}
				ranges = append(ranges, base+":"+fname+": range "+f.text(rs.X)+" -> "+strings.Join(acts, "; "))
				return true
			})
		}
	}
	sort.Strings(sortCalls)
	sort.Strings(ranges)
	m.strs("sortCalls", sortCalls, "every call of a sort function in the anchored files (file:function: call(first argument))")
	m.strs("mapRangeSites", ranges, "every `for … range <map>` in the anchored files and what its body does; `append x [unsorted]` is a potential order dependence")
}
