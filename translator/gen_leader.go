package main

import (
	"go/ast"
	"go/token"
	"io/fs"
	"os"
	"path/filepath"
	"sort"
	"strings"
)

func init() { register("LeaderFacts", genLeader) }

// goFiles lists the non-test, non-fake .go files under rel (recursively when deep), relative to the repo.
func leaderGoFiles(rel string, deep bool) []string {
	var out []string
	root := filepath.Join(repo, rel)
	_ = filepath.WalkDir(root, func(p string, d fs.DirEntry, err error) error {
		if err != nil {
			return nil
		}
		if d.IsDir() {
			if p != root && (!deep || strings.HasSuffix(d.Name(), "fakes")) {
				return filepath.SkipDir
			}
			return nil
		}
		if strings.HasSuffix(p, ".go") && !strings.HasSuffix(p, "_test.go") {
			r, _ := filepath.Rel(repo, p)
			out = append(out, r)
		}
		return nil
	})
	sort.Strings(out)
	return out
}

func leaderRecvName(fd *ast.FuncDecl) string {
	if fd.Recv == nil || len(fd.Recv.List) != 1 {
		return ""
	}
	t := fd.Recv.List[0].Type
	if st, ok := t.(*ast.StarExpr); ok {
		t = st.X
	}
	if id, ok := t.(*ast.Ident); ok {
		return id.Name
	}
	return ""
}

// leaderIsLog: statements that only log.
func leaderIsLog(s *srcFile, st ast.Stmt) bool {
	es, ok := st.(*ast.ExprStmt)
	if !ok {
		return false
	}
	ce, ok := es.X.(*ast.CallExpr)
	if !ok {
		return false
	}
	return strings.Contains(s.text(ce.Fun), "logger")
}

// identUses returns, for every use of identifier name inside body (not its definition, not a
// composite-literal key), the text of the smallest enclosing call / key-value / assignment.
func leaderIdentUses(s *srcFile, body ast.Node, name string) []string {
	var out []string
	var stack []ast.Node
	ast.Inspect(body, func(n ast.Node) bool {
		if n == nil {
			stack = stack[:len(stack)-1]
			return true
		}
		if id, ok := n.(*ast.Ident); ok && id.Name == name {
			skip := false
			ctx := ""
			for i := len(stack) - 1; i >= 0 && ctx == ""; i-- {
				switch p := stack[i].(type) {
				case *ast.KeyValueExpr:
					if p.Key == ast.Node(id) {
						skip = true
					}
					ctx = s.text(p)
				case *ast.CallExpr:
					ctx = s.text(p)
				case *ast.AssignStmt:
					for _, l := range p.Lhs {
						if l == ast.Expr(id) && p.Tok == token.DEFINE {
							skip = true
						}
					}
					ctx = s.text(p)
				case *ast.SelectorExpr:
					if p.Sel == id { // a field or method called like the variable
						skip = true
						ctx = "sel"
					}
				case ast.Stmt:
					ctx = s.text(p)
				}
			}
			if !skip {
				out = append(out, ctx)
			}
		}
		stack = append(stack, n)
		return true
	})
	return out
}

// definedFrom finds `x := <fun>(...)` in body and returns x.
func leaderDefinedFrom(s *srcFile, body ast.Node, fun string) []string {
	var names []string
	walk(body, func(n ast.Node) bool {
		as, ok := n.(*ast.AssignStmt)
		if !ok || len(as.Lhs) != 1 || len(as.Rhs) != 1 {
			return true
		}
		if ce, ok := as.Rhs[0].(*ast.CallExpr); ok && s.text(ce.Fun) == fun {
			names = append(names, s.text(as.Lhs[0]))
		}
		return true
	})
	return names
}

// C09: structure of LeaderAwareGroupUpdater, the leader-election runnable and the static-mode wiring.
func genLeader() {
	m := newModule("LeaderFacts", "Leader")

	// --- internal/framework/status -------------------------------------------------------------
	const statusDir = "internal/framework/status"
	s := src(statusDir + "/leader_aware_group_updater.go")
	m.strs("updateGroupBody", s.stmts(s.fn("LeaderAwareGroupUpdater", "UpdateGroup").Body),
		"top-level statements of LeaderAwareGroupUpdater.UpdateGroup")
	m.strs("enableBody", s.stmts(s.fn("LeaderAwareGroupUpdater", "Enable").Body),
		"top-level statements of LeaderAwareGroupUpdater.Enable")
	m.strs("constructorBody", s.stmts(s.fn("", "NewLeaderAwareGroupUpdater").Body),
		"body of NewLeaderAwareGroupUpdater")

	var fields, methods, enabledWrites, lockUses, mapUses []string
	for _, rel := range leaderGoFiles(statusDir, false) {
		f := src(rel)
		for _, d := range f.f.Decls {
			switch x := d.(type) {
			case *ast.GenDecl:
				for _, sp := range x.Specs {
					ts, ok := sp.(*ast.TypeSpec)
					if !ok || ts.Name.Name != "LeaderAwareGroupUpdater" {
						continue
					}
					if st, ok := ts.Type.(*ast.StructType); ok {
						for _, fl := range st.Fields.List {
							for _, n := range fl.Names {
								fields = append(fields, n.Name+" "+f.text(fl.Type))
							}
						}
					}
				}
			case *ast.FuncDecl:
				if leaderRecvName(x) == "LeaderAwareGroupUpdater" {
					methods = append(methods, x.Name.Name)
				}
				if x.Body == nil {
					continue
				}
				walk(x.Body, func(n ast.Node) bool {
					switch y := n.(type) {
					case *ast.AssignStmt:
						for _, l := range y.Lhs {
							if se, ok := l.(*ast.SelectorExpr); ok && se.Sel.Name == "enabled" {
								enabledWrites = append(enabledWrites, x.Name.Name+": "+f.text(y))
							}
						}
					case *ast.SelectorExpr:
						if y.Sel.Name == "lock" {
							lockUses = append(lockUses, x.Name.Name)
						}
						if y.Sel.Name == "groupReqs" {
							mapUses = append(mapUses, x.Name.Name)
						}
					}
					return true
				})
			}
		}
	}
	sort.Strings(methods)
	m.strs("structFields", fields, "fields of LeaderAwareGroupUpdater")
	m.strs("methods", methods, "methods of LeaderAwareGroupUpdater in the whole package (non-test files)")
	m.strs("enabledWrites", enabledWrites, "every assignment to a field called `enabled` in the package: function and statement")
	m.strs("lockUses", lockUses, "functions in which a selector `.lock` occurs, one entry per occurrence")
	m.strs("groupReqsUses", mapUses, "functions in which a selector `.groupReqs` occurs, one entry per occurrence")

	u := src(statusDir + "/updater.go")
	upd := u.fn("Updater", "Update")
	var updShape []string
	for _, st := range upd.Body.List {
		if rs, ok := st.(*ast.RangeStmt); ok {
			updShape = append(updShape, "for range "+u.text(rs.X))
			for _, in := range rs.Body.List {
				if !leaderIsLog(u, in) {
					updShape = append(updShape, u.text(in))
				}
			}
		} else {
			updShape = append(updShape, u.text(st))
		}
	}
	m.strs("updaterUpdateShape", updShape, "Updater.Update: range expression and loop body minus logging")
	m.strs("updaterUpdateBody", u.stmts(upd.Body), "top-level statements of Updater.Update")
	m.strs("writeStatusesBody", u.stmts(u.fn("Updater", "writeStatuses").Body), "top-level statements of Updater.writeStatuses")
	ws := u.fn("Updater", "writeStatuses")
	wsResults := "-"
	if ws.Type.Results != nil {
		wsResults = u.text(ws.Type.Results)
	}
	m.str("writeStatusesResults", wsResults, "result list of Updater.writeStatuses (`-` = none)")

	// --- internal/framework/runnables -----------------------------------------------------------
	r := src("internal/framework/runnables/runnables.go")
	m.strs("runnableStartBody", r.stmts(r.fn("EnableAfterBecameLeader", "Start").Body),
		"body of EnableAfterBecameLeader.Start")
	m.strs("runnableNeedLeaderElectionBody", r.stmts(r.fn("EnableAfterBecameLeader", "NeedLeaderElection").Body),
		"body of EnableAfterBecameLeader.NeedLeaderElection")
	m.strs("runnableConstructorBody", r.stmts(r.fn("", "NewEnableAfterBecameLeader").Body),
		"body of NewEnableAfterBecameLeader")

	// --- internal/mode/static/manager.go ---------------------------------------------------------
	mg := src("internal/mode/static/manager.go")
	sm := mg.fn("", "StartManager")
	raw := leaderDefinedFrom(mg, sm.Body, "status.NewUpdater")
	wrapped := leaderDefinedFrom(mg, sm.Body, "status.NewLeaderAwareGroupUpdater")
	m.strs("rawUpdaterVars", raw, "variables of StartManager defined by status.NewUpdater(...)")
	m.strs("wrapperVars", wrapped, "variables of StartManager defined by status.NewLeaderAwareGroupUpdater(...)")
	var rawUses, wrapUses []string
	for _, v := range raw {
		rawUses = append(rawUses, leaderIdentUses(mg, sm.Body, v)...)
	}
	for _, v := range wrapped {
		wrapUses = append(wrapUses, leaderIdentUses(mg, sm.Body, v)...)
	}
	m.strs("rawUpdaterUses", rawUses, "every use of the raw status.Updater variable in StartManager (smallest enclosing call/key-value/assignment)")
	m.strs("wrapperUses", wrapUses, "every use of the leader-aware wrapper variable in StartManager")
	var enableRegs []string
	walk(sm.Body, func(n ast.Node) bool {
		if ce, ok := n.(*ast.CallExpr); ok && mg.text(ce.Fun) == "mgr.Add" {
			for _, v := range wrapped {
				if strings.Contains(mg.text(ce), v) {
					enableRegs = append(enableRegs, mg.text(ce))
					break
				}
			}
		}
		return true
	})
	m.strs("enableRegistrations", enableRegs, "mgr.Add(...) calls of StartManager that mention the wrapper")

	// --- every file of package static: how the handler reaches the status updater ---------------
	var newUpdaterSites, statusCalls, otherRefs, enableSelectors []string
	cfgFieldType := ""
	for _, rel := range leaderGoFiles("internal/mode/static", false) {
		f := src(rel)
		base := filepath.Base(rel)
		// call expressions h.cfg.statusUpdater.<M>(ctx, <group>, ...)
		callFuns := map[ast.Expr]bool{}
		walk(f.f, func(n ast.Node) bool {
			switch x := n.(type) {
			case *ast.CallExpr:
				ft := f.text(x.Fun)
				if ft == "status.NewUpdater" {
					newUpdaterSites = append(newUpdaterSites, base)
				}
				if se, ok := x.Fun.(*ast.SelectorExpr); ok {
					if inner, ok := se.X.(*ast.SelectorExpr); ok && inner.Sel.Name == "statusUpdater" {
						callFuns[inner] = true
						arg := ""
						if len(x.Args) > 1 {
							arg = f.text(x.Args[1])
						}
						statusCalls = append(statusCalls, f.text(inner)+"."+se.Sel.Name+"("+arg+")")
					}
				}
			case *ast.Field:
				for _, nm := range x.Names {
					if nm.Name == "statusUpdater" {
						cfgFieldType = f.text(x.Type)
					}
				}
			}
			return true
		})
		walk(f.f, func(n ast.Node) bool {
			if se, ok := n.(*ast.SelectorExpr); ok {
				if se.Sel.Name == "statusUpdater" && !callFuns[se] {
					otherRefs = append(otherRefs, base+": "+f.text(se))
				}
				if se.Sel.Name == "Enable" {
					enableSelectors = append(enableSelectors, base+": "+f.text(se))
				}
			}
			return true
		})
	}
	m.strs("newUpdaterSites", newUpdaterSites, "files of package static calling status.NewUpdater")
	m.str("handlerStatusUpdaterType", cfgFieldType, "declared type of the eventHandlerConfig field statusUpdater")
	m.strs("handlerStatusCalls", statusCalls, "every method call on a `.statusUpdater` selector in package static, with its group argument")
	m.strs("handlerStatusOtherRefs", otherRefs, "every other reference to a `.statusUpdater` selector in package static")
	m.strs("enableSelectors", enableSelectors, "every selector `.Enable` in package static")
	h := src("internal/mode/static/handler.go")
	m.strs("groupNames", []string{h.strConst("groupAllExceptGateways"), h.strConst("groupGateways"), h.strConst("groupControlPlane")},
		"values of the group-name constants of handler.go")

	// --- who talks to the status subresource at all ---------------------------------------------
	var statusWriters []string
	for _, dir := range []string{"internal/mode/static", "internal/framework"} {
		for _, rel := range leaderGoFiles(dir, true) {
			if _, err := os.Stat(filepath.Join(repo, rel)); err != nil {
				continue
			}
			f := src(rel)
			for _, d := range f.f.Decls {
				fd, ok := d.(*ast.FuncDecl)
				if !ok || fd.Body == nil {
					continue
				}
				walk(fd.Body, func(n ast.Node) bool {
					if ce, ok := n.(*ast.CallExpr); ok {
						if se, ok := ce.Fun.(*ast.SelectorExpr); ok &&
							(se.Sel.Name == "Status" || se.Sel.Name == "SubResource") && len(ce.Args) <= 1 {
							statusWriters = append(statusWriters, rel+": "+fd.Name.Name+": "+f.text(ce))
						}
					}
					return true
				})
			}
		}
	}
	m.strs("statusSubresourceSites", statusWriters,
		"every `.Status()` / `.SubResource(..)` call in internal/mode/static and internal/framework (non-test, non-fake)")

	genLeaderWiring(m)
}

// leaderEnclosingFuncs maps every call expression `<x>.statusUpdater.UpdateGroup(...)` of the file to its
// enclosing top-level function, in source order.
type leaderCallSite struct {
	fn   *ast.FuncDecl
	call *ast.CallExpr
	stmt ast.Stmt // the statement of fn's body (any depth) that is the call
}

func leaderUpdateGroupSites(f *srcFile) []leaderCallSite {
	var out []leaderCallSite
	for _, d := range f.f.Decls {
		fd, ok := d.(*ast.FuncDecl)
		if !ok || fd.Body == nil {
			continue
		}
		walk(fd.Body, func(n ast.Node) bool {
			es, ok := n.(*ast.ExprStmt)
			if !ok {
				return true
			}
			ce, ok := es.X.(*ast.CallExpr)
			if !ok {
				return true
			}
			if se, ok := ce.Fun.(*ast.SelectorExpr); ok && se.Sel.Name == "UpdateGroup" {
				if inner, ok := se.X.(*ast.SelectorExpr); ok && inner.Sel.Name == "statusUpdater" {
					out = append(out, leaderCallSite{fd, ce, es})
				}
			}
			return true
		})
	}
	return out
}

func leaderMentions(n ast.Node, name string) bool {
	found := false
	walk(n, func(x ast.Node) bool {
		if id, ok := x.(*ast.Ident); ok && id.Name == name {
			found = true
		}
		return !found
	})
	return found
}

// C09 wiring: where the slices handed to UpdateGroup come from (aliasing discipline of the call sites) and
// which handler paths submit which group.
func genLeaderWiring(m *module) {
	h := src("internal/mode/static/handler.go")
	var sites, defs, nonLocal, usesAfter []string
	for _, cs := range leaderUpdateGroupSites(h) {
		fn := cs.fn.Name.Name
		group, arg := "", ""
		if len(cs.call.Args) > 1 {
			group = h.text(cs.call.Args[1])
		}
		var rest []string
		for _, a := range cs.call.Args[2:] {
			rest = append(rest, h.text(a))
		}
		arg = strings.Join(rest, ", ")
		if cs.call.Ellipsis.IsValid() {
			arg += "..."
		}
		sites = append(sites, fn+": "+group+": "+arg)
		// the argument must be exactly one identifier spread with `...`
		if len(cs.call.Args) != 3 || !cs.call.Ellipsis.IsValid() {
			nonLocal = append(nonLocal, fn+": "+group+": not `ident...`: "+arg)
			continue
		}
		id, ok := cs.call.Args[2].(*ast.Ident)
		if !ok {
			nonLocal = append(nonLocal, fn+": "+group+": not an identifier: "+arg)
			continue
		}
		// every statement of the enclosing function that declares or assigns the identifier
		declared := false
		walk(cs.fn.Body, func(n ast.Node) bool {
			switch x := n.(type) {
			case *ast.AssignStmt:
				for _, l := range x.Lhs {
					if li, ok := l.(*ast.Ident); ok && li.Name == id.Name {
						defs = append(defs, fn+": "+h.text(x))
						if x.Tok == token.DEFINE {
							declared = true
						}
					}
				}
			case *ast.DeclStmt:
				if gd, ok := x.Decl.(*ast.GenDecl); ok {
					for _, sp := range gd.Specs {
						if vs, ok := sp.(*ast.ValueSpec); ok {
							for _, nm := range vs.Names {
								if nm.Name == id.Name {
									defs = append(defs, fn+": "+h.text(x))
									declared = true
								}
							}
						}
					}
				}
			}
			return true
		})
		if !declared {
			nonLocal = append(nonLocal, fn+": "+group+": "+id.Name+" is not declared in the function")
		}
		// any mention of the identifier in a statement that starts after the call statement
		walk(cs.fn.Body, func(n ast.Node) bool {
			st, ok := n.(ast.Stmt)
			if !ok {
				return true
			}
			if _, isBlock := st.(*ast.BlockStmt); isBlock {
				return true
			}
			if st.Pos() > cs.stmt.End() && leaderMentions(st, id.Name) {
				usesAfter = append(usesAfter, fn+": "+id.Name+": "+h.text(st))
				return false
			}
			return true
		})
	}
	m.strs("updateGroupCallSites", sites,
		"handler.go: every `.statusUpdater.UpdateGroup(ctx, group, arg)` call: enclosing function, group, argument")
	m.strs("updateGroupArgDefs", defs,
		"handler.go: per UpdateGroup call site, every statement of the enclosing function that declares or assigns the argument identifier")
	m.strs("updateGroupArgNonLocal", nonLocal,
		"handler.go: UpdateGroup call sites whose argument is not `ident...` with ident declared inside the enclosing function")
	m.strs("updateGroupArgUsesAfterCall", usesAfter,
		"handler.go: statements after an UpdateGroup call (same function) that mention the argument identifier")

	// no struct field and no package-level variable of package static / its status package / framework status
	// holds a slice of UpdateRequest (a buffer that could outlive a call)
	var fields, pkgVars []string
	for _, dir := range []string{"internal/mode/static", "internal/mode/static/status", "internal/framework/status"} {
		for _, rel := range leaderGoFiles(dir, false) {
			f := src(rel)
			for _, d := range f.f.Decls {
				gd, ok := d.(*ast.GenDecl)
				if !ok {
					continue
				}
				for _, sp := range gd.Specs {
					switch x := sp.(type) {
					case *ast.TypeSpec:
						st, ok := x.Type.(*ast.StructType)
						if !ok {
							continue
						}
						for _, fl := range st.Fields.List {
							tt := f.text(fl.Type)
							if !strings.Contains(tt, "UpdateRequest") {
								continue
							}
							for _, n := range fl.Names {
								fields = append(fields, rel+": "+x.Name.Name+"."+n.Name+" "+tt)
							}
						}
					case *ast.ValueSpec:
						if gd.Tok != token.VAR {
							continue
						}
						txt := f.text(x)
						if strings.Contains(txt, "UpdateRequest") {
							pkgVars = append(pkgVars, rel+": "+txt)
						}
					}
				}
			}
		}
	}
	m.strs("requestSliceFields", fields,
		"struct fields whose type mentions UpdateRequest in internal/mode/static, its status package and internal/framework/status")
	m.strs("requestPackageVars", pkgVars,
		"package-level variables that mention UpdateRequest in the same packages")

	// the Prepare*Requests functions return a slice they declared themselves
	pr := src("internal/mode/static/status/prepare_requests.go")
	var origins []string
	for _, d := range pr.f.Decls {
		fd, ok := d.(*ast.FuncDecl)
		if !ok || fd.Body == nil || fd.Recv != nil || fd.Type.Results == nil || len(fd.Type.Results.List) != 1 ||
			!ast.IsExported(fd.Name.Name) {
			continue
		}
		if pr.text(fd.Type.Results.List[0].Type) != "[]frameworkStatus.UpdateRequest" {
			continue
		}
		walk(fd.Body, func(n ast.Node) bool {
			if _, ok := n.(*ast.FuncLit); ok {
				return false
			}
			rs, ok := n.(*ast.ReturnStmt)
			if !ok || len(rs.Results) != 1 {
				return true
			}
			id, ok := rs.Results[0].(*ast.Ident)
			if !ok {
				origins = append(origins, fd.Name.Name+": return "+pr.text(rs.Results[0]))
				return true
			}
			decl := "?"
			walk(fd.Body, func(y ast.Node) bool {
				switch x := y.(type) {
				case *ast.AssignStmt:
					if x.Tok == token.DEFINE && len(x.Lhs) == 1 && pr.text(x.Lhs[0]) == id.Name {
						decl = pr.text(x)
					}
				case *ast.DeclStmt:
					if strings.HasPrefix(pr.text(x), "var "+id.Name+" ") {
						decl = pr.text(x)
					}
				}
				return true
			})
			origins = append(origins, fd.Name.Name+": return "+id.Name+": "+decl)
			return true
		})
	}
	m.strs("prepareResultOrigins", origins,
		"prepare_requests.go: every return of an exported function of result type []frameworkStatus.UpdateRequest with the declaration of the returned identifier")

	// which resource kinds each Prepare* function addresses (the judge attributes a write to a group by its kind)
	var resTypes []string
	for _, d := range pr.f.Decls {
		fd, ok := d.(*ast.FuncDecl)
		if !ok || fd.Body == nil {
			continue
		}
		seen := map[string]bool{}
		walk(fd.Body, func(n ast.Node) bool {
			kv, ok := n.(*ast.KeyValueExpr)
			if !ok {
				return true
			}
			if id, ok := kv.Key.(*ast.Ident); ok && id.Name == "ResourceType" {
				t := pr.text(kv.Value)
				if !seen[t] {
					seen[t] = true
					resTypes = append(resTypes, fd.Name.Name+": "+t)
				}
			}
			return true
		})
	}
	m.strs("prepareResourceTypes", resTypes,
		"prepare_requests.go: the distinct `ResourceType:` expressions of UpdateRequest literals, per function")

	// which handler path reaches which call site
	heb := h.fn("eventHandlerImpl", "HandleEventBatch")
	tail := ""
	if n := len(heb.Body.List); n > 0 {
		tail = h.text(heb.Body.List[n-1])
	}
	m.str("handleEventBatchLastStmt", tail, "last top-level statement of HandleEventBatch")
	noChangeTail := ""
	walk(heb.Body, func(n ast.Node) bool {
		if cc, ok := n.(*ast.CaseClause); ok && len(cc.List) == 1 && h.text(cc.List[0]) == "state.NoChange" && len(cc.Body) > 0 {
			noChangeTail = h.text(cc.Body[len(cc.Body)-1])
		}
		return true
	})
	m.str("noChangeCaseLastStmt", noChangeTail, "last statement of `case state.NoChange:` in HandleEventBatch")
	var callersUS, callersCP []string
	for _, d := range h.f.Decls {
		fd, ok := d.(*ast.FuncDecl)
		if !ok || fd.Body == nil {
			continue
		}
		walk(fd.Body, func(n ast.Node) bool {
			if ce, ok := n.(*ast.CallExpr); ok {
				switch h.text(ce.Fun) {
				case "h.updateStatuses":
					callersUS = append(callersUS, fd.Name.Name+": "+h.text(ce))
				case "h.updateControlPlaneAndSetStatus":
					callersCP = append(callersCP, fd.Name.Name+": "+h.text(ce))
				}
			}
			return true
		})
	}
	m.strs("updateStatusesCallers", callersUS, "handler.go: every call of h.updateStatuses with its enclosing function")
	m.strs("controlPlaneStatusCallers", callersCP,
		"handler.go: every call of h.updateControlPlaneAndSetStatus with its enclosing function")
	var filters []string
	ctor := h.fn("", "newEventHandlerImpl")
	walk(ctor.Body, func(n ast.Node) bool {
		kv, ok := n.(*ast.KeyValueExpr)
		if !ok {
			return true
		}
		if ce, ok := kv.Key.(*ast.CallExpr); ok && h.text(ce.Fun) == "objectFilterKey" && len(ce.Args) > 0 {
			filters = append(filters, h.text(ce.Args[0])+" => "+h.text(kv.Value))
			return false
		}
		return true
	})
	m.strs("objectFilterEntries", filters, "newEventHandlerImpl: object type and callbacks of every objectFilters entry")
}
