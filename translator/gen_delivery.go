package main

import (
	"go/ast"
	"go/parser"
	"go/token"
	"path/filepath"
	"strings"
)

func init() { register("DeliveryFacts", genDelivery) }

// parseOwn parses a private copy of a source file (not shared through `src`), so that this generator
// may strip logging statements from the tree without disturbing other generators.
func parseOwn(rel string) *srcFile {
	fset := token.NewFileSet()
	f, err := parser.ParseFile(fset, filepath.Join(repo, rel), nil, 0)
	if err != nil {
		panic("parse " + rel + ": " + err.Error())
	}
	return &srcFile{fset, f, rel}
}

// isLogStmt: `logger.X(...)` / `log.X(...)` expression statements and `logger := …` definitions.
func isLogStmt(s *srcFile, st ast.Stmt) bool {
	switch x := st.(type) {
	case *ast.ExprStmt:
		if ce, ok := x.X.(*ast.CallExpr); ok {
			t := s.text(ce.Fun)
			return strings.HasPrefix(t, "logger.") || strings.HasPrefix(t, "log.")
		}
	case *ast.AssignStmt:
		if len(x.Lhs) == 1 && s.text(x.Lhs[0]) == "logger" {
			return true
		}
	}
	return false
}

// stripLogging removes logging statements from every statement list under n (in place).
func stripLogging(s *srcFile, n ast.Node) {
	filter := func(l []ast.Stmt) []ast.Stmt {
		out := l[:0:0]
		for _, st := range l {
			if !isLogStmt(s, st) {
				out = append(out, st)
			}
		}
		return out
	}
	walk(n, func(x ast.Node) bool {
		switch b := x.(type) {
		case *ast.BlockStmt:
			b.List = filter(b.List)
		case *ast.CommClause:
			b.Body = filter(b.Body)
		case *ast.CaseClause:
			b.Body = filter(b.Body)
		}
		return true
	})
}

// C10 (delivery): Reconciler.Reconcile, FirstEventBatchPreparerImpl.Prepare and the prologue of EventLoop.Start.
func genDelivery() {
	m := newModule("DeliveryFacts", "Delivery")

	// ---- Reconciler.Reconcile
	rs := parseOwn("internal/framework/controller/reconciler.go")
	rec := rs.fn("Reconciler", "Reconcile")
	stripLogging(rs, rec.Body)
	m.strs("reconcileStmts", rs.stmts(rec.Body), "top-level statements of Reconciler.Reconcile, logging removed")

	// the context parameter
	ctxParam := ""
	for _, p := range rec.Type.Params.List {
		if rs.text(p.Type) == "context.Context" && len(p.Names) == 1 {
			ctxParam = p.Names[0].Name
		}
	}
	m.str("reconcileCtxParam", ctxParam, "name of the context.Context parameter of Reconcile")

	// every re-binding of that name inside the body, every use of package context / time
	var rebinds, ctxCalls []string
	walk(rec.Body, func(n ast.Node) bool {
		switch x := n.(type) {
		case *ast.AssignStmt:
			for _, l := range x.Lhs {
				if id, ok := l.(*ast.Ident); ok && id.Name == ctxParam {
					rebinds = append(rebinds, rs.text(x))
				}
			}
		case *ast.ValueSpec:
			for _, id := range x.Names {
				if id.Name == ctxParam {
					rebinds = append(rebinds, rs.text(x))
				}
			}
		case *ast.SelectorExpr:
			if id, ok := x.X.(*ast.Ident); ok && (id.Name == "context" || id.Name == "time") {
				ctxCalls = append(ctxCalls, rs.text(x))
			}
		case *ast.FuncLit:
			for _, p := range x.Type.Params.List {
				for _, id := range p.Names {
					if id.Name == ctxParam {
						rebinds = append(rebinds, "func-literal parameter "+id.Name)
					}
				}
			}
		}
		return true
	})
	m.strs("reconcileCtxRebinds", rebinds, "statements inside Reconcile that assign or redeclare the context parameter")
	m.strs("reconcileContextUses", ctxCalls, "uses of package context or package time inside Reconcile (derived contexts, timers)")

	// the final select
	var arms []string
	var armBodies [][]string
	nSel := 0
	selTop := false
	walk(rec.Body, func(n ast.Node) bool {
		if sel, ok := n.(*ast.SelectStmt); ok {
			nSel++
			for _, st := range rec.Body.List {
				if st == ast.Stmt(sel) {
					selTop = true
				}
			}
			for _, c := range sel.Body.List {
				cc := c.(*ast.CommClause)
				if cc.Comm == nil {
					arms = append(arms, "default")
				} else {
					arms = append(arms, rs.text(cc.Comm))
				}
				body := []string{}
				for _, st := range cc.Body {
					body = append(body, rs.text(st))
				}
				armBodies = append(armBodies, body)
			}
		}
		return true
	})
	m.nat("reconcileSelectCount", nSel, "number of select statements in Reconcile")
	m.boolean("reconcileSelectTopLevel", selTop, "the select is a top-level statement of Reconcile (not inside a loop or a goroutine)")
	m.strs("reconcileSelectArms", arms, "communication clauses of the select in Reconcile")
	for i, b := range armBodies {
		m.strs("reconcileArmBody"+string(rune('0'+i)), b, "statements (minus logging) of select arm "+string(rune('0'+i))+" of Reconcile")
	}
	// go statements / loops in Reconcile
	nGo, nFor := 0, 0
	walk(rec.Body, func(n ast.Node) bool {
		switch n.(type) {
		case *ast.GoStmt:
			nGo++
		case *ast.ForStmt, *ast.RangeStmt:
			nFor++
		}
		return true
	})
	m.nat("reconcileGoCount", nGo, "go statements in Reconcile")
	m.nat("reconcileLoopCount", nFor, "for/range statements in Reconcile")

	// ---- FirstEventBatchPreparerImpl.Prepare
	ps := parseOwn("internal/framework/events/first_eventbatch_preparer.go")
	prep := ps.fn("FirstEventBatchPreparerImpl", "Prepare")
	m.strs("prepareStmts", ps.stmts(prep.Body), "top-level statements of FirstEventBatchPreparerImpl.Prepare")
	var branches []string
	walk(prep.Body, func(n ast.Node) bool {
		if b, ok := n.(*ast.BranchStmt); ok {
			branches = append(branches, ps.text(b))
		}
		return true
	})
	m.strs("prepareBranchStmts", branches, "break/continue/goto statements inside Prepare")

	// ---- EventLoop.Start: what happens before the loop
	ls := parseOwn("internal/framework/events/loop.go")
	start := ls.fn("EventLoop", "Start")
	var prologue []string
	for _, st := range start.Body.List {
		if _, ok := st.(*ast.ForStmt); ok {
			break
		}
		if as, ok := st.(*ast.AssignStmt); ok && len(as.Rhs) == 1 {
			if _, ok := as.Rhs[0].(*ast.FuncLit); ok {
				continue // the closures handleBatch / swapAndHandleBatch (LoopFacts)
			}
		}
		prologue = append(prologue, ls.text(st))
	}
	m.strs("startPrologue", prologue, "top-level statements of EventLoop.Start before the for loop, closures excluded")
}
