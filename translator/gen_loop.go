package main

import "go/ast"

func init() { register("LoopFacts", genLoop) }

// C10: structure of EventLoop.Start and swapBatches.
func genLoop() {
	m := newModule("LoopFacts", "Loop")
	s := src("internal/framework/events/loop.go")
	start := s.fn("EventLoop", "Start")

	var arms []string
	var armBodies [][]string
	nSelect, nFor := 0, 0
	walk(start.Body, func(n ast.Node) bool {
		switch x := n.(type) {
		case *ast.ForStmt:
			nFor++
		case *ast.SelectStmt:
			nSelect++
			for _, c := range x.Body.List {
				cc := c.(*ast.CommClause)
				if cc.Comm == nil {
					arms = append(arms, "default")
				} else {
					arms = append(arms, s.text(cc.Comm))
				}
				var body []string
				for _, st := range cc.Body {
					// logging statements are irrelevant to the protocol
					if es, ok := st.(*ast.ExprStmt); ok {
						if ce, ok := es.X.(*ast.CallExpr); ok {
							if sel, ok := ce.Fun.(*ast.SelectorExpr); ok && sel.Sel.Name == "Info" {
								continue
							}
						}
					}
					body = append(body, s.text(st))
				}
				armBodies = append(armBodies, body)
			}
		}
		return true
	})
	m.nat("selectCount", nSelect, "number of select statements in EventLoop.Start")
	m.nat("forCount", nFor, "number of for statements in EventLoop.Start")
	m.strs("selectArms", arms, "communication clauses of the select in EventLoop.Start")
	for i, b := range armBodies {
		m.strs("armBody"+string(rune('0'+i)), b, "statements (minus logging) of select arm "+string(rune('0'+i)))
	}

	// handlingDone := make(chan struct{}) — unbuffered?
	buffered := true
	found := false
	walk(start.Body, func(n ast.Node) bool {
		as, ok := n.(*ast.AssignStmt)
		if !ok || len(as.Lhs) != 1 || s.text(as.Lhs[0]) != "handlingDone" {
			return true
		}
		if ce, ok := as.Rhs[0].(*ast.CallExpr); ok && s.text(ce.Fun) == "make" {
			found = true
			buffered = len(ce.Args) > 1
		}
		return true
	})
	if !found {
		fail("LoopFacts: handlingDone := make(...) not found")
	}
	m.boolean("handlingDoneBuffered", buffered, "whether handlingDone is created with a capacity argument")

	// closures handleBatch / swapAndHandleBatch
	walk(start.Body, func(n ast.Node) bool {
		as, ok := n.(*ast.AssignStmt)
		if !ok || len(as.Lhs) != 1 {
			return true
		}
		name := s.text(as.Lhs[0])
		fl, ok := as.Rhs[0].(*ast.FuncLit)
		if !ok {
			return true
		}
		switch name {
		case "swapAndHandleBatch":
			m.strs("swapAndHandleBody", s.stmts(fl.Body), "body of the swapAndHandleBatch closure")
		case "handleBatch":
			// go func(batch EventBatch) { ... }(el.currentBatch)
			if len(fl.Body.List) == 1 {
				if g, ok := fl.Body.List[0].(*ast.GoStmt); ok {
					args := []string{}
					for _, a := range g.Call.Args {
						args = append(args, s.text(a))
					}
					m.strs("handleBatchGoArgs", args, "arguments the handler goroutine is started with")
					if inner, ok := g.Call.Fun.(*ast.FuncLit); ok {
						var seq []string
						for _, st := range inner.Body.List {
							t := s.text(st)
							if len(t) > 12 && (t[:12] == "batchLogger." || t[:12] == "batchLogger ") {
								continue
							}
							seq = append(seq, t)
						}
						m.strs("handlerGoroutineBody", seq, "statements (minus logging) of the handler goroutine")
					}
				}
			}
		}
		return true
	})

	sw := s.fn("EventLoop", "swapBatches")
	m.strs("swapBatchesBody", s.stmts(sw.Body), "body of swapBatches")
}
