package main

// C05 (task C05-nil): inventory of the IMPLICIT runtime-panic sites of the packages on the event path
// — dereferences of optional pointers, index expressions on slices, writes into maps — together with the
// dominating guard found for each. The packages are type-checked from source with go/types; their
// imports come from the compiler's export data (`go list -export`, warm build cache ≈ 1 s), so the
// classification uses the real types, not names.
//
// nil-able expression P (the thing that may be nil / too short) of a site:
//
//	field      x.F        F a pointer-typed field of a Gateway API / NGF API / core / meta struct
//	ifield     x.F        F a pointer-typed field of an NGF-internal struct (graph, dataplane, …)
//	ptr-var    v          identifier (parameter or local) of type *T, T an API struct that is not a
//	                      top-level object (an optional sub-structure such as *HTTPRequestRedirectFilter)
//	map-val    v          identifier assigned from a map index expression with a pointer value type
//	index      s          any slice-typed expression that is indexed: s[i]
//	map-write  m          any map-typed expression that is assigned through: m[k] = v
//
// A row of the table groups the uses of one P in one function that have the same guard:
// (file, function, class, P, guard kind, guard text, number of uses).

import (
	"crypto/sha256"
	"encoding/json"
	"fmt"
	"go/ast"
	"go/importer"
	"go/parser"
	"go/token"
	"go/types"
	"hash/fnv"
	"io"
	"os"
	"os/exec"
	"path/filepath"
	"sort"
	"strings"
)

// derefRoots: packages (relative to the repo root) whose functions are scanned; a non-empty file list
// restricts the scan to those files of the package.
var derefRoots = []struct {
	dir   string
	files []string
}{
	{"internal/mode/static/state", []string{"change_processor.go", "store.go", "changed_predicate.go"}},
	{"internal/mode/static/state/graph", nil},
	{"internal/mode/static/state/dataplane", nil},
	{"internal/mode/static/state/resolver", nil},
	{"internal/mode/static/state/conditions", nil},
	{"internal/mode/static/nginx/config", nil},
	{"internal/mode/static/nginx/config/policies", nil},
	{"internal/mode/static/nginx/config/policies/clientsettings", nil},
	{"internal/mode/static/nginx/config/policies/observability", nil},
	{"internal/mode/static/nginx/config/policies/upstreamsettings", nil},
	{"internal/mode/static/status", []string{"prepare_requests.go"}},
}

const ngfModule = "github.com/nginx/nginx-gateway-fabric"

type derefRow struct {
	File, Fn, Class, Expr, GuardKind, Guard string
	N                                       int
}

// id is a 48-bit FNV-1a hash of all columns (a cheap first comparison key for the Lean side; the full row
// is still compared when the ids agree).
func (r derefRow) id() uint64 {
	h := fnv.New64a()
	fmt.Fprintf(h, "%s\x00%s\x00%s\x00%s\x00%s\x00%s\x00%d", r.File, r.Fn, r.Class, r.Expr, r.GuardKind, r.Guard, r.N)
	return h.Sum64() & (1<<48 - 1)
}

type listedPkg struct {
	ImportPath string
	Export     string
	Dir        string
	GoFiles    []string
}

func goListExport() (map[string]*listedPkg, error) {
	args := []string{"list", "-export", "-deps", "-json=ImportPath,Export,Dir,GoFiles"}
	for _, r := range derefRoots {
		args = append(args, "./"+r.dir)
	}
	cmd := exec.Command("go", args...)
	cmd.Dir = repo
	env := os.Environ()
	env = append(env, "GOFLAGS=-mod=mod", "GOPROXY=off", "GOSUMDB=off", "GOTOOLCHAIN=local", "CGO_ENABLED=0")
	cmd.Env = env
	var stderr strings.Builder
	cmd.Stderr = &stderr
	out, err := cmd.Output()
	if err != nil {
		return nil, fmt.Errorf("go list -export: %v: %s", err, firstN(stderr.String(), 600))
	}
	pkgs := map[string]*listedPkg{}
	dec := json.NewDecoder(strings.NewReader(string(out)))
	for {
		var p listedPkg
		if err := dec.Decode(&p); err == io.EOF {
			break
		} else if err != nil {
			return nil, err
		}
		q := p
		pkgs[p.ImportPath] = &q
	}
	return pkgs, nil
}

func firstN(s string, n int) string {
	if len(s) > n {
		return s[:n]
	}
	return s
}

type typedPkg struct {
	fset  *token.FileSet
	files map[string]*ast.File // relative path → file
	info  *types.Info
}

func typeCheck(pkgs map[string]*listedPkg, dir string) (*typedPkg, error) {
	lp := pkgs[ngfModule+"/"+dir]
	if lp == nil {
		return nil, fmt.Errorf("package %s not listed", dir)
	}
	fset := token.NewFileSet()
	lookup := func(path string) (io.ReadCloser, error) {
		p := pkgs[path]
		if p == nil || p.Export == "" {
			return nil, fmt.Errorf("no export data for %s", path)
		}
		return os.Open(p.Export)
	}
	imp := importer.ForCompiler(fset, "gc", lookup)
	tp := &typedPkg{fset: fset, files: map[string]*ast.File{}, info: &types.Info{
		Types:      map[ast.Expr]types.TypeAndValue{},
		Selections: map[*ast.SelectorExpr]*types.Selection{},
		Uses:       map[*ast.Ident]types.Object{},
		Defs:       map[*ast.Ident]types.Object{},
	}}
	var files []*ast.File
	for _, gf := range lp.GoFiles {
		f, err := parser.ParseFile(fset, filepath.Join(lp.Dir, gf), nil, 0)
		if err != nil {
			return nil, err
		}
		files = append(files, f)
		tp.files[filepath.Join(dir, gf)] = f
	}
	var firstErr error
	conf := types.Config{Importer: imp, Error: func(err error) {
		if firstErr == nil {
			firstErr = err
		}
	}}
	_, _ = conf.Check(lp.ImportPath, fset, files, tp.info)
	if firstErr != nil {
		return nil, fmt.Errorf("type-check %s: %v", dir, firstErr)
	}
	return tp, nil
}

// ---------------------------------------------------------------- classification

func pkgClass(path string) string {
	switch {
	case strings.HasPrefix(path, "sigs.k8s.io/gateway-api/apis"):
		return "gwapi"
	case strings.HasPrefix(path, ngfModule+"/apis"):
		return "ngfapi"
	case strings.HasPrefix(path, "k8s.io/api/"):
		return "core"
	case path == "k8s.io/apimachinery/pkg/apis/meta/v1":
		return "meta"
	case strings.HasPrefix(path, ngfModule+"/internal/"):
		return "internal"
	}
	return ""
}

func isPtr(t types.Type) bool {
	_, ok := t.Underlying().(*types.Pointer)
	return ok
}

// apiSubStruct: t is *T with T a named struct of an API package that is not a top-level object.
func apiSubStruct(t types.Type) bool {
	p, ok := t.Underlying().(*types.Pointer)
	if !ok {
		return false
	}
	n, ok := p.Elem().(*types.Named)
	if !ok || n.Obj().Pkg() == nil {
		return false
	}
	c := pkgClass(n.Obj().Pkg().Path())
	if c == "" || c == "internal" {
		return false
	}
	st, ok := n.Underlying().(*types.Struct)
	if !ok {
		return false
	}
	for i := 0; i < st.NumFields(); i++ {
		if f := st.Field(i); f.Embedded() && (f.Name() == "ObjectMeta" || f.Name() == "TypeMeta" || f.Name() == "ListMeta") {
			return false
		}
	}
	return true
}

type derefScan struct {
	tp   *typedPkg
	file string
	fn   string
	fd   *ast.FuncDecl
	rows map[derefRow]int
	// per function
	safeIdents map[types.Object]bool    // pointer identifiers only ever assigned &x / &T{} / new(T)
	mapIdents  map[types.Object]string  // identifiers assigned from a map index: name of the ok variable ("" if none)
	madeIdents map[string]bool          // texts assigned from make(...) / composite literal (maps and slices)
	alias      map[string]string        // single-assignment identifiers `v := x.F…`: name → text of the right-hand side
	callers    map[string][]callerGuard // "<pkg>.<func>#<param index>" → guards of the argument at every call site
	collect    bool                     // pass 1: only record the guards of call arguments
}

// callerGuard: how one call site guards the (pointer) argument it passes.
type callerGuard struct{ caller, kind, text string }

// norm expands leading alias identifiers, so that `timeout := keepAlive.Timeout; if timeout.Server != nil` guards
// `*keepAlive.Timeout.Server` and the other way round.
func (d *derefScan) norm(p string) string {
	for k := 0; k < 4; k++ {
		r := rootIdent(p)
		q, ok := d.alias[r]
		if !ok || r == "" {
			return p
		}
		p = q + p[len(r):]
	}
	return p
}

func (d *derefScan) same(e ast.Expr, p string) bool { return d.norm(d.text(unparen(e))) == d.norm(p) }

func (d *derefScan) text(n ast.Node) string {
	s := &srcFile{d.tp.fset, nil, d.file}
	return s.text(n)
}

func unparen(e ast.Expr) ast.Expr {
	for {
		p, ok := e.(*ast.ParenExpr)
		if !ok {
			return e
		}
		e = p.X
	}
}

func (d *derefScan) typeOf(e ast.Expr) types.Type {
	if tv, ok := d.tp.info.Types[e]; ok {
		return tv.Type
	}
	if id, ok := e.(*ast.Ident); ok {
		if o := d.tp.info.Uses[id]; o != nil {
			return o.Type()
		}
		if o := d.tp.info.Defs[id]; o != nil {
			return o.Type()
		}
	}
	return nil
}

// nilable classifies e as a nil-able expression P; "" if it is not one we track.
func (d *derefScan) nilable(e ast.Expr) string {
	e = unparen(e)
	t := d.typeOf(e)
	if t == nil || !isPtr(t) {
		return ""
	}
	switch x := e.(type) {
	case *ast.SelectorExpr:
		sel := d.tp.info.Selections[x]
		if sel == nil || sel.Kind() != types.FieldVal {
			return ""
		}
		f, ok := sel.Obj().(*types.Var)
		if !ok || f.Pkg() == nil {
			return ""
		}
		switch c := pkgClass(f.Pkg().Path()); c {
		case "":
			return ""
		case "internal":
			return "ifield"
		default:
			return "field"
		}
	case *ast.Ident:
		o := d.tp.info.Uses[x]
		if o == nil {
			return ""
		}
		if _, ok := o.(*types.Var); !ok {
			return ""
		}
		if d.safeIdents[o] {
			return ""
		}
		if _, ok := d.mapIdents[o]; ok {
			return "map-val"
		}
		if apiSubStruct(t) {
			return "ptr-var"
		}
	}
	return ""
}

// prepare collects, for the current function, how identifiers are assigned.
func (d *derefScan) prepare() {
	d.safeIdents = map[types.Object]bool{}
	d.mapIdents = map[types.Object]string{}
	d.madeIdents = map[string]bool{}
	d.alias = map[string]string{}
	nAssign := map[string]int{}
	unsafe := map[types.Object]bool{}
	obj := func(id *ast.Ident) types.Object {
		if o := d.tp.info.Defs[id]; o != nil {
			return o
		}
		return d.tp.info.Uses[id]
	}
	nonNilRhs := func(e ast.Expr) bool {
		e = unparen(e)
		switch x := e.(type) {
		case *ast.UnaryExpr:
			return x.Op == token.AND
		case *ast.CallExpr:
			if id, ok := x.Fun.(*ast.Ident); ok && id.Name == "new" {
				return true
			}
			// helpers.GetPointer(...) and similar generic "address of a copy" helpers
			ft := d.text(x.Fun)
			return strings.HasSuffix(ft, "GetPointer") || strings.HasSuffix(ft, ".DeepCopy")
		}
		return false
	}
	made := func(e ast.Expr) bool {
		e = unparen(e)
		switch x := e.(type) {
		case *ast.CallExpr:
			if id, ok := x.Fun.(*ast.Ident); ok && id.Name == "make" {
				return true
			}
		case *ast.CompositeLit:
			return true
		}
		return false
	}
	ast.Inspect(d.fd, func(n ast.Node) bool {
		switch x := n.(type) {
		case *ast.AssignStmt:
			if len(x.Lhs) == 2 && len(x.Rhs) == 1 {
				if ix, ok := unparen(x.Rhs[0]).(*ast.IndexExpr); ok {
					if _, isMap := d.typeOfU(ix.X).(*types.Map); isMap {
						if id, ok := x.Lhs[0].(*ast.Ident); ok && id.Name != "_" {
							if o := obj(id); o != nil && isPtr(o.Type()) {
								okName := ""
								if id2, ok := x.Lhs[1].(*ast.Ident); ok {
									okName = id2.Name
								}
								d.mapIdents[o] = okName
							}
						}
						return true
					}
				}
			}
			for _, l := range x.Lhs {
				if id, ok := l.(*ast.Ident); ok {
					nAssign[id.Name]++
				}
			}
			if len(x.Lhs) == len(x.Rhs) {
				for i, l := range x.Lhs {
					if made(x.Rhs[i]) {
						d.madeIdents[d.text(l)] = true
					}
					if id, ok := l.(*ast.Ident); ok && id.Name != "_" {
						r := unparen(x.Rhs[i])
						if u, ok := r.(*ast.UnaryExpr); ok && u.Op == token.AND {
							r = nil // &x is a new pointer, not an alias of a nil-able expression
						}
						switch r.(type) {
						case *ast.SelectorExpr, *ast.IndexExpr:
							d.alias[id.Name] = d.text(r)
						}
					}
					id, ok := l.(*ast.Ident)
					if !ok || id.Name == "_" {
						continue
					}
					o := obj(id)
					if o == nil || !isPtr(o.Type()) {
						continue
					}
					if ix, ok := unparen(x.Rhs[i]).(*ast.IndexExpr); ok {
						if _, isMap := d.typeOfU(ix.X).(*types.Map); isMap {
							d.mapIdents[o] = ""
							continue
						}
					}
					if nonNilRhs(x.Rhs[i]) {
						if !unsafe[o] {
							d.safeIdents[o] = true
						}
					} else {
						unsafe[o] = true
						delete(d.safeIdents, o)
					}
				}
			} else {
				for _, l := range x.Lhs {
					if id, ok := l.(*ast.Ident); ok && id.Name != "_" {
						if o := obj(id); o != nil {
							unsafe[o] = true
							delete(d.safeIdents, o)
						}
					}
				}
			}
		case *ast.ValueSpec:
			for i, id := range x.Names {
				if i < len(x.Values) && made(x.Values[i]) {
					d.madeIdents[id.Name] = true
				}
			}
		case *ast.RangeStmt:
			// range variables over slices of pointers / maps: values, may be anything
			for _, e := range []ast.Expr{x.Key, x.Value} {
				if id, ok := e.(*ast.Ident); ok && id.Name != "_" {
					if o := obj(id); o != nil {
						unsafe[o] = true
						delete(d.safeIdents, o)
					}
				}
			}
		}
		return true
	})
	for name := range d.alias {
		if nAssign[name] != 1 || d.isParam(name) {
			delete(d.alias, name)
		}
	}
}

func (d *derefScan) typeOfU(e ast.Expr) types.Type {
	t := d.typeOf(e)
	if t == nil {
		return nil
	}
	return t.Underlying()
}

// ---------------------------------------------------------------- guards

func splitOp(e ast.Expr, op token.Token) []ast.Expr {
	e = unparen(e)
	if b, ok := e.(*ast.BinaryExpr); ok && b.Op == op {
		return append(splitOp(b.X, op), splitOp(b.Y, op)...)
	}
	return []ast.Expr{e}
}

func isNilIdent(e ast.Expr) bool {
	id, ok := unparen(e).(*ast.Ident)
	return ok && id.Name == "nil"
}

type target struct {
	class string
	p     string // text of P
	ok    string // name of the comma-ok variable bound with P (map-val), "" if none
	idx   string // text of the index expression (index class)
}

// positive: the atom c being true implies that P is usable (non-nil / long enough).
func (d *derefScan) positive(c ast.Expr, t target) bool {
	c = unparen(c)
	switch t.class {
	case "index":
		return d.mentionsLen(c, t.p)
	case "map-write":
		if b, ok := c.(*ast.BinaryExpr); ok && b.Op == token.NEQ {
			return (isNilIdent(b.Y) && d.same(b.X, t.p)) || (isNilIdent(b.X) && d.same(b.Y, t.p))
		}
		return false
	}
	if b, ok := c.(*ast.BinaryExpr); ok && b.Op == token.NEQ {
		if (isNilIdent(b.Y) && d.same(b.X, t.p)) || (isNilIdent(b.X) && d.same(b.Y, t.p)) {
			return true
		}
	}
	if t.ok != "" {
		if id, ok := c.(*ast.Ident); ok && id.Name == t.ok {
			return true
		}
	}
	return false
}

// negative: the atom c being FALSE implies that P is usable.
func (d *derefScan) negative(c ast.Expr, t target) bool {
	c = unparen(c)
	switch t.class {
	case "index":
		return d.mentionsLen(c, t.p)
	}
	if b, ok := c.(*ast.BinaryExpr); ok && b.Op == token.EQL {
		if (isNilIdent(b.Y) && d.same(b.X, t.p)) || (isNilIdent(b.X) && d.same(b.Y, t.p)) {
			return true
		}
	}
	if t.ok != "" {
		if u, ok := c.(*ast.UnaryExpr); ok && u.Op == token.NOT {
			if id, ok := unparen(u.X).(*ast.Ident); ok && id.Name == t.ok {
				return true
			}
		}
	}
	return false
}

func (d *derefScan) mentionsLen(c ast.Expr, p string) bool {
	found := false
	ast.Inspect(c, func(n ast.Node) bool {
		if ce, ok := n.(*ast.CallExpr); ok && len(ce.Args) == 1 {
			if id, ok := ce.Fun.(*ast.Ident); ok && id.Name == "len" && d.same(ce.Args[0], p) {
				found = true
			}
		}
		return !found
	})
	return found
}

func (d *derefScan) condPositive(cond ast.Expr, t target) bool {
	for _, c := range splitOp(cond, token.LAND) {
		if d.positive(c, t) {
			return true
		}
	}
	return false
}

func (d *derefScan) condNegative(cond ast.Expr, t target) bool {
	for _, c := range splitOp(cond, token.LOR) {
		if d.negative(c, t) {
			return true
		}
	}
	return false
}

func terminates(b *ast.BlockStmt) bool {
	if b == nil || len(b.List) == 0 {
		return false
	}
	switch x := b.List[len(b.List)-1].(type) {
	case *ast.ReturnStmt:
		return true
	case *ast.BranchStmt:
		return x.Tok == token.CONTINUE || x.Tok == token.BREAK || x.Tok == token.GOTO
	case *ast.ExprStmt:
		if ce, ok := x.X.(*ast.CallExpr); ok {
			if id, ok := ce.Fun.(*ast.Ident); ok && id.Name == "panic" {
				return true
			}
		}
	}
	return false
}

// assignsUsable: statement st makes P usable (P = &…, P = make(…), P = append(…), if P == nil { P = … }).
func (d *derefScan) assignsUsable(st ast.Stmt, t target) bool {
	switch x := st.(type) {
	case *ast.AssignStmt:
		if len(x.Lhs) == len(x.Rhs) {
			for i, l := range x.Lhs {
				if !d.same(l, t.p) {
					continue
				}
				r := unparen(x.Rhs[i])
				switch y := r.(type) {
				case *ast.UnaryExpr:
					return y.Op == token.AND
				case *ast.CompositeLit:
					return true
				case *ast.CallExpr:
					if id, ok := y.Fun.(*ast.Ident); ok && (id.Name == "make" || id.Name == "new") {
						return true
					}
					ft := d.text(y.Fun)
					return strings.HasSuffix(ft, "GetPointer")
				}
			}
		}
	case *ast.IfStmt:
		if x.Else == nil && d.condNegative(x.Cond, t) && len(x.Body.List) > 0 {
			for _, s := range x.Body.List {
				if d.assignsUsable(s, t) {
					return true
				}
			}
		}
	}
	return false
}

// guard finds the dominating guard of the use at the end of stack (stack[len-1] is the use node).
func (d *derefScan) guard(stack []ast.Node, t target) (kind, text string) {
	switchText := ""
	for i := len(stack) - 2; i >= 0; i-- {
		child := stack[i+1]
		switch x := stack[i].(type) {
		case *ast.BinaryExpr:
			if child == ast.Node(x.Y) || containsNode(x.Y, child) {
				if x.Op == token.LAND && d.condPositive(x.X, t) {
					return "short-circuit", d.text(x.X)
				}
				if x.Op == token.LOR && d.condNegative(x.X, t) {
					return "short-circuit", d.text(x.X)
				}
			}
		case *ast.IfStmt:
			if child == ast.Node(x.Body) && d.condPositive(x.Cond, t) {
				return "if", d.text(x.Cond)
			}
			if x.Else != nil && child == ast.Node(x.Else) && d.condNegative(x.Cond, t) {
				return "else", d.text(x.Cond)
			}
		case *ast.RangeStmt:
			if t.class == "index" && child == ast.Node(x.Body) && x.Key != nil && d.text(x.Key) == t.idx && d.same(x.X, t.p) {
				return "range", "range " + t.p
			}
		case *ast.CallExpr:
			// comparator of sort.Slice(P, func(i, j int) bool { … P[i] … })
			if t.class == "index" && len(x.Args) == 2 && strings.HasPrefix(d.text(x.Fun), "sort.Slice") &&
				child == ast.Node(x.Args[1]) && d.same(x.Args[0], t.p) {
				return "range", "comparator of " + d.text(x.Fun) + "(" + t.p + ", …)"
			}
		case *ast.ForStmt:
			if t.class == "index" && child == ast.Node(x.Body) && x.Cond != nil && d.mentionsLen(x.Cond, t.p) {
				return "for-len", d.text(x.Cond)
			}
		case *ast.CaseClause:
			// tag-less switch: `case P != nil:`, or an EARLIER clause `case P == nil:` / `case !ok:`
			for _, e := range x.List {
				if child != ast.Node(e) && !containsNode(e, child) && d.condPositive(e, t) {
					return "case", d.text(e)
				}
			}
			for j := i - 1; j >= 0; j-- {
				if sw, ok := stack[j].(*ast.SwitchStmt); ok {
					if sw.Tag == nil {
						for _, c := range sw.Body.List {
							cc := c.(*ast.CaseClause)
							if cc == x {
								break
							}
							for _, e := range cc.List {
								if d.condNegative(e, t) {
									return "case", "after case " + d.text(e)
								}
							}
						}
					}
					break
				}
			}
			if switchText == "" {
				for j := i - 1; j >= 0; j-- {
					if sw, ok := stack[j].(*ast.SwitchStmt); ok {
						if sw.Tag != nil && t.class == "index" && d.mentionsLen(sw.Tag, t.p) && len(x.List) > 0 {
							return "case", "switch " + d.text(sw.Tag) + " case " + d.text(x.List[0])
						}
						if sw.Tag != nil {
							var cs []string
							for _, e := range x.List {
								cs = append(cs, d.text(e))
							}
							c := "default"
							if len(cs) > 0 {
								c = "case " + strings.Join(cs, ", ")
							}
							switchText = "switch " + d.text(sw.Tag) + " " + c
						}
						break
					}
					if _, ok := stack[j].(*ast.TypeSwitchStmt); ok {
						break
					}
				}
			}
			if k, tx := d.preceding(x.Body, child, t); k != "" {
				return k, tx
			}
		case *ast.CommClause:
			if k, tx := d.preceding(x.Body, child, t); k != "" {
				return k, tx
			}
		case *ast.BlockStmt:
			if k, tx := d.preceding(x.List, child, t); k != "" {
				return k, tx
			}
		}
	}
	if (t.class == "index" || t.class == "map-write") && d.madeIdents[t.p] {
		return "made", "make/literal in " + d.fn
	}
	if switchText != "" {
		return "switch", switchText
	}
	if t.class == "ptr-var" || t.class == "map-val" || t.class == "map-write" || t.class == "index" {
		if id := rootIdent(t.p); id != "" && d.isParam(id) && id == t.p {
			if t.class == "ptr-var" && !d.collect {
				cs := d.callers[d.fnKey()+"#"+fmt.Sprint(d.paramIndex(id))]
				if len(cs) == 0 {
					return "none", "parameter; no caller in the scanned packages"
				}
				all := true
				var parts []string
				for _, c := range cs {
					all = all && acceptedGuard(c.kind)
					if c.kind == "switch" {
						parts = append(parts, c.caller+"["+c.text+"]")
					} else {
						parts = append(parts, c.caller+"["+c.kind+" "+c.text+"]")
					}
				}
				sort.Strings(parts)
				if all {
					return "callers", strings.Join(parts, "; ")
				}
				return "none", "parameter; callers: " + strings.Join(parts, "; ")
			}
			return "none", "parameter"
		}
	}
	return "none", ""
}

func acceptedGuard(k string) bool {
	switch k {
	case "if", "else", "short-circuit", "early-exit", "case", "assigned", "range", "for-len", "made", "callers", "non-nil":
		return true
	}
	return false
}

func (d *derefScan) paramIndex(name string) int {
	i := 0
	for _, f := range d.fd.Type.Params.List {
		for _, n := range f.Names {
			if n.Name == name {
				return i
			}
			i++
		}
		if len(f.Names) == 0 {
			i++
		}
	}
	return -1
}

// fnKey identifies the current function across packages.
func (d *derefScan) fnKey() string {
	if o, ok := d.tp.info.Defs[d.fd.Name].(*types.Func); ok {
		return o.FullName()
	}
	return d.file + ":" + d.fn
}

// collectCall records, for a call of a function of the scanned packages, how each pointer argument is guarded.
func (d *derefScan) collectCall(ce *ast.CallExpr, stack []ast.Node) {
	var id *ast.Ident
	switch f := unparen(ce.Fun).(type) {
	case *ast.Ident:
		id = f
	case *ast.SelectorExpr:
		id = f.Sel
	}
	if id == nil {
		return
	}
	fo, ok := d.tp.info.Uses[id].(*types.Func)
	if !ok || fo.Pkg() == nil || pkgClass(fo.Pkg().Path()) != "internal" {
		return
	}
	for i, a := range ce.Args {
		ta := d.typeOf(a)
		if ta == nil || !apiSubStruct(ta) {
			if !isNilIdent(a) {
				continue
			}
		}
		cg := callerGuard{caller: d.fn}
		switch {
		case isNilIdent(a):
			cg.kind, cg.text = "nil-literal", "nil"
		default:
			class := d.nilable(a)
			if class == "" {
				cg.kind, cg.text = "non-nil", firstN(d.text(a), 60)
			} else {
				t := target{class: class, p: d.text(unparen(a))}
				if class == "map-val" {
					if aid, ok := unparen(a).(*ast.Ident); ok {
						t.ok = d.mapIdents[d.tp.info.Uses[aid]]
					}
				}
				st := append(append([]ast.Node(nil), stack...), a)
				cg.kind, cg.text = d.guard(st, t)
				if cg.text == "" {
					cg.text = t.p
				}
			}
		}
		key := fo.FullName() + "#" + fmt.Sprint(i)
		d.callers[key] = append(d.callers[key], cg)
	}
}

func rootIdent(p string) string {
	for i, r := range p {
		if !(r == '_' || r >= 'a' && r <= 'z' || r >= 'A' && r <= 'Z' || (i > 0 && r >= '0' && r <= '9')) {
			return p[:i]
		}
	}
	return p
}

func (d *derefScan) isParam(name string) bool {
	if d.fd.Type.Params == nil {
		return false
	}
	for _, f := range d.fd.Type.Params.List {
		for _, n := range f.Names {
			if n.Name == name {
				return true
			}
		}
	}
	return false
}

func containsNode(root ast.Node, n ast.Node) bool {
	if root == nil || n == nil {
		return false
	}
	return root.Pos() <= n.Pos() && n.End() <= root.End()
}

// preceding looks at the statements of list before the one that contains child.
func (d *derefScan) preceding(list []ast.Stmt, child ast.Node, t target) (string, string) {
	for _, st := range list {
		if ast.Node(st) == child || containsNode(st, child) {
			break
		}
		if ifs, ok := st.(*ast.IfStmt); ok && ifs.Else == nil && terminates(ifs.Body) && d.condNegative(ifs.Cond, t) {
			return "early-exit", d.text(ifs.Cond)
		}
		if d.assignsUsable(st, t) {
			return "assigned", firstN(d.text(st), 120)
		}
	}
	return "", ""
}

// ---------------------------------------------------------------- scan

func (d *derefScan) add(class, p, kind, guard string) {
	d.rows[derefRow{d.file, d.fn, class, p, kind, guard, 0}]++
}

func (d *derefScan) scanFunc() {
	d.prepare()
	var stack []ast.Node
	use := func(pe ast.Expr) {
		class := d.nilable(pe)
		if class == "" {
			return
		}
		t := target{class: class, p: d.text(unparen(pe))}
		if class == "map-val" {
			if id, ok := unparen(pe).(*ast.Ident); ok {
				t.ok = d.mapIdents[d.tp.info.Uses[id]]
			}
		}
		k, g := d.guard(stack, t)
		d.add(class, t.p, k, g)
	}
	ast.Inspect(d.fd.Body, func(n ast.Node) bool {
		if n == nil {
			stack = stack[:len(stack)-1]
			return true
		}
		stack = append(stack, n)
		if d.collect {
			if ce, ok := n.(*ast.CallExpr); ok {
				d.collectCall(ce, stack)
			}
			return true
		}
		switch x := n.(type) {
		case *ast.StarExpr:
			if tv, ok := d.tp.info.Types[x]; ok && tv.IsType() {
				return true
			}
			use(x.X)
		case *ast.SelectorExpr:
			sel := d.tp.info.Selections[x]
			if sel == nil {
				return true // qualified identifier
			}
			if sel.Kind() == types.FieldVal && sel.Indirect() {
				use(x.X)
			} else if sel.Kind() == types.MethodVal && isPtr(sel.Recv()) {
				// a value-receiver method called through a pointer dereferences it
				if fn, ok := sel.Obj().(*types.Func); ok {
					if sig, ok := fn.Type().(*types.Signature); ok && sig.Recv() != nil && !isPtr(sig.Recv().Type()) {
						if _, isIface := sig.Recv().Type().Underlying().(*types.Interface); !isIface {
							use(x.X)
						}
					}
				}
			}
		case *ast.IndexExpr:
			switch d.typeOfU(x.X).(type) {
			case *types.Slice:
				// reads and writes
				t := target{class: "index", p: d.text(unparen(x.X)), idx: d.text(x.Index)}
				k, g := d.guard(stack, t)
				d.add("index", t.p+"["+indexShape(x.Index)+"]", k, g)
			case *types.Map:
				if len(stack) >= 2 {
					isWrite := false
					switch par := stack[len(stack)-2].(type) {
					case *ast.AssignStmt:
						for _, l := range par.Lhs {
							if l == ast.Expr(x) {
								isWrite = true
							}
						}
					case *ast.IncDecStmt:
						isWrite = par.X == ast.Expr(x)
					}
					if isWrite {
						t := target{class: "map-write", p: d.text(unparen(x.X))}
						k, g := d.guard(stack, t)
						d.add("map-write", t.p, k, g)
					}
				}
			}
		}
		return true
	})
}

// indexShape keeps constant indices and abstracts variable ones.
func indexShape(e ast.Expr) string {
	if bl, ok := unparen(e).(*ast.BasicLit); ok {
		return bl.Value
	}
	return "i"
}

func genDerefSites(m *module) {
	emit := func(rows []derefRow, typed bool, note string) {
		sort.Slice(rows, func(i, j int) bool {
			a, b := rows[i], rows[j]
			ka := []string{a.File, a.Fn, a.Class, a.Expr, a.GuardKind, a.Guard}
			kb := []string{b.File, b.Fn, b.Class, b.Expr, b.GuardKind, b.Guard}
			for k := range ka {
				if ka[k] != kb[k] {
					return ka[k] < kb[k]
				}
			}
			return false
		})
		var b strings.Builder
		b.WriteString("[")
		var fact []map[string]any
		byKind := map[string]int{}
		for i, r := range rows {
			if i > 0 {
				b.WriteString(",\n   ")
			}
			fmt.Fprintf(&b, "(%d, %s, %s, %s, %s, %s, %s, %d)", r.id(), leanStr(r.File), leanStr(r.Fn), leanStr(r.Class), leanStr(r.Expr),
				leanStr(r.GuardKind), leanStr(r.Guard), r.N)
			fact = append(fact, map[string]any{"id": r.id(), "file": r.File, "func": r.Fn, "class": r.Class, "expr": r.Expr,
				"guardKind": r.GuardKind, "guard": r.Guard, "n": r.N})
			byKind[r.Class+"/"+r.GuardKind] += r.N
		}
		b.WriteString("]")
		m.boolean("derefTyped", typed, "the deref inventory was computed with go/types over the packages type-checked from source ("+note+")")
		m.raw("derefSites", "List (Nat × String × String × String × String × String × String × Nat)", b.String(),
			"implicit panic sites of the event-path packages grouped per function: (row id = FNV-1a/48 of the other columns, "+
				"so that Lean compares numbers before strings; file, function, class, nil-able expression, "+
				"guard kind, guard text, number of uses). Classes: field / ifield (optional pointer field of an API / internal "+
				"struct dereferenced), ptr-var (pointer to an API sub-structure held in a variable), map-val (pointer read from a "+
				"map), index (slice indexed), map-write (map assigned through). Guard kinds: if / else / short-circuit / "+
				"early-exit / case / assigned / range / for-len / made accept; switch / none need a justification.", fact)
		facts[m.name+".derefHistogram"] = byKind
	}
	cacheFile := derefCacheFile()
	if cacheFile != "" {
		if b, err := os.ReadFile(cacheFile); err == nil {
			var cached []derefRow
			if json.Unmarshal(b, &cached) == nil && len(cached) > 0 {
				emit(cached, true, fmt.Sprintf("%d packages", len(derefRoots)))
				return
			}
		}
	}
	pkgs, err := goListExport()
	if err != nil {
		fail("PanicSites: deref inventory: %v", err)
		emit(nil, false, "FAILED: "+err.Error())
		return
	}
	rows := map[derefRow]int{}
	callers := map[string][]callerGuard{}
	var tps []*typedPkg
	for _, root := range derefRoots {
		tp, err := typeCheck(pkgs, root.dir)
		if err != nil {
			fail("PanicSites: deref inventory: %v", err)
			emit(nil, false, "FAILED: "+err.Error())
			return
		}
		tps = append(tps, tp)
	}
	for _, collect := range []bool{true, false} {
		for ri, root := range derefRoots {
			tp := tps[ri]
			var rels []string
			for rel := range tp.files {
				rels = append(rels, rel)
			}
			sort.Strings(rels)
			for _, rel := range rels {
				base := filepath.Base(rel)
				// pass 1 looks at every file of the package (callers may live outside the scanned files)
				if len(root.files) > 0 && !collect {
					keep := false
					for _, f := range root.files {
						keep = keep || f == base
					}
					if !keep {
						continue
					}
				}
				if strings.HasPrefix(base, "zz_") || strings.HasSuffix(base, "_template.go") {
					continue
				}
				sf := &srcFile{tp.fset, tp.files[rel], rel}
				for _, dcl := range tp.files[rel].Decls {
					fd, ok := dcl.(*ast.FuncDecl)
					if !ok || fd.Body == nil {
						continue
					}
					d := &derefScan{tp: tp, file: rel, fn: funcName(fd, sf), fd: fd, rows: rows, callers: callers, collect: collect}
					d.scanFunc()
				}
			}
		}
	}
	var out []derefRow
	for r, n := range rows {
		r.N = n
		out = append(out, r)
	}
	emit(out, true, fmt.Sprintf("%d packages", len(derefRoots)))
	if cacheFile != "" {
		if b, err := json.Marshal(out); err == nil {
			tmp := fmt.Sprintf("%s.%d.tmp", cacheFile, os.Getpid())
			if os.WriteFile(tmp, b, 0o644) == nil {
				_ = os.Rename(tmp, cacheFile)
			}
		}
	}
}

// derefCacheFile names a cache entry keyed by the CONTENT of every scanned source file, go.mod and this
// executable (so a changed tree or a changed analysis never reuses an entry); "" when no work directory exists.
// The analysis costs ≈ 3 s (go list + type-checking from source), and the translator runs in every check.
func derefCacheFile() string {
	exe, err := os.Executable()
	if err != nil {
		return ""
	}
	work := filepath.Join(filepath.Dir(exe), "..", "..", "work")
	if st, err := os.Stat(work); err != nil || !st.IsDir() {
		return ""
	}
	h := sha256.New()
	add := func(p string) bool {
		b, err := os.ReadFile(p)
		if err != nil {
			return false
		}
		fmt.Fprintf(h, "%s %d\n", p, len(b))
		h.Write(b)
		return true
	}
	if !add(exe) || !add(filepath.Join(repo, "go.mod")) {
		return ""
	}
	for _, r := range derefRoots {
		ents, err := os.ReadDir(filepath.Join(repo, r.dir))
		if err != nil {
			return ""
		}
		for _, e := range ents {
			if !e.IsDir() && strings.HasSuffix(e.Name(), ".go") && !strings.HasSuffix(e.Name(), "_test.go") {
				if !add(filepath.Join(repo, r.dir, e.Name())) {
					return ""
				}
			}
		}
	}
	dir := filepath.Join(work, "derefcache")
	if os.MkdirAll(dir, 0o755) != nil {
		return ""
	}
	return filepath.Join(dir, fmt.Sprintf("%x.json", h.Sum(nil)[:12]))
}
