package main

import (
	"fmt"
	"go/ast"
	"go/token"
	"os"
	"path/filepath"
	"sort"
	"strings"
)

func init() { register("TelemetryFacts", genTelemetry) }

// C19: the literal facts of the telemetry collector and of parseFlags that the Lean model mirrors.
func genTelemetry() {
	m := newModule("TelemetryFacts", "Telemetry")
	s := src("internal/mode/static/telemetry/collector.go")

	// --- parseSnippetValueIntoDirectives: statements, the strings.* calls and their separator literals
	ps := s.fn("", "parseSnippetValueIntoDirectives")
	m.strs("parseSnippetBody", s.stmts(ps.Body), "statements of parseSnippetValueIntoDirectives")
	var calls, seps []string
	walk(ps.Body, func(n ast.Node) bool {
		ce, ok := n.(*ast.CallExpr)
		if !ok {
			return true
		}
		if sel, ok := ce.Fun.(*ast.SelectorExpr); ok {
			if id, ok := sel.X.(*ast.Ident); ok && id.Name == "strings" {
				calls = append(calls, sel.Sel.Name)
				if sel.Sel.Name == "Split" && len(ce.Args) == 2 {
					seps = append(seps, s.strValue(ce.Args[1]))
				}
			}
		}
		return true
	})
	m.strs("stringsCalls", calls, "strings.* functions called in parseSnippetValueIntoDirectives, in source order (outer calls first)")
	m.strs("splitSeparators", seps, "separator literals of the strings.Split calls, in source order")
	// helper of the candidate repair (notes/C19.md); absent in the current code
	helper := []string{}
	for _, d := range s.f.Decls {
		if fd, ok := d.(*ast.FuncDecl); ok && fd.Recv == nil && fd.Name.Name == "unescapeNginxWord" {
			helper = s.stmts(fd.Body)
		}
	}
	m.strs("unescapeNginxWordBody", helper, "statements of unescapeNginxWord (helper of the repaired parseSnippetValueIntoDirectives), [] if absent")

	// --- collectSnippetsFilterDirectives: the context switch
	api := src("apis/v1alpha1/snippetsfilter_types.go")
	cs := s.fn("", "collectSnippetsFilterDirectives")
	var table [][2]string
	def := ""
	nSwitch := 0
	walk(cs.Body, func(n ast.Node) bool {
		sw, ok := n.(*ast.SwitchStmt)
		if !ok {
			return true
		}
		nSwitch++
		for _, c := range sw.Body.List {
			cc := c.(*ast.CaseClause)
			val := ""
			if len(cc.Body) == 1 {
				if as, ok := cc.Body[0].(*ast.AssignStmt); ok && len(as.Rhs) == 1 {
					val = s.strValue(as.Rhs[0])
				}
			}
			if cc.List == nil {
				def = val
				continue
			}
			for _, e := range cc.List {
				sel, ok := e.(*ast.SelectorExpr)
				if !ok {
					fail("TelemetryFacts: unexpected case expression %s", s.text(e))
					continue
				}
				table = append(table, [2]string{api.strConst(sel.Sel.Name), val})
			}
		}
		return true
	})
	if nSwitch != 1 {
		fail("TelemetryFacts: expected one switch in collectSnippetsFilterDirectives, found %d", nSwitch)
	}
	pairs := make([]string, len(table))
	for i, p := range table {
		pairs[i] = "(" + leanStr(p[0]) + ", " + leanStr(p[1]) + ")"
	}
	m.raw("ctxTable", "List (String × String)", "["+strings.Join(pairs, ", ")+"]",
		"(NginxContext constant value, reported context name) per case of the switch in collectSnippetsFilterDirectives", table)
	m.str("ctxDefault", def, "reported context name of the default case")
	m.strs("collectDirectivesBody", s.stmts(cs.Body), "statements of collectSnippetsFilterDirectives")

	// --- parseDirectiveContextMapIntoLists: the less function and the join
	pl := s.fn("", "parseDirectiveContextMapIntoLists")
	var less []string
	var joins []string
	walk(pl.Body, func(n ast.Node) bool {
		switch x := n.(type) {
		case *ast.CallExpr:
			if s.text(x.Fun) == "sort.Slice" && len(x.Args) == 2 {
				if fl, ok := x.Args[1].(*ast.FuncLit); ok {
					less = s.stmts(fl.Body)
				}
			}
		case *ast.AssignStmt:
			if len(x.Lhs) == 1 && strings.HasPrefix(s.text(x.Lhs[0]), "directiveContextList[") {
				joins = append(joins, s.text(x.Rhs[0]))
			}
		}
		return true
	})
	m.strs("sortLessBody", less, "body of the less function given to sort.Slice")
	m.strs("reportedStringExpr", joins, "expression assigned to directiveContextList[i]")

	// --- collectGraphResourceCount / computeRouteCount
	m.strs("countBody", s.stmts(s.fn("", "collectGraphResourceCount").Body), "statements of collectGraphResourceCount")
	m.strs("routeCountBody", s.stmts(s.fn("", "computeRouteCount").Body), "statements of computeRouteCount")

	// --- Collect: how flags and directives reach the report
	var dataFields []string
	walk(s.fn("DataCollectorImpl", "Collect").Body, func(n ast.Node) bool {
		kv, ok := n.(*ast.KeyValueExpr)
		if !ok {
			return true
		}
		k := s.text(kv.Key)
		if k == "FlagNames" || k == "FlagValues" || k == "SnippetsFiltersDirectives" || k == "SnippetsFiltersDirectivesCount" || k == "NGFResourceCounts" {
			dataFields = append(dataFields, k+": "+s.text(kv.Value))
		}
		return true
	})
	sort.Strings(dataFields)
	m.strs("collectDataFields", dataFields, "how Collect fills the flag / directive / count fields of Data")

	// --- parseFlags
	c := src("cmd/gateway/commands.go")
	pf := c.fn("", "parseFlags")
	var pfBody []string
	var lits []string
	walk(pf.Body, func(n ast.Node) bool {
		switch x := n.(type) {
		case *ast.FuncLit:
			pfBody = c.stmts(x.Body)
		case *ast.BasicLit:
			if x.Kind == token.STRING {
				lits = append(lits, strLit(x))
			}
		}
		return true
	})
	m.strs("parseFlagsVisitBody", pfBody, "statements of the VisitAll callback of parseFlags")
	m.strs("parseFlagsLiterals", lits, "string literals of parseFlags in source order")

	// every pflag.Value implemented in cmd/gateway: what its Type() returns
	var types []string
	ents, err := os.ReadDir(filepath.Join(repo, "cmd/gateway"))
	if err != nil {
		fail("TelemetryFacts: %v", err)
	}
	for _, e := range ents {
		if !strings.HasSuffix(e.Name(), ".go") || strings.HasSuffix(e.Name(), "_test.go") {
			continue
		}
		f := src("cmd/gateway/" + e.Name())
		for _, d := range f.f.Decls {
			fd, ok := d.(*ast.FuncDecl)
			if !ok || fd.Name.Name != "Type" || fd.Recv == nil || fd.Body == nil {
				continue
			}
			for _, st := range fd.Body.List {
				if rs, ok := st.(*ast.ReturnStmt); ok && len(rs.Results) == 1 {
					recv := f.text(fd.Recv.List[0].Type)
					types = append(types, fmt.Sprintf("%s=%s", strings.TrimPrefix(recv, "*"), f.strValue(rs.Results[0])))
				}
			}
		}
	}
	sort.Strings(types)
	m.strs("customFlagTypes", types, "receiver=Type() of every pflag.Value implemented in cmd/gateway")
	names := make([]string, len(types))
	for i, t := range types {
		_, names[i], _ = strings.Cut(t, "=")
	}
	m.strs("customFlagTypeNames", names, "what Type() returns for every pflag.Value implemented in cmd/gateway")
}
