package main

import (
	"go/ast"
	"os"
	"path/filepath"
	"regexp"
	"sort"
	"strings"
)

func init() { register("RoutingFacts", genRouting) }

// C02: the statement texts of the routing cores that Model/Hostname, Model/Precedence and Model/NginxEval mirror,
// and the name formats / constants the Lean evaluator and oracle rely on.
func genRouting() {
	m := newModule("RoutingFacts", "Routing")

	// --- dataplane/sort.go: higherPriority, sortMatchRules; sort/sort.go: LessObjectMeta
	ss := src("internal/mode/static/state/dataplane/sort.go")
	m.strs("higherPriorityStmts", ss.stmts(ss.fn("", "higherPriority").Body), "statements of dataplane.higherPriority (the comparison chain)")
	sortFn := ""
	walk(ss.fn("", "sortMatchRules").Body, func(n ast.Node) bool {
		if c, ok := n.(*ast.CallExpr); ok && strings.HasPrefix(ss.text(c.Fun), "sort.") {
			sortFn = ss.text(c.Fun)
		}
		return true
	})
	m.str("sortMatchRulesSortFn", sortFn, "the sort function sortMatchRules calls (must be the stable one)")
	so := src("internal/mode/static/sort/sort.go")
	m.strs("lessObjectMetaStmts", so.stmts(so.fn("", "LessObjectMeta").Body), "statements of sort.LessObjectMeta")

	// --- graph/route_common.go: match, GetMoreSpecificHostname, findAcceptedHostnames
	rc := src("internal/mode/static/state/graph/route_common.go")
	m.strs("matchStmts", rc.stmts(rc.fn("", "match").Body), "statements of graph.match")
	m.strs("getMoreSpecificHostnameStmts", rc.stmts(rc.fn("", "GetMoreSpecificHostname").Body), "statements of graph.GetMoreSpecificHostname")
	m.strs("findAcceptedHostnamesStmts", rc.stmts(rc.fn("", "findAcceptedHostnames").Body), "statements of graph.findAcceptedHostnames")
	m.str("graphWildcardHostname", rc.strConst("wildcardHostname"), "graph.wildcardHostname")
	// --- graph/validation.go: validateHostname (what Model/PipelineTlsEval.hostDNS mirrors) and its two callers
	vd := src("internal/mode/static/state/graph/validation.go")
	m.strs("validateHostnameStmts", vd.stmts(vd.fn("", "validateHostname").Body), "statements of graph.validateHostname")
	m.strs("validateHostnamesStmts", rc.stmts(rc.fn("", "validateHostnames").Body), "statements of graph.validateHostnames (route hostnames)")
	gl := src("internal/mode/static/state/graph/gateway_listener.go")
	m.strs("validateListenerHostnameStmts", gl.stmts(gl.fn("", "validateListenerHostname").Body), "statements of graph.validateListenerHostname")
	m.strs("isRouteNamespaceAllowedStmts", rc.stmts(rc.fn("", "isRouteNamespaceAllowedByListener").Body), "statements of graph.isRouteNamespaceAllowedByListener")
	m.strs("findAttachableListenersStmts", rc.stmts(rc.fn("", "findAttachableListeners").Body), "statements of graph.findAttachableListeners")
	// validateParentRef must hand the parentRef's sectionName to findAttachableListeners
	secArg := ""
	for _, c := range rc.calls(rc.fn("", "validateParentRef").Body, "findAttachableListeners") {
		if len(c.Args) > 0 {
			secArg = rc.text(c.Args[0])
		}
	}
	m.str("validateParentRefSectionArg", secArg, "first argument of findAttachableListeners in validateParentRef")

	// --- graph/grpcroute.go: ConvertGRPCMatches — are the path variables declared inside the loop?
	gr := src("internal/mode/static/state/graph/grpcroute.go")
	conv := gr.fn("", "ConvertGRPCMatches")
	perIter := map[string]bool{}
	walk(conv.Body, func(n ast.Node) bool {
		rs, ok := n.(*ast.RangeStmt)
		if !ok {
			return true
		}
		for _, st := range rs.Body.List {
			if as, ok := st.(*ast.AssignStmt); ok && as.Tok.String() == ":=" {
				for _, l := range as.Lhs {
					perIter[gr.text(l)] = true
				}
			}
		}
		return true
	})
	m.boolean("grpcPathVarsPerIteration", perIter["pathValue"] && perIter["pathType"],
		"ConvertGRPCMatches declares pathValue and pathType inside the loop over the matches (no sharing across matches)")
	var loopDecls []string
	for k := range perIter {
		loopDecls = append(loopDecls, k)
	}
	sort.Strings(loopDecls)
	m.strs("grpcLoopDecls", loopDecls, "variables declared with := directly in the loop body of ConvertGRPCMatches")

	// --- dataplane/configuration.go, types.go
	dc := src("internal/mode/static/state/dataplane/configuration.go")
	m.str("dataplaneWildcardHostname", dc.strConst("wildcardHostname"), "dataplane.wildcardHostname")
	m.strs("listenerHostnameMoreSpecificStmts", dc.stmts(dc.fn("", "listenerHostnameMoreSpecific").Body), "statements of dataplane.listenerHostnameMoreSpecific")
	dt := src("internal/mode/static/state/dataplane/types.go")
	m.str("backendGroupNameFmt", sprintfFormat(dt, dt.fn("BackendGroup", "Name").Body), "format of BackendGroup.Name")
	br := src("internal/mode/static/state/graph/backend_refs.go")
	m.str("servicePortReferenceFmt", sprintfFormat(br, br.fn("BackendRef", "ServicePortReference").Body), "format of BackendRef.ServicePortReference")

	// --- nginx/config/servers.go: the location scheme
	sv := src("internal/mode/static/nginx/config/servers.go")
	m.str("exactPathFmt", sprintfFormat(sv, sv.fn("", "exactPath").Body), "format of config.exactPath")
	m.str("internalLocationFmt", sprintfFormat(sv, sv.fn("", "initializeInternalLocation").Body), "format of the internal location path")
	m.strs("initializeExternalLocationsStmts", sv.stmts(sv.fn("", "initializeExternalLocations").Body), "statements of config.initializeExternalLocations")
	m.strs("isNonSlashedPrefixPathStmts", sv.stmts(sv.fn("", "isNonSlashedPrefixPath").Body), "statements of config.isNonSlashedPrefixPath")
	m.strs("createPathStmts", sv.stmts(sv.fn("", "createPath").Body), "statements of config.createPath")
	m.strs("needsInternalLocationsStmts", sv.stmts(sv.fn("", "needsInternalLocations").Body), "statements of config.needsInternalLocations")
	m.strs("isPathOnlyMatchStmts", sv.stmts(sv.fn("", "isPathOnlyMatch").Body), "statements of config.isPathOnlyMatch")
	m.strs("backendGroupNameStmts", func() []string {
		sc := src("internal/mode/static/nginx/config/split_clients.go")
		return sc.stmts(sc.fn("", "backendGroupName").Body)
	}(), "statements of config.backendGroupName")
	m.str("headerMatchSeparator", sv.strConst("HeaderMatchSeparator"), "config.HeaderMatchSeparator")
	var intLocArgs []string
	for _, c := range sv.calls(sv.fn("", "createLocations").Body, "initializeInternalLocation") {
		for _, a := range c.Args {
			intLocArgs = append(intLocArgs, sv.text(a))
		}
	}
	m.strs("initializeInternalLocationArgs", intLocArgs,
		"arguments createLocations passes to initializeInternalLocation (the last one is the gRPC flag; DESIGN §7 row 22)")
	up := src("internal/mode/static/nginx/config/upstreams.go")
	m.str("invalidBackendRef", up.strConst("invalidBackendRef"), "upstream name used for invalid backend references")
	m.str("nginx500Server", up.strConst("nginx500Server"), "socket of the server answering 500")
	m.str("nginx503Server", up.strConst("nginx503Server"), "socket of the server answering 503")
	ht := src("internal/mode/static/nginx/config/http/config.go")
	m.str("internalRoutePathPrefix", ht.strConst("InternalRoutePathPrefix"), "http.InternalRoutePathPrefix")

	// --- httpmatches.js (text level)
	js, err := os.ReadFile(filepath.Join(repo, "internal/mode/static/nginx/modules/src/httpmatches.js"))
	if err != nil {
		fail("RoutingFacts: cannot read httpmatches.js: %v", err)
		return
	}
	body := jsFunc(string(js), "testMatch")
	type pos struct {
		at   int
		what string
	}
	var ps []pos
	for _, w := range []string{"match.any", "match.method", "match.headers", "match.params"} {
		if i := strings.Index(body, w); i >= 0 {
			ps = append(ps, pos{i, w})
		}
	}
	sort.Slice(ps, func(i, j int) bool { return ps[i].at < ps[j].at })
	var order []string
	for _, x := range ps {
		order = append(order, x.what)
	}
	m.strs("njsTestMatchOrder", order, "order in which testMatch looks at the match fields")
	fw := jsFunc(string(js), "findWinningMatch")
	m.boolean("njsFindWinningIsFirstMatch", regexp.MustCompile(`for \(let i = 0; i < matches\.length; i\+\+\)`).MatchString(fw) &&
		strings.Contains(fw, "return matches[i]"), "findWinningMatch scans the list from index 0 and returns the first match found")
	hm := jsFunc(string(js), "headersMatch")
	m.boolean("njsHeaderSplitColon", strings.Contains(hm, "h.split(':')"), "headersMatch splits the stored header on ':'")
	m.boolean("njsHeaderValuesSplitComma", strings.Contains(hm, "val.split(',')") && strings.Contains(hm, "values.includes(kv[1])"),
		"headersMatch compares against the comma-separated values of the request header")
	pm := jsFunc(string(js), "paramsMatch")
	m.boolean("njsParamsFirstValue", strings.Contains(pm, "val = val[0]"), "paramsMatch uses the first value of a repeated query parameter")
	m.boolean("njsParamsFirstEquals", strings.Contains(pm, "indexOf('=')"), "paramsMatch splits the stored parameter at the first '='")
}

// sprintfFormat returns the format string of the first fmt.Sprintf call in the body.
func sprintfFormat(s *srcFile, body *ast.BlockStmt) string {
	out := ""
	walk(body, func(n ast.Node) bool {
		if out != "" {
			return false
		}
		if c, ok := n.(*ast.CallExpr); ok && s.text(c.Fun) == "fmt.Sprintf" && len(c.Args) > 0 {
			defer func() { _ = recover() }()
			out = s.strValue(c.Args[0])
		}
		return true
	})
	return out
}

// jsFunc returns the text of `function name(...) { … }` up to the next top-level "function " (good enough for the
// flat module layout of httpmatches.js).
func jsFunc(src, name string) string {
	i := strings.Index(src, "function "+name+"(")
	if i < 0 {
		fail("RoutingFacts: function %s not found in httpmatches.js", name)
		return ""
	}
	rest := src[i+1:]
	j := strings.Index(rest, "\nfunction ")
	if j < 0 {
		j = strings.Index(rest, "\nexport default")
	}
	if j < 0 {
		return src[i:]
	}
	return src[i : i+1+j]
}
