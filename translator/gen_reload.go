package main

import (
	"go/ast"
	"go/token"
	"strings"
)

func init() { register("ReloadFacts", genReload) }

// c12DurMs evaluates `<int> * time.Millisecond` / `<int> * time.Second` (either order) to milliseconds.
func c12DurMs(s *srcFile, e ast.Expr) int {
	be, ok := e.(*ast.BinaryExpr)
	if !ok || be.Op != token.MUL {
		panic("not a duration product: " + s.text(e))
	}
	unit := func(x ast.Expr) int {
		switch s.text(x) {
		case "time.Millisecond":
			return 1
		case "time.Second":
			return 1000
		}
		return 0
	}
	if u := unit(be.Y); u != 0 {
		return intLit(be.X) * u
	}
	if u := unit(be.X); u != 0 {
		return intLit(be.Y) * u
	}
	panic("unknown duration unit: " + s.text(e))
}

// c12IsLog reports statements that only log.
func c12IsLog(t string) bool {
	return strings.HasPrefix(t, "logger.") || strings.HasPrefix(t, "m.logger.") || strings.HasPrefix(t, "h.cfg.logger.")
}

func c12Stmts(s *srcFile, list []ast.Stmt) []string {
	out := []string{}
	for _, st := range list {
		t := s.text(st)
		if c12IsLog(t) {
			continue
		}
		out = append(out, t)
	}
	return out
}

// c12Polls lists every wait.PollUntilContextCancel call under n as "interval|immediate".
func c12Polls(s *srcFile, n ast.Node) []string {
	out := []string{}
	for _, c := range s.calls(n, "wait.PollUntilContextCancel") {
		if len(c.Args) >= 3 {
			out = append(out, s.text(c.Args[1])+"|"+s.text(c.Args[2]))
		}
	}
	return out
}

// C12: Reload / verify / handler version+readiness / reload error folding.
func genReload() {
	m := newModule("ReloadFacts", "Reload")

	mg := src("internal/mode/static/nginx/runtime/manager.go")
	m.str("pidFile", mg.strConst("PidFile"), "runtime.PidFile")
	m.nat("pidFileTimeoutMs", c12DurMs(mg, mg.valueSpec("PidFileTimeout")), "runtime.PidFileTimeout in ms")
	m.nat("nginxReloadTimeoutMs", c12DurMs(mg, mg.valueSpec("NginxReloadTimeout")), "runtime.NginxReloadTimeout in ms")
	m.str("childProcPathFmt", mg.strConst("childProcPathFmt"), "format of the children file path")
	reload := mg.fn("ManagerImpl", "Reload")
	m.strs("reloadBody", c12Stmts(mg, reload.Body.List), "statements of ManagerImpl.Reload")
	var order []string
	walk(reload.Body, func(n ast.Node) bool {
		if c, ok := n.(*ast.CallExpr); ok {
			t := mg.text(c.Fun)
			if strings.HasPrefix(t, "m.processHandler.") || strings.HasPrefix(t, "m.verifyClient.") {
				order = append(order, mg.text(c))
			}
		}
		return true
	})
	m.strs("reloadSteps", order, "calls on the process handler / verify client in Reload, in source order")
	fmp := mg.fn("ProcessHandlerImpl", "FindMainProcess")
	m.strs("findMainProcessBody", c12Stmts(mg, fmp.Body.List), "statements of ProcessHandlerImpl.FindMainProcess")
	m.strs("findMainProcessPolls", c12Polls(mg, fmp.Body), "interval|immediate of the polls in FindMainProcess")
	m.strs("killBody", c12Stmts(mg, mg.fn("ProcessHandlerImpl", "Kill").Body.List), "ProcessHandlerImpl.Kill")

	vf := src("internal/mode/static/nginx/runtime/verify.go")
	m.str("configVersionURI", vf.strConst("configVersionURI"), "unix socket of the version endpoint")
	m.strs("getConfigVersionBody", c12Stmts(vf, vf.fn("VerifyClient", "GetConfigVersion").Body.List), "VerifyClient.GetConfigVersion")
	m.strs("waitForCorrectVersionBody", c12Stmts(vf, vf.fn("VerifyClient", "WaitForCorrectVersion").Body.List), "VerifyClient.WaitForCorrectVersion")
	ecv := vf.fn("VerifyClient", "EnsureConfigVersion")
	m.strs("ensureConfigVersionBody", c12Stmts(vf, ecv.Body.List), "VerifyClient.EnsureConfigVersion")
	m.strs("ensureConfigVersionPolls", c12Polls(vf, ecv.Body), "interval|immediate")
	enw := vf.fn("", "ensureNewNginxWorkers")
	m.strs("ensureNewNginxWorkersBody", c12Stmts(vf, enw.Body.List), "ensureNewNginxWorkers")
	m.strs("ensureNewNginxWorkersPolls", c12Polls(vf, enw.Body), "interval|immediate")
	var dial []string
	for _, c := range vf.calls(vf.fn("", "NewVerifyClient").Body, "net.Dial") {
		dial = append(dial, vf.text(c))
	}
	m.strs("verifyClientDial", dial, "net.Dial calls of NewVerifyClient")

	vt := src("internal/mode/static/nginx/config/version_template.go")
	m.str("versionTemplateText", vt.strConst("versionTemplateText"), "template of config-version.conf")
	vg := src("internal/mode/static/nginx/config/version.go")
	m.strs("executeVersionBody", c12Stmts(vg, vg.fn("", "executeVersion").Body.List), "executeVersion")

	sm := src("internal/mode/static/manager.go")
	var wiring []string
	walk(sm.f, func(n ast.Node) bool {
		if c, ok := n.(*ast.CallExpr); ok {
			switch sm.text(c.Fun) {
			case "ngxruntime.NewVerifyClient", "ngxruntime.NewProcessHandlerImpl", "mgr.AddReadyzCheck":
				wiring = append(wiring, sm.text(c))
			}
		}
		return true
	})
	m.strs("wiring", wiring, "how static/manager.go constructs the verify client, the process handler and the readyz check")

	// handler.go
	h := src("internal/mode/static/handler.go")
	heb := h.fn("eventHandlerImpl", "HandleEventBatch")
	var sw *ast.SwitchStmt
	swIdx := -1
	for i, st := range heb.Body.List {
		if x, ok := st.(*ast.SwitchStmt); ok && h.text(x.Tag) == "changeType" {
			sw, swIdx = x, i
		}
	}
	if sw == nil {
		fail("ReloadFacts: switch changeType not found in HandleEventBatch")
		return
	}
	var caseNames []string
	for _, c := range sw.Body.List {
		cc := c.(*ast.CaseClause)
		name := "default"
		if len(cc.List) > 0 {
			name = h.text(cc.List[0])
		}
		caseNames = append(caseNames, name)
		// BuildConfiguration / deployment context lines are irrelevant to version and error flow,
		// but keep them: the version argument matters.
		m.strs("case_"+strings.ReplaceAll(name, ".", "_"), c12Stmts(h, cc.Body), "HandleEventBatch, case "+name)
	}
	m.strs("switchCases", caseNames, "cases of switch changeType")
	m.strs("beforeSwitch", c12Stmts(h, heb.Body.List[:swIdx]), "HandleEventBatch before the switch")
	m.strs("afterSwitch", c12Stmts(h, heb.Body.List[swIdx+1:]), "HandleEventBatch after the switch")
	m.strs("updateNginxConfBody", c12Stmts(h, h.fn("eventHandlerImpl", "updateNginxConf").Body.List), "updateNginxConf")
	// error flow of the apply transaction: every `if err := <call>; <cond> { …; return … }` of updateNginxConf
	// as "<call> | <cond> | <kind of the last statement of the body>"
	var guards []string
	for _, st := range h.fn("eventHandlerImpl", "updateNginxConf").Body.List {
		ifs, ok := st.(*ast.IfStmt)
		if !ok {
			continue
		}
		call := ""
		if as, ok := ifs.Init.(*ast.AssignStmt); ok && len(as.Rhs) == 1 {
			call = h.text(as.Rhs[0])
		}
		last := "empty"
		if n := len(ifs.Body.List); n > 0 {
			if _, ok := ifs.Body.List[n-1].(*ast.ReturnStmt); ok {
				last = "return"
			} else {
				last = "falls-through"
			}
		}
		if ifs.Else != nil {
			last += "+else"
		}
		guards = append(guards, call+" | "+h.text(ifs.Cond)+" | "+last)
	}
	m.strs("updateNginxConfGuards", guards, "updateNginxConf: call | condition | how the error branch ends, per if statement")
	// who reads h.latestReloadResult: every call in handler.go that takes it as an argument
	var lrrReads []string
	for _, d := range h.f.Decls {
		fd, ok := d.(*ast.FuncDecl)
		if !ok || fd.Body == nil {
			continue
		}
		walk(fd.Body, func(n ast.Node) bool {
			if c, ok := n.(*ast.CallExpr); ok {
				for _, a := range c.Args {
					if h.text(a) == "h.latestReloadResult" {
						lrrReads = append(lrrReads, fd.Name.Name+": "+h.text(c.Fun))
					}
				}
			}
			return true
		})
	}
	m.strs("latestReloadResultReads", lrrReads, "every call in handler.go that is handed h.latestReloadResult")
	uus := h.fn("eventHandlerImpl", "updateUpstreamServers")
	m.str("updateUpstreamServersGuard", h.text(uus.Body.List[0]), "first statement of updateUpstreamServers")
	// every statement in the package file that writes h.version / h.latestReloadResult
	var verWrites, lrrWrites []string
	for _, d := range h.f.Decls {
		fd, ok := d.(*ast.FuncDecl)
		if !ok || fd.Body == nil {
			continue
		}
		walk(fd.Body, func(n ast.Node) bool {
			switch x := n.(type) {
			case *ast.IncDecStmt:
				if h.text(x.X) == "h.version" {
					verWrites = append(verWrites, fd.Name.Name+": "+h.text(x))
				}
			case *ast.AssignStmt:
				for _, l := range x.Lhs {
					switch h.text(l) {
					case "h.version":
						verWrites = append(verWrites, fd.Name.Name+": "+h.text(x))
					case "h.latestReloadResult", "h.latestReloadResult.Error":
						lrrWrites = append(lrrWrites, fd.Name.Name+": "+h.text(x))
					}
				}
			}
			return true
		})
	}
	m.strs("versionWrites", verWrites, "every write of h.version in handler.go")
	m.strs("latestReloadResultWrites", lrrWrites, "every write of h.latestReloadResult in handler.go")

	hl := src("internal/mode/static/health.go")
	m.strs("readyCheckBody", c12Stmts(hl, hl.fn("nginxConfiguredOnStartChecker", "readyCheck").Body.List), "readyCheck")
	m.strs("setAsReadyBody", c12Stmts(hl, hl.fn("nginxConfiguredOnStartChecker", "setAsReady").Body.List), "setAsReady")
	var readyWrites []string
	for _, f := range []*srcFile{h, hl} {
		for _, d := range f.f.Decls {
			fd, ok := d.(*ast.FuncDecl)
			if !ok || fd.Body == nil {
				continue
			}
			walk(fd.Body, func(n ast.Node) bool {
				if x, ok := n.(*ast.AssignStmt); ok {
					for _, l := range x.Lhs {
						t := f.text(l)
						if strings.HasSuffix(t, ".ready") || strings.HasSuffix(t, ".firstBatchError") {
							readyWrites = append(readyWrites, fd.Name.Name+": "+f.text(x))
						}
					}
				}
				return true
			})
		}
	}
	m.strs("readyWrites", readyWrites, "every write of ready / firstBatchError in handler.go and health.go")

	// prepare_requests.go: how a reload error is folded into conditions
	pr := src("internal/mode/static/status/prepare_requests.go")
	var folds []string
	for _, d := range pr.f.Decls {
		fd, ok := d.(*ast.FuncDecl)
		if !ok || fd.Body == nil {
			continue
		}
		walk(fd.Body, func(n ast.Node) bool {
			if x, ok := n.(*ast.IfStmt); ok && strings.Contains(pr.text(x.Cond), "nginxReloadRes") {
				folds = append(folds, fd.Name.Name+": "+pr.text(x))
			}
			return true
		})
	}
	m.strs("reloadErrorFolds", folds, "every `if` on nginxReloadRes in prepare_requests.go")
	var dedupCalls []string
	for _, name := range []string{"prepareGatewayRequest", "prepareRouteStatus"} {
		for _, c := range pr.calls(pr.fn("", name).Body, "conditions.DeduplicateConditions") {
			dedupCalls = append(dedupCalls, name+": "+pr.text(c))
		}
	}
	m.strs("dedupCalls", dedupCalls, "DeduplicateConditions calls in prepareGatewayRequest / prepareRouteStatus")
	cs := src("internal/mode/static/state/conditions/conditions.go")
	for _, name := range []string{"NewGatewayNotProgrammedInvalid", "NewListenerNotProgrammedInvalid", "NewRouteGatewayNotProgrammed"} {
		m.strs("cond_"+name, c12Stmts(cs, cs.fn("", name).Body.List), name)
	}
	m.str("routeReasonGatewayNotProgrammed", cs.text(cs.valueSpec("RouteReasonGatewayNotProgrammed")), "RouteReasonGatewayNotProgrammed")
	fc := src("internal/framework/conditions/conditions.go")
	m.strs("deduplicateConditionsBody", c12Stmts(fc, fc.fn("", "DeduplicateConditions").Body.List), "DeduplicateConditions")
}
