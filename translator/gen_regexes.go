package main

import (
	"fmt"
	"go/ast"
	"go/parser"
	"go/token"
	"os"
	"path/filepath"
	"regexp/syntax"
	"sort"
	"strings"
	gotemplate "text/template"
	"text/template/parse"
)

func init() {
	register("Regexes", genRegexes)
	register("Templates", genTemplates)
}

// ----------------------------------------------------------------------------------------------
// Regexes: EVERY regexp.MustCompile argument of internal/mode/static/nginx/config/validation/*.go
// (non-test) and the k8s.io/apimachinery validation regexes the graph validators rely on, parsed with
// Go's regexp/syntax (Perl flags, exactly what regexp.MustCompile does) and emitted as a
// Böhm-Berarducci encoded AST (so that the generated module needs no import):
//
//	def pathRegexp : RegexF := fun empty eps cls seq alt star plus opt rep => seq (cls [(47,47)]) (star (cls [...]))
//
// plus the source text and the anchoring flags. NGF/Props/C04.lean instantiates the encoding with the
// constructors of NGF.Rx.Regex.

const regexFType = "{R : Type} → (empty eps : R) → (cls : List (Nat × Nat) → R) → (seq alt : R → R → R) → " +
	"(star plus opt : R → R) → (rep : R → Nat → Nat → R) → R"

type rxFail string

func stripAnchors(re *syntax.Regexp) (body *syntax.Regexp, start, end bool) {
	for re.Op == syntax.OpCapture && false {
		re = re.Sub[0]
	}
	switch re.Op {
	case syntax.OpBeginText:
		return &syntax.Regexp{Op: syntax.OpEmptyMatch}, true, false
	case syntax.OpEndText:
		return &syntax.Regexp{Op: syntax.OpEmptyMatch}, false, true
	case syntax.OpConcat:
		subs := re.Sub
		for len(subs) > 0 && subs[0].Op == syntax.OpBeginText {
			start = true
			subs = subs[1:]
		}
		for len(subs) > 0 && subs[len(subs)-1].Op == syntax.OpEndText {
			end = true
			subs = subs[:len(subs)-1]
		}
		if len(subs) == 0 {
			return &syntax.Regexp{Op: syntax.OpEmptyMatch}, start, end
		}
		if len(subs) == 1 {
			return subs[0], start, end
		}
		return &syntax.Regexp{Op: syntax.OpConcat, Sub: subs}, start, end
	}
	return re, false, false
}

func rangesLean(rs []rune) string {
	parts := make([]string, 0, len(rs)/2)
	for i := 0; i+1 < len(rs); i += 2 {
		parts = append(parts, fmt.Sprintf("(%d,%d)", rs[i], rs[i+1]))
	}
	return "[" + strings.Join(parts, ",") + "]"
}

func emitRx(re *syntax.Regexp) string {
	fold := func(op string, subs []*syntax.Regexp) string {
		if len(subs) == 0 {
			if op == "seq" {
				return "eps"
			}
			return "empty"
		}
		out := emitRx(subs[len(subs)-1])
		for i := len(subs) - 2; i >= 0; i-- {
			out = fmt.Sprintf("(%s %s %s)", op, emitRx(subs[i]), out)
		}
		return out
	}
	switch re.Op {
	case syntax.OpNoMatch:
		return "empty"
	case syntax.OpEmptyMatch:
		return "eps"
	case syntax.OpLiteral:
		if re.Flags&syntax.FoldCase != 0 {
			panic(rxFail("case-folding literal"))
		}
		if len(re.Rune) == 0 {
			return "eps"
		}
		out := fmt.Sprintf("(cls [(%d,%d)])", re.Rune[len(re.Rune)-1], re.Rune[len(re.Rune)-1])
		for i := len(re.Rune) - 2; i >= 0; i-- {
			out = fmt.Sprintf("(seq (cls [(%d,%d)]) %s)", re.Rune[i], re.Rune[i], out)
		}
		return out
	case syntax.OpCharClass:
		return "(cls " + rangesLean(re.Rune) + ")"
	case syntax.OpAnyCharNotNL:
		return "(cls [(0,9),(11,1114111)])"
	case syntax.OpAnyChar:
		return "(cls [(0,1114111)])"
	case syntax.OpCapture:
		return emitRx(re.Sub[0])
	case syntax.OpStar:
		return "(star " + emitRx(re.Sub[0]) + ")"
	case syntax.OpPlus:
		return "(plus " + emitRx(re.Sub[0]) + ")"
	case syntax.OpQuest:
		return "(opt " + emitRx(re.Sub[0]) + ")"
	case syntax.OpRepeat:
		sub := emitRx(re.Sub[0])
		if re.Max < 0 {
			return fmt.Sprintf("(seq (rep %s %d %d) (star %s))", sub, re.Min, re.Min, sub)
		}
		return fmt.Sprintf("(rep %s %d %d)", sub, re.Min, re.Max)
	case syntax.OpConcat:
		return fold("seq", re.Sub)
	case syntax.OpAlternate:
		return fold("alt", re.Sub)
	}
	panic(rxFail("unsupported regex operator " + re.Op.String()))
}

func emitGoRegex(m *module, name, srcText, where string) {
	defer func() {
		if r := recover(); r != nil {
			if f, ok := r.(rxFail); ok {
				fail("Regexes: %s (%s): %s", name, where, string(f))
				return
			}
			panic(r)
		}
	}()
	re, err := syntax.Parse(srcText, syntax.Perl)
	if err != nil {
		fail("Regexes: %s (%s): %v", name, where, err)
		return
	}
	body, st, en := stripAnchors(re)
	val := "set_option linter.unusedVariables false in\n  fun empty eps cls seq alt star plus opt rep =>\n    " + emitRx(body)
	m.str(name+"_src", srcText, "source of "+name+" ("+where+")")
	m.boolean(name+"_anchoredStart", st, "")
	m.boolean(name+"_anchoredEnd", en, "")
	m.raw(name, regexFType, val, "regexp/syntax parse of "+name+" without its outer anchors", srcText)
}

// mustCompileArgs finds `<name> = regexp.MustCompile(<const string expr>)` in a parsed file.
func mustCompileArgs(s *srcFile, visit func(name string, arg ast.Expr)) {
	anon := 0
	seen := map[*ast.CallExpr]bool{}
	isMC := func(e ast.Expr) *ast.CallExpr {
		c, ok := e.(*ast.CallExpr)
		if ok && s.text(c.Fun) == "regexp.MustCompile" && len(c.Args) == 1 {
			return c
		}
		return nil
	}
	walk(s.f, func(n ast.Node) bool {
		switch x := n.(type) {
		case *ast.ValueSpec:
			for i, v := range x.Values {
				if c := isMC(v); c != nil && i < len(x.Names) {
					seen[c] = true
					visit(x.Names[i].Name, c.Args[0])
				}
			}
		case *ast.AssignStmt:
			for i, v := range x.Rhs {
				if c := isMC(v); c != nil && i < len(x.Lhs) {
					seen[c] = true
					visit(s.text(x.Lhs[i]), c.Args[0])
				}
			}
		case *ast.CallExpr:
			if c := isMC(x); c != nil && !seen[c] {
				anon++
				visit(fmt.Sprintf("anon%d", anon), c.Args[0])
			}
		}
		return true
	})
}

func parseAbs(path string) *srcFile {
	fset := token.NewFileSet()
	f, err := parser.ParseFile(fset, path, nil, parser.ParseComments)
	if err != nil {
		panic("parse " + path + ": " + err.Error())
	}
	return &srcFile{fset, f, path}
}

func genRegexes() {
	m := newModule("Regexes", "Regexes")
	dir := "internal/mode/static/nginx/config/validation"
	ents, err := os.ReadDir(filepath.Join(repo, dir))
	if err != nil {
		fail("Regexes: %v", err)
		return
	}
	var names []string
	for _, e := range ents {
		if !strings.HasSuffix(e.Name(), ".go") || strings.HasSuffix(e.Name(), "_test.go") {
			continue
		}
		s := src(dir + "/" + e.Name())
		mustCompileArgs(s, func(name string, arg ast.Expr) {
			var text string
			func() {
				defer func() {
					if r := recover(); r != nil {
						fail("Regexes: %s in %s: %v", name, e.Name(), r)
						text = "\x00"
					}
				}()
				text = s.strValue(arg)
			}()
			if text == "\x00" {
				return
			}
			names = append(names, name)
			emitGoRegex(m, name, text, e.Name())
		})
	}
	sort.Strings(names)
	m.strs("repoRegexNames", names, "every regexp.MustCompile'd variable of nginx/config/validation (non-test files)")

	// k8s.io/apimachinery/pkg/util/validation regexes behind IsDNS1123Subdomain, IsWildcardDNS1123Subdomain,
	// IsDNS1123Label, IsHTTPHeaderName (used by graph/validation.go, nginxproxy.go, validation/common.go)
	ver := ""
	if gm, err := os.ReadFile(filepath.Join(repo, "go.mod")); err == nil {
		for _, l := range strings.Split(string(gm), "\n") {
			f := strings.Fields(l)
			if len(f) >= 2 && f[0] == "k8s.io/apimachinery" {
				ver = f[1]
			}
		}
	}
	cache := os.Getenv("GOMODCACHE")
	if cache == "" {
		home, _ := os.UserHomeDir()
		cache = filepath.Join(home, "go", "pkg", "mod")
	}
	kpath := filepath.Join(cache, "k8s.io", "apimachinery@"+ver, "pkg", "util", "validation", "validation.go")
	func() {
		defer func() {
			if r := recover(); r != nil {
				fail("Regexes: k8s validation: %v", r)
			}
		}()
		ks := parseAbs(kpath)
		want := map[string]string{
			"dns1123LabelRegexp": "k8s_dns1123Label", "dns1123SubdomainRegexp": "k8s_dns1123Subdomain",
			"wildcardDNS1123SubdomainRegexp": "k8s_wildcardDNS1123Subdomain", "httpHeaderNameRegexp": "k8s_httpHeaderName",
		}
		found := map[string]bool{}
		mustCompileArgs(ks, func(name string, arg ast.Expr) {
			if out, ok := want[name]; ok && !found[name] {
				found[name] = true
				emitGoRegex(m, out, ks.strValue(arg), "k8s.io/apimachinery "+ver)
			}
		})
		for k := range want {
			if !found[k] {
				fail("Regexes: %s not found in %s", k, kpath)
			}
		}
		m.nat("k8s_dns1123SubdomainMaxLength", intLit(ks.valueSpec("DNS1123SubdomainMaxLength")), "")
		m.nat("k8s_dns1123LabelMaxLength", intLit(ks.valueSpec("DNS1123LabelMaxLength")), "")
	}()

	// non-regex parts of the validators that the Lean validator models mirror
	cs := src(dir + "/common.go")
	m.nat("maxHeaderLength", intLit(cs.valueSpec("maxHeaderLength")), "validateHeaderName length limit")
	m.strs("invalidHeaders", mapKeys(cs, "invalidHeaders"), "header names rejected by validateHeaderName (lower case)")
	m.strs("validatePathBody", cs.stmts(cs.fn("", "validatePath").Body), "body of validatePath (filters)")
	m.strs("validateHeaderNameBody", cs.stmts(cs.fn("", "validateHeaderName").Body), "body of validateHeaderName")
	nj := src(dir + "/http_njs_match.go")
	m.strs("validatePathInMatchBody", nj.stmts(nj.fn("HTTPNJSMatchValidator", "ValidatePathInMatch").Body), "")
	m.strs("validateCommonNJSMatchPartBody", nj.stmts(nj.fn("", "validateCommonNJSMatchPart").Body), "")
	m.strs("supportedMethods", mapKeys(nj, "supportedMethods"), "")
	hf := src(dir + "/http_filters.go")
	m.strs("supportedRedirectSchemes", mapKeys(hf, "supportedRedirectSchemes"), "")
	m.strs("redirectValidateHostnameBody", hf.stmts(hf.fn("HTTPRedirectValidator", "ValidateHostname").Body), "")
	m.strs("validateFilterHeaderValueBody", hf.stmts(hf.fn("HTTPHeaderValidator", "ValidateFilterHeaderValue").Body), "")
}

func mapKeys(s *srcFile, name string) []string {
	cl, ok := s.valueSpec(name).(*ast.CompositeLit)
	if !ok {
		panic(name + " is not a composite literal")
	}
	var out []string
	for _, e := range cl.Elts {
		kv, ok := e.(*ast.KeyValueExpr)
		if !ok {
			panic(name + ": element is not key:value")
		}
		out = append(out, s.strValue(kv.Key))
	}
	sort.Strings(out)
	return out
}

// ----------------------------------------------------------------------------------------------
// Templates: every template text constant of nginx/config (and the policy generators) as a list of
// segments in source order: (false, literal text) | (true, action text). Control actions (if, range,
// else, end, with, variable assignments) are kept as holes whose text starts with "#" so that the
// Lean side can tell them from value holes. NGF/Props/C04.lean computes the lexical context of every
// value hole with the Lean NGINX lexer and compares it with its guard table.

type tmplSrc struct{ file, constName, leanName string }

var templateSources = []tmplSrc{
	{"internal/mode/static/nginx/config/servers_template.go", "serversTemplateText", "servers"},
	{"internal/mode/static/nginx/config/main_config_template.go", "mainConfigTemplateText", "mainConfig"},
	{"internal/mode/static/nginx/config/main_config_template.go", "mgmtConfigTemplateText", "mgmtConfig"},
	{"internal/mode/static/nginx/config/telemetry_template.go", "otelTemplateText", "otel"},
	{"internal/mode/static/nginx/config/base_http_config_template.go", "baseHTTPTemplateText", "baseHTTP"},
	{"internal/mode/static/nginx/config/maps_template.go", "mapsTemplateText", "maps"},
	{"internal/mode/static/nginx/config/split_clients_template.go", "splitClientsTemplateText", "splitClients"},
	{"internal/mode/static/nginx/config/upstreams_template.go", "upstreamsTemplateText", "upstreams"},
	{"internal/mode/static/nginx/config/upstreams_template.go", "streamUpstreamsTemplateText", "streamUpstreams"},
	{"internal/mode/static/nginx/config/stream_servers_template.go", "streamServersTemplateText", "streamServers"},
	{"internal/mode/static/nginx/config/version_template.go", "versionTemplateText", "version"},
	{"internal/mode/static/nginx/config/policies/observability/generator.go", "observabilityTemplate", "obsPolicy"},
	{"internal/mode/static/nginx/config/policies/observability/generator.go", "internalTemplate", "obsPolicyInternal"},
	{"internal/mode/static/nginx/config/policies/observability/generator.go", "externalRedirectTemplate", "obsPolicyExtRedirect"},
	{"internal/mode/static/nginx/config/policies/clientsettings/generator.go", "clientSettingsTemplate", "clientSettings"},
}

type seg struct {
	hole bool
	text string
}

func flattenTemplate(n parse.Node, out *[]seg) {
	ctl := func(s string) { *out = append(*out, seg{true, "#" + s}) }
	switch x := n.(type) {
	case nil:
	case *parse.ListNode:
		if x == nil {
			return
		}
		for _, c := range x.Nodes {
			flattenTemplate(c, out)
		}
	case *parse.TextNode:
		// long literals are emitted in chunks: String.toList on a long literal is very slow in the Lean kernel
		rs := []rune(string(x.Text))
		for len(rs) > 0 {
			n := 40
			if len(rs) < n {
				n = len(rs)
			}
			*out = append(*out, seg{false, string(rs[:n])})
			rs = rs[n:]
		}
	case *parse.ActionNode:
		if len(x.Pipe.Decl) > 0 {
			ctl("set " + x.Pipe.String())
		} else {
			*out = append(*out, seg{true, x.Pipe.String()})
		}
	case *parse.IfNode:
		ctl("if " + x.Pipe.String())
		flattenTemplate(x.List, out)
		if x.ElseList != nil {
			ctl("else")
			flattenTemplate(x.ElseList, out)
		}
		ctl("end")
	case *parse.RangeNode:
		ctl("range " + x.Pipe.String())
		flattenTemplate(x.List, out)
		if x.ElseList != nil {
			ctl("else")
			flattenTemplate(x.ElseList, out)
		}
		ctl("end")
	case *parse.WithNode:
		ctl("with " + x.Pipe.String())
		flattenTemplate(x.List, out)
		if x.ElseList != nil {
			ctl("else")
			flattenTemplate(x.ElseList, out)
		}
		ctl("end")
	case *parse.CommentNode:
	default:
		ctl("unsupported " + n.String())
		fail("Templates: unsupported node %T", n)
	}
}

func genTemplates() {
	m := newModule("Templates", "Templates")
	var names []string
	for _, t := range templateSources {
		func() {
			defer func() {
				if r := recover(); r != nil {
					fail("Templates: %s: %v", t.constName, r)
				}
			}()
			s := src(t.file)
			text := s.strConst(t.constName)
			tm, err := gotemplate.New(t.leanName).Parse(text)
			if err != nil {
				fail("Templates: %s does not parse: %v", t.constName, err)
				return
			}
			var segs []seg
			flattenTemplate(tm.Tree.Root, &segs)
			parts := make([]string, len(segs))
			fact := make([][2]string, len(segs))
			for i, sg := range segs {
				parts[i] = fmt.Sprintf("(%v, %s)", sg.hole, leanStr(sg.text))
				k := "lit"
				if sg.hole {
					k = "hole"
				}
				fact[i] = [2]string{k, sg.text}
			}
			val := "[" + strings.Join(parts, ",\n   ") + "]"
			if len(parts) == 0 {
				val = "[]"
			}
			m.raw(t.leanName, "List (Bool × String)", val, "segments of "+t.constName+" ("+t.file+")", fact)
			names = append(names, t.leanName)
		}()
	}
	m.strs("templateNames", names, "templates extracted")

	// every const/var whose name ends in Template/TemplateText in the config package tree must be listed
	// above: a new template without segments (and so without guard-table entries) is reported.
	known := map[string]bool{}
	for _, t := range templateSources {
		known[t.constName] = true
	}
	var unknown []string
	root := filepath.Join(repo, "internal/mode/static/nginx/config")
	filepath.Walk(root, func(path string, info os.FileInfo, err error) error {
		if err != nil || info.IsDir() || !strings.HasSuffix(path, ".go") || strings.HasSuffix(path, "_test.go") {
			return nil
		}
		rel, _ := filepath.Rel(repo, path)
		s := src(rel)
		for _, d := range s.f.Decls {
			gd, ok := d.(*ast.GenDecl)
			if !ok || (gd.Tok != token.CONST && gd.Tok != token.VAR) {
				continue
			}
			for _, sp := range gd.Specs {
				vs := sp.(*ast.ValueSpec)
				for i, n := range vs.Names {
					if i >= len(vs.Values) {
						continue
					}
					bl, ok := vs.Values[i].(*ast.BasicLit)
					if !ok || bl.Kind != token.STRING || !strings.Contains(bl.Value, "{{") {
						continue
					}
					if !known[n.Name] {
						unknown = append(unknown, rel+":"+n.Name)
					}
				}
			}
		}
		return nil
	})
	sort.Strings(unknown)
	m.strs("unlistedTemplates", unknown, "string constants containing {{ that are not in the translator's template list")
}
