package main

import (
	"go/ast"
	"strings"
)

func init() { register("StoreFacts", genStore) }

// storeKindOf turns the text of a registered object type ("&gatewayv1.GatewayClass{}", "&crdWithGVK",
// "&apiv1.ServiceList{}", "partialObjectMetadataList") into a Kind name.
func storeKindOf(t string) string {
	t = strings.TrimPrefix(t, "&")
	if i := strings.Index(t, "{"); i >= 0 {
		t = t[:i]
	}
	if i := strings.LastIndex(t, "."); i >= 0 {
		t = t[i+1:]
	}
	switch t {
	case "crdWithGVK", "partialObjectMetadataList":
		return "CustomResourceDefinition"
	}
	return strings.TrimSuffix(t, "List")
}

// storeCompositeField returns the value text of field `name` in a composite literal ("" if absent).
func storeCompositeField(s *srcFile, cl *ast.CompositeLit, name string) (string, ast.Expr) {
	for _, e := range cl.Elts {
		kv, ok := e.(*ast.KeyValueExpr)
		if !ok {
			continue
		}
		if id, ok := kv.Key.(*ast.Ident); ok && id.Name == name {
			return s.text(kv.Value), kv.Value
		}
	}
	return "", nil
}

// C01: the per-kind tables of the change processor, the watch predicates, the first batch, and the
// statement texts of the change-tracking updater.
func genStore() {
	m := newModule("StoreFacts", "Store")

	// ---- NewChangeProcessorImpl: per kind: store? predicate?
	cp := src("internal/mode/static/state/change_processor.go")
	ncp := cp.fn("", "NewChangeProcessorImpl")
	var cfgKinds, cfgStores, cfgPreds []string
	walk(ncp.Body, func(n ast.Node) bool {
		cl, ok := n.(*ast.CompositeLit)
		if !ok || cl.Type == nil || cp.text(cl.Type) != "[]changeTrackingUpdaterObjectTypeCfg" {
			return true
		}
		for _, e := range cl.Elts {
			el, ok := e.(*ast.CompositeLit)
			if !ok {
				fail("StoreFacts: unexpected element in changeTrackingUpdaterObjectTypeCfg list")
				continue
			}
			gvk, gvkExpr := storeCompositeField(cp, el, "gvk")
			kind := gvk
			if ce, ok := gvkExpr.(*ast.CallExpr); ok && len(ce.Args) == 1 {
				kind = storeKindOf(cp.text(ce.Args[0]))
			}
			store, _ := storeCompositeField(cp, el, "store")
			pred, _ := storeCompositeField(cp, el, "predicate")
			st := "map"
			switch {
			case store == "" || store == "nil":
				st = "none"
			case store == "commonPolicyObjectStore":
				st = "policies"
			case !strings.HasPrefix(store, "newObjectStoreMapAdapter("):
				st = store
			}
			if pred == "" {
				pred = "nil"
			}
			cfgKinds = append(cfgKinds, kind)
			cfgStores = append(cfgStores, st)
			cfgPreds = append(cfgPreds, pred)
		}
		return false
	})
	if len(cfgKinds) == 0 {
		fail("StoreFacts: changeTrackingUpdaterObjectTypeCfg list not found")
	}
	m.strs("cfgKinds", cfgKinds, "kinds registered with the change-tracking updater, in order")
	m.strs("cfgStores", cfgStores, "per kind: map (objectStoreMapAdapter) / policies (shared policy store) / none (not persisted)")
	m.strs("cfgPredicates", cfgPreds, "per kind: the stateChangedPredicate (nil = every event is a change)")
	// the closures the funcPredicates call
	walk(ncp.Body, func(n ast.Node) bool {
		as, ok := n.(*ast.AssignStmt)
		if !ok || len(as.Lhs) != 1 {
			return true
		}
		name := cp.text(as.Lhs[0])
		if fl, ok := as.Rhs[0].(*ast.FuncLit); ok && (name == "isReferenced" || name == "isNGFPolicyRelevant") {
			m.strs(name+"Body", cp.stmts(fl.Body), "body of the "+name+" closure (evaluated against processor.latestGraph)")
		}
		return true
	})
	m.strs("processBody", cp.stmts(cp.fn("ChangeProcessorImpl", "Process").Body), "ChangeProcessorImpl.Process")
	// ChangeType constants in iota order
	var cts []string
	for _, d := range cp.f.Decls {
		gd, ok := d.(*ast.GenDecl)
		if !ok {
			continue
		}
		for _, sp := range gd.Specs {
			vs, ok := sp.(*ast.ValueSpec)
			if !ok {
				continue
			}
			for _, nm := range vs.Names {
				if strings.HasSuffix(nm.Name, "Change") && nm.Name != "ChangeType" {
					cts = append(cts, nm.Name)
				}
			}
		}
	}
	m.strs("changeTypes", cts, "ChangeType constants in iota order")

	// ---- store.go: the updater
	st := src("internal/mode/static/state/store.go")
	for _, fn := range []string{"upsert", "Upsert", "delete", "Delete", "getAndResetChangedStatus", "setChangeType"} {
		m.strs("updater_"+fn, st.stmts(st.fn("changeTrackingUpdater", fn).Body), "changeTrackingUpdater."+fn)
	}
	pr := src("internal/mode/static/state/changed_predicate.go")
	m.strs("funcPredicate_upsert", pr.stmts(pr.fn("funcPredicate", "upsert").Body), "funcPredicate.upsert")
	m.strs("funcPredicate_delete", pr.stmts(pr.fn("funcPredicate", "delete").Body), "funcPredicate.delete")
	m.strs("annotationPredicate_upsert", pr.stmts(pr.fn("annotationChangedPredicate", "upsert").Body), "annotationChangedPredicate.upsert")
	m.strs("annotationPredicate_delete", pr.stmts(pr.fn("annotationChangedPredicate", "delete").Body), "annotationChangedPredicate.delete")

	// ---- graph.IsReferenced: case list
	gr := src("internal/mode/static/state/graph/graph.go")
	isRef := gr.fn("Graph", "IsReferenced")
	var refCases, refBodies []string
	walk(isRef.Body, func(n ast.Node) bool {
		ts, ok := n.(*ast.TypeSwitchStmt)
		if !ok {
			return true
		}
		for _, c := range ts.Body.List {
			cc := c.(*ast.CaseClause)
			label := "default"
			if len(cc.List) > 0 {
				var ls []string
				for _, e := range cc.List {
					ls = append(ls, gr.text(e))
				}
				label = strings.Join(ls, ",")
			}
			var body []string
			for _, s := range cc.Body {
				body = append(body, gr.text(s))
			}
			refCases = append(refCases, label)
			refBodies = append(refBodies, strings.Join(body, " ; "))
		}
		return false
	})
	m.strs("isReferencedCases", refCases, "type-switch cases of Graph.IsReferenced")
	m.strs("isReferencedBodies", refBodies, "statements of each case of Graph.IsReferenced")

	// ---- the functions the footprint model (NGF.Model.Footprint) mirrors
	sv := src("internal/mode/static/state/graph/service.go")
	brs := sv.fn("", "buildReferencedServices")
	var loops []string
	walk(brs.Body, func(n ast.Node) bool {
		if rs, ok := n.(*ast.RangeStmt); ok {
			t := sv.text(rs.X)
			if t == "l7routes" || t == "l4Routes" {
				loops = append(loops, t+": "+strings.Join(sv.stmts(rs.Body), " ; "))
			}
		}
		if as, ok := n.(*ast.AssignStmt); ok && len(as.Lhs) == 1 && sv.text(as.Lhs[0]) == "belongsToWinningGw" {
			if fl, ok := as.Rhs[0].(*ast.FuncLit); ok {
				m.strs("belongsToWinningGwBody", sv.stmts(fl.Body), "belongsToWinningGw closure of buildReferencedServices")
			}
		}
		return true
	})
	m.strs("referencedServicesLoops", loops, "the two route loops of buildReferencedServices")
	nsf := src("internal/mode/static/state/graph/namespace.go")
	m.strs("buildReferencedNamespacesBody", nsf.stmts(nsf.fn("", "buildReferencedNamespaces").Body), "buildReferencedNamespaces")
	m.strs("isNamespaceReferencedBody", nsf.stmts(nsf.fn("", "isNamespaceReferenced").Body), "isNamespaceReferenced")
	btf := src("internal/mode/static/state/graph/backend_tls_policy.go")
	m.strs("validateBackendTLSCACertRefBody", btf.stmts(btf.fn("", "validateBackendTLSCACertRef").Body), "validateBackendTLSCACertRef")

	// ---- relevance of the by-name kinds, NginxProxy and NGF policies (footprint frames of NGF.Model.Footprint)
	scf := src("internal/mode/static/state/graph/secret.go")
	m.strs("secretResolveBody", scf.stmts(scf.fn("secretResolver", "resolve").Body), "secretResolver.resolve")
	m.strs("getResolvedSecretsBody", scf.stmts(scf.fn("secretResolver", "getResolvedSecrets").Body), "secretResolver.getResolvedSecrets")
	cmf := src("internal/mode/static/state/graph/configmaps.go")
	m.strs("configMapResolveBody", cmf.stmts(cmf.fn("configMapResolver", "resolve").Body), "configMapResolver.resolve")
	m.strs("getResolvedConfigMapsBody", cmf.stmts(cmf.fn("configMapResolver", "getResolvedConfigMaps").Body), "configMapResolver.getResolvedConfigMaps")
	npf := src("internal/mode/static/state/graph/nginxproxy.go")
	m.strs("isNginxProxyReferencedBody", npf.stmts(npf.fn("", "isNginxProxyReferenced").Body), "isNginxProxyReferenced")
	m.strs("gcReferencesAnyNginxProxyBody", npf.stmts(npf.fn("", "gcReferencesAnyNginxProxy").Body), "gcReferencesAnyNginxProxy")
	m.strs("buildNginxProxyBody", npf.stmts(npf.fn("", "buildNginxProxy").Body), "buildNginxProxy")
	m.strs("isNGFPolicyRelevantGraphBody", gr.stmts(gr.fn("Graph", "IsNGFPolicyRelevant").Body), "Graph.IsNGFPolicyRelevant")
	m.strs("gatewayAPIResourceExistBody", gr.stmts(gr.fn("Graph", "gatewayAPIResourceExist").Body), "Graph.gatewayAPIResourceExist")
	m.strs("gatewayExistsBody", gr.stmts(gr.fn("", "gatewayExists").Body), "gatewayExists")
	plf := src("internal/mode/static/state/graph/policies.go")
	pp := plf.fn("", "processPolicies")
	var ppGuards, ppRefLoop []string
	walk(pp.Body, func(n ast.Node) bool {
		switch x := n.(type) {
		case *ast.IfStmt:
			c := plf.text(x.Cond)
			if c == "len(pols) == 0 || gateways.Winner == nil" || c == "len(targetRefs) == 0" {
				ppGuards = append(ppGuards, plf.text(x))
			}
		case *ast.RangeStmt:
			if plf.text(x.X) == "policy.GetTargetRefs()" {
				ppRefLoop = plf.stmts(x.Body)
				return false
			}
		}
		return true
	})
	m.strs("processPoliciesGuards", ppGuards, "processPolicies: when nothing / this policy is not processed")
	m.strs("processPoliciesRefLoop", ppRefLoop, "processPolicies: body of the loop over policy.GetTargetRefs()")
	m.strs("refGroupKindBody", plf.stmts(plf.fn("", "refGroupKind").Body), "refGroupKind")

	// ---- handler: the dispatch on changeType
	hd := src("internal/mode/static/handler.go")
	heb := hd.fn("eventHandlerImpl", "HandleEventBatch")
	var hCases, hBodies []string
	walk(heb.Body, func(n ast.Node) bool {
		sw, ok := n.(*ast.SwitchStmt)
		if !ok || sw.Tag == nil || hd.text(sw.Tag) != "changeType" {
			return true
		}
		for _, c := range sw.Body.List {
			cc := c.(*ast.CaseClause)
			label := "default"
			if len(cc.List) > 0 {
				label = hd.text(cc.List[0])
			}
			var body []string
			for _, s := range cc.Body {
				t := hd.text(s)
				if strings.HasPrefix(t, "logger.") {
					continue
				}
				body = append(body, t)
			}
			hCases = append(hCases, label)
			hBodies = append(hBodies, strings.Join(body, " ; "))
		}
		return false
	})
	m.strs("handlerCases", hCases, "cases of `switch changeType` in HandleEventBatch")
	m.strs("handlerBodies", hBodies, "statements (minus logging) of each case")
	// what precedes / follows the switch
	var pre, post []string
	seenSwitch := false
	for _, s := range heb.Body.List {
		t := hd.text(s)
		if sw, ok := s.(*ast.SwitchStmt); ok && sw.Tag != nil && hd.text(sw.Tag) == "changeType" {
			seenSwitch = true
			continue
		}
		if strings.HasPrefix(t, "logger.") || strings.HasPrefix(t, "start :=") || strings.HasPrefix(t, "defer ") {
			continue
		}
		if seenSwitch {
			post = append(post, t)
		} else {
			pre = append(pre, t)
		}
	}
	m.strs("handlerBeforeSwitch", pre, "statements of HandleEventBatch before the switch (minus logging/metrics)")
	m.strs("handlerAfterSwitch", post, "statements of HandleEventBatch after the switch")

	// ---- handler: the object filters (`newEventHandlerImpl`) and the capture step (`parseAndCaptureEvent`)
	nh := hd.fn("", "newEventHandlerImpl")
	var fTypes, fNames, fUps, fDels, fCapt, fOther []string
	walk(nh.Body, func(n ast.Node) bool {
		cl, ok := n.(*ast.CompositeLit)
		if !ok || cl.Type == nil || hd.text(cl.Type) != "map[filterKey]objectFilter" {
			return true
		}
		for _, e := range cl.Elts {
			kv, ok := e.(*ast.KeyValueExpr)
			if !ok {
				fail("StoreFacts: unexpected element in the objectFilters literal")
				continue
			}
			key, ok := kv.Key.(*ast.CallExpr)
			if !ok || hd.text(key.Fun) != "objectFilterKey" || len(key.Args) != 2 {
				fail("StoreFacts: objectFilters key is not objectFilterKey(type, nsname): %s", hd.text(kv.Key))
				continue
			}
			val, ok := kv.Value.(*ast.CompositeLit)
			if !ok {
				fail("StoreFacts: objectFilters value is not a literal: %s", hd.text(kv.Value))
				continue
			}
			fTypes = append(fTypes, hd.text(key.Args[0]))
			fNames = append(fNames, hd.text(key.Args[1]))
			up, _ := storeCompositeField(hd, val, "upsert")
			del, _ := storeCompositeField(hd, val, "delete")
			capt, _ := storeCompositeField(hd, val, "captureChangeInGraph")
			if capt == "" {
				capt = "false" // zero value
			}
			fUps, fDels, fCapt = append(fUps, up), append(fDels, del), append(fCapt, capt)
			var other []string
			for _, f := range val.Elts {
				if fkv, ok := f.(*ast.KeyValueExpr); ok {
					switch hd.text(fkv.Key) {
					case "upsert", "delete", "captureChangeInGraph":
					default:
						other = append(other, hd.text(fkv))
					}
				} else {
					other = append(other, hd.text(f))
				}
			}
			fOther = append(fOther, strings.Join(other, " ; "))
		}
		return false
	})
	if len(fTypes) == 0 {
		fail("StoreFacts: objectFilters literal not found in newEventHandlerImpl")
	}
	m.strs("filterTypes", fTypes, "objectFilters: the object type of each filter key, in source order")
	m.strs("filterNames", fNames, "objectFilters: the namespaced name of each filter key")
	m.strs("filterUpserts", fUps, "objectFilters: upsert callback")
	m.strs("filterDeletes", fDels, "objectFilters: delete callback")
	m.strs("filterCapture", fCapt, "objectFilters: captureChangeInGraph (false = field absent)")
	m.strs("filterOtherFields", fOther, "objectFilters: any other field of the literal (\"\" = none)")
	var ofType []string
	for _, d := range hd.f.Decls {
		gd, ok := d.(*ast.GenDecl)
		if !ok {
			continue
		}
		for _, sp := range gd.Specs {
			if ts, ok := sp.(*ast.TypeSpec); ok && ts.Name.Name == "objectFilter" {
				if st, ok := ts.Type.(*ast.StructType); ok {
					for _, f := range st.Fields.List {
						for _, nm := range f.Names {
							ofType = append(ofType, nm.Name+" "+hd.text(f.Type))
						}
					}
				}
			}
		}
	}
	m.strs("objectFilterFields", ofType, "fields of type objectFilter")
	m.strs("objectFilterKeyBody", hd.stmts(hd.fn("", "objectFilterKey").Body), "objectFilterKey")
	pc := hd.fn("eventHandlerImpl", "parseAndCaptureEvent")
	var pcCases, pcBodies []string
	var pcTag string
	walk(pc.Body, func(n ast.Node) bool {
		ts, ok := n.(*ast.TypeSwitchStmt)
		if !ok {
			return true
		}
		pcTag = hd.text(ts.Assign)
		for _, c := range ts.Body.List {
			cc := c.(*ast.CaseClause)
			label := "default"
			if len(cc.List) > 0 {
				var ls []string
				for _, e := range cc.List {
					ls = append(ls, hd.text(e))
				}
				label = strings.Join(ls, ",")
			}
			var body []string
			for _, s := range cc.Body {
				body = append(body, hd.text(s))
			}
			pcCases = append(pcCases, label)
			pcBodies = append(pcBodies, strings.Join(body, " ; "))
		}
		return false
	})
	m.str("parseAndCaptureSwitch", pcTag, "the type switch of parseAndCaptureEvent")
	m.strs("parseAndCaptureCases", pcCases, "cases of the type switch of parseAndCaptureEvent")
	m.strs("parseAndCaptureBodies", pcBodies, "statements of each case")
	m.nat("parseAndCaptureTopLevelStmts", len(pc.Body.List), "number of top-level statements of parseAndCaptureEvent (the switch only)")
	for _, cb := range []string{"nginxGatewayCRDUpsert", "nginxGatewayCRDDelete", "nginxGatewayServiceUpsert", "nginxGatewayServiceDelete"} {
		var body []string
		for _, s := range hd.fn("eventHandlerImpl", cb).Body.List {
			t := hd.text(s)
			if strings.HasPrefix(t, "logger.") {
				continue
			}
			body = append(body, t)
		}
		m.strs("callback_"+cb, body, "eventHandlerImpl."+cb+" (minus logging)")
	}

	// ---- reconciler: what a delete event carries
	rc := src("internal/framework/controller/reconciler.go")
	rec := rc.fn("Reconciler", "Reconcile")
	var delEv, upEv string
	walk(rec.Body, func(n ast.Node) bool {
		cl, ok := n.(*ast.CompositeLit)
		if !ok || cl.Type == nil {
			return true
		}
		switch rc.text(cl.Type) {
		case "events.DeleteEvent":
			delEv = rc.text(cl)
		case "events.UpsertEvent":
			upEv = rc.text(cl)
		}
		return true
	})
	m.str("reconcilerDeleteEvent", delEv, "the DeleteEvent literal built by Reconciler.Reconcile")
	m.str("reconcilerUpsertEvent", upEv, "the UpsertEvent literal built by Reconciler.Reconcile")

	// ---- manager.go: watch predicates per registered controller
	mg := src("internal/mode/static/manager.go")
	reg := mg.fn("", "registerControllers")
	var wKinds, wNames, wPreds, wConds, wNNFilters []string
	addCtlr := func(el *ast.CompositeLit, cond string) {
		ot, _ := storeCompositeField(mg, el, "objectType")
		name, _ := storeCompositeField(mg, el, "name")
		name = strings.Trim(name, "\"")
		_, opts := storeCompositeField(mg, el, "options")
		pred := ""
		if opts != nil {
			for _, c := range mg.calls(opts, "controller.WithK8sPredicate") {
				if len(c.Args) == 1 {
					pred = mg.text(c.Args[0])
				}
			}
		}
		nnf := ""
		if opts != nil {
			for _, c := range mg.calls(opts, "controller.WithNamespacedNameFilter") {
				if len(c.Args) == 1 {
					nnf = mg.text(c.Args[0])
				}
			}
		}
		wKinds = append(wKinds, storeKindOf(ot))
		wNames = append(wNames, name)
		wPreds = append(wPreds, pred)
		wConds = append(wConds, cond)
		wNNFilters = append(wNNFilters, nnf)
	}
	var visit func(n ast.Node, cond string)
	visit = func(n ast.Node, cond string) {
		ast.Inspect(n, func(x ast.Node) bool {
			switch y := x.(type) {
			case *ast.IfStmt:
				c := mg.text(y.Cond)
				if strings.HasPrefix(c, "cfg.") {
					visit(y.Body, c)
					return false
				}
			case *ast.CompositeLit:
				if y.Type != nil && mg.text(y.Type) == "ctlrCfg" {
					addCtlr(y, cond)
					return false
				}
				if y.Type != nil && mg.text(y.Type) == "[]ctlrCfg" {
					for _, e := range y.Elts {
						if el, ok := e.(*ast.CompositeLit); ok {
							addCtlr(el, cond)
						}
					}
					return false
				}
			}
			return true
		})
	}
	visit(reg.Body, "")
	if len(wKinds) == 0 {
		fail("StoreFacts: controller registrations not found")
	}
	m.strs("watchKinds", wKinds, "kinds registered in registerControllers, in order")
	m.strs("watchNames", wNames, "explicit controller names (\"\" = kind)")
	m.strs("watchPredicates", wPreds, "event filter given to each controller (\"\" = none)")
	m.strs("watchConds", wConds, "the cfg flag guarding the registration (\"\" = always)")
	var spec []string
	for i := range wKinds {
		spec = append(spec, wKinds[i]+"|"+wNames[i]+"|"+wPreds[i])
	}
	facts["StoreFacts.watchSpec"] = strings.Join(spec, ";")
	m.strs("watchNNFilters", wNNFilters, "namespaced-name filter given to each controller (\"\" = none)")
	var nnSpec []string
	for i := range wKinds {
		if wNNFilters[i] != "" {
			nnSpec = append(nnSpec, wKinds[i]+"|"+wNames[i]+"|"+wConds[i]+"|"+wNNFilters[i])
		}
	}
	facts["StoreFacts.watchNNFilterSpec"] = strings.Join(nnSpec, ";")

	// ---- manager.go: first batch
	fb := mg.fn("", "prepareFirstEventBatchPreparerArgs")
	var fbObjs, fbLists, fbConds []string
	var visitFB func(n ast.Node, cond string)
	addList := func(e ast.Expr, cond string) {
		fbLists = append(fbLists, storeKindOf(mg.text(e)))
		fbConds = append(fbConds, cond)
	}
	visitFB = func(n ast.Node, cond string) {
		ast.Inspect(n, func(x ast.Node) bool {
			switch y := x.(type) {
			case *ast.IfStmt:
				c := mg.text(y.Cond)
				visitFB(y.Body, c)
				if y.Else != nil {
					visitFB(y.Else, "!("+c+")")
				}
				return false
			case *ast.CompositeLit:
				if y.Type == nil {
					return true
				}
				switch mg.text(y.Type) {
				case "[]client.Object":
					for _, e := range y.Elts {
						fbObjs = append(fbObjs, storeKindOf(mg.text(e))+"@"+cond)
					}
					return false
				case "[]client.ObjectList":
					for _, e := range y.Elts {
						addList(e, cond)
					}
					return false
				}
			case *ast.CallExpr:
				if mg.text(y.Fun) == "append" && len(y.Args) > 1 {
					switch mg.text(y.Args[0]) {
					case "objectLists":
						for _, e := range y.Args[1:] {
							addList(e, cond)
						}
						return false
					case "objects":
						for _, e := range y.Args[1:] {
							fbObjs = append(fbObjs, storeKindOf(mg.text(e))+"@"+cond)
						}
						return false
					}
				}
			}
			return true
		})
	}
	visitFB(fb.Body, "")
	m.strs("firstBatchObjects", fbObjs, "objects fetched by name for the first batch (Kind@guard)")
	m.strs("firstBatchLists", fbLists, "kinds listed for the first batch, in order")
	m.strs("firstBatchListConds", fbConds, "the guard of each list (\"\" = always)")
}
