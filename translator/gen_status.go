package main

// C08: StatusFacts — CRD limits of the status subresources (read from the CRD YAML of NGF and of the
// gateway-api module the repo depends on), maxAncestors, the retry backoff, the bodies of the status
// setter closures and of the retry function, and the table of condition constructors.

import (
	"fmt"
	"go/ast"
	"go/parser"
	"go/token"
	"os"
	"os/exec"
	"path/filepath"
	"regexp"
	"sort"
	"strconv"
	"strings"
)

func init() { register("StatusFacts", genStatus) }

// ------------------------------------------------------------------ minimal YAML (controller-gen output)

type c08Y struct {
	scalar string
	m      map[string]*c08Y
	items  []*c08Y
	isMap  bool
	isList bool
}

type c08Line struct {
	indent int
	text   string
}

type c08Parser struct {
	lines []c08Line
	pos   int
}

var c08KeyRe = regexp.MustCompile(`^([A-Za-z0-9_.$/-]+):( (.*))?$`)

func c08Unquote(s string) string {
	s = strings.TrimSpace(s)
	if len(s) >= 2 && s[0] == '"' && s[len(s)-1] == '"' {
		if u, err := strconv.Unquote(s); err == nil {
			return u
		}
		return s[1 : len(s)-1]
	}
	if len(s) >= 2 && s[0] == '\'' && s[len(s)-1] == '\'' {
		return strings.ReplaceAll(s[1:len(s)-1], "''", "'")
	}
	return s
}

func c08ParseYAML(text string) *c08Y {
	p := &c08Parser{}
	for _, l := range strings.Split(text, "\n") {
		t := strings.TrimRight(l, " \r")
		tt := strings.TrimLeft(t, " ")
		if tt == "" || strings.HasPrefix(tt, "#") || tt == "---" {
			continue
		}
		p.lines = append(p.lines, c08Line{len(t) - len(tt), tt})
	}
	if len(p.lines) == 0 {
		return &c08Y{}
	}
	return p.block(p.lines[0].indent)
}

// skipDeeper consumes continuation lines (block scalars, folded plain scalars).
func (p *c08Parser) skipDeeper(indent int) string {
	var parts []string
	for p.pos < len(p.lines) && p.lines[p.pos].indent > indent {
		parts = append(parts, p.lines[p.pos].text)
		p.pos++
	}
	return strings.Join(parts, " ")
}

func (p *c08Parser) block(indent int) *c08Y {
	if p.pos >= len(p.lines) {
		return &c08Y{}
	}
	if strings.HasPrefix(p.lines[p.pos].text, "- ") || p.lines[p.pos].text == "-" {
		return p.list(indent)
	}
	n := &c08Y{isMap: true, m: map[string]*c08Y{}}
	for p.pos < len(p.lines) && p.lines[p.pos].indent == indent && !strings.HasPrefix(p.lines[p.pos].text, "- ") {
		mm := c08KeyRe.FindStringSubmatch(p.lines[p.pos].text)
		if mm == nil {
			panic(fmt.Sprintf("yaml: cannot parse line %q", p.lines[p.pos].text))
		}
		key, rest := mm[1], strings.TrimSpace(mm[3])
		p.pos++
		switch {
		case rest == "":
			if p.pos < len(p.lines) && (p.lines[p.pos].indent > indent ||
				(p.lines[p.pos].indent == indent && strings.HasPrefix(p.lines[p.pos].text, "- "))) {
				n.m[key] = p.block(p.lines[p.pos].indent)
			} else {
				n.m[key] = &c08Y{}
			}
		case rest[0] == '|' || rest[0] == '>':
			n.m[key] = &c08Y{scalar: p.skipDeeper(indent)}
		case rest == "{}":
			n.m[key] = &c08Y{isMap: true, m: map[string]*c08Y{}}
		case rest == "[]":
			n.m[key] = &c08Y{isList: true}
		default:
			cont := p.skipDeeper(indent)
			if cont != "" {
				rest += " " + cont
			}
			n.m[key] = &c08Y{scalar: c08Unquote(rest)}
		}
	}
	return n
}

func (p *c08Parser) list(indent int) *c08Y {
	n := &c08Y{isList: true}
	for p.pos < len(p.lines) && p.lines[p.pos].indent == indent &&
		(strings.HasPrefix(p.lines[p.pos].text, "- ") || p.lines[p.pos].text == "-") {
		rest := strings.TrimPrefix(strings.TrimPrefix(p.lines[p.pos].text, "-"), " ")
		extra := len(p.lines[p.pos].text) - len(rest)
		if c08KeyRe.MatchString(rest) && !strings.HasPrefix(rest, "\"") {
			// "- key: value": a map whose first key sits at indent+extra
			p.lines[p.pos] = c08Line{indent + extra, rest}
			n.items = append(n.items, p.block(indent+extra))
			continue
		}
		p.pos++
		cont := p.skipDeeper(indent)
		if cont != "" {
			rest += " " + cont
		}
		n.items = append(n.items, &c08Y{scalar: c08Unquote(rest)})
	}
	return n
}

func (n *c08Y) get(path ...string) *c08Y {
	cur := n
	for _, k := range path {
		if cur == nil || cur.m == nil {
			return nil
		}
		cur = cur.m[k]
	}
	return cur
}

func (n *c08Y) intOf(key string) (int, bool) {
	c := n.get(key)
	if c == nil {
		return 0, false
	}
	v, err := strconv.Atoi(c.scalar)
	return v, err == nil
}

// visit walks an OpenAPI schema through properties / items.
func c08Visit(n *c08Y, path string, f func(path string, n *c08Y)) {
	if n == nil {
		return
	}
	f(path, n)
	if props := n.get("properties"); props != nil && props.m != nil {
		keys := make([]string, 0, len(props.m))
		for k := range props.m {
			keys = append(keys, k)
		}
		sort.Strings(keys)
		for _, k := range keys {
			c08Visit(props.m[k], path+"."+k, f)
		}
	}
	c08Visit(n.get("items"), path+"[]", f)
}

// ------------------------------------------------------------------ module cache

func c08ModCache() string {
	if out, err := exec.Command("go", "env", "GOMODCACHE").Output(); err == nil {
		if d := strings.TrimSpace(string(out)); d != "" {
			return d
		}
	}
	if gp := os.Getenv("GOPATH"); gp != "" {
		return filepath.Join(gp, "pkg", "mod")
	}
	home, _ := os.UserHomeDir()
	return filepath.Join(home, "go", "pkg", "mod")
}

// c08Requires: module path -> version from the repo's go.mod.
func c08Requires() map[string]string {
	b, err := os.ReadFile(filepath.Join(repo, "go.mod"))
	if err != nil {
		panic(err)
	}
	out := map[string]string{}
	re := regexp.MustCompile(`^\s*(?:require\s+)?([A-Za-z0-9._~/-]+)\s+(v[0-9][^\s]*)`)
	for _, l := range strings.Split(string(b), "\n") {
		if m := re.FindStringSubmatch(l); m != nil {
			out[m[1]] = m[2]
		}
	}
	return out
}

func c08EscapeModPath(p string) string {
	var b strings.Builder
	for _, r := range p {
		if r >= 'A' && r <= 'Z' {
			b.WriteByte('!')
			b.WriteRune(r + 32)
		} else {
			b.WriteRune(r)
		}
	}
	return b.String()
}

// c08PkgDir resolves an import path to a directory (repo packages and module-cache packages).
func c08PkgDir(imp string, reqs map[string]string, cache string) string {
	const self = "github.com/nginx/nginx-gateway-fabric"
	if imp == self || strings.HasPrefix(imp, self+"/") {
		return filepath.Join(repo, strings.TrimPrefix(imp, self))
	}
	best := ""
	for m := range reqs {
		if (imp == m || strings.HasPrefix(imp, m+"/")) && len(m) > len(best) {
			best = m
		}
	}
	if best == "" {
		return ""
	}
	return filepath.Join(cache, c08EscapeModPath(best)+"@"+reqs[best], strings.TrimPrefix(imp, best))
}

// c08Consts: every package-level string constant of the package in dir (name -> value).
var c08ConstCache = map[string]map[string]string{}

func c08Consts(dir string) map[string]string {
	if c, ok := c08ConstCache[dir]; ok {
		return c
	}
	out := map[string]string{}
	c08ConstCache[dir] = out
	ents, err := os.ReadDir(dir)
	if err != nil {
		return out
	}
	alias := map[string]string{} // const X = Y
	for _, e := range ents {
		if !strings.HasSuffix(e.Name(), ".go") || strings.HasSuffix(e.Name(), "_test.go") {
			continue
		}
		f, err := parser.ParseFile(token.NewFileSet(), filepath.Join(dir, e.Name()), nil, 0)
		if err != nil {
			continue
		}
		for _, d := range f.Decls {
			gd, ok := d.(*ast.GenDecl)
			if !ok || gd.Tok != token.CONST {
				continue
			}
			for _, sp := range gd.Specs {
				vs := sp.(*ast.ValueSpec)
				for i, n := range vs.Names {
					if i >= len(vs.Values) {
						continue
					}
					switch v := vs.Values[i].(type) {
					case *ast.BasicLit:
						if v.Kind == token.STRING {
							if s, err := strconv.Unquote(v.Value); err == nil {
								out[n.Name] = s
							}
						}
					case *ast.Ident:
						alias[n.Name] = v.Name
					}
				}
			}
		}
	}
	for i := 0; i < 4; i++ {
		for k, v := range alias {
			if s, ok := out[v]; ok {
				out[k] = s
			}
		}
	}
	return out
}

// ------------------------------------------------------------------ the generator

type c08Lim struct {
	vals map[string]map[int]bool // figure -> set of values seen
	rows []string
}

func (l *c08Lim) add(fig string, v int, where string) {
	if l.vals[fig] == nil {
		l.vals[fig] = map[int]bool{}
	}
	l.vals[fig][v] = true
	l.rows = append(l.rows, fmt.Sprintf("%s %s=%d", where, fig, v))
}

func (l *c08Lim) min(fig string) (int, bool) {
	first, out := true, 0
	for v := range l.vals[fig] {
		if first || v < out {
			out, first = v, false
		}
	}
	return out, !first
}

func genStatus() {
	m := newModule("StatusFacts", "Status")
	reqs := c08Requires()
	cache := c08ModCache()

	// ---- CRD limits
	gwDir := c08PkgDir("sigs.k8s.io/gateway-api", reqs, cache)
	var files []string
	for _, g := range []string{
		filepath.Join(repo, "config/crd/bases/*.yaml"),
		filepath.Join(gwDir, "config/crd/standard/*.yaml"),
		filepath.Join(gwDir, "config/crd/experimental/*.yaml"),
	} {
		fs, _ := filepath.Glob(g)
		sort.Strings(fs)
		files = append(files, fs...)
	}
	lim := &c08Lim{vals: map[string]map[int]bool{}}
	patterns := map[string]map[string]bool{"reason": {}, "type": {}}
	nCRD := 0
	// which CRDs carry which list
	listFig := map[string]string{
		".parents": "maxParents", ".ancestors": "maxAncestors", ".controllers": "maxControllers",
		".listeners": "maxListeners", ".addresses": "maxAddresses",
	}
	wanted := regexp.MustCompile(`_(httproutes|grpcroutes|tlsroutes|backendtlspolicies|gateways|gatewayclasses|` +
		`clientsettingspolicies|observabilitypolicies|upstreamsettingspolicies|snippetsfilters|nginxgateways)\.yaml$`)
	for _, fp := range files {
		if !wanted.MatchString(fp) {
			continue
		}
		b, err := os.ReadFile(fp)
		if err != nil {
			fail("StatusFacts: %v", err)
			continue
		}
		var doc *c08Y
		func() {
			defer func() {
				if r := recover(); r != nil {
					fail("StatusFacts: %s: %v", fp, r)
				}
			}()
			doc = c08ParseYAML(string(b))
		}()
		if doc == nil {
			continue
		}
		versions := doc.get("spec", "versions")
		if versions == nil || len(versions.items) == 0 {
			fail("StatusFacts: %s: no spec.versions", fp)
			continue
		}
		nCRD++
		base := filepath.Base(filepath.Dir(fp)) + "/" + strings.TrimSuffix(filepath.Base(fp), ".yaml")
		for _, v := range versions.items {
			vname := ""
			if n := v.get("name"); n != nil {
				vname = n.scalar
			}
			status := v.get("schema", "openAPIV3Schema", "properties", "status")
			if status == nil {
				fail("StatusFacts: %s %s: no status schema", fp, vname)
				continue
			}
			where := base + ":" + vname
			c08Visit(status, "", func(path string, n *c08Y) {
				if fig, ok := listFig[path]; ok {
					if mi, ok := n.intOf("maxItems"); ok {
						lim.add(fig, mi, where)
					} else {
						fail("StatusFacts: %s status%s has no maxItems", where, path)
					}
				}
				if strings.HasSuffix(path, ".conditions") {
					if mi, ok := n.intOf("maxItems"); ok {
						lim.add("maxConds", mi, where+path)
					} else {
						fail("StatusFacts: %s status%s has no maxItems", where, path)
					}
					if path == ".parents[].conditions" || path == ".ancestors[].conditions" || path == ".controllers[].conditions" {
						mi, _ := n.intOf("minItems")
						lim.add("minCondsPerEntry", mi, where+path)
					}
					keys := n.get("x-kubernetes-list-map-keys")
					lt := n.get("x-kubernetes-list-type")
					if lt == nil || lt.scalar != "map" || keys == nil || len(keys.items) != 1 || keys.items[0].scalar != "type" {
						fail("StatusFacts: %s status%s is not a list-map keyed by type", where, path)
					}
				}
				if strings.Contains(path, ".conditions[].") {
					leaf := path[strings.LastIndex(path, ".")+1:]
					switch leaf {
					case "message":
						if v, ok := n.intOf("maxLength"); ok {
							lim.add("maxMessage", v, where)
						}
					case "reason", "type":
						if v, ok := n.intOf("maxLength"); ok {
							lim.add("max"+strings.Title(leaf), v, where) //nolint:staticcheck
						}
						if p := n.get("pattern"); p != nil {
							patterns[leaf][p.scalar] = true
						}
					}
				}
			})
		}
	}
	m.nat("crdFilesRead", nCRD, "number of CRD files (NGF config/crd/bases + gateway-api standard/experimental) whose status schema was read")
	consistent := true
	for _, fig := range []string{"maxParents", "maxAncestors", "maxControllers", "maxListeners", "maxAddresses",
		"maxConds", "minCondsPerEntry", "maxMessage", "maxReason", "maxType"} {
		v, ok := lim.min(fig)
		if !ok {
			fail("StatusFacts: no CRD defines %s", fig)
			continue
		}
		if len(lim.vals[fig]) != 1 {
			consistent = false
		}
		m.nat(fig, v, "CRD limit (minimum over all CRD files and versions read): "+fig)
	}
	m.boolean("limitsConsistent", consistent, "every CRD file/version read gives the same value for each figure")
	for _, leaf := range []string{"reason", "type"} {
		var ps []string
		for p := range patterns[leaf] {
			ps = append(ps, p)
		}
		sort.Strings(ps)
		m.strs(leaf+"Patterns", ps, "distinct `pattern`s of condition."+leaf+" over all CRDs read")
	}
	sort.Strings(lim.rows)
	facts["StatusFacts.crdLimitRows"] = lim.rows

	// ---- maxAncestors
	pa := src("internal/mode/static/state/graph/policy_ancestor.go")
	m.nat("maxAncestorsConst", intLit(pa.valueSpec("maxAncestors")), "const maxAncestors in policy_ancestor.go")
	m.strs("ngfFullBody", pa.stmts(pa.fn("", "ngfPolicyAncestorsFull").Body), "body of ngfPolicyAncestorsFull")
	m.strs("btpFullBody", pa.stmts(pa.fn("", "backendTLSPolicyAncestorsFull").Body), "body of backendTLSPolicyAncestorsFull")

	// ---- retry backoff and the retry function
	up := src("internal/framework/status/updater.go")
	ws := up.fn("Updater", "writeStatuses")
	foundBackoff := false
	walk(ws.Body, func(n ast.Node) bool {
		cl, ok := n.(*ast.CompositeLit)
		if !ok || up.text(cl.Type) != "wait.Backoff" {
			return true
		}
		foundBackoff = true
		for _, el := range cl.Elts {
			kv := el.(*ast.KeyValueExpr)
			switch up.text(kv.Key) {
			case "Steps":
				m.nat("backoffSteps", intLit(kv.Value), "Steps of the wait.Backoff in Updater.writeStatuses")
			case "Duration", "Factor", "Jitter", "Cap":
				m.str("backoff"+up.text(kv.Key), up.text(kv.Value), "wait.Backoff field "+up.text(kv.Key))
			}
		}
		return true
	})
	if !foundBackoff {
		fail("StatusFacts: wait.Backoff literal not found in writeStatuses")
	}
	bo := up.calls(ws.Body, "wait.ExponentialBackoffWithContext")
	m.nat("backoffCalls", len(bo), "calls of wait.ExponentialBackoffWithContext in writeStatuses")
	rf := up.fn("", "NewRetryUpdateFunc")
	var skeleton []string
	walk(rf.Body, func(n ast.Node) bool {
		fl, ok := n.(*ast.FuncLit)
		if !ok {
			return true
		}
		for _, st := range fl.Body.List {
			switch x := st.(type) {
			case *ast.IfStmt:
				head := "if "
				if x.Init != nil {
					head += up.text(x.Init) + "; "
				}
				head += up.text(x.Cond)
				var rets []string
				walk(x.Body, func(n ast.Node) bool {
					switch y := n.(type) {
					case *ast.ReturnStmt:
						rets = append(rets, up.text(y))
					case *ast.IfStmt:
						rets = append(rets, "if "+up.text(y.Cond))
					}
					return true
				})
				skeleton = append(skeleton, head+" => "+strings.Join(rets, " | "))
			default:
				skeleton = append(skeleton, up.text(st))
			}
		}
		return false
	})
	m.strs("retrySkeleton", skeleton, "top-level statements of the closure returned by NewRetryUpdateFunc (if-heads and their returns)")

	// ---- setter closures
	ss := src("internal/mode/static/status/status_setters.go")
	for _, name := range []string{
		"newHTTPRouteStatusSetter", "newGRPCRouteStatusSetter", "newTLSRouteStatusSetter",
		"newNGFPolicyStatusSetter", "newBackendTLSPolicyStatusSetter", "newSnippetsFilterStatusSetter",
		"newGatewayStatusSetter", "newGatewayClassStatusSetter", "newNginxGatewayStatusSetter",
	} {
		fd := ss.fn("", name)
		var body []string
		walk(fd.Body, func(n ast.Node) bool {
			if fl, ok := n.(*ast.FuncLit); ok && body == nil {
				body = ss.stmts(fl.Body)
				return false
			}
			return true
		})
		m.strs("body_"+name, body, "statements of the closure returned by "+name)
		// does the closure assign to (a field of) the constructor's status parameter, i.e. to its captured state?
		param := ""
		if len(fd.Type.Params.List) > 0 && len(fd.Type.Params.List[0].Names) > 0 {
			param = fd.Type.Params.List[0].Names[0].Name
		}
		mutates := false
		walk(fd.Body, func(n ast.Node) bool {
			as, ok := n.(*ast.AssignStmt)
			if !ok {
				return true
			}
			for _, lhs := range as.Lhs {
				switch x := lhs.(type) {
				case *ast.Ident:
					mutates = mutates || (x.Name == param && as.Tok == token.ASSIGN)
				case *ast.SelectorExpr:
					if id, ok := x.X.(*ast.Ident); ok && id.Name == param {
						mutates = true
					}
				}
			}
			return true
		})
		m.boolean("mutates_"+name, mutates, "whether the closure returned by "+name+" assigns to its captured status parameter `"+param+"`")
	}
	// fields compared by the equality helpers: every `a.X != b.X` / EqualPointers(a.X, b.X) / ConditionsEqual
	cmp := func(s *srcFile, fn string) []string {
		var out []string
		walk(s.fn("", fn).Body, func(n ast.Node) bool {
			if is, ok := n.(*ast.IfStmt); ok {
				out = append(out, s.text(is.Cond))
			}
			if rs, ok := n.(*ast.ReturnStmt); ok && len(rs.Results) == 1 {
				if t := s.text(rs.Results[0]); t != "false" && t != "true" && !strings.Contains(t, "func(") {
					out = append(out, "return "+t)
				}
			}
			return true
		})
		return out
	}
	m.strs("cmp_routeParentStatusEqual", cmp(ss, "routeParentStatusEqual"), "comparisons in routeParentStatusEqual")
	m.strs("cmp_ancestorStatusEqual", cmp(ss, "ancestorStatusEqual"), "comparisons in ancestorStatusEqual")
	m.strs("cmp_snippetsStatusEqual", cmp(ss, "snippetsStatusEqual"), "comparisons in snippetsStatusEqual")
	cs := src("internal/framework/status/conditions.go")
	m.strs("cmp_ConditionsEqual", cmp(cs, "ConditionsEqual"), "comparisons in ConditionsEqual")

	// ---- condition constructor table
	type row struct{ fn, typ, status, reason string }
	var rows []row
	for _, rel := range []string{
		"internal/framework/conditions/conditions.go",
		"internal/mode/static/state/conditions/conditions.go",
	} {
		s := src(rel)
		imports := map[string]string{}
		for _, im := range s.f.Imports {
			p, _ := strconv.Unquote(im.Path.Value)
			name := filepath.Base(p)
			if im.Name != nil {
				name = im.Name.Name
			}
			imports[name] = p
		}
		local := c08Consts(filepath.Join(repo, filepath.Dir(rel)))
		var eval func(e ast.Expr) (string, bool)
		eval = func(e ast.Expr) (string, bool) {
			switch x := e.(type) {
			case *ast.BasicLit:
				if x.Kind == token.STRING {
					v, err := strconv.Unquote(x.Value)
					return v, err == nil
				}
			case *ast.Ident:
				v, ok := local[x.Name]
				return v, ok
			case *ast.SelectorExpr:
				if id, ok := x.X.(*ast.Ident); ok {
					dir := c08PkgDir(imports[id.Name], reqs, cache)
					if dir != "" {
						v, ok := c08Consts(dir)[x.Sel.Name]
						return v, ok
					}
				}
			case *ast.CallExpr: // string(X)
				if len(x.Args) == 1 {
					return eval(x.Args[0])
				}
			case *ast.ParenExpr:
				return eval(x.X)
			}
			return "", false
		}
		for _, d := range s.f.Decls {
			fd, ok := d.(*ast.FuncDecl)
			if !ok || fd.Body == nil {
				continue
			}
			walk(fd.Body, func(n ast.Node) bool {
				cl, ok := n.(*ast.CompositeLit)
				if !ok {
					return true
				}
				if cl.Type != nil && s.text(cl.Type) == "metav1.Condition" {
					return true // ConvertConditions: a conversion, not a constructor
				}
				var r row
				have := 0
				for _, el := range cl.Elts {
					kv, ok := el.(*ast.KeyValueExpr)
					if !ok {
						continue
					}
					key := s.text(kv.Key)
					if key != "Type" && key != "Status" && key != "Reason" {
						continue
					}
					v, ok := eval(kv.Value)
					if !ok {
						fail("StatusFacts: cannot evaluate %s of a condition in %s (%s)", key, fd.Name.Name, s.text(kv.Value))
						v = "<?>" + s.text(kv.Value)
					}
					have++
					switch key {
					case "Type":
						r.typ = v
					case "Status":
						r.status = v
					case "Reason":
						r.reason = v
					}
				}
				if have == 3 {
					r.fn = fd.Name.Name
					rows = append(rows, r)
					return false
				}
				return true
			})
		}
	}
	if len(rows) < 20 {
		fail("StatusFacts: only %d condition constructors found", len(rows))
	}
	var lean []string
	var fact [][]string
	for _, r := range rows {
		lean = append(lean, fmt.Sprintf("(%s, %s, %s, %s)", leanStr(r.fn), leanStr(r.typ), leanStr(r.status), leanStr(r.reason)))
		fact = append(fact, []string{r.fn, r.typ, r.status, r.reason})
	}
	m.raw("condTable", "List (String × String × String × String)", "[\n   "+strings.Join(lean, ",\n   ")+"]",
		"every condition literal of framework/conditions and static/state/conditions: (constructor, type, status, reason)", fact)
}
