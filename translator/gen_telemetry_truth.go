package main

import (
	"go/ast"
	"strings"
)

func init() { register("TelemetryTruthFacts", genTelemetryTruth) }

// C19 (task C19-truth): the facts behind the platform model, the comment branch of the snippet tokenizer, and the way the
// telemetry collector is wired to the change processor and the event handler (NGF.Model.TelemetryTruth).
func genTelemetryTruth() {
	m := newModule("TelemetryTruthFacts", "TelemetryTruth")

	// ---- platform.go
	pf := src("internal/mode/static/telemetry/platform.go")
	var consts []string
	for _, d := range pf.f.Decls {
		gd, ok := d.(*ast.GenDecl)
		if !ok {
			continue
		}
		for _, sp := range gd.Specs {
			vs, ok := sp.(*ast.ValueSpec)
			if !ok {
				continue
			}
			for i, n := range vs.Names {
				if i < len(vs.Values) && (strings.HasSuffix(n.Name, "Identifier") || strings.HasPrefix(n.Name, "platform")) && n.Name != "platformExtractors" {
					consts = append(consts, n.Name+"="+pf.strValue(vs.Values[i]))
				}
			}
		}
	}
	m.strs("platformConsts", consts, "name=value of every *Identifier / platform* string constant of platform.go, in source order")
	var exts []string
	if cl, ok := pf.valueSpec("platformExtractors").(*ast.CompositeLit); ok {
		for _, e := range cl.Elts {
			if ce, ok := e.(*ast.CallExpr); ok && pf.text(ce.Fun) == "buildProviderIDExtractor" && len(ce.Args) == 2 {
				exts = append(exts, "prefix:"+pf.strValue(ce.Args[0])+"="+pf.strValue(ce.Args[1]))
			} else {
				exts = append(exts, pf.text(e))
			}
		}
	} else {
		fail("TelemetryTruthFacts: platformExtractors is not a composite literal")
	}
	m.strs("platformExtractors", exts, "elements of platformExtractors in order; buildProviderIDExtractor(id, p) as prefix:<id value>=<p value>")
	m.strs("getPlatformBody", pf.stmts(pf.fn("", "getPlatform").Body), "statements of getPlatform")
	m.strs("providerIDExtractorBody", pf.stmts(pf.fn("", "buildProviderIDExtractor").Body), "statements of buildProviderIDExtractor")
	m.strs("openShiftExtractorBody", pf.stmts(pf.fn("", "openShiftExtractor").Body), "statements of openShiftExtractor")
	m.strs("rancherExtractorBody", pf.stmts(pf.fn("", "rancherExtractor").Body), "statements of rancherExtractor")
	m.strs("unknownProviderIDExtractorBody", pf.stmts(pf.fn("", "unknownProviderIDExtractor").Body), "statements of unknownProviderIDExtractor")

	// ---- collector.go: where the platform comes from and where it goes; the comment branch of the tokenizer
	cs := src("internal/mode/static/telemetry/collector.go")
	var plat []string
	for _, st := range cs.fn("", "CollectClusterInformation").Body.List {
		t := cs.text(st)
		if strings.Contains(t, "getPlatform(") || strings.HasPrefix(t, "node :=") {
			plat = append(plat, t)
		}
	}
	walk(cs.fn("DataCollectorImpl", "Collect").Body, func(n ast.Node) bool {
		if kv, ok := n.(*ast.KeyValueExpr); ok && cs.text(kv.Key) == "ClusterPlatform" {
			plat = append(plat, "ClusterPlatform: "+cs.text(kv.Value))
		}
		return true
	})
	m.strs("platformFlow", plat, "which node getPlatform sees, the assignment of its result, and the ClusterPlatform field of the report")

	ps := cs.fn("", "parseSnippetValueIntoDirectives")
	var commentBranch, closures, bareCases []string
	nComment := 0
	walk(ps.Body, func(n ast.Node) bool {
		switch x := n.(type) {
		case *ast.CaseClause:
			for _, e := range x.List {
				if cs.text(e) == "bare" {
					for _, st := range x.Body {
						if sw, ok := st.(*ast.SwitchStmt); ok {
							for _, c := range sw.Body.List {
								cc := c.(*ast.CaseClause)
								if cc.List == nil {
									bareCases = append(bareCases, "default")
								}
								for _, ce := range cc.List {
									bareCases = append(bareCases, cs.text(ce))
								}
							}
						}
					}
				}
				if cs.text(e) == "comment" {
					nComment++
					for _, st := range x.Body {
						commentBranch = append(commentBranch, cs.text(st))
					}
				}
			}
		case *ast.AssignStmt:
			if len(x.Lhs) == 1 && len(x.Rhs) == 1 {
				if _, ok := x.Rhs[0].(*ast.FuncLit); ok {
					closures = append(closures, cs.text(x.Lhs[0]))
				}
			}
		}
		return true
	})
	if nComment != 1 {
		fail("TelemetryTruthFacts: expected one `case comment:` in parseSnippetValueIntoDirectives, found %d", nComment)
	}
	m.strs("commentBranch", commentBranch, "statements of `case comment:` of the tokenizer loop in parseSnippetValueIntoDirectives")
	m.strs("bareBranchCases", bareCases, "conditions of the switch in `case bare:` of the tokenizer loop, in order (no case for quotes: a quote inside a bare word is an ordinary character)")
	m.strs("tokenizerClosures", closures, "names of the closures defined in parseSnippetValueIntoDirectives, in source order")

	// ---- manager.go: wiring of the collector
	mg := src("internal/mode/static/manager.go")
	var wiring []string
	walk(mg.f, func(n ast.Node) bool {
		switch x := n.(type) {
		case *ast.AssignStmt:
			if len(x.Lhs) == 1 && len(x.Rhs) == 1 {
				l := mg.text(x.Lhs[0])
				if ce, ok := x.Rhs[0].(*ast.CallExpr); ok && (l == "processor" || l == "eventHandler" || l == "dataCollector") {
					wiring = append(wiring, l+" := "+mg.text(ce.Fun))
				}
			}
		case *ast.KeyValueExpr:
			k := mg.text(x.Key)
			if k == "GraphGetter" || k == "ConfigurationGetter" || k == "processor" {
				wiring = append(wiring, k+": "+mg.text(x.Value))
			}
		}
		return true
	})
	m.strs("collectorWiring", wiring, "manager.go: where processor / eventHandler / dataCollector come from and which of them the collector and the handler get")

	// ---- handler.go: HandleEventBatch stores the configuration before it updates NGINX
	hd := src("internal/mode/static/handler.go")
	hb := hd.fn("eventHandlerImpl", "HandleEventBatch")
	var cases, after []string
	seenSwitch := false
	for _, st := range hb.Body.List {
		if sw, ok := st.(*ast.SwitchStmt); ok && hd.text(sw.Tag) == "changeType" {
			seenSwitch = true
			for _, c := range sw.Body.List {
				cc := c.(*ast.CaseClause)
				var labels []string
				for _, e := range cc.List {
					labels = append(labels, hd.text(e))
				}
				var body []string
				for _, b := range cc.Body {
					t := hd.text(b)
					// keep the statements that touch the configuration, the version and the update; drop logging and the deployment context
					if strings.Contains(t, "cfg") || strings.Contains(t, "h.version") || strings.Contains(t, "err =") || t == "return" {
						if strings.HasPrefix(t, "cfg.DeploymentContext") || strings.HasPrefix(t, "depCtx") {
							continue
						}
						body = append(body, t)
					}
				}
				cases = append(cases, strings.Join(labels, ",")+" => "+strings.Join(body, " ;; "))
			}
			continue
		}
		if seenSwitch {
			after = append(after, hd.text(st))
		}
	}
	m.strs("handleBatchCases", cases, "HandleEventBatch: per case of `switch changeType` the statements that touch cfg / h.version / err, in order")
	m.strs("handleBatchAfterSwitch", after, "HandleEventBatch: the statements after the switch")
	m.strs("getLatestConfigurationBody", hd.stmts(hd.fn("eventHandlerImpl", "GetLatestConfiguration").Body), "statements of GetLatestConfiguration")
	m.strs("setLatestConfigurationBody", hd.stmts(hd.fn("eventHandlerImpl", "setLatestConfiguration").Body), "statements of setLatestConfiguration")
	var setters []string
	walk(hd.f, func(n ast.Node) bool {
		if as, ok := n.(*ast.AssignStmt); ok && len(as.Lhs) == 1 && strings.HasSuffix(hd.text(as.Lhs[0]), ".latestConfiguration") {
			setters = append(setters, hd.text(as))
		}
		return true
	})
	m.strs("latestConfigurationWrites", setters, "every assignment to latestConfiguration in handler.go")
	nCalls := 0
	walk(hd.f, func(n ast.Node) bool {
		if ce, ok := n.(*ast.CallExpr); ok && hd.text(ce.Fun) == "h.setLatestConfiguration" {
			nCalls++
		}
		return true
	})
	m.nat("setLatestConfigurationCalls", nCalls, "number of calls of h.setLatestConfiguration in handler.go")

	cp := src("internal/mode/static/state/change_processor.go")
	m.strs("processBody", cp.stmts(cp.fn("ChangeProcessorImpl", "Process").Body), "statements of ChangeProcessorImpl.Process")
	m.strs("getLatestGraphBody", cp.stmts(cp.fn("ChangeProcessorImpl", "GetLatestGraph").Body), "statements of ChangeProcessorImpl.GetLatestGraph")
}
