package main

import (
	"go/ast"
	"strings"
)

func init() { register("TlsFacts", genTls) }

// C16: id formats, folders, statement text of the decision functions and the TLS lines of the servers template.
func genTls() {
	m := newModule("TlsFacts", "Tls")
	dp := src("internal/mode/static/state/dataplane/configuration.go")
	gen := src("internal/mode/static/nginx/config/generator.go")
	srv := src("internal/mode/static/nginx/config/servers.go")
	tmpl := src("internal/mode/static/nginx/config/servers_template.go")
	refs := src("internal/mode/static/state/graph/backend_refs.go")
	sec := src("internal/mode/static/state/graph/secret.go")
	rc := src("internal/mode/static/state/graph/route_common.go")

	sprintfFormat := func(s *srcFile, fn *ast.FuncDecl) string {
		format := ""
		for _, c := range s.calls(fn.Body, "fmt.Sprintf") {
			if len(c.Args) > 0 {
				format = strLit(c.Args[0])
			}
		}
		if format == "" {
			fail("TlsFacts: no fmt.Sprintf in %s", fn.Name.Name)
		}
		return format
	}
	m.str("keyPairFormat", sprintfFormat(dp, dp.fn("", "generateSSLKeyPairID")), "format string of generateSSLKeyPairID")
	m.str("certBundleFormat", sprintfFormat(dp, dp.fn("", "generateCertBundleID")), "format string of generateCertBundleID")
	m.strs("keyPairIDBody", dp.stmts(dp.fn("", "generateSSLKeyPairID").Body), "statements of generateSSLKeyPairID")
	m.str("alpineSSLRootCAPath", dp.strConst("alpineSSLRootCAPath"), "system CA bundle path used for wellKnownCACertificates")
	m.str("wildcardHostname", dp.strConst("wildcardHostname"), "server name of a listener without hostname")
	m.str("secretsFolder", gen.strConst("secretsFolder"), "folder of key pair and cert bundle files")
	m.strs("generatePEMBody", gen.stmts(gen.fn("", "generatePEM").Body), "statements of generatePEM")
	m.strs("generatePEMFileNameBody", gen.stmts(gen.fn("", "generatePEMFileName").Body), "statements of generatePEMFileName")
	m.strs("generateCertBundleFileNameBody", gen.stmts(gen.fn("", "generateCertBundleFileName").Body),
		"statements of generateCertBundleFileName")

	m.strs("buildSSLKeyPairsBody", dp.stmts(dp.fn("", "buildSSLKeyPairs").Body), "statements of buildSSLKeyPairs")
	m.strs("convertBackendTLSBody", dp.stmts(dp.fn("", "convertBackendTLS").Body), "statements of convertBackendTLS")
	m.strs("listenerHostnameMoreSpecificBody", dp.stmts(dp.fn("", "listenerHostnameMoreSpecific").Body),
		"statements of listenerHostnameMoreSpecific")
	m.strs("getMoreSpecificHostnameBody", rc.stmts(rc.fn("", "GetMoreSpecificHostname").Body), "statements of GetMoreSpecificHostname")

	// upsertRoute: the loop that assigns listenersForHost
	up := dp.fn("hostPathRules", "upsertRoute")
	var ownerLoop []string
	walk(up.Body, func(n ast.Node) bool {
		if rs, ok := n.(*ast.RangeStmt); ok && strings.Contains(dp.text(rs.Body), "listenersForHost") && ownerLoop == nil {
			ownerLoop = dp.stmts(rs.Body)
			return false
		}
		return true
	})
	if ownerLoop == nil {
		fail("TlsFacts: listenersForHost loop not found in upsertRoute")
	}
	m.strs("listenersForHostLoop", ownerLoop, "body of the `for _, h := range hostnames` loop of upsertRoute that assigns listenersForHost")

	// hostPathRules.buildServers: every statement that mentions SSL / KeyPairID, and the condition of the listener servers
	bs := dp.fn("hostPathRules", "buildServers")
	var sslStmts, ifConds []string
	walk(bs.Body, func(n ast.Node) bool {
		if is, ok := n.(*ast.IfStmt); ok {
			c := dp.text(is.Cond)
			if strings.Contains(c, "ResolvedSecret") || strings.Contains(c, "wildcardHostname") || strings.Contains(c, "listenersExist") {
				ifConds = append(ifConds, c)
			}
		}
		if as, ok := n.(*ast.AssignStmt); ok && strings.Contains(dp.text(as), "KeyPairID") {
			sslStmts = append(sslStmts, dp.text(as))
		}
		return true
	})
	m.strs("buildServersSSLAssignments", sslStmts, "assignments of the SSL key pair in hostPathRules.buildServers")
	m.strs("buildServersConditions", ifConds, "if-conditions of hostPathRules.buildServers about secrets, wildcard and default servers")

	// secretResolver.resolve: the switch
	var cases []string
	walk(sec.fn("secretResolver", "resolve").Body, func(n ast.Node) bool {
		if cc, ok := n.(*ast.CaseClause); ok {
			if cc.List == nil {
				cases = append(cases, "default")
			} else {
				cases = append(cases, sec.text(cc.List[0]))
			}
		}
		return true
	})
	m.strs("secretResolveCases", cases, "case expressions of the switch in secretResolver.resolve")

	// the mismatch loop
	vm := refs.fn("", "validateBackendTLSPolicyMatchingAllBackends")
	m.strs("mismatchBody", refs.stmts(vm.Body), "statements of validateBackendTLSPolicyMatchingAllBackends")
	var loopBody []string
	compare := ""
	walk(vm.Body, func(n ast.Node) bool {
		if rs, ok := n.(*ast.RangeStmt); ok && loopBody == nil {
			loopBody = refs.stmts(rs.Body)
			return false
		}
		if fs, ok := n.(*ast.ForStmt); ok && loopBody == nil {
			loopBody = append([]string{"for " + refs.text(fs.Init) + "; " + refs.text(fs.Cond) + "; " + refs.text(fs.Post)},
				refs.stmts(fs.Body)...)
			return false
		}
		if as, ok := n.(*ast.AssignStmt); ok && compare == "" && len(as.Rhs) == 1 {
			if _, isFn := as.Rhs[0].(*ast.FuncLit); isFn {
				compare = refs.text(as)
			}
		}
		return true
	})
	m.strs("mismatchLoopBody", loopBody, "body of the loop over backendRefs (preceded by the for clause when it is a counting loop)")
	m.str("mismatchCompare", compare, "the closure that compares two policies")
	// the guard around the call in addBackendRefsToRules
	guard := ""
	walk(refs.fn("", "addBackendRefsToRules").Body, func(n ast.Node) bool {
		if is, ok := n.(*ast.IfStmt); ok && strings.Contains(refs.text(is.Body), "validateBackendTLSPolicyMatchingAllBackends") && guard == "" {
			guard = refs.text(is.Cond)
		}
		return true
	})
	m.str("mismatchGuard", guard, "condition under which addBackendRefsToRules runs the mismatch check")

	m.strs("createProxyTLSFromBackendsBody", srv.stmts(srv.fn("", "createProxyTLSFromBackends").Body),
		"statements of createProxyTLSFromBackends")
	m.strs("createProxySSLVerifyBody", srv.stmts(srv.fn("", "createProxySSLVerify").Body), "statements of createProxySSLVerify")
	m.strs("generateProtocolStringBody", srv.stmts(srv.fn("", "generateProtocolString").Body), "statements of generateProtocolString")

	// createSSLServer: how the certificate paths are derived
	var certFields []string
	walk(srv.fn("", "createSSLServer").Body, func(n ast.Node) bool {
		if kv, ok := n.(*ast.KeyValueExpr); ok {
			k := srv.text(kv.Key)
			if k == "Certificate" || k == "CertificateKey" {
				certFields = append(certFields, k+": "+srv.text(kv.Value))
			}
		}
		return true
	})
	m.strs("sslServerCertFields", certFields, "Certificate / CertificateKey fields set by createSSLServer")

	// template lines about TLS
	var tlsLines []string
	for _, l := range strings.Split(tmpl.strConst("serversTemplateText"), "\n") {
		t := strings.TrimSpace(l)
		if strings.Contains(t, "ssl") {
			tlsLines = append(tlsLines, t)
		}
	}
	m.strs("templateTLSLines", tlsLines, "lines of serversTemplateText that mention ssl")

	// ---- pipeline level (Model/PipelineTls.lean): listener validity and the two protocol halves of buildServers
	gl := src("internal/mode/static/state/graph/gateway_listener.go")
	m.strs("configureBody", gl.stmts(gl.fn("listenerConfigurator", "configure").Body),
		"statements of listenerConfigurator.configure (validators, then conflict resolvers, then external reference resolvers)")
	// the closure returned by createPortConflictResolver: its protocol groups and every if-condition
	pc := gl.fn("", "createPortConflictResolver")
	groups := ""
	var pcConds []string
	walk(pc.Body, func(n ast.Node) bool {
		if as, ok := n.(*ast.AssignStmt); ok && groups == "" && strings.HasPrefix(gl.text(as), "protocolGroups :=") {
			groups = gl.text(as)
		}
		if is, ok := n.(*ast.IfStmt); ok {
			pcConds = append(pcConds, gl.text(is.Cond))
		}
		return true
	})
	m.str("portConflictGroups", groups, "protocol groups of createPortConflictResolver")
	m.strs("portConflictConditions", pcConds, "if-conditions of createPortConflictResolver, in source order")
	// createExternalReferencesForTLSSecretsResolver: the closure's statements
	var resolverBody []string
	walk(gl.fn("", "createExternalReferencesForTLSSecretsResolver").Body, func(n ast.Node) bool {
		if fl, ok := n.(*ast.FuncLit); ok && resolverBody == nil {
			resolverBody = gl.stmts(fl.Body)
			return false
		}
		return true
	})
	m.strs("tlsSecretsResolverBody", resolverBody, "statements of the closure of createExternalReferencesForTLSSecretsResolver")
	// the certificateRefs checks of createHTTPSListenerValidator
	var httpsConds []string
	walk(gl.fn("", "createHTTPSListenerValidator").Body, func(n ast.Node) bool {
		if is, ok := n.(*ast.IfStmt); ok {
			httpsConds = append(httpsConds, gl.text(is.Cond))
		}
		return true
	})
	m.strs("httpsValidatorConditions", httpsConds, "if-conditions of createHTTPSListenerValidator, in source order")
	// dataplane.buildServers: the loop that distributes the listeners over the two protocol halves
	var distLoop []string
	walk(dp.fn("", "buildServers").Body, func(n ast.Node) bool {
		if rs, ok := n.(*ast.RangeStmt); ok && distLoop == nil {
			distLoop = append([]string{"for " + dp.text(rs.Key) + ", " + dp.text(rs.Value) + " := range " + dp.text(rs.X)}, dp.stmts(rs.Body)...)
			return false
		}
		return true
	})
	m.strs("buildServersDistribution", distLoop, "the listener loop of dataplane.buildServers (range clause, then body statements)")
	m.strs("upsertListenerBody", dp.stmts(dp.fn("hostPathRules", "upsertListener").Body), "statements of hostPathRules.upsertListener")
	m.strs("createSSLServerBody", srv.stmts(srv.fn("", "createSSLServer").Body), "statements of createSSLServer")

	// ---- the Secret resolver's cache and the processed BackendTLSPolicies (seeded changes C16-r4m1 / r4m2)
	m.strs("secretResolveBody", sec.stmts(sec.fn("secretResolver", "resolve").Body), "statements of secretResolver.resolve")
	btpf := src("internal/mode/static/state/graph/backend_tls_policy.go")
	var procLoop []string
	walk(btpf.fn("", "processBackendTLSPolicies").Body, func(n ast.Node) bool {
		if rs, ok := n.(*ast.RangeStmt); ok && procLoop == nil {
			procLoop = btpf.stmts(rs.Body)
			return false
		}
		return true
	})
	m.strs("processBTPLoop", procLoop, "body of the loop over the policies in processBackendTLSPolicies")
	// Generate: how the key-pair files are produced
	var pemLoop []string
	walk(gen.fn("GeneratorImpl", "Generate").Body, func(n ast.Node) bool {
		if rs, ok := n.(*ast.RangeStmt); ok && pemLoop == nil && strings.Contains(gen.text(rs.X), "SSLKeyPairs") {
			pemLoop = append([]string{"for " + gen.text(rs.Key) + ", " + gen.text(rs.Value) + " := range " + gen.text(rs.X)}, gen.stmts(rs.Body)...)
			return false
		}
		return true
	})
	m.strs("generateKeyPairLoop", pemLoop, "the loop of Generate over conf.SSLKeyPairs (range clause, then body)")
}
