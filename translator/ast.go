package main

import (
	"bytes"
	"go/ast"
	"go/parser"
	"go/printer"
	"go/token"
	"path/filepath"
	"strconv"
	"strings"
)

type srcFile struct {
	fset *token.FileSet
	f    *ast.File
	path string
}

var parsed = map[string]*srcFile{}

func src(rel string) *srcFile {
	if s, ok := parsed[rel]; ok {
		return s
	}
	fset := token.NewFileSet()
	f, err := parser.ParseFile(fset, filepath.Join(repo, rel), nil, parser.ParseComments)
	if err != nil {
		panic("parse " + rel + ": " + err.Error())
	}
	s := &srcFile{fset, f, rel}
	parsed[rel] = s
	return s
}

// text renders a node on one line with normalised whitespace.
func (s *srcFile) text(n ast.Node) string {
	var b bytes.Buffer
	cfg := printer.Config{Mode: printer.RawFormat}
	if err := cfg.Fprint(&b, s.fset, n); err != nil {
		panic(err)
	}
	return strings.Join(strings.Fields(b.String()), " ")
}

// fn finds a function or method. recv is "" for functions, or the receiver type name (without *).
func (s *srcFile) fn(recv, name string) *ast.FuncDecl {
	for _, d := range s.f.Decls {
		fd, ok := d.(*ast.FuncDecl)
		if !ok || fd.Name.Name != name {
			continue
		}
		r := ""
		if fd.Recv != nil && len(fd.Recv.List) == 1 {
			t := fd.Recv.List[0].Type
			if st, ok := t.(*ast.StarExpr); ok {
				t = st.X
			}
			if id, ok := t.(*ast.Ident); ok {
				r = id.Name
			}
			if ix, ok := t.(*ast.IndexExpr); ok {
				if id, ok := ix.X.(*ast.Ident); ok {
					r = id.Name
				}
			}
		}
		if r == recv {
			return fd
		}
	}
	panic("function " + recv + "." + name + " not found in " + s.path)
}

// stmts renders the top-level statements of a block, one string each.
func (s *srcFile) stmts(b *ast.BlockStmt) []string {
	out := []string{}
	for _, st := range b.List {
		out = append(out, s.text(st))
	}
	return out
}

// constant returns the source text of a package-level const or var initialiser.
func (s *srcFile) valueSpec(name string) ast.Expr {
	for _, d := range s.f.Decls {
		gd, ok := d.(*ast.GenDecl)
		if !ok {
			continue
		}
		for _, sp := range gd.Specs {
			vs, ok := sp.(*ast.ValueSpec)
			if !ok {
				continue
			}
			for i, n := range vs.Names {
				if n.Name == name && i < len(vs.Values) {
					return vs.Values[i]
				}
			}
		}
	}
	panic("value " + name + " not found in " + s.path)
}

func strLit(e ast.Expr) string {
	bl, ok := e.(*ast.BasicLit)
	if !ok || bl.Kind != token.STRING {
		panic("not a string literal")
	}
	v, err := strconv.Unquote(bl.Value)
	if err != nil {
		panic(err)
	}
	return v
}

// strValue evaluates a constant string expression made of literals and `+`.
func (s *srcFile) strValue(e ast.Expr) string {
	switch x := e.(type) {
	case *ast.BasicLit:
		return strLit(x)
	case *ast.BinaryExpr:
		if x.Op == token.ADD {
			return s.strValue(x.X) + s.strValue(x.Y)
		}
	case *ast.ParenExpr:
		return s.strValue(x.X)
	case *ast.Ident:
		return s.strValue(s.valueSpec(x.Name))
	}
	panic("cannot evaluate string expression " + s.text(e))
}

func (s *srcFile) strConst(name string) string { return s.strValue(s.valueSpec(name)) }

func intLit(e ast.Expr) int {
	bl, ok := e.(*ast.BasicLit)
	if !ok || bl.Kind != token.INT {
		panic("not an int literal")
	}
	v, err := strconv.ParseInt(bl.Value, 0, 64)
	if err != nil {
		panic(err)
	}
	return int(v)
}

// walk visits every node under n.
func walk(n ast.Node, f func(ast.Node) bool) { ast.Inspect(n, f) }

// calls returns the rendered text of all call expressions under n whose function text equals fun.
func (s *srcFile) calls(n ast.Node, fun string) []*ast.CallExpr {
	var out []*ast.CallExpr
	walk(n, func(x ast.Node) bool {
		if c, ok := x.(*ast.CallExpr); ok && s.text(c.Fun) == fun {
			out = append(out, c)
		}
		return true
	})
	return out
}
