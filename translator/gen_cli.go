package main

import (
	"go/ast"
	"go/token"
	"sort"
	"strings"
	"text/template/parse"
)

func init() { register("CliFacts", genCli) }

// C20: constants and wiring of the command-line validation (cmd/gateway) and of the mgmt template.
// Every definition is always emitted (0 / "" / [] when it cannot be extracted, plus a translator
// error), so that the Lean driver keeps compiling and the dependent theorems fail instead.
func genCli() {
	m := newModule("CliFacts", "Cli")
	const vfile = "cmd/gateway/validation.go"
	v := src(vfile)

	try := func(what string, f func()) {
		defer func() {
			if r := recover(); r != nil {
				fail("CliFacts: %s: %v", what, r)
			}
		}()
		f()
	}

	// ---- literals
	regex, domain := "", ""
	try("controllerNameRegex", func() { regex = v.strConst("controllerNameRegex") })
	try("domain", func() { domain = src("cmd/gateway/commands.go").strConst("domain") })
	m.str("controllerNameRegex", regex, "the regular expression of validateGatewayControllerName")
	m.str("domain", domain, "the controller domain constant")

	// ---- ParseInt bit sizes and range tests
	type numFacts struct{ base, bits, lo, hi int }
	scan := func(fd *ast.FuncDecl, s *srcFile) numFacts {
		nf := numFacts{}
		walk(fd.Body, func(n ast.Node) bool {
			switch x := n.(type) {
			case *ast.CallExpr:
				if s.text(x.Fun) == "strconv.ParseInt" && len(x.Args) == 3 && nf.bits == 0 {
					nf.base, nf.bits = intLit(x.Args[1]), intLit(x.Args[2])
				}
			case *ast.BinaryExpr:
				// a < LO || a > HI
				if x.Op == token.LOR && nf.hi == 0 {
					l, lok := x.X.(*ast.BinaryExpr)
					r, rok := x.Y.(*ast.BinaryExpr)
					if lok && rok && l.Op == token.LSS && r.Op == token.GTR && s.text(l.X) == s.text(r.X) {
						nf.lo, nf.hi = intLit(l.Y), intLit(r.Y)
					}
				}
			}
			return true
		})
		return nf
	}
	emitNum := func(prefix string, file, recv, fn string, wantParse, wantRange bool) {
		nf := numFacts{}
		try(prefix, func() {
			s := src(file)
			nf = scan(s.fn(recv, fn), s)
			if wantParse && (nf.bits == 0 || nf.base != 10) {
				fail("CliFacts: %s: strconv.ParseInt(_, 10, bits) not found", prefix)
			}
			if wantRange && nf.hi == 0 {
				fail("CliFacts: %s: range test `x < LO || x > HI` not found", prefix)
			}
		})
		if wantParse {
			m.nat(prefix+"Bits", nf.bits, "bit size passed to strconv.ParseInt in "+fn)
		}
		if wantRange {
			m.nat(prefix+"Lo", nf.lo, "lower bound of the range test in "+fn)
			m.nat(prefix+"Hi", nf.hi, "upper bound of the range test in "+fn)
		}
	}
	emitNum("ep", vfile, "", "validateEndpoint", true, true)
	emitNum("opt", vfile, "", "validateEndpointOptionalPort", true, true)
	emitNum("port", vfile, "", "validatePort", false, true)
	emitNum("int", "cmd/gateway/validating_types.go", "intValidatingValue", "Set", true, false)

	// ---- bodies of the small validators, statement by statement (pinned by a theorem)
	for _, fn := range []string{"validateEndpoint", "validateEndpointOptionalPort", "validateIP", "validatePort",
		"ensureNoPortCollisions", "validateResourceName", "validateNamespaceName", "validateGatewayControllerName"} {
		var body []string
		try(fn, func() { body = v.stmts(v.fn("", fn).Body) })
		m.strs(fn+"Body", body, "top-level statements of "+fn)
	}
	{
		var body []string
		try("stringValidatingValue.Set", func() {
			t := src("cmd/gateway/validating_types.go")
			body = t.stmts(t.fn("stringValidatingValue", "Set").Body)
		})
		m.strs("stringSetBody", body, "top-level statements of stringValidatingValue.Set (no trimming before validation)")
	}

	// ---- which validator guards which flag of the static-mode command
	var guards, defaults, usage, runE []string
	try("createStaticModeCommand", func() {
		c := src("cmd/gateway/commands.go")
		fd := c.fn("", "createStaticModeCommand")
		consts := map[string]string{} // local + package flag-name constants
		varValidator := map[string]string{}
		walk(fd, func(n ast.Node) bool {
			vs, ok := n.(*ast.ValueSpec)
			if !ok {
				return true
			}
			for i, name := range vs.Names {
				if i >= len(vs.Values) {
					continue
				}
				if bl, ok := vs.Values[i].(*ast.BasicLit); ok && bl.Kind == token.STRING {
					consts[name.Name] = strLit(bl)
				}
				if cl, ok := vs.Values[i].(*ast.CompositeLit); ok {
					typ := c.text(cl.Type)
					val := ""
					for _, el := range cl.Elts {
						kv, ok := el.(*ast.KeyValueExpr)
						if !ok {
							continue
						}
						switch c.text(kv.Key) {
						case "validator":
							val = c.text(kv.Value)
						case "value":
							defaults = append(defaults, name.Name+"="+c.text(kv.Value))
						}
					}
					if typ == "namespacedNameValue" {
						val = "parseNamespacedResourceName"
					}
					if val != "" {
						varValidator[name.Name] = typ + ":" + val
					}
				}
			}
			return true
		})
		for _, k := range []string{"gatewayClassFlag", "gatewayCtlrNameFlag", "plusFlag"} {
			consts[k] = c.strConst(k)
		}
		walk(fd, func(n ast.Node) bool {
			ce, ok := n.(*ast.CallExpr)
			if !ok {
				return true
			}
			fn := c.text(ce.Fun)
			if (fn == "cmd.Flags().Var" || fn == "cmd.Flags().VarP") && len(ce.Args) >= 2 {
				target := strings.TrimPrefix(c.text(ce.Args[0]), "&")
				flagName := c.text(ce.Args[1])
				if s, ok := consts[flagName]; ok {
					flagName = s
				}
				guards = append(guards, flagName+"="+varValidator[target])
			}
			return true
		})
		sort.Strings(guards)
		sort.Strings(defaults)

		// RunE: the order of the checks relative to the start of the manager, and the wiring of the
		// usage-report flags into config.UsageReportConfig
		walk(fd, func(n ast.Node) bool {
			kv, ok := n.(*ast.KeyValueExpr)
			if !ok || c.text(kv.Key) != "RunE" {
				return true
			}
			fl, ok := kv.Value.(*ast.FuncLit)
			if !ok {
				return true
			}
			for _, st := range fl.Body.List {
				t := c.text(st)
				switch {
				case strings.Contains(t, "ensureNoPortCollisions("):
					call := t[strings.Index(t, "ensureNoPortCollisions("):]
					runE = append(runE, call[:strings.Index(call, ")")+1])
				case strings.Contains(t, "validateEndpoint(telemetryEndpoint)"):
					runE = append(runE, "validateEndpoint(telemetryEndpoint)")
				case strings.HasPrefix(t, "if plus && usageReportSecretName.value == \"\""):
					runE = append(runE, "plus && usageReportSecretName.value == \"\"")
				case strings.Contains(t, "createGatewayPodConfig("):
					runE = append(runE, "createGatewayPodConfig")
				case strings.Contains(t, "static.StartManager("):
					runE = append(runE, "static.StartManager")
				}
			}
			walk(fl.Body, func(n ast.Node) bool {
				cl, ok := n.(*ast.CompositeLit)
				if !ok || c.text(cl.Type) != "config.UsageReportConfig" {
					return true
				}
				for _, el := range cl.Elts {
					usage = append(usage, c.text(el))
				}
				return true
			})
			return false
		})
		if len(runE) == 0 {
			fail("CliFacts: RunE of createStaticModeCommand not found")
		}
	})
	m.strs("flagGuards", guards, "flag=type:validator for every cmd.Flags().Var of the static-mode command")
	m.strs("flagDefaults", defaults, "variable=default of the validating flag values")
	m.strs("runEOrder", runE, "validation steps and the manager start, in source order, in RunE of the static-mode command")
	m.strs("usageReportWiring", usage, "fields of config.UsageReportConfig as filled in RunE")

	// ---- the mgmt template: text, holes, and what the generator puts into the two flag-fed holes
	tmpl, holes, wiring := "", []string{}, []string{}
	try("mgmt template", func() {
		t := src("internal/mode/static/nginx/config/main_config_template.go")
		tmpl = t.strConst("mgmtConfigTemplateText")
		pt := parse.New("mgmt")
		pt.Mode = parse.SkipFuncCheck
		trees := map[string]*parse.Tree{}
		if _, err := pt.Parse(tmpl, "{{", "}}", trees); err != nil {
			panic(err)
		}
		var visit func(n parse.Node, lit string)
		lastLit := ""
		visit = func(n parse.Node, _ string) {
			switch x := n.(type) {
			case *parse.ListNode:
				if x == nil {
					return
				}
				for _, c := range x.Nodes {
					visit(c, "")
				}
			case *parse.TextNode:
				lastLit = string(x.Text)
			case *parse.ActionNode:
				// the literal text of the same line that precedes the hole
				line := lastLit
				if i := strings.LastIndex(line, "\n"); i >= 0 {
					line = line[i+1:]
				}
				holes = append(holes, strings.TrimLeft(line, "\t ")+"{{"+x.Pipe.String()+"}}")
			case *parse.IfNode:
				visit(x.List, "")
				visit(x.ElseList, "")
			case *parse.RangeNode:
				visit(x.List, "")
			case *parse.WithNode:
				visit(x.List, "")
			}
		}
		visit(trees["mgmt"].Root, "")

		g := src("internal/mode/static/nginx/config/main_config.go")
		walk(g.fn("GeneratorImpl", "generateMgmtFiles").Body, func(n ast.Node) bool {
			cl, ok := n.(*ast.CompositeLit)
			if !ok || g.text(cl.Type) != "mgmtConf" {
				return true
			}
			for _, el := range cl.Elts {
				wiring = append(wiring, g.text(el))
			}
			return true
		})
	})
	m.str("mgmtTemplate", tmpl, "mgmtConfigTemplateText")
	m.strs("mgmtHoles", holes, "every action of the mgmt template with the literal text preceding it on its line")
	m.strs("mgmtConfWiring", wiring, "fields of mgmtConf as filled by generateMgmtFiles")
	{
		var body []string
		try("nginxAddr", func() {
			g := src("internal/mode/static/nginx/config/main_config.go")
			body = g.stmts(g.fn("", "nginxAddr").Body)
		})
		m.strs("nginxAddrBody", body, "top-level statements of nginxAddr (brackets around a bare IPv6 address)")
	}
}
