package main

import (
	"go/ast"
	"go/parser"
	"go/token"
	"os"
	"path/filepath"
	"regexp"
	"sort"
	"strings"
)

func init() { register("ConditionFacts", genConditions) }

// C07: the table of condition constructors (function name -> list of (type, status, reason)) of
// internal/mode/static/state/conditions and internal/framework/conditions, with the constants of
// sigs.k8s.io/gateway-api resolved from the module cache, and the statement lists of the status
// preparation functions the Lean model mirrors.
func genConditions() {
	m := newModule("ConditionFacts", "Conditions")

	consts := map[string]map[string]string{} // package alias -> const name -> string value
	gwDir := gatewayAPIDir()
	consts["v1"] = stringConsts(filepath.Join(gwDir, "apis", "v1"))
	consts["v1alpha2"] = stringConsts(filepath.Join(gwDir, "apis", "v1alpha2"))
	consts["ngfAPI"] = stringConsts(filepath.Join(repo, "apis", "v1alpha1"))
	consts["metav1"] = map[string]string{"ConditionTrue": "True", "ConditionFalse": "False", "ConditionUnknown": "Unknown"}

	type triple struct{ t, s, r string }
	table := map[string][]triple{}
	var order []string

	for _, rel := range []string{
		"internal/framework/conditions/conditions.go",
		"internal/mode/static/state/conditions/conditions.go",
	} {
		s := src(rel)
		local := map[string]string{}
		for _, d := range s.f.Decls {
			gd, ok := d.(*ast.GenDecl)
			if !ok || gd.Tok != token.CONST {
				continue
			}
			for _, sp := range gd.Specs {
				vs := sp.(*ast.ValueSpec)
				for i, n := range vs.Names {
					if i < len(vs.Values) {
						func() {
							defer func() { _ = recover() }()
							local[n.Name] = s.strValue(vs.Values[i])
						}()
					}
				}
			}
		}
		// resolve an expression like string(v1.RouteConditionAccepted), metav1.ConditionTrue, string(LocalConst)
		var resolve func(e ast.Expr) string
		resolve = func(e ast.Expr) string {
			switch x := e.(type) {
			case *ast.CallExpr:
				if len(x.Args) == 1 {
					return resolve(x.Args[0])
				}
			case *ast.SelectorExpr:
				if pkg, ok := x.X.(*ast.Ident); ok {
					if v, ok := consts[pkg.Name][x.Sel.Name]; ok {
						return v
					}
				}
			case *ast.Ident:
				if v, ok := local[x.Name]; ok {
					return v
				}
			case *ast.BasicLit:
				return strLit(x)
			}
			fail("ConditionFacts: cannot resolve %s in %s", s.text(e), rel)
			return "?" + s.text(e)
		}
		fromLit := func(cl *ast.CompositeLit) triple {
			var tr triple
			for _, el := range cl.Elts {
				kv, ok := el.(*ast.KeyValueExpr)
				if !ok {
					continue
				}
				switch s.text(kv.Key) {
				case "Type":
					tr.t = resolve(kv.Value)
				case "Status":
					tr.s = resolve(kv.Value)
				case "Reason":
					tr.r = resolve(kv.Value)
				}
			}
			return tr
		}
		funcs := map[string]*ast.FuncDecl{}
		for _, d := range s.f.Decls {
			if fd, ok := d.(*ast.FuncDecl); ok && fd.Recv == nil && strings.HasPrefix(fd.Name.Name, "New") {
				funcs[fd.Name.Name] = fd
			}
		}
		var eval func(name string, depth int) []triple
		eval = func(name string, depth int) []triple {
			fd, ok := funcs[name]
			if !ok || depth > 4 {
				fail("ConditionFacts: constructor %s not found", name)
				return nil
			}
			var out []triple
			walk(fd.Body, func(n ast.Node) bool {
				rs, ok := n.(*ast.ReturnStmt)
				if !ok || len(rs.Results) != 1 {
					return true
				}
				cl, ok := rs.Results[0].(*ast.CompositeLit)
				if !ok {
					return true
				}
				if _, isSlice := cl.Type.(*ast.ArrayType); isSlice {
					for _, el := range cl.Elts {
						switch x := el.(type) {
						case *ast.CompositeLit:
							out = append(out, fromLit(x))
						case *ast.CallExpr:
							if id, ok := x.Fun.(*ast.Ident); ok {
								out = append(out, eval(id.Name, depth+1)...)
							}
						}
					}
				} else {
					out = append(out, fromLit(cl))
				}
				return false
			})
			return out
		}
		names := make([]string, 0, len(funcs))
		for n := range funcs {
			names = append(names, n)
		}
		sort.Strings(names)
		for _, n := range names {
			fd := funcs[n]
			if fd.Type.Results == nil || len(fd.Type.Results.List) != 1 {
				continue
			}
			rt := s.text(fd.Type.Results.List[0].Type)
			if !strings.HasSuffix(rt, "Condition") {
				continue
			}
			if _, dup := table[n]; dup {
				fail("ConditionFacts: constructor %s defined twice", n)
			}
			table[n] = eval(n, 0)
			order = append(order, n)
		}
	}

	// Lean value: List (String × List (String × String × String))
	var b strings.Builder
	b.WriteString("[")
	fact := map[string][][3]string{}
	for i, n := range order {
		if i > 0 {
			b.WriteString(",\n   ")
		}
		b.WriteString("(" + leanStr(n) + ", [")
		for j, tr := range table[n] {
			if j > 0 {
				b.WriteString(", ")
			}
			b.WriteString("(" + leanStr(tr.t) + ", " + leanStr(tr.s) + ", " + leanStr(tr.r) + ")")
			fact[n] = append(fact[n], [3]string{tr.t, tr.s, tr.r})
		}
		b.WriteString("])")
	}
	b.WriteString("]")
	m.raw("table", "List (String × List (String × String × String))", b.String(),
		"condition constructors: function name ↦ the (type, status, reason) of the conditions it returns", fact)

	// the functions the Lean model mirrors, statement by statement
	pr := src("internal/mode/static/status/prepare_requests.go")
	m.strs("prepareRouteStatusBody", pr.stmts(pr.fn("", "prepareRouteStatus").Body), "statements of prepareRouteStatus")
	m.strs("prepareGatewayRequestBody", pr.stmts(pr.fn("", "prepareGatewayRequest").Body), "statements of prepareGatewayRequest")
	m.strs("prepareGatewayRequestsBody", pr.stmts(pr.fn("", "PrepareGatewayRequests").Body), "statements of PrepareGatewayRequests")
	m.strs("prepareNGFPolicyRequestsBody", pr.stmts(pr.fn("", "PrepareNGFPolicyRequests").Body), "statements of PrepareNGFPolicyRequests")
	m.strs("prepareBackendTLSPolicyRequestsBody", pr.stmts(pr.fn("", "PrepareBackendTLSPolicyRequests").Body),
		"statements of PrepareBackendTLSPolicyRequests")
	fc := src("internal/framework/conditions/conditions.go")
	m.strs("deduplicateConditionsBody", fc.stmts(fc.fn("", "DeduplicateConditions").Body), "statements of DeduplicateConditions")
	m.strs("convertConditionsBody", fc.stmts(fc.fn("", "ConvertConditions").Body), "statements of ConvertConditions")

	// the reload-error branches of prepare_requests.go: "<function>: <if statement>"
	var branches []string
	for _, d := range pr.f.Decls {
		fd, ok := d.(*ast.FuncDecl)
		if !ok || fd.Body == nil {
			continue
		}
		walk(fd.Body, func(n ast.Node) bool {
			if is, ok := n.(*ast.IfStmt); ok && pr.text(is.Cond) == "nginxReloadRes.Error != nil" {
				branches = append(branches, fd.Name.Name+": "+pr.text(is))
			}
			return true
		})
	}
	m.strs("reloadErrorBranches", branches, "every `if nginxReloadRes.Error != nil` statement of prepare_requests.go")

	// the handler: which reload result reaches status preparation (mirrored by NGF.Model.HandlerStatus)
	hd := src("internal/mode/static/handler.go")
	m.strs("handleEventBatchBody", hd.stmts(hd.fn("eventHandlerImpl", "HandleEventBatch").Body), "statements of eventHandlerImpl.HandleEventBatch")
	m.strs("updateNginxConfBody", hd.stmts(hd.fn("eventHandlerImpl", "updateNginxConf").Body), "statements of eventHandlerImpl.updateNginxConf")

	// the calls of PrepareRouteRequests into prepareRouteStatus (which fields feed it)
	var calls []string
	for _, c := range pr.calls(pr.fn("", "PrepareRouteRequests").Body, "prepareRouteStatus") {
		calls = append(calls, pr.text(c))
	}
	m.strs("prepareRouteStatusCalls", calls, "calls of prepareRouteStatus in PrepareRouteRequests")
}

var gwapiRe = regexp.MustCompile(`(?m)^\s*sigs\.k8s\.io/gateway-api\s+(v\S+)`)

func gatewayAPIDir() string {
	data, err := os.ReadFile(filepath.Join(repo, "go.mod"))
	if err != nil {
		panic(err)
	}
	mm := gwapiRe.FindSubmatch(data)
	if mm == nil {
		panic("gateway-api version not found in go.mod")
	}
	cache := os.Getenv("GOMODCACHE")
	if cache == "" {
		gp := os.Getenv("GOPATH")
		if gp == "" {
			home, _ := os.UserHomeDir()
			gp = filepath.Join(home, "go")
		}
		cache = filepath.Join(gp, "pkg", "mod")
	}
	return filepath.Join(cache, "sigs.k8s.io", "gateway-api@"+string(mm[1]))
}

// stringConsts collects `Name [Type] = "literal"` constants of all non-test files of a directory
// (aliases `Name = otherpkg.Name` are resolved one level through the already collected v1 constants by the caller's order).
func stringConsts(dir string) map[string]string {
	out := map[string]string{}
	ents, err := os.ReadDir(dir)
	if err != nil {
		fail("ConditionFacts: cannot read %s: %v", dir, err)
		return out
	}
	type alias struct{ name, pkg, sel string }
	var aliases []alias
	fset := token.NewFileSet()
	for _, e := range ents {
		if !strings.HasSuffix(e.Name(), ".go") || strings.HasSuffix(e.Name(), "_test.go") {
			continue
		}
		f, err := parser.ParseFile(fset, filepath.Join(dir, e.Name()), nil, 0)
		if err != nil {
			continue
		}
		for _, d := range f.Decls {
			gd, ok := d.(*ast.GenDecl)
			if !ok || gd.Tok != token.CONST {
				continue
			}
			for _, sp := range gd.Specs {
				vs := sp.(*ast.ValueSpec)
				for i, n := range vs.Names {
					if i >= len(vs.Values) {
						continue
					}
					switch v := vs.Values[i].(type) {
					case *ast.BasicLit:
						if v.Kind == token.STRING {
							out[n.Name] = strLit(v)
						}
					case *ast.SelectorExpr:
						if pkg, ok := v.X.(*ast.Ident); ok {
							aliases = append(aliases, alias{n.Name, pkg.Name, v.Sel.Name})
						}
					}
				}
			}
		}
	}
	// aliases to gateway-api v1 constants (v1alpha2 re-exports some of v1)
	if len(aliases) > 0 {
		v1 := map[string]string{}
		if filepath.Base(dir) != "v1" {
			v1 = stringConsts(filepath.Join(filepath.Dir(dir), "v1"))
		}
		for _, a := range aliases {
			if v, ok := v1[a.sel]; ok && a.pkg == "v1" {
				out[a.name] = v
			}
		}
	}
	return out
}
