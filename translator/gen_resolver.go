package main

import (
	"go/ast"
)

func init() { register("ResolverFacts", genResolver) }

// C13: constants, template texts and statement lists of the endpoint resolution / upstream code.
func genResolver() {
	m := newModule("ResolverFacts", "Resolver")

	// --- upstreams.go constants
	up := src("internal/mode/static/nginx/config/upstreams.go")
	for _, c := range []string{
		"nginx503Server", "nginx500Server", "invalidBackendRef", "ossZoneSize", "plusZoneSize",
		"ossZoneSizeStream", "plusZoneSizeStream", "stateDir",
	} {
		m.str(c, up.strConst(c), "constant "+c+" of nginx/config/upstreams.go")
	}
	m.strs("createUpstreamBody", resolverStmts(up, up.fn("GeneratorImpl", "createUpstream").Body),
		"statements of GeneratorImpl.createUpstream")
	m.strs("createStreamUpstreamsBody", resolverStmts(up, up.fn("GeneratorImpl", "createStreamUpstreams").Body),
		"statements of GeneratorImpl.createStreamUpstreams")
	m.strs("createStreamUpstreamBody", resolverStmts(up, up.fn("GeneratorImpl", "createStreamUpstream").Body),
		"statements of GeneratorImpl.createStreamUpstream")

	// --- templates
	tp := src("internal/mode/static/nginx/config/upstreams_template.go")
	m.str("upstreamsTemplateText", tp.strConst("upstreamsTemplateText"), "http upstreams template")
	m.str("streamUpstreamsTemplateText", tp.strConst("streamUpstreamsTemplateText"), "stream upstreams template")

	// --- index
	ix := src("internal/framework/controller/index/endpointslice.go")
	m.str("serviceNameIndexField", ix.strConst("KubernetesServiceNameIndexField"), "index field name")
	m.str("serviceNameLabel", ix.strConst("KubernetesServiceNameLabel"), "label the index function reads")
	m.strs("serviceNameIndexFuncBody", resolverStmts(ix, ix.fn("", "ServiceNameIndexFunc").Body),
		"statements of ServiceNameIndexFunc")
	m.strs("getServiceNameBody", resolverStmts(ix, ix.fn("", "GetServiceNameFromEndpointSlice").Body),
		"statements of GetServiceNameFromEndpointSlice")

	// --- resolver.go
	rs := src("internal/mode/static/state/resolver/resolver.go")
	for _, f := range []string{
		"endpointReady", "findPort", "getDefaultPort", "ignoreEndpointSlice", "filterEndpointSliceList",
		"resolveEndpoints",
	} {
		m.strs(f+"Body", resolverStmts(rs, rs.fn("", f).Body), "statements of resolver."+f)
	}
	res := rs.fn("ServiceResolverImpl", "Resolve")
	var conds []string
	for _, st := range res.Body.List {
		if is, ok := st.(*ast.IfStmt); ok {
			conds = append(conds, rs.text(is.Cond))
		}
	}
	m.strs("resolveIfConds", conds, "conditions of the top-level if statements of ServiceResolverImpl.Resolve")
	var listArgs []string
	for _, c := range rs.calls(res.Body, "e.client.List") {
		for _, a := range c.Args {
			listArgs = append(listArgs, rs.text(a))
		}
	}
	m.strs("resolveListArgs", listArgs, "arguments of the client.List call in Resolve")

	// --- configuration.go
	cf := src("internal/mode/static/state/dataplane/configuration.go")
	m.strs("getAllowedAddressTypeBody", resolverStmts(cf, cf.fn("", "getAllowedAddressType").Body),
		"statements of dataplane.getAllowedAddressType")
	var resolveCalls []string
	for _, fn := range []string{"buildUpstreams", "buildStreamUpstreams"} {
		walk(cf.fn("", fn).Body, func(n ast.Node) bool {
			if c, ok := n.(*ast.CallExpr); ok {
				if sel, ok := c.Fun.(*ast.SelectorExpr); ok && sel.Sel.Name == "Resolve" {
					resolveCalls = append(resolveCalls, fn+": "+cf.text(c))
				}
			}
			return true
		})
	}
	m.strs("resolveCalls", resolveCalls, "calls of ServiceResolver.Resolve in buildUpstreams / buildStreamUpstreams")

	// --- convert.go
	cv := src("internal/mode/static/nginx/config/convert.go")
	m.strs("getPortAndIPFormatBody", resolverStmts(cv, cv.fn("", "getPortAndIPFormat").Body),
		"statements of getPortAndIPFormat")
	m.strs("convertEndpointsBody", resolverStmts(cv, cv.fn("", "ConvertEndpoints").Body), "statements of ConvertEndpoints")
	m.strs("convertStreamEndpointsBody", resolverStmts(cv, cv.fn("", "ConvertStreamEndpoints").Body),
		"statements of ConvertStreamEndpoints")

	// --- handler.go
	hd := src("internal/mode/static/handler.go")
	uus := hd.fn("eventHandlerImpl", "updateUpstreamServers")
	m.strs("updateUpstreamServersBody", resolverStmts(hd, uus.Body), "statements of eventHandlerImpl.updateUpstreamServers")
	m.strs("serversEqualBody", resolverStmts(hd, hd.fn("", "serversEqual").Body), "statements of serversEqual")
	m.strs("updateNginxConfBody", resolverStmts(hd, hd.fn("eventHandlerImpl", "updateNginxConf").Body),
		"statements of eventHandlerImpl.updateNginxConf")
	// the EndpointsOnlyChange arm of HandleEventBatch
	heb := hd.fn("eventHandlerImpl", "HandleEventBatch")
	var arm []string
	walk(heb.Body, func(n ast.Node) bool {
		cc, ok := n.(*ast.CaseClause)
		if !ok || len(cc.List) != 1 || hd.text(cc.List[0]) != "state.EndpointsOnlyChange" {
			return true
		}
		for _, st := range cc.Body {
			arm = append(arm, hd.text(st))
		}
		return false
	})
	if len(arm) == 0 {
		fail("ResolverFacts: case state.EndpointsOnlyChange not found in HandleEventBatch")
	}
	m.strs("endpointsOnlyArm", arm, "statements of the `case state.EndpointsOnlyChange` arm of HandleEventBatch")

	// the ClusterStateChange arm, the case list of the switch, and everything after the switch (error recording)
	var clusterArm, switchCases, afterSwitch []string
	for i, st := range heb.Body.List {
		sw, ok := st.(*ast.SwitchStmt)
		if !ok || sw.Tag == nil || hd.text(sw.Tag) != "changeType" {
			continue
		}
		for _, c := range sw.Body.List {
			cc := c.(*ast.CaseClause)
			label := "default"
			if len(cc.List) > 0 {
				label = ""
				for j, e := range cc.List {
					if j > 0 {
						label += ", "
					}
					label += hd.text(e)
				}
			}
			switchCases = append(switchCases, label)
			if label == "state.ClusterStateChange" {
				for _, b := range cc.Body {
					clusterArm = append(clusterArm, hd.text(b))
				}
			}
		}
		for _, rest := range heb.Body.List[i+1:] {
			afterSwitch = append(afterSwitch, hd.text(rest))
		}
	}
	if len(clusterArm) == 0 {
		fail("ResolverFacts: case state.ClusterStateChange not found in HandleEventBatch")
	}
	m.strs("clusterStateArm", clusterArm, "statements of the `case state.ClusterStateChange` arm of HandleEventBatch")
	m.strs("handleEventBatchSwitchCases", switchCases, "case labels of `switch changeType` in HandleEventBatch")
	m.strs("handleEventBatchAfterSwitch", afterSwitch, "statements of HandleEventBatch after `switch changeType`")

	// every statement of handler.go that touches h.latestConfiguration, with the function it is in
	var latestUses []string
	for _, d := range hd.f.Decls {
		fd, ok := d.(*ast.FuncDecl)
		if !ok || fd.Body == nil {
			continue
		}
		var visit func(list []ast.Stmt)
		visit = func(list []ast.Stmt) {
			for _, st := range list {
				hit := false
				walk(st, func(n ast.Node) bool {
					if sel, ok := n.(*ast.SelectorExpr); ok && sel.Sel.Name == "latestConfiguration" {
						hit = true
					}
					return true
				})
				if hit {
					latestUses = append(latestUses, fd.Name.Name+": "+hd.text(st))
				}
			}
		}
		visit(fd.Body.List)
	}
	m.strs("latestConfigurationUses", latestUses,
		"top-level statements of handler.go functions that mention the field latestConfiguration")

	// --- state/store.go, changed_predicate.go, change_processor.go, graph/graph.go: how EndpointSlice events are judged
	st := src("internal/mode/static/state/store.go")
	m.strs("trackingUpsertBody", resolverStmts(st, st.fn("changeTrackingUpdater", "upsert").Body),
		"statements of changeTrackingUpdater.upsert")
	m.strs("trackingDeleteBody", resolverStmts(st, st.fn("changeTrackingUpdater", "delete").Body),
		"statements of changeTrackingUpdater.delete")
	m.strs("setChangeTypeBody", resolverStmts(st, st.fn("changeTrackingUpdater", "setChangeType").Body),
		"statements of changeTrackingUpdater.setChangeType")
	m.strs("mapAdapterGetBody", resolverStmts(st, st.fn("objectStoreMapAdapter", "get").Body),
		"statements of objectStoreMapAdapter.get")
	m.strs("mapAdapterUpsertBody", resolverStmts(st, st.fn("objectStoreMapAdapter", "upsert").Body),
		"statements of objectStoreMapAdapter.upsert")
	m.strs("mapAdapterDeleteBody", resolverStmts(st, st.fn("objectStoreMapAdapter", "delete").Body),
		"statements of objectStoreMapAdapter.delete")
	pr := src("internal/mode/static/state/changed_predicate.go")
	m.strs("funcPredicateUpsertBody", resolverStmts(pr, pr.fn("funcPredicate", "upsert").Body),
		"statements of funcPredicate.upsert")
	m.strs("funcPredicateDeleteBody", resolverStmts(pr, pr.fn("funcPredicate", "delete").Body),
		"statements of funcPredicate.delete")
	cp := src("internal/mode/static/state/change_processor.go")
	var sliceCfg []string
	var isRefClosure string
	walk(cp.fn("", "NewChangeProcessorImpl").Body, func(n ast.Node) bool {
		switch x := n.(type) {
		case *ast.CompositeLit:
			isSlice := false
			for _, el := range x.Elts {
				if kv, ok := el.(*ast.KeyValueExpr); ok && cp.text(kv.Key) == "gvk" &&
					cp.text(kv.Value) == "cfg.MustExtractGVK(&discoveryV1.EndpointSlice{})" {
					isSlice = true
				}
			}
			if isSlice {
				for _, el := range x.Elts {
					sliceCfg = append(sliceCfg, cp.text(el))
				}
			}
		case *ast.AssignStmt:
			if len(x.Lhs) == 1 && cp.text(x.Lhs[0]) == "isReferenced" {
				isRefClosure = cp.text(x)
			}
		}
		return true
	})
	if len(sliceCfg) == 0 {
		fail("ResolverFacts: the EndpointSlice entry of NewChangeProcessorImpl was not found")
	}
	m.strs("sliceTrackingCfg", sliceCfg, "fields of the EndpointSlice changeTrackingUpdaterObjectTypeCfg in NewChangeProcessorImpl")
	m.str("isReferencedClosure", isRefClosure, "the isReferenced closure of NewChangeProcessorImpl")
	m.strs("processBody", resolverStmts(cp, cp.fn("ChangeProcessorImpl", "Process").Body), "statements of ChangeProcessorImpl.Process")
	gg := src("internal/mode/static/state/graph/graph.go")
	var sliceCase []string
	walk(gg.fn("Graph", "IsReferenced").Body, func(n ast.Node) bool {
		cc, ok := n.(*ast.CaseClause)
		if !ok || len(cc.List) != 1 || gg.text(cc.List[0]) != "*discoveryV1.EndpointSlice" {
			return true
		}
		for _, b := range cc.Body {
			sliceCase = append(sliceCase, gg.text(b))
		}
		return false
	})
	m.strs("isReferencedSliceCase", sliceCase, "statements of `case *discoveryV1.EndpointSlice` in Graph.IsReferenced")
}

// resolverStmts renders the top-level statements of a block without comments.
func resolverStmts(s *srcFile, b *ast.BlockStmt) []string { return s.stmts(b) }
