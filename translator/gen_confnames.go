package main

import (
	"go/ast"
	"os"
	"path/filepath"
	"regexp"
	"sort"
	"strings"
)

func init() { register("ConfNameFacts", genConfNames) }

// leanChars renders a string as a Lean `List Char` literal (kernel-reducible without String machinery).
func leanChars(s string) string {
	if s == "" {
		return "[]"
	}
	parts := make([]string, 0, len(s))
	for _, r := range s {
		switch {
		case r == '\'':
			parts = append(parts, `'\''`)
		case r == '\\':
			parts = append(parts, `'\\'`)
		case r == '\n':
			parts = append(parts, `'\n'`)
		case r == '\t':
			parts = append(parts, `'\t'`)
		default:
			parts = append(parts, "'"+string(r)+"'")
		}
	}
	return "[" + strings.Join(parts, ", ") + "]"
}

func (m *module) chars(name, v, doc string) {
	m.raw(name, "List Char", leanChars(v), doc, v)
}

// sprintfIn returns format literal and rendered argument texts of the single fmt.Sprintf call in fn.
func sprintfIn(s *srcFile, fd *ast.FuncDecl) (string, []string) {
	cs := s.calls(fd.Body, "fmt.Sprintf")
	if len(cs) != 1 {
		panic("expected exactly one fmt.Sprintf in " + fd.Name.Name)
	}
	var args []string
	for _, a := range cs[0].Args[1:] {
		args = append(args, s.text(a))
	}
	return s.strValue(cs[0].Args[0]), args
}

var actionRe = regexp.MustCompile(`\{\{[^}]*\}\}`)
var dirRe = regexp.MustCompile(`^[a-z_][a-z0-9_]*$`)

// directiveNames extracts the words in directive position from a configuration (template) text:
// template actions are blanked, comments dropped, and the first word of every statement is taken.
func directiveNames(text string) []string {
	text = strings.ReplaceAll(text, "{{ $proxyOrGRPC }}", "proxy")
	text = actionRe.ReplaceAllString(text, " \x00 ")
	set := map[string]bool{}
	for _, line := range strings.Split(text, "\n") {
		line = strings.TrimSpace(line)
		if line == "" || strings.HasPrefix(line, "#") || strings.HasPrefix(line, "'") || strings.HasPrefix(line, "\"") {
			continue
		}
		// a line may hold several statements (`{{ if }}http2 on;{{ end }}`)
		for _, stmt := range strings.FieldsFunc(line, func(r rune) bool { return r == ';' || r == '{' || r == '}' }) {
			f := strings.Fields(stmt)
			for len(f) > 0 && f[0] == "\x00" && len(f) > 2 && dirRe.MatchString(f[1]) && f[1] != "\x00" {
				f = f[1:] // `{{ if .X }}directive arg;`: the action is a control action, not a value
			}
			if len(f) == 0 || f[0] == "\x00" {
				continue
			}
			if dirRe.MatchString(f[0]) {
				set[f[0]] = true
			}
		}
	}
	out := make([]string, 0, len(set))
	for k := range set {
		out = append(out, k)
	}
	sort.Strings(out)
	return out
}

// C03: name manglings, folders, template and static-file directive names.
func genConfNames() {
	m := newModule("ConfNameFacts", "ConfNames")
	cfg := "internal/mode/static/nginx/config/"

	dt := src("internal/mode/static/state/dataplane/types.go")
	f, a := sprintfIn(dt, dt.fn("BackendGroup", "Name"))
	m.chars("groupFmt", f, "format of (*BackendGroup).Name")
	m.strs("groupArgs", a, "arguments of that Sprintf")

	br := src("internal/mode/static/state/graph/backend_refs.go")
	f, a = sprintfIn(br, br.fn("BackendRef", "ServicePortReference"))
	m.chars("upstreamFmt", f, "format of BackendRef.ServicePortReference")
	m.strs("upstreamArgs", a, "arguments of that Sprintf")

	dc := src("internal/mode/static/state/dataplane/configuration.go")
	f, a = sprintfIn(dc, dc.fn("", "generateSSLKeyPairID"))
	m.chars("keyPairFmt", f, "format of generateSSLKeyPairID")
	m.strs("keyPairArgs", a, "")
	f, a = sprintfIn(dc, dc.fn("", "generateCertBundleID"))
	m.chars("bundleFmt", f, "format of generateCertBundleID")
	m.strs("bundleArgs", a, "")

	cs := src(cfg + "policies/clientsettings/generator.go")
	f, a = sprintfIn(cs, cs.fn("", "generate"))
	m.chars("cspFileFmt", f, "file name format of the ClientSettingsPolicy include")
	m.strs("cspFileArgs", a, "")

	ob := src(cfg + "policies/observability/generator.go")
	var obsFmts []string
	for _, fn := range []string{"GenerateForLocation", "GenerateForInternalLocation"} {
		for _, c := range ob.calls(ob.fn("Generator", fn).Body, "fmt.Sprintf") {
			obsFmts = append(obsFmts, ob.strValue(c.Args[0]))
		}
	}
	m.strs("obsFileFmts", obsFmts, "file name formats of the ObservabilityPolicy includes")

	so := src(cfg + "sockets.go")
	f, a = sprintfIn(so, so.fn("", "getSocketNameTLS"))
	m.chars("sockTLSFmt", f, "format of getSocketNameTLS")
	m.strs("sockTLSArgs", a, "")
	f, _ = sprintfIn(so, so.fn("", "getSocketNameHTTPS"))
	m.chars("sockHTTPSFmt", f, "format of getSocketNameHTTPS")
	f, _ = sprintfIn(so, so.fn("", "getTLSPassthroughVarName"))
	m.chars("passVarFmt", f, "format of getTLSPassthroughVarName")

	vn := src(cfg + "variable_names.go")
	ra := vn.calls(vn.fn("", "convertStringToSafeVariableName").Body, "strings.ReplaceAll")
	if len(ra) != 1 {
		panic("convertStringToSafeVariableName: expected one strings.ReplaceAll")
	}
	m.chars("safeVarOld", vn.strValue(ra[0].Args[1]), "character replaced by convertStringToSafeVariableName")
	m.chars("safeVarNew", vn.strValue(ra[0].Args[2]), "its replacement")
	m.strs("safeVarBody", vn.stmts(vn.fn("", "convertStringToSafeVariableName").Body), "")
	m.strs("addHdrVarBody", vn.stmts(vn.fn("", "generateAddHeaderMapVariableName").Body), "")

	gen := src(cfg + "generator.go")
	m.chars("secretsFolder", gen.strConst("secretsFolder"), "")
	m.chars("includesFolder", gen.strConst("includesFolder"), "")
	m.str("httpConfigFile", gen.strConst("httpConfigFile"), "")
	m.str("streamConfigFile", gen.strConst("streamConfigFile"), "")
	m.str("httpMatchVarsFile", gen.strConst("httpMatchVarsFile"), "")
	m.str("mainIncludesConfigFile", gen.strConst("mainIncludesConfigFile"), "")
	m.strs("pemFileBody", gen.stmts(gen.fn("", "generatePEMFileName").Body), "")
	m.strs("bundleFileBody", gen.stmts(gen.fn("", "generateCertBundleFileName").Body), "")

	inc := src(cfg + "includes.go")
	m.strs("policyIncludeNameExprs", func() []string {
		var out []string
		walk(inc.fn("", "createIncludesFromPolicyGenerateResult").Body, func(n ast.Node) bool {
			if kv, ok := n.(*ast.KeyValueExpr); ok && inc.text(kv.Key) == "Name" {
				out = append(out, inc.text(kv.Value))
			}
			return true
		})
		return out
	}(), "how the include path of a policy file is built")

	sv := src(cfg + "servers.go")
	f, a = sprintfIn(sv, sv.fn("", "initializeInternalLocation"))
	m.str("internalLocFmt", f, "path format of internal locations")
	m.strs("internalLocArgs", a, "")
	m.str("internalRoutePathPrefix", src(cfg+"http/config.go").strConst("InternalRoutePathPrefix"), "")
	m.str("rootPath", sv.strConst("rootPath"), "")
	m.strs("exactPathBody", sv.stmts(sv.fn("", "exactPath").Body), "")
	m.strs("createPathBody", sv.stmts(sv.fn("", "createPath").Body), "")
	m.strs("isNonSlashedPrefixPathBody", sv.stmts(sv.fn("", "isNonSlashedPrefixPath").Body), "")
	var rewriteFmts []string
	for _, c := range sv.calls(sv.fn("", "createMainRewriteForFilters").Body, "fmt.Sprintf") {
		rewriteFmts = append(rewriteFmts, sv.strValue(c.Args[0]))
	}
	m.strs("rewriteFmts", rewriteFmts, "Sprintf formats of createMainRewriteForFilters (the match path is argument of the ^%s ones)")

	val := src(cfg + "validation/common.go")
	m.str("pathFmt", val.strConst("pathFmt"), "validation regex of paths")

	// directive names of every template and of the static files
	tmpls := [][2]string{
		{"servers_template.go", "serversTemplateText"}, {"upstreams_template.go", "upstreamsTemplateText"},
		{"upstreams_template.go", "streamUpstreamsTemplateText"}, {"maps_template.go", "mapsTemplateText"},
		{"split_clients_template.go", "splitClientsTemplateText"}, {"telemetry_template.go", "otelTemplateText"},
		{"main_config_template.go", "mainConfigTemplateText"}, {"main_config_template.go", "mgmtConfigTemplateText"},
		{"stream_servers_template.go", "streamServersTemplateText"}, {"base_http_config_template.go", "baseHTTPTemplateText"},
		{"version_template.go", "versionTemplateText"},
		{"policies/clientsettings/generator.go", "clientSettingsTemplate"},
		{"policies/observability/generator.go", "observabilityTemplate"},
		{"policies/observability/generator.go", "internalTemplate"},
		{"policies/observability/generator.go", "externalRedirectTemplate"},
	}
	set := map[string]bool{}
	for _, t := range tmpls {
		for _, d := range directiveNames(src(cfg + t[0]).strConst(t[1])) {
			set[d] = true
		}
	}
	// the {{ $proxyOrGRPC }}_x lines: also the grpc_ variants
	st := src(cfg + "servers_template.go").strConst("serversTemplateText")
	for _, mm := range regexp.MustCompile(`\{\{ \$proxyOrGRPC \}\}(_[a-z_]+)`).FindAllStringSubmatch(st, -1) {
		set["grpc"+mm[1]] = true
		set["proxy"+mm[1]] = true
	}
	var all []string
	for k := range set {
		all = append(all, k)
	}
	sort.Strings(all)
	m.strs("templateDirectives", all, "words in directive position in the generator's templates")

	sset := map[string]bool{}
	for _, fn := range []string{"nginx.conf", "nginx-plus.conf", "grpc-error-pages.conf", "grpc-error-locations.conf"} {
		b, err := os.ReadFile(filepath.Join(repo, "internal/mode/static/nginx/conf", fn))
		if err != nil {
			panic(err)
		}
		for _, d := range directiveNames(string(b)) {
			sset[d] = true
		}
	}
	var sall []string
	for k := range sset {
		sall = append(sall, k)
	}
	sort.Strings(sall)
	m.strs("staticDirectives", sall, "words in directive position in the static configuration files of the image")
}
