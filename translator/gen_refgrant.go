package main

import (
	"go/ast"
	"go/parser"
	"go/token"
	"os"
	"path/filepath"
	"regexp"
	"sort"
	"strings"
)

func init() { register("RefGrantFacts", genRefGrant) }

const refGrantGraphDir = "internal/mode/static/state/graph"

// refGrantModConst reads a string constant of a package of a module the repository depends on
// (version from /repo/go.mod, sources from the module cache).
func refGrantModConst(module, pkgDir, name string) (string, bool) {
	gomod, err := os.ReadFile(filepath.Join(repo, "go.mod"))
	if err != nil {
		return "", false
	}
	m := regexp.MustCompile(`(?m)^\s*` + regexp.QuoteMeta(module) + `\s+(\S+)`).FindSubmatch(gomod)
	if m == nil {
		return "", false
	}
	var caches []string
	if c := os.Getenv("GOMODCACHE"); c != "" {
		caches = append(caches, c)
	}
	if gp := os.Getenv("GOPATH"); gp != "" {
		caches = append(caches, filepath.Join(gp, "pkg", "mod"))
	}
	if h := os.Getenv("HOME"); h != "" {
		caches = append(caches, filepath.Join(h, "go", "pkg", "mod"))
	}
	caches = append(caches, "/root/go/pkg/mod")
	for _, c := range caches {
		dir := filepath.Join(c, module+"@"+string(m[1]), pkgDir)
		ents, err := os.ReadDir(dir)
		if err != nil {
			continue
		}
		for _, e := range ents {
			if !strings.HasSuffix(e.Name(), ".go") || strings.HasSuffix(e.Name(), "_test.go") {
				continue
			}
			fset := token.NewFileSet()
			f, err := parser.ParseFile(fset, filepath.Join(dir, e.Name()), nil, 0)
			if err != nil {
				continue
			}
			for _, d := range f.Decls {
				gd, ok := d.(*ast.GenDecl)
				if !ok || gd.Tok != token.CONST {
					continue
				}
				for _, sp := range gd.Specs {
					vs := sp.(*ast.ValueSpec)
					for i, n := range vs.Names {
						if n.Name == name && i < len(vs.Values) {
							if bl, ok := vs.Values[i].(*ast.BasicLit); ok && bl.Kind == token.STRING {
								return strLit(bl), true
							}
						}
					}
				}
			}
		}
	}
	return "", false
}

// refGrantGraphFiles: non-test files of the graph package, sorted.
func refGrantGraphFiles() []string {
	ents, err := os.ReadDir(filepath.Join(repo, refGrantGraphDir))
	if err != nil {
		panic(err)
	}
	var out []string
	for _, e := range ents {
		n := e.Name()
		if strings.HasSuffix(n, ".go") && !strings.HasSuffix(n, "_test.go") && !strings.HasPrefix(n, "zz_verif") {
			out = append(out, filepath.Join(refGrantGraphDir, n))
		}
	}
	sort.Strings(out)
	return out
}

// C06: the ReferenceGrant resolver, its constructors, every place that consults it, and what a
// ReferenceGrant event does to the change tracker.
func genRefGrant() {
	m := newModule("RefGrantFacts", "RefGrant")
	s := src(refGrantGraphDir + "/reference_grant.go")

	// --- constants the constructors use
	if v, ok := refGrantModConst("sigs.k8s.io/gateway-api", "apis/v1", "GroupName"); ok {
		m.str("gatewayGroupName", v, "sigs.k8s.io/gateway-api/apis/v1.GroupName (version of /repo/go.mod, from the module cache)")
	} else {
		fail("RefGrantFacts: cannot read sigs.k8s.io/gateway-api/apis/v1.GroupName from the module cache")
	}
	ks := src("internal/framework/kinds/kinds.go")
	kindConst := map[string]string{}
	for _, k := range []string{"Gateway", "HTTPRoute", "GRPCRoute", "TLSRoute", "Service"} {
		kindConst["kinds."+k] = ks.strConst(k)
	}

	// --- to*/from* constructors: the composite literal they return, field by field, values resolved
	resolve := func(e ast.Expr) string {
		t := s.text(e)
		switch {
		case t == "v1.GroupName":
			v, _ := refGrantModConst("sigs.k8s.io/gateway-api", "apis/v1", "GroupName")
			return "=" + v
		case kindConst[t] != "":
			return "=" + kindConst[t]
		}
		if bl, ok := e.(*ast.BasicLit); ok && bl.Kind == token.STRING {
			return "=" + strLit(bl)
		}
		return "@" + t // an expression over the parameters
	}
	for _, name := range []string{"toSecret", "toService", "fromGateway", "fromHTTPRoute", "fromGRPCRoute", "fromTLSRoute"} {
		fd := s.fn("", name)
		var fields []string
		if len(fd.Body.List) == 1 {
			if rs, ok := fd.Body.List[0].(*ast.ReturnStmt); ok && len(rs.Results) == 1 {
				if cl, ok := rs.Results[0].(*ast.CompositeLit); ok {
					for _, el := range cl.Elts {
						kv := el.(*ast.KeyValueExpr)
						fields = append(fields, s.text(kv.Key)+resolve(kv.Value))
					}
				}
			}
		}
		if fields == nil {
			fail("RefGrantFacts: %s is not a single return of a composite literal", name)
		}
		m.strs(name+"Fields", fields, "fields of the literal returned by "+name+" (`=` constant value, `@` expression over the parameters)")
	}

	// --- the resolver
	m.strs("newResolverBody", s.stmts(s.fn("", "newReferenceGrantResolver").Body), "statements of newReferenceGrantResolver")
	m.strs("refAllowedBody", s.stmts(s.fn("referenceGrantResolver", "refAllowed").Body), "statements of refAllowed")
	m.strs("refAllowedFromBody", s.stmts(s.fn("referenceGrantResolver", "refAllowedFrom").Body), "statements of refAllowedFrom")
	for _, d := range s.f.Decls {
		gd, ok := d.(*ast.GenDecl)
		if !ok || gd.Tok != token.TYPE {
			continue
		}
		for _, sp := range gd.Specs {
			ts := sp.(*ast.TypeSpec)
			st, ok := ts.Type.(*ast.StructType)
			if !ok {
				continue
			}
			var fs []string
			for _, f := range st.Fields.List {
				for _, n := range f.Names {
					fs = append(fs, n.Name+" "+s.text(f.Type))
				}
			}
			sort.Strings(fs)
			switch ts.Name.Name {
			case "toResource", "fromResource", "allowedReference", "referenceGrantResolver":
				m.strs(ts.Name.Name+"Struct", fs, "fields of "+ts.Name.Name+" (sorted)")
			}
		}
	}

	// --- every place of the graph package that touches the resolver
	var sites, creations, pkgVars []string
	for _, rel := range refGrantGraphFiles() {
		f := src(rel)
		base := filepath.Base(rel)
		for _, d := range f.f.Decls {
			switch x := d.(type) {
			case *ast.FuncDecl:
				if x.Body == nil {
					continue
				}
				walk(x.Body, func(n ast.Node) bool {
					ce, ok := n.(*ast.CallExpr)
					if !ok {
						return true
					}
					fun := f.text(ce.Fun)
					switch {
					case strings.HasSuffix(fun, ".refAllowed") || strings.HasSuffix(fun, ".refAllowedFrom"):
						sites = append(sites, base+":"+x.Name.Name+": "+f.text(ce))
					case fun == "newReferenceGrantResolver":
						creations = append(creations, base+":"+x.Name.Name+": "+f.text(ce))
					}
					return true
				})
			case *ast.GenDecl:
				if x.Tok != token.VAR {
					continue
				}
				for _, sp := range x.Specs {
					vs := sp.(*ast.ValueSpec)
					t := ""
					if vs.Type != nil {
						t = f.text(vs.Type)
					}
					for i, n := range vs.Names {
						v := ""
						if i < len(vs.Values) {
							v = f.text(vs.Values[i])
						}
						if strings.Contains(t, "eferenceGrantResolver") || strings.Contains(v, "eferenceGrantResolver") {
							pkgVars = append(pkgVars, base+":"+n.Name)
						}
					}
				}
			}
		}
	}
	sort.Strings(sites)
	m.strs("resolverCallSites", sites, "file:function: call — every refAllowed/refAllowedFrom call of the graph package")
	m.strs("resolverCreations", creations, "every newReferenceGrantResolver call of the graph package")
	m.strs("resolverPackageVars", pkgVars, "package-level variables holding a resolver (none expected: no caching across builds)")

	// --- validateBackendRef: the conditions of its top-level if statements, in order
	br := src(refGrantGraphDir + "/backend_refs.go")
	var conds []string
	for _, st := range br.fn("", "validateBackendRef").Body.List {
		if is, ok := st.(*ast.IfStmt); ok {
			conds = append(conds, br.text(is.Cond))
		}
	}
	m.strs("validateBackendRefConds", conds, "conditions of the top-level if statements of validateBackendRef, in order")
	walk(br.fn("", "validateBackendRef").Body, func(n ast.Node) bool {
		is, ok := n.(*ast.IfStmt)
		if ok && strings.Contains(br.text(is.Cond), "refGrantResolver(") {
			m.str("validateBackendRefGrantCond", br.text(is.Cond), "the condition that consults the resolver")
			m.strs("validateBackendRefGrantBody", br.stmts(is.Body), "what happens when the resolver refuses")
		}
		return true
	})
	m.strs("validateRouteBackendRefBody", br.stmts(br.fn("", "validateRouteBackendRef").Body), "statements of validateRouteBackendRef")
	m.strs("getRefGrantFromResourceForRouteBody", br.stmts(br.fn("", "getRefGrantFromResourceForRoute").Body), "statements of getRefGrantFromResourceForRoute")
	m.strs("servicePortReferenceBody", br.stmts(br.fn("BackendRef", "ServicePortReference").Body), "statements of BackendRef.ServicePortReference")
	// the invalid branch of createBackendRef
	walk(br.fn("", "createBackendRef").Body, func(n ast.Node) bool {
		is, ok := n.(*ast.IfStmt)
		if ok && br.text(is.Cond) == "!valid" {
			m.strs("createBackendRefInvalidBranch", br.stmts(is.Body), "createBackendRef: what an invalid verdict yields")
		}
		return true
	})

	// --- backend reference resolution (Model/PipelineRefs.lean): createBackendRef, the Service / port lookup, the rule loop,
	// ReferencedServices, newBackendGroup
	m.strs("createBackendRefBody", br.stmts(br.fn("", "createBackendRef").Body), "statements of createBackendRef")
	m.strs("getIPFamilyAndPortFromRefBody", br.stmts(br.fn("", "getIPFamilyAndPortFromRef").Body), "statements of getIPFamilyAndPortFromRef")
	m.strs("getServicePortBody", br.stmts(br.fn("", "getServicePort").Body), "statements of getServicePort")
	m.strs("validateWeightBody", br.stmts(br.fn("", "validateWeight").Body), "statements of validateWeight")
	m.strs("addBackendRefsToRulesBody", br.stmts(br.fn("", "addBackendRefsToRules").Body), "statements of addBackendRefsToRules")
	svcFile := src(refGrantGraphDir + "/service.go")
	m.strs("buildReferencedServicesBody", svcFile.stmts(svcFile.fn("", "buildReferencedServices").Body), "statements of buildReferencedServices")
	dpc := src("internal/mode/static/state/dataplane/configuration.go")
	m.strs("newBackendGroupBody", dpc.stmts(dpc.fn("", "newBackendGroup").Body), "statements of newBackendGroup")

	// --- the listener's certificate reference
	gl := src(refGrantGraphDir + "/gateway_listener.go")
	ext := gl.fn("", "createExternalReferencesForTLSSecretsResolver")
	if len(ext.Body.List) == 1 {
		if rs, ok := ext.Body.List[0].(*ast.ReturnStmt); ok {
			if fl, ok := rs.Results[0].(*ast.FuncLit); ok {
				m.strs("certResolverBody", gl.stmts(fl.Body), "statements of the closure returned by createExternalReferencesForTLSSecretsResolver")
			}
		}
	}

	// --- change tracker: the ReferenceGrant entry
	cp := src("internal/mode/static/state/change_processor.go")
	found := false
	walk(cp.fn("", "NewChangeProcessorImpl").Body, func(n ast.Node) bool {
		cl, ok := n.(*ast.CompositeLit)
		if !ok {
			return true
		}
		kv := map[string]string{}
		for _, el := range cl.Elts {
			if e, ok := el.(*ast.KeyValueExpr); ok {
				kv[cp.text(e.Key)] = cp.text(e.Value)
			}
		}
		if strings.Contains(kv["gvk"], "ReferenceGrant{}") {
			found = true
			m.str("refGrantStore", kv["store"], "store of the ReferenceGrant entry of the change-tracking updater")
			m.str("refGrantPredicate", kv["predicate"], "predicate of the ReferenceGrant entry (nil = every event changes the state)")
		}
		return true
	})
	if !found {
		fail("RefGrantFacts: no changeTrackingUpdaterObjectTypeCfg entry for ReferenceGrant")
	}
	// the watch on ReferenceGrants (which API events reach the change processor at all)
	mg := src("internal/mode/static/manager.go")
	watchFound := false
	walk(mg.fn("", "registerControllers").Body, func(n ast.Node) bool {
		cl, ok := n.(*ast.CompositeLit)
		if !ok {
			return true
		}
		kv := map[string]string{}
		for _, el := range cl.Elts {
			if e, ok := el.(*ast.KeyValueExpr); ok {
				kv[mg.text(e.Key)] = mg.text(e.Value)
			}
		}
		if strings.Contains(kv["objectType"], "ReferenceGrant{}") {
			watchFound = true
			m.str("refGrantWatchOptions", kv["options"], "controller options of the ReferenceGrant watch in registerControllers")
		}
		return true
	})
	if !watchFound {
		fail("RefGrantFacts: no ReferenceGrant entry in registerControllers")
	}
	st := src("internal/mode/static/state/store.go")
	// upsert / delete of the change-tracking updater: only what the ReferenceGrant arm of the model needs —
	// the persisted-store block (what is written, when delete answers "unchanged"), the branch taken by a
	// kind WITHOUT predicate, and the order of these parts. Everything that concerns kinds with a
	// predicate (which object the predicate judges) is deliberately not pinned here (C01's subject).
	for _, fnName := range []string{"upsert", "delete"} {
		body := st.fn("changeTrackingUpdater", fnName).Body
		var shape, storeKey, noPred []string
		for i, x := range body.List {
			switch y := x.(type) {
			case *ast.IfStmt:
				cond := st.text(y.Cond)
				switch {
				case strings.Contains(cond, "s.store.persists("):
					shape = append(shape, "store")
					storeKey = append(storeKey, "if "+cond)
					walk(y.Body, func(n ast.Node) bool {
						switch z := n.(type) {
						case *ast.AssignStmt:
							if strings.Contains(st.text(z), "s.store.get(") {
								storeKey = append(storeKey, st.text(z))
							}
						case *ast.ExprStmt:
							if t := st.text(z); strings.HasPrefix(t, "s.store.upsert(") || strings.HasPrefix(t, "s.store.delete(") {
								storeKey = append(storeKey, t)
							}
						case *ast.IfStmt:
							if strings.Contains(st.text(z.Body), "return") {
								storeKey = append(storeKey, st.text(z))
							}
						}
						return true
					})
				case i > 0 && strings.Contains(st.text(body.List[i-1]), "s.stateChangedPredicates["):
					shape = append(shape, "nopred")
					noPred = append(noPred, st.text(y))
				default:
					shape = append(shape, "if "+cond)
				}
			case *ast.ReturnStmt:
				shape = append(shape, "return")
			case *ast.AssignStmt:
				if strings.Contains(st.text(y), "s.stateChangedPredicates[") {
					shape = append(shape, "lookup")
					noPred = append(noPred, st.text(y))
				}
			case *ast.DeclStmt:
			default:
				shape = append(shape, st.text(x))
			}
		}
		title := strings.ToUpper(fnName[:1]) + fnName[1:]
		m.strs("tracker"+title+"Shape", shape, "changeTrackingUpdater."+fnName+": order of the store block, the predicate lookup, the no-predicate branch and returns (plain assignments/declarations omitted)")
		m.strs("tracker"+title+"Store", storeKey, "changeTrackingUpdater."+fnName+": the persisted-store block (condition, store reads/writes, early returns)")
		m.strs("tracker"+title+"NoPredicate", noPred, "changeTrackingUpdater."+fnName+": predicate lookup and the branch for a kind without predicate")
	}
	// how a cfg entry's predicate/store reach the maps consulted above
	var cfgIfs []string
	walk(st.fn("", "newChangeTrackingUpdater").Body, func(n ast.Node) bool {
		if is, ok := n.(*ast.IfStmt); ok && strings.HasPrefix(st.text(is.Cond), "cfg.") {
			cfgIfs = append(cfgIfs, st.text(is))
		}
		return true
	})
	m.strs("trackerCfgIfs", cfgIfs, "newChangeTrackingUpdater: which cfg entries get a predicate / a store (nil predicate = absent from the map)")
	m.strs("setChangeTypeBody", st.stmts(st.fn("changeTrackingUpdater", "setChangeType").Body), "statements of setChangeType")
	var proc []string
	for _, x := range cp.stmts(cp.fn("ChangeProcessorImpl", "Process").Body) {
		if !strings.HasPrefix(x, "c.lock.") && !strings.HasPrefix(x, "defer c.lock.") {
			proc = append(proc, x)
		}
	}
	m.strs("processBody", proc, "statements of ChangeProcessorImpl.Process (minus locking)")

	// --- downstream: where an invalid backend / listener ends up
	up := src("internal/mode/static/nginx/config/upstreams.go")
	m.str("invalidBackendRef", up.strConst("invalidBackendRef"), "nginx/config: name of the upstream for invalid backend references")
	sc := src("internal/mode/static/nginx/config/split_clients.go")
	m.strs("backendGroupNameBody", sc.stmts(sc.fn("", "backendGroupName").Body), "statements of backendGroupName")
	m.strs("getSplitClientValueBody", sc.stmts(sc.fn("", "getSplitClientValue").Body), "statements of getSplitClientValue")
	dp := src("internal/mode/static/state/dataplane/configuration.go")
	walk(dp.fn("", "buildSSLKeyPairs").Body, func(n ast.Node) bool {
		if is, ok := n.(*ast.IfStmt); ok {
			m.str("buildSSLKeyPairsCond", dp.text(is.Cond), "buildSSLKeyPairs: which listeners contribute a key pair")
			return false
		}
		return true
	})
}
