package main

import (
	"go/ast"
	"go/token"
	"os"
	"path/filepath"
	"strings"
)

func init() { register("ProvisionerFacts", genProvisioner) }

// C18: literals and statement structure of internal/mode/provisioner.
func genProvisioner() {
	m := newModule("ProvisionerFacts", "Provisioner")
	h := src("internal/mode/provisioner/handler.go")
	d := src("internal/mode/provisioner/deployment.go")
	st := src("internal/mode/provisioner/store.go")

	// skipLog drops logger.Info(...) statements
	skipLog := func(s *srcFile, list []ast.Stmt) []string {
		out := []string{}
		for _, x := range list {
			t := s.text(x)
			if strings.HasPrefix(t, "logger.Info(") {
				continue
			}
			out = append(out, t)
		}
		return out
	}

	// --- HandleEventBatch: the three calls and their order
	m.strs("handleEventBatchBody", h.stmts(h.fn("eventHandler", "HandleEventBatch").Body),
		"statements of eventHandler.HandleEventBatch")

	// --- generateDeploymentID
	gen := h.fn("eventHandler", "generateDeploymentID")
	m.strs("generateDeploymentIDBody", h.stmts(gen.Body), "statements of generateDeploymentID")
	format := ""
	for _, c := range h.calls(gen.Body, "fmt.Sprintf") {
		if len(c.Args) > 0 {
			format = strLit(c.Args[0])
		}
	}
	m.str("deploymentIDFormat", format, "format string of the Deployment id/name")

	// --- newEventHandler: initial counter
	initID := -1
	walk(h.fn("", "newEventHandler").Body, func(n ast.Node) bool {
		if kv, ok := n.(*ast.KeyValueExpr); ok && h.text(kv.Key) == "gatewayNextID" {
			initID = intLit(kv.Value)
		}
		return true
	})
	if initID < 0 {
		fail("ProvisionerFacts: gatewayNextID initialiser not found")
		initID = 0
	}
	m.nat("gatewayNextIDInit", initID, "initial value of eventHandler.gatewayNextID in newEventHandler")

	// --- ensureDeploymentsMatchGateways: four loops in order, with their bodies
	ens := h.fn("eventHandler", "ensureDeploymentsMatchGateways")
	var loopHeads []string
	var loopBodies [][]string
	for _, s := range ens.Body.List {
		if r, ok := s.(*ast.RangeStmt); ok {
			head := "for "
			if r.Key != nil {
				head += h.text(r.Key)
			}
			if r.Value != nil {
				head += ", " + h.text(r.Value)
			}
			head += " := range " + h.text(r.X)
			loopHeads = append(loopHeads, head)
			loopBodies = append(loopBodies, skipLog(h, r.Body.List))
		}
	}
	m.strs("ensureLoopHeads", loopHeads, "the range loops of ensureDeploymentsMatchGateways, in order")
	for i, b := range loopBodies {
		m.strs("ensureLoopBody"+string(rune('0'+i)), b, "statements (minus logging) of loop "+string(rune('0'+i)))
	}

	// --- setGatewayClassStatuses: the accepted/conflict branch and the panic guard
	sgs := h.fn("eventHandler", "setGatewayClassStatuses")
	var ifs []string
	walk(sgs.Body, func(n ast.Node) bool {
		if is, ok := n.(*ast.IfStmt); ok {
			t := h.text(is)
			if strings.Contains(t, "gcExists") {
				ifs = append(ifs, t)
			}
		}
		return true
	})
	m.strs("gcExistsStatements", ifs, "if statements of setGatewayClassStatuses that mention gcExists")
	last := ""
	if n := len(sgs.Body.List); n > 0 {
		last = h.text(sgs.Body.List[n-1])
	}
	m.str("setStatusesLastStatement", last, "last statement of setGatewayClassStatuses (after the panic guard)")
	firstConds := ""
	walk(sgs.Body, func(n ast.Node) bool {
		if as, ok := n.(*ast.AssignStmt); ok && firstConds == "" && len(as.Lhs) == 1 && h.text(as.Lhs[0]) == "conds" &&
			as.Tok == token.DEFINE {
			firstConds = h.text(as)
		}
		return true
	})
	m.str("condsInit", firstConds, "initialisation of conds in the loop of setGatewayClassStatuses")

	// --- prepareDeployment
	prep := d.fn("", "prepareDeployment")
	var assigns []string
	for _, s := range prep.Body.List {
		if as, ok := s.(*ast.AssignStmt); ok && as.Tok == token.ASSIGN {
			assigns = append(assigns, d.text(as))
		}
	}
	m.strs("prepareAssignments", assigns, "plain assignments at the top level of prepareDeployment")
	var finalArgs []string
	walk(prep.Body, func(n ast.Node) bool {
		as, ok := n.(*ast.AssignStmt)
		if !ok || len(as.Lhs) != 1 || d.text(as.Lhs[0]) != "finalArgs" || as.Tok != token.DEFINE {
			return true
		}
		if cl, ok := as.Rhs[0].(*ast.CompositeLit); ok {
			for _, e := range cl.Elts {
				finalArgs = append(finalArgs, d.text(e))
			}
		}
		return true
	})
	m.strs("finalArgsInit", finalArgs, "elements of the finalArgs literal in prepareDeployment")
	var rewriteLoop []string
	for _, s := range prep.Body.List {
		if r, ok := s.(*ast.RangeStmt); ok {
			rewriteLoop = append(rewriteLoop, "for "+d.text(r.Key)+", "+d.text(r.Value)+" := range "+d.text(r.X))
			rewriteLoop = append(rewriteLoop, d.stmts(r.Body)...)
		}
	}
	m.strs("argRewriteLoop", rewriteLoop, "the arg rewriting loop of prepareDeployment (head, then body statements)")

	// --- store.update: accepted kinds
	upd := st.fn("store", "update")
	var upsertKinds, deleteKinds, assignsStore []string
	walk(upd.Body, func(n ast.Node) bool {
		ts, ok := n.(*ast.TypeSwitchStmt)
		if !ok {
			return true
		}
		tag := st.text(ts.Assign)
		for _, c := range ts.Body.List {
			cc := c.(*ast.CaseClause)
			for _, t := range cc.List {
				switch {
				case strings.Contains(tag, "e.Resource"):
					upsertKinds = append(upsertKinds, st.text(t))
				case strings.Contains(tag, "e.Type"):
					deleteKinds = append(deleteKinds, st.text(t))
				}
			}
			if !strings.Contains(tag, "event.(type)") {
				for _, b := range cc.Body {
					if _, isPanic := b.(*ast.ExprStmt); isPanic && strings.HasPrefix(st.text(b), "panic(") {
						continue
					}
					assignsStore = append(assignsStore, st.text(b))
				}
			}
		}
		return true
	})
	m.strs("storeUpsertKinds", upsertKinds, "resource kinds accepted by store.update in an UpsertEvent")
	m.strs("storeDeleteKinds", deleteKinds, "resource kinds accepted by store.update in a DeleteEvent")
	m.strs("storeActions", assignsStore, "map updates performed by store.update, in case order")

	// --- the embedded manifest: args of the first container
	emb := src("embedded.go")
	path := ""
	for _, cg := range emb.f.Comments {
		for _, c := range cg.List {
			if strings.HasPrefix(c.Text, "//go:embed ") {
				path = strings.TrimSpace(strings.TrimPrefix(c.Text, "//go:embed "))
			}
		}
	}
	m.str("manifestPath", path, "file embedded as StaticModeDeploymentYAML")
	args := []string{}
	if data, err := os.ReadFile(filepath.Join(repo, path)); err != nil {
		fail("ProvisionerFacts: cannot read manifest %q: %v", path, err)
	} else {
		args = manifestArgs(string(data))
	}
	m.strs("templateArgs", args, "args of the first `args:` list of the manifest (line-based reading; cross-checked against yaml.Unmarshal by the harness)")
}

// manifestArgs reads the first block-style `args:` sequence of scalars.
func manifestArgs(y string) []string {
	out := []string{}
	lines := strings.Split(y, "\n")
	for i, l := range lines {
		t := strings.TrimSpace(l)
		if t != "args:" && t != "- args:" {
			continue
		}
		for _, a := range lines[i+1:] {
			ta := strings.TrimSpace(a)
			if !strings.HasPrefix(ta, "- ") {
				break
			}
			v := strings.TrimSpace(strings.TrimPrefix(ta, "- "))
			if len(v) >= 2 && (v[0] == '"' && v[len(v)-1] == '"' || v[0] == '\'' && v[len(v)-1] == '\'') {
				v = v[1 : len(v)-1]
			}
			out = append(out, v)
		}
		return out
	}
	return out
}
