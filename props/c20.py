"""C20 — command-line validation accepts every documented value and nothing unsafe (DESIGN.md §6 C20)."""
import collections
import hashlib
import json
import os

import vcheck

def build_gateway(ctx):
    """go build the real cmd/gateway with the C20 overlay (line-protocol server in init()); returns the path or None."""
    repo = vcheck.REPO
    tag = hashlib.sha1(repo.encode()).hexdigest()[:8]
    ov = os.path.join(vcheck.WORK, f"c20-overlay-{tag}.json")
    src = os.path.join(vcheck.VERIF, "overlay", "cmd", "gateway", "zz_verif_c20.go")
    want = json.dumps({"Replace": {os.path.join(repo, "cmd", "gateway", "zz_verif_c20.go"): src}})
    mod = os.path.join(vcheck.WORK, f"c20-gw-{tag}.mod")
    with vcheck.Lock("c20gw"):
        if not os.path.exists(ov) or open(ov).read() != want:
            open(ov, "w").write(want)
        # a private copy of go.mod/go.sum so that nothing is ever written into the repository
        for a, b in ((os.path.join(repo, "go.mod"), mod), (os.path.join(repo, "go.sum"), mod[:-4] + ".sum")):
            txt = open(a).read()
            if not os.path.exists(b) or open(b).read() != txt:
                open(b, "w").write(txt)
        out = os.path.join(ctx.bindir, "gateway_c20")
        rc, _, err = vcheck.sh(["go", "build", "-tags", "verif", "-modfile", mod, "-overlay", ov, "-o", out,
                                "./cmd/gateway"], cwd=repo, env=vcheck.GOENV)
    if rc != 0:
        ctx.build_errors.append("gateway+overlay: " + err[-3000:])
        ctx.log("gateway binary with the C20 overlay does not build:\n" + err[-1500:])
        return None
    return out


def unhex(h):
    return [bytes.fromhex(x).decode("latin-1") for x in h.split(",")] if h else []


def run(ctx):
    ctx.prepare()
    # NGF/Generated is shared by all checks: another check running against a different VERIF_REPO may
    # rewrite CliFacts.lean between our translator run and our builds.  Writers hold the translator
    # lock, so we keep it for the rest of this run, regenerate for OUR repository and rebuild the driver.
    with vcheck.Lock("translator"):
        vcheck.sh([vcheck.TRANSLATOR_BIN, "-repo", vcheck.REPO, "-out", vcheck.GENERATED])
        with vcheck.Lock("build"):
            rc, out, err = vcheck.sh(["lake", "build", "ngfdriver_C20"], cwd=vcheck.LEAN)
        if rc != 0:
            raise SystemExit(f"Lean driver does not build (framework error):\n{out}\n{err}")
        _run(ctx)


def _run(ctx):
    for e in getattr(ctx, "translator_errors", []):
        if "CliFacts" in e:
            ctx.broken(f"translator could not extract a C20 fact: {e}", kind="obligation")
    ctx.obligations("NGF.Props.C20")
    if ctx.tier == "thorough":
        ctx.leanchecker("NGF.Props.C20")

    gw = build_gateway(ctx)
    if not getattr(ctx, "harness_ok", False) or gw is None:
        ctx.broken("harness / gateway overlay does not build against the current tree",
                   detail="\n".join(ctx.build_errors))
        ctx.finish({"evaluations": 0, "distinct_nontrivial": 0, "rule": "nothing ran"})

    corpus_file = os.path.join(ctx.bindir, "corpus.txt")
    with open(corpus_file, "w") as f:
        for _, text in vcheck.corpus("C20"):
            f.write(text + "\n")
    n, nstatic, nrender = (2000, 1500, 400) if ctx.tier == "quick" else (150000, 40000, 6000)
    lines = ctx.harness(["-seed", ctx.seed, "-gw", gw, "-n", n, "-nstatic", nstatic, "-nrender", nrender,
                         "-corpus", corpus_file]) or []
    if ctx.harness_rc != 0 or not lines:
        ctx.broken(f"harness exited {ctx.harness_rc}: {ctx.harness_err[-800:]}")

    cases = []
    for l in lines:
        p = l.split(" ")
        if len(p) == 3:
            cases.append(p)
    model_in = [f"{op} {hx}" for op, hx, v in cases]
    model_cases = cases

    # ---- the property itself, evaluated by the Lean judge on the verdicts / rendered text of the real code
    verdicts = ctx.driver("judge", [" ".join(c) for c in cases])
    per_sig = collections.Counter()
    for (op, hx, v), j in zip(cases, verdicts):
        if j == "ok":
            continue
        sig = "C20:" + (j[5:] if j.startswith("fail ") else "judge-" + j)
        per_sig[sig] += 1
        if per_sig[sig] <= 3:
            args = unhex(hx)
            what = f"{op}({args[0] if args else ''!r}) -> {v}: {j}"
            if op == "render":
                what = f"mgmt.conf rendered by the real template for endpoint={args[0]!r} resolver={args[1]!r}: {j}"
            elif op == "static":
                what = f"static-mode command line {args[2:]!r} (telemetry endpoint {args[0]!r}) -> {v}: {j}"
            ctx.finding(sig, what, {"op": op, "args": args, "args_hex": hx, "impl_verdict": v, "judge": j})

    # ---- correspondence: the Lean model gives the same verdict class as the real code
    outs = ctx.driver("model", model_in)
    diffs = 0
    for (op, hx, v), out in zip(model_cases, outs):
        if out != v:
            diffs += 1
            if diffs <= 3:
                ctx.broken(f"model and implementation disagree on {op}({unhex(hx)!r}): impl {v} / model {out}",
                           replay={"op": op, "args": unhex(hx), "args_hex": hx, "impl": v, "model": out})

    by_op = collections.defaultdict(collections.Counter)
    for op, hx, v in cases:
        by_op[op][v.split(":")[0] + (":" + v.split(":")[1] if v.startswith("err:") else "")] += 1
    distinct = {(op, hx) for op, hx, v in cases}
    nontrivial = {(op, hx) for op, hx, v in cases if hx and (v in ("ok", "validated", "collision", "-") or
                                                                v.startswith("err:") and v not in ("err:empty",))}
    samples = [f"{op} {unhex(hx)!r} -> {v}" for op, hx, v in (cases[:2] + cases[len(cases) // 2:len(cases) // 2 + 2] +
                                                                [c for c in cases if c[0] == "static"][:2])]
    ctx.finish({
        "evaluations": len(cases),
        "distinct_nontrivial": len(nontrivial),
        "rule": "distinct (validator, input) pairs run through the real code (validators via the overlay server in the "
                "real gateway binary; static-mode command lines through the real cobra command; accepted usage-report "
                "values through the real mgmt template); non-trivial = input non-empty and the verdict is not the "
                "'must be set' return",
        "distinct_cases": len(distinct),
        "samples": samples,
        "traces_validated_against_impl": len(model_in) - diffs,
        "correspondence_diffs": diffs,
        "verdict_histogram_per_op": {op: dict(c) for op, c in sorted(by_op.items())},
        "judge_failures_per_signature": dict(per_sig),
        "port_sweep": "every port text 0..65536 x {h, 10.0.0.1, [2001:db8::1]} (validateEndpoint) and "
                      "x {dns.example.com, [::1]} (validateEndpointOptionalPort)",
    }, assumptions=[
        "net.SplitHostPort, net.ParseIP, strconv.ParseInt and the k8s validation helpers are modelled and compared "
        "with the real functions on every generated input (not proved)",
        "NGINX is not available: `ngx_conf_read_token` and the address syntax of `ngx_parse_url` (resolver) are a Lean "
        "environment model written from the NGINX sources; the mgmt module of NGINX Plus is closed source and its "
        "`usage_report endpoint=` argument is assumed to follow the same address syntax",
        "DNS resolution of accepted host names at configuration load time is outside the property",
    ], trusted=[
        "overlay/cmd/gateway/zz_verif_c20.go: line-protocol server calling the unexported validators and the real "
        "static-mode cobra command inside the real gateway binary (POD_IP unset, so the manager is never started)",
    ])
